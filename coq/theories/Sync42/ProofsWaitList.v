(* Sync42/ProofsWaitList.v — the ring-buffer wait list of ModelWaitList.v refines the specification
   machine wspec / sp_step / sp_run of the same file, and the "one head" invariants.
   Proofs only; nothing here is assumed (every lemma is Qed-closed, no axioms). *)
From Coq Require Import Arith List Bool Lia Sorted.
From Blue Require Import Sync42.ModelLru Sync42.ModelWaitList.
Import ListNotations.
Local Open Scope nat_scope.

Local Arguments Nat.modulo : simpl never.
Local Arguments Nat.div : simpl never.

(* T is inferred from the wait list / client / spec state everywhere below *)
Local Arguments s_linked {T}.
Local Arguments s_value {T}.
Local Arguments w_head {T}.
Local Arguments w_tail {T}.
Local Arguments w_waiting {T}.
Local Arguments w_slots {T}.
Local Arguments mkWl {T}.
Local Arguments nslots {T}.
Local Arguments slot_at {T}.
Local Arguments set_slot {T}.
Local Arguments with_head {T}.
Local Arguments with_tail {T}.
Local Arguments with_waiting {T}.
Local Arguments invariants_ok {T}.
Local Arguments wl_full {T}.
Local Arguments Linked {T}.
Local Arguments MustWait {T}.
Local Arguments wl_link_try {T}.
Local Arguments wl_link_wake {T}.
Local Arguments wl_advance {T}.
Local Arguments wl_unlink {T}.
Local Arguments wl_notify_head {T}.
Local Arguments wl_store {T}.
Local Arguments wl_load {T}.
Local Arguments wl_is_head {T}.
Local Arguments wl_count {T}.
Local Arguments mkClient {T}.
Local Arguments c_wl {T}.
Local Arguments c_owned {T}.
Local Arguments c_blocked {T}.
Local Arguments link_outcome {T}.
Local Arguments wstep {T}.
Local Arguments wrun {T}.
Local Arguments mkWspec {T}.
Local Arguments sp_n {T}.
Local Arguments sp_next {T}.
Local Arguments sp_live {T}.
Local Arguments sp_blocked {T}.
Local Arguments sp_head {T}.
Local Arguments sp_full {T}.
Local Arguments sp_link_try {T}.
Local Arguments sp_step {T}.
Local Arguments sp_run {T}.
Local Arguments live {T}.
Local Arguments is_head {T}.

(* ------------------------------------------------------------------ arithmetic *)

Lemma mod_window_inj : forall n h i j,
  0 < n -> h <= i < h + n -> h <= j < h + n -> i mod n = j mod n -> i = j.
Proof.
  intros n h i j Hn Hi Hj Hm.
  assert (Hdi := Nat.div_mod i n ltac:(lia)).
  assert (Hdj := Nat.div_mod j n ltac:(lia)).
  rewrite Hm in Hdi.
  remember (i / n) as qi eqn:Eqi. remember (j / n) as qj eqn:Eqj.
  remember (j mod n) as r eqn:Er.
  clear Eqi Eqj Er Hm.
  destruct (lt_eq_lt_dec qi qj) as [[Hlt | Heq] | Hgt].
  - assert (n * qi + n <= n * qj) by nia. lia.
  - subst qj. lia.
  - assert (n * qj + n <= n * qi) by nia. lia.
Qed.

(* ------------------------------------------------------------------ lists *)

Section ListLemmas.
  Variable A : Type.

  Lemma upd_length : forall i (x : A) l, length (upd i x l) = length l.
  Proof.
    intros i x l. revert i.
    induction l as [|y r IH]; intros [|i]; simpl; auto.
  Qed.

  Lemma nth_upd_same : forall i (x : A) l d, i < length l -> nth i (upd i x l) d = x.
  Proof.
    intros i x l d. revert i.
    induction l as [|y r IH]; intros [|i] H; simpl in *; try lia; auto.
    apply IH. lia.
  Qed.

  Lemma nth_upd_other : forall i j (x : A) l d, i <> j -> nth j (upd i x l) d = nth j l d.
  Proof.
    intros i j x l d. revert i j.
    induction l as [|y r IH]; intros [|i] [|j] H; simpl; auto; try lia.
  Qed.

  Lemma nth_upd : forall i j (x : A) l d,
    nth j (upd i x l) d = if i =? j then (if i <? length l then x else d) else nth j l d.
  Proof.
    intros i j x l d.
    destruct (Nat.eqb_spec i j) as [E | E].
    - subst j. destruct (Nat.ltb_spec i (length l)) as [L | L].
      + apply nth_upd_same; exact L.
      + apply nth_overflow. rewrite upd_length. exact L.
    - apply nth_upd_other; exact E.
  Qed.

  Lemma remove_nth_length : forall j (l : list A),
    j < length l -> S (length (remove_nth j l)) = length l.
  Proof.
    intros j l. revert j.
    induction l as [|y r IH]; intros [|j] H; simpl in *; try lia.
    rewrite IH; lia.
  Qed.

  Lemma In_remove_nth : forall j (l : list A) x, In x (remove_nth j l) -> In x l.
  Proof.
    intros j l. revert j.
    induction l as [|y r IH]; intros [|j] x H; simpl in *; auto.
    destruct H as [H | H]; [left; exact H | right; eapply IH; exact H].
  Qed.

  Lemma filter_all_true : forall (f : A -> bool) l,
    (forall x, In x l -> f x = true) -> filter f l = l.
  Proof.
    intros f l. induction l as [|y r IH]; intros H; simpl; auto.
    rewrite (H y (or_introl eq_refl)). f_equal. apply IH.
    intros x Hx. apply H. right; exact Hx.
  Qed.

  Lemma filter_all_false : forall (f : A -> bool) l,
    (forall x, In x l -> f x = false) -> filter f l = [].
  Proof.
    intros f l. induction l as [|y r IH]; intros H; simpl; auto.
    rewrite (H y (or_introl eq_refl)). apply IH.
    intros x Hx. apply H. right; exact Hx.
  Qed.

  Lemma filter_filter_ext : forall (f g h : A -> bool) l,
    (forall x, In x l -> h x = f x && g x) -> filter g (filter f l) = filter h l.
  Proof.
    intros f g h l. induction l as [|y r IH]; intros H; simpl; auto.
    rewrite (H y (or_introl eq_refl)).
    assert (IH' : filter g (filter f r) = filter h r).
    { apply IH. intros x Hx. apply H. right; exact Hx. }
    destruct (f y); simpl.
    - destruct (g y); rewrite IH'; reflexivity.
    - exact IH'.
  Qed.

  Lemma pick_none : forall k (l : list A), pick k l = None -> l = [].
  Proof. intros k [|x r] H; [reflexivity | discriminate H]. Qed.

  Lemma pick_some : forall k (l : list A) j x,
    pick k l = Some (j, x) -> j < length l /\ forall d, nth j l d = x.
  Proof.
    intros k [|y r] j x H; [discriminate H|].
    unfold pick in H. injection H as Hj Hx.
    assert (Hlt : j < length (y :: r)).
    { subst j. apply Nat.mod_upper_bound. simpl; lia. }
    split; [exact Hlt|].
    intro d. rewrite <- Hx, Hj.
    change (nth j (y :: r) d = nth j (y :: r) y).
    apply nth_indep. exact Hlt.
  Qed.

  Lemma pick_map : forall (B : Type) (f : A -> B) k (l : list A),
    pick k (map f l) =
    match pick k l with None => None | Some (j, x) => Some (j, f x) end.
  Proof.
    intros B f k [|y r]; [reflexivity|].
    unfold pick. change (map f (y :: r)) with (f y :: map f r) at 1.
    cbv iota. change (f y :: map f r) with (map f (y :: r)).
    rewrite map_length, map_nth. reflexivity.
  Qed.

  Lemma map_remove_nth : forall (B : Type) (f : A -> B) j (l : list A),
    map f (remove_nth j l) = remove_nth j (map f l).
  Proof.
    intros B f j l. revert j.
    induction l as [|y r IH]; intros [|j]; simpl; auto.
    rewrite IH; reflexivity.
  Qed.
End ListLemmas.

Arguments upd_length {A}.
Arguments nth_upd_same {A}.
Arguments nth_upd_other {A}.
Arguments remove_nth_length {A}.
Arguments In_remove_nth {A}.
Arguments filter_all_true {A}.
Arguments filter_all_false {A}.
Arguments filter_filter_ext {A}.
Arguments pick_none {A}.
Arguments pick_some {A}.
Arguments pick_map {A B}.
Arguments map_remove_nth {A B}.

Lemma remove_nth_filter : forall j (l : list nat) d,
  NoDup l -> j < length l ->
  remove_nth j l = filter (fun y => negb (y =? nth j l d)) l.
Proof.
  intros j l d. revert j.
  induction l as [|a r IH]; intros [|j] Hnd Hj; simpl in *; try lia.
  - rewrite Nat.eqb_refl. simpl.
    symmetry. apply filter_all_true.
    intros x Hx. apply negb_true_iff. apply Nat.eqb_neq.
    intro E; subst x. inversion Hnd; contradiction.
  - assert (Hin : In (nth j r d) r) by (apply nth_In; lia).
    assert (Hne : a <> nth j r d).
    { intro E. rewrite <- E in Hin. inversion Hnd; contradiction. }
    apply Nat.eqb_neq in Hne. rewrite Hne. simpl.
    f_equal. apply IH; [inversion Hnd; assumption | lia].
Qed.

Lemma SSorted_seq : forall n a, StronglySorted lt (seq a n).
Proof.
  induction n as [|n IH]; intro a; simpl; constructor.
  - apply IH.
  - apply Forall_forall. intros x Hx. apply in_seq in Hx. lia.
Qed.

Lemma SSorted_filter : forall (f : nat -> bool) l,
  StronglySorted lt l -> StronglySorted lt (filter f l).
Proof.
  intros f l H. induction H as [|a l Hs IH Hf]; simpl; [constructor|].
  destruct (f a); [|exact IH].
  constructor; [exact IH|].
  apply Forall_forall. intros x Hx. apply filter_In in Hx.
  rewrite Forall_forall in Hf. apply Hf. tauto.
Qed.

Lemma SSorted_NoDup : forall l, StronglySorted lt l -> NoDup l.
Proof.
  intros l H. induction H as [|a l Hs IH Hf]; constructor; [|exact IH].
  intro Hin. rewrite Forall_forall in Hf. specialize (Hf a Hin). lia.
Qed.

Section PairLemmas.
  Variable B : Type.

  Lemma map_fst_upd : forall k (l : list (nat * B)) d i v t,
    nth k l d = (i, v) -> k < length l -> map fst (upd k (i, t) l) = map fst l.
  Proof.
    intros k l d i v t. revert k.
    induction l as [|[a b] r IH]; intros [|k] Hn Hk; simpl in *; try lia.
    - injection Hn as Ha Hb. subst a. reflexivity.
    - f_equal. apply IH; [exact Hn | lia].
  Qed.

  Lemma In_upd_nodup : forall k (l : list (nat * B)) d i v0 t j v,
    NoDup (map fst l) -> k < length l -> nth k l d = (i, v0) ->
    In (j, v) (upd k (i, t) l) ->
    (j = i /\ v = t) \/ (j <> i /\ In (j, v) l).
  Proof.
    intros k l d i v0 t j v. revert k.
    induction l as [|[a b] r IH]; intros [|k] Hnd Hk Hn Hin; simpl in *; try lia.
    - injection Hn as Ha Hb. subst a b.
      inversion Hnd as [|x xs Hnotin Hnd']; subst.
      destruct Hin as [Hin | Hin].
      + injection Hin as E1 E2. left; split; congruence.
      + right. split; [|right; exact Hin].
        intro E; subst j. apply Hnotin.
        apply in_map_iff. exists (i, v). split; [reflexivity | exact Hin].
    - inversion Hnd as [|x xs Hnotin Hnd']; subst.
      destruct Hin as [Hin | Hin].
      + injection Hin as E1 E2. subst a b.
        right. split; [|left; reflexivity].
        intro E; subst j. apply Hnotin.
        apply in_map_iff. exists (i, v0). split; [reflexivity|].
        rewrite <- Hn. apply nth_In. lia.
      + destruct (IH k Hnd' ltac:(lia) Hn Hin) as [Hl | [Hr1 Hr2]].
        * left; exact Hl.
        * right; split; [exact Hr1 | right; exact Hr2].
  Qed.
End PairLemmas.

Arguments map_fst_upd {B}.
Arguments In_upd_nodup {B}.

(* ------------------------------------------------------------------ the ring *)

Section WlProofs.
  Variable T : Type.

  (* ---- 1. well-formedness of the ring ---- *)
  Definition wl_wf (w : wl T) : Prop :=
    0 < nslots w /\
    w_head w <= w_tail w /\
    w_tail w - w_head w <= nslots w /\
    (w_head w = w_tail w \/ s_linked (slot_at w (w_head w)) = true) /\
    (* a ring slot that is not the slot of an index of the window is empty *)
    (forall p, p < nslots w ->
       (forall i, w_head w <= i < w_tail w -> i mod nslots w <> p) ->
       nth p (w_slots w) (empty_slot T) = empty_slot T) /\
    (* a linked waiter holds a value *)
    (forall i, w_head w <= i < w_tail w ->
       s_linked (slot_at w i) = true -> s_value (slot_at w i) <> None).

  (* the same without "the head is linked": holds inside _unlink, between clearing the flag and the
     end of the head-advance loop *)
  Definition wl_wf0 (w : wl T) : Prop :=
    0 < nslots w /\
    w_head w <= w_tail w /\
    w_tail w - w_head w <= nslots w /\
    (forall p, p < nslots w ->
       (forall i, w_head w <= i < w_tail w -> i mod nslots w <> p) ->
       nth p (w_slots w) (empty_slot T) = empty_slot T) /\
    (forall i, w_head w <= i < w_tail w ->
       s_linked (slot_at w i) = true -> s_value (slot_at w i) <> None).

  Lemma wl_wf_split : forall w, wl_wf w ->
    wl_wf0 w /\ (w_head w = w_tail w \/ s_linked (slot_at w (w_head w)) = true).
  Proof. unfold wl_wf, wl_wf0. intros w H. tauto. Qed.

  Lemma wl_wf_join : forall w, wl_wf0 w ->
    (w_head w = w_tail w \/ s_linked (slot_at w (w_head w)) = true) -> wl_wf w.
  Proof. unfold wl_wf, wl_wf0. intros w H H4. tauto. Qed.

  (* ---- field lemmas ---- *)
  Lemma nslots_set_slot : forall (w : wl T) i s, nslots (set_slot w i s) = nslots w.
  Proof. intros w i s. unfold nslots, set_slot. cbn [w_slots]. apply upd_length. Qed.

  Lemma slots_set_slot : forall (w : wl T) i s,
    w_slots (set_slot w i s) = upd (i mod nslots w) s (w_slots w).
  Proof. reflexivity. Qed.

  Lemma slot_at_set_same : forall (w : wl T) i s,
    0 < nslots w -> slot_at (set_slot w i s) i = s.
  Proof.
    intros w i s Hn. unfold slot_at. rewrite nslots_set_slot, slots_set_slot.
    apply nth_upd_same. apply Nat.mod_upper_bound. unfold nslots in Hn. unfold nslots. lia.
  Qed.

  Lemma slot_at_set_other : forall (w : wl T) h i j s,
    0 < nslots w -> h <= i < h + nslots w -> h <= j < h + nslots w -> i <> j ->
    slot_at (set_slot w i s) j = slot_at w j.
  Proof.
    intros w h i j s Hn Hi Hj Hne. unfold slot_at. rewrite nslots_set_slot, slots_set_slot.
    apply nth_upd_other. intro E. apply Hne.
    eapply mod_window_inj; [exact Hn | exact Hi | exact Hj | exact E].
  Qed.

  Lemma wf_invariants_ok : forall w, wl_wf w -> invariants_ok w = true.
  Proof.
    intros w Hwf. destruct (wl_wf_split w Hwf) as [_ H4].
    unfold invariants_ok. apply orb_true_iff.
    destruct H4 as [H4 | H4]; [left; apply Nat.eqb_eq; exact H4 | right; exact H4].
  Qed.

  (* ---- live ---- *)
  Lemma in_live : forall (w : wl T) i,
    In i (live w) <-> (w_head w <= i < w_tail w /\ s_linked (slot_at w i) = true).
  Proof.
    intros w i. unfold live. rewrite filter_In, in_seq.
    split; intros [H1 H2]; (split; [lia | exact H2]).
  Qed.

  Lemma live_sorted : forall (w : wl T), StronglySorted lt (live w).
  Proof. intro w. unfold live. apply SSorted_filter, SSorted_seq. Qed.

  Lemma live_nodup : forall (w : wl T), NoDup (live w).
  Proof. intro w. apply SSorted_NoDup, live_sorted. Qed.

  Lemma live_hd : forall w, wl_wf w -> w_head w = hd (w_tail w) (live w).
  Proof.
    intros w Hwf. destruct (wl_wf_split w Hwf) as [(Hn & Hht & _) H4].
    unfold live.
    destruct (Nat.eq_dec (w_head w) (w_tail w)) as [E | E].
    - rewrite E, Nat.sub_diag. reflexivity.
    - destruct H4 as [H4 | H4]; [contradiction|].
      replace (w_tail w - w_head w) with (S (w_tail w - S (w_head w))) by lia.
      cbn [seq filter]. rewrite H4. reflexivity.
  Qed.

  Lemma live_nil_head : forall w, wl_wf w -> live w = [] -> w_head w = w_tail w.
  Proof. intros w Hwf E. rewrite (live_hd w Hwf), E. reflexivity. Qed.

  Lemma live_ext : forall (w w' : wl T),
    w_head w' = w_head w -> w_tail w' = w_tail w ->
    (forall j, w_head w <= j < w_tail w -> s_linked (slot_at w' j) = s_linked (slot_at w j)) ->
    live w' = live w.
  Proof.
    intros w w' Hh Ht H. unfold live. rewrite Hh, Ht.
    apply filter_ext_in. intros j Hj. apply in_seq in Hj. apply H. lia.
  Qed.

  (* the head may skip unlinked slots without changing the linked set *)
  Lemma live_skip : forall (w w' : wl T),
    w_tail w' = w_tail w -> w_head w <= w_head w' <= w_tail w ->
    (forall j, w_head w' <= j < w_tail w -> slot_at w' j = slot_at w j) ->
    (forall j, w_head w <= j < w_head w' -> s_linked (slot_at w j) = false) ->
    live w' = live w.
  Proof.
    intros w w' Ht Hh Hsame Hunl. unfold live. rewrite Ht.
    replace (w_tail w - w_head w)
      with ((w_head w' - w_head w) + (w_tail w - w_head w')) by lia.
    rewrite seq_app, filter_app.
    replace (w_head w + (w_head w' - w_head w)) with (w_head w') by lia.
    rewrite (filter_all_false _ (seq (w_head w) (w_head w' - w_head w))).
    - cbn [app]. apply filter_ext_in. intros j Hj. apply in_seq in Hj.
      rewrite Hsame; [reflexivity | lia].
    - intros j Hj. apply in_seq in Hj. apply Hunl. lia.
  Qed.

  (* ---- writing a slot of the window ---- *)
  Lemma set_slot_wf0 : forall w i s,
    wl_wf0 w -> w_head w <= i < w_tail w ->
    (s_linked s = true -> s_value s <> None) ->
    wl_wf0 (set_slot w i s).
  Proof.
    intros w i s (Hn & Hht & Hsz & Hemp & Hval) Hi Hs.
    unfold wl_wf0. rewrite nslots_set_slot.
    change (w_head (set_slot w i s)) with (w_head w).
    change (w_tail (set_slot w i s)) with (w_tail w).
    split; [exact Hn|]. split; [exact Hht|]. split; [exact Hsz|]. split.
    - intros p Hp Hall. rewrite slots_set_slot.
      rewrite nth_upd_other; [apply Hemp; assumption | apply Hall; exact Hi].
    - intros j Hj Hl.
      destruct (Nat.eq_dec i j) as [E | E].
      + subst j. rewrite slot_at_set_same in * by exact Hn. apply Hs; exact Hl.
      + rewrite (slot_at_set_other w (w_head w)) in * by lia.
        apply Hval; assumption.
  Qed.

  (* ---- the head-advance loop ---- *)
  Lemma advance_step : forall w,
    wl_wf0 w -> w_head w < w_tail w -> s_linked (slot_at w (w_head w)) = false ->
    let w1 := with_head (set_slot w (w_head w) (mkSlot (s_linked (slot_at w (w_head w))) None))
                        (S (w_head w)) in
    wl_wf0 w1 /\ (forall j, w_head w < j < w_tail w -> slot_at w1 j = slot_at w j).
  Proof.
    intros w (Hn & Hht & Hsz & Hemp & Hval) Hlt Hunl w1.
    assert (Hsame : forall j, w_head w < j < w_tail w -> slot_at w1 j = slot_at w j).
    { intros j Hj. subst w1.
      change (slot_at (set_slot w (w_head w) (mkSlot (s_linked (slot_at w (w_head w))) None)) j
              = slot_at w j).
      apply (slot_at_set_other w (w_head w)); lia. }
    split; [|exact Hsame].
    unfold wl_wf0.
    change (nslots w1) with
      (nslots (set_slot w (w_head w) (mkSlot (s_linked (slot_at w (w_head w))) None))).
    rewrite nslots_set_slot.
    change (w_head w1) with (S (w_head w)). change (w_tail w1) with (w_tail w).
    split; [exact Hn|]. split; [lia|]. split; [lia|]. split.
    - intros p Hp Hall.
      change (w_slots w1) with
        (w_slots (set_slot w (w_head w) (mkSlot (s_linked (slot_at w (w_head w))) None))).
      rewrite slots_set_slot.
      destruct (Nat.eq_dec (w_head w mod nslots w) p) as [E | E].
      + rewrite <- E. rewrite nth_upd_same.
        * rewrite Hunl. reflexivity.
        * apply Nat.mod_upper_bound. unfold nslots in *. lia.
      + rewrite nth_upd_other by exact E.
        apply Hemp; [exact Hp|].
        intros i Hi. destruct (Nat.eq_dec i (w_head w)) as [Ei | Ei].
        * subst i. exact E.
        * apply Hall. lia.
    - intros j Hj Hl. rewrite Hsame in * by lia. apply Hval; [lia | exact Hl].
  Qed.

  Lemma advance_spec : forall fuel w,
    wl_wf0 w -> w_tail w - w_head w <= fuel ->
    let w' := wl_advance fuel w in
    wl_wf w' /\ nslots w' = nslots w /\ w_tail w' = w_tail w /\ w_waiting w' = w_waiting w /\
    w_head w <= w_head w' <= w_tail w /\
    (forall j, w_head w' <= j < w_tail w -> slot_at w' j = slot_at w j) /\
    (forall j, w_head w <= j < w_head w' -> s_linked (slot_at w j) = false).
  Proof.
    induction fuel as [|f IH]; intros w Hwf0 Hfuel.
    - cbn [wl_advance]. destruct Hwf0 as (Hn & Hht & Hrest).
      split; [apply wl_wf_join; [split; [exact Hn | split; [exact Hht | exact Hrest]] | left; lia]|].
      split; [reflexivity|]. split; [reflexivity|]. split; [reflexivity|]. split; [lia|].
      split; [intros; reflexivity | intros; lia].
    - cbn [wl_advance].
      destruct ((w_head w <? w_tail w) && negb (s_linked (slot_at w (w_head w)))) eqn:Hc.
      + apply andb_true_iff in Hc. destruct Hc as [Hlt Hunl].
        apply Nat.ltb_lt in Hlt. apply negb_true_iff in Hunl.
        destruct (advance_step w Hwf0 Hlt Hunl) as [Hwf1 Hsame1].
        set (w1 := with_head (set_slot w (w_head w)
                     (mkSlot (s_linked (slot_at w (w_head w))) None)) (S (w_head w))) in *.
        assert (Hn1 : nslots w1 = nslots w).
        { change (nslots w1) with
            (nslots (set_slot w (w_head w) (mkSlot (s_linked (slot_at w (w_head w))) None))).
          apply nslots_set_slot. }
        assert (Hf1 : w_tail w1 - w_head w1 <= f).
        { change (w_tail w1) with (w_tail w). change (w_head w1) with (S (w_head w)). lia. }
        destruct (IH w1 Hwf1 Hf1) as (Hwf' & Hn' & Ht' & Hw' & Hh' & Hsame' & Hunl').
        change (w_tail w1) with (w_tail w) in *.
        change (w_head w1) with (S (w_head w)) in *.
        change (w_waiting w1) with (w_waiting w) in *.
        split; [exact Hwf'|]. split; [congruence|]. split; [exact Ht'|].
        split; [exact Hw'|]. split; [lia|]. split.
        * intros j Hj. rewrite Hsame' by exact Hj. apply Hsame1. lia.
        * intros j Hj. destruct (Nat.eq_dec j (w_head w)) as [E | E].
          -- subst j. exact Hunl.
          -- rewrite <- Hsame1 by lia. apply Hunl'. lia.
      + destruct Hwf0 as (Hn & Hht & Hrest).
        split.
        { apply wl_wf_join; [split; [exact Hn | split; [exact Hht | exact Hrest]]|].
          apply andb_false_iff in Hc. destruct Hc as [Hc | Hc].
          - apply Nat.ltb_ge in Hc. left; lia.
          - apply negb_false_iff in Hc. right; exact Hc. }
        split; [reflexivity|]. split; [reflexivity|]. split; [reflexivity|]. split; [lia|].
        split; [intros; reflexivity | intros; lia].
  Qed.

  (* ---- _unlink ---- *)
  Definition unlink_mid (w : wl T) (i : nat) : wl T :=
    set_slot w i (mkSlot false (s_value (slot_at w i))).

  Lemma wl_unlink_unfold : forall w i,
    wl_unlink w i =
    if negb (invariants_ok w) then Panic else
    if negb (s_linked (slot_at w i)) then Panic else
    let w2 := wl_advance (w_tail w - w_head w) (unlink_mid w i) in
    if negb (invariants_ok w2) then Panic else Ok (w2, 0 <? w_waiting w2).
  Proof. reflexivity. Qed.

  Lemma unlink_spec : forall w i, wl_wf w -> In i (live w) ->
    exists w', wl_unlink w i = Ok (w', 0 <? w_waiting w) /\
      wl_wf w' /\ nslots w' = nslots w /\ w_tail w' = w_tail w /\
      w_waiting w' = w_waiting w /\
      live w' = filter (fun j => negb (j =? i)) (live w) /\
      (forall j, In j (live w') -> slot_at w' j = slot_at w j) /\
      w_head w <= w_head w' /\
      (i <> w_head w -> w_head w' = w_head w).
  Proof.
    intros w i Hwf Hin.
    assert (Hinv := wf_invariants_ok w Hwf).
    apply in_live in Hin. destruct Hin as [Hi Hl].
    destruct (wl_wf_split w Hwf) as [Hwf0 H4].
    assert (Hwf1 : wl_wf0 (unlink_mid w i)).
    { apply set_slot_wf0; [exact Hwf0 | exact Hi | cbn [s_linked]; discriminate]. }
    destruct Hwf0 as (Hn & Hht & Hsz & Hemp & Hval).
    assert (Hmid_i : slot_at (unlink_mid w i) i = mkSlot false (s_value (slot_at w i))).
    { apply slot_at_set_same. exact Hn. }
    assert (Hmid_o : forall j, w_head w <= j < w_tail w -> j <> i ->
                       slot_at (unlink_mid w i) j = slot_at w j).
    { intros j Hj Hne. apply (slot_at_set_other w (w_head w)); lia. }
    assert (Hfuel : w_tail (unlink_mid w i) - w_head (unlink_mid w i) <= w_tail w - w_head w)
      by apply le_n.
    destruct (advance_spec (w_tail w - w_head w) (unlink_mid w i) Hwf1 Hfuel)
      as (Hwf2 & Hn2 & Ht2 & Hw2 & Hh2 & Hsame & Hunl).
    change (w_tail (unlink_mid w i)) with (w_tail w) in *.
    change (w_head (unlink_mid w i)) with (w_head w) in *.
    change (w_waiting (unlink_mid w i)) with (w_waiting w) in *.
    assert (Hnm : nslots (unlink_mid w i) = nslots w) by apply nslots_set_slot.
    rewrite Hnm in Hn2.
    set (w2 := wl_advance (w_tail w - w_head w) (unlink_mid w i)) in *.
    assert (Hlive1 : live (unlink_mid w i) = filter (fun j => negb (j =? i)) (live w)).
    { unfold live.
      change (w_tail (unlink_mid w i)) with (w_tail w).
      change (w_head (unlink_mid w i)) with (w_head w).
      symmetry. apply filter_filter_ext.
      intros j Hj. apply in_seq in Hj.
      destruct (Nat.eqb_spec j i) as [E | E].
      - subst j. rewrite Hmid_i. cbn [s_linked negb]. rewrite andb_false_r. reflexivity.
      - rewrite Hmid_o by lia. cbn [negb]. rewrite andb_true_r. reflexivity. }
    assert (Hlive2 : live w2 = live (unlink_mid w i)).
    { apply live_skip; [exact Ht2 | exact Hh2 | exact Hsame | exact Hunl]. }
    exists w2.
    split.
    { rewrite wl_unlink_unfold, Hinv, Hl. cbn [negb]. fold w2. cbv zeta.
      rewrite (wf_invariants_ok w2 Hwf2). cbn [negb]. rewrite Hw2. reflexivity. }
    split; [exact Hwf2|]. split; [exact Hn2|]. split; [exact Ht2|]. split; [exact Hw2|].
    split; [rewrite Hlive2; exact Hlive1|].
    split.
    { intros j Hj.
      assert (Hj' := Hj). rewrite Hlive2, Hlive1 in Hj'.
      apply filter_In in Hj'. destruct Hj' as [Hj1 Hj2].
      apply negb_true_iff in Hj2. apply Nat.eqb_neq in Hj2.
      apply in_live in Hj. destruct Hj as [Hjr _]. rewrite Ht2 in Hjr.
      rewrite Hsame by exact Hjr. apply Hmid_o; [lia | exact Hj2]. }
    split; [lia|].
    intro Hne.
    destruct (Nat.eq_dec (w_head w2) (w_head w)) as [E | E]; [exact E|].
    exfalso.
    assert (Hu : s_linked (slot_at (unlink_mid w i) (w_head w)) = false) by (apply Hunl; lia).
    rewrite Hmid_o in Hu by lia.
    destruct H4 as [H4 | H4]; [lia | congruence].
  Qed.

  (* ---- link ---- *)
  Definition link_new (w : wl T) (t : T) : wl T :=
    set_slot (with_tail w (S (w_tail w))) (w_tail w) (mkSlot true (Some t)).

  Lemma wl_link_try_unfold : forall w t,
    wl_link_try w t =
    if wl_full w then
      if negb (invariants_ok w) then Panic
      else Ok (MustWait (with_waiting w (S (w_waiting w))))
    else
      if negb (invariants_ok (link_new w t)) then Panic
      else Ok (Linked (link_new w t) (w_tail w)).
  Proof. reflexivity. Qed.

  Lemma with_tail_wf0 : forall w,
    wl_wf0 w -> w_tail w - w_head w < nslots w ->
    wl_wf0 (with_tail w (S (w_tail w))).
  Proof.
    intros w (Hn & Hht & Hsz & Hemp & Hval) Hlt.
    assert (He : slot_at w (w_tail w) = empty_slot T).
    { unfold slot_at. apply Hemp.
      - apply Nat.mod_upper_bound. unfold nslots in *. lia.
      - intros j Hj E.
        assert (j = w_tail w)
          by (apply (mod_window_inj (nslots w) (w_head w)); [exact Hn | lia | lia | exact E]).
        lia. }
    unfold wl_wf0.
    change (nslots (with_tail w (S (w_tail w)))) with (nslots w).
    change (w_head (with_tail w (S (w_tail w)))) with (w_head w).
    change (w_tail (with_tail w (S (w_tail w)))) with (S (w_tail w)).
    change (w_slots (with_tail w (S (w_tail w)))) with (w_slots w).
    split; [exact Hn|]. split; [lia|]. split; [lia|]. split.
    - intros p Hp Hall. apply Hemp; [exact Hp|]. intros i Hi. apply Hall. lia.
    - intros i Hi.
      change (slot_at (with_tail w (S (w_tail w))) i) with (slot_at w i).
      destruct (Nat.eq_dec i (w_tail w)) as [E | E].
      + subst i. rewrite He. cbn [s_linked empty_slot]. discriminate.
      + apply Hval. lia.
  Qed.

  Lemma nslots_link_new : forall w t, nslots (link_new w t) = nslots w.
  Proof. intros w t. unfold link_new. rewrite nslots_set_slot. reflexivity. Qed.

  Lemma link_new_spec : forall w t, wl_wf w -> wl_full w = false ->
    wl_wf (link_new w t) /\
    live (link_new w t) = live w ++ [w_tail w] /\
    slot_at (link_new w t) (w_tail w) = mkSlot true (Some t) /\
    (forall j, w_head w <= j < w_tail w -> slot_at (link_new w t) j = slot_at w j).
  Proof.
    intros w t Hwf Hfull.
    destruct (wl_wf_split w Hwf) as [Hwf0 H4].
    assert (Hwf0' := Hwf0). destruct Hwf0' as (Hn & Hht & Hsz & Hemp & Hval).
    unfold wl_full in Hfull. apply Nat.leb_gt in Hfull.
    assert (Hwf1 : wl_wf0 (with_tail w (S (w_tail w)))) by (apply with_tail_wf0; [exact Hwf0 | lia]).
    assert (Hnew : slot_at (link_new w t) (w_tail w) = mkSlot true (Some t)).
    { unfold link_new. apply slot_at_set_same. exact Hn. }
    assert (Hold : forall j, w_head w <= j < w_tail w -> slot_at (link_new w t) j = slot_at w j).
    { intros j Hj. unfold link_new.
      rewrite (slot_at_set_other (with_tail w (S (w_tail w))) (w_head w)).
      - reflexivity.
      - exact Hn.
      - change (nslots (with_tail w (S (w_tail w)))) with (nslots w). lia.
      - change (nslots (with_tail w (S (w_tail w)))) with (nslots w). lia.
      - lia. }
    split; [|split; [|split; [exact Hnew | exact Hold]]].
    - apply wl_wf_join.
      + unfold link_new. apply set_slot_wf0; [exact Hwf1 | | cbn [s_value]; discriminate].
        change (w_head (with_tail w (S (w_tail w)))) with (w_head w).
        change (w_tail (with_tail w (S (w_tail w)))) with (S (w_tail w)). lia.
      + right. change (w_head (link_new w t)) with (w_head w).
        destruct (Nat.eq_dec (w_head w) (w_tail w)) as [E | E].
        * rewrite E, Hnew. reflexivity.
        * rewrite Hold by lia. destruct H4 as [H4 | H4]; [contradiction | exact H4].
    - unfold live.
      change (w_head (link_new w t)) with (w_head w).
      change (w_tail (link_new w t)) with (S (w_tail w)).
      replace (S (w_tail w) - w_head w) with (S (w_tail w - w_head w)) by lia.
      rewrite seq_S, filter_app.
      replace (w_head w + (w_tail w - w_head w)) with (w_tail w) by lia.
      f_equal.
      + apply filter_ext_in. intros j Hj. apply in_seq in Hj. rewrite Hold by lia. reflexivity.
      + cbn [filter]. rewrite Hnew. reflexivity.
  Qed.

  (* ---- store ---- *)
  Lemma store_spec : forall w i t, wl_wf w -> In i (live w) ->
    wl_wf (wl_store w i t) /\
    nslots (wl_store w i t) = nslots w /\
    live (wl_store w i t) = live w /\
    s_value (slot_at (wl_store w i t) i) = Some t /\
    (forall j, w_head w <= j < w_tail w -> j <> i -> slot_at (wl_store w i t) j = slot_at w j).
  Proof.
    intros w i t Hwf Hin.
    apply in_live in Hin. destruct Hin as [Hi Hl].
    destruct (wl_wf_split w Hwf) as [Hwf0 H4].
    assert (Hwf0' := Hwf0). destruct Hwf0' as (Hn & Hht & Hsz & Hemp & Hval).
    assert (Hsame : slot_at (wl_store w i t) i = mkSlot (s_linked (slot_at w i)) (Some t)).
    { unfold wl_store. apply slot_at_set_same. exact Hn. }
    assert (Hother : forall j, w_head w <= j < w_tail w -> j <> i ->
                       slot_at (wl_store w i t) j = slot_at w j).
    { intros j Hj Hne. unfold wl_store. apply (slot_at_set_other w (w_head w)); lia. }
    assert (Hlinked : forall j, w_head w <= j < w_tail w ->
                        s_linked (slot_at (wl_store w i t) j) = s_linked (slot_at w j)).
    { intros j Hj. destruct (Nat.eq_dec j i) as [E | E].
      - subst j. rewrite Hsame. reflexivity.
      - rewrite Hother by assumption. reflexivity. }
    split; [|split; [|split; [|split]]].
    - apply wl_wf_join.
      + unfold wl_store. apply set_slot_wf0; [exact Hwf0 | exact Hi | cbn [s_value]; discriminate].
      + change (w_head (wl_store w i t)) with (w_head w).
        change (w_tail (wl_store w i t)) with (w_tail w).
        destruct H4 as [H4 | H4]; [left; exact H4 | right].
        rewrite Hlinked by lia. exact H4.
    - unfold wl_store. apply nslots_set_slot.
    - apply live_ext; [reflexivity | reflexivity | exact Hlinked].
    - rewrite Hsame. reflexivity.
    - exact Hother.
  Qed.

  (* ---- 2. the refinement relation ---- *)
  Definition wl_rel (c : client T) (s : wspec T) : Prop :=
    wl_wf (c_wl c) /\
    nslots (c_wl c) = sp_n s /\
    w_tail (c_wl c) = sp_next s /\
    w_head (c_wl c) = sp_head s /\
    c_owned c = map fst (sp_live s) /\
    live (c_wl c) = c_owned c /\
    (forall i v, In (i, v) (sp_live s) -> s_value (slot_at (c_wl c) i) = Some v) /\
    c_blocked c = sp_blocked s /\
    w_waiting (c_wl c) = length (sp_blocked s) /\
    StronglySorted lt (map fst (sp_live s)) /\
    (forall i, In i (map fst (sp_live s)) -> sp_head s <= i < sp_next s).

  Lemma sp_head_hd : forall s : wspec T, sp_head s = hd (sp_next s) (map fst (sp_live s)).
  Proof. intro s. unfold sp_head. destruct (sp_live s) as [|[i v] r]; reflexivity. Qed.

  (* head, order and range follow from the rest *)
  Lemma wl_rel_intro : forall c s,
    wl_wf (c_wl c) -> nslots (c_wl c) = sp_n s -> w_tail (c_wl c) = sp_next s ->
    c_owned c = map fst (sp_live s) -> live (c_wl c) = c_owned c ->
    (forall i v, In (i, v) (sp_live s) -> s_value (slot_at (c_wl c) i) = Some v) ->
    c_blocked c = sp_blocked s -> w_waiting (c_wl c) = length (sp_blocked s) ->
    wl_rel c s.
  Proof.
    intros c s Hwf Hn Ht Ho Hl Hv Hb Hw.
    assert (Hh : w_head (c_wl c) = sp_head s).
    { rewrite sp_head_hd, <- Ho, <- Hl, <- Ht. apply live_hd; exact Hwf. }
    unfold wl_rel.
    split; [exact Hwf|]. split; [exact Hn|]. split; [exact Ht|]. split; [exact Hh|].
    split; [exact Ho|]. split; [exact Hl|]. split; [exact Hv|]. split; [exact Hb|].
    split; [exact Hw|]. split.
    - rewrite <- Ho, <- Hl. apply live_sorted.
    - intros i Hi. rewrite <- Ho, <- Hl in Hi. apply in_live in Hi.
      rewrite <- Hh, <- Ht. tauto.
  Qed.

  Lemma rel_head_cases : forall c s, wl_rel c s ->
    (sp_live s = [] /\ sp_head s = sp_next s) \/
    (exists i v r, sp_live s = (i, v) :: r /\ sp_head s = i /\ i < sp_next s).
  Proof.
    intros c s (_ & _ & _ & _ & _ & _ & _ & _ & _ & _ & Hr).
    revert Hr. unfold sp_head. destruct (sp_live s) as [|[i v] r]; intro Hr.
    - left. split; reflexivity.
    - right. exists i, v, r. split; [reflexivity|]. split; [reflexivity|].
      specialize (Hr i (or_introl eq_refl)). lia.
  Qed.

  (* ---- 3. initial states ---- *)
  Lemma nth_repeat_same : forall (A : Type) (a : A) n p, nth p (repeat a n) a = a.
  Proof.
    intros A a n. induction n as [|n IH]; intros [|p]; cbn [repeat nth]; auto.
  Qed.

  Lemma wl_rel_new : forall n, 0 < n -> wl_rel (client_new T n) (spec_new T n).
  Proof.
    intros n Hn.
    apply wl_rel_intro; cbn [client_new spec_new c_wl c_owned c_blocked sp_n sp_next sp_live
                              sp_blocked map length].
    - unfold wl_wf, wl_new, nslots. cbn [w_head w_tail w_slots]. rewrite repeat_length.
      split; [exact Hn|]. split; [lia|]. split; [lia|]. split; [left; reflexivity|]. split.
      + intros p _ _. apply nth_repeat_same.
      + intros i Hi. lia.
    - unfold wl_new, nslots. cbn [w_slots]. apply repeat_length.
    - reflexivity.
    - reflexivity.
    - reflexivity.
    - intros i v [].
    - reflexivity.
    - reflexivity.
  Qed.

  (* ---- 4. one step ---- *)
  Lemma link_try_refines : forall c s t, wl_rel c s ->
    exists c',
      (r <- wl_link_try (c_wl c) t ;; Ok (link_outcome c r (c_blocked c) t))
        = Ok (c', snd (sp_link_try s t (sp_blocked s))) /\
      wl_rel c' (fst (sp_link_try s t (sp_blocked s))).
  Proof.
    intros c s t (Hwf & Hn & Ht & Hh & Ho & Hl & Hv & Hb & Hw & Hs & Hr).
    assert (Hfull : sp_full s = wl_full (c_wl c)).
    { unfold sp_full, wl_full. rewrite Hn, Ht, Hh. reflexivity. }
    rewrite wl_link_try_unfold. unfold sp_link_try. rewrite Hfull.
    destruct (wl_full (c_wl c)) eqn:Hf.
    - rewrite (wf_invariants_ok _ Hwf). cbn [negb bind link_outcome fst snd].
      eexists. split; [reflexivity|].
      apply wl_rel_intro;
        cbn [c_wl c_owned c_blocked sp_n sp_next sp_live sp_blocked].
      + exact Hwf.
      + exact Hn.
      + exact Ht.
      + exact Ho.
      + exact Hl.
      + exact Hv.
      + rewrite Hb. reflexivity.
      + change (w_waiting (with_waiting (c_wl c) (S (w_waiting (c_wl c)))))
          with (S (w_waiting (c_wl c))).
        rewrite app_length, Hw. cbn [length]. lia.
    - destruct (link_new_spec (c_wl c) t Hwf Hf) as (Hwf2 & Hl2 & Hnew & Hold).
      rewrite (wf_invariants_ok _ Hwf2). cbn [negb bind link_outcome fst snd].
      eexists. split; [rewrite <- Ht; reflexivity|].
      apply wl_rel_intro;
        cbn [c_wl c_owned c_blocked sp_n sp_next sp_live sp_blocked].
      + exact Hwf2.
      + rewrite nslots_link_new. exact Hn.
      + change (w_tail (link_new (c_wl c) t)) with (S (w_tail (c_wl c))). rewrite Ht. reflexivity.
      + rewrite map_app, Ho, Ht. reflexivity.
      + rewrite Hl2, Hl. reflexivity.
      + intros i v Hin. apply in_app_or in Hin. destruct Hin as [Hin | Hin].
        * assert (Hi : In i (live (c_wl c))).
          { rewrite Hl, Ho. apply in_map_iff. exists (i, v). split; [reflexivity | exact Hin]. }
          apply in_live in Hi. destruct Hi as [Hi _].
          rewrite Hold by exact Hi. apply Hv. exact Hin.
        * destruct Hin as [E | []]. injection E as E1 E2. subst i v.
          rewrite <- Ht, Hnew. reflexivity.
      + exact Hb.
      + exact Hw.
  Qed.

  Lemma wstep_refines : forall c s o, wl_rel c s ->
    exists c', wstep c o = Ok (c', snd (sp_step s o)) /\ wl_rel c' (fst (sp_step s o)).
  Proof.
    intros c s o Hrel.
    assert (Hrel' := Hrel).
    destruct Hrel' as (Hwf & Hn & Ht & Hh & Ho & Hl & Hv & Hb & Hw & Hs & Hr).
    assert (Hnd : NoDup (map fst (sp_live s))) by (apply SSorted_NoDup; exact Hs).
    destruct o as [t | j | k | | k t | k | k | ]; cbn [wstep sp_step].
    - (* WLink *)
      apply link_try_refines. exact Hrel.
    - (* WWake *)
      rewrite Hb.
      destruct (pick j (sp_blocked s)) as [[j' t]|] eqn:Hp.
      + destruct (pick_some _ _ _ _ Hp) as [Hj' _].
        assert (Hrl := remove_nth_length j' (sp_blocked s) Hj').
        unfold wl_link_wake. rewrite Hw.
        destruct (length (sp_blocked s)) as [|n] eqn:Hlen; [lia|].
        change (invariants_ok (with_waiting (c_wl c) n)) with (invariants_ok (c_wl c)).
        rewrite (wf_invariants_ok _ Hwf). cbn [negb].
        set (c1 := mkClient (with_waiting (c_wl c) n) (c_owned c)
                            (remove_nth j' (sp_blocked s))).
        set (s1 := mkWspec (sp_n s) (sp_next s) (sp_live s) (remove_nth j' (sp_blocked s))).
        assert (Hrel1 : wl_rel c1 s1).
        { apply wl_rel_intro; subst c1 s1;
            cbn [c_wl c_owned c_blocked sp_n sp_next sp_live sp_blocked].
          - exact Hwf.
          - exact Hn.
          - exact Ht.
          - exact Ho.
          - exact Hl.
          - exact Hv.
          - reflexivity.
          - change (w_waiting (with_waiting (c_wl c) n)) with n.
            lia. }
        destruct (link_try_refines c1 s1 t Hrel1) as [c' [H1 H2]].
        exists c'. split; [exact H1 | exact H2].
      + exists c. split; [reflexivity | exact Hrel].
    - (* WUnlink *)
      rewrite Ho, pick_map.
      destruct (pick k (sp_live s)) as [[k' [i v]]|] eqn:Hp.
      + cbn [fst].
        destruct (pick_some _ _ _ _ Hp) as [Hk' Hnth].
        assert (HinL : In (i, v) (sp_live s)).
        { rewrite <- (Hnth (i, v)). apply nth_In. exact Hk'. }
        assert (Hin : In i (live (c_wl c))).
        { rewrite Hl, Ho. apply in_map_iff. exists (i, v). split; [reflexivity | exact HinL]. }
        destruct (unlink_spec (c_wl c) i Hwf Hin)
          as (w' & Hu & Hwf' & Hn' & Ht' & Hw' & Hl' & Hv' & _ & _).
        assert (Hni : nth k' (map fst (sp_live s)) i = i).
        { change (nth k' (map fst (sp_live s)) (fst (i, v)) = i).
          rewrite map_nth, Hnth. reflexivity. }
        assert (Hlive' : live w' = map fst (remove_nth k' (sp_live s))).
        { rewrite Hl', Hl, Ho, map_remove_nth.
          rewrite (remove_nth_filter k' (map fst (sp_live s)) i);
            [| exact Hnd | rewrite map_length; exact Hk'].
          rewrite Hni. reflexivity. }
        rewrite Hu. cbn [bind fst snd].
        eexists. split; [rewrite Hw; reflexivity|].
        apply wl_rel_intro;
          cbn [c_wl c_owned c_blocked sp_n sp_next sp_live sp_blocked].
        * exact Hwf'.
        * rewrite Hn'. exact Hn.
        * rewrite Ht'. exact Ht.
        * symmetry. apply map_remove_nth.
        * rewrite Hlive'. apply map_remove_nth.
        * intros j u Hju.
          assert (Hj : In j (live w')).
          { rewrite Hlive'. apply in_map_iff. exists (j, u). split; [reflexivity | exact Hju]. }
          rewrite Hv' by exact Hj. apply Hv. eapply In_remove_nth. exact Hju.
        * exact Hb.
        * rewrite Hw'. exact Hw.
      + exists c. split; [reflexivity | exact Hrel].
    - (* WNotifyHead *)
      exists c. split; [|exact Hrel].
      f_equal. f_equal. f_equal.
      unfold wl_notify_head. rewrite Hh, Ht.
      destruct (rel_head_cases c s Hrel) as [[E1 E2] | (i & v & r & E1 & E2 & E3)].
      * rewrite E1, E2, Nat.ltb_irrefl. reflexivity.
      * rewrite E1, E2. apply Nat.ltb_lt in E3. rewrite E3. reflexivity.
    - (* WStore *)
      rewrite Ho, pick_map.
      destruct (pick k (sp_live s)) as [[k' [i v]]|] eqn:Hp.
      + cbn [fst snd].
        destruct (pick_some _ _ _ _ Hp) as [Hk' Hnth].
        assert (HinL : In (i, v) (sp_live s)).
        { rewrite <- (Hnth (i, v)). apply nth_In. exact Hk'. }
        assert (Hin : In i (live (c_wl c))).
        { rewrite Hl, Ho. apply in_map_iff. exists (i, v). split; [reflexivity | exact HinL]. }
        destruct (store_spec (c_wl c) i t Hwf Hin) as (Hwf' & Hn' & Hl' & Hvi & Hother).
        eexists. split; [reflexivity|].
        apply wl_rel_intro;
          cbn [c_wl c_owned c_blocked sp_n sp_next sp_live sp_blocked].
        * exact Hwf'.
        * rewrite Hn'. exact Hn.
        * exact Ht.
        * symmetry. apply (map_fst_upd k' (sp_live s) (i, v) i v t); [apply Hnth | exact Hk'].
        * rewrite Hl', Hl, Ho. reflexivity.
        * intros j u Hju.
          destruct (In_upd_nodup k' (sp_live s) (i, v) i v t j u Hnd Hk' (Hnth (i, v)) Hju)
            as [[E1 E2] | [Hne HjL]].
          -- subst j u. exact Hvi.
          -- assert (Hj : In j (live (c_wl c))).
             { rewrite Hl, Ho. apply in_map_iff. exists (j, u). split; [reflexivity | exact HjL]. }
             apply in_live in Hj. destruct Hj as [Hj _].
             rewrite Hother by assumption. apply Hv. exact HjL.
        * exact Hb.
        * exact Hw.
      + exists c. split; [reflexivity | exact Hrel].
    - (* WLoad *)
      rewrite Ho, pick_map.
      destruct (pick k (sp_live s)) as [[k' [i v]]|] eqn:Hp.
      + cbn [fst snd].
        destruct (pick_some _ _ _ _ Hp) as [Hk' Hnth].
        assert (HinL : In (i, v) (sp_live s)).
        { rewrite <- (Hnth (i, v)). apply nth_In. exact Hk'. }
        unfold wl_load. rewrite (Hv i v HinL). cbn [bind].
        exists c. split; [reflexivity | exact Hrel].
      + exists c. split; [reflexivity | exact Hrel].
    - (* WIsHead *)
      rewrite Ho, pick_map.
      destruct (pick k (sp_live s)) as [[k' [i v]]|] eqn:Hp.
      + cbn [fst snd].
        destruct (pick_some _ _ _ _ Hp) as [Hk' Hnth].
        unfold wl_is_head. rewrite (wf_invariants_ok _ Hwf). cbn [negb bind].
        exists c. split; [|exact Hrel].
        f_equal. f_equal. f_equal.
        rewrite Hh.
        destruct (rel_head_cases c s Hrel) as [[E1 E2] | (i0 & v0 & r & E1 & E2 & E3)].
        * rewrite E1 in Hk'. cbn [length] in Hk'. lia.
        * rewrite E2.
          assert (Hi : nth k' (map fst (sp_live s)) i0 = i).
          { change (nth k' (map fst (sp_live s)) (fst (i0, v0)) = i).
            rewrite map_nth, Hnth. reflexivity. }
          assert (H0 : nth 0 (map fst (sp_live s)) i0 = i0) by (rewrite E1; reflexivity).
          destruct (Nat.eqb_spec k' 0) as [Ek | Ek].
          -- subst k'. apply Nat.eqb_eq. congruence.
          -- apply Nat.eqb_neq. intro E. apply Ek.
             apply (proj1 (NoDup_nth (map fst (sp_live s)) i0) Hnd).
             ++ rewrite map_length. exact Hk'.
             ++ rewrite map_length. lia.
             ++ congruence.
      + exists c. split; [reflexivity | exact Hrel].
    - (* WCount *)
      exists c. split; [|exact Hrel].
      unfold wl_count. rewrite Ht, Hh. reflexivity.
  Qed.

  (* ---- 5. runs ---- *)
  Lemma wrun_refines : forall ops c s, wl_rel c s ->
    exists c', wrun c ops = Ok (c', snd (sp_run s ops)) /\ wl_rel c' (fst (sp_run s ops)).
  Proof.
    induction ops as [|o r IH]; intros c s Hrel.
    - exists c. split; [reflexivity | exact Hrel].
    - cbn [wrun sp_run].
      destruct (wstep_refines c s o Hrel) as [c1 [H1 H2]].
      rewrite H1. cbn [bind fst snd].
      destruct (IH c1 _ H2) as [c2 [H3 H4]].
      rewrite H3. cbn [bind fst snd].
      exists c2. split; [reflexivity | exact H4].
  Qed.

  Theorem wl_run_refines : forall n ops, 0 < n ->
    exists c, wrun (client_new T n) ops = Ok (c, snd (sp_run (spec_new T n) ops)) /\
              wl_rel c (fst (sp_run (spec_new T n) ops)).
  Proof.
    intros n ops Hn. apply wrun_refines. apply wl_rel_new. exact Hn.
  Qed.

  (* ---- 6. one head ---- *)
  Theorem wl_one_head : forall c s, wl_rel c s -> c_owned c <> [] ->
    exists h, In h (c_owned c) /\ is_head (c_wl c) h = true /\
      (forall i, In i (c_owned c) -> is_head (c_wl c) i = true -> i = h) /\
      (forall i, In i (c_owned c) -> h <= i).
  Proof.
    intros c s (Hwf & Hn & Ht & Hh & Ho & Hl & Hv & Hb & Hw & Hs & Hr) Hne.
    exists (w_head (c_wl c)).
    split; [|split; [|split]].
    - assert (Hhd := live_hd (c_wl c) Hwf).
      rewrite <- Hl in Hne |- *.
      destruct (live (c_wl c)) as [|a r]; [congruence|].
      cbn [hd] in Hhd. rewrite Hhd. left; reflexivity.
    - unfold is_head. apply Nat.eqb_refl.
    - intros i _ Hi. unfold is_head in Hi. apply Nat.eqb_eq in Hi. symmetry; exact Hi.
    - intros i Hi. rewrite <- Hl in Hi. apply in_live in Hi. lia.
  Qed.

  Theorem wl_no_head_when_empty : forall c s, wl_rel c s -> c_owned c = [] ->
    w_head (c_wl c) = w_tail (c_wl c).
  Proof.
    intros c s (Hwf & Hn & Ht & Hh & Ho & Hl & _) He.
    apply live_nil_head; [exact Hwf | rewrite Hl; exact He].
  Qed.

  Theorem wl_handover : forall c s h rest, wl_rel c s -> c_owned c = h :: rest ->
    exists w' b, wl_unlink (c_wl c) h = Ok (w', b) /\ live w' = rest /\
      w_head w' = hd (w_tail (c_wl c)) rest /\
      (forall i, In i rest -> is_head w' i = true <-> i = hd 0 rest).
  Proof.
    intros c s h rest (Hwf & Hn & Ht & Hh & Ho & Hl & _) He.
    rewrite He in Hl.
    assert (Hin : In h (live (c_wl c))) by (rewrite Hl; left; reflexivity).
    assert (Hnd : NoDup (h :: rest)) by (rewrite <- Hl; apply live_nodup).
    destruct (unlink_spec (c_wl c) h Hwf Hin)
      as (w' & Hu & Hwf' & Hn' & Ht' & Hw' & Hl' & _ & _ & _).
    assert (Hrest : live w' = rest).
    { rewrite Hl', Hl. cbn [filter]. rewrite Nat.eqb_refl. cbn [negb].
      apply filter_all_true. intros x Hx. apply negb_true_iff. apply Nat.eqb_neq.
      intro E. subst x. inversion Hnd; contradiction. }
    assert (Hhd : w_head w' = hd (w_tail (c_wl c)) rest).
    { rewrite (live_hd w' Hwf'), Ht', Hrest. reflexivity. }
    exists w', (0 <? w_waiting (c_wl c)).
    split; [exact Hu|]. split; [exact Hrest|]. split; [exact Hhd|].
    intros i Hi. unfold is_head. rewrite Nat.eqb_eq, Hhd.
    destruct rest as [|a r]; [contradiction|].
    cbn [hd]. split; intro E; symmetry; exact E.
  Qed.

  Theorem wl_unlink_non_head_keeps_head : forall c s i, wl_rel c s ->
    In i (c_owned c) -> i <> w_head (c_wl c) ->
    exists w' b, wl_unlink (c_wl c) i = Ok (w', b) /\ w_head w' = w_head (c_wl c) /\
      live w' = filter (fun j => negb (j =? i)) (c_owned c).
  Proof.
    intros c s i (Hwf & Hn & Ht & Hh & Ho & Hl & _) Hin Hne.
    rewrite <- Hl in Hin |- *.
    destruct (unlink_spec (c_wl c) i Hwf Hin)
      as (w' & Hu & Hwf' & Hn' & Ht' & Hw' & Hl' & _ & _ & Hkeep).
    exists w', (0 <? w_waiting (c_wl c)).
    split; [exact Hu|]. split; [apply Hkeep; exact Hne | exact Hl'].
  Qed.

  Theorem wl_link_blocks_iff_full : forall c s t, wl_rel c s ->
    (exists w', wl_link_try (c_wl c) t = Ok (MustWait w')) <->
    w_tail (c_wl c) - w_head (c_wl c) = nslots (c_wl c).
  Proof.
    intros c s t (Hwf & _).
    destruct (wl_wf_split _ Hwf) as [(Hn0 & Hht & Hsz & _) _].
    rewrite wl_link_try_unfold.
    split.
    - intros [w' H].
      destruct (wl_full (c_wl c)) eqn:Hf.
      + unfold wl_full in Hf. apply Nat.leb_le in Hf. lia.
      + destruct (negb (invariants_ok (link_new (c_wl c) t))); discriminate H.
    - intro E.
      assert (Hf : wl_full (c_wl c) = true).
      { unfold wl_full. apply Nat.leb_le. lia. }
      rewrite Hf, (wf_invariants_ok _ Hwf). cbn [negb].
      eexists. reflexivity.
  Qed.

  Theorem wl_link_index : forall c s t w' i, wl_rel c s ->
    wl_link_try (c_wl c) t = Ok (Linked w' i) ->
    i = w_tail (c_wl c) /\ live w' = live (c_wl c) ++ [i] /\ wl_load w' i = Ok t.
  Proof.
    intros c s t w' i (Hwf & _) H.
    rewrite wl_link_try_unfold in H.
    destruct (wl_full (c_wl c)) eqn:Hf.
    - destruct (negb (invariants_ok (c_wl c))); discriminate H.
    - destruct (link_new_spec (c_wl c) t Hwf Hf) as (Hwf2 & Hl2 & Hnew & _).
      rewrite (wf_invariants_ok _ Hwf2) in H. cbn [negb] in H.
      injection H as E1 E2. subst w' i.
      split; [reflexivity|]. split; [exact Hl2|].
      unfold wl_load. rewrite Hnew. reflexivity.
  Qed.

End WlProofs.

(* A concrete run (ring of 3 slots) exercising what the proofs cover: a blocked link, unlinking the
   middle and the last guard before the head, the head-advance loop then skipping three slots at
   once (head 0 -> 3), a wake, and indices 3, 4, 5 wrapping around the ring.  Model and
   specification give the same outputs. *)
Example wl_run_example :
  let ops := [WLink 10; WLink 11; WLink 12; WLink 13; WUnlink 1; WUnlink 1; WIsHead 0; WUnlink 0;
              WWake 0; WLink 14; WLink 15; WLoad 2; WCount; WNotifyHead] in
  match wl_case_nat 3 ops with
  | Ok (c, o) =>
      w_head (c_wl c) = 3 /\ w_tail (c_wl c) = 6 /\ c_owned c = [3; 4; 5] /\
      o = snd (sp_run (spec_new nat 3) ops) /\
      o = [WoLinked 0; WoLinked 1; WoLinked 2; WoBlocked; WoUnlinked 1 true; WoUnlinked 2 true;
           WoBool true; WoUnlinked 0 true; WoLinked 3; WoLinked 4; WoLinked 5; WoValue 15;
           WoNat 3; WoNotified (Some 3)]
  | _ => False
  end.
Proof. vm_compute. repeat split. Qed.
