(* Refs/ProofsInvM.v — invariant of the manifest directory and of the verifier's progress:
   the fragments on disk always form a chain (each opens with the roll-up of its predecessor),
   their numbers are strictly increasing, the store's in-memory manifest equals what the live
   file holds, and a verifier pass only ever unlinks the lowest-numbered fragment on disk. *)
From Coq Require Import NArith List Bool Lia Arith Sorted.
From Blue Require Import Refs.Model Refs.ProofsBase Refs.ProofsMani.
Import ListNotations.
Open Scope N_scope.

Arguments N.eqb : simpl never.
Arguments N.ltb : simpl never.
Arguments N.leb : simpl never.

Definition ids (d : mdir) : list N := map fst (md_frags d).
Definition vid (i : vinstr) : list N :=
  match i with VStartEntry n | VUnlinkFrag n | VDecide n => [n] | _ => [] end.
Definition vids (pc : list vinstr) : list N := flat_map vid pc.

Definition vdec_ok (fs : fsys) (pc : list vinstr) : Prop :=
  forall a n b, pc = a ++ VDecide n :: b ->
    vs_m (f_vs fs) <> Some n \/ ~ In n (ids (f_md fs)) \/ In (VUnlinkFrag n) a.

Definition main_pc (p : proc) : list instr := pc_get T_MAIN p.

Record InvM (s : sys) : Prop := mkInvM {
  m_ok : frags_ok (all_frags (f_md (s_fs s)));
  m_nil : md_live (f_md (s_fs s)) = [] -> md_frags (f_md (s_fs s)) = [];
  m_sorted : StronglySorted N.lt (ids (f_md (s_fs s)));
  m_ghost : forall fr, In fr (md_frags (f_md (s_fs s))) -> In fr (s_frags s);
  m_handle : forall p, s_p s = Some p -> ~ In IManiOpen (main_pc p) ->
             p_ms p = frag_state (md_live (f_md (s_fs s))) /\
             p_next p = max_id (md_frags (f_md (s_fs s))) + 1;
  m_open1 : forall p, s_p s = Some p -> ~ In IManiOpen (tl (main_pc p));
  m_open2 : forall p, s_p s = Some p -> forall a r t b, main_pc p = a ++ INewLog r t :: b -> b = [];
  m_ready : forall p, s_p s = Some p -> p_ready p = true -> main_pc p = [];
  m_notready : forall p, s_p s = Some p -> p_ready p = false ->
               forall t, t <> T_MAIN -> pc_get t p = [];
  m_vsorted : forall vp, s_v s = Some vp -> StronglySorted N.le (vids (vp_pc vp));
  m_vlow : forall vp, s_v s = Some vp -> forall n m, In n (vids (vp_pc vp)) ->
           In m (ids (f_md (s_fs s))) -> m < n -> In m (vids (vp_pc vp));
  m_vmax : forall vp, s_v s = Some vp -> forall n, In n (vids (vp_pc vp)) ->
           n < max_id (md_frags (f_md (s_fs s)));
  m_vdec : forall vp, s_v s = Some vp -> vdec_ok (s_fs s) (vp_pc vp)
}.

(* ---------------------------------------------------------------- sorted ids *)
Lemma max_id_nil : max_id [] = 0.
Proof. reflexivity. Qed.

Lemma max_id_cons p fr : max_id (p :: fr) = N.max (fst p) (max_id fr).
Proof. change (p :: fr) with ([p] ++ fr). rewrite max_id_app. unfold max_id at 1. cbn. lia. Qed.

Lemma max_id_snoc fr p : max_id (fr ++ [p]) = N.max (max_id fr) (fst p).
Proof. rewrite max_id_app. unfold max_id at 2. cbn. lia. Qed.

Lemma max_id_in fr : fr <> [] -> exists p, In p fr /\ fst p = max_id fr.
Proof.
  induction fr as [|p fr IH]; [congruence|]. intros _. rewrite max_id_cons.
  destruct fr as [|q fr].
  - exists p. split; [now left|]. rewrite max_id_nil. lia.
  - destruct IH as [r [Hr1 Hr2]]; [congruence|].
    destruct (N.max_spec (fst p) (max_id (q :: fr))) as [[_ ->]|[_ ->]].
    + exists r. split; [now right|assumption].
    + exists p. split; [now left|reflexivity].
Qed.

Lemma adel_ids_In {A} n (fr : list (N * A)) m : In m (map fst (adel n fr)) <-> In m (map fst fr) /\ m <> n.
Proof.
  rewrite !in_map_iff. split.
  - intros [p [<- Hp]]. apply adel_In in Hp. destruct Hp as [Hp Hne]. split; [exists p; auto|assumption].
  - intros [[p [<- Hp]] Hne]. exists p. split; [reflexivity|]. apply adel_In. auto.
Qed.

Lemma adel_sorted {A} n (fr : list (N * A)) : StronglySorted N.lt (map fst fr) -> StronglySorted N.lt (map fst (adel n fr)).
Proof.
  induction fr as [|[k v] fr IH]; cbn [adel map]; [auto|]. intros H. cbn [fst] in H. inversion H as [|? ? Hs Hall]; subst.
  destruct (N.eqb_spec n k); [apply IH, Hs|]. cbn [map fst]. constructor; [apply IH, Hs|].
  rewrite Forall_forall in *. intros m Hm. apply adel_ids_In in Hm. apply Hall. tauto.
Qed.

(* removing the head id, or an id that is not there, from a strictly sorted directory *)
Lemma adel_low {A} n (fr : list (N * A)) : StronglySorted N.lt (map fst fr) ->
  (forall m, In m (map fst fr) -> n <= m) ->
  adel n fr = match fr with [] => [] | (k, v) :: r => if n =? k then r else fr end.
Proof.
  intros Hs Hlow. destruct fr as [|[k v] r]; [reflexivity|]. cbn [adel].
  inversion Hs as [|? ? Hs' Hall]; subst. cbn [map fst] in *.
  assert (Hr : adel n r = r).
  { clear Hs. rewrite Forall_forall in Hall. induction r as [|[k2 v2] r IH]; [reflexivity|]. cbn [adel].
    assert (k < k2) by (apply Hall; now left). assert (n <= k) by (apply Hlow; now left).
    destruct (N.eqb_spec n k2); [lia|]. f_equal. apply IH.
    - intros m [Hm|Hm]; apply Hlow; [now left|right; now right].
    - cbn [map fst] in Hs'. now inversion Hs'.
    - intros m Hm. apply Hall. now right. }
  destruct (N.eqb_spec n k); [assumption|]. now rewrite Hr.
Qed.

Lemma max_id_adel_le n (fr : list (N * list edit)) : max_id (adel n fr) <= max_id fr.
Proof.
  induction fr as [|[k2 v2] fr IH]; [cbn; lia|]. cbn [adel]. rewrite max_id_cons. cbn [fst].
  destruct (N.eqb_spec n k2); [|rewrite max_id_cons; cbn [fst]]; lia.
Qed.

Lemma max_id_adel n (fr : list (N * list edit)) : n < max_id fr -> max_id (adel n fr) = max_id fr.
Proof.
  induction fr as [|[k v] fr IH]; [reflexivity|]. rewrite max_id_cons. cbn [fst adel]. intros H.
  destruct (N.eqb_spec n k) as [->|Hne].
  - assert (Hk : k < max_id fr) by lia. rewrite (IH Hk). lia.
  - rewrite max_id_cons. cbn [fst].
    destruct (N.lt_ge_cases n (max_id fr)) as [Hlt|Hge]; [now rewrite IH|].
    pose proof (max_id_adel_le n fr). lia.
Qed.

Lemma sorted_lt_snoc l x : StronglySorted N.lt l -> (forall y, In y l -> y < x) -> StronglySorted N.lt (l ++ [x]).
Proof.
  induction l as [|a l IH]; intros Hs Hx; cbn.
  - constructor; [constructor|constructor].
  - inversion Hs as [|? ? Hs' Hall]; subst. constructor.
    + apply IH; [assumption|]. intros y Hy. apply Hx. now right.
    + rewrite Forall_forall in *. intros y Hy. apply in_app_iff in Hy. destruct Hy as [Hy|[<-|[]]]; [auto|].
      apply Hx. now left.
Qed.

Lemma removelast_In_lt l : StronglySorted N.lt l -> forall n, In n (removelast l) ->
  In n l /\ exists m, In m l /\ n < m.
Proof.
  induction l as [|a l IH]; [intros _ n []|]. intros Hs n Hn. inversion Hs as [|? ? Hs' Hall]; subst.
  destruct l as [|b l]; [destruct Hn|]. cbn [removelast] in Hn.
  change (In n (a :: removelast (b :: l))) in Hn. destruct Hn as [<-|Hn].
  - split; [now left|]. exists b. split; [right; now left|]. rewrite Forall_forall in Hall. apply Hall. now left.
  - destruct (IH Hs' n Hn) as [H1 [m [H2 H3]]]. split; [now right|]. exists m. split; [now right|assumption].
Qed.

Lemma removelast_sorted l : StronglySorted N.lt l -> StronglySorted N.le (removelast l).
Proof.
  induction l as [|a l IH]; [constructor|]. intros Hs. inversion Hs as [|? ? Hs' Hall]; subst.
  destruct l as [|b l]; [constructor|]. change (StronglySorted N.le (a :: removelast (b :: l))).
  constructor; [auto|]. rewrite Forall_forall in *. intros y Hy.
  destruct (removelast_In_lt _ Hs' y Hy) as [H1 _]. specialize (Hall y H1). lia.
Qed.

Lemma removelast_low l : StronglySorted N.lt l -> forall n m, In n (removelast l) -> In m l -> m < n -> In m (removelast l).
Proof.
  induction l as [|a l IH]; [intros _ n m []|]. intros Hs n m Hn Hm Hlt. inversion Hs as [|? ? Hs' Hall]; subst.
  destruct l as [|b l]; [destruct Hn|]. change (In n (a :: removelast (b :: l))) in Hn.
  change (In m (a :: removelast (b :: l))). rewrite Forall_forall in Hall.
  destruct Hm as [<-|Hm]; [now left|]. right.
  destruct Hn as [<-|Hn]; [specialize (Hall m Hm); lia|]. now apply (IH Hs' n m).
Qed.

Lemma max_id_lt_last fr n : In n (map fst fr) -> (exists m, In m (map fst fr) /\ n < m) -> n < max_id fr.
Proof.
  intros _ [m [Hm Hlt]]. apply in_map_iff in Hm. destruct Hm as [p [<- Hp]].
  pose proof (max_id_ge fr p Hp). lia.
Qed.

(* ---------------------------------------------------------------- vids / vdec_ok helpers *)
Lemma vids_app a b : vids (a ++ b) = vids a ++ vids b.
Proof. unfold vids. apply flat_map_app. Qed.

Lemma vids_unlinks l : vids (map VUnlinkTrash l) = [].
Proof. induction l as [|t l IH]; [reflexivity|]. cbn. assumption. Qed.

Lemma vdec_ok_nil fs : vdec_ok fs [].
Proof. intros a n b H. destruct a; discriminate. Qed.

Lemma vdec_ok_tail fs i pc : vdec_ok fs (i :: pc) -> (forall n, i <> VUnlinkFrag n) -> vdec_ok fs pc.
Proof.
  intros H Hi a n b E. destruct (H (i :: a) n b) as [H1|[H1|H1]]; [now rewrite E|auto|auto|].
  destruct H1 as [H1|H1]; [exfalso; exact (Hi n H1)|auto].
Qed.

Lemma vdec_ok_pre fs pre pc : vdec_ok fs pc -> (forall n, ~ In (VDecide n) pre) -> vdec_ok fs (pre ++ pc).
Proof.
  intros H Hpre. induction pre as [|i pre IH]; [assumption|].
  intros a n b E. destruct a as [|j a]; cbn in E.
  - injection E as E1 E2. exfalso. apply (Hpre n). now left.
  - injection E as <- E2. destruct (IH (fun m Hm => Hpre m (or_intror Hm)) a n b E2) as [H1|[H1|H1]]; auto.
    right. right. now right.
Qed.

Lemma vdec_ok_cons_dec fs n pc :
  (vs_m (f_vs fs) <> Some n \/ ~ In n (ids (f_md fs))) -> vdec_ok fs pc -> vdec_ok fs (VDecide n :: pc).
Proof.
  intros Hn H a m b E. destruct a as [|j a]; cbn in E.
  - injection E as -> _. tauto.
  - injection E as <- E2. destruct (H a m b E2) as [H1|[H1|H1]]; auto. right. right. now right.
Qed.

Lemma no_dec_unlinks l n : ~ In (VDecide n) (map VUnlinkTrash l).
Proof. rewrite in_map_iff. intros [t [H _]]. discriminate. Qed.

(* ---------------------------------------------------------------- the directory-level invariant *)
Record MdInv (fs : fsys) (g : list (N * list edit)) (v : option vproc) : Prop := mkMdInv {
  d_ok : frags_ok (all_frags (f_md fs));
  d_nil : md_live (f_md fs) = [] -> md_frags (f_md fs) = [];
  d_sorted : StronglySorted N.lt (ids (f_md fs));
  d_ghost : forall fr, In fr (md_frags (f_md fs)) -> In fr g;
  d_vsorted : forall vp, v = Some vp -> StronglySorted N.le (vids (vp_pc vp));
  d_vlow : forall vp, v = Some vp -> forall n m, In n (vids (vp_pc vp)) ->
           In m (ids (f_md fs)) -> m < n -> In m (vids (vp_pc vp));
  d_vmax : forall vp, v = Some vp -> forall n, In n (vids (vp_pc vp)) -> n < max_id (md_frags (f_md fs));
  d_vdec : forall vp, v = Some vp -> vdec_ok fs (vp_pc vp)
}.

Definition Hd (fs : fsys) (p : proc) : Prop :=
  p_ms p = frag_state (md_live (f_md fs)) /\ p_next p = max_id (md_frags (f_md fs)) + 1.

Lemma MdInv_frame fs fs' g v :
  f_md fs' = f_md fs -> vs_m (f_vs fs') = vs_m (f_vs fs) -> MdInv fs g v -> MdInv fs' g v.
Proof.
  intros E1 E2 [H1 H2 H3 H4 H5 H6 H7 H8]. split; rewrite ?E1; auto.
  intros vp Hv a n b E. unfold ids. rewrite E1, E2. exact (H8 vp Hv a n b E).
Qed.

Lemma MdInv_noverifier fs g v : MdInv fs g v -> MdInv fs g None.
Proof. intros [H1 H2 H3 H4 H5 H6 H7 H8]. split; auto; intros vp Hv; discriminate. Qed.

(* appending a fragment numbered above every other one *)
Lemma MdInv_rollover fs g v d next :
  MdInv fs g v -> f_md fs = d -> md_live d <> [] -> next = max_id (md_frags d) + 1 ->
  let d' := mkMd (md_frags d ++ [(next, md_live d)]) [rollup (frag_state (md_live d))] in
  MdInv (set_md fs d') (g ++ [(next, md_live d)]) v /\
  frag_state (md_live d') = frag_state (md_live d) /\ next + 1 = max_id (md_frags d') + 1.
Proof.
  intros [H1 H2 H3 H4 H5 H6 H7 H8] <- Hlive ->. cbn zeta.
  set (d := f_md fs) in *. set (next := max_id (md_frags d) + 1).
  assert (Hmax : max_id (md_frags d ++ [(next, md_live d)]) = next).
  { rewrite max_id_snoc. cbn [fst]. subst next. lia. }
  split; [split; cbn [set_md f_md f_vs md_frags md_live]|split].
  - unfold all_frags. cbn [md_frags md_live]. rewrite map_app. cbn [map snd]. rewrite <- app_assoc.
    change ([md_live d] ++ [[rollup (frag_state (md_live d))]]) with ([md_live d] ++ [[rollup (frag_state (md_live d))]]).
    rewrite app_assoc. apply frags_ok_snoc. fold (all_frags d).
    destruct (all_frags d) eqn:E; [unfold all_frags in E; destruct (map snd (md_frags d)); discriminate|].
    rewrite <- E. split; [assumption|]. exists []. unfold all_frags. now rewrite frags_last_snoc.
  - discriminate.
  - unfold ids. cbn [md_frags]. rewrite map_app. cbn [map fst]. apply sorted_lt_snoc; [assumption|].
    intros y Hy. apply in_map_iff in Hy. destruct Hy as [p [<- Hp]]. pose proof (max_id_ge _ _ Hp). subst next. lia.
  - intros fr Hfr. apply in_app_iff in Hfr. apply in_app_iff. destruct Hfr as [Hfr|Hfr]; [left; auto|now right].
  - assumption.
  - intros vp Hv n m Hn Hm Hlt. unfold ids in Hm. cbn [md_frags] in Hm. rewrite map_app in Hm. apply in_app_iff in Hm.
    destruct Hm as [Hm|[<-|[]]]; [now apply (H6 vp Hv n m)|].
    pose proof (H7 vp Hv n Hn). cbn [fst] in Hlt. subst next. lia.
  - intros vp Hv n Hn. rewrite Hmax. pose proof (H7 vp Hv n Hn). subst next. lia.
  - intros vp Hv a n b E. destruct (H8 vp Hv a n b E) as [K|[K|K]]; [left; exact K| |right; right; exact K].
    right. left. unfold ids. cbn [md_frags]. rewrite map_app, in_app_iff. cbn [map fst In].
    intros [K1|[K1|[]]]; [contradiction|].
    assert (Hn : In n (vids (vp_pc vp))).
    { rewrite E, vids_app. apply in_or_app. right. cbn. now left. }
    pose proof (H7 vp Hv n Hn). subst next. lia.
  - cbn [md_live]. apply rollup_state, frag_state_NoDup.
  - cbn [md_frags]. rewrite Hmax. reflexivity.
Qed.

Lemma live_head_stable (l : list edit) e prev : (exists es, l = rollup prev :: es) -> exists es, l ++ [e] = rollup prev :: es.
Proof. intros [es ->]. exists (es ++ [e]). reflexivity. Qed.

(* appending an edit to the live manifest *)
Lemma MdInv_append fs g v e :
  MdInv fs g v ->
  let d' := mkMd (md_frags (f_md fs)) (md_live (f_md fs) ++ [e]) in
  MdInv (set_md fs d') g v.
Proof.
  intros [H1 H2 H3 H4 H5 H6 H7 H8]. cbn zeta. split; cbn [set_md f_md f_vs md_frags md_live]; auto.
  - unfold all_frags in *. cbn [md_frags md_live]. apply frags_ok_snoc. apply frags_ok_snoc in H1.
    destruct (map snd (md_frags (f_md fs))) eqn:E; [exact I|]. destruct H1 as [K1 K2]. split; [assumption|].
    now apply live_head_stable.
  - intros K. destruct (md_live (f_md fs)); discriminate.
Qed.

Lemma md_apply_inv fs g v p e roll :
  MdInv fs g v -> Hd fs p ->
  forall d ms next r, md_apply (f_md fs) (p_ms p) (p_next p) e roll = (d, ms, next, r) ->
  MdInv (set_md fs d) (rollover_ghost g r) v /\ ms = frag_state (md_live d) /\ next = max_id (md_frags d) + 1.
Proof.
  intros HI [Hms Hnext] d ms next r E. unfold md_apply in E.
  pose proof (MdInv_append fs g v e HI) as HA. cbn zeta in HA.
  set (d1 := mkMd (md_frags (f_md fs)) (md_live (f_md fs) ++ [e])) in *.
  assert (Hst : apply_edit e (p_ms p) = frag_state (md_live d1)).
  { subst d1. cbn [md_live]. now rewrite frag_state_snoc, Hms. }
  destruct (roll && negb (is_nil (ms_strs (p_ms p)))).
  - unfold md_rollover in E. injection E as <- <- <- <-. cbn [rollover_ghost].
    destruct (MdInv_rollover (set_md fs d1) g v d1 (p_next p) HA) as [K1 [K2 K3]].
    + reflexivity.
    + subst d1. cbn [md_live]. destruct (md_live (f_md fs)); discriminate.
    + subst d1. cbn [md_frags]. exact Hnext.
    + cbn zeta in *. split; [|split].
      * rewrite Hst. exact K1.
      * rewrite Hst. cbn [md_live] in *. now rewrite K2.
      * exact K3.
  - injection E as <- <- <- <-. cbn [rollover_ghost]. split; [exact HA|split; [exact Hst|exact Hnext]].
Qed.

Lemma md_open_inv fs g v :
  MdInv fs g v ->
  forall d ms next r, md_open (f_md fs) = (d, ms, next, r) ->
  MdInv (set_md fs d) (rollover_ghost g r) v /\ ms = frag_state (md_live d) /\ next = max_id (md_frags d) + 1.
Proof.
  intros HI d ms next r E. unfold md_open in E. destruct (md_live (f_md fs)) eqn:El; cbn [is_nil] in E.
  - injection E as <- <- <- <-. cbn [rollover_ghost]. split; [|split; [now rewrite El|reflexivity]].
    apply (MdInv_frame fs); [reflexivity|reflexivity|assumption].
  - unfold md_rollover in E. injection E as <- <- <- <-. cbn [rollover_ghost].
    destruct (MdInv_rollover fs g v (f_md fs) (max_id (md_frags (f_md fs)) + 1) HI eq_refl) as [K1 [K2 K3]].
    + rewrite El. discriminate.
    + reflexivity.
    + cbn zeta in *. rewrite El in *. split; [exact K1|split; [now rewrite K2|exact K3]].
Qed.
