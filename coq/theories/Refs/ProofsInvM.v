(* Refs/ProofsInvM.v — invariant of the manifest directory and of the verifier's progress:
   the fragments on disk always form a chain (each opens with the roll-up of its predecessor),
   their numbers are strictly increasing, the store's in-memory manifest equals what the live
   file holds, and a verifier pass only ever unlinks the lowest-numbered fragment on disk. *)
From Coq Require Import NArith List Bool Lia Arith Sorted.
From Blue Require Import Refs.Model Refs.ProofsBase Refs.ProofsMani.
Import ListNotations.
Open Scope N_scope.

Arguments N.eqb : simpl never.
Arguments N.ltb : simpl never.
Arguments N.leb : simpl never.

Definition ids (d : mdir) : list N := map fst (md_frags d).
Definition vid (i : vinstr) : list N :=
  match i with VStartEntry n | VUnlinkFrag n | VDecide n => [n] | _ => [] end.
Definition vids (pc : list vinstr) : list N := flat_map vid pc.

Definition vdec_ok (fs : fsys) (pc : list vinstr) : Prop :=
  forall a n b, pc = a ++ VDecide n :: b ->
    vs_m (f_vs fs) <> Some n \/ ~ In n (ids (f_md fs)) \/ In (VUnlinkFrag n) a.

Definition main_pc (p : proc) : list instr := pc_get T_MAIN p.

(* ---------------------------------------------------------------- sorted ids *)
Lemma max_id_nil : max_id [] = 0.
Proof. reflexivity. Qed.

Lemma max_id_cons p fr : max_id (p :: fr) = N.max (fst p) (max_id fr).
Proof. change (p :: fr) with ([p] ++ fr). rewrite max_id_app. unfold max_id at 1. cbn. lia. Qed.

Lemma max_id_snoc fr p : max_id (fr ++ [p]) = N.max (max_id fr) (fst p).
Proof. rewrite max_id_app. unfold max_id at 2. cbn. lia. Qed.

Lemma max_id_in fr : fr <> [] -> exists p, In p fr /\ fst p = max_id fr.
Proof.
  induction fr as [|p fr IH]; [congruence|]. intros _. rewrite max_id_cons.
  destruct fr as [|q fr].
  - exists p. split; [now left|]. rewrite max_id_nil. lia.
  - destruct IH as [r [Hr1 Hr2]]; [congruence|].
    destruct (N.max_spec (fst p) (max_id (q :: fr))) as [[_ ->]|[_ ->]].
    + exists r. split; [now right|assumption].
    + exists p. split; [now left|reflexivity].
Qed.

Lemma adel_ids_In {A} n (fr : list (N * A)) m : In m (map fst (adel n fr)) <-> In m (map fst fr) /\ m <> n.
Proof.
  rewrite !in_map_iff. split.
  - intros [p [<- Hp]]. apply adel_In in Hp. destruct Hp as [Hp Hne]. split; [exists p; auto|assumption].
  - intros [[p [<- Hp]] Hne]. exists p. split; [reflexivity|]. apply adel_In. auto.
Qed.

Lemma adel_sorted {A} n (fr : list (N * A)) : StronglySorted N.lt (map fst fr) -> StronglySorted N.lt (map fst (adel n fr)).
Proof.
  induction fr as [|[k v] fr IH]; cbn [adel map]; [auto|]. intros H. cbn [fst] in H. inversion H as [|? ? Hs Hall]; subst.
  destruct (N.eqb_spec n k); [apply IH, Hs|]. cbn [map fst]. constructor; [apply IH, Hs|].
  rewrite Forall_forall in *. intros m Hm. apply adel_ids_In in Hm. apply Hall. tauto.
Qed.

(* removing the head id, or an id that is not there, from a strictly sorted directory *)
Lemma adel_low {A} n (fr : list (N * A)) : StronglySorted N.lt (map fst fr) ->
  (forall m, In m (map fst fr) -> n <= m) ->
  adel n fr = match fr with [] => [] | (k, v) :: r => if n =? k then r else fr end.
Proof.
  intros Hs Hlow. destruct fr as [|[k v] r]; [reflexivity|]. cbn [adel].
  inversion Hs as [|? ? Hs' Hall]; subst. cbn [map fst] in *.
  assert (Hr : adel n r = r).
  { clear Hs. rewrite Forall_forall in Hall. induction r as [|[k2 v2] r IH]; [reflexivity|]. cbn [adel].
    assert (k < k2) by (apply Hall; now left). assert (n <= k) by (apply Hlow; now left).
    destruct (N.eqb_spec n k2); [lia|]. f_equal. apply IH.
    - intros m [Hm|Hm]; apply Hlow; [now left|right; now right].
    - cbn [map fst] in Hs'. now inversion Hs'.
    - intros m Hm. apply Hall. now right. }
  destruct (N.eqb_spec n k); [assumption|]. now rewrite Hr.
Qed.

Lemma max_id_adel_le n (fr : list (N * list edit)) : max_id (adel n fr) <= max_id fr.
Proof.
  induction fr as [|[k2 v2] fr IH]; [cbn; lia|]. cbn [adel]. rewrite max_id_cons. cbn [fst].
  destruct (N.eqb_spec n k2); [|rewrite max_id_cons; cbn [fst]]; lia.
Qed.

Lemma max_id_adel n (fr : list (N * list edit)) : n < max_id fr -> max_id (adel n fr) = max_id fr.
Proof.
  induction fr as [|[k v] fr IH]; [reflexivity|]. rewrite max_id_cons. cbn [fst adel]. intros H.
  destruct (N.eqb_spec n k) as [->|Hne].
  - assert (Hk : k < max_id fr) by lia. rewrite (IH Hk). lia.
  - rewrite max_id_cons. cbn [fst].
    destruct (N.lt_ge_cases n (max_id fr)) as [Hlt|Hge]; [now rewrite IH|].
    pose proof (max_id_adel_le n fr). lia.
Qed.

Lemma sorted_lt_snoc l x : StronglySorted N.lt l -> (forall y, In y l -> y < x) -> StronglySorted N.lt (l ++ [x]).
Proof.
  induction l as [|a l IH]; intros Hs Hx; cbn.
  - constructor; [constructor|constructor].
  - inversion Hs as [|? ? Hs' Hall]; subst. constructor.
    + apply IH; [assumption|]. intros y Hy. apply Hx. now right.
    + rewrite Forall_forall in *. intros y Hy. apply in_app_iff in Hy. destruct Hy as [Hy|[<-|[]]]; [auto|].
      apply Hx. now left.
Qed.

Lemma removelast_In_lt l : StronglySorted N.lt l -> forall n, In n (removelast l) ->
  In n l /\ exists m, In m l /\ n < m.
Proof.
  induction l as [|a l IH]; [intros _ n []|]. intros Hs n Hn. inversion Hs as [|? ? Hs' Hall]; subst.
  destruct l as [|b l]; [destruct Hn|]. cbn [removelast] in Hn.
  change (In n (a :: removelast (b :: l))) in Hn. destruct Hn as [<-|Hn].
  - split; [now left|]. exists b. split; [right; now left|]. rewrite Forall_forall in Hall. apply Hall. now left.
  - destruct (IH Hs' n Hn) as [H1 [m [H2 H3]]]. split; [now right|]. exists m. split; [now right|assumption].
Qed.

Lemma removelast_sorted l : StronglySorted N.lt l -> StronglySorted N.le (removelast l).
Proof.
  induction l as [|a l IH]; [constructor|]. intros Hs. inversion Hs as [|? ? Hs' Hall]; subst.
  destruct l as [|b l]; [constructor|]. change (StronglySorted N.le (a :: removelast (b :: l))).
  constructor; [auto|]. rewrite Forall_forall in *. intros y Hy.
  destruct (removelast_In_lt _ Hs' y Hy) as [H1 _]. specialize (Hall y H1). lia.
Qed.

Lemma removelast_low l : StronglySorted N.lt l -> forall n m, In n (removelast l) -> In m l -> m < n -> In m (removelast l).
Proof.
  induction l as [|a l IH]; [intros _ n m []|]. intros Hs n m Hn Hm Hlt. inversion Hs as [|? ? Hs' Hall]; subst.
  destruct l as [|b l]; [destruct Hn|]. change (In n (a :: removelast (b :: l))) in Hn.
  change (In m (a :: removelast (b :: l))). rewrite Forall_forall in Hall.
  destruct Hm as [<-|Hm]; [now left|]. right.
  destruct Hn as [<-|Hn]; [specialize (Hall m Hm); lia|]. now apply (IH Hs' n m).
Qed.

Lemma max_id_lt_last fr n : In n (map fst fr) -> (exists m, In m (map fst fr) /\ n < m) -> n < max_id fr.
Proof.
  intros _ [m [Hm Hlt]]. apply in_map_iff in Hm. destruct Hm as [p [<- Hp]].
  pose proof (max_id_ge fr p Hp). lia.
Qed.

(* ---------------------------------------------------------------- vids / vdec_ok helpers *)
Lemma vids_app a b : vids (a ++ b) = vids a ++ vids b.
Proof. unfold vids. apply flat_map_app. Qed.

Lemma vids_unlinks l : vids (map VUnlinkTrash l) = [].
Proof. induction l as [|t l IH]; [reflexivity|]. cbn. assumption. Qed.

Lemma vdec_ok_nil fs : vdec_ok fs [].
Proof. intros a n b H. destruct a; discriminate. Qed.

Lemma vdec_ok_tail fs i pc : vdec_ok fs (i :: pc) -> (forall n, i <> VUnlinkFrag n) -> vdec_ok fs pc.
Proof.
  intros H Hi a n b E. destruct (H (i :: a) n b) as [H1|[H1|H1]]; [now rewrite E|auto|auto|].
  destruct H1 as [H1|H1]; [exfalso; exact (Hi n H1)|auto].
Qed.

Lemma vdec_ok_pre fs pre pc : vdec_ok fs pc -> (forall n, ~ In (VDecide n) pre) -> vdec_ok fs (pre ++ pc).
Proof.
  intros H Hpre. induction pre as [|i pre IH]; [assumption|].
  intros a n b E. destruct a as [|j a]; cbn in E.
  - injection E as E1 E2. exfalso. apply (Hpre n). now left.
  - injection E as <- E2. destruct (IH (fun m Hm => Hpre m (or_intror Hm)) a n b E2) as [H1|[H1|H1]]; auto.
    right. right. now right.
Qed.

Lemma vdec_ok_cons_dec fs n pc :
  (vs_m (f_vs fs) <> Some n \/ ~ In n (ids (f_md fs))) -> vdec_ok fs pc -> vdec_ok fs (VDecide n :: pc).
Proof.
  intros Hn H a m b E. destruct a as [|j a]; cbn in E.
  - injection E as -> _. tauto.
  - injection E as <- E2. destruct (H a m b E2) as [H1|[H1|H1]]; auto. right. right. now right.
Qed.

Lemma vdec_ok_insert_gen fs n rest : vdec_ok fs rest -> forall pre done,
  (forall k, ~ In (VDecide k) pre) ->
  (vs_m (f_vs fs) <> Some n \/ ~ In n (ids (f_md fs)) \/ In (VUnlinkFrag n) (done ++ pre)) ->
  forall a k b, pre ++ VDecide n :: rest = a ++ VDecide k :: b ->
    vs_m (f_vs fs) <> Some k \/ ~ In k (ids (f_md fs)) \/ In (VUnlinkFrag k) (done ++ a).
Proof.
  intros Hrest. induction pre as [|i pre IH]; intros done Hpre Hn a k b E.
  - cbn [app] in E. destruct a as [|j a]; cbn [app] in E.
    + injection E as <- _. rewrite !app_nil_r in *. exact Hn.
    + injection E as <- E. destruct (Hrest a k b E) as [K|[K|K]]; auto.
      right. right. apply in_or_app. right. now right.
  - destruct a as [|j a]; cbn [app] in E.
    + injection E as E _. exfalso. apply (Hpre k). now left.
    + injection E as <- E.
      destruct (IH (done ++ [i]) (fun m Hm => Hpre m (or_intror Hm))) with (a := a) (k := k) (b := b) as [K|[K|K]]; auto.
      * rewrite <- app_assoc. exact Hn.
      * right. right. now rewrite <- app_assoc in K.
Qed.

Lemma vdec_ok_insert fs pre n rest : vdec_ok fs rest -> (forall k, ~ In (VDecide k) pre) ->
  (vs_m (f_vs fs) <> Some n \/ ~ In n (ids (f_md fs)) \/ In (VUnlinkFrag n) pre) ->
  vdec_ok fs (pre ++ VDecide n :: rest).
Proof. intros H1 H2 H3 a k b E. exact (vdec_ok_insert_gen fs n rest H1 pre [] H2 H3 a k b E). Qed.

Lemma no_dec_unlinks l n : ~ In (VDecide n) (map VUnlinkTrash l).
Proof. rewrite in_map_iff. intros [t [H _]]. discriminate. Qed.

(* ---------------------------------------------------------------- the directory-level invariant *)
Record MdInv (fs : fsys) (g : list (N * list edit)) (v : option vproc) : Prop := mkMdInv {
  d_ok : frags_ok (all_frags (f_md fs));
  d_nil : md_live (f_md fs) = [] -> md_frags (f_md fs) = [];
  d_sorted : StronglySorted N.lt (ids (f_md fs));
  d_ghost : forall fr, In fr (md_frags (f_md fs)) -> In fr g;
  d_vsorted : forall vp, v = Some vp -> StronglySorted N.le (vids (vp_pc vp));
  d_vlow : forall vp, v = Some vp -> forall n m, In n (vids (vp_pc vp)) ->
           In m (ids (f_md fs)) -> m < n -> In m (vids (vp_pc vp));
  d_vmax : forall vp, v = Some vp -> forall n, In n (vids (vp_pc vp)) -> n < max_id (md_frags (f_md fs));
  d_vdec : forall vp, v = Some vp -> vdec_ok fs (vp_pc vp)
}.

Definition Hd (fs : fsys) (p : proc) : Prop :=
  p_ms p = frag_state (md_live (f_md fs)) /\ p_next p = max_id (md_frags (f_md fs)) + 1.

Lemma MdInv_frame fs fs' g v :
  f_md fs' = f_md fs -> vs_m (f_vs fs') = vs_m (f_vs fs) -> MdInv fs g v -> MdInv fs' g v.
Proof.
  intros E1 E2 [H1 H2 H3 H4 H5 H6 H7 H8]. split; rewrite ?E1; auto.
  intros vp Hv a n b E. unfold ids. rewrite E1, E2. exact (H8 vp Hv a n b E).
Qed.

Lemma MdInv_noverifier fs g v : MdInv fs g v -> MdInv fs g None.
Proof. intros [H1 H2 H3 H4 H5 H6 H7 H8]. split; auto; intros vp Hv; discriminate. Qed.

(* appending a fragment numbered above every other one *)
Lemma MdInv_rollover fs g v d next :
  MdInv fs g v -> f_md fs = d -> md_live d <> [] -> next = max_id (md_frags d) + 1 ->
  let d' := mkMd (md_frags d ++ [(next, md_live d)]) [rollup (frag_state (md_live d))] in
  MdInv (set_md fs d') (g ++ [(next, md_live d)]) v /\
  frag_state (md_live d') = frag_state (md_live d) /\ next + 1 = max_id (md_frags d') + 1.
Proof.
  intros [H1 H2 H3 H4 H5 H6 H7 H8] <- Hlive ->. cbn zeta.
  set (d := f_md fs) in *. set (next := max_id (md_frags d) + 1).
  assert (Hmax : max_id (md_frags d ++ [(next, md_live d)]) = next).
  { rewrite max_id_snoc. cbn [fst]. subst next. lia. }
  split; [split; cbn [set_md f_md f_vs md_frags md_live]|split].
  - unfold all_frags. cbn [md_frags md_live]. rewrite map_app. cbn [map snd]. rewrite <- app_assoc.
    change ([md_live d] ++ [[rollup (frag_state (md_live d))]]) with ([md_live d] ++ [[rollup (frag_state (md_live d))]]).
    rewrite app_assoc. apply frags_ok_snoc. fold (all_frags d).
    destruct (all_frags d) eqn:E; [unfold all_frags in E; destruct (map snd (md_frags d)); discriminate|].
    split; [assumption|]. exists []. rewrite <- E. unfold all_frags. now rewrite frags_last_snoc.
  - discriminate.
  - unfold ids. cbn [md_frags]. rewrite map_app. cbn [map fst]. apply sorted_lt_snoc; [assumption|].
    intros y Hy. apply in_map_iff in Hy. destruct Hy as [p [<- Hp]]. pose proof (max_id_ge _ _ Hp). subst next. lia.
  - intros fr Hfr. apply in_app_iff in Hfr. apply in_app_iff. destruct Hfr as [Hfr|Hfr]; [left; auto|now right].
  - assumption.
  - intros vp Hv n m Hn Hm Hlt. unfold ids in Hm. cbn [md_frags] in Hm. rewrite map_app in Hm. apply in_app_iff in Hm.
    destruct Hm as [Hm|[<-|[]]]; [now apply (H6 vp Hv n m)|].
    pose proof (H7 vp Hv n Hn). cbn [fst] in Hlt. subst next. lia.
  - intros vp Hv n Hn. rewrite Hmax. pose proof (H7 vp Hv n Hn). subst next. lia.
  - intros vp Hv a n b E. destruct (H8 vp Hv a n b E) as [K|[K|K]]; [left; exact K| |right; right; exact K].
    right. left. unfold ids. cbn [set_md f_md md_frags]. rewrite map_app, in_app_iff. cbn [map fst In].
    intros [K1|[K1|[]]]; [contradiction|].
    assert (Hn : In n (vids (vp_pc vp))).
    { rewrite E, vids_app. apply in_or_app. right. cbn. now left. }
    pose proof (H7 vp Hv n Hn). subst next. lia.
  - cbn [md_live]. apply rollup_state, frag_state_NoDup.
  - cbn [md_frags]. rewrite Hmax. reflexivity.
Qed.

Lemma live_head_stable (l : list edit) e prev : (exists es, l = rollup prev :: es) -> exists es, l ++ [e] = rollup prev :: es.
Proof. intros [es ->]. exists (es ++ [e]). reflexivity. Qed.

(* appending an edit to the live manifest *)
Lemma MdInv_append fs g v e :
  MdInv fs g v ->
  let d' := mkMd (md_frags (f_md fs)) (md_live (f_md fs) ++ [e]) in
  MdInv (set_md fs d') g v.
Proof.
  intros [H1 H2 H3 H4 H5 H6 H7 H8]. cbn zeta. split; cbn [set_md f_md f_vs md_frags md_live]; auto.
  - unfold all_frags in *. cbn [md_frags md_live]. apply frags_ok_snoc. apply frags_ok_snoc in H1.
    destruct (map snd (md_frags (f_md fs))) eqn:E; [exact I|]. destruct H1 as [K1 K2]. split; [assumption|].
    now apply live_head_stable.
  - intros K. destruct (md_live (f_md fs)); discriminate.
Qed.

Lemma md_apply_inv fs g v p e roll :
  MdInv fs g v -> Hd fs p ->
  forall d ms next r, md_apply (f_md fs) (p_ms p) (p_next p) e roll = (d, ms, next, r) ->
  MdInv (set_md fs d) (rollover_ghost g r) v /\ ms = frag_state (md_live d) /\ next = max_id (md_frags d) + 1.
Proof.
  intros HI [Hms Hnext] d ms next r E. unfold md_apply in E.
  pose proof (MdInv_append fs g v e HI) as HA. cbn zeta in HA.
  set (d1 := mkMd (md_frags (f_md fs)) (md_live (f_md fs) ++ [e])) in *.
  assert (Hst : apply_edit e (p_ms p) = frag_state (md_live d1)).
  { subst d1. cbn [md_live]. now rewrite frag_state_snoc, Hms. }
  destruct (roll && negb (is_nil (ms_strs (p_ms p)))).
  - unfold md_rollover in E. injection E as <- <- <- <-. cbn [rollover_ghost].
    destruct (MdInv_rollover (set_md fs d1) g v d1 (p_next p) HA) as [K1 [K2 K3]].
    + reflexivity.
    + subst d1. cbn [md_live]. destruct (md_live (f_md fs)); discriminate.
    + subst d1. cbn [md_frags]. exact Hnext.
    + cbn zeta in *. split; [|split].
      * rewrite Hst. exact K1.
      * rewrite Hst. cbn [md_live] in *. now rewrite K2.
      * exact K3.
  - injection E as <- <- <- <-. cbn [rollover_ghost]. split; [exact HA|split; [exact Hst|exact Hnext]].
Qed.

Lemma md_open_inv fs g v :
  MdInv fs g v ->
  forall d ms next r, md_open (f_md fs) = (d, ms, next, r) ->
  MdInv (set_md fs d) (rollover_ghost g r) v /\ ms = frag_state (md_live d) /\ next = max_id (md_frags d) + 1.
Proof.
  intros HI d ms next r E. unfold md_open in E. destruct (md_live (f_md fs)) eqn:El; cbn [is_nil] in E.
  - injection E as <- <- <- <-. cbn [rollover_ghost]. split; [|split; [now rewrite El|reflexivity]].
    apply (MdInv_frame fs); [reflexivity|reflexivity|assumption].
  - unfold md_rollover in E. injection E as <- <- <- <-. cbn [rollover_ghost].
    destruct (MdInv_rollover fs g v (f_md fs) (max_id (md_frags (f_md fs)) + 1) HI eq_refl) as [K1 [K2 K3]].
    + rewrite El. discriminate.
    + reflexivity.
    + cbn zeta in *. rewrite El in *. split; [exact K1|split; [now rewrite K2|exact K3]].
Qed.

(* ---------------------------------------------------------------- the verifier's steps *)
Lemma sorted_le_head n l : StronglySorted N.le (n :: l) -> forall m, In m l -> n <= m.
Proof. intros H. inversion H as [|? ? _ Hall]; subst. now rewrite Forall_forall in Hall. Qed.

Lemma sorted_le_tail n l : StronglySorted N.le (n :: l) -> StronglySorted N.le l.
Proof. intros H. now inversion H. Qed.

Lemma sorted_le_dup n l : StronglySorted N.le (n :: l) -> StronglySorted N.le (n :: n :: l).
Proof.
  intros H. constructor; [assumption|]. constructor; [lia|]. inversion H; assumption.
Qed.

Lemma MdInv_empty_pc fs g v : MdInv fs g v -> MdInv fs g (Some (mkVp [])).
Proof.
  intros [H1 H2 H3 H4 H5 H6 H7 H8]. split; auto; intros vp [= <-]; cbn [vp_pc vids flat_map].
  - constructor.
  - intros n m [].
  - intros n [].
  - apply vdec_ok_nil.
Qed.

(* the verifier unlinks fragment n: n is at most the lowest number on disk *)
Lemma MdInv_unlink_frag fs g n rest :
  MdInv fs g (Some (mkVp (VUnlinkFrag n :: rest))) ->
  MdInv (set_md fs (frag_remove n (f_md fs))) g (Some (mkVp rest)) /\
  max_id (md_frags (frag_remove n (f_md fs))) = max_id (md_frags (f_md fs)).
Proof.
  intros [H1 H2 H3 H4 H5 H6 H7 H8].
  specialize (H5 _ eq_refl). specialize (H6 _ eq_refl). specialize (H7 _ eq_refl). specialize (H8 _ eq_refl).
  cbn [vp_pc] in *. change (vids (VUnlinkFrag n :: rest)) with (n :: vids rest) in *.
  assert (Hlow : forall m, In m (ids (f_md fs)) -> n <= m).
  { intros m Hm. destruct (N.le_gt_cases n m) as [|Hlt]; [assumption|].
    destruct (H6 n m (or_introl eq_refl) Hm Hlt) as [<-|Hin]; [lia|].
    exact (sorted_le_head _ _ H5 m Hin). }
  assert (Hmaxn : n < max_id (md_frags (f_md fs))) by (apply H7; now left).
  pose proof (adel_low n (md_frags (f_md fs)) H3 Hlow) as Hadel.
  assert (Hmax : max_id (adel n (md_frags (f_md fs))) = max_id (md_frags (f_md fs))) by now apply max_id_adel.
  split; [|exact Hmax].
  split; cbn [set_md f_md f_vs frag_remove md_frags md_live].
  - unfold all_frags in *. unfold frag_remove. cbn [md_frags md_live]. rewrite Hadel.
    destruct (md_frags (f_md fs)) as [|[k f0] r]; [assumption|].
    destruct (N.eqb_spec n k); [|assumption]. cbn [map snd app] in H1.
    destruct (map snd r ++ [md_live (f_md fs)]) as [|f1 r'] eqn:E; [exact I|].
    cbn [frags_ok chained snd] in *. tauto.
  - intros K. specialize (H2 K). now rewrite H2.
  - unfold ids. cbn [md_frags]. now apply adel_sorted.
  - intros fr Hfr. apply adel_In in Hfr. apply H4. tauto.
  - intros vp [= <-]. cbn [vp_pc]. exact (sorted_le_tail _ _ H5).
  - intros vp [= <-] k m Hk Hm Hlt. cbn [vp_pc] in *. unfold ids in Hm. cbn [md_frags] in Hm.
    apply adel_ids_In in Hm. destruct Hm as [Hm Hne].
    destruct (H6 k m (or_intror Hk) Hm Hlt) as [E|Hin]; [congruence|assumption].
  - intros vp [= <-] k Hk. cbn [vp_pc] in *. rewrite Hmax. apply H7. now right.
  - intros vp [= <-] a k b E. cbn [vp_pc] in *.
    destruct (H8 (VUnlinkFrag n :: a) k b) as [K|[K|K]]; [now rewrite E|left; exact K| |].
    + right. left. unfold ids, frag_remove. cbn [set_md f_md md_frags]. rewrite adel_ids_In. intros [K1 _]. contradiction.
    + destruct K as [K|K]; [|right; right; exact K]. injection K as ->.
      right. left. unfold ids, frag_remove. cbn [set_md f_md md_frags]. rewrite adel_ids_In. tauto.
Qed.

Lemma vexec_inv fs g i rest ok fs' pc' :
  MdInv fs g (Some (mkVp (i :: rest))) -> vexec i ok rest fs = (fs', pc') ->
  MdInv fs' g (Some (mkVp pc')) /\
  md_live (f_md fs') = md_live (f_md fs) /\
  max_id (md_frags (f_md fs')) = max_id (md_frags (f_md fs)) /\
  f_sst fs' = f_sst fs /\ f_logs fs' = f_logs fs.
Proof.
  intros HI E.
  assert (Hfr : forall fs2 pc2, f_md fs2 = f_md fs -> vs_m (f_vs fs2) = vs_m (f_vs fs) ->
            MdInv fs g (Some (mkVp pc2)) -> MdInv fs2 g (Some (mkVp pc2))).
  { intros fs2 pc2 E1 E2. now apply MdInv_frame. }
  pose proof HI as [H1 H2 H3 H4 H5 H6 H7 H8].
  specialize (H5 _ eq_refl). specialize (H6 _ eq_refl). specialize (H7 _ eq_refl). specialize (H8 _ eq_refl).
  cbn [vp_pc] in *.
  destruct i as [n|n|t| |n]; cbn [vexec] in E.
  - (* VStartEntry *)
    change (vids (VStartEntry n :: rest)) with (n :: vids rest) in *.
    destruct (vs_m (f_vs fs)) as [old|] eqn:Em.
    + destruct (N.ltb_spec n old).
      * injection E as <- <-. (split; [|split; [reflexivity|split; [reflexivity|split; reflexivity]]]). now apply (MdInv_empty_pc _ _ _ HI).
      * injection E as <- <-. (split; [|split; [reflexivity|split; [reflexivity|split; reflexivity]]]).
        match goal with |- MdInv _ _ (Some (mkVp ?l)) => remember l as pcn eqn:Epc end.
        assert (Hv : vids pcn = (if old =? n then [n] else []) ++ n :: vids rest).
        { subst pcn. rewrite !vids_app, vids_unlinks. destruct (old =? n); reflexivity. }
        split; auto; intros vp [= <-]; cbn [vp_pc]; rewrite ?Hv.
        -- destruct (old =? n); [now apply sorted_le_dup|assumption].
        -- intros k m Hk Hm Hlt. destruct (old =? n); cbn [app] in *.
           ++ right. apply (H6 k m); [destruct Hk as [<-|Hk]; [now left|assumption]|assumption|assumption].
           ++ now apply (H6 k m).
        -- intros k Hk. apply H7. destruct (old =? n); cbn [app] in Hk; [destruct Hk as [<-|Hk]; [now left|assumption]|assumption].
        -- assert (Epc2 : pcn = ((if old =? n then [VUnlinkFrag n] else []) ++ map VUnlinkTrash (vs_strs (f_vs fs)) ++ [VClear]) ++ VDecide n :: rest)
             by (subst pcn; rewrite <- !app_assoc; reflexivity).
           rewrite Epc2.
           apply vdec_ok_insert.
           ++ apply (vdec_ok_tail fs (VStartEntry n)); [assumption|discriminate].
           ++ intros k Hk. apply in_app_iff in Hk. destruct Hk as [Hk|Hk].
              ** destruct (old =? n); [destruct Hk as [Hk|[]]; discriminate|destruct Hk].
              ** apply in_app_iff in Hk. destruct Hk as [Hk|[Hk|[]]]; [exact (no_dec_unlinks _ _ Hk)|discriminate].
           ++ destruct (N.eqb_spec old n) as [->|Hne].
              ** right. right. now left.
              ** left. rewrite Em. congruence.
    + injection E as <- <-. (split; [|split; [reflexivity|split; [reflexivity|split; reflexivity]]]).
      split; auto; intros vp [= <-]; cbn [vp_pc]; change (vids (VDecide n :: rest)) with (n :: vids rest); auto.
      apply vdec_ok_cons_dec; [left; rewrite Em; discriminate|].
      apply (vdec_ok_tail fs (VStartEntry n)); [assumption|discriminate].
  - (* VUnlinkFrag *)
    injection E as <- <-. destruct (MdInv_unlink_frag fs g n rest HI) as [K1 K2].
    split; [exact K1|]. split; [reflexivity|]. split; [exact K2|]. split; reflexivity.
  - (* VUnlinkTrash *)
    assert (HI' : MdInv fs g (Some (mkVp rest))).
    { split; auto; intros vp [= <-]; cbn [vp_pc]; auto.
      apply (vdec_ok_tail fs (VUnlinkTrash t)); [assumption|discriminate]. }
    destruct t as [x|k]; injection E as <- <-; (split; [|split; [reflexivity|split; [reflexivity|split; reflexivity]]]); now apply Hfr.
  - (* VClear *)
    injection E as <- <-. (split; [|split; [reflexivity|split; [reflexivity|split; reflexivity]]]). apply Hfr; [reflexivity|reflexivity|].
    split; auto; intros vp [= <-]; cbn [vp_pc]; auto.
    apply (vdec_ok_tail fs VClear); [assumption|discriminate].
  - (* VDecide *)
    change (vids (VDecide n :: rest)) with (n :: vids rest) in *.
    assert (Htail : vdec_ok fs rest) by (apply (vdec_ok_tail fs (VDecide n)); [assumption|discriminate]).
    destruct (match vs_m (f_vs fs) with Some old => old =? n | None => false end) eqn:Ec.
    + (* already processed *)
      injection E as <- <-. (split; [|split; [reflexivity|split; [reflexivity|split; reflexivity]]]).
      assert (Hnot : ~ In n (ids (f_md fs))).
      { destruct (H8 [] n rest eq_refl) as [K|[K|[]]]; [|assumption].
        destruct (vs_m (f_vs fs)) as [old|]; [|discriminate]. apply N.eqb_eq in Ec. congruence. }
      split; auto; intros vp [= <-]; cbn [vp_pc].
      * exact (sorted_le_tail _ _ H5).
      * intros k m Hk Hm Hlt. destruct (H6 k m (or_intror Hk) Hm Hlt) as [<-|Hin]; [contradiction|assumption].
      * intros k Hk. apply H7. now right.
      * exact Htail.
    + destruct (is_nil (vs_strs (f_vs fs))); cbn [negb] in E;
        [|injection E as <- <-; (split; [|split; [reflexivity|split; [reflexivity|split; reflexivity]]]); now apply (MdInv_empty_pc _ _ _ HI)].
      destruct (frag_find n (f_md fs)) as [f|];
        [|injection E as <- <-; (split; [|split; [reflexivity|split; [reflexivity|split; reflexivity]]]); now apply (MdInv_empty_pc _ _ _ HI)].
      destruct ok; cbn [negb] in E;
        [|injection E as <- <-; (split; [|split; [reflexivity|split; [reflexivity|split; reflexivity]]]); now apply (MdInv_empty_pc _ _ _ HI)].
      destruct (forallb (tent_present fs) (intent n f (f_md fs)));
        [|injection E as <- <-; (split; [|split; [reflexivity|split; [reflexivity|split; reflexivity]]]); now apply (MdInv_empty_pc _ _ _ HI)].
      injection E as <- <-. (split; [|split; [reflexivity|split; [reflexivity|split; reflexivity]]]).
      set (strs := tent_sort (intent n f (f_md fs))).
      match goal with |- MdInv _ _ (Some (mkVp ?l)) => remember l as pcn eqn:Epc end.
      assert (Hv : vids pcn = n :: vids rest).
      { subst pcn. cbn [app]. change (n :: vids (map VUnlinkTrash strs ++ VClear :: rest) = n :: vids rest).
        f_equal. rewrite vids_app, vids_unlinks. reflexivity. }
      split; cbn [set_vs f_md f_vs]; auto; intros vp [= <-]; cbn [vp_pc]; rewrite ?Hv; auto.
      subst pcn. intros a k b Ek. cbn [app] in Ek. destruct a as [|j a]; [discriminate|]. injection Ek as <- Ek.
      assert (Hk : vdec_ok fs (map VUnlinkTrash strs ++ [VClear] ++ rest)).
      { apply vdec_ok_pre; [|apply no_dec_unlinks]. apply vdec_ok_pre; [assumption|intros m [K|[]]; discriminate]. }
      destruct (N.eq_dec k n) as [->|Hne]; [right; right; now left|].
      destruct (Hk a k b Ek) as [K|[K|K]].
      * left. cbn [set_vs f_vs vs_m]. congruence.
      * right. left. exact K.
      * right. right. now right.
Qed.

Lemma vids_start l : vids (map VStartEntry l) = l.
Proof. induction l as [|n l IH]; [reflexivity|]. cbn. now f_equal. Qed.

Lemma MdInv_begin fs g : MdInv fs g None -> MdInv fs g (Some (mkVp (map VStartEntry (v_entries (f_md fs))))).
Proof.
  intros [H1 H2 H3 H4 H5 H6 H7 H8]. split; auto; intros vp [= <-]; cbn [vp_pc]; rewrite ?vids_start; unfold v_entries.
  - now apply removelast_sorted.
  - intros n m Hn Hm Hlt. now apply (removelast_low _ H3 n m).
  - intros n Hn. destruct (removelast_In_lt _ H3 n Hn) as [K1 K2]. now apply max_id_lt_last.
  - intros a n b E. exfalso. assert (K : In (VDecide n) (map VStartEntry (removelast (map fst (md_frags (f_md fs)))))).
    { rewrite E. apply in_or_app. right. now left. }
    apply in_map_iff in K. destruct K as [x [K _]]. discriminate.
Qed.

(* ---------------------------------------------------------------- thread bookkeeping *)
Lemma pc_get_set_same t l p : pc_get t (pc_set t l p) = l.
Proof.
  unfold pc_get, pc_set, set_pcs. cbn [p_pcs]. destruct l as [|i l].
  - now rewrite aget_adel_same.
  - now rewrite aget_aset_same.
Qed.

Lemma pc_get_set_other t t' l p : t' <> t -> pc_get t' (pc_set t l p) = pc_get t' p.
Proof.
  intros H. unfold pc_get, pc_set, set_pcs. cbn [p_pcs]. destruct l as [|i l].
  - now rewrite aget_adel_other.
  - now rewrite aget_aset_other.
Qed.

Definition is_pushed (i : instr) : Prop := match i with IRelease _ | IOrphan _ => True | _ => False end.

Lemma pushed_releases l : Forall is_pushed (map IRelease l).
Proof. induction l; constructor; [exact I|assumption]. Qed.
Lemma pushed_orphans l : Forall is_pushed (map IOrphan l).
Proof. induction l; constructor; [exact I|assumption]. Qed.

(* what unref_drop does to the fields this file cares about *)
Lemma unref_drop_pcs t i p :
  (forall t', t' <> t -> pc_get t' (unref_drop t i p) = pc_get t' p) /\
  (exists pushed, Forall is_pushed pushed /\ pc_get t (unref_drop t i p) = pushed ++ pc_get t p) /\
  p_ms (unref_drop t i p) = p_ms p /\ p_next (unref_drop t i p) = p_next p /\
  p_ready (unref_drop t i p) = p_ready p.
Proof.
  unfold unref_drop. destruct (Nat.eqb (strong_of p i) 1).
  - split; [|split; [|repeat split]].
    + intros t' Ht. now rewrite pc_get_set_other.
    + exists (map IRelease (names_of p i)). split; [apply pushed_releases|]. now rewrite pc_get_set_same.
  - split; [|split; [|repeat split]].
    + reflexivity.
    + exists []. split; [constructor|reflexivity].
Qed.

Definition md_instr (i : instr) : bool :=
  match i with ICommit (Some _) _ | IManiOpen | IInitEdit | IApplyIfAbsent _ _ => true | _ => false end.

Record ExecFacts (t : N) (i : instr) (s : sys) (p1 : proc) (s' : sys) (op' : option proc) : Prop := mkEF {
  ef_v : s_v s' = s_v s;
  ef_md : MdInv (s_fs s) (s_frags s) (s_v s) -> (md_instr i = true -> i = IManiOpen \/ Hd (s_fs s) p1) ->
          MdInv (s_fs s') (s_frags s') (s_v s');
  ef_hd : forall p', op' = Some p' -> MdInv (s_fs s) (s_frags s) (s_v s) ->
          (i = IManiOpen \/ Hd (s_fs s) p1) -> Hd (s_fs s') p';
  ef_other : forall p' t', op' = Some p' -> t' <> t -> pc_get t' p' = pc_get t' p1;
  ef_self : forall p', op' = Some p' ->
            pc_get t p' = [] \/ exists pushed, Forall is_pushed pushed /\ pc_get t p' = pushed ++ pc_get t p1;
  ef_ready : forall p', op' = Some p' ->
             p_ready p' = match i with INewLog _ _ => true | _ => p_ready p1 end;
  ef_self0 : match i with
             | INewLog _ _ => forall p', op' = Some p' -> pc_get t p' = pc_get t p1
             | _ => True
             end
}.

Lemma Hd_frame fs fs' p p' :
  f_md fs' = f_md fs -> p_ms p' = p_ms p -> p_next p' = p_next p -> Hd fs p -> Hd fs' p'.
Proof. unfold Hd. intros -> -> ->. tauto. Qed.

Ltac ef_simple :=
  split; cbn [s_v s_fs s_frags];
  [ reflexivity
  | intros HI _; try exact HI; try (eapply MdInv_frame; [| |exact HI]; reflexivity)
  | intros p' [= <-] HI [Habs|Hh]; [discriminate Habs|]; try exact Hh; try (eapply Hd_frame; [| | |exact Hh]; reflexivity)
  | intros p' t' [= <-] Ht; cbn [pc_get p_pcs set_refs set_vers set_handles set_mani set_kvs]; try reflexivity
  | intros p' [= <-]; right; exists []; split; [constructor|]; cbn [app pc_get p_pcs set_refs set_vers set_handles set_mani set_kvs]; try reflexivity
  | intros p' [= <-]; cbn [p_ready set_refs set_vers set_handles set_mani set_kvs]; try reflexivity
  | try exact I; try (intros p' [= <-]; reflexivity) ].

Lemma store_apply_facts s p e roll s1 p1 :
  store_apply s p e roll = (s1, p1) ->
  s_v s1 = s_v s /\ p_pcs p1 = p_pcs p /\ p_ready p1 = p_ready p /\
  (MdInv (s_fs s) (s_frags s) (s_v s) -> Hd (s_fs s) p ->
   MdInv (s_fs s1) (s_frags s1) (s_v s1) /\ Hd (s_fs s1) p1).
Proof.
  unfold store_apply. destruct (md_apply (f_md (s_fs s)) (p_ms p) (p_next p) e roll) as [[[d ms] next] r] eqn:E.
  intros [= <- <-]. cbn [s_v s_fs s_frags p_pcs p_ready set_mani].
  split; [reflexivity|]. split; [reflexivity|]. split; [reflexivity|]. intros H H0.
  destruct (md_apply_inv _ _ _ _ _ _ H H0 _ _ _ _ E) as [K0 [K1 K2]].
  split; [exact K0|]. split; cbn [p_ms p_next set_mani set_md f_md]; assumption.
Qed.

Lemma pc_get_eq t a b : p_pcs a = p_pcs b -> pc_get t a = pc_get t b.
Proof. unfold pc_get. now intros ->. Qed.

Lemma exec_facts t i s p1 s' op' : exec t i s p1 = (s', op') -> ExecFacts t i s p1 s' op'.
Proof.
  destruct i as [x|x|oe roll|x|h|h|n| | |x|x roll| | |x|rec tm]; cbn [exec]; intros E.
  - (* ILinkExcl *)
    destruct (mem x (f_sst (s_fs s))); injection E as <- <-.
    + split; cbn [s_v s_fs s_frags]; [reflexivity|intros HI _; exact HI| | | | |exact I].
      * intros p' [= <-] HI [Habs|Hh]; [discriminate|]. exact Hh.
      * intros p' t' [= <-] Ht. now apply pc_get_set_other.
      * intros p' [= <-]. left. apply pc_get_set_same.
      * intros p' [= <-]. reflexivity.
    + ef_simple.
  - injection E as <- <-. ef_simple.
  - (* ICommit *)
    destruct oe as [e|].
    + destruct (store_apply s p1 e roll) as [s1 p2] eqn:Es.
      destruct (store_apply_facts _ _ _ _ _ _ Es) as [F1 [F2 [F3 F4]]].
      injection E as <- <-.
      match goal with |- ExecFacts _ _ _ _ _ (Some (unref_drop ?t ?o ?q)) => destruct (unref_drop_pcs t o q) as [U1 [[pushed [U2 U3]] [U4 [U5 U6]]]] end.
      split; cbn [s_v s_fs s_frags].
      * exact F1.
      * intros HI Hh. destruct (Hh eq_refl) as [Habs|Hh']; [discriminate|]. now apply F4.
      * intros p' [= <-] HI [Habs|Hh]; [discriminate|]. destruct (F4 HI Hh) as [_ [K1 K2]].
        split; [rewrite U4|rewrite U5]; cbn [p_ms p_next set_refs set_vers]; assumption.
      * intros p' t' [= <-] Ht. rewrite (U1 t' Ht). apply pc_get_eq. cbn [p_pcs set_refs set_vers]. exact F2.
      * intros p' [= <-]. right. exists pushed. split; [assumption|]. rewrite U3. f_equal. apply pc_get_eq. cbn [p_pcs set_refs set_vers]. exact F2.
      * intros p' [= <-]. rewrite U6. cbn [p_ready set_refs set_vers]. exact F3.
      * exact I.
    + injection E as <- <-.
      match goal with |- ExecFacts _ _ _ _ _ (Some (unref_drop ?t ?o ?q)) => destruct (unref_drop_pcs t o q) as [U1 [[pushed [U2 U3]] [U4 [U5 U6]]]] end.
      split; cbn [s_v s_fs s_frags].
      * reflexivity.
      * intros HI _. exact HI.
      * intros p' [= <-] HI [Habs|Hh]; [discriminate|]. destruct Hh as [K1 K2].
        split; [rewrite U4|rewrite U5]; cbn [p_ms p_next set_refs set_vers]; assumption.
      * intros p' t' [= <-] Ht. rewrite (U1 t' Ht). reflexivity.
      * intros p' [= <-]. right. exists pushed. split; [assumption|]. rewrite U3. reflexivity.
      * intros p' [= <-]. rewrite U6. reflexivity.
      * exact I.
  - (* IRelease *)
    destruct (rc_dec x (p_refs p1)) as [r last]. injection E as <- <-. destruct last; [unfold to_trash; destruct (mem x (f_sst (s_fs s)))|]; ef_simple.
  - (* ITake *)
    destruct (aget h (p_snaps p1)); injection E as <- <-; ef_simple.
  - (* IDropSnap *)
    destruct (aget h (p_snaps p1)) as [v|]; injection E as <- <-; [|ef_simple].
    match goal with |- ExecFacts _ _ _ _ _ (Some (unref_drop ?t ?o ?q)) => destruct (unref_drop_pcs t o q) as [U1 [[pushed [U2 U3]] [U4 [U5 U6]]]] end.
    split; cbn [s_v s_fs s_frags].
    + reflexivity.
    + intros HI _. exact HI.
    + intros p' [= <-] HI [Habs|Hh]; [discriminate|]. destruct Hh as [K1 K2].
      split; [rewrite U4|rewrite U5]; cbn [p_ms p_next set_handles]; assumption.
    + intros p' t' [= <-] Ht. rewrite (U1 t' Ht). reflexivity.
    + intros p' [= <-]. right. exists pushed. split; [assumption|]. rewrite U3. reflexivity.
    + intros p' [= <-]. rewrite U6. reflexivity.
    + exact I.
  - (* IRenameLog *)
    destruct (log_find n (f_logs (s_fs s))); injection E as <- <-; ef_simple.
  - (* IManiOpen *)
    destruct (md_open (f_md (s_fs s))) as [[[d ms] next] r] eqn:Eo. injection E as <- <-.
    split; cbn [s_v s_fs s_frags].
    + reflexivity.
    + intros HI _. apply (md_open_inv _ _ _ HI _ _ _ _ Eo).
    + intros p' [= <-] HI _. destruct (md_open_inv _ _ _ HI _ _ _ _ Eo) as [_ [K1 K2]].
      split; cbn [p_ms p_next set_mani set_md f_md]; assumption.
    + intros p' t' [= <-] Ht. reflexivity.
    + intros p' [= <-]. right. exists []. split; [constructor|reflexivity].
    + intros p' [= <-]. reflexivity.
    + exact I.
  - (* IInitEdit *)
    destruct (is_nil (md_live (f_md (s_fs s)))).
    + destruct (store_apply s p1 (mkEdit [] [] None) false) as [s1 p2] eqn:Es.
      destruct (store_apply_facts _ _ _ _ _ _ Es) as [F1 [F2 [F3 F4]]]. injection E as <- <-.
      split.
      * exact F1.
      * intros HI Hh. destruct (Hh eq_refl) as [Habs|Hh']; [discriminate|]. now apply F4.
      * intros p' [= <-] HI [Habs|Hh]; [discriminate|]. now apply F4.
      * intros p' t' [= <-] Ht. apply pc_get_eq. exact F2.
      * intros p' [= <-]. right. exists []. split; [constructor|]. cbn [app]. apply pc_get_eq. exact F2.
      * intros p' [= <-]. exact F3.
      * exact I.
    + injection E as <- <-. ef_simple.
  - (* ILinkIfAbsent *)
    destruct (mem x (f_sst (s_fs s))); injection E as <- <-; ef_simple.
  - (* IApplyIfAbsent *)
    destruct (mem x (ms_strs (p_ms p1))).
    + injection E as <- <-. ef_simple.
    + destruct (store_apply s p1 (mkEdit [] [x] None) roll) as [s1 p2] eqn:Es.
      destruct (store_apply_facts _ _ _ _ _ _ Es) as [F1 [F2 [F3 F4]]]. injection E as <- <-.
      split.
      * exact F1.
      * intros HI Hh. destruct (Hh eq_refl) as [Habs|Hh']; [discriminate|]. now apply F4.
      * intros p' [= <-] HI [Habs|Hh]; [discriminate|]. now apply F4.
      * intros p' t' [= <-] Ht. apply pc_get_eq. exact F2.
      * intros p' [= <-]. right. exists []. split; [constructor|]. cbn [app]. apply pc_get_eq. exact F2.
      * intros p' [= <-]. exact F3.
      * exact I.
  - (* IFromManifest *)
    destruct (forallb (fun x => mem x (f_sst (s_fs s))) (ms_strs (p_ms p1))); injection E as <- <-; [ef_simple|].
    split; cbn [s_v s_fs s_frags]; [reflexivity|intros HI _; exact HI| | | | |exact I]; intros p' H; discriminate.
  - (* IOrphans *)
    injection E as <- <-. split; cbn [s_v s_fs s_frags].
    + reflexivity.
    + intros HI _. exact HI.
    + intros p' [= <-] HI [Habs|Hh]; [discriminate|]. exact Hh.
    + intros p' t' [= <-] Ht. now apply pc_get_set_other.
    + intros p' [= <-]. right. exists (map IOrphan (orphan_scan (f_md (s_fs s)))). split; [apply pushed_orphans|apply pc_get_set_same].
    + intros p' [= <-]. reflexivity.
    + exact I.
  - (* IOrphan *)
    destruct (mem x (f_sst (s_fs s)) && negb (mem x (f_trash (s_fs s)))); injection E as <- <-; [|ef_simple].
    unfold to_trash. destruct (mem x (f_sst (s_fs s))); ef_simple.
  - (* INewLog *)
    injection E as <- <-. ef_simple.
Qed.

(* ---------------------------------------------------------------- the invariant and its preservation *)
Record PcInv (p : proc) : Prop := mkPcInv {
  pc_open1 : ~ In IManiOpen (tl (main_pc p));
  pc_open2 : forall a r t b, main_pc p = a ++ INewLog r t :: b -> b = [];
  pc_ready : p_ready p = true -> main_pc p = [];
  pc_notready : p_ready p = false -> forall t, t <> T_MAIN -> pc_get t p = []
}.

Definition InvM (s : sys) : Prop :=
  MdInv (s_fs s) (s_frags s) (s_v s) /\
  forall p, s_p s = Some p -> PcInv p /\ (~ In IManiOpen (main_pc p) -> Hd (s_fs s) p).

Lemma instr_eq_ManiOpen (i : instr) : {i = IManiOpen} + {i <> IManiOpen}.
Proof. destruct i; (left; reflexivity) || (right; discriminate). Qed.

Lemma pushed_not i pushed : Forall is_pushed pushed -> ~ is_pushed i -> ~ In i pushed.
Proof. intros H Hi Hin. rewrite Forall_forall in H. exact (Hi (H i Hin)). Qed.

Lemma split_after_pushed pushed rest a (i : instr) b :
  Forall is_pushed pushed -> ~ is_pushed i -> pushed ++ rest = a ++ i :: b -> exists a', rest = a' ++ i :: b.
Proof.
  intros Hp Hi. revert a. induction pushed as [|j pushed IH]; intros a E; cbn [app] in E.
  - now exists a.
  - inversion Hp as [|? ? Hj Hp']; subst. destruct a as [|k a]; cbn [app] in E.
    + injection E as -> _. contradiction.
    + injection E as _ E. exact (IH Hp' a E).
Qed.

Lemma in_tl {A} (x : A) l : In x (tl l) -> In x l.
Proof. destruct l; cbn; auto. Qed.

Lemma recover_prog_instrs sums rolls l i : In i (recover_prog sums rolls l) ->
  match i with ILinkIfAbsent _ | IApplyIfAbsent _ _ | IRenameLog _ => True | _ => False end.
Proof.
  unfold recover_prog. destruct (aget (l_num l) sums); [destruct (l_maxts l =? 0)|]; cbn [In]; intuition (subst; exact I).
Qed.

Lemma open_prog_shape sums rolls logs rec tm :
  let prog := [IManiOpen; IInitEdit] ++ flat_map (recover_prog sums rolls) logs ++ [IFromManifest; IOrphans; INewLog rec tm] in
  ~ In IManiOpen (tl prog) /\ forall a r t b, prog = a ++ INewLog r t :: b -> b = [].
Proof.
  cbn zeta. set (mid := flat_map (recover_prog sums rolls) logs).
  assert (Hmid : forall i, In i mid -> match i with ILinkIfAbsent _ | IApplyIfAbsent _ _ | IRenameLog _ => True | _ => False end).
  { intros i Hi. apply in_flat_map in Hi. destruct Hi as [l [_ Hl]]. exact (recover_prog_instrs _ _ _ _ Hl). }
  split.
  - cbn [app tl]. intros [H|H]; [discriminate|]. apply in_app_iff in H. destruct H as [H|[H|[H|[H|[]]]]]; try discriminate.
    exact (Hmid _ H).
  - intros a r t b E.
    assert (G : forall (pre : list instr) a, (forall i, In i pre -> match i with INewLog _ _ => False | _ => True end) ->
                  pre ++ [INewLog rec tm] = a ++ INewLog r t :: b -> b = []).
    { induction pre as [|j pre IH]; intros a0 Hpre E0; cbn [app] in E0.
      - destruct a0 as [|k a0]; cbn [app] in E0; [now injection E0|]. injection E0 as _ E0. destruct a0; discriminate.
      - destruct a0 as [|k a0]; cbn [app] in E0.
        + injection E0 as -> _. exfalso. exact (Hpre _ (or_introl eq_refl)).
        + injection E0 as _ E0. apply (IH a0); [intros i Hi; apply Hpre; now right|assumption]. }
    apply (G ([IManiOpen; IInitEdit] ++ mid ++ [IFromManifest; IOrphans]) a).
    + intros i Hi. cbn [app] in Hi. destruct Hi as [<-|[<-|Hi]]; [exact I|exact I|].
      apply in_app_iff in Hi. destruct Hi as [Hi|[<-|[<-|[]]]]; [|exact I|exact I].
      specialize (Hmid i Hi). destruct i; try exact I; contradiction.
    + rewrite <- E. rewrite <- !app_assoc. reflexivity.
Qed.

Lemma PcInv_same_pcs p p' :
  (forall t, pc_get t p' = pc_get t p) -> p_ready p' = p_ready p -> PcInv p -> PcInv p'.
Proof.
  intros Hpc Hr [H1 H2 H3 H4]. unfold main_pc in *. split; unfold main_pc; rewrite ?Hpc, ?Hr; auto.
  intros Hf t Ht. rewrite Hpc. auto.
Qed.

(* a thread other than the opening one gets a new program once the store is open *)
Lemma PcInv_spawn t prog p : t <> T_MAIN -> p_ready p = true -> PcInv p -> PcInv (pc_set t prog p).
Proof.
  intros Ht Hr [H1 H2 H3 H4]. unfold main_pc in *.
  assert (E : pc_get T_MAIN (pc_set t prog p) = pc_get T_MAIN p) by (apply pc_get_set_other; congruence).
  split; unfold main_pc; rewrite ?E; auto.
  cbn [p_ready pc_set set_pcs]. intros Hf. congruence.
Qed.

Lemma T_READER_not_main r : T_READER r <> T_MAIN.
Proof. unfold T_READER, T_MAIN. lia. Qed.
Lemma T_READER_not_flush r : T_READER r <> T_FLUSH.
Proof. unfold T_READER, T_FLUSH. lia. Qed.
Lemma T_COMPACT_not_main j : T_COMPACT j <> T_MAIN.
Proof. unfold T_COMPACT, T_MAIN. lia. Qed.
Lemma T_COMPACT_not_flush j : T_COMPACT j <> T_FLUSH.
Proof. unfold T_COMPACT, T_FLUSH. lia. Qed.

Theorem InvM_step s ev : InvM s -> InvM (step s ev).
Proof.
  intros [HM HP]. destruct ev as [sums rolls tm|t| |x roll|j ins outs roll hold|j|r|r| | |ok| ]; cbn [step].
  - (* EOpen *)
    destruct (s_p s) as [p|] eqn:Ep; [split; [exact HM|now rewrite Ep]|].
    match goal with |- InvM (if ?c then _ else _) => destruct c end; [|split; [exact HM|now rewrite Ep]].
    split; cbn [s_fs s_frags s_v s_p upd_p upd_fs].
    + eapply MdInv_frame; [| |exact HM]; reflexivity.
    + intros p [= <-].
      match goal with |- PcInv (pc_set _ ?pr _) /\ _ => set (prog := pr) end.
      assert (Em : main_pc (pc_set T_MAIN prog fresh_proc) = prog) by apply pc_get_set_same.
      destruct (open_prog_shape sums rolls
                  (map (fun l => match aget (l_num l) sums with
                                 | Some x => if l_maxts l =? 0 then l else mkLog (l_num l) (l_maxts l) (Some x)
                                 | None => l end) (f_logs (s_fs s)))
                  (max_ts (map (fun l => match aget (l_num l) sums with
                                 | Some x => if l_maxts l =? 0 then l else mkLog (l_num l) (l_maxts l) (Some x)
                                 | None => l end) (f_logs (s_fs s)))) tm) as [K1 K2].
      split; [split|].
      * rewrite Em. exact K1.
      * rewrite Em. exact K2.
      * cbn [p_ready pc_set set_pcs fresh_proc]. discriminate.
      * intros _ t Ht. rewrite pc_get_set_other by assumption. reflexivity.
      * rewrite Em. intros H. exfalso. apply H. now left.
  - (* EStep *)
    destruct (s_p s) as [p|] eqn:Ep; [|split; [exact HM|now rewrite Ep]].
    destruct (pc_get t p) as [|i rest] eqn:Epc; [split; [exact HM|now rewrite Ep]|].
    destruct (negb (p_ready p) && negb (t =? T_MAIN)) eqn:Eg; [split; [exact HM|now rewrite Ep]|].
    destruct (HP p eq_refl) as [[P1 P2 P3 P4] PH].
    set (p1 := pc_set t rest p).
    destruct (exec t i s p1) as [s1 op] eqn:Ee. pose proof (exec_facts _ _ _ _ _ _ Ee) as EF.
    assert (Hp1 : forall t', pc_get t' p1 = if t' =? t then rest else pc_get t' p).
    { intros t'. subst p1. destruct (N.eqb_spec t' t) as [->|Hne]; [apply pc_get_set_same|now apply pc_get_set_other]. }
    assert (Hguard : p_ready p = true \/ t = T_MAIN).
    { destruct (p_ready p); [now left|]. right. cbn in Eg. destruct (N.eqb_spec t T_MAIN); [assumption|discriminate]. }
    assert (Hhd : i = IManiOpen \/ Hd (s_fs s) p1).
    { destruct (instr_eq_ManiOpen i) as [->|Hne]; [now left|]. right.
      apply (Hd_frame (s_fs s) (s_fs s) p); try reflexivity. apply PH. unfold main_pc.
      destruct (N.eq_dec t T_MAIN) as [->|Ht].
      - rewrite Epc. intros [H|H]; [congruence|]. apply P1. unfold main_pc. now rewrite Epc.
      - destruct Hguard as [Hr|Hr]; [|contradiction]. unfold main_pc in P3. rewrite (P3 Hr). intros []. }
    split; cbn [s_fs s_frags s_v s_p upd_p].
    + apply (ef_md _ _ _ _ _ _ EF HM). intros _. exact Hhd.
    + intros p' [= ->].
      assert (Hother : forall t', t' <> t -> pc_get t' p' = pc_get t' p).
      { intros t' Ht. rewrite (ef_other _ _ _ _ _ _ EF p' t' eq_refl Ht), Hp1. destruct (N.eqb_spec t' t); [contradiction|reflexivity]. }
      assert (Hself : pc_get t p' = [] \/ exists pushed, Forall is_pushed pushed /\ pc_get t p' = pushed ++ rest).
      { destruct (ef_self _ _ _ _ _ _ EF p' eq_refl) as [H|[pushed [H1 H2]]]; [now left|right].
        exists pushed. split; [assumption|]. rewrite H2, Hp1, N.eqb_refl. reflexivity. }
      assert (Hready : p_ready p' = match i with INewLog _ _ => true | _ => p_ready p end).
      { rewrite (ef_ready _ _ _ _ _ _ EF p' eq_refl). subst p1. reflexivity. }
      split; [split|].
      * (* IManiOpen at most at the head *)
        unfold main_pc. destruct (N.eq_dec t T_MAIN) as [->|Ht].
        -- destruct Hself as [->|[pushed [H1 ->]]]; [intros []|]. intros H. apply in_tl in H. apply in_app_iff in H.
           destruct H as [H|H]; [exact (pushed_not IManiOpen pushed H1 (fun K : is_pushed IManiOpen => K) H)|].
           apply P1. unfold main_pc. now rewrite Epc.
        -- rewrite Hother by congruence. exact P1.
      * (* INewLog only at the end *)
        unfold main_pc. destruct (N.eq_dec t T_MAIN) as [->|Ht].
        -- intros a r0 t0 b E. destruct Hself as [K|[pushed [H1 K]]]; rewrite K in E; [destruct a; discriminate|].
           destruct (split_after_pushed pushed rest a (INewLog r0 t0) b H1 (fun K : is_pushed (INewLog r0 t0) => K) E) as [a' E'].
           apply (P2 (i :: a') r0 t0 b). unfold main_pc. now rewrite Epc, E'.
        -- rewrite Hother by congruence. exact P2.
      * (* ready: the opening thread is done *)
        unfold main_pc. intros Hr. rewrite Hready in Hr.
        destruct (N.eq_dec t T_MAIN) as [->|Ht].
        -- assert (Ei : exists r0 t0, i = INewLog r0 t0).
           { destruct i; try (unfold main_pc in P3; rewrite (P3 Hr) in Epc; discriminate). eauto. }
           destruct Ei as [r0 [t0 ->]]. pose proof (ef_self0 _ _ _ _ _ _ EF p' eq_refl) as K. cbn in K.
           rewrite K, Hp1, N.eqb_refl. apply (P2 [] r0 t0 rest). unfold main_pc. now rewrite Epc.
        -- rewrite Hother by congruence. destruct Hguard as [Hg|Hg]; [|contradiction]. exact (P3 Hg).
      * (* not ready: nobody else has work *)
        intros Hr t' Ht'. rewrite Hready in Hr.
        assert (Hnr : p_ready p = false) by (destruct i; try assumption; discriminate).
        destruct Hguard as [Hg|Hg]; [congruence|]. subst t. rewrite Hother by assumption. exact (P4 Hnr t' Ht').
      * intros Hno. apply (ef_hd _ _ _ _ _ _ EF p' eq_refl HM Hhd).
  - (* EWrite *)
    destruct (s_p s) as [p|] eqn:Ep; [|split; [exact HM|now rewrite Ep]].
    destruct (p_ready p) eqn:Er; [|split; [exact HM|now rewrite Ep]].
    destruct (HP p eq_refl) as [PI PH]. split; cbn [s_fs s_frags s_v s_p upd_p upd_fs].
    + eapply MdInv_frame; [| |exact HM]; reflexivity.
    + intros p' [= <-]. split.
      * apply (PcInv_same_pcs p); [reflexivity|cbn [p_ready set_kvs]; now rewrite Er|exact PI].
      * intros Hno. apply (Hd_frame (s_fs s) _ p); try reflexivity. now apply PH.
  - (* EFlush *)
    destruct (s_p s) as [p|] eqn:Ep; [|split; [exact HM|now rewrite Ep]].
    match goal with |- InvM (if ?c then _ else _) => destruct c eqn:Ec end; [|split; [exact HM|now rewrite Ep]].
    destruct (p_ready p) eqn:Er; [|discriminate].
    destruct (HP p eq_refl) as [PI PH]. split; cbn [s_fs s_frags s_v s_p upd_p upd_fs].
    + eapply MdInv_frame; [| |exact HM]; reflexivity.
    + intros p' [= <-]. split.
      * apply PcInv_spawn; [discriminate|reflexivity|].
        apply (PcInv_same_pcs p); [reflexivity|cbn [p_ready set_kvs]; now rewrite Er|exact PI].
      * unfold main_pc. rewrite pc_get_set_other by discriminate. intros Hno.
        apply (Hd_frame (s_fs s) _ p); try reflexivity. now apply PH.
  - (* ECompact *)
    destruct (s_p s) as [p|] eqn:Ep; [|split; [exact HM|now rewrite Ep]].
    match goal with |- InvM (if ?c then _ else _) => destruct c eqn:Ec end; [|split; [exact HM|now rewrite Ep]].
    destruct (p_ready p) eqn:Er; [|discriminate].
    destruct (HP p eq_refl) as [PI PH]. split; cbn [s_fs s_frags s_v s_p upd_p upd_fs]; [exact HM|].
    intros p' [= <-]. split.
    + apply PcInv_spawn; [apply T_COMPACT_not_main|assumption|exact PI].
    + unfold main_pc. rewrite pc_get_set_other by (intros E; symmetry in E; exact (T_COMPACT_not_main j E)). intros Hno.
      apply (Hd_frame (s_fs s) _ p); try reflexivity. now apply PH.
  - (* EMove *)
    destruct (s_p s) as [p|] eqn:Ep; [|split; [exact HM|now rewrite Ep]].
    match goal with |- InvM (if ?c then _ else _) => destruct c eqn:Ec end; [|split; [exact HM|now rewrite Ep]].
    destruct (p_ready p) eqn:Er; [|discriminate].
    destruct (HP p eq_refl) as [PI PH]. split; cbn [s_fs s_frags s_v s_p upd_p upd_fs]; [exact HM|].
    intros p' [= <-]. split.
    + apply PcInv_spawn; [apply T_COMPACT_not_main|assumption|exact PI].
    + unfold main_pc. rewrite pc_get_set_other by (intros E; symmetry in E; exact (T_COMPACT_not_main j E)). intros Hno.
      apply (Hd_frame (s_fs s) _ p); try reflexivity. now apply PH.
  - (* ETake *)
    destruct (s_p s) as [p|] eqn:Ep; [|split; [exact HM|now rewrite Ep]].
    match goal with |- InvM (if ?c then _ else _) => destruct c eqn:Ec end; [|split; [exact HM|now rewrite Ep]].
    destruct (p_ready p) eqn:Er; [|discriminate].
    destruct (HP p eq_refl) as [PI PH]. split; cbn [s_fs s_frags s_v s_p upd_p upd_fs]; [exact HM|].
    intros p' [= <-]. split.
    + apply PcInv_spawn; [apply T_READER_not_main|assumption|exact PI].
    + unfold main_pc. rewrite pc_get_set_other by (intros E; symmetry in E; exact (T_READER_not_main r E)). intros Hno.
      apply (Hd_frame (s_fs s) _ p); try reflexivity. now apply PH.
  - (* EDrop *)
    destruct (s_p s) as [p|] eqn:Ep; [|split; [exact HM|now rewrite Ep]].
    match goal with |- InvM (if ?c then _ else _) => destruct c eqn:Ec end; [|split; [exact HM|now rewrite Ep]].
    destruct (p_ready p) eqn:Er; [|discriminate].
    destruct (HP p eq_refl) as [PI PH]. split; cbn [s_fs s_frags s_v s_p upd_p upd_fs]; [exact HM|].
    intros p' [= <-]. split.
    + apply PcInv_spawn; [apply T_READER_not_main|assumption|exact PI].
    + unfold main_pc. rewrite pc_get_set_other by (intros E; symmetry in E; exact (T_READER_not_main r E)). intros Hno.
      apply (Hd_frame (s_fs s) _ p); try reflexivity. now apply PH.
  - (* ECrash *)
    split; cbn [s_fs s_frags s_v s_p upd_p]; [exact HM|discriminate].
  - (* EVBegin *)
    destruct (s_v s) eqn:Ev; [split; [now rewrite Ev|exact HP]|].
    split; cbn [s_fs s_frags s_v s_p upd_v]; [|exact HP]. apply MdInv_begin. exact HM.
  - (* EVStep *)
    destruct (s_v s) as [[pc]|] eqn:Ev; [|split; [now rewrite Ev|exact HP]]. cbn [vp_pc].
    destruct pc as [|i rest].
    + split; cbn [s_fs s_frags s_v s_p upd_v]; [exact (MdInv_noverifier _ _ _ HM)|exact HP].
    + destruct (vexec i ok rest (s_fs s)) as [fs' pc'] eqn:Ex.
      destruct (vexec_inv _ _ _ _ _ _ _ HM Ex) as [K1 [K2 [K3 [K4 K5]]]].
      split; cbn [s_fs s_frags s_v s_p upd_v upd_fs]; [exact K1|].
      intros p Hp. destruct (HP p Hp) as [PI PH]. split; [exact PI|].
      intros Hno. destruct (PH Hno) as [H1 H2]. split; [now rewrite K2|now rewrite K3].
  - (* EVCrash *)
    split; cbn [s_fs s_frags s_v s_p upd_v]; [exact (MdInv_noverifier _ _ _ HM)|exact HP].
Qed.

Lemma InvM_init : InvM sys0.
Proof.
  split; [|discriminate]. split; cbn; auto; try discriminate; try (intros _ []); try constructor.
Qed.

Theorem InvM_run evs : forall s, InvM s -> InvM (run s evs).
Proof. induction evs as [|e evs IH]; intros s H; cbn [run]; [assumption|]. apply IH, InvM_step, H. Qed.
