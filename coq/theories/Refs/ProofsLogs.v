(* Refs/ProofsLogs.v — a log file moves to the trash only once it is empty or the sst built from
   its contents has been added to the manifest by a committed edit. *)
From Coq Require Import NArith List Bool Lia Arith Sorted.
From Blue Require Import Refs.Model Refs.Spec Refs.ProofsBase Refs.ProofsMani Refs.ProofsInvM Refs.ProofsCount Refs.ProofsInvR.
Import ListNotations.
Open Scope N_scope.

Arguments N.eqb : simpl never.
Arguments N.ltb : simpl never.

(* an instruction still to come that makes x a committed addition *)
Definition will_add (x : name) (a : list instr) : Prop :=
  (exists e r, In (ICommit (Some e) r) a /\ In x (e_add e)) \/ (exists r, In (IApplyIfAbsent x r) a).

Definition nums (ls : list logf) : list N := map l_num ls.

Record LInv (s : sys) : Prop := mkLInv {
  l_trash : forall l, In l (f_tlogs (s_fs s)) -> log_covered s l;
  l_strs : forall x, In x (live_strs s) -> ever_added (s_hist s) x;
  l_sorted : StronglySorted N.lt (nums (f_logs (s_fs s)));
  l_pending : forall p, s_p s = Some p -> forall t a n b, pc_get t p = a ++ IRenameLog n :: b ->
              forall l, In l (f_logs (s_fs s)) -> l_num l = n ->
              log_covered s l \/ exists x, l_sum l = Some x /\ will_add x a;
  l_workers : forall p, s_p s = Some p -> forall t, t <> T_MAIN -> t <> T_FLUSH -> forall n, ~ In (IRenameLog n) (pc_get t p);
  l_flush : forall p, s_p s = Some p -> p_ready p = true -> forall n, In (IRenameLog n) (pc_get T_FLUSH p) -> n < p_lognum p;
  l_seq : forall p, s_p s = Some p -> p_ready p = true -> p_lognum p < p_seq p
}.

(* ---- list facts about the log directory *)
Lemma log_insert_In l ls m : In m (log_insert l ls) -> m = l \/ In m ls.
Proof.
  induction ls as [|k ls IH]; cbn [log_insert]; [intros [<-|[]]; now left|].
  destruct (l_num l <? l_num k); [intros [<-|H]; [now left|now right]|].
  destruct (l_num l =? l_num k); [intros [<-|H]; [now left|right; now right]|].
  intros [<-|H]; [right; now left|]. destruct (IH H) as [->|H']; [now left|right; now right].
Qed.

Lemma log_remove_In n ls m : In m (log_remove n ls) <-> In m ls /\ l_num m <> n.
Proof. unfold log_remove. rewrite filter_In, negb_true_iff, N.eqb_neq. tauto. Qed.

Lemma log_upd_In n f ls m : In m (log_upd n f ls) -> exists m0, In m0 ls /\ m = (if l_num m0 =? n then f m0 else m0).
Proof. unfold log_upd. rewrite in_map_iff. intros [m0 [<- H]]. eauto. Qed.

Lemma nums_log_upd n f ls : (forall l, l_num (f l) = l_num l) -> nums (log_upd n f ls) = nums ls.
Proof.
  intros Hf. unfold nums, log_upd. rewrite map_map. apply map_ext. intros l. destruct (l_num l =? n); [apply Hf|reflexivity].
Qed.

Lemma sorted_log_remove n ls : StronglySorted N.lt (nums ls) -> StronglySorted N.lt (nums (log_remove n ls)).
Proof.
  unfold nums, log_remove. induction ls as [|l ls IH]; cbn [filter map]; [auto|]. intros H. inversion H as [|? ? Hs Hall]; subst.
  destruct (negb (l_num l =? n)); [|auto]. cbn [map]. constructor; [auto|].
  rewrite Forall_forall in *. intros y Hy. apply in_map_iff in Hy. destruct Hy as [m [<- Hm]]. apply filter_In in Hm.
  apply Hall. apply in_map. tauto.
Qed.

Lemma sorted_log_insert l ls : StronglySorted N.lt (nums ls) -> StronglySorted N.lt (nums (log_insert l ls)).
Proof.
  unfold nums. induction ls as [|k ls IH]; cbn [log_insert map]; [intros _; constructor; [constructor|constructor]|].
  intros H. inversion H as [|? ? Hs Hall]; subst. rewrite Forall_forall in Hall.
  destruct (N.ltb_spec (l_num l) (l_num k)) as [Hlt|Hge].
  - cbn [map]. constructor; [assumption|]. rewrite Forall_forall. intros y [<-|Hy]; [assumption|]. specialize (Hall y Hy). lia.
  - destruct (N.eqb_spec (l_num l) (l_num k)) as [E|E].
    + cbn [map]. constructor; [assumption|]. rewrite Forall_forall. intros y Hy. rewrite E. now apply Hall.
    + cbn [map]. constructor; [auto|]. rewrite Forall_forall. intros y Hy. apply in_map_iff in Hy. destruct Hy as [m [<- Hm]].
      destruct (log_insert_In _ _ _ Hm) as [->|Hm']; [lia|]. apply Hall. now apply in_map.
Qed.

Lemma covered_mono s s' l : (forall e, In e (s_hist s) -> In e (s_hist s')) -> log_covered s l -> log_covered s' l.
Proof. intros H [K|[x [K1 [e [K2 K3]]]]]; [now left|right; exists x; split; [assumption|exists e; auto]]. Qed.

Lemma will_add_tail x i a : will_add x (i :: a) ->
  (match i with ICommit (Some e) _ => In x (e_add e) | IApplyIfAbsent y _ => y = x | _ => False end) \/ will_add x a.
Proof.
  intros [[e [r [[->|H] Hx]]]|[r [->|H]]]; [now left|right; left; eauto|now left|right; right; eauto].
Qed.

Lemma will_add_push x pre a : will_add x a -> will_add x (pre ++ a).
Proof.
  intros [[e [r [H Hx]]]|[r H]]; [left; exists e, r; split; [apply in_or_app; now right|assumption]|right; exists r; apply in_or_app; now right].
Qed.

(* the program of open(): each log's rename follows the apply of its sst *)
Lemma recover_pending sums rolls logs : StronglySorted N.lt (nums logs) ->
  forall a n b, flat_map (recover_prog sums rolls) logs = a ++ IRenameLog n :: b ->
  forall l, In l logs -> l_num l = n ->
  l_maxts l = 0 \/ (exists x, aget (l_num l) sums = Some x /\ will_add x a) \/ aget (l_num l) sums = None.
Proof.
  induction logs as [|k logs IH]; intros Hs a n b E l Hl Hn; [destruct Hl|].
  cbn [flat_map] in E. inversion Hs as [|? ? Hs' Hall]; subst. rewrite Forall_forall in Hall.
  (* where does the split fall *)
  apply app_eq_app in E. destruct E as [c [[E1 E2]|[E1 E2]]].
  - (* inside the first log's program (or at its end) *)
    destruct c as [|j c].
    + rewrite app_nil_r in E1. cbn [app] in E2.
      (* the split is exactly at the boundary: the rename belongs to a later log *)
      destruct Hl as [<-|Hl].
      * exfalso. assert (Hin : In (IRenameLog (l_num k)) (flat_map (recover_prog sums rolls) logs)) by (rewrite <- E2; now left).
        apply in_flat_map in Hin. destruct Hin as [m [Hm Hin]].
        assert (l_num m = l_num k).
        { unfold recover_prog in Hin. destruct (aget (l_num m) sums); [destruct (l_maxts m =? 0)|]; cbn [In] in Hin; intuition congruence. }
        specialize (Hall (l_num m) (in_map _ _ _ Hm)). lia.
      * destruct (IH Hs' [] (l_num l) b (eq_sym E2) l Hl eq_refl) as [K|[[x [K1 K2]]|K]]; auto.
        right. left. exists x. split; [assumption|]. subst a. rewrite <- (app_nil_r (recover_prog sums rolls k)). now apply will_add_push.
    + cbn [app] in E2. injection E2 as <- E2.
      (* the rename is the first log's *)
      assert (Hk : l_num l = l_num k).
      { assert (Hin : In (IRenameLog (l_num l)) (recover_prog sums rolls k)) by (rewrite E1; apply in_or_app; right; now left).
        unfold recover_prog in Hin. destruct (aget (l_num k) sums); [destruct (l_maxts k =? 0)|]; cbn [In] in Hin; intuition congruence. }
      destruct Hl as [<-|Hl]; [|exfalso; specialize (Hall (l_num l) (in_map _ _ _ Hl)); lia].
      unfold recover_prog in E1. destruct (aget (l_num k) sums) as [x|] eqn:Ea; [|now right; right].
      destruct (N.eqb_spec (l_maxts k) 0) as [Ez|Ez]; [now left|].
      right. left. exists x. split; [reflexivity|]. right.
      destruct a as [|i1 a]; [discriminate|]. injection E1 as <- E1. destruct a as [|i2 a]; [discriminate|]. injection E1 as <- E1.
      eexists. right. now left.
  - (* in a later log's program *)
    subst a. destruct Hl as [<-|Hl].
    + exfalso. assert (Hin : In (IRenameLog (l_num k)) (flat_map (recover_prog sums rolls) logs)) by (rewrite E2; apply in_or_app; right; now left).
      apply in_flat_map in Hin. destruct Hin as [m [Hm Hin]].
      assert (l_num m = l_num k).
      { unfold recover_prog in Hin. destruct (aget (l_num m) sums); [destruct (l_maxts m =? 0)|]; cbn [In] in Hin; intuition congruence. }
      specialize (Hall (l_num m) (in_map _ _ _ Hm)). lia.
    + destruct (IH Hs' c (l_num l) b E2 l Hl eq_refl) as [K|[[x [K1 K2]]|K]]; auto.
      right. left. exists x. split; [assumption|]. now apply will_add_push.
Qed.

(* ---- what one instruction does to the logs, the sequence numbers and the committed history *)
Definition logs_effect (i : instr) (fs fs' : fsys) : Prop :=
  match i with
  | IRenameLog n =>
      match log_find n (f_logs fs) with
      | Some l => f_logs fs' = log_remove n (f_logs fs) /\ f_tlogs fs' = log_insert l (log_remove n (f_tlogs fs))
      | None => f_logs fs' = f_logs fs /\ f_tlogs fs' = f_tlogs fs
      end
  | INewLog rec tm => f_logs fs' = log_insert (mkLog (N.max (rec + 1) tm) 0 None) (f_logs fs) /\ f_tlogs fs' = f_tlogs fs
  | _ => f_logs fs' = f_logs fs /\ f_tlogs fs' = f_tlogs fs
  end.

Lemma store_apply_logs s p e roll s1 q : store_apply s p e roll = (s1, q) ->
  f_logs (s_fs s1) = f_logs (s_fs s) /\ f_tlogs (s_fs s1) = f_tlogs (s_fs s) /\
  p_lognum q = p_lognum p /\ p_seq q = p_seq p.
Proof.
  unfold store_apply. destruct (md_apply _ _ _ _ _) as [[[d ms] next] r]. intros [= <- <-]. repeat split.
Qed.

Lemma unref_drop_kvs t i p : p_lognum (unref_drop t i p) = p_lognum p /\ p_seq (unref_drop t i p) = p_seq p.
Proof. unfold unref_drop. destruct (Nat.eqb _ _); split; reflexivity. Qed.

Lemma exec_logs t i s p1 s' op' : exec t i s p1 = (s', op') ->
  logs_effect i (s_fs s) (s_fs s') /\
  forall p', op' = Some p' ->
    match i with
    | INewLog rec tm => p_lognum p' = N.max (rec + 1) tm /\ p_seq p' = N.max (rec + 1) tm + 1
    | _ => p_lognum p' = p_lognum p1 /\ p_seq p' = p_seq p1
    end.
Proof.
  destruct i as [x|x|oe roll|x|h|h|n| | |x|x roll| | |x|rec tm]; cbn [exec logs_effect]; intros E.
  - destruct (mem x (f_sst (s_fs s))); injection E as <- <-; (split; [split; reflexivity|intros p' [= <-]; split; reflexivity]).
  - injection E as <- <-. split; [split; reflexivity|intros p' [= <-]; split; reflexivity].
  - destruct oe as [e|].
    + destruct (store_apply s p1 e roll) as [s1 q] eqn:Es. destruct (store_apply_logs _ _ _ _ _ _ Es) as [K1 [K2 [K3 K4]]].
      injection E as <- <-. split; [split; assumption|]. intros p' [= <-].
      match goal with |- p_lognum (unref_drop ?a ?b ?c) = _ /\ _ => destruct (unref_drop_kvs a b c) as [U1 U2]; rewrite U1, U2 end.
      cbn [p_lognum p_seq set_refs set_vers]. split; assumption.
    + injection E as <- <-. split; [split; reflexivity|]. intros p' [= <-].
      match goal with |- p_lognum (unref_drop ?a ?b ?c) = _ /\ _ => destruct (unref_drop_kvs a b c) as [U1 U2]; rewrite U1, U2 end.
      split; reflexivity.
  - destruct (rc_dec x (p_refs p1)) as [r last]. injection E as <- <-.
    split; [|intros p' [= <-]; split; reflexivity].
    destruct last; [unfold to_trash; destruct (mem x (f_sst (s_fs s)))|]; split; reflexivity.
  - destruct (aget h (p_snaps p1)); injection E as <- <-; (split; [split; reflexivity|intros p' [= <-]; split; reflexivity]).
  - destruct (aget h (p_snaps p1)) as [v|]; injection E as <- <-; (split; [split; reflexivity|intros p' [= <-]]); [|split; reflexivity].
    match goal with |- p_lognum (unref_drop ?a ?b ?c) = _ /\ _ => destruct (unref_drop_kvs a b c) as [U1 U2]; rewrite U1, U2 end.
    split; reflexivity.
  - destruct (log_find n (f_logs (s_fs s))); injection E as <- <-; (split; [split; reflexivity|intros p' [= <-]; split; reflexivity]).
  - destruct (md_open (f_md (s_fs s))) as [[[d ms] next] r]. injection E as <- <-.
    split; [split; reflexivity|intros p' [= <-]; split; reflexivity].
  - destruct (is_nil (md_live (f_md (s_fs s)))).
    + destruct (store_apply s p1 (mkEdit [] [] None) false) as [s1 q] eqn:Es. destruct (store_apply_logs _ _ _ _ _ _ Es) as [K1 [K2 [K3 K4]]].
      injection E as <- <-. split; [split; assumption|intros p' [= <-]; split; assumption].
    + injection E as <- <-. split; [split; reflexivity|intros p' [= <-]; split; reflexivity].
  - destruct (mem x (f_sst (s_fs s))); injection E as <- <-; (split; [split; reflexivity|intros p' [= <-]; split; reflexivity]).
  - destruct (mem x (ms_strs (p_ms p1))).
    + injection E as <- <-. split; [split; reflexivity|intros p' [= <-]; split; reflexivity].
    + destruct (store_apply s p1 (mkEdit [] [x] None) roll) as [s1 q] eqn:Es. destruct (store_apply_logs _ _ _ _ _ _ Es) as [K1 [K2 [K3 K4]]].
      injection E as <- <-. split; [split; assumption|intros p' [= <-]; split; assumption].
  - destruct (forallb _ _); injection E as <- <-; (split; [split; reflexivity|]); [intros p' [= <-]; split; reflexivity|intros p' H; discriminate].
  - injection E as <- <-. split; [split; reflexivity|intros p' [= <-]; split; reflexivity].
  - destruct (mem x (f_sst (s_fs s)) && negb (mem x (f_trash (s_fs s)))); injection E as <- <-;
      (split; [|intros p' [= <-]; split; reflexivity]); [unfold to_trash; destruct (mem x (f_sst (s_fs s)))|]; split; reflexivity.
  - injection E as <- <-. split; [split; reflexivity|intros p' [= <-]; split; reflexivity].
Qed.

(* the committed history only grows, and every listed sst was added by it *)
Definition hist_effect (s s' : sys) : Prop :=
  (forall e, In e (s_hist s) -> In e (s_hist s')) /\
  ((forall x, In x (live_strs s') -> In x (live_strs s)) \/
   exists e, s_hist s' = s_hist s ++ [e] /\ forall x, In x (live_strs s') -> In x (e_add e) \/ In x (live_strs s)).

Lemma in_snoc {A} (x y : A) l : In x (l ++ [y]) <-> In x l \/ x = y.
Proof. rewrite in_app_iff. cbn. intuition. Qed.

Lemma exec_hist t i s p1 s' op' : Hd (s_fs s) p1 \/ i = IManiOpen -> exec t i s p1 = (s', op') -> hist_effect s s'.
Proof.
  intros Hh E.
  assert (Same : f_md (s_fs s') = f_md (s_fs s) -> s_hist s' = s_hist s -> hist_effect s s').
  { intros E1 E2. split; [now rewrite E2|left]. unfold live_strs. now rewrite E1. }
  assert (App : forall e roll s1 q, store_apply s p1 e roll = (s1, q) -> Hd (s_fs s) p1 -> hist_effect s s1).
  { intros e roll s1 q Es [Hms _]. destruct (store_apply_unfold s p1 e roll) as [d [ms [next [r [Ea Eu]]]]].
    rewrite Eu in Es. injection Es as <- <-. destruct (md_apply_live _ _ _ _ _ _ _ _ _ Hms Ea) as [A1 A2].
    split; cbn [s_hist]; [intros e0 H; apply in_or_app; now left|right]. exists e. split; [reflexivity|].
    intros x Hx. unfold live_strs in *. cbn [s_fs set_md f_md] in Hx. rewrite A2 in Hx. apply apply_edit_In in Hx.
    destruct Hx as [Hx|[Hx _]]; [now left|right]. now rewrite <- Hms. }
  destruct i as [x|x|oe roll|x|h|h|n| | |x|x roll| | |x|rec tm]; cbn [exec] in E;
    try (destruct Hh as [Hh|Hh]; [|discriminate]).
  - destruct (mem x (f_sst (s_fs s))); injection E as <- <-; now apply Same.
  - injection E as <- <-. now apply Same.
  - destruct oe as [e|].
    + destruct (store_apply s p1 e roll) as [s1 q] eqn:Es. injection E as <- <-. exact (App _ _ _ _ Es Hh).
    + injection E as <- <-. now apply Same.
  - destruct (rc_dec x (p_refs p1)) as [r last]. injection E as <- <-.
    destruct last; (apply Same; [cbn [s_fs]; try (unfold to_trash; destruct (mem x (f_sst (s_fs s)))); reflexivity|reflexivity]).
  - destruct (aget h (p_snaps p1)); injection E as <- <-; now apply Same.
  - destruct (aget h (p_snaps p1)); injection E as <- <-; now apply Same.
  - destruct (log_find n (f_logs (s_fs s))); injection E as <- <-; now apply Same.
  - destruct (md_open (f_md (s_fs s))) as [[[d ms] next] r] eqn:Eo. injection E as <- <-.
    destruct (md_open_live _ _ _ _ _ Eo) as [O1 O2]. split; [auto|left]. unfold live_strs. cbn [s_fs set_md f_md]. now rewrite O2.
  - destruct (is_nil (md_live (f_md (s_fs s)))).
    + destruct (store_apply s p1 (mkEdit [] [] None) false) as [s1 q] eqn:Es. injection E as <- <-. exact (App _ _ _ _ Es Hh).
    + injection E as <- <-. now apply Same.
  - destruct (mem x (f_sst (s_fs s))); injection E as <- <-; now apply Same.
  - destruct (mem x (ms_strs (p_ms p1))).
    + injection E as <- <-. now apply Same.
    + destruct (store_apply s p1 (mkEdit [] [x] None) roll) as [s1 q] eqn:Es. injection E as <- <-. exact (App _ _ _ _ Es Hh).
  - destruct (forallb _ _); injection E as <- <-; now apply Same.
  - injection E as <- <-. now apply Same.
  - destruct (mem x (f_sst (s_fs s)) && negb (mem x (f_trash (s_fs s)))); injection E as <- <-;
      (apply Same; [cbn [s_fs]; try (unfold to_trash; destruct (mem x (f_sst (s_fs s)))); reflexivity|reflexivity]).
  - injection E as <- <-. now apply Same.
Qed.

(* when the head instruction is the one that was going to add x, x is a committed addition afterwards *)
Lemma adder_adds t i s p1 s' op' x : Hd (s_fs s) p1 -> exec t i s p1 = (s', op') ->
  (forall y, In y (live_strs s) -> ever_added (s_hist s) y) ->
  match i with ICommit (Some e) _ => In x (e_add e) | IApplyIfAbsent y _ => y = x | _ => False end ->
  ever_added (s_hist s') x.
Proof.
  intros Hh E Hstrs Hi. destruct i as [y|y|oe roll|y|h|h|n| | |y|y roll| | |y|rec tm]; try contradiction; cbn [exec] in E.
  - destruct oe as [e|]; [|contradiction]. destruct (store_apply s p1 e roll) as [s1 q] eqn:Es. injection E as <- <-.
    destruct (store_apply_unfold s p1 e roll) as [d [ms [next [r [Ea Eu]]]]]. rewrite Eu in Es. injection Es as <- <-.
    exists e. cbn [s_hist]. split; [apply in_or_app; right; now left|assumption].
  - subst y. destruct (mem x (ms_strs (p_ms p1))) eqn:Em.
    + injection E as <- <-. apply Hstrs. unfold live_strs. rewrite <- (proj1 Hh). now apply mem_In.
    + destruct (store_apply s p1 (mkEdit [] [x] None) roll) as [s1 q] eqn:Es. injection E as <- <-.
      destruct (store_apply_unfold s p1 (mkEdit [] [x] None) roll) as [d [ms [next [r [Ea Eu]]]]]. rewrite Eu in Es. injection Es as <- <-.
      exists (mkEdit [] [x] None). cbn [s_hist e_add]. split; [apply in_or_app; right; now left|now left].
Qed.

Lemma vexec_tlogs i ok rest fs fs' pc' : vexec i ok rest fs = (fs', pc') -> forall l, In l (f_tlogs fs') -> In l (f_tlogs fs).
Proof.
  intros E l Hl. destruct i as [n|n|t| |n]; cbn [vexec] in E.
  - destruct (vs_m (f_vs fs)); [destruct (n <? n0)|]; injection E as <- _; exact Hl.
  - injection E as <- _. exact Hl.
  - destruct t as [x|k]; injection E as <- _; [exact Hl|]. cbn [set_logs f_tlogs] in Hl. apply log_remove_In in Hl. tauto.
  - injection E as <- _. exact Hl.
  - destruct (match vs_m (f_vs fs) with Some old => old =? n | None => false end); [injection E as <- _; exact Hl|].
    destruct (is_nil (vs_strs (f_vs fs))); cbn [negb] in E; [|injection E as <- _; exact Hl].
    destruct (frag_find n (f_md fs)); [|injection E as <- _; exact Hl].
    destruct ok; cbn [negb] in E; [|injection E as <- _; exact Hl].
    destruct (forallb _ _); injection E as <- _; exact Hl.
Qed.

Lemma log_find_In n ls l : log_find n ls = Some l -> In l ls /\ l_num l = n.
Proof. unfold log_find. intros H. apply find_some in H. destruct H as [H1 H2]. apply N.eqb_eq in H2. auto. Qed.

Lemma no_rename_pushed pushed n : Forall is_pushed pushed -> ~ In (IRenameLog n) pushed.
Proof. intros H Hin. rewrite Forall_forall in H. exact (H _ Hin). Qed.

Lemma worker_no_rename pc n : Forall worker_instr pc -> ~ In (IRenameLog n) pc.
Proof. intros H Hin. rewrite Forall_forall in H. exact (H _ Hin). Qed.

(* spawning a program without renames on a thread other than the opening and the memtable thread *)
Lemma LInv_spawn s p t prog : LInv s -> s_p s = Some p -> t <> T_MAIN -> t <> T_FLUSH -> pc_get t p = [] ->
  (forall n, ~ In (IRenameLog n) prog) -> LInv (upd_p s (Some (pc_set t prog p))).
Proof.
  intros [L1 L2 L3 L4 L5 L6 L7] Hp Ht Hf Hidle Hno. split; cbn [s_fs s_p s_hist upd_p]; auto.
  - intros p' [= <-] t' a n b E l Hl Hn. destruct (N.eq_dec t' t) as [->|Hne].
    + rewrite pc_get_set_same in E. exfalso. apply (Hno n). rewrite E. apply in_or_app. right. now left.
    + rewrite pc_get_set_other in E by assumption. exact (L4 p Hp t' a n b E l Hl Hn).
  - intros p' [= <-] t' H1 H2 n. destruct (N.eq_dec t' t) as [->|Hne]; [rewrite pc_get_set_same; apply Hno|].
    rewrite pc_get_set_other by assumption. exact (L5 p Hp t' H1 H2 n).
  - intros p' [= <-] Hr n Hin. rewrite pc_get_set_other in Hin by congruence. exact (L6 p Hp Hr n Hin).
  - intros p' [= <-] Hr. exact (L7 p Hp Hr).
Qed.

Lemma LInv_v s v : LInv s -> LInv (upd_v s v).
Proof. intros [L1 L2 L3 L4 L5 L6 L7]. split; assumption. Qed.

Theorem LInv_step s ev : InvM s -> InvR s -> LInv s -> LInv (step s ev).
Proof.
  intros [HM HP] [G HR] HL. pose proof HL as [L1 L2 L3 L4 L5 L6 L7].
  destruct ev as [sums rolls tm|t| |x roll|j ins outs roll hold|j|r|r| | |ok| ]; cbn [step].
  - (* EOpen *)
    destruct (s_p s) as [p|] eqn:Ep; [exact HL|].
    match goal with |- LInv (if ?c then _ else _) => destruct c eqn:Eacc end; [|exact HL].
    set (logs' := map (fun l => match aget (l_num l) sums with
                                | Some x => if l_maxts l =? 0 then l else mkLog (l_num l) (l_maxts l) (Some x)
                                | None => l end) (f_logs (s_fs s))) in *.
    assert (Hnums : nums logs' = nums (f_logs (s_fs s))).
    { unfold nums, logs'. rewrite map_map. apply map_ext. intros l. destruct (aget (l_num l) sums); [destruct (l_maxts l =? 0)|]; reflexivity. }
    split; cbn [s_fs s_p s_hist upd_p upd_fs set_logs f_logs f_tlogs].
    + intros l Hl. exact (L1 l Hl).
    + exact L2.
    + rewrite Hnums. exact L3.
    + intros p' [= <-] t a n b E l Hl Hn.
      destruct (N.eq_dec t T_MAIN) as [->|Ht]; [|rewrite pc_get_set_other in E by assumption; destruct a; discriminate].
      rewrite pc_get_set_same in E.
      (* the rename sits in the part of the program that replays the logs *)
      change ([IManiOpen; IInitEdit] ++ flat_map (recover_prog sums rolls) logs' ++ [IFromManifest; IOrphans; INewLog (max_ts logs') tm])
        with ([IManiOpen; IInitEdit] ++ (flat_map (recover_prog sums rolls) logs' ++ [IFromManifest; IOrphans; INewLog (max_ts logs') tm])) in E.
      destruct a as [|i1 a]; [discriminate|]. injection E as <- E. destruct a as [|i2 a]; [discriminate|]. injection E as <- E.
      apply app_eq_app in E. destruct E as [c [[E1 E2]|[E1 E2]]].
      * destruct c as [|j c]; [rewrite app_nil_r in E1; cbn [app] in E2; injection E2 as E2 _; discriminate|].
        cbn [app] in E2. injection E2 as <- E2.
        assert (Hs' : StronglySorted N.lt (nums logs')) by (rewrite Hnums; exact L3).
        destruct (recover_pending sums rolls logs' Hs' a n c E1 l Hl Hn) as [K|[[x [K1 K2]]|K]].
        -- left. now left.
        -- (* l is the image of a log of the root *)
           unfold logs' in Hl. apply in_map_iff in Hl. destruct Hl as [l0 [El Hl0]].
           destruct (aget (l_num l0) sums) as [x0|] eqn:Ea.
           ++ destruct (N.eqb_spec (l_maxts l0) 0) as [Ez|Ez].
              ** subst l. left. now left.
              ** subst l. cbn [l_num l_sum] in *. rewrite Ea in K1. injection K1 as ->. right. exists x. split; [reflexivity|].
                 apply (will_add_push x [IManiOpen; IInitEdit]). exact K2.
           ++ subst l. rewrite Ea in K1. discriminate.
        -- unfold logs' in Hl. apply in_map_iff in Hl. destruct Hl as [l0 [El Hl0]].
           rewrite forallb_forall in Eacc. specialize (Eacc l0 Hl0).
           destruct (aget (l_num l0) sums) as [x0|] eqn:Ea.
           ++ exfalso. destruct (N.eqb_spec (l_maxts l0) 0); subst l; cbn [l_num] in K; rewrite Ea in K; discriminate.
           ++ subst l. rewrite orb_false_r in Eacc. apply N.eqb_eq in Eacc. left. now left.
      * exfalso. assert (Hin : In (IRenameLog n) [IFromManifest; IOrphans; INewLog (max_ts logs') tm]) by (rewrite E2; apply in_or_app; right; now left).
        destruct Hin as [H|[H|[H|[]]]]; discriminate.
    + intros p' [= <-] t H1 H2 n. rewrite pc_get_set_other by assumption. intros [].
    + intros p' [= <-] Hr. discriminate.
    + intros p' [= <-] Hr. discriminate.
  - (* EStep *)
    destruct (s_p s) as [p|] eqn:Ep; [|exact HL].
    destruct (pc_get t p) as [|i rest] eqn:Epc; [exact HL|].
    destruct (negb (p_ready p) && negb (t =? T_MAIN)) eqn:Eg; [exact HL|].
    destruct (HP p eq_refl) as [[P1 P2 P3 P4] PH]. specialize (HR p eq_refl).
    set (p1 := pc_set t rest p).
    destruct (exec t i s p1) as [s1 op] eqn:Ee. pose proof (exec_facts _ _ _ _ _ _ Ee) as EF.
    assert (Hguard : p_ready p = true \/ t = T_MAIN).
    { destruct (p_ready p); [now left|]. right. cbn in Eg. destruct (N.eqb_spec t T_MAIN); [assumption|discriminate]. }
    assert (Hhd : i = IManiOpen \/ Hd (s_fs s) p1).
    { destruct (instr_eq_ManiOpen i) as [->|Hne]; [now left|]. right.
      apply (Hd_frame (s_fs s) (s_fs s) p); try reflexivity. apply PH. unfold main_pc.
      destruct (N.eq_dec t T_MAIN) as [->|Ht].
      - rewrite Epc. intros [H|H]; [congruence|]. apply P1. unfold main_pc. now rewrite Epc.
      - destruct Hguard as [Hr|Hr]; [|contradiction]. unfold main_pc in P3. rewrite (P3 Hr). intros []. }
    assert (Hh' : Hd (s_fs s) p1 \/ i = IManiOpen) by tauto.
    destruct (exec_logs _ _ _ _ _ _ Ee) as [LE KV]. destruct (exec_hist _ _ _ _ _ _ Hh' Ee) as [Hmono Hstr].
    assert (Hcov : forall l, log_covered s l -> log_covered s1 l) by (intros l; now apply covered_mono).
    assert (Hnew_not_other : t <> T_MAIN -> forall rec tm, i <> INewLog rec tm).
    { intros Ht rec tm ->. destruct (N.eq_dec t T_FLUSH) as [->|Hf].
      - destruct (r_flush _ _ HR) as [[x [L [r0 [n [E _]]]]]|[[x [L [r0 [n [E _]]]]]|Hall]]; rewrite Epc in *; try discriminate.
        inversion Hall as [|? ? Hi _]. exact Hi.
      - pose proof (r_work _ _ HR t Ht Hf) as [W _]. rewrite Epc in W. inversion W as [|? ? Hi _]. exact Hi. }
    (* which logs are in the root afterwards *)
    assert (Hlogs : forall l, In l (f_logs (s_fs s1)) -> In l (f_logs (s_fs s)) \/ l_maxts l = 0).
    { intros l Hl. destruct i; cbn [logs_effect] in LE; try (destruct LE as [LE1 _]; rewrite LE1 in Hl; now left).
      - destruct (log_find n (f_logs (s_fs s))); destruct LE as [LE1 _]; rewrite LE1 in Hl; [apply log_remove_In in Hl|]; tauto.
      - destruct LE as [LE1 _]. rewrite LE1 in Hl. destruct (log_insert_In _ _ _ Hl) as [->|H]; [now right|now left]. }
    split; cbn [s_fs s_p s_hist upd_p].
    + (* trash *)
      intros l Hl. destruct i; cbn [logs_effect] in LE; try (destruct LE as [_ LE2]; rewrite LE2 in Hl; exact (Hcov l (L1 l Hl))).
      destruct (log_find n (f_logs (s_fs s))) as [l0|] eqn:Ef; destruct LE as [_ LE2]; rewrite LE2 in Hl; [|exact (Hcov l (L1 l Hl))].
      destruct (log_insert_In _ _ _ Hl) as [->|H]; [|apply log_remove_In in H; exact (Hcov l (L1 l (proj1 H)))].
      destruct (log_find_In _ _ _ Ef) as [F1 F2].
      destruct (L4 p eq_refl t [] n rest Epc l0 F1 F2) as [K|[x [_ [[e [r [[] _]]]|[r []]]]]]. exact (Hcov _ K).
    + intros x Hx. destruct Hstr as [Hs|[e [He Hs]]].
      * destruct (L2 x (Hs x Hx)) as [e [H1 H2]]. exists e. auto.
      * destruct (Hs x Hx) as [K|K]; [exists e; split; [rewrite He; apply in_or_app; right; now left|assumption]|].
        destruct (L2 x K) as [e0 [H1 H2]]. exists e0. auto.
    + destruct i; cbn [logs_effect] in LE; try (destruct LE as [LE1 _]; rewrite LE1; exact L3).
      * destruct (log_find n (f_logs (s_fs s))); destruct LE as [LE1 _]; rewrite LE1; [now apply sorted_log_remove|exact L3].
      * destruct LE as [LE1 _]. rewrite LE1. now apply sorted_log_insert.
    + (* pending renames *)
      intros p' [= ->] t' a n b E l Hl Hn.
      destruct (Hlogs l Hl) as [Hl0|Hz]; [|left; now left].
      destruct (N.eq_dec t' t) as [->|Hne].
      * destruct (ef_self _ _ _ _ _ _ EF p' eq_refl) as [K|[pushed [Hpu K]]]; rewrite K in E; [destruct a; discriminate|].
        subst p1. rewrite pc_get_set_same in E.
        destruct (split_after_pushed pushed rest a (IRenameLog n) b Hpu (fun K0 : is_pushed (IRenameLog n) => K0) E) as [a' Ea'].
        assert (Ea : a = pushed ++ a').
        { rewrite Ea' in E. rewrite app_assoc in E. apply app_inv_tail in E. now symmetry. }
        destruct (L4 p eq_refl t (i :: a') n b) with (l := l) as [K0|[x [K1 K2]]]; [now rewrite Epc, Ea'|assumption|assumption|left; exact (Hcov _ K0)|].
        destruct (will_add_tail _ _ _ K2) as [Hadd|Hw].
        -- left. right. exists x. split; [assumption|].
           destruct Hhd as [->|Hh]; [destruct Hadd|]. exact (adder_adds t i s _ s1 _ x Hh Ee L2 Hadd).
        -- right. exists x. split; [assumption|]. rewrite Ea. now apply will_add_push.
      * rewrite (ef_other _ _ _ _ _ _ EF p' t' eq_refl Hne) in E. subst p1. rewrite pc_get_set_other in E by assumption.
        destruct (L4 p eq_refl t' a n b E l Hl0 Hn) as [K0|K0]; [left; exact (Hcov _ K0)|now right].
    + (* workers have no renames *)
      intros p' [= ->] t' H1 H2 n Hin. destruct (N.eq_dec t' t) as [->|Hne].
      * destruct (ef_self _ _ _ _ _ _ EF p' eq_refl) as [K|[pushed [Hpu K]]]; rewrite K in Hin; [destruct Hin|].
        subst p1. rewrite pc_get_set_same in Hin. apply in_app_iff in Hin. destruct Hin as [Hin|Hin]; [exact (no_rename_pushed _ _ Hpu Hin)|].
        apply (L5 p eq_refl t H1 H2 n). rewrite Epc. now right.
      * rewrite (ef_other _ _ _ _ _ _ EF p' t' eq_refl Hne) in Hin. subst p1. rewrite pc_get_set_other in Hin by assumption.
        exact (L5 p eq_refl t' H1 H2 n Hin).
    + (* the memtable thread's pending rename is of an older log *)
      intros p' [= ->] Hr n Hin. rewrite (ef_ready _ _ _ _ _ _ EF p' eq_refl) in Hr.
      destruct (N.eq_dec t T_MAIN) as [->|Ht].
      * (* the opening thread: the memtable thread has no program yet *)
        exfalso. assert (Hnr : p_ready p = false).
        { destruct (p_ready p) eqn:Er; [|reflexivity]. unfold main_pc in P3. rewrite (P3 eq_refl) in Epc. discriminate. }
        rewrite (ef_other _ _ _ _ _ _ EF p' T_FLUSH eq_refl ltac:(discriminate)) in Hin. subst p1.
        rewrite pc_get_set_other in Hin by discriminate. rewrite (P4 Hnr T_FLUSH ltac:(discriminate)) in Hin. destruct Hin.
      * assert (Hr0 : p_ready p = true) by (destruct Hguard; [assumption|contradiction]).
        assert (Hkv : p_lognum p' = p_lognum p).
        { specialize (KV p' eq_refl). destruct i; try exact (proj1 KV). exfalso. exact (Hnew_not_other Ht _ _ eq_refl). }
        rewrite Hkv. apply (L6 p eq_refl Hr0 n).
        destruct (N.eq_dec t T_FLUSH) as [->|Hf].
        -- destruct (ef_self _ _ _ _ _ _ EF p' eq_refl) as [K|[pushed [Hpu K]]]; rewrite K in Hin; [destruct Hin|].
           subst p1. rewrite pc_get_set_same in Hin. apply in_app_iff in Hin. destruct Hin as [Hin|Hin]; [destruct (no_rename_pushed _ _ Hpu Hin)|].
           rewrite Epc. now right.
        -- rewrite (ef_other _ _ _ _ _ _ EF p' T_FLUSH eq_refl ltac:(congruence)) in Hin. subst p1.
           now rewrite pc_get_set_other in Hin by congruence.
    + intros p' [= ->] Hr. specialize (KV p' eq_refl). rewrite (ef_ready _ _ _ _ _ _ EF p' eq_refl) in Hr.
      destruct i; try (destruct KV as [K1 K2]; rewrite K1, K2; exact (L7 p eq_refl Hr)).
      destruct KV as [K1 K2]. rewrite K1, K2. lia.
  - (* EWrite *)
    destruct (s_p s) as [p|] eqn:Ep; [|exact HL]. destruct (p_ready p) eqn:Er; [|exact HL].
    destruct (HP p eq_refl) as [[P1 P2 P3 P4] PH].
    split; cbn [s_fs s_p s_hist upd_p upd_fs set_logs f_logs f_tlogs].
    + exact L1.
    + exact L2.
    + rewrite nums_log_upd by reflexivity. exact L3.
    + intros p' [= <-] t a n b E l Hl Hn. change (pc_get t (set_kvs p (p_seq p + 1) (p_memseq p) (p_lognum p) true)) with (pc_get t p) in E.
      destruct (log_upd_In _ _ _ _ Hl) as [l0 [Hl0 El]]. destruct (N.eqb_spec (l_num l0) (p_lognum p)) as [Ek|Ek].
      * (* nobody is about to rename the log in use *)
        exfalso. subst l. cbn [l_num] in Hn.
        assert (Hin : In (IRenameLog n) (pc_get t p)) by (rewrite E; apply in_or_app; right; now left).
        destruct (N.eq_dec t T_MAIN) as [->|Ht]; [unfold main_pc in P3; rewrite (P3 Er) in Hin; destruct Hin|].
        destruct (N.eq_dec t T_FLUSH) as [->|Hf]; [pose proof (L6 p eq_refl Er n Hin); lia|exact (L5 p eq_refl t Ht Hf n Hin)].
      * subst l. exact (L4 p eq_refl t a n b E l0 Hl0 Hn).
    + intros p' [= <-] t H1 H2 n. exact (L5 p eq_refl t H1 H2 n).
    + intros p' [= <-] _ n Hin. exact (L6 p eq_refl Er n Hin).
    + intros p' [= <-] _. cbn [p_lognum p_seq set_kvs]. pose proof (L7 p eq_refl Er). lia.
  - (* EFlush *)
    destruct (s_p s) as [p|] eqn:Ep; [|exact HL].
    match goal with |- LInv (if ?c then _ else _) => destruct c eqn:Ec end; [|exact HL].
    apply andb_prop in Ec. destruct Ec as [Ec _]. apply andb_prop in Ec. destruct Ec as [Er Ebusy].
    destruct (HP p eq_refl) as [[P1 P2 P3 P4] PH].
    assert (Hidle : pc_get T_FLUSH p = []) by (unfold busy in Ebusy; destruct (pc_get T_FLUSH p); [reflexivity|discriminate]).
    pose proof (L7 p eq_refl Er) as Hseq.
    split; cbn [s_fs s_p s_hist upd_p upd_fs set_logs f_logs f_tlogs].
    + exact L1.
    + exact L2.
    + apply sorted_log_insert. unfold seal_log. rewrite nums_log_upd by reflexivity. exact L3.
    + intros p' [= <-] t a n b E l Hl Hn.
      destruct (N.eq_dec t T_FLUSH) as [->|Hf].
      * rewrite pc_get_set_same in E.
        destruct a as [|i1 a]; [discriminate|]. injection E as <- E. destruct a as [|i2 a]; [discriminate|]. injection E as <- E.
        destruct a as [|i3 a]; [|injection E as _ E; destruct a; discriminate]. injection E as <- <-.
        destruct (log_insert_In _ _ _ Hl) as [->|Hl']; [left; now left|].
        unfold seal_log in Hl'. destruct (log_upd_In _ _ _ _ Hl') as [l0 [Hl0 El]]. destruct (N.eqb_spec (l_num l0) (p_lognum p)) as [Ek|Ek].
        -- subst l. right. exists x. split; [reflexivity|]. left. eexists. eexists. split; [right; now left|now left].
        -- subst l. congruence.
      * rewrite pc_get_set_other in E by assumption.
        change (pc_get t (set_kvs p (p_seq p + 1) (p_seq p) (p_seq p) true)) with (pc_get t p) in E.
        exfalso. assert (Hin : In (IRenameLog n) (pc_get t p)) by (rewrite E; apply in_or_app; right; now left).
        destruct (N.eq_dec t T_MAIN) as [->|Ht]; [unfold main_pc in P3; rewrite (P3 Er) in Hin; destruct Hin|].
        exact (L5 p eq_refl t Ht Hf n Hin).
    + intros p' [= <-] t H1 H2 n. rewrite pc_get_set_other by assumption. exact (L5 p eq_refl t H1 H2 n).
    + intros p' [= <-] _ n Hin. rewrite pc_get_set_same in Hin. cbn [p_lognum pc_set set_pcs set_kvs].
      destruct Hin as [H|[H|[H|[]]]]; try discriminate. injection H as <-. exact Hseq.
    + intros p' [= <-] _. cbn [p_lognum p_seq pc_set set_pcs set_kvs]. lia.
  - (* ECompact *)
    destruct (s_p s) as [p|] eqn:Ep; [|exact HL].
    match goal with |- LInv (if ?c then _ else _) => destruct c eqn:Ec end; [|exact HL].
    apply andb_prop in Ec. destruct Ec as [Ec _]. apply andb_prop in Ec. destruct Ec as [Er Ebusy].
    apply LInv_spawn; auto; try apply T_COMPACT_not_main; try apply T_COMPACT_not_flush.
    + unfold busy in Ebusy. destruct (pc_get (T_COMPACT j) p); [reflexivity|discriminate].
    + intros n. apply worker_no_rename. exact (proj1 (worker_ok_compaction (H_COMPACT j) ins outs roll hold)).
  - (* EMove *)
    destruct (s_p s) as [p|] eqn:Ep; [|exact HL].
    match goal with |- LInv (if ?c then _ else _) => destruct c eqn:Ec end; [|exact HL].
    apply andb_prop in Ec. destruct Ec as [Er Ebusy].
    apply LInv_spawn; auto; try apply T_COMPACT_not_main; try apply T_COMPACT_not_flush.
    + unfold busy in Ebusy. destruct (pc_get (T_COMPACT j) p); [reflexivity|discriminate].
    + intros n [H|[]]. discriminate.
  - (* ETake *)
    destruct (s_p s) as [p|] eqn:Ep; [|exact HL].
    match goal with |- LInv (if ?c then _ else _) => destruct c eqn:Ec end; [|exact HL].
    apply andb_prop in Ec. destruct Ec as [Ec _]. apply andb_prop in Ec. destruct Ec as [Er Ebusy].
    apply LInv_spawn; auto; try apply T_READER_not_main; try apply T_READER_not_flush.
    + unfold busy in Ebusy. destruct (pc_get (T_READER r) p); [reflexivity|discriminate].
    + intros n [H|[]]. discriminate.
  - (* EDrop *)
    destruct (s_p s) as [p|] eqn:Ep; [|exact HL].
    match goal with |- LInv (if ?c then _ else _) => destruct c eqn:Ec end; [|exact HL].
    apply andb_prop in Ec. destruct Ec as [Er Ebusy].
    apply LInv_spawn; auto; try apply T_READER_not_main; try apply T_READER_not_flush.
    + unfold busy in Ebusy. destruct (pc_get (T_READER r) p); [reflexivity|discriminate].
    + intros n [H|[]]. discriminate.
  - (* ECrash *)
    split; cbn [s_fs s_p s_hist upd_p]; auto; intros p H; discriminate.
  - (* EVBegin *)
    destruct (s_v s); [exact HL|now apply LInv_v].
  - (* EVStep *)
    destruct (s_v s) as [[pc]|] eqn:Ev; [|exact HL]. cbn [vp_pc]. destruct pc as [|i rest]; [now apply LInv_v|].
    destruct (vexec i ok rest (s_fs s)) as [fs' pc'] eqn:Ex.
    destruct (vexec_inv _ _ _ _ _ _ _ HM Ex) as [_ [K2 [_ [_ K5]]]].
    split; cbn [s_fs s_p s_hist upd_v upd_fs].
    + intros l Hl. destruct (L1 l (vexec_tlogs _ _ _ _ _ _ Ex l Hl)) as [K|K]; [now left|now right].
    + intros x Hx. apply L2. unfold live_strs in *. cbn [s_fs upd_v upd_fs] in Hx. now rewrite K2 in Hx.
    + rewrite K5. exact L3.
    + intros p Hp t a n b E l Hl Hn. rewrite K5 in Hl. destruct (L4 p Hp t a n b E l Hl Hn) as [[K|K]|K]; [left; now left|left; now right|now right].
    + exact L5.
    + exact L6.
    + exact L7.
  - (* EVCrash *)
    now apply LInv_v.
Qed.

Lemma LInv_init : LInv sys0.
Proof. split; cbn; auto; try (intros; contradiction); try (intros; discriminate). constructor. Qed.

Theorem LInv_reach evs : LInv (run sys0 evs).
Proof.
  assert (G : forall evs s, InvM s -> InvR s -> LInv s -> LInv (run s evs)).
  { induction evs0 as [|e evs0 IH]; intros s HM HR HL; cbn [run]; [assumption|].
    apply IH; [apply InvM_step, HM|apply InvR_step; assumption|apply LInv_step; assumption]. }
  apply G; [apply InvM_init|apply InvR_init|apply LInv_init].
Qed.
