(* Refs/ProofsMani.v — the manifest directory as a chain of fragments: every fragment after the
   first on disk opens with the roll-up of its predecessor's state; cleanup_orphans's scan over
   such a chain never names a setsum that the current manifest state lists. *)
From Coq Require Import NArith List Bool Lia Arith Sorted.
From Blue Require Import Refs.Model Refs.ProofsBase.
Import ListNotations.
Open Scope N_scope.

(* fragments after a state `prev`: each opens with the roll-up of what precedes it *)
Fixpoint chained (prev : mstate) (fs : list (list edit)) : Prop :=
  match fs with
  | [] => True
  | f :: rest => (exists es, f = rollup prev :: es) /\ chained (frag_state f) rest
  end.
Fixpoint last_state (prev : mstate) (fs : list (list edit)) : mstate :=
  match fs with [] => prev | f :: rest => last_state (frag_state f) rest end.

Definition frags_ok (fs : list (list edit)) : Prop :=
  match fs with [] => True | f0 :: rest => chained (frag_state f0) rest end.
Definition frags_last (fs : list (list edit)) : mstate :=
  match fs with [] => ms_empty | f0 :: rest => last_state (frag_state f0) rest end.

Lemma chained_app prev fs gs :
  chained prev (fs ++ gs) <-> chained prev fs /\ chained (last_state prev fs) gs.
Proof.
  revert prev. induction fs as [|f fs IH]; intros prev; cbn [app chained last_state]; [tauto|].
  rewrite IH. tauto.
Qed.

Lemma last_state_app prev fs gs : last_state prev (fs ++ gs) = last_state (last_state prev fs) gs.
Proof. revert prev. induction fs as [|f fs IH]; intros prev; cbn [app last_state]; [reflexivity|apply IH]. Qed.

Lemma frags_last_snoc fs l : frags_last (fs ++ [l]) = frag_state l.
Proof.
  destruct fs as [|f0 fs]; cbn [app frags_last last_state]; [reflexivity|].
  now rewrite last_state_app.
Qed.

(* ---- the scan *)
Definition disj (acc : list name) (s : mstate) : Prop := forall x, In x acc -> ~ In x (ms_strs s).

Lemma scan_edit_disj acc s e : disj acc s -> disj (scan_edit acc e) (apply_edit e s).
Proof.
  intros H x Hx. unfold scan_edit in Hx. rewrite fold_del_In, fold_add_In in Hx.
  destruct Hx as [Hx Hna]. rewrite apply_edit_In. intros [Ha|[Hs Hnr]]; [contradiction|].
  destruct Hx as [Hr|Hacc]; [contradiction|]. exact (H x Hacc Hs).
Qed.

Lemma scan_edits_disj es : forall acc s, disj acc s ->
  disj (fold_left scan_edit es acc) (fold_left (fun s e => apply_edit e s) es s).
Proof.
  induction es as [|e es IH]; intros acc s H; cbn [fold_left]; [assumption|].
  apply IH, scan_edit_disj, H.
Qed.

Lemma rollup_strs_In prev y : In y (ms_strs (apply_edit (rollup prev) ms_empty)) <-> In y (ms_strs prev).
Proof. rewrite apply_edit_In. cbn. tauto. Qed.

Lemma scan_chained fs : forall prev acc, chained prev fs -> disj acc prev ->
  disj (fold_left scan_frag fs acc) (last_state prev fs).
Proof.
  induction fs as [|f fs IH]; intros prev acc Hc Hd; cbn [fold_left last_state]; [assumption|].
  destruct Hc as [[es ->] Hc]. apply IH; [assumption|].
  unfold scan_frag. cbn [tl]. unfold frag_state. cbn [fold_left].
  apply scan_edits_disj. intros x Hx. rewrite rollup_strs_In. now apply Hd.
Qed.

Lemma scan_frags_ok fs : frags_ok fs -> disj (fold_left scan_frag fs []) (frags_last fs).
Proof.
  destruct fs as [|f0 rest]; cbn [frags_ok frags_last fold_left]; [intros _ x []|].
  intros Hc. apply scan_chained; [assumption|].
  destruct f0 as [|e0 es]; cbn [scan_frag tl fold_left]; [intros x []|].
  unfold frag_state. cbn [fold_left]. apply scan_edits_disj. intros x [].
Qed.

(* orphan_cleanup_safe, as a statement about one directory *)
Lemma orphan_scan_safe d : frags_ok (all_frags d) ->
  forall x, In x (orphan_scan d) -> ~ In x (ms_strs (frag_state (md_live d))).
Proof.
  intros H x Hx. pose proof (scan_frags_ok _ H x Hx) as H1.
  unfold all_frags in H1. now rewrite frags_last_snoc in H1.
Qed.

(* ---- how the directory operations keep the chain *)
Lemma frags_ok_snoc fs l :
  frags_ok (fs ++ [l]) <->
  match fs with [] => True | _ => frags_ok fs /\ exists es, l = rollup (frags_last fs) :: es end.
Proof.
  destruct fs as [|f0 fs]; cbn [app frags_ok frags_last]; [cbn; tauto|].
  rewrite chained_app. cbn [chained]. tauto.
Qed.

Lemma max_id_app fr g : max_id (fr ++ g) = N.max (max_id fr) (max_id g).
Proof.
  unfold max_id. rewrite fold_left_app.
  assert (G : forall l a, fold_left (fun m p => N.max m (fst p)) l a = N.max a (fold_left (fun m (p : N * list edit) => N.max m (fst p)) l 0)).
  { induction l as [|p l IH]; intros a; cbn [fold_left]; [lia|]. rewrite IH, (IH (N.max 0 (fst p))). lia. }
  apply G.
Qed.

Lemma max_id_ge fr p : In p fr -> fst p <= max_id fr.
Proof.
  induction fr as [|q fr IH]; [intros []|]. intros [->|H].
  - change (p :: fr) with ([p] ++ fr). rewrite max_id_app. unfold max_id at 1. cbn. lia.
  - change (q :: fr) with ([q] ++ fr). rewrite max_id_app. specialize (IH H). lia.
Qed.
