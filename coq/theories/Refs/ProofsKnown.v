(* Refs/ProofsKnown.v — the known class K-verifier-by-name: the verifier's recorded intent names a
   setsum that the store re-creates before the unlink happens.  Outside the class, whatever the
   verifier is about to unlink has not been added again after the fragment it verified. *)
From Coq Require Import NArith List Bool Lia Arith Sorted.
From Blue Require Import Refs.Model Refs.Spec Refs.ProofsBase Refs.ProofsMani Refs.ProofsInvM Refs.ProofsVerifier.
Import ListNotations.
Open Scope N_scope.

Arguments N.eqb : simpl never.
Arguments N.ltb : simpl never.

Lemma state_strs_added f : forall x, In x (ms_strs (frag_state f)) -> exists e, In e f /\ In x (e_add e).
Proof.
  induction f as [|e f IH] using rev_ind; [intros x []|]. intros x Hx. rewrite frag_state_snoc in Hx.
  apply apply_edit_In in Hx. destruct Hx as [Hx|[Hx _]].
  - exists e. split; [apply in_or_app; right; now left|assumption].
  - destruct (IH x Hx) as [e' [H1 H2]]. exists e'. split; [apply in_or_app; now left|assumption].
Qed.

Lemma added_after_In m d x : In x (added_after m d) <->
  (exists p e, In p (md_frags d) /\ m < fst p /\ In e (snd p) /\ In x (e_add e)) \/ (exists e, In e (md_live d) /\ In x (e_add e)).
Proof.
  unfold added_after. rewrite in_flat_map. split.
  - intros [e [He Hx]]. apply in_app_iff in He. destruct He as [He|He]; [left|right; eauto].
    apply in_flat_map in He. destruct He as [p [Hp He]]. apply filter_In in Hp. destruct Hp as [Hp Hlt].
    apply N.ltb_lt in Hlt. exists p, e. auto.
  - intros [[p [e [Hp [Hlt [He Hx]]]]]|[e [He Hx]]]; exists e; (split; [|assumption]); apply in_or_app; [left|now right].
    apply in_flat_map. exists p. split; [|assumption]. apply filter_In. split; [assumption|now apply N.ltb_lt].
Qed.

(* a manifest apply: what comes after fragment m grows by the new edit's additions only *)
Lemma md_apply_added d ms next e roll d' ms' next' r m x :
  ms = frag_state (md_live d) -> md_apply d ms next e roll = (d', ms', next', r) ->
  In x (added_after m d') -> In x (added_after m d) \/ In x (e_add e).
Proof.
  intros Hms E Hx. unfold md_apply in E. destruct (roll && negb (is_nil (ms_strs ms))).
  - unfold md_rollover in E. injection E as <- _ _ _. apply added_after_In in Hx. cbn [md_frags md_live] in Hx.
    assert (Hlive : forall e0, In e0 (md_live d ++ [e]) -> In x (e_add e0) -> In x (added_after m d) \/ In x (e_add e)).
    { intros e0 H0 Hx0. apply in_app_iff in H0. destruct H0 as [H0|[<-|[]]]; [left|now right].
      apply added_after_In. right. eauto. }
    destruct Hx as [[p [e0 [Hp [Hlt [He0 Hx0]]]]]|[e0 [He0 Hx0]]].
    + apply in_app_iff in Hp. destruct Hp as [Hp|[<-|[]]].
      * left. apply added_after_In. left. exists p, e0. repeat split; assumption.
      * cbn [snd] in He0. now apply (Hlive e0).
    + destruct He0 as [<-|[]]. cbn [rollup e_add] in Hx0. subst ms.
      rewrite <- frag_state_snoc in Hx0. destruct (state_strs_added _ _ Hx0) as [e1 [H1 H2]]. now apply (Hlive e1).
  - injection E as <- _ _ _. apply added_after_In in Hx. cbn [md_frags md_live] in Hx.
    destruct Hx as [[p [e0 [Hp [Hlt [He0 Hx0]]]]]|[e0 [He0 Hx0]]].
    + left. apply added_after_In. left. exists p, e0. repeat split; assumption.
    + apply in_app_iff in He0. destruct He0 as [He0|[<-|[]]]; [left|now right]. apply added_after_In. right. eauto.
Qed.

Lemma md_open_added d d' ms next r m x :
  md_open d = (d', ms, next, r) -> In x (added_after m d') -> In x (added_after m d).
Proof.
  unfold md_open. destruct (is_nil (md_live d)).
  - intros [= <- _ _ _]. auto.
  - unfold md_rollover. intros [= <- _ _ _] Hx. apply added_after_In in Hx. cbn [md_frags md_live] in Hx.
    apply added_after_In. destruct Hx as [[p [e0 [Hp [Hlt [He0 Hx0]]]]]|[e0 [He0 Hx0]]].
    + apply in_app_iff in Hp. destruct Hp as [Hp|[<-|[]]]; [left; exists p, e0; repeat split; assumption|].
      cbn [snd] in He0. right. exists e0. split; assumption.
    + destruct He0 as [<-|[]]. cbn [rollup e_add] in Hx0. right.
      destruct (state_strs_added _ _ Hx0) as [e1 [H1 H2]]. exists e1. split; assumption.
Qed.

Lemma frag_remove_added n d m x : In x (added_after m (frag_remove n d)) -> In x (added_after m d).
Proof.
  intros Hx. apply added_after_In in Hx. apply added_after_In. unfold frag_remove in Hx. cbn [md_frags md_live] in Hx.
  destruct Hx as [[p [e0 [Hp [Hlt [He0 Hx0]]]]]|H]; [left|now right]. apply adel_In in Hp. exists p, e0. tauto.
Qed.

(* how one store instruction changes the manifest directory and the ghost history *)
Lemma store_apply_hist s p e roll s1 p1 : store_apply s p e roll = (s1, p1) ->
  s_hist s1 = s_hist s ++ [e] /\
  exists d ms next r, md_apply (f_md (s_fs s)) (p_ms p) (p_next p) e roll = (d, ms, next, r) /\ f_md (s_fs s1) = d.
Proof.
  unfold store_apply. destruct (md_apply _ _ _ _ _) as [[[d ms] next] r] eqn:E. intros [= <- <-]. cbn [s_hist s_fs set_md f_md].
  split; [reflexivity|]. exists d, ms, next, r. auto.
Qed.

Definition md_effect (s s' : sys) (p1 : proc) : Prop :=
  (f_md (s_fs s') = f_md (s_fs s) /\ s_hist s' = s_hist s) \/
  (exists e roll d ms next r, md_apply (f_md (s_fs s)) (p_ms p1) (p_next p1) e roll = (d, ms, next, r) /\
                              f_md (s_fs s') = d /\ s_hist s' = s_hist s ++ [e]) \/
  (exists d ms next r, md_open (f_md (s_fs s)) = (d, ms, next, r) /\ f_md (s_fs s') = d /\ s_hist s' = s_hist s).

Lemma exec_md_effect t i s p1 s' op' : exec t i s p1 = (s', op') -> md_effect s s' p1.
Proof.
  assert (App : forall e roll s1 q, store_apply s p1 e roll = (s1, q) -> md_effect s s1 p1).
  { intros e roll s1 q Es. destruct (store_apply_hist _ _ _ _ _ _ Es) as [H1 [d [ms [next [r [H2 H3]]]]]].
    right. left. exists e, roll, d, ms, next, r. auto. }
  destruct i as [x|x|oe roll|x|h|h|n| | |x|x roll| | |x|rec tm]; cbn [exec]; intros E.
  - destruct (mem x (f_sst (s_fs s))); injection E as <- <-; left; split; reflexivity.
  - injection E as <- <-. left; split; reflexivity.
  - destruct oe as [e|].
    + destruct (store_apply s p1 e roll) as [s1 q] eqn:Es. injection E as <- <-. exact (App _ _ _ _ Es).
    + injection E as <- <-. left; split; reflexivity.
  - destruct (rc_dec x (p_refs p1)) as [r last]. injection E as <- <-.
    destruct last; [unfold to_trash; destruct (mem x (f_sst (s_fs s)))|]; left; split; reflexivity.
  - destruct (aget h (p_snaps p1)); injection E as <- <-; left; split; reflexivity.
  - destruct (aget h (p_snaps p1)); injection E as <- <-; left; split; reflexivity.
  - destruct (log_find n (f_logs (s_fs s))); injection E as <- <-; left; split; reflexivity.
  - destruct (md_open (f_md (s_fs s))) as [[[d ms] next] r] eqn:Eo. injection E as <- <-.
    right. right. exists d, ms, next, r. auto.
  - destruct (is_nil (md_live (f_md (s_fs s)))).
    + destruct (store_apply s p1 (mkEdit [] [] None) false) as [s1 q] eqn:Es. injection E as <- <-. exact (App _ _ _ _ Es).
    + injection E as <- <-. left; split; reflexivity.
  - destruct (mem x (f_sst (s_fs s))); injection E as <- <-; left; split; reflexivity.
  - destruct (mem x (ms_strs (p_ms p1))).
    + injection E as <- <-. left; split; reflexivity.
    + destruct (store_apply s p1 (mkEdit [] [x] None) roll) as [s1 q] eqn:Es. injection E as <- <-. exact (App _ _ _ _ Es).
  - destruct (forallb _ _); injection E as <- <-; left; split; reflexivity.
  - injection E as <- <-. left; split; reflexivity.
  - destruct (mem x (f_sst (s_fs s)) && negb (mem x (f_trash (s_fs s)))); injection E as <- <-;
      [unfold to_trash; destruct (mem x (f_sst (s_fs s)))|]; left; split; reflexivity.
  - injection E as <- <-. left; split; reflexivity.
Qed.

Lemma pending_frame s s' : f_vs (s_fs s') = f_vs (s_fs s) ->
  (forall m x, In x (added_after m (f_md (s_fs s'))) -> In x (added_after m (f_md (s_fs s)))) ->
  pending_not_readded s -> pending_not_readded s'.
Proof. intros E1 E2 H x m Hx Hm Hin. rewrite E1 in Hx, Hm. exact (H x m Hx Hm (E2 m x Hin)). Qed.

Lemma intent_not_added n f d x : In (TSst x) (tent_sort (intent n f d)) -> ~ In x (added_after n d).
Proof.
  intros H. apply tent_sort_In in H. unfold intent in H. apply in_app_iff in H. destruct H as [H|H].
  - apply in_map_iff in H. destruct H as [y [[= ->] Hy]]. apply dels_In in Hy. tauto.
  - apply in_map_iff in H. destruct H as [y [Hy _]]. discriminate.
Qed.

Theorem pending_step s ev : InvM s -> ~ readds_pending s ev -> pending_not_readded s -> pending_not_readded (step s ev).
Proof.
  intros [HM HP] Hnk HK. pose proof Hnk as Hnk0. unfold readds_pending in Hnk.
  destruct ev as [sums rolls tm|t| |x roll|j ins outs roll hold|j|r|r| | |ok| ]; cbn [step] in *.
  - destruct (s_p s); [exact HK|]. match goal with |- pending_not_readded (if ?c then _ else _) => destruct c end; [|exact HK].
    apply (pending_frame s); auto.
  - destruct (s_p s) as [p|] eqn:Ep; [|exact HK]. destruct (pc_get t p) as [|i rest] eqn:Epc; [exact HK|].
    destruct (negb (p_ready p) && negb (t =? T_MAIN)) eqn:Eg; [exact HK|].
    destruct (exec t i s (pc_set t rest p)) as [s1 op] eqn:Ee.
    destruct (exec_vs _ _ _ _ _ _ Ee) as [V1 _].
    destruct (exec_md_effect _ _ _ _ _ _ Ee) as [[M1 M2]|[[e [roll [d [ms [next [r [A1 [A2 A3]]]]]]]]|[d [ms [next [r [O1 [O2 O3]]]]]]]].
    + apply (pending_frame s); cbn [s_fs upd_p]; auto. intros m x Hx. now rewrite M1 in Hx.
    + (* a manifest apply *)
      assert (Hh : Hd (s_fs s) (pc_set t rest p)).
      { destruct (HP p eq_refl) as [[P1 P2 P3 P4] PH]. apply (Hd_frame (s_fs s) (s_fs s) p); try reflexivity. apply PH.
        unfold main_pc. destruct (N.eq_dec t T_MAIN) as [->|Ht].
        - rewrite Epc. intros [H|H].
          + (* IManiOpen never applies an edit *)
            subst i. cbn [exec] in Ee. destruct (md_open (f_md (s_fs s))) as [[[d0 ms0] next0] r0]. injection Ee as <- _.
            cbn [s_hist] in A3. assert (K : length (s_hist s) = length (s_hist s ++ [e])) by now rewrite <- A3.
            rewrite app_length in K. cbn in K. lia.
          + apply P1. unfold main_pc. now rewrite Epc.
        - assert (Hr : p_ready p = true).
          { destruct (p_ready p); [reflexivity|]. cbn in Eg. destruct (N.eqb_spec t T_MAIN); [contradiction|discriminate]. }
          unfold main_pc in P3. rewrite (P3 Hr). intros []. }
      intros x m Hx Hm Hin. cbn [s_fs upd_p] in *. rewrite V1 in Hx, Hm. rewrite A2 in Hin.
      destruct (md_apply_added _ _ _ _ _ _ _ _ _ m x (proj1 Hh) A1 Hin) as [K|K]; [exact (HK x m Hx Hm K)|].
      apply Hnk. exists e, x. cbn [s_hist upd_p]. auto.
    + apply (pending_frame s); cbn [s_fs upd_p]; auto. intros m x Hx. rewrite O2 in Hx. exact (md_open_added _ _ _ _ _ m x O1 Hx).
  - destruct (s_p s) as [p|]; [|exact HK]. destruct (p_ready p); [|exact HK]. apply (pending_frame s); auto.
  - destruct (s_p s) as [p|]; [|exact HK]. match goal with |- pending_not_readded (if ?c then _ else _) => destruct c end; [|exact HK]. apply (pending_frame s); auto.
  - destruct (s_p s) as [p|]; [|exact HK]. match goal with |- pending_not_readded (if ?c then _ else _) => destruct c end; [|exact HK]. apply (pending_frame s); auto.
  - destruct (s_p s) as [p|]; [|exact HK]. match goal with |- pending_not_readded (if ?c then _ else _) => destruct c end; [|exact HK]. apply (pending_frame s); auto.
  - destruct (s_p s) as [p|]; [|exact HK]. match goal with |- pending_not_readded (if ?c then _ else _) => destruct c end; [|exact HK]. apply (pending_frame s); auto.
  - destruct (s_p s) as [p|]; [|exact HK]. match goal with |- pending_not_readded (if ?c then _ else _) => destruct c end; [|exact HK]. apply (pending_frame s); auto.
  - apply (pending_frame s); auto.
  - destruct (s_v s); [exact HK|]. apply (pending_frame s); auto.
  - destruct (s_v s) as [[pc]|] eqn:Ev; [|exact HK]. cbn [vp_pc]. destruct pc as [|i rest]; [apply (pending_frame s); auto|].
    destruct (vexec i ok rest (s_fs s)) as [fs' pc'] eqn:Ex. unfold pending_not_readded. cbn [s_fs upd_v upd_fs].
    destruct i as [n|n|t| |n]; cbn [vexec] in Ex.
    + destruct (vs_m (f_vs (s_fs s))); [destruct (n <? n0)|]; injection Ex as <- <-; exact HK.
    + injection Ex as <- <-. cbn [set_md f_vs f_md]. intros x m Hx Hm Hin. exact (HK x m Hx Hm (frag_remove_added _ _ _ _ Hin)).
    + destruct t as [x0|k]; injection Ex as <- <-; exact HK.
    + injection Ex as <- <-. cbn [set_vs f_vs vs_strs]. intros x m [].
    + destruct (match vs_m (f_vs (s_fs s)) with Some old => old =? n | None => false end); [injection Ex as <- <-; exact HK|].
      destruct (is_nil (vs_strs (f_vs (s_fs s)))); cbn [negb] in Ex; [|injection Ex as <- <-; exact HK].
      destruct (frag_find n (f_md (s_fs s))) as [f|]; [|injection Ex as <- <-; exact HK].
      destruct ok; cbn [negb] in Ex; [|injection Ex as <- <-; exact HK].
      destruct (forallb _ _); injection Ex as <- <-; [|exact HK].
      cbn [set_vs f_vs f_md vs_strs vs_m]. intros x m Hx [= <-]. exact (intent_not_added _ _ _ _ Hx).
  - apply (pending_frame s); auto.
Qed.

Theorem pending_outside_known evs : forall s, InvM s -> pending_not_readded s -> ~ known_by_name s evs ->
  pending_not_readded (run s evs).
Proof.
  induction evs as [|ev evs IH]; intros s HM HK Hn; cbn [run]; [assumption|].
  cbn [known_by_name] in Hn. apply IH.
  - apply InvM_step, HM.
  - apply pending_step; [assumption|tauto|assumption].
  - tauto.
Qed.

Lemma pending_init : pending_not_readded sys0.
Proof. intros x m []. Qed.
