(* Refs/ProofsCount.v — counting pending releases and pins over the threads of the store process,
   and the sum of the registered versions' contributions to a reference count. *)
From Coq Require Import NArith List Bool Lia Arith.
From Blue Require Import Refs.Model Refs.ProofsBase Refs.ProofsInvM.
Import ListNotations.
Open Scope N_scope.

Arguments N.eqb : simpl never.

Definition is_rel (x : name) (i : instr) : bool := match i with IRelease y => x =? y | _ => false end.
Definition is_pin (x : name) (i : instr) : bool := match i with IPinLink y => x =? y | _ => false end.
Definition nrel (x : name) (pc : list instr) : nat := length (filter (is_rel x) pc).
Definition npin (x : name) (pc : list instr) : nat := length (filter (is_pin x) pc).

Lemma nrel_app x a b : nrel x (a ++ b) = (nrel x a + nrel x b)%nat.
Proof. unfold nrel. now rewrite filter_app, app_length. Qed.
Lemma npin_app x a b : npin x (a ++ b) = (npin x a + npin x b)%nat.
Proof. unfold npin. now rewrite filter_app, app_length. Qed.

Lemma nrel_cons x i pc : nrel x (i :: pc) = ((if is_rel x i then 1 else 0) + nrel x pc)%nat.
Proof. unfold nrel. cbn [filter]. destruct (is_rel x i); reflexivity. Qed.
Lemma npin_cons x i pc : npin x (i :: pc) = ((if is_pin x i then 1 else 0) + npin x pc)%nat.
Proof. unfold npin. cbn [filter]. destruct (is_pin x i); reflexivity. Qed.

Lemma nrel_releases x l : nrel x (map IRelease l) = cnt x l.
Proof.
  induction l as [|y l IH]; [reflexivity|]. cbn [map]. rewrite nrel_cons, IH. unfold cnt. cbn [count_occ is_rel].
  destruct (N.eq_dec y x) as [E|E]; destruct (N.eqb_spec x y) as [H|H]; try congruence; reflexivity.
Qed.
Lemma npin_releases x l : npin x (map IRelease l) = O.
Proof. induction l as [|y l IH]; [reflexivity|]. cbn [map]. now rewrite npin_cons, IH. Qed.
Lemma npin_pins x l : npin x (map IPinLink l) = cnt x l.
Proof.
  induction l as [|y l IH]; [reflexivity|]. cbn [map]. rewrite npin_cons, IH. unfold cnt. cbn [count_occ is_pin].
  destruct (N.eq_dec y x) as [E|E]; destruct (N.eqb_spec x y) as [H|H]; try congruence; reflexivity.
Qed.
Lemma nrel_pins x l : nrel x (map IPinLink l) = O.
Proof. induction l as [|y l IH]; [reflexivity|]. cbn [map]. now rewrite nrel_cons, IH. Qed.
Lemma nrel_orphans x l : nrel x (map IOrphan l) = O.
Proof. induction l as [|y l IH]; [reflexivity|]. cbn [map]. now rewrite nrel_cons, IH. Qed.
Lemma npin_orphans x l : npin x (map IOrphan l) = O.
Proof. induction l as [|y l IH]; [reflexivity|]. cbn [map]. now rewrite npin_cons, IH. Qed.

Lemma ls_cons a l : list_sum (a :: l) = (a + list_sum l)%nat.
Proof. reflexivity. Qed.

(* sums over the threads *)
Definition spc (f : list instr -> nat) (pcs : list (N * list instr)) : nat :=
  list_sum (map (fun e => f (snd e)) pcs).

Lemma spc_adel f t pcs : f [] = O -> NoDup (map fst pcs) ->
  (spc f (adel t pcs) + f (match aget t pcs with Some l => l | None => [] end))%nat = spc f pcs.
Proof.
  intros Hf Hnd. induction pcs as [|[k l] pcs IH]; cbn [adel aget spc map snd]; rewrite ?ls_cons; [lia|].
  inversion Hnd as [|? ? Hk Hnd']; subst. specialize (IH Hnd'). unfold spc in *.
  destruct (N.eqb_spec t k) as [->|Hne].
  - assert (E : adel k pcs = pcs).
    { clear IH Hnd Hnd'. induction pcs as [|[k2 l2] pcs IH]; [reflexivity|]. cbn [adel].
      destruct (N.eqb_spec k k2) as [->|H]; [exfalso; apply Hk; now left|]. f_equal. apply IH. intros H1. apply Hk. now right. }
    rewrite E. cbn [map snd]; rewrite ?ls_cons. lia.
  - cbn [map snd]; rewrite ?ls_cons. lia.
Qed.

Lemma adel_keys_NoDup {A} t (pcs : list (N * A)) : NoDup (map fst pcs) -> NoDup (map fst (adel t pcs)).
Proof.
  induction pcs as [|[k l] pcs IH]; cbn [adel map]; [auto|]. intros H. cbn [fst] in H. inversion H as [|? ? Hk Hnd]; subst.
  destruct (N.eqb_spec t k); [auto|]. cbn [map fst]. constructor; [|auto].
  intros Hin. apply adel_ids_In in Hin. tauto.
Qed.

Lemma aset_keys_NoDup {A} t (v : A) pcs : NoDup (map fst pcs) -> NoDup (map fst (aset t v pcs)).
Proof.
  intros H. unfold aset. cbn [map fst]. constructor; [|now apply adel_keys_NoDup].
  intros Hin. apply adel_ids_In in Hin. tauto.
Qed.

Lemma pc_set_keys t l p : NoDup (map fst (p_pcs p)) -> NoDup (map fst (p_pcs (pc_set t l p))).
Proof.
  intros H. unfold pc_set, set_pcs. cbn [p_pcs]. destruct l; [now apply adel_keys_NoDup|now apply aset_keys_NoDup].
Qed.

(* replacing the program of one thread *)
Lemma spc_set f t l p : f [] = O -> NoDup (map fst (p_pcs p)) ->
  (spc f (p_pcs (pc_set t l p)) + f (pc_get t p))%nat = (spc f (p_pcs p) + f l)%nat.
Proof.
  intros Hf Hnd. pose proof (spc_adel f t (p_pcs p) Hf Hnd) as H. unfold pc_get.
  unfold pc_set, set_pcs. cbn [p_pcs]. destruct l as [|i l].
  - rewrite Hf. lia.
  - unfold aset, spc in *. cbn [map snd]; rewrite ?ls_cons. lia.
Qed.

Lemma nrel_nil x : nrel x [] = O. Proof. reflexivity. Qed.
Lemma npin_nil x : npin x [] = O. Proof. reflexivity. Qed.

(* every thread's program contributes its own count *)
Lemma spc_ge f t p : (f (pc_get t p) <= spc f (p_pcs p) + f [])%nat.
Proof.
  unfold pc_get. induction (p_pcs p) as [|[k l] pcs IH]; cbn [aget]; [lia|].
  unfold spc in *. cbn [map snd]; rewrite ?ls_cons. destruct (N.eqb_spec t k); lia.
Qed.

(* ---- registered versions *)
Definition contrib (x : name) (v : vobj) : nat := if v_reg v then cnt x (v_names v) else O.
Definition regsum (x : name) (vs : list vobj) : nat := list_sum (map (contrib x) vs).

Lemma regsum_app x a b : regsum x (a ++ b) = (regsum x a + regsum x b)%nat.
Proof. unfold regsum. now rewrite map_app, list_sum_app. Qed.

Lemma regsum_upd x i f vs v : nth_error vs i = Some v ->
  (regsum x (upd_nth i f vs) + contrib x v)%nat = (regsum x vs + contrib x (f v))%nat.
Proof.
  revert i. induction vs as [|w vs IH]; intros [|i] H; cbn in H; try discriminate.
  - injection H as ->. unfold regsum. cbn. lia.
  - specialize (IH i H). unfold regsum in *. cbn [upd_nth map]; rewrite ?ls_cons. lia.
Qed.

Lemma regsum_ge x vs i v : nth_error vs i = Some v -> (contrib x v <= regsum x vs)%nat.
Proof.
  revert i. induction vs as [|w vs IH]; intros [|i] H; cbn in H; try discriminate.
  - injection H as ->. unfold regsum. cbn. lia.
  - specialize (IH i H). unfold regsum in *. cbn [map]; rewrite ?ls_cons. lia.
Qed.

(* ---- handles *)
Definition nh (i : nat) (sn : list (N * nat)) : nat := length (filter (fun e => Nat.eqb (snd e) i) sn).

Lemma nh_cons i h j sn : nh i ((h, j) :: sn) = ((if Nat.eqb j i then 1 else 0) + nh i sn)%nat.
Proof. unfold nh. cbn [filter snd]. destruct (Nat.eqb j i); reflexivity. Qed.

Lemma nh_adel i h sn j : NoDup (map fst sn) -> aget h sn = Some j ->
  (nh i (adel h sn) + (if Nat.eqb j i then 1 else 0))%nat = nh i sn.
Proof.
  intros Hnd. induction sn as [|[k v] sn IH]; cbn [aget adel]; [discriminate|].
  inversion Hnd as [|? ? Hk Hnd']; subst. destruct (N.eqb_spec h k) as [->|Hne].
  - intros [= ->]. rewrite nh_cons.
    assert (E : adel k sn = sn).
    { clear -Hk. induction sn as [|[k2 v2] sn IH]; [reflexivity|]. cbn [adel].
      destruct (N.eqb_spec k k2) as [->|H]; [exfalso; apply Hk; now left|]. f_equal. apply IH. intros H1. apply Hk. now right. }
    rewrite E. lia.
  - intros H. rewrite !nh_cons. specialize (IH Hnd' H). lia.
Qed.

Lemma nh_none i sn : (forall h j, In (h, j) sn -> j <> i) -> nh i sn = O.
Proof.
  intros H. unfold nh. induction sn as [|[k v] sn IH]; [reflexivity|]. cbn [filter snd].
  destruct (Nat.eqb_spec v i) as [->|Hne]; [exfalso; apply (H k i); [now left|reflexivity]|].
  apply IH. intros h j Hin. apply (H h j). now right.
Qed.

Lemma nh_pos i sn h : aget h sn = Some i -> (1 <= nh i sn)%nat.
Proof.
  induction sn as [|[k v] sn IH]; cbn [aget]; [discriminate|]. rewrite nh_cons.
  destruct (N.eqb_spec h k); [intros [= ->]; rewrite Nat.eqb_refl; lia|intros H; specialize (IH H); lia].
Qed.
