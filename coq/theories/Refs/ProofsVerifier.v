(* Refs/ProofsVerifier.v — what a verifier pass touches: only fragments below the highest numbered
   one, and only trash entries that its own manifest lists, each of which the fragment named by
   'M' recorded (a removed setsum, or the 'L' of one of its edits). *)
From Coq Require Import NArith List Bool Lia Arith Sorted.
From Blue Require Import Refs.Model Refs.Spec Refs.ProofsBase Refs.ProofsMani Refs.ProofsInvM.
Import ListNotations.
Open Scope N_scope.

Arguments N.eqb : simpl never.
Arguments N.ltb : simpl never.

(* ---- what a fragment records *)
Definition records (f : list edit) (t : tent) : Prop :=
  match t with
  | TSst x => exists e, In e f /\ In x (e_rm e)
  | TLog n => exists e, In e (tl f) /\ e_log e = Some n
  end.

Lemma v1_ssts_recorded f : forall x, In x (v1_ssts f) -> exists e, In e f /\ In x (e_rm e).
Proof.
  unfold v1_ssts.
  assert (G : forall es acc x, In x (fold_left v1_edit es acc) -> In x acc \/ exists e, In e es /\ In x (e_rm e)).
  { induction es as [|e es IH]; intros acc x Hx; cbn [fold_left] in Hx; [now left|].
    destruct (IH _ _ Hx) as [H|[e' [H1 H2]]].
    - unfold v1_edit in H. apply dels_In in H. destruct H as [H _]. apply in_app_iff in H.
      destruct H as [H|H]; [now left|right; exists e; split; [now left|assumption]].
    - right. exists e'. split; [now right|assumption]. }
  intros x Hx. destruct (G f [] x Hx) as [[]|H]; exact H.
Qed.

Lemma v1_logs_recorded f n : In n (v1_logs f) -> exists e, In e (tl f) /\ e_log e = Some n.
Proof.
  unfold v1_logs. intros H. apply in_flat_map in H. destruct H as [e [H1 H2]]. exists e. split; [assumption|].
  destruct (e_log e); [destruct H2 as [<-|[]]; reflexivity|destruct H2].
Qed.

Lemma tent_insert_In t l u : In u (tent_insert t l) -> u = t \/ In u l.
Proof.
  induction l as [|w l IH]; cbn [tent_insert]; [intros [<-|[]]; now left|].
  destruct (tent_eqb t w); [now right|]. destruct (tent_ltb t w).
  - intros [<-|H]; [now left|now right].
  - intros [<-|H]; [right; now left|]. destruct (IH H) as [->|H']; [now left|right; now right].
Qed.

Lemma tent_sort_In l u : In u (tent_sort l) -> In u l.
Proof.
  unfold tent_sort.
  assert (G : forall l acc, In u (fold_left (fun a t => tent_insert t a) l acc) -> In u l \/ In u acc).
  { induction l0 as [|t l0 IH]; intros acc H; cbn [fold_left] in H; [now right|].
    destruct (IH _ H) as [H1|H1]; [left; now right|]. destruct (tent_insert_In _ _ _ H1) as [->|H2]; [left; now left|now right]. }
  intros H. destruct (G l [] H) as [H1|[]]; exact H1.
Qed.

Lemma intent_recorded n f d t : In t (intent n f d) -> records f t.
Proof.
  unfold intent. intros H. apply in_app_iff in H. destruct H as [H|H]; apply in_map_iff in H; destruct H as [y [<- Hy]]; cbn [records].
  - apply dels_In in Hy. apply v1_ssts_recorded. tauto.
  - now apply v1_logs_recorded.
Qed.

(* ---- the verifier's own invariant *)
Definition is_unlink (i : vinstr) : Prop := match i with VUnlinkFrag _ | VUnlinkTrash _ => True | _ => False end.

Definition unlinks_listed (fs : fsys) (pc : list vinstr) : Prop :=
  forall a t b, pc = a ++ VUnlinkTrash t :: b -> Forall is_unlink a /\ In t (vs_strs (f_vs fs)).

Definition listed_recorded (s : sys) : Prop :=
  forall t, In t (vs_strs (f_vs (s_fs s))) ->
    exists m f, vs_m (f_vs (s_fs s)) = Some m /\ In (m, f) (s_frags s) /\ records f t.

Definition InvV (s : sys) : Prop :=
  listed_recorded s /\ forall vp, s_v s = Some vp -> unlinks_listed (s_fs s) (vp_pc vp).

Lemma unlinks_listed_nil fs : unlinks_listed fs [].
Proof. intros a t b E. destruct a; discriminate. Qed.

Lemma unlinks_listed_starts fs l : unlinks_listed fs (map VStartEntry l).
Proof.
  intros a t b E. exfalso. assert (H : In (VUnlinkTrash t) (map VStartEntry l)) by (rewrite E; apply in_or_app; right; now left).
  apply in_map_iff in H. destruct H as [x [H _]]. discriminate.
Qed.

Lemma unlinks_listed_tail fs i pc : unlinks_listed fs (i :: pc) -> is_unlink i -> unlinks_listed fs pc.
Proof.
  intros H Hi a t b E. destruct (H (i :: a) t b) as [H1 H2]; [now rewrite E|]. split; [now inversion H1|assumption].
Qed.

Lemma unlinks_listed_after fs i pc : unlinks_listed fs (i :: pc) -> ~ is_unlink i -> forall t, ~ In (VUnlinkTrash t) pc.
Proof.
  intros H Hi t Hin. apply in_split in Hin. destruct Hin as [a [b E]].
  destruct (H (i :: a) t b) as [H1 _]; [now rewrite E|]. inversion H1. contradiction.
Qed.

(* unlink the current list, then something that is not an unlink, then instructions without unlinks *)
Lemma unlinks_listed_batch fs pre strs mid rest :
  Forall is_unlink pre -> (forall t, ~ In (VUnlinkTrash t) pre) ->
  (forall t, In t strs -> In t (vs_strs (f_vs fs))) ->
  (forall t, ~ In (VUnlinkTrash t) (mid ++ rest)) ->
  unlinks_listed fs (pre ++ map VUnlinkTrash strs ++ mid ++ rest).
Proof.
  intros Hpre Hpre2 Hstrs Hrest a t b E.
  apply app_eq_app in E. destruct E as [l [[E1 E2]|[E1 E2]]].
  - (* inside pre *)
    destruct l as [|j l].
    + rewrite app_nil_r in E1. subst a. cbn [app] in E2.
      (* the first unlink of the batch *)
      destruct strs as [|t0 strs]; cbn [map app] in E2.
      * exfalso. apply (Hrest t). rewrite <- E2. now left.
      * injection E2 as <- _. split; [assumption|]. apply Hstrs. now left.
    + cbn [app] in E2. injection E2 as <- _. exfalso. apply (Hpre2 t). rewrite E1. apply in_or_app. right. now left.
  - subst a. apply app_eq_app in E2. destruct E2 as [l2 [[F1 F2]|[F1 F2]]].
    + destruct l2 as [|j l2].
      * rewrite app_nil_r in F1. subst l. cbn [app] in F2. exfalso. apply (Hrest t). rewrite <- F2. now left.
      * cbn [app] in F2. injection F2 as <- _.
        assert (Hin : In (VUnlinkTrash t) (map VUnlinkTrash strs)) by (rewrite F1; apply in_or_app; right; now left).
        apply in_map_iff in Hin. destruct Hin as [t' [[= ->] Ht']]. split; [|now apply Hstrs].
        apply Forall_app. split; [assumption|].
        assert (Hl : Forall is_unlink (map VUnlinkTrash strs)) by (clear; induction strs; constructor; [exact I|assumption]).
        rewrite F1 in Hl. apply Forall_app in Hl. tauto.
    + exfalso. apply (Hrest t). rewrite F2. apply in_or_app. right. now left.
Qed.

Lemma vexec_InvV s i rest ok fs' pc' :
  InvV s -> s_v s = Some (mkVp (i :: rest)) -> MdInv (s_fs s) (s_frags s) (s_v s) ->
  vexec i ok rest (s_fs s) = (fs', pc') ->
  InvV (upd_v (upd_fs s fs') (Some (mkVp pc'))).
Proof.
  intros [HL HU] Ev HM Ex. specialize (HU _ Ev). cbn [vp_pc] in HU.
  unfold InvV, listed_recorded. cbn [s_fs s_v s_frags upd_v upd_fs].
  assert (Keep : f_vs fs' = f_vs (s_fs s) -> unlinks_listed (s_fs s) pc' ->
                 (forall t, In t (vs_strs (f_vs fs')) -> exists m f, vs_m (f_vs fs') = Some m /\ In (m, f) (s_frags s) /\ records f t) /\
                 (forall vp, Some (mkVp pc') = Some vp -> unlinks_listed fs' (vp_pc vp))).
  { intros E H. split; [rewrite E; exact HL|]. intros vp [= <-]. cbn [vp_pc]. intros a t b Es. rewrite E. exact (H a t b Es). }
  destruct i as [n|n|t| |n]; cbn [vexec] in Ex.
  - (* VStartEntry *)
    assert (Hrest : forall t, ~ In (VUnlinkTrash t) rest) by (apply (unlinks_listed_after _ _ _ HU); intros []).
    destruct (vs_m (f_vs (s_fs s))) as [old|] eqn:Em.
    + destruct (n <? old); injection Ex as <- <-; apply Keep; try reflexivity; [apply unlinks_listed_nil|].
      apply (unlinks_listed_batch (s_fs s) (if old =? n then [VUnlinkFrag n] else []) (vs_strs (f_vs (s_fs s))) [VClear; VDecide n] rest).
      * destruct (old =? n); repeat constructor.
      * intros t. destruct (old =? n); [intros [H|[]]; discriminate|intros []].
      * auto.
      * intros t [H|[H|H]]; try discriminate. exact (Hrest t H).
    + injection Ex as <- <-. apply Keep; [reflexivity|]. intros a t b E. destruct a as [|j a]; [discriminate|].
      injection E as _ E. exfalso. apply (Hrest t). rewrite E. apply in_or_app. right. now left.
  - injection Ex as <- <-. apply Keep; [reflexivity|]. apply (unlinks_listed_tail _ _ _ HU). exact I.
  - destruct t as [x|k]; injection Ex as <- <-; (apply Keep; [reflexivity|]); apply (unlinks_listed_tail _ _ _ HU); exact I.
  - (* VClear *)
    injection Ex as <- <-. cbn [set_vs f_vs vs_strs]. split; [intros t []|]. intros vp [= <-]. cbn [vp_pc].
    intros a t b E. exfalso. apply (unlinks_listed_after _ _ _ HU (fun K => K) t). rewrite E. apply in_or_app. right. now left.
  - (* VDecide *)
    assert (Hrest : forall t, ~ In (VUnlinkTrash t) rest) by (apply (unlinks_listed_after _ _ _ HU); intros []).
    assert (Hnone : unlinks_listed (s_fs s) rest).
    { intros a t b E. exfalso. apply (Hrest t). rewrite E. apply in_or_app. right. now left. }
    destruct (match vs_m (f_vs (s_fs s)) with Some old => old =? n | None => false end);
      [injection Ex as <- <-; apply Keep; [reflexivity|exact Hnone]|].
    destruct (is_nil (vs_strs (f_vs (s_fs s)))); cbn [negb] in Ex;
      [|injection Ex as <- <-; apply Keep; [reflexivity|apply unlinks_listed_nil]].
    destruct (frag_find n (f_md (s_fs s))) as [f|] eqn:Ef;
      [|injection Ex as <- <-; apply Keep; [reflexivity|apply unlinks_listed_nil]].
    destruct ok; cbn [negb] in Ex; [|injection Ex as <- <-; apply Keep; [reflexivity|apply unlinks_listed_nil]].
    destruct (forallb (tent_present (s_fs s)) (intent n f (f_md (s_fs s))));
      [|injection Ex as <- <-; apply Keep; [reflexivity|apply unlinks_listed_nil]].
    injection Ex as <- <-. cbn [set_vs f_vs vs_strs vs_m]. split.
    + intros t Ht. exists n, f. split; [reflexivity|split].
      * apply (d_ghost _ _ _ HM). unfold frag_find in Ef. exact (aget_In _ _ _ Ef).
      * apply tent_sort_In in Ht. exact (intent_recorded _ _ _ _ Ht).
    + intros vp [= <-]. cbn [vp_pc].
      apply (unlinks_listed_batch _ [VUnlinkFrag n] (tent_sort (intent n f (f_md (s_fs s)))) [VClear] rest).
      * repeat constructor.
      * intros t [H|[]]. discriminate.
      * cbn [set_vs f_vs vs_strs]. auto.
      * intros t [H|H]; [discriminate|exact (Hrest t H)].
Qed.

(* the store's steps leave the verifier's manifest alone and only add to the ghost list of fragments *)
Lemma store_apply_vs s p e roll s1 p1 : store_apply s p e roll = (s1, p1) ->
  f_vs (s_fs s1) = f_vs (s_fs s) /\ s_v s1 = s_v s /\ (forall fr, In fr (s_frags s) -> In fr (s_frags s1)).
Proof.
  unfold store_apply. destruct (md_apply _ _ _ _ _) as [[[d ms] next] r]. intros [= <- <-]. cbn [s_fs s_v s_frags set_md f_vs].
  repeat split. intros fr H. destruct r; cbn [rollover_ghost]; [apply in_or_app; now left|assumption].
Qed.

Lemma exec_vs t i s p1 s' op' : exec t i s p1 = (s', op') ->
  f_vs (s_fs s') = f_vs (s_fs s) /\ s_v s' = s_v s /\ (forall fr, In fr (s_frags s) -> In fr (s_frags s')).
Proof.
  destruct i as [x|x|oe roll|x|h|h|n| | |x|x roll| | |x|rec tm]; cbn [exec]; intros E.
  - destruct (mem x (f_sst (s_fs s))); injection E as <- <-; repeat split; auto.
  - injection E as <- <-. repeat split; auto.
  - destruct oe as [e|].
    + destruct (store_apply s p1 e roll) as [s1 q] eqn:Es. injection E as <- <-. exact (store_apply_vs _ _ _ _ _ _ Es).
    + injection E as <- <-. repeat split; auto.
  - destruct (rc_dec x (p_refs p1)) as [r last]. injection E as <- <-. destruct last; [unfold to_trash; destruct (mem x (f_sst (s_fs s)))|]; repeat split; auto.
  - destruct (aget h (p_snaps p1)); injection E as <- <-; repeat split; auto.
  - destruct (aget h (p_snaps p1)); injection E as <- <-; repeat split; auto.
  - destruct (log_find n (f_logs (s_fs s))); injection E as <- <-; repeat split; auto.
  - destruct (md_open (f_md (s_fs s))) as [[[d ms] next] r]. injection E as <- <-. cbn [s_fs s_v s_frags set_md f_vs]. repeat split.
    intros fr H. destruct r; cbn [rollover_ghost]; [apply in_or_app; now left|assumption].
  - destruct (is_nil (md_live (f_md (s_fs s)))).
    + destruct (store_apply s p1 (mkEdit [] [] None) false) as [s1 q] eqn:Es. injection E as <- <-. exact (store_apply_vs _ _ _ _ _ _ Es).
    + injection E as <- <-. repeat split; auto.
  - destruct (mem x (f_sst (s_fs s))); injection E as <- <-; repeat split; auto.
  - destruct (mem x (ms_strs (p_ms p1))).
    + injection E as <- <-. repeat split; auto.
    + destruct (store_apply s p1 (mkEdit [] [x] None) roll) as [s1 q] eqn:Es. injection E as <- <-. exact (store_apply_vs _ _ _ _ _ _ Es).
  - destruct (forallb _ _); injection E as <- <-; repeat split; auto.
  - injection E as <- <-. repeat split; auto.
  - destruct (mem x (f_sst (s_fs s)) && negb (mem x (f_trash (s_fs s)))); injection E as <- <-; [unfold to_trash; destruct (mem x (f_sst (s_fs s)))|]; repeat split; auto.
  - injection E as <- <-. repeat split; auto.
Qed.

Lemma InvV_frame s s' : f_vs (s_fs s') = f_vs (s_fs s) -> s_v s' = s_v s ->
  (forall fr, In fr (s_frags s) -> In fr (s_frags s')) -> InvV s -> InvV s'.
Proof.
  intros E1 E2 E3 [HL HU]. split.
  - intros t Ht. rewrite E1 in Ht. destruct (HL t Ht) as [m [f [K1 [K2 K3]]]]. exists m, f. rewrite E1. auto.
  - intros vp Hv. rewrite E2 in Hv. intros a t b E. rewrite E1. exact (HU vp Hv a t b E).
Qed.

Theorem InvV_step s ev : InvM s -> InvV s -> InvV (step s ev).
Proof.
  intros [HM _] HV. destruct ev as [sums rolls tm|t| |x roll|j ins outs roll hold|j|r|r| | |ok| ]; cbn [step].
  - destruct (s_p s); [exact HV|]. match goal with |- InvV (if ?c then _ else _) => destruct c end; [|exact HV].
    apply (InvV_frame s); auto.
  - destruct (s_p s) as [p|]; [|exact HV]. destruct (pc_get t p) as [|i rest]; [exact HV|].
    destruct (negb (p_ready p) && negb (t =? T_MAIN)); [exact HV|].
    destruct (exec t i s (pc_set t rest p)) as [s1 op] eqn:Ee. destruct (exec_vs _ _ _ _ _ _ Ee) as [K1 [K2 K3]].
    apply (InvV_frame s); auto.
  - destruct (s_p s) as [p|]; [|exact HV]. destruct (p_ready p); [|exact HV]. apply (InvV_frame s); auto.
  - destruct (s_p s) as [p|]; [|exact HV]. match goal with |- InvV (if ?c then _ else _) => destruct c end; [|exact HV]. apply (InvV_frame s); auto.
  - destruct (s_p s) as [p|]; [|exact HV]. match goal with |- InvV (if ?c then _ else _) => destruct c end; [|exact HV]. apply (InvV_frame s); auto.
  - destruct (s_p s) as [p|]; [|exact HV]. match goal with |- InvV (if ?c then _ else _) => destruct c end; [|exact HV]. apply (InvV_frame s); auto.
  - destruct (s_p s) as [p|]; [|exact HV]. match goal with |- InvV (if ?c then _ else _) => destruct c end; [|exact HV]. apply (InvV_frame s); auto.
  - destruct (s_p s) as [p|]; [|exact HV]. match goal with |- InvV (if ?c then _ else _) => destruct c end; [|exact HV]. apply (InvV_frame s); auto.
  - apply (InvV_frame s); auto.
  - destruct (s_v s) eqn:Ev; [exact HV|]. destruct HV as [HL HU]. split; [exact HL|].
    intros vp [= <-]. cbn [vp_pc s_fs upd_v]. apply unlinks_listed_starts.
  - destruct (s_v s) as [[pc]|] eqn:Ev; [|exact HV]. cbn [vp_pc]. destruct pc as [|i rest].
    + destruct HV as [HL HU]. split; [exact HL|]. intros vp H. discriminate.
    + destruct (vexec i ok rest (s_fs s)) as [fs' pc'] eqn:Ex. rewrite <- Ev in HM. exact (vexec_InvV s i rest ok fs' pc' HV Ev HM Ex).
  - destruct HV as [HL HU]. split; [exact HL|]. intros vp H. discriminate.
Qed.

Lemma InvV_init : InvV sys0.
Proof. split; [intros t []|discriminate]. Qed.

Theorem InvV_reach evs : InvV (run sys0 evs).
Proof.
  assert (G : forall evs s, InvM s -> InvV s -> InvV (run s evs)).
  { induction evs0 as [|e evs0 IH]; intros s HM HV; cbn [run]; [assumption|]. apply IH; [apply InvM_step, HM|apply InvV_step; assumption]. }
  apply G; [apply InvM_init|apply InvV_init].
Qed.

(* ---- the two statements about one step of a pass *)
Lemma log_remove_has n m ls : log_has m (log_remove n ls) = log_has m ls && negb (m =? n).
Proof.
  unfold log_has, log_remove. induction ls as [|l ls IH]; [reflexivity|]. cbn [filter existsb].
  destruct (N.eqb_spec (l_num l) n) as [E|E]; cbn [negb existsb].
  - rewrite IH. destruct (N.eqb_spec (l_num l) m) as [E2|E2]; cbn [orb]; [|reflexivity].
    destruct (N.eqb_spec m n); [now rewrite andb_false_r|congruence].
  - rewrite IH. destruct (N.eqb_spec (l_num l) m) as [E2|E2]; cbn [orb]; [|reflexivity].
    destruct (N.eqb_spec m n); [congruence|reflexivity].
Qed.

Ltac same_case :=
  match goal with Same : _ -> _ -> (forall x, _ -> _ -> False) /\ _ |- _ =>
    let S1 := fresh in let S2 := fresh in
    destruct (Same eq_refl eq_refl) as [S1 S2]; split;
    [intros ? ?H1 ?H2; destruct (S1 _ H1 H2)|intros ? ?H1 ?H2; destruct (S2 _ H1 H2)]
  end.

Theorem verifier_step_unlinks s ok : InvM s -> InvV s ->
  let s' := step s (EVStep ok) in
  (forall x, In x (f_trash (s_fs s)) -> ~ In x (f_trash (s_fs s')) ->
     In (TSst x) (vs_strs (f_vs (s_fs s))) /\
     exists m f, vs_m (f_vs (s_fs s)) = Some m /\ In (m, f) (s_frags s) /\ exists e, In e f /\ In x (e_rm e)) /\
  (forall n, log_has n (f_tlogs (s_fs s)) = true -> log_has n (f_tlogs (s_fs s')) = false ->
     In (TLog n) (vs_strs (f_vs (s_fs s))) /\
     exists m f, vs_m (f_vs (s_fs s)) = Some m /\ In (m, f) (s_frags s) /\ exists e, In e (tl f) /\ e_log e = Some n).
Proof.
  intros HM [HL HU]. cbn zeta. cbn [step]. destruct (s_v s) as [[pc]|] eqn:Ev; [|split; intros; [contradiction|congruence]].
  cbn [vp_pc]. specialize (HU _ eq_refl). cbn [vp_pc] in HU.
  destruct pc as [|i rest]; [split; cbn [s_fs upd_v]; intros; [contradiction|congruence]|].
  destruct (vexec i ok rest (s_fs s)) as [fs' pc'] eqn:Ex. cbn [s_fs upd_v upd_fs].
  assert (Same : f_trash fs' = f_trash (s_fs s) -> f_tlogs fs' = f_tlogs (s_fs s) ->
           (forall x, In x (f_trash (s_fs s)) -> ~ In x (f_trash fs') -> False) /\
           (forall n, log_has n (f_tlogs (s_fs s)) = true -> log_has n (f_tlogs fs') = false -> False)).
  { intros E1 E2. rewrite E1, E2. split; intros; [contradiction|congruence]. }
  destruct i as [n|n|t| |n]; cbn [vexec] in Ex.
  - destruct (vs_m (f_vs (s_fs s))); [destruct (n <? n0)|]; injection Ex as <- <-; same_case.
  - injection Ex as <- <-. same_case.
  - destruct (HU [] t rest eq_refl) as [_ Hin]. destruct (HL t Hin) as [m [f [K1 [K2 K3]]]].
    destruct t as [x|k]; injection Ex as <- <-; cbn [set_sst set_logs f_trash f_tlogs]; split.
    + intros y Hy Hny. assert (y = x). { destruct (N.eq_dec y x); [assumption|]. exfalso. apply Hny. apply del_In. auto. }
      subst y. split; [exact Hin|]. exists m, f. auto.
    + intros; congruence.
    + intros; contradiction.
    + intros j Hj Hnj. rewrite log_remove_has, Hj in Hnj. cbn [andb] in Hnj. apply negb_false_iff, N.eqb_eq in Hnj. subst j.
      split; [exact Hin|]. exists m, f. auto.
  - injection Ex as <- <-. same_case.
  - destruct (match vs_m (f_vs (s_fs s)) with Some old => old =? n | None => false end); [injection Ex as <- <-; same_case|].
    destruct (is_nil (vs_strs (f_vs (s_fs s)))); cbn [negb] in Ex; [|injection Ex as <- <-; same_case].
    destruct (frag_find n (f_md (s_fs s))); [|injection Ex as <- <-; same_case].
    destruct ok; cbn [negb] in Ex; [|injection Ex as <- <-; same_case].
    destruct (forallb _ _); injection Ex as <- <-; same_case.
Qed.

(* a verifier event never touches what the store reads when it opens, apart from the fragments
   below the highest numbered one and the trash *)
Theorem verifier_event_store_view s ev : InvM s -> verifier_event ev = true -> store_view (step s ev) = store_view s.
Proof.
  intros [HM _] Hev. destruct ev; try discriminate; cbn [step].
  - destruct (s_v s); reflexivity.
  - destruct (s_v s) as [[pc]|] eqn:Ev; [|reflexivity]. cbn [vp_pc]. destruct pc as [|i rest]; [reflexivity|].
    destruct (vexec i ok rest (s_fs s)) as [fs' pc'] eqn:Ex.
    destruct (vexec_inv _ _ _ _ _ _ _ HM Ex) as [_ [K2 [K3 [K4 K5]]]].
    unfold store_view. cbn [s_fs s_p upd_v upd_fs]. now rewrite K2, K3, K4, K5.
  - reflexivity.
Qed.
