(* Refs/ProofsInvR.v — the reference-count invariant: every count equals what the registered
   versions and the pending releases / pins account for, a counted sst is in sst/, the version a
   handle names is counted, and the manifest never lists an sst that is not in sst/. *)
From Coq Require Import NArith List Bool Lia Arith Sorted.
From Blue Require Import Refs.Model Refs.ProofsBase Refs.ProofsMani Refs.ProofsInvM Refs.ProofsCount.
Import ListNotations.
Open Scope N_scope.

Arguments N.eqb : simpl never.
Arguments N.ltb : simpl never.
Arguments N.leb : simpl never.

(* ---------------------------------------------------------------- shapes of the threads' programs *)
Definition rank (i : instr) : nat :=
  match i with
  | IManiOpen => 0 | IInitEdit => 1
  | ILinkIfAbsent _ | IApplyIfAbsent _ _ | IRenameLog _ => 2
  | IFromManifest => 3 | IOrphans => 4 | IOrphan _ => 5 | INewLog _ _ => 6
  | _ => 9
  end%nat.
Definition rk_rel (a b : instr) : Prop :=
  (rank a < rank b)%nat \/ (rank a = rank b /\ (rank a = 2 \/ rank a = 5)%nat).

Definition worker_instr (i : instr) : Prop :=
  match i with IPinLink _ | ICommit _ _ | IRelease _ | ITake _ | IDropSnap _ => True | _ => False end.
Definition balanced (pc : list instr) : Prop :=
  forall a b, pc = a ++ b -> forall x, (npin x b <= nrel x b)%nat.
Definition commit_ok (pc : list instr) : Prop :=
  forall a e r b, pc = a ++ ICommit (Some e) r :: b ->
    (forall x, In x (e_add e) -> (1 <= nrel x b)%nat) /\ (forall x, npin x b = O).
Definition worker_ok (pc : list instr) : Prop := Forall worker_instr pc /\ balanced pc /\ commit_ok pc.

Definition rel_or_rename (i : instr) : Prop := match i with IRelease _ | IRenameLog _ => True | _ => False end.

Definition quiet (x : name) (p : proc) : Prop :=
  regsum x (p_vers p) = O /\ spc (nrel x) (p_pcs p) = O /\ spc (npin x) (p_pcs p) = O.

Definition flush_ok (p : proc) (fs : fsys) : Prop :=
  let pc := pc_get T_FLUSH p in
  (exists x L r n, pc = [ILinkExcl x; ICommit (Some (mkEdit [] [x] L)) r; IRenameLog n] /\
                   spc (npin x) (p_pcs p) = O)
  \/ (exists x L r n, pc = [ICommit (Some (mkEdit [] [x] L)) r; IRenameLog n] /\ In x (f_sst fs) /\ quiet x p)
  \/ Forall rel_or_rename pc.

Record main_ok (p : proc) (fs : fsys) : Prop := mkMainOk {
  mo_sorted : StronglySorted rk_rel (main_pc p);
  mo_rank : Forall (fun i => (rank i <= 6)%nat) (main_pc p);
  mo_link : forall a x r b, main_pc p = a ++ IApplyIfAbsent x r :: b -> In (ILinkIfAbsent x) a \/ In x (f_sst fs);
  mo_orphan : forall x, In (IOrphan x) (main_pc p) -> ~ In x (ms_strs (p_ms p));
  mo_phase : (In IFromManifest (main_pc p) /\ p_vers p = [] /\ p_refs p = [] /\ p_snaps p = [] /\
              forall x, ~ In (IOrphan x) (main_pc p))
             \/ (p_vers p <> [] /\ Forall (fun i => (4 <= rank i)%nat) (main_pc p));
  mo_counted : main_pc p <> [] -> p_vers p <> [] ->
               forall y, (1 <= rc_get y (p_refs p))%nat -> In y (ms_strs (p_ms p))
}.

Record RInv (p : proc) (fs : fsys) : Prop := mkRInv {
  r_wf : rc_wf (p_refs p);
  r_keys : NoDup (map fst (p_pcs p));
  r_skeys : NoDup (map fst (p_snaps p));
  r_bal : forall x, (rc_get x (p_refs p) + spc (npin x) (p_pcs p) = regsum x (p_vers p) + spc (nrel x) (p_pcs p))%nat;
  r_sst : forall x, (1 <= rc_get x (p_refs p))%nat -> In x (f_sst fs);
  r_strong : forall i v, nth_error (p_vers p) i = Some v ->
             v_strong v = ((if Nat.eqb i (p_cur p) then 1 else 0) + nh i (p_snaps p))%nat;
  r_hvalid : forall h i, In (h, i) (p_snaps p) -> (i < length (p_vers p))%nat;
  r_cur : p_vers p <> [] -> (p_cur p < length (p_vers p))%nat;
  r_reg : forall i v, nth_error (p_vers p) i = Some v -> (0 < v_strong v)%nat -> v_reg v = true;
  r_strs : p_vers p <> [] -> forall x, In x (ms_strs (p_ms p)) -> In x (names_of p (p_cur p));
  r_main : main_ok p fs;
  r_flush : flush_ok p fs;
  r_work : forall t, t <> T_MAIN -> t <> T_FLUSH -> worker_ok (pc_get t p)
}.

Definition GInv (s : sys) : Prop := forall x, In x (live_strs s) -> In x (f_sst (s_fs s)).
Definition InvR (s : sys) : Prop := GInv s /\ forall p, s_p s = Some p -> RInv p (s_fs s).

(* ---------------------------------------------------------------- closure properties of the shapes *)
Lemma balanced_nil : balanced [].
Proof. intros a b E x. destruct a; destruct b; try discriminate. cbn. lia. Qed.

Lemma balanced_tail i pc : balanced (i :: pc) -> balanced pc.
Proof. intros H a b E x. apply (H (i :: a) b). now rewrite E. Qed.

Lemma balanced_whole pc x : balanced pc -> (npin x pc <= nrel x pc)%nat.
Proof. intros H. exact (H [] pc eq_refl x). Qed.

Lemma balanced_push_releases l pc : balanced pc -> balanced (map IRelease l ++ pc).
Proof.
  intros H. induction l as [|y l IH]; [assumption|]. cbn [map app].
  intros a b E x. destruct a as [|j a]; cbn [app] in E.
  - subst b. rewrite npin_cons, nrel_cons. cbn [is_pin]. pose proof (balanced_whole _ x IH). lia.
  - injection E as _ E. exact (IH a b E x).
Qed.

Lemma balanced_no_pins pc : (forall x, npin x pc = O) -> balanced pc.
Proof.
  intros H a b E x. subst pc. specialize (H x). rewrite npin_app in H. lia.
Qed.

Lemma commit_ok_nil : commit_ok [].
Proof. intros a e r b E. destruct a; discriminate. Qed.

Lemma commit_ok_tail i pc : commit_ok (i :: pc) -> commit_ok pc.
Proof. intros H a e r b E. apply (H (i :: a) e r b). now rewrite E. Qed.

Lemma commit_ok_push pre pc : commit_ok pc -> (forall e r, ~ In (ICommit (Some e) r) pre) -> commit_ok (pre ++ pc).
Proof.
  intros H Hpre. induction pre as [|j pre IH]; [assumption|].
  intros a e r b E. destruct a as [|k a]; cbn [app] in E.
  - injection E as -> _. exfalso. apply (Hpre e r). now left.
  - injection E as _ E. apply (IH (fun e r Hin => Hpre e r (or_intror Hin)) a e r b E).
Qed.

Lemma no_commit_releases l e r : ~ In (ICommit (Some e) r) (map IRelease l).
Proof. rewrite in_map_iff. intros [y [H _]]. discriminate. Qed.

Lemma worker_releases l : Forall worker_instr (map IRelease l).
Proof. induction l; constructor; [exact I|assumption]. Qed.

Lemma worker_ok_nil : worker_ok [].
Proof. split; [constructor|split; [apply balanced_nil|apply commit_ok_nil]]. Qed.

Lemma worker_ok_tail i pc : worker_ok (i :: pc) -> worker_ok pc.
Proof.
  intros [H1 [H2 H3]]. split; [now inversion H1|split; [eapply balanced_tail; eauto|eapply commit_ok_tail; eauto]].
Qed.

Lemma worker_ok_push l pc : worker_ok pc -> worker_ok (map IRelease l ++ pc).
Proof.
  intros [H1 [H2 H3]]. split; [|split].
  - apply Forall_app. split; [apply worker_releases|assumption].
  - now apply balanced_push_releases.
  - apply commit_ok_push; [assumption|intros e r; apply no_commit_releases].
Qed.

Lemma worker_ok_releases l : worker_ok (map IRelease l).
Proof. rewrite <- (app_nil_r (map IRelease l)). apply worker_ok_push, worker_ok_nil. Qed.

(* the program of a merging compaction *)
Lemma worker_ok_compaction (hc : N) ins outs roll (hold : bool) :
  worker_ok ((if hold then [ITake hc] else [])
             ++ map IPinLink outs ++ [ICommit (Some (mkEdit ins outs None)) roll]
             ++ map IRelease outs ++ (if hold then [IDropSnap hc] else [])).
Proof.
  set (post := if hold then [IDropSnap hc] else []).
  assert (Hpost_r : forall x, nrel x post = O) by (intros x; subst post; destruct hold; reflexivity).
  assert (Hpost_p : forall x, npin x post = O) by (intros x; subst post; destruct hold; reflexivity).
  assert (Hw_post : Forall worker_instr post) by (subst post; destruct hold; repeat constructor).
  set (tailp := map IRelease outs ++ post).
  assert (Ht_p : forall x, npin x tailp = O).
  { intros x. subst tailp. now rewrite npin_app, npin_releases, Hpost_p. }
  assert (Ht_r : forall x, nrel x tailp = cnt x outs).
  { intros x. subst tailp. rewrite nrel_app, nrel_releases, Hpost_r. lia. }
  (* suffixes of pins ++ commit :: tail *)
  assert (Hbal : forall ps, (forall x, cnt x ps <= cnt x outs)%nat ->
                   balanced (map IPinLink ps ++ ICommit (Some (mkEdit ins outs None)) roll :: tailp)).
  { induction ps as [|y ps IH]; intros Hle.
    - cbn [map app]. intros a b E x. destruct a as [|j a]; cbn [app] in E.
      + subst b. rewrite npin_cons, nrel_cons. cbn [is_pin is_rel]. rewrite Ht_p. lia.
      + injection E as _ E. apply (balanced_no_pins tailp Ht_p a b E).
    - cbn [map app]. intros a b E x. destruct a as [|j a]; cbn [app] in E.
      + subst b. rewrite npin_cons, nrel_cons, npin_app, nrel_app, npin_pins, nrel_pins. cbn [is_pin is_rel].
        rewrite !npin_cons, !nrel_cons. cbn [is_pin is_rel]. rewrite Ht_p, Ht_r.
        specialize (Hle x). unfold cnt in *. cbn [count_occ] in Hle.
        destruct (N.eq_dec y x) as [->|Hne]; [rewrite N.eqb_refl|destruct (N.eqb_spec x y); [congruence|]]; lia.
      + injection E as _ E. apply (IH (fun z => ltac:(specialize (Hle z); unfold cnt in *; cbn [count_occ] in Hle; destruct (N.eq_dec y z); lia)) a b E). }
  assert (Hcom : commit_ok (map IPinLink outs ++ ICommit (Some (mkEdit ins outs None)) roll :: tailp)).
  { intros a e r b E.
    assert (G : forall ps a, map IPinLink ps ++ ICommit (Some (mkEdit ins outs None)) roll :: tailp = a ++ ICommit (Some e) r :: b ->
                  e = mkEdit ins outs None /\ b = tailp).
    { induction ps as [|y ps IH]; intros a0 E0; cbn [map app] in E0.
      - destruct a0 as [|j a0]; cbn [app] in E0; [now injection E0 as <- _ <-|].
        injection E0 as _ E0. exfalso. subst tailp post.
        assert (K : In (ICommit (Some e) r) (map IRelease outs ++ (if hold then [IDropSnap hc] else []))).
        { rewrite E0. apply in_or_app. right. now left. }
        apply in_app_iff in K. destruct K as [K|K]; [exact (no_commit_releases _ _ _ K)|destruct hold; [destruct K as [K|[]]; discriminate|destruct K]].
      - destruct a0 as [|j a0]; cbn [app] in E0; [discriminate|]. injection E0 as _ E0. exact (IH a0 E0). }
    destruct (G outs a E) as [-> ->]. split; [|exact Ht_p].
    intros x Hx. cbn [e_add] in Hx. rewrite Ht_r. now apply cnt_pos. }
  replace (map IPinLink outs ++ [ICommit (Some (mkEdit ins outs None)) roll] ++ map IRelease outs ++ post)
    with (map IPinLink outs ++ ICommit (Some (mkEdit ins outs None)) roll :: tailp) by reflexivity.
  assert (Hw : Forall worker_instr (map IPinLink outs ++ ICommit (Some (mkEdit ins outs None)) roll :: tailp)).
  { apply Forall_app. split; [clear; induction outs; constructor; [exact I|assumption]|].
    constructor; [exact I|]. subst tailp. apply Forall_app. split; [apply worker_releases|assumption]. }
  destruct hold; cbn [app].
  - split; [constructor; [exact I|exact Hw]|split].
    + intros a b E x. destruct a as [|j a]; cbn [app] in E.
      * subst b. rewrite npin_cons, nrel_cons. cbn [is_pin is_rel]. exact (balanced_whole _ x (Hbal outs (fun z => le_n _))).
      * injection E as _ E. exact (Hbal outs (fun z => le_n _) a b E x).
    + apply (commit_ok_push [ITake hc]); [exact Hcom|intros e r [K|[]]; discriminate].
  - split; [exact Hw|split; [exact (Hbal outs (fun z => le_n _))|exact Hcom]].
Qed.

(* ---------------------------------------------------------------- sums over balanced threads *)
Lemma spc_le f g pcs : (forall k l, In (k, l) pcs -> (f l <= g l)%nat) -> (spc f pcs <= spc g pcs)%nat.
Proof.
  induction pcs as [|[k l] pcs IH]; intros H; unfold spc in *; cbn [map snd]; rewrite ?ls_cons; [cbn; lia|].
  specialize (H k l (or_introl eq_refl)) as H1. specialize (IH (fun k' l' Hin => H k' l' (or_intror Hin))). lia.
Qed.

Lemma aget_of_In {A} k (v : A) l : NoDup (map fst l) -> In (k, v) l -> aget k l = Some v.
Proof.
  intros Hnd. induction l as [|[k2 v2] l IH]; [intros []|]. inversion Hnd as [|? ? Hk Hnd']; subst. cbn [aget].
  intros [[= -> ->]|Hin]; [now rewrite N.eqb_refl|].
  destruct (N.eqb_spec k k2) as [->|Hne]; [exfalso; apply Hk; apply in_map_iff; exists (k2, v); auto|auto].
Qed.

Lemma spc_diff f g t d p : f [] = O -> g [] = O -> NoDup (map fst (p_pcs p)) ->
  (forall k l, In (k, l) (p_pcs p) -> (f l <= g l)%nat) ->
  (f (pc_get t p) + d <= g (pc_get t p))%nat -> (spc f (p_pcs p) + d <= spc g (p_pcs p))%nat.
Proof.
  intros Hf Hg Hnd Hall Ht.
  pose proof (spc_set f t [] p Hf Hnd) as E1. pose proof (spc_set g t [] p Hg Hnd) as E2. rewrite Hf in E1. rewrite Hg in E2.
  assert (Hle : (spc f (p_pcs (pc_set t [] p)) <= spc g (p_pcs (pc_set t [] p)))%nat).
  { apply spc_le. intros k l Hin. unfold pc_set, set_pcs in Hin. cbn [p_pcs] in Hin. apply adel_In in Hin. apply (Hall k l). tauto. }
  lia.
Qed.

Lemma pcs_entry p k l : NoDup (map fst (p_pcs p)) -> In (k, l) (p_pcs p) -> pc_get k p = l.
Proof. intros Hnd Hin. unfold pc_get. now rewrite (aget_of_In k l _ Hnd Hin). Qed.

(* ---------------------------------------------------------------- consequences of the invariant *)
Lemma rank_no_pin_rel pc : Forall (fun i => (rank i <= 6)%nat) pc -> forall x, npin x pc = O /\ nrel x pc = O.
Proof.
  intros H x. induction pc as [|i pc IH]; [split; reflexivity|]. inversion H as [|? ? Hi Hpc]; subst.
  destruct (IH Hpc) as [I1 I2]. rewrite npin_cons, nrel_cons, I1, I2.
  destruct i; cbn [rank] in Hi; try lia; cbn [is_pin is_rel]; split; reflexivity.
Qed.

Lemma rel_or_rename_no_pin pc : Forall rel_or_rename pc -> forall x, npin x pc = O.
Proof.
  intros H x. induction pc as [|i pc IH]; [reflexivity|]. inversion H as [|? ? Hi Hpc]; subst.
  rewrite npin_cons, (IH Hpc). destruct i; cbn in Hi; try contradiction; reflexivity.
Qed.

Lemma flush_pc_balanced p fs : flush_ok p fs -> balanced (pc_get T_FLUSH p).
Proof.
  intros [[x [L [r [n [E _]]]]]|[[x [L [r [n [E _]]]]]|H]]; [rewrite E|rewrite E|].
  - apply balanced_no_pins. intros y. reflexivity.
  - apply balanced_no_pins. intros y. reflexivity.
  - apply balanced_no_pins. now apply rel_or_rename_no_pin.
Qed.

Lemma all_balanced p fs t : RInv p fs -> balanced (pc_get t p).
Proof.
  intros R. destruct (N.eq_dec t T_MAIN) as [->|Hm].
  - apply balanced_no_pins. intros x. apply (rank_no_pin_rel _ (mo_rank _ _ (r_main _ _ R)) x).
  - destruct (N.eq_dec t T_FLUSH) as [->|Hf]; [exact (flush_pc_balanced _ _ (r_flush _ _ R))|].
    exact (proj1 (proj2 (r_work _ _ R t Hm Hf))).
Qed.

Lemma entries_balanced p fs x : RInv p fs -> forall k l, In (k, l) (p_pcs p) -> (npin x l <= nrel x l)%nat.
Proof.
  intros R k l Hin. rewrite <- (pcs_entry p k l (r_keys _ _ R) Hin). apply balanced_whole. exact (all_balanced p fs k R).
Qed.

Lemma rc_ge_regsum p fs x : RInv p fs -> (regsum x (p_vers p) <= rc_get x (p_refs p))%nat.
Proof.
  intros R. pose proof (r_bal _ _ R x) as B.
  pose proof (spc_le (npin x) (nrel x) (p_pcs p) (entries_balanced p fs x R)). lia.
Qed.

(* a thread about to release x: x is counted *)
Lemma rc_pos_at_release p fs t x rest : RInv p fs -> pc_get t p = IRelease x :: rest ->
  (regsum x (p_vers p) + 1 <= rc_get x (p_refs p))%nat.
Proof.
  intros R E. pose proof (r_bal _ _ R x) as B.
  assert (H : (spc (npin x) (p_pcs p) + 1 <= spc (nrel x) (p_pcs p))%nat).
  { apply (spc_diff _ _ t 1 p (npin_nil x) (nrel_nil x) (r_keys _ _ R) (entries_balanced p fs x R)).
    rewrite E, npin_cons, nrel_cons. cbn [is_pin is_rel]. rewrite N.eqb_refl.
    pose proof (all_balanced p fs t R) as Hb. rewrite E in Hb. pose proof (balanced_whole _ x (balanced_tail _ _ Hb)). lia. }
  lia.
Qed.

Lemma cur_registered p fs : RInv p fs -> p_vers p <> [] ->
  exists v, nth_error (p_vers p) (p_cur p) = Some v /\ v_reg v = true /\ (1 <= v_strong v)%nat.
Proof.
  intros R Hne. pose proof (r_cur _ _ R Hne) as Hc. destruct (nth_error (p_vers p) (p_cur p)) as [v|] eqn:E.
  - exists v. pose proof (r_strong _ _ R _ _ E) as Hs. rewrite Nat.eqb_refl in Hs.
    split; [reflexivity|split; [apply (r_reg _ _ R _ _ E); lia|lia]].
  - apply nth_error_None in E. lia.
Qed.

Lemma registered_in_sst p fs i v x : RInv p fs -> nth_error (p_vers p) i = Some v -> v_reg v = true ->
  In x (v_names v) -> In x (f_sst fs).
Proof.
  intros R E Hr Hx. apply (r_sst _ _ R). pose proof (rc_ge_regsum p fs x R). pose proof (regsum_ge x _ _ _ E) as H1.
  unfold contrib in H1. rewrite Hr in H1. apply cnt_pos in Hx. lia.
Qed.

Lemma cur_names_in_sst p fs x : RInv p fs -> p_vers p <> [] -> In x (names_of p (p_cur p)) -> In x (f_sst fs).
Proof.
  intros R Hne Hx. destruct (cur_registered p fs R Hne) as [v [E [Hr _]]]. unfold names_of in Hx. rewrite E in Hx.
  exact (registered_in_sst p fs _ v x R E Hr Hx).
Qed.

(* a held handle keeps every sst of its version in place *)
Lemma handle_names_in_sst p fs h i x : RInv p fs -> aget h (p_snaps p) = Some i -> In x (names_of p i) -> In x (f_sst fs).
Proof.
  intros R Hh Hx. pose proof (r_hvalid _ _ R h i (aget_In _ _ _ Hh)) as Hlt.
  destruct (nth_error (p_vers p) i) as [v|] eqn:E; [|apply nth_error_None in E; lia].
  unfold names_of in Hx. rewrite E in Hx.
  pose proof (r_strong _ _ R _ _ E) as Hs. pose proof (nh_pos i _ h Hh) as Hn.
  assert (Hr : v_reg v = true) by (apply (r_reg _ _ R _ _ E); lia).
  exact (registered_in_sst p fs i v x R E Hr Hx).
Qed.

(* ---------------------------------------------------------------- taking the head instruction off *)
Lemma pop_facts p t i rest : NoDup (map fst (p_pcs p)) -> pc_get t p = i :: rest ->
  NoDup (map fst (p_pcs (pc_set t rest p))) /\
  (forall t', pc_get t' (pc_set t rest p) = if t' =? t then rest else pc_get t' p) /\
  (forall x, (spc (nrel x) (p_pcs (pc_set t rest p)) + (if is_rel x i then 1 else 0) = spc (nrel x) (p_pcs p))%nat) /\
  (forall x, (spc (npin x) (p_pcs (pc_set t rest p)) + (if is_pin x i then 1 else 0) = spc (npin x) (p_pcs p))%nat).
Proof.
  intros Hnd E. split; [now apply pc_set_keys|split; [|split]].
  - intros t'. destruct (N.eqb_spec t' t) as [->|Hne]; [apply pc_get_set_same|now apply pc_get_set_other].
  - intros x. pose proof (spc_set (nrel x) t rest p (nrel_nil x) Hnd) as H. rewrite E, nrel_cons in H. lia.
  - intros x. pose proof (spc_set (npin x) t rest p (npin_nil x) Hnd) as H. rewrite E, npin_cons in H. lia.
Qed.

(* pushing instructions in front of a thread's program *)
Lemma push_facts p t pre : NoDup (map fst (p_pcs p)) ->
  let p' := pc_set t (pre ++ pc_get t p) p in
  NoDup (map fst (p_pcs p')) /\
  (forall t', pc_get t' p' = if t' =? t then pre ++ pc_get t p else pc_get t' p) /\
  (forall x, spc (nrel x) (p_pcs p') = (spc (nrel x) (p_pcs p) + nrel x pre)%nat) /\
  (forall x, spc (npin x) (p_pcs p') = (spc (npin x) (p_pcs p) + npin x pre)%nat).
Proof.
  intros Hnd. cbn zeta. split; [now apply pc_set_keys|split; [|split]].
  - intros t'. destruct (N.eqb_spec t' t) as [->|Hne]; [apply pc_get_set_same|now apply pc_get_set_other].
  - intros x. pose proof (spc_set (nrel x) t (pre ++ pc_get t p) p (nrel_nil x) Hnd) as H. rewrite nrel_app in H. lia.
  - intros x. pose proof (spc_set (npin x) t (pre ++ pc_get t p) p (npin_nil x) Hnd) as H. rewrite npin_app in H. lia.
Qed.

Lemma spc_zero f pcs : (forall k l, In (k, l) pcs -> f l = O) -> spc f pcs = O.
Proof.
  induction pcs as [|[k l] pcs IH]; intros H; unfold spc in *; cbn [map snd]; [reflexivity|]. rewrite ls_cons.
  rewrite (H k l (or_introl eq_refl)), (IH (fun k' l' Hin => H k' l' (or_intror Hin))). reflexivity.
Qed.

Lemma main_ok_idle p fs : main_pc p = [] -> p_vers p <> [] -> main_ok p fs.
Proof.
  intros E Hv. split; rewrite ?E.
  - constructor.
  - constructor.
  - intros a x r b H. destruct a; discriminate.
  - intros x [].
  - right. split; [assumption|constructor].
  - congruence.
Qed.

Lemma flush_ok_idle p fs : pc_get T_FLUSH p = [] -> flush_ok p fs.
Proof. intros E. right. right. rewrite E. constructor. Qed.

Lemma flush_ok_other p fs p' fs' :
  flush_ok p fs -> pc_get T_FLUSH p' = pc_get T_FLUSH p ->
  (forall x, spc (npin x) (p_pcs p) = O -> spc (npin x) (p_pcs p') = O) ->
  (forall x, quiet x p -> In x (f_sst fs) -> quiet x p' /\ In x (f_sst fs')) ->
  flush_ok p' fs'.
Proof.
  intros [[x [L [r [n [E H]]]]]|[[x [L [r [n [E [H1 H2]]]]]]|H]] Epc Hpin Hq; unfold flush_ok; rewrite Epc.
  - left. exists x, L, r, n. split; [assumption|auto].
  - right. left. exists x, L, r, n. destruct (Hq x H2 H1) as [K1 K2]. split; [assumption|split; assumption].
  - right. right. assumption.
Qed.

(* while the store is opening only the opening thread has work, and it neither pins nor releases *)
Lemma opening_sums p fs f : RInv p fs -> (forall t, t <> T_MAIN -> pc_get t p = []) -> f [] = O ->
  (forall pc, Forall (fun i => (rank i <= 6)%nat) pc -> f pc = O) -> spc f (p_pcs p) = O.
Proof.
  intros R Hidle Hf Hr. apply spc_zero. intros k l Hin. rewrite <- (pcs_entry p k l (r_keys _ _ R) Hin).
  destruct (N.eq_dec k T_MAIN) as [->|Hne]; [apply Hr; exact (mo_rank _ _ (r_main _ _ R))|now rewrite (Hidle k Hne)].
Qed.

(* ---------------------------------------------------------------- the opening thread *)
Definition GFs (fs : fsys) : Prop :=
  forall x, In x (ms_strs (frag_state (md_live (f_md fs)))) -> In x (f_sst fs).

Lemma sums_idle p' f : NoDup (map fst (p_pcs p')) -> (forall t, t <> T_MAIN -> pc_get t p' = []) -> f [] = O ->
  f (main_pc p') = O -> spc f (p_pcs p') = O.
Proof.
  intros Hk Hidle Hf Hm. apply spc_zero. intros k l Hin. rewrite <- (pcs_entry p' k l Hk Hin).
  destruct (N.eq_dec k T_MAIN) as [->|Hne]; [exact Hm|now rewrite (Hidle k Hne)].
Qed.

Lemma RInv_opening p' fs' :
  p_vers p' = [] -> p_refs p' = [] -> p_snaps p' = [] -> NoDup (map fst (p_pcs p')) ->
  (forall t, t <> T_MAIN -> pc_get t p' = []) -> main_ok p' fs' -> RInv p' fs'.
Proof.
  intros Hv Hr Hs Hk Hidle Hm. split; rewrite ?Hv, ?Hr, ?Hs; auto.
  - apply rc_wf_nil.
  - constructor.
  - intros x. cbn [rc_get regsum map list_sum].
    rewrite (sums_idle p' (npin x) Hk Hidle (npin_nil x) (proj1 (rank_no_pin_rel _ (mo_rank _ _ Hm) x))).
    rewrite (sums_idle p' (nrel x) Hk Hidle (nrel_nil x) (proj2 (rank_no_pin_rel _ (mo_rank _ _ Hm) x))). reflexivity.
  - intros x H. cbn in H. lia.
  - intros i v H. destruct i; discriminate.
  - intros h i [].
  - congruence.
  - intros i v H. destruct i; discriminate.
  - congruence.
  - apply flush_ok_idle. apply Hidle. discriminate.
  - intros t H1 H2. rewrite (Hidle t H1). apply worker_ok_nil.
Qed.

Lemma rk_rel_head_lt i rest : StronglySorted rk_rel (i :: rest) ->
  (rank i <> 2 -> rank i <> 5 -> forall j, In j rest -> rank i < rank j)%nat.
Proof.
  intros H H2 H5 j Hj. inversion H as [|? ? _ Hall]; subst. rewrite Forall_forall in Hall.
  destruct (Hall j Hj) as [K|[K1 [K2|K2]]]; [assumption|contradiction|contradiction].
Qed.

Lemma rk_rel_head_le i rest : StronglySorted rk_rel (i :: rest) -> forall j, In j rest -> (rank i <= rank j)%nat.
Proof.
  intros H j Hj. inversion H as [|? ? _ Hall]; subst. rewrite Forall_forall in Hall.
  destruct (Hall j Hj) as [K|[K1 _]]; lia.
Qed.

(* the pieces of main_ok that only look at the program *)
Lemma main_tail_sorted i rest : StronglySorted rk_rel (i :: rest) -> StronglySorted rk_rel rest.
Proof. intros H. now inversion H. Qed.
Lemma main_tail_rank i rest : Forall (fun j => (rank j <= 6)%nat) (i :: rest) -> Forall (fun j => (rank j <= 6)%nat) rest.
Proof. intros H. now inversion H. Qed.

Lemma phase_left p fs i rest : main_ok p fs -> main_pc p = i :: rest -> (rank i <= 3)%nat ->
  In IFromManifest (main_pc p) /\ p_vers p = [] /\ p_refs p = [] /\ p_snaps p = [] /\ forall x, ~ In (IOrphan x) (main_pc p).
Proof.
  intros M E Hr. destruct (mo_phase _ _ M) as [H|[_ H]]; [exact H|]. rewrite E in H. inversion H; subst. lia.
Qed.

Lemma phase_right p fs i rest : main_ok p fs -> main_pc p = i :: rest -> (4 <= rank i)%nat ->
  p_vers p <> [] /\ Forall (fun j => (4 <= rank j)%nat) (main_pc p).
Proof.
  intros M E Hr. destruct (mo_phase _ _ M) as [[H _]|H]; [|exact H]. exfalso. rewrite E in H.
  pose proof (mo_sorted _ _ M) as Hs. rewrite E in Hs. destruct H as [->|H]; [cbn in Hr; lia|].
  pose proof (rk_rel_head_le _ _ Hs _ H). cbn [rank] in *. lia.
Qed.

Lemma fold_apply_empty_edit s : apply_edit (mkEdit [] [] None) s = s.
Proof. destruct s as [st l]. reflexivity. Qed.

Lemma md_open_live d d' ms next r : md_open d = (d', ms, next, r) ->
  ms = frag_state (md_live d) /\ frag_state (md_live d') = frag_state (md_live d).
Proof.
  unfold md_open. destruct (md_live d) eqn:E; cbn [is_nil].
  - intros [= <- <- _ _]. rewrite E. split; reflexivity.
  - unfold md_rollover. intros [= <- <- _ _]. cbn [md_live]. split; [reflexivity|].
    apply rollup_state, frag_state_NoDup.
Qed.

Lemma md_apply_live d ms next e roll d' ms' next' r : ms = frag_state (md_live d) ->
  md_apply d ms next e roll = (d', ms', next', r) ->
  ms' = apply_edit e ms /\ frag_state (md_live d') = apply_edit e ms.
Proof.
  intros Hms. unfold md_apply. destruct (roll && negb (is_nil (ms_strs ms))).
  - unfold md_rollover. intros [= <- <- _ _]. cbn [md_live]. split; [reflexivity|].
    apply rollup_state. subst ms. apply apply_edit_NoDup, frag_state_NoDup.
  - intros [= <- <- _ _]. cbn [md_live]. split; [reflexivity|]. now rewrite frag_state_snoc, Hms.
Qed.

Lemma main_ok_left_tail p fs i rest p' fs' :
  main_ok p fs -> main_pc p = i :: rest -> (rank i <= 2)%nat -> main_pc p' = rest ->
  p_vers p' = [] -> p_refs p' = [] -> p_snaps p' = [] ->
  (forall x, In x (f_sst fs) -> In x (f_sst fs')) ->
  (forall x, i = ILinkIfAbsent x -> In x (f_sst fs')) -> main_ok p' fs'.
Proof.
  intros M E Hr E' Hv Hrf Hs Hmono Hlink.
  destruct (phase_left p fs i rest M E ltac:(lia)) as [K1 [K2 [K3 [K4 K5]]]].
  pose proof (mo_sorted _ _ M) as Hso. pose proof (mo_rank _ _ M) as Hrk. rewrite E in *.
  split; rewrite ?E'.
  - now inversion Hso.
  - now inversion Hrk.
  - intros a x r b Es. destruct (mo_link _ _ M (i :: a) x r b) as [[H|H]|H].
    + now rewrite E, Es.
    + right. now apply Hlink.
    + now left.
    + right. now apply Hmono.
  - intros x Hx. exfalso. apply (K5 x). now right.
  - left. split; [|split; [assumption|split; [assumption|split; [assumption|]]]].
    + destruct K1 as [K1|K1]; [subst i; cbn in Hr; lia|assumption].
    + intros x Hx. apply (K5 x). now right.
  - intros _ H. congruence.
Qed.

Lemma RInv_main_step p fs p' fs' :
  RInv p fs -> (forall t, t <> T_MAIN -> pc_get t p = []) ->
  p_vers p' = p_vers p -> p_cur p' = p_cur p -> p_refs p' = p_refs p -> p_snaps p' = p_snaps p -> p_ms p' = p_ms p ->
  NoDup (map fst (p_pcs p')) -> (forall t, t <> T_MAIN -> pc_get t p' = []) -> main_ok p' fs' ->
  (forall x, (1 <= rc_get x (p_refs p))%nat -> In x (f_sst fs')) -> RInv p' fs'.
Proof.
  intros R Hidle Ev Ec Er Es Em Hk Hidle' M' Hsst.
  assert (Hz : forall x, spc (npin x) (p_pcs p) = O /\ spc (nrel x) (p_pcs p) = O).
  { intros x. split; apply (sums_idle p _ (r_keys _ _ R) Hidle); try reflexivity;
      apply (rank_no_pin_rel _ (mo_rank _ _ (r_main _ _ R)) x). }
  assert (Hz' : forall x, spc (npin x) (p_pcs p') = O /\ spc (nrel x) (p_pcs p') = O).
  { intros x. split; apply (sums_idle p' _ Hk Hidle'); try reflexivity; apply (rank_no_pin_rel _ (mo_rank _ _ M') x). }
  split; rewrite ?Ev, ?Ec, ?Er, ?Es, ?Em; try (now destruct R).
  - intros x. destruct (Hz x) as [Z1 Z2]. destruct (Hz' x) as [Z3 Z4]. pose proof (r_bal _ _ R x). lia.
  - intros Hv x Hx. unfold names_of. rewrite Ev. apply (r_strs _ _ R Hv x Hx).
  - apply flush_ok_idle. apply Hidle'. discriminate.
  - intros t H1 H2. rewrite (Hidle' t H1). apply worker_ok_nil.
Qed.

Lemma sorted_orphans l rest : StronglySorted rk_rel rest -> Forall (fun j => (5 <= rank j)%nat) rest ->
  StronglySorted rk_rel (map IOrphan l ++ rest).
Proof.
  intros Hs Hr. induction l as [|x l IH]; [assumption|]. cbn [map app]. constructor; [assumption|].
  rewrite Forall_forall. intros j Hj. apply in_app_iff in Hj. destruct Hj as [Hj|Hj].
  - apply in_map_iff in Hj. destruct Hj as [y [<- _]]. right. cbn. auto.
  - rewrite Forall_forall in Hr. specialize (Hr j Hj). cbn [rank].
    destruct (Nat.eq_dec (rank j) 5) as [E|E]; [right; cbn; auto|left; cbn; lia].
Qed.

Lemma GFs_frame fs fs' : f_md fs' = f_md fs -> (forall x, In x (f_sst fs) -> In x (f_sst fs')) -> GFs fs -> GFs fs'.
Proof. intros E H G x Hx. unfold GFs in *. rewrite E in Hx. auto. Qed.

Lemma store_apply_unfold s p e roll :
  exists d ms next r, md_apply (f_md (s_fs s)) (p_ms p) (p_next p) e roll = (d, ms, next, r) /\
    store_apply s p e roll =
      (mkSys (set_md (s_fs s) d) (s_p s) (s_v s) (s_hist s ++ [e]) (rollover_ghost (s_frags s) r), set_mani p ms next).
Proof.
  unfold store_apply. destruct (md_apply (f_md (s_fs s)) (p_ms p) (p_next p) e roll) as [[[d ms] next] r].
  exists d, ms, next, r. split; reflexivity.
Qed.

Lemma step_main s p i rest s' op' :
  MdInv (s_fs s) (s_frags s) (s_v s) -> (i <> IManiOpen -> Hd (s_fs s) p) ->
  (forall t, t <> T_MAIN -> pc_get t p = []) ->
  RInv p (s_fs s) -> GFs (s_fs s) -> pc_get T_MAIN p = i :: rest ->
  exec T_MAIN i s (pc_set T_MAIN rest p) = (s', op') ->
  GFs (s_fs s') /\ forall p', op' = Some p' -> RInv p' (s_fs s').
Proof.
  intros HM HH Hidle R G Epc Ex.
  set (p1 := pc_set T_MAIN rest p) in *.
  destruct (pop_facts p T_MAIN i rest (r_keys _ _ R) Epc) as [Hk1 [Hpc1 _]]. fold p1 in Hk1, Hpc1.
  assert (Hm1 : main_pc p1 = rest) by (unfold main_pc; rewrite Hpc1, N.eqb_refl; reflexivity).
  assert (Hidle1 : forall t, t <> T_MAIN -> pc_get t p1 = []).
  { intros t Ht. rewrite Hpc1. destruct (N.eqb_spec t T_MAIN); [contradiction|auto]. }
  assert (Hm3 : forall q, p_pcs q = p_pcs p1 -> main_pc q = rest).
  { intros q Eq. unfold main_pc. rewrite (pc_get_eq T_MAIN q p1 Eq). exact Hm1. }
  pose proof (r_main _ _ R) as M. assert (Em : main_pc p = i :: rest) by exact Epc.
  pose proof (mo_rank _ _ M) as Hrk. rewrite Em in Hrk. assert (Hri : (rank i <= 6)%nat) by now inversion Hrk.
  (* a step of the first phase (before the tree is built) that leaves versions alone *)
  assert (Left : forall fs' p', (rank i <= 2)%nat ->
            main_pc p' = rest -> p_vers p' = p_vers p1 -> p_refs p' = p_refs p1 -> p_snaps p' = p_snaps p1 ->
            p_pcs p' = p_pcs p1 ->
            (forall x, In x (f_sst (s_fs s)) -> In x (f_sst fs')) ->
            (forall x, i = ILinkIfAbsent x -> In x (f_sst fs')) -> RInv p' fs').
  { intros fs' p' Hr2 E1 E2 E3 E4 E5 Hmono Hlink.
    destruct (phase_left p _ i rest M Em ltac:(lia)) as [K1 [K2 [K3 [K4 K5]]]].
    apply RInv_opening; try congruence.
    - rewrite E2. exact K2.
    - rewrite E3. exact K3.
    - rewrite E4. exact K4.
    - intros t Ht. rewrite (pc_get_eq t p' p1 E5). auto.
    - apply (main_ok_left_tail p (s_fs s) i rest); auto;
        try (rewrite E2; exact K2); try (rewrite E3; exact K3); try (rewrite E4; exact K4). }
  destruct i as [x|x|oe roll|x|h|h|n| | |x|x roll| | |x|rec tm]; cbn [rank] in Hri; try lia; cbn [exec] in Ex.
  - (* IRenameLog *)
    destruct (log_find n (f_logs (s_fs s))); injection Ex as <- <-; (split; [|intros p' [= <-]]);
      try (apply (GFs_frame (s_fs s)); [reflexivity|auto|exact G]); try exact G;
      apply Left; cbn [rank]; auto; discriminate.
  - (* IManiOpen *)
    destruct (md_open (f_md (s_fs s))) as [[[d ms] next] r] eqn:Eo. injection Ex as <- <-.
    destruct (md_open_live _ _ _ _ _ Eo) as [O1 O2]. split.
    + intros x Hx. cbn [s_fs set_md f_md f_sst] in *. rewrite O2 in Hx. now apply G.
    + intros p' [= <-]. apply Left; cbn [rank]; auto; discriminate.
  - (* IInitEdit *)
    assert (Hh : Hd (s_fs s) p) by (apply HH; discriminate).
    destruct (is_nil (md_live (f_md (s_fs s)))).
    + destruct (store_apply_unfold s p1 (mkEdit [] [] None) false) as [d [ms [next [r [Ea Es]]]]].
      rewrite Es in Ex. injection Ex as <- <-.
      destruct (md_apply_live _ _ _ _ _ _ _ _ _ (proj1 Hh) Ea) as [A1 A2]. rewrite fold_apply_empty_edit in A2. split.
      * intros x Hx. cbn [s_fs set_md f_md f_sst] in *. rewrite A2 in Hx. apply G. now rewrite <- (proj1 Hh).
      * intros p' [= <-]. apply Left; cbn [rank]; auto; discriminate.
    + injection Ex as <- <-. split; [exact G|]. intros p' [= <-]. apply Left; cbn [rank]; auto; discriminate.
  - (* ILinkIfAbsent *)
    destruct (mem x (f_sst (s_fs s))) eqn:Ex1; injection Ex as <- <-.
    + split; [exact G|]. intros p' [= <-]. apply Left; cbn [rank]; auto. intros y [= ->]. now apply mem_In.
    + split.
      * apply (GFs_frame (s_fs s)); [reflexivity| |exact G]. intros y Hy. cbn [f_sst set_sst]. apply in_or_app. now left.
      * intros p' [= <-]. apply Left; cbn [rank s_fs]; auto.
        -- intros y Hy. cbn [f_sst set_sst]. apply in_or_app. now left.
        -- intros y [= ->]. cbn [f_sst set_sst]. apply in_or_app. right. now left.
  - (* IApplyIfAbsent *)
    assert (Hh : Hd (s_fs s) p) by (apply HH; discriminate).
    destruct (mem x (ms_strs (p_ms p1))) eqn:Ex1.
    + injection Ex as <- <-. split; [exact G|]. intros p' [= <-]. apply Left; cbn [rank]; auto; discriminate.
    + destruct (store_apply_unfold s p1 (mkEdit [] [x] None) roll) as [d [ms [next [r [Ea Es]]]]].
      rewrite Es in Ex. injection Ex as <- <-.
      destruct (md_apply_live _ _ _ _ _ _ _ _ _ (proj1 Hh) Ea) as [A1 A2]. split.
      * intros y Hy. cbn [s_fs set_md f_md f_sst] in *. rewrite A2 in Hy. apply apply_edit_In in Hy.
        cbn [e_add e_rm] in Hy. destruct Hy as [[<-|[]]|[Hy _]].
        -- destruct (mo_link _ _ M [] x roll rest Em) as [[]|K]; exact K.
        -- apply G. now rewrite <- (proj1 Hh).
      * intros p' [= <-]. apply Left; cbn [rank]; auto; discriminate.
  - (* IFromManifest *)
    destruct (phase_left p _ _ rest M Em ltac:(cbn; lia)) as [K1 [K2 [K3 [K4 K5]]]].
    destruct (forallb (fun x => mem x (f_sst (s_fs s))) (ms_strs (p_ms p1))) eqn:Ef; injection Ex as <- <-;
      (split; [exact G|]); [|intros p' H; discriminate].
    intros p' [= <-]. set (names := ms_strs (p_ms p1)).
    pose proof (mo_sorted _ _ M) as Hso. rewrite Em in Hso.
    assert (Hgt : forall j, In j rest -> (3 < rank j)%nat).
    { intros j Hj. apply (rk_rel_head_lt _ _ Hso); cbn; auto; lia. }
    assert (Hz : forall (y : name) f, f [] = O -> (forall pc, Forall (fun i => (rank i <= 6)%nat) pc -> f pc = O) -> spc f (p_pcs p1) = O).
    { intros y f Hf Hr. apply (sums_idle p1 f Hk1 Hidle1 Hf). rewrite Hm1. apply Hr. now inversion Hrk. }
    split; cbn [p_refs p_pcs p_snaps p_vers p_cur p_ms set_refs set_vers].
    + apply rc_incs_wf, rc_wf_nil.
    + exact Hk1.
    + change (p_snaps p1) with (p_snaps p). rewrite K4. constructor.
    + intros y. rewrite rc_get_incs. unfold regsum. cbn [rc_get map contrib v_reg v_names]. rewrite ls_cons. cbn [list_sum fold_right].
      rewrite (Hz y (npin y) (npin_nil y) (fun pc H => proj1 (rank_no_pin_rel pc H y))).
      rewrite (Hz y (nrel y) (nrel_nil y) (fun pc H => proj2 (rank_no_pin_rel pc H y))). rewrite !Nat.add_0_r. reflexivity.
    + intros y Hy. rewrite rc_get_incs in Hy. cbn [rc_get] in Hy. assert (Hin : In y names) by (apply cnt_pos; exact Hy).
      rewrite forallb_forall in Ef. apply mem_In. now apply Ef.
    + intros j v Hj. destruct j as [|j]; cbn in Hj; [injection Hj as <-|destruct j; discriminate].
      cbn [v_strong Nat.eqb]. change (p_snaps p1) with (p_snaps p). rewrite K4. reflexivity.
    + change (p_snaps p1) with (p_snaps p). rewrite K4. intros h j [].
    + intros _. cbn. lia.
    + intros j v Hj _. destruct j as [|j]; cbn in Hj; [injection Hj as <-; reflexivity|destruct j; discriminate].
    + intros _ y Hy. unfold names_of. cbn [p_vers set_refs set_vers nth_error v_names]. exact Hy.
    + split; try (match goal with |- context [main_pc ?q] => rewrite !(Hm3 q eq_refl) end); cbn [p_vers p_refs p_ms set_refs set_vers].
      * now inversion Hso.
      * now inversion Hrk.
      * intros a y r b Es. exfalso. assert (Hin : In (IApplyIfAbsent y r) rest) by (rewrite Es; apply in_or_app; right; now left).
        specialize (Hgt _ Hin). cbn in Hgt. lia.
      * intros y Hy. exfalso. apply (K5 y). rewrite Em. now right.
      * right. split; [discriminate|]. rewrite Forall_forall. intros j Hj. specialize (Hgt j Hj). lia.
      * intros _ _ y Hy. rewrite rc_get_incs in Hy. cbn [rc_get] in Hy. apply cnt_pos. exact Hy.
    + apply flush_ok_idle. apply Hidle1. discriminate.
    + intros t H1 H2. match goal with |- worker_ok (pc_get t ?q) => rewrite (pc_get_eq t q p1 eq_refl) end.
      rewrite (Hidle1 t H1). apply worker_ok_nil.
  - (* IOrphans *)
    assert (Hh : Hd (s_fs s) p) by (apply HH; discriminate).
    destruct (phase_right p _ _ rest M Em ltac:(cbn; lia)) as [Kv Kr].
    injection Ex as <- <-. split; [exact G|]. intros p' [= <-].
    set (orph := orphan_scan (f_md (s_fs s))).
    destruct (push_facts p1 T_MAIN (map IOrphan orph) Hk1) as [Hk2 [Hpc2 _]]. cbn zeta in *.
    set (p2 := pc_set T_MAIN (map IOrphan orph ++ pc_get T_MAIN p1) p1) in *.
    pose proof (mo_sorted _ _ M) as Hso. rewrite Em in Hso.
    assert (Hgt : forall j, In j rest -> (4 < rank j)%nat).
    { intros j Hj. apply (rk_rel_head_lt _ _ Hso); cbn; auto; lia. }
    assert (Hm2 : main_pc p2 = map IOrphan orph ++ rest).
    { unfold main_pc. rewrite Hpc2, N.eqb_refl. fold (main_pc p1). now rewrite Hm1. }
    apply (RInv_main_step p (s_fs s)); auto.
    + intros t Ht. rewrite Hpc2. destruct (N.eqb_spec t T_MAIN); [contradiction|auto].
    + split; rewrite ?Hm2.
      * apply sorted_orphans; [now inversion Hso|]. rewrite Forall_forall. intros j Hj. specialize (Hgt j Hj). lia.
      * apply Forall_app. split; [|now inversion Hrk]. rewrite Forall_forall. intros j Hj.
        apply in_map_iff in Hj. destruct Hj as [y [<- _]]. cbn. lia.
      * intros a y r b Es. exfalso.
        assert (Hin : In (IApplyIfAbsent y r) (map IOrphan orph ++ rest)) by (rewrite Es; apply in_or_app; right; now left).
        apply in_app_iff in Hin. destruct Hin as [Hin|Hin].
        -- apply in_map_iff in Hin. destruct Hin as [z [Hz _]]. discriminate.
        -- specialize (Hgt _ Hin). cbn in Hgt. lia.
      * intros y Hy. apply in_app_iff in Hy. destruct Hy as [Hy|Hy].
        -- apply in_map_iff in Hy. destruct Hy as [z [[= ->] Hz]].
           change (p_ms p2) with (p_ms p). rewrite (proj1 Hh). apply (orphan_scan_safe _ (d_ok _ _ _ HM)). exact Hz.
        -- change (p_ms p2) with (p_ms p). apply (mo_orphan _ _ M). rewrite Em. now right.
      * right. split; [exact Kv|]. apply Forall_app. split.
        -- rewrite Forall_forall. intros j Hj. apply in_map_iff in Hj. destruct Hj as [y [<- _]]. cbn. lia.
        -- rewrite Forall_forall. intros j Hj. specialize (Hgt j Hj). lia.
      * intros _ _. change (p_refs p2) with (p_refs p). change (p_ms p2) with (p_ms p).
        apply (mo_counted _ _ M); [rewrite Em; discriminate|exact Kv].
    + intros y Hy. exact (r_sst _ _ R y Hy).
  - (* IOrphan *)
    assert (Hh : Hd (s_fs s) p) by (apply HH; discriminate).
    destruct (phase_right p _ _ rest M Em ltac:(cbn; lia)) as [Kv Kr].
    assert (Hx : ~ In x (ms_strs (p_ms p))) by (apply (mo_orphan _ _ M); rewrite Em; now left).
    pose proof (mo_sorted _ _ M) as Hso. rewrite Em in Hso.
    assert (M1 : forall fs', (forall y r, In (IApplyIfAbsent y r) rest -> False) -> main_ok p1 fs').
    { intros fs' Hno. split; rewrite ?Hm1.
      - now inversion Hso.
      - now inversion Hrk.
      - intros a y r b Es. exfalso. apply (Hno y r). rewrite Es. apply in_or_app. right. now left.
      - intros y Hy. change (p_ms p1) with (p_ms p). apply (mo_orphan _ _ M). rewrite Em. now right.
      - right. split; [exact Kv|]. rewrite Em in Kr. now inversion Kr.
      - intros _ _. change (p_refs p1) with (p_refs p). change (p_ms p1) with (p_ms p).
        apply (mo_counted _ _ M); [rewrite Em; discriminate|exact Kv]. }
    assert (Hno : forall y r, In (IApplyIfAbsent y r) rest -> False).
    { intros y r Hin. pose proof (rk_rel_head_le _ _ Hso _ Hin) as K. cbn in K. lia. }
    destruct (mem x (f_sst (s_fs s)) && negb (mem x (f_trash (s_fs s)))); injection Ex as <- <-.
    + unfold to_trash. destruct (mem x (f_sst (s_fs s))) eqn:Exs.
      * split.
        -- intros y Hy. cbn [s_fs f_md set_sst f_sst] in *. apply del_In. split; [now apply G|].
           intros ->. apply Hx. now rewrite (proj1 Hh).
        -- intros p' [= <-]. apply (RInv_main_step p (s_fs s)); auto.
           intros y Hy. cbn [f_sst set_sst]. apply del_In. split; [exact (r_sst _ _ R y Hy)|].
           intros ->. apply Hx. apply (mo_counted _ _ M); [rewrite Em; discriminate|exact Kv|exact Hy].
      * split; [exact G|]. intros p' [= <-]. apply (RInv_main_step p (s_fs s)); auto. exact (r_sst _ _ R).
    + split; [exact G|]. intros p' [= <-]. apply (RInv_main_step p (s_fs s)); auto. exact (r_sst _ _ R).
  - (* INewLog *)
    destruct (phase_right p _ _ rest M Em ltac:(cbn; lia)) as [Kv Kr].
    pose proof (mo_sorted _ _ M) as Hso. rewrite Em in Hso.
    injection Ex as <- <-. split; [apply (GFs_frame (s_fs s)); [reflexivity|auto|exact G]|].
    intros p' [= <-]. apply (RInv_main_step p (s_fs s)); auto.
    + split; try (match goal with |- context [main_pc ?q] => rewrite !(Hm3 q eq_refl) end); cbn [p_vers p_refs p_ms set_kvs].
      * now inversion Hso.
      * now inversion Hrk.
      * intros a y r b Es. exfalso. assert (Hin : In (IApplyIfAbsent y r) rest) by (rewrite Es; apply in_or_app; right; now left).
        pose proof (rk_rel_head_le _ _ Hso _ Hin) as K. cbn in K. lia.
      * intros y Hy. apply (mo_orphan _ _ M). rewrite Em. now right.
      * right. split; [exact Kv|]. rewrite Em in Kr. now inversion Kr.
      * intros _ _. apply (mo_counted _ _ M); [rewrite Em; discriminate|exact Kv].
    + exact (r_sst _ _ R).
Qed.

(* ---------------------------------------------------------------- the counting core, with one Arc in flight *)
Record RCore (p : proc) (fs : fsys) (extra : nat -> nat) : Prop := mkRCore {
  c_wf : rc_wf (p_refs p);
  c_keys : NoDup (map fst (p_pcs p));
  c_skeys : NoDup (map fst (p_snaps p));
  c_bal : forall x, (rc_get x (p_refs p) + spc (npin x) (p_pcs p) = regsum x (p_vers p) + spc (nrel x) (p_pcs p))%nat;
  c_sst : forall x, (1 <= rc_get x (p_refs p))%nat -> In x (f_sst fs);
  c_strong : forall i v, nth_error (p_vers p) i = Some v ->
             v_strong v = ((if Nat.eqb i (p_cur p) then 1 else 0) + nh i (p_snaps p) + extra i)%nat;
  c_hvalid : forall h i, In (h, i) (p_snaps p) -> (i < length (p_vers p))%nat;
  c_cur : p_vers p <> [] -> (p_cur p < length (p_vers p))%nat;
  c_reg : forall i v, nth_error (p_vers p) i = Some v -> (0 < v_strong v)%nat -> v_reg v = true;
  c_strs : p_vers p <> [] -> forall x, In x (ms_strs (p_ms p)) -> In x (names_of p (p_cur p))
}.

Lemma RInv_core p fs : RInv p fs -> RCore p fs (fun _ => O).
Proof.
  intros R. split; try (now destruct R). intros i v H. rewrite (r_strong _ _ R i v H). lia.
Qed.

Lemma RInv_join p fs : RCore p fs (fun _ => O) -> main_ok p fs -> flush_ok p fs ->
  (forall t, t <> T_MAIN -> t <> T_FLUSH -> worker_ok (pc_get t p)) -> RInv p fs.
Proof.
  intros C M F W. split; try (now destruct C); auto. intros i v H. rewrite (c_strong _ _ _ C i v H). lia.
Qed.

Lemma names_of_upd p i f j cur : (forall v, v_names (f v) = v_names v) ->
  names_of (set_vers p (upd_nth i f (p_vers p)) cur) j = names_of p j.
Proof.
  intros Hf. unfold names_of. cbn [p_vers set_vers]. rewrite nth_error_upd.
  destruct (Nat.eqb i j); [|reflexivity]. destruct (nth_error (p_vers p) j); cbn; [apply Hf|reflexivity].
Qed.

(* one holder of version i lets go *)
Lemma unref_core p fs t i :
  RCore p fs (fun j => if Nat.eqb j i then 1 else 0)%nat -> (i < length (p_vers p))%nat ->
  RCore (unref_drop t i p) fs (fun _ => O) /\
  (forall t', t' <> t -> pc_get t' (unref_drop t i p) = pc_get t' p) /\
  (exists l, pc_get t (unref_drop t i p) = map IRelease l ++ pc_get t p /\
             forall x, In x l -> (1 <= regsum x (p_vers p))%nat) /\
  p_ms (unref_drop t i p) = p_ms p /\ p_refs (unref_drop t i p) = p_refs p /\
  (forall x, (regsum x (p_vers (unref_drop t i p)) <= regsum x (p_vers p))%nat) /\
  (p_vers p <> [] -> p_vers (unref_drop t i p) <> []).
Proof.
  intros C Hi. destruct (nth_error (p_vers p) i) as [v|] eqn:Ev; [|apply nth_error_None in Ev; lia].
  pose proof (c_strong _ _ _ C i v Ev) as Hs. cbv beta in Hs. rewrite Nat.eqb_refl in Hs.
  assert (Hreg : v_reg v = true) by (apply (c_reg _ _ _ C i v Ev); lia).
  unfold unref_drop, strong_of. rewrite Ev.
  destruct (Nat.eqb_spec (v_strong v) 1) as [E1|E1].
  - (* the last one: explicit_unref queues the releases *)
    assert (Hnc : Nat.eqb i (p_cur p) = false) by (destruct (Nat.eqb i (p_cur p)); [lia|reflexivity]).
    assert (Hnh : nh i (p_snaps p) = O) by lia.
    set (q := set_vers p (upd_nth i retire (p_vers p)) (p_cur p)).
    destruct (push_facts q t (map IRelease (names_of p i)) (c_keys _ _ _ C)) as [K1 [K2 [K3 K4]]]. cbn zeta in *.
    assert (Hreg' : forall x, (regsum x (upd_nth i retire (p_vers p)) + cnt x (v_names v) = regsum x (p_vers p))%nat).
    { intros x. pose proof (regsum_upd x i retire _ v Ev) as H. unfold contrib in H. rewrite Hreg in H. cbn [retire v_reg] in H. lia. }
    split; [|split; [|split; [|split; [|split; [|split]]]]].
    + split.
      * exact (c_wf _ _ _ C).
      * exact K1.
      * exact (c_skeys _ _ _ C).
      * intros x. change (pc_get t q) with (pc_get t p) in K3, K4.
        rewrite K3, K4, nrel_releases, npin_releases. unfold names_of. rewrite Ev.
        pose proof (c_bal _ _ _ C x). pose proof (Hreg' x). cbn [p_pcs p_refs p_vers pc_set set_pcs q set_vers] in *. lia.
      * exact (c_sst _ _ _ C).
      * intros j w Hj. cbn [p_vers p_cur p_snaps pc_set set_pcs q set_vers] in *. rewrite nth_error_upd in Hj. destruct (Nat.eqb_spec i j) as [<-|Hne].
        -- rewrite Ev in Hj. injection Hj as <-. cbn [retire v_strong]. rewrite Hnc, Hnh. reflexivity.
        -- pose proof (c_strong _ _ _ C j w Hj) as H. cbv beta in H. destruct (Nat.eqb_spec j i); [congruence|lia].
      * intros h j Hin. cbn [p_vers p_snaps pc_set set_pcs q set_vers] in *. rewrite upd_nth_length. exact (c_hvalid _ _ _ C h j Hin).
      * intros _. cbn [p_vers p_cur pc_set set_pcs q set_vers]. rewrite upd_nth_length. apply (c_cur _ _ _ C). intros E. rewrite E in Ev. destruct i; discriminate.
      * intros j w Hj Hpos. cbn [p_vers pc_set set_pcs q set_vers] in Hj. rewrite nth_error_upd in Hj. destruct (Nat.eqb_spec i j) as [<-|Hne].
        -- rewrite Ev in Hj. injection Hj as <-. cbn in Hpos. lia.
        -- exact (c_reg _ _ _ C j w Hj Hpos).
      * intros Hne x Hx. change (names_of (pc_set t (map IRelease (names_of p i) ++ pc_get t p) q) (p_cur (pc_set t (map IRelease (names_of p i) ++ pc_get t p) q)))
          with (names_of q (p_cur p)). subst q. rewrite names_of_upd by reflexivity.
        apply (c_strs _ _ _ C); [|exact Hx]. intros E. rewrite E in Ev. destruct i; discriminate.
    + intros t' Ht. rewrite K2. destruct (N.eqb_spec t' t); [contradiction|reflexivity].
    + exists (names_of p i). split.
      * rewrite K2, N.eqb_refl. reflexivity.
      * intros x Hx. unfold names_of in Hx. rewrite Ev in Hx. pose proof (regsum_ge x _ _ _ Ev) as H.
        unfold contrib in H. rewrite Hreg in H. apply cnt_pos in Hx. lia.
    + reflexivity.
    + reflexivity.
    + intros x. cbn [p_vers pc_set set_pcs set_vers q]. pose proof (Hreg' x). lia.
    + intros _. cbn [p_vers pc_set set_pcs set_vers q]. intros E. apply (f_equal (@length _)) in E.
      rewrite upd_nth_length in E. cbn in E. lia.
  - (* others still hold it *)
    assert (Hreg' : forall x, regsum x (upd_nth i dec_strong (p_vers p)) = regsum x (p_vers p)).
    { intros x. pose proof (regsum_upd x i dec_strong _ v Ev) as H. unfold contrib in H. cbn [dec_strong v_reg v_names] in H. lia. }
    split; [|split; [|split; [|split; [|split; [|split]]]]].
    + split; cbn [p_refs p_snaps p_vers p_cur p_ms p_pcs set_vers].
      * exact (c_wf _ _ _ C).
      * exact (c_keys _ _ _ C).
      * exact (c_skeys _ _ _ C).
      * intros x. rewrite Hreg'. exact (c_bal _ _ _ C x).
      * exact (c_sst _ _ _ C).
      * intros j w Hj. rewrite nth_error_upd in Hj. destruct (Nat.eqb_spec i j) as [<-|Hne].
        -- rewrite Ev in Hj. injection Hj as <-. cbn [dec_strong v_strong]. lia.
        -- pose proof (c_strong _ _ _ C j w Hj) as H. cbv beta in H. destruct (Nat.eqb_spec j i); [congruence|lia].
      * intros h j Hin. rewrite upd_nth_length. exact (c_hvalid _ _ _ C h j Hin).
      * intros _. rewrite upd_nth_length. apply (c_cur _ _ _ C). intros E. rewrite E in Ev. destruct i; discriminate.
      * intros j w Hj Hpos. rewrite nth_error_upd in Hj. destruct (Nat.eqb_spec i j) as [<-|Hne].
        -- rewrite Ev in Hj. injection Hj as <-. cbn [dec_strong v_reg]. exact Hreg.
        -- exact (c_reg _ _ _ C j w Hj Hpos).
      * intros Hne x Hx. rewrite names_of_upd by reflexivity.
        apply (c_strs _ _ _ C); [|exact Hx]. intros E. rewrite E in Ev. destruct i; discriminate.
    + reflexivity.
    + exists []. split; [reflexivity|intros x []].
    + reflexivity.
    + reflexivity.
    + intros x. cbn [p_vers set_vers]. rewrite Hreg'. lia.
    + intros _. cbn [p_vers set_vers]. intros E. apply (f_equal (@length _)) in E. rewrite upd_nth_length in E.
      rewrite E in Hi. cbn in Hi. lia.
Qed.

Lemma nth_error_snoc {A} (l : list A) x j :
  nth_error (l ++ [x]) j = if Nat.ltb j (length l) then nth_error l j else if Nat.eqb j (length l) then Some x else None.
Proof.
  destruct (Nat.ltb_spec j (length l)) as [H|H]; [now apply nth_error_app1|].
  rewrite nth_error_app2 by assumption. destruct (Nat.eqb_spec j (length l)) as [->|Hne].
  - now rewrite Nat.sub_diag.
  - destruct (j - length l)%nat eqn:E; [lia|]. cbn. now destruct n.
Qed.

(* the new version is built, counted and published; the old one still has the publisher's Arc *)
Lemma commit_core p fs names' q0 :
  RCore p fs (fun _ => O) -> p_vers p <> [] ->
  p_vers q0 = p_vers p -> p_cur q0 = p_cur p -> p_refs q0 = p_refs p -> p_snaps q0 = p_snaps p ->
  NoDup (map fst (p_pcs q0)) ->
  (forall x, spc (nrel x) (p_pcs q0) = spc (nrel x) (p_pcs p)) ->
  (forall x, spc (npin x) (p_pcs q0) = spc (npin x) (p_pcs p)) ->
  (forall y, In y names' -> In y (f_sst fs)) ->
  (forall y, In y (ms_strs (p_ms q0)) -> In y names') ->
  let q1 := set_vers q0 (p_vers q0 ++ [mkV names' 1 true]) (length (p_vers q0)) in
  let q2 := set_refs q1 (rc_incs names' (p_refs q1)) in
  RCore q2 fs (fun j => if Nat.eqb j (p_cur p) then 1 else 0)%nat /\ (p_cur p < length (p_vers q2))%nat /\
  (forall x, regsum x (p_vers q2) = (regsum x (p_vers p) + cnt x names')%nat).
Proof.
  intros C Hne Ev Ec Er Es Hk Hnr Hnp Hsst Hstrs. cbn zeta.
  pose proof (c_cur _ _ _ C Hne) as Hcur.
  assert (Hreg : forall x, regsum x (p_vers q0 ++ [mkV names' 1 true]) = (regsum x (p_vers p) + cnt x names')%nat).
  { intros x. rewrite regsum_app, Ev. unfold regsum at 2. cbn [map contrib v_reg v_names]. rewrite ls_cons. cbn. lia. }
  split; [|split].
  - split; cbn [p_refs p_snaps p_vers p_cur p_ms p_pcs set_refs set_vers].
    + rewrite Er. apply rc_incs_wf, (c_wf _ _ _ C).
    + exact Hk.
    + rewrite Es. exact (c_skeys _ _ _ C).
    + intros x. rewrite rc_get_incs, Hreg, Er, Hnr, Hnp. pose proof (c_bal _ _ _ C x). lia.
    + intros x Hx. rewrite rc_get_incs, Er in Hx.
      destruct (Nat.eq_dec (cnt x names') 0) as [E|E]; [apply (c_sst _ _ _ C); lia|]. apply Hsst, cnt_pos. lia.
    + intros j w Hj. rewrite nth_error_snoc, Ev in Hj. rewrite Ev, Es.
      destruct (Nat.ltb_spec j (length (p_vers p))) as [Hlt|Hge].
      * pose proof (c_strong _ _ _ C j w Hj) as H. rewrite H.
        destruct (Nat.eqb_spec j (length (p_vers p))); [lia|]. destruct (Nat.eqb_spec j (p_cur p)); lia.
      * destruct (Nat.eqb_spec j (length (p_vers p))) as [->|Hne2]; [|discriminate]. injection Hj as <-. cbn [v_strong].
        destruct (Nat.eqb_spec (length (p_vers p)) (p_cur p)); [lia|].
        rewrite nh_none; [reflexivity|]. intros h k Hin Hk'. subst k. pose proof (c_hvalid _ _ _ C h _ Hin). lia.
    + intros h j Hin. rewrite Es in Hin. rewrite app_length, Ev. pose proof (c_hvalid _ _ _ C h j Hin). cbn. lia.
    + intros _. rewrite app_length. cbn. lia.
    + intros j w Hj Hpos. rewrite nth_error_snoc, Ev in Hj.
      destruct (Nat.ltb_spec j (length (p_vers p))); [exact (c_reg _ _ _ C j w Hj Hpos)|].
      destruct (Nat.eqb_spec j (length (p_vers p))); [injection Hj as <-; reflexivity|discriminate].
    + intros _ x Hx. unfold names_of. cbn [p_vers set_refs set_vers]. rewrite nth_error_snoc, Nat.ltb_irrefl, Nat.eqb_refl.
      cbn [v_names]. now apply Hstrs.
  - cbn [p_vers set_refs set_vers]. rewrite app_length, Ev. cbn. lia.
  - intros x. cbn [p_vers set_refs set_vers]. apply Hreg.
Qed.

(* ---------------------------------------------------------------- steps of the other threads *)
Lemma vers_nonempty p fs : RInv p fs -> main_pc p = [] -> p_vers p <> [].
Proof.
  intros R E. destruct (mo_phase _ _ (r_main _ _ R)) as [[H _]|[H _]]; [rewrite E in H; destruct H|exact H].
Qed.

Lemma aget_None_notin {A} k (l : list (N * A)) : aget k l = None -> ~ In k (map fst l).
Proof.
  induction l as [|[k2 v] l IH]; cbn [aget map fst]; [intros _ []|].
  destruct (N.eqb_spec k k2); [discriminate|]. intros H [K|K]; [congruence|exact (IH H K)].
Qed.

Lemma adel_skeys {A} h (l : list (N * A)) : NoDup (map fst l) -> NoDup (map fst (adel h l)).
Proof. apply adel_keys_NoDup. Qed.

(* what the steps below report besides the counting core *)
Record StepOut (Q : Prop) (p : proc) (fs : fsys) (t : N) (rest : list instr) (p' : proc) (fs' : fsys) : Prop := mkStepOut {
  so_core : RCore p' fs' (fun _ => O);
  so_other : forall t', t' <> t -> pc_get t' p' = pc_get t' p;
  so_self : exists l, pc_get t p' = map IRelease l ++ rest;
  so_pins : forall x, (spc (npin x) (p_pcs p') <= spc (npin x) (p_pcs p))%nat;
  so_quiet : Q -> forall x, quiet x p -> In x (f_sst fs) -> quiet x p' /\ In x (f_sst fs');
  so_vers : p_vers p' <> [];
  so_g : GFs fs'
}.

Section WorkStep.
  Variables (s : sys) (p : proc) (t : N) (rest : list instr).
  Let fs := s_fs s.
  Hypothesis Hh : Hd fs p.
  Hypothesis Hmain : main_pc p = [].
  Hypothesis R : RInv p fs.
  Hypothesis G : GFs fs.
  Let p1 := pc_set t rest p.

  Lemma live_is_ms : ms_strs (frag_state (md_live (f_md fs))) = ms_strs (p_ms p).
  Proof. now rewrite (proj1 Hh). Qed.

  Lemma pin_step x : pc_get t p = IPinLink x :: rest ->
    StepOut True p fs t rest (set_refs p1 (rc_inc x (p_refs p1))) (set_sst fs (add x (f_sst fs)) (f_trash fs)).
  Proof.
    intros Epc. destruct (pop_facts p t _ rest (r_keys _ _ R) Epc) as [Hk1 [Hpc1 [Hr1 Hp1]]]. fold p1 in Hk1, Hpc1, Hr1, Hp1.
    pose proof (RInv_core _ _ R) as C. pose proof (vers_nonempty _ _ R Hmain) as Hv.
    split.
    - split; cbn [p_refs p_snaps p_vers p_cur p_ms p_pcs set_refs f_sst set_sst]; try (now destruct C).
      + apply rc_inc_wf, (c_wf _ _ _ C).
      + intros y. rewrite rc_get_inc. specialize (Hr1 y). specialize (Hp1 y). cbn [is_rel is_pin] in Hr1, Hp1.
        pose proof (c_bal _ _ _ C y). change (p_refs p1) with (p_refs p). change (p_vers p1) with (p_vers p).
        destruct (y =? x); lia.
      + intros y Hy. rewrite rc_get_inc in Hy. apply add_In. destruct (N.eqb_spec y x) as [E|Hne]; [now left|right].
        apply (c_sst _ _ _ C). change (p_refs p1) with (p_refs p) in Hy. lia.
    - intros t' Ht'. transitivity (pc_get t' p1); [apply pc_get_eq; reflexivity|]. rewrite Hpc1. destruct (N.eqb_spec t' t); [contradiction|reflexivity].
    - exists []. cbn [map app]. transitivity (pc_get t p1); [apply pc_get_eq; reflexivity|]. now rewrite Hpc1, N.eqb_refl.
    - intros y. cbn [p_pcs set_refs]. specialize (Hp1 y). lia.
    - intros _ y [Q1 [Q2 Q3]] Hy. split; [split; [exact Q1|split]|].
      + cbn [p_pcs set_refs]. specialize (Hr1 y). cbn [is_rel] in Hr1. lia.
      + cbn [p_pcs set_refs]. specialize (Hp1 y). lia.
      + cbn [f_sst set_sst]. apply add_In. now right.
    - exact Hv.
    - apply (GFs_frame fs); [reflexivity| |exact G]. intros y Hy. cbn [f_sst set_sst]. apply add_In. now right.
  Qed.

  Lemma release_step x : pc_get t p = IRelease x :: rest ->
    StepOut True p fs t rest (set_refs p1 (fst (rc_dec x (p_refs p1))))
            (if snd (rc_dec x (p_refs p1)) then to_trash x fs else fs).
  Proof.
    intros Epc. destruct (pop_facts p t _ rest (r_keys _ _ R) Epc) as [Hk1 [Hpc1 [Hr1 Hp1]]]. fold p1 in Hk1, Hpc1, Hr1, Hp1.
    pose proof (RInv_core _ _ R) as C. pose proof (vers_nonempty _ _ R Hmain) as Hv.
    pose proof (rc_pos_at_release p fs t x rest R Epc) as Hpos.
    change (p_refs p1) with (p_refs p). rewrite (rc_dec_last x _ (c_wf _ _ _ C)).
    assert (Hsst' : forall y, y <> x -> In y (f_sst fs) -> In y (f_sst (to_trash x fs))).
    { intros y Hne Hy. unfold to_trash. destruct (mem x (f_sst fs)); [|exact Hy]. cbn [f_sst set_sst]. apply del_In. auto. }
    assert (Hx_not_live : rc_get x (p_refs p) = 1%nat -> ~ In x (ms_strs (p_ms p))).
    { intros E1 Hin. assert (Hz : regsum x (p_vers p) = O) by lia.
      destruct (cur_registered p fs R Hv) as [v [Ev [Hreg _]]].
      pose proof (r_strs _ _ R Hv x Hin) as Hn. unfold names_of in Hn. rewrite Ev in Hn.
      pose proof (regsum_ge x _ _ _ Ev) as Hge. unfold contrib in Hge. rewrite Hreg in Hge. apply cnt_pos in Hn. lia. }
    split.
    - split; cbn [p_refs p_snaps p_vers p_cur p_ms p_pcs set_refs]; try (now destruct C).
      + apply rc_dec_wf, (c_wf _ _ _ C).
      + intros y. rewrite (rc_get_dec x _ y (c_wf _ _ _ C)). specialize (Hr1 y). specialize (Hp1 y). cbn [is_rel is_pin] in Hr1, Hp1.
        pose proof (c_bal _ _ _ C y). change (p_vers p1) with (p_vers p).
        destruct (N.eqb_spec y x) as [E|Hne]; [rewrite E in *|]; lia.
      + intros y Hy. rewrite (rc_get_dec x _ y (c_wf _ _ _ C)) in Hy.
        destruct (Nat.eqb_spec (rc_get x (p_refs p)) 1) as [E1|E1].
        * destruct (N.eqb_spec y x) as [E|Hne]; [lia|]. apply Hsst'; [assumption|]. apply (c_sst _ _ _ C). exact Hy.
        * apply (c_sst _ _ _ C). destruct (N.eqb_spec y x) as [E|Hne]; [rewrite E|]; lia.
    - intros t' Ht'. transitivity (pc_get t' p1); [apply pc_get_eq; reflexivity|]. rewrite Hpc1. destruct (N.eqb_spec t' t); [contradiction|reflexivity].
    - exists []. cbn [map app]. transitivity (pc_get t p1); [apply pc_get_eq; reflexivity|]. now rewrite Hpc1, N.eqb_refl.
    - intros y. cbn [p_pcs set_refs]. specialize (Hp1 y). lia.
    - intros _ y [Q1 [Q2 Q3]] Hy.
      assert (Hne : y <> x).
      { intros ->. pose proof (spc_ge (nrel x) t p) as H. rewrite Epc, nrel_cons in H. cbn [is_rel] in H. rewrite N.eqb_refl in H. cbn in H. lia. }
      split; [split; [exact Q1|split]|].
      + cbn [p_pcs set_refs]. specialize (Hr1 y). lia.
      + cbn [p_pcs set_refs]. specialize (Hp1 y). lia.
      + destruct (Nat.eqb (rc_get x (p_refs p)) 1); [now apply Hsst'|exact Hy].
    - exact Hv.
    - destruct (Nat.eqb_spec (rc_get x (p_refs p)) 1) as [E1|E1]; [|exact G].
      intros y Hy. assert (Hf : f_md (to_trash x fs) = f_md fs) by (unfold to_trash; destruct (mem x (f_sst fs)); reflexivity).
      rewrite Hf in Hy. apply Hsst'; [|now apply G]. intros ->. apply (Hx_not_live E1). now rewrite <- live_is_ms.
  Qed.
End WorkStep.

Section WorkStep2.
  Variables (s : sys) (p : proc) (t : N) (rest : list instr).
  Let fs := s_fs s.
  Hypothesis Hh : Hd fs p.
  Hypothesis Hmain : main_pc p = [].
  Hypothesis R : RInv p fs.
  Hypothesis G : GFs fs.
  Let p1 := pc_set t rest p.

  (* an instruction that neither pins nor releases and leaves the process alone *)
  Lemma pop_step i fs' : pc_get t p = i :: rest -> (forall x, is_rel x i = false /\ is_pin x i = false) ->
    f_md fs' = f_md fs -> (forall x, In x (f_sst fs) -> In x (f_sst fs')) ->
    StepOut True p fs t rest p1 fs'.
  Proof.
    intros Epc Hi Emd Hmono. destruct (pop_facts p t _ rest (r_keys _ _ R) Epc) as [Hk1 [Hpc1 [Hr1 Hp1]]]. fold p1 in Hk1, Hpc1, Hr1, Hp1.
    pose proof (RInv_core _ _ R) as C. pose proof (vers_nonempty _ _ R Hmain) as Hv.
    assert (Hr1' : forall x, spc (nrel x) (p_pcs p1) = spc (nrel x) (p_pcs p)).
    { intros x. specialize (Hr1 x). rewrite (proj1 (Hi x)) in Hr1. lia. }
    assert (Hp1' : forall x, spc (npin x) (p_pcs p1) = spc (npin x) (p_pcs p)).
    { intros x. specialize (Hp1 x). rewrite (proj2 (Hi x)) in Hp1. lia. }
    split.
    - split.
      + exact (c_wf _ _ _ C).
      + exact Hk1.
      + exact (c_skeys _ _ _ C).
      + intros x. rewrite Hr1', Hp1'. exact (c_bal _ _ _ C x).
      + intros x Hx. apply Hmono, (c_sst _ _ _ C), Hx.
      + exact (c_strong _ _ _ C).
      + exact (c_hvalid _ _ _ C).
      + exact (c_cur _ _ _ C).
      + exact (c_reg _ _ _ C).
      + exact (c_strs _ _ _ C).
    - intros t' Ht'. rewrite Hpc1. destruct (N.eqb_spec t' t); [contradiction|reflexivity].
    - exists []. cbn [map app]. now rewrite Hpc1, N.eqb_refl.
    - intros x. rewrite Hp1'. lia.
    - intros _ x [Q1 [Q2 Q3]] Hx. split; [split; [exact Q1|split; [now rewrite Hr1'|now rewrite Hp1']]|now apply Hmono].
    - exact Hv.
    - apply (GFs_frame fs); assumption.
  Qed.

  Lemma take_step h : pc_get t p = ITake h :: rest -> aget h (p_snaps p) = None ->
    StepOut True p fs t rest
      (set_handles (set_vers p1 (upd_nth (p_cur p1) inc_strong (p_vers p1)) (p_cur p1)) ((h, p_cur p1) :: p_snaps p1)) fs.
  Proof.
    intros Epc Hnone. destruct (pop_facts p t _ rest (r_keys _ _ R) Epc) as [Hk1 [Hpc1 [Hr1 Hp1]]]. fold p1 in Hk1, Hpc1, Hr1, Hp1.
    pose proof (RInv_core _ _ R) as C. pose proof (vers_nonempty _ _ R Hmain) as Hv.
    destruct (cur_registered p fs R Hv) as [v [Ev [Hreg Hst]]].
    change (p_cur p1) with (p_cur p). change (p_vers p1) with (p_vers p). change (p_snaps p1) with (p_snaps p).
    assert (Hregsum : forall x, regsum x (upd_nth (p_cur p) inc_strong (p_vers p)) = regsum x (p_vers p)).
    { intros x. pose proof (regsum_upd x _ inc_strong _ v Ev) as H. unfold contrib in H. cbn [inc_strong v_reg v_names] in H. lia. }
    split.
    - split; cbn [p_refs p_snaps p_vers p_cur p_ms p_pcs set_handles set_vers].
      + exact (c_wf _ _ _ C).
      + exact Hk1.
      + cbn [map fst]. constructor; [now apply aget_None_notin|exact (c_skeys _ _ _ C)].
      + intros x. rewrite Hregsum. specialize (Hr1 x). specialize (Hp1 x). cbn [is_rel is_pin] in Hr1, Hp1.
        pose proof (c_bal _ _ _ C x). change (p_refs p1) with (p_refs p). lia.
      + exact (c_sst _ _ _ C).
      + intros j w Hj. rewrite nth_error_upd in Hj. rewrite nh_cons.
        destruct (Nat.eqb_spec (p_cur p) j) as [<-|Hne].
        * rewrite Ev in Hj. injection Hj as <-. cbn [inc_strong v_strong]. pose proof (c_strong _ _ _ C _ _ Ev) as H.
          cbv beta in H. rewrite ?Nat.eqb_refl in *. lia.
        * pose proof (c_strong _ _ _ C j w Hj) as H. cbv beta in H.
          destruct (Nat.eqb_spec (p_cur p) j); [contradiction|]. destruct (Nat.eqb_spec j (p_cur p)); [congruence|]. lia.
      + intros h' j [[= <- <-]|Hin]; rewrite upd_nth_length; [exact (c_cur _ _ _ C Hv)|exact (c_hvalid _ _ _ C h' j Hin)].
      + intros _. rewrite upd_nth_length. exact (c_cur _ _ _ C Hv).
      + intros j w Hj Hpos. rewrite nth_error_upd in Hj. destruct (Nat.eqb_spec (p_cur p) j) as [<-|Hne].
        * rewrite Ev in Hj. injection Hj as <-. exact Hreg.
        * exact (c_reg _ _ _ C j w Hj Hpos).
      + intros _ x Hx. match goal with |- In x (names_of ?q _) => change (names_of q (p_cur p)) with
          (names_of (set_vers p1 (upd_nth (p_cur p) inc_strong (p_vers p1)) (p_cur p)) (p_cur p)) end.
        rewrite names_of_upd by reflexivity. exact (c_strs _ _ _ C Hv x Hx).
    - intros t' Ht'. transitivity (pc_get t' p1); [apply pc_get_eq; reflexivity|]. rewrite Hpc1. destruct (N.eqb_spec t' t); [contradiction|reflexivity].
    - exists []. cbn [map app]. transitivity (pc_get t p1); [apply pc_get_eq; reflexivity|]. now rewrite Hpc1, N.eqb_refl.
    - intros x. cbn [p_pcs set_handles set_vers]. specialize (Hp1 x). lia.
    - intros _ x [Q1 [Q2 Q3]] Hx. split; [|exact Hx]. split; [|split].
      + cbn [p_vers set_handles set_vers]. now rewrite Hregsum.
      + cbn [p_pcs set_handles set_vers]. specialize (Hr1 x). lia.
      + cbn [p_pcs set_handles set_vers]. specialize (Hp1 x). lia.
    - cbn [p_vers set_handles set_vers]. intros E. apply (f_equal (@length _)) in E. rewrite upd_nth_length in E.
      destruct (p_vers p); [congruence|discriminate].
    - exact G.
  Qed.

  Lemma drop_step h v : pc_get t p = IDropSnap h :: rest -> aget h (p_snaps p) = Some v ->
    StepOut True p fs t rest (unref_drop t v (set_handles p1 (adel h (p_snaps p1)))) fs.
  Proof.
    intros Epc Hsome. destruct (pop_facts p t _ rest (r_keys _ _ R) Epc) as [Hk1 [Hpc1 [Hr1 Hp1]]]. fold p1 in Hk1, Hpc1, Hr1, Hp1.
    pose proof (RInv_core _ _ R) as C. pose proof (vers_nonempty _ _ R Hmain) as Hv.
    change (p_snaps p1) with (p_snaps p). set (q := set_handles p1 (adel h (p_snaps p))).
    pose proof (c_hvalid _ _ _ C h v (aget_In _ _ _ Hsome)) as Hlt.
    assert (CX : RCore q fs (fun j => if Nat.eqb j v then 1 else 0)%nat).
    { split; cbn [q p_refs p_snaps p_vers p_cur p_ms p_pcs set_handles].
      - exact (c_wf _ _ _ C).
      - exact Hk1.
      - apply adel_skeys, (c_skeys _ _ _ C).
      - intros x. specialize (Hr1 x). specialize (Hp1 x). cbn [is_rel is_pin] in Hr1, Hp1. pose proof (c_bal _ _ _ C x).
        change (p_refs p1) with (p_refs p). change (p_vers p1) with (p_vers p). lia.
      - exact (c_sst _ _ _ C).
      - intros j w Hj. pose proof (c_strong _ _ _ C j w Hj) as H. pose proof (nh_adel j h _ v (c_skeys _ _ _ C) Hsome) as Hn.
        cbv beta in H. change (p_cur p1) with (p_cur p). rewrite (Nat.eqb_sym j v). destruct (Nat.eqb v j); lia.
      - intros h' j Hin. apply adel_In in Hin. exact (c_hvalid _ _ _ C h' j (proj1 Hin)).
      - exact (c_cur _ _ _ C).
      - exact (c_reg _ _ _ C).
      - exact (c_strs _ _ _ C). }
    destruct (unref_core q fs t v CX Hlt) as [C' [U1 [[l [U2 U3]] [U4 [U5 [U6 U7]]]]]].
    assert (Hq_pc : forall t', pc_get t' q = pc_get t' p1) by (intros t'; apply pc_get_eq; reflexivity).
    split.
    - exact C'.
    - intros t' Ht'. rewrite (U1 t' Ht'), Hq_pc, Hpc1. destruct (N.eqb_spec t' t); [contradiction|reflexivity].
    - exists l. rewrite U2, Hq_pc, Hpc1, N.eqb_refl. reflexivity.
    - intros x. pose proof (c_bal _ _ _ C' x) as B'. pose proof (c_bal _ _ _ C x) as B. specialize (Hp1 x). cbn [is_pin] in Hp1.
      assert (Hpush : spc (npin x) (p_pcs (unref_drop t v q)) = spc (npin x) (p_pcs q)).
      { unfold unref_drop. destruct (Nat.eqb (strong_of q v) 1); [|reflexivity].
        destruct (push_facts (set_vers q (upd_nth v retire (p_vers q)) (p_cur q)) t (map IRelease (names_of q v)) (c_keys _ _ _ CX)) as [_ [_ [_ K]]].
        cbn zeta in K. rewrite K, npin_releases. cbn [p_pcs set_vers]. lia. }
      rewrite Hpush. cbn [q p_pcs set_handles]. lia.
    - intros _ x [Q1 [Q2 Q3]] Hx. split; [|exact Hx].
      assert (Hnl : ~ In x l).
      { intros Hin. specialize (U3 x Hin). cbn [q p_vers set_handles] in U3. change (p_vers p1) with (p_vers p) in U3. lia. }
      split; [|split].
      + pose proof (U6 x) as K. cbn [q p_vers set_handles] in K. change (p_vers p1) with (p_vers p) in K. lia.
      + pose proof (c_bal _ _ _ C' x) as B'. pose proof (c_bal _ _ _ C x) as B. rewrite U5 in B'.
        cbn [q p_refs set_handles] in B'. change (p_refs p1) with (p_refs p) in B'.
        pose proof (U6 x) as K. cbn [q p_vers set_handles] in K. change (p_vers p1) with (p_vers p) in K.
        pose proof (rc_ge_regsum p fs x R). 
        assert (Hpins : (spc (npin x) (p_pcs (unref_drop t v q)) <= spc (npin x) (p_pcs p))%nat).
        { specialize (Hp1 x). cbn [is_pin] in Hp1.
          unfold unref_drop. destruct (Nat.eqb (strong_of q v) 1); [|cbn [q p_pcs set_handles set_vers]; lia].
          destruct (push_facts (set_vers q (upd_nth v retire (p_vers q)) (p_cur q)) t (map IRelease (names_of q v)) (c_keys _ _ _ CX)) as [_ [_ [_ K']]].
          cbn zeta in K'. rewrite K', npin_releases. cbn [q p_pcs set_handles set_vers]. lia. }
        lia.
      + specialize (Hp1 x). cbn [is_pin] in Hp1.
        unfold unref_drop. destruct (Nat.eqb (strong_of q v) 1); [|cbn [q p_pcs set_handles set_vers]; lia].
        destruct (push_facts (set_vers q (upd_nth v retire (p_vers q)) (p_cur q)) t (map IRelease (names_of q v)) (c_keys _ _ _ CX)) as [_ [_ [_ K']]].
        cbn zeta in K'. rewrite K', npin_releases. cbn [q p_pcs set_handles set_vers]. lia.
    - apply U7. exact Hv.
    - exact G.
  Qed.
End WorkStep2.

Section WorkStep3.
  Variables (s : sys) (p : proc) (t : N) (rest : list instr).
  Let fs := s_fs s.
  Hypothesis Hh : Hd fs p.
  Hypothesis Hmain : main_pc p = [].
  Hypothesis R : RInv p fs.
  Hypothesis G : GFs fs.
  Let p1 := pc_set t rest p.

  Lemma commit_step oe roll s1 q0 :
    pc_get t p = ICommit oe roll :: rest ->
    (match oe with Some e => store_apply s p1 e roll | None => (s, p1) end) = (s1, q0) ->
    let adds := match oe with Some e => e_add e | None => [] end in
    let names' := match oe with
                  | Some e => dels (e_rm e) (names_of p1 (p_cur p1)) ++ e_add e
                  | None => names_of p1 (p_cur p1)
                  end in
    (forall y, In y adds -> In y (f_sst fs)) ->
    StepOut (forall x, quiet x p -> ~ In x adds) p fs t rest
      (unref_drop t (p_cur p1)
         (set_refs (set_vers q0 (p_vers q0 ++ [mkV names' 1 true]) (length (p_vers q0)))
                   (rc_incs names' (p_refs (set_vers q0 (p_vers q0 ++ [mkV names' 1 true]) (length (p_vers q0)))))))
      (s_fs s1).
  Proof.
    intros Epc Es adds names' Hadds.
    destruct (pop_facts p t _ rest (r_keys _ _ R) Epc) as [Hk1 [Hpc1 [Hr1 Hp1]]]. fold p1 in Hk1, Hpc1, Hr1, Hp1.
    pose proof (RInv_core _ _ R) as C. pose proof (vers_nonempty _ _ R Hmain) as Hv.
    assert (Hr1' : forall x, spc (nrel x) (p_pcs p1) = spc (nrel x) (p_pcs p)) by (intros x; specialize (Hr1 x); cbn [is_rel] in Hr1; lia).
    assert (Hp1' : forall x, spc (npin x) (p_pcs p1) = spc (npin x) (p_pcs p)) by (intros x; specialize (Hp1 x); cbn [is_pin] in Hp1; lia).
    change (names_of p1 (p_cur p1)) with (names_of p (p_cur p)) in names'. change (p_cur p1) with (p_cur p).
    (* what the manifest edit does *)
    assert (Hq0 : p_vers q0 = p_vers p /\ p_cur q0 = p_cur p /\ p_refs q0 = p_refs p /\ p_snaps q0 = p_snaps p /\
                  p_pcs q0 = p_pcs p1 /\ f_sst (s_fs s1) = f_sst fs /\
                  ms_strs (frag_state (md_live (f_md (s_fs s1)))) = ms_strs (p_ms q0) /\
                  (forall y, In y (ms_strs (p_ms q0)) -> In y adds \/ (In y (ms_strs (p_ms p)) /\ In y names'))).
    { destruct oe as [e|].
      - destruct (store_apply_unfold s p1 e roll) as [d [ms [next [r [Ea Eu]]]]]. rewrite Eu in Es. injection Es as <- <-.
        destruct (md_apply_live _ _ _ _ _ _ _ _ _ (proj1 Hh) Ea) as [A1 A2].
        cbn [p_vers p_cur p_refs p_snaps p_pcs p_ms set_mani s_fs set_md f_sst f_md]. repeat split; try reflexivity.
        + now rewrite A2, A1.
        + intros y Hy. rewrite A1 in Hy. apply apply_edit_In in Hy. destruct Hy as [Hy|[Hy Hn]]; [now left|right].
          split; [exact Hy|]. subst names'. apply in_or_app. left. apply dels_In. split; [|exact Hn].
          exact (r_strs _ _ R Hv y Hy).
      - injection Es as <- <-. repeat split; try reflexivity.
        + exact (live_is_ms s p Hh).
        + intros y Hy. right. split; [exact Hy|]. exact (r_strs _ _ R Hv y Hy). }
    destruct Hq0 as [E1 [E2 [E3 [E4 [E5 [E6 [E7 E8]]]]]]].
    assert (Hnames_sst : forall y, In y names' -> In y (f_sst fs)).
    { intros y Hy. subst names'. destruct oe as [e|].
      - apply in_app_iff in Hy. destruct Hy as [Hy|Hy]; [|now apply Hadds]. apply dels_In in Hy.
        exact (cur_names_in_sst p fs y R Hv (proj1 Hy)).
      - exact (cur_names_in_sst p fs y R Hv Hy). }
    assert (Hstrs' : forall y, In y (ms_strs (p_ms q0)) -> In y names').
    { intros y Hy. destruct (E8 y Hy) as [K|[_ K]]; [|exact K]. subst names' adds. destruct oe as [e|]; [apply in_or_app; now right|destruct K]. }
    assert (C0 : RCore p (s_fs s1) (fun _ => O)).
    { split; try (now destruct C). intros x Hx. rewrite E6. exact (c_sst _ _ _ C x Hx). }
    destruct (commit_core p (s_fs s1) names' q0 C0 Hv E1 E2 E3 E4) as [CX [Hlt Hregs]].
    { now rewrite E5. }
    { intros x. now rewrite E5. }
    { intros x. now rewrite E5. }
    { intros y Hy. rewrite E6. now apply Hnames_sst. }
    { exact Hstrs'. }
    cbn zeta in CX, Hlt, Hregs.
    set (q2 := set_refs (set_vers q0 (p_vers q0 ++ [mkV names' 1 true]) (length (p_vers q0)))
                        (rc_incs names' (p_refs (set_vers q0 (p_vers q0 ++ [mkV names' 1 true]) (length (p_vers q0)))))) in *.
    destruct (unref_core q2 (s_fs s1) t (p_cur p) CX Hlt) as [C' [U1 [[l [U2 U3]] [U4 [U5 [U6 U7]]]]]].
    assert (Hq2_pc : forall t', pc_get t' q2 = pc_get t' p1) by (intros t'; apply pc_get_eq; exact E5).
    assert (Hpins : forall x, spc (npin x) (p_pcs (unref_drop t (p_cur p) q2)) = spc (npin x) (p_pcs p)).
    { intros x. unfold unref_drop. destruct (Nat.eqb (strong_of q2 (p_cur p)) 1).
      - destruct (push_facts (set_vers q2 (upd_nth (p_cur p) retire (p_vers q2)) (p_cur q2)) t (map IRelease (names_of q2 (p_cur p))) (c_keys _ _ _ CX)) as [_ [_ [_ K']]].
        cbn zeta in K'. rewrite K', npin_releases. cbn [q2 p_pcs set_refs set_vers]. rewrite E5, Hp1'. lia.
      - cbn [q2 p_pcs set_refs set_vers]. now rewrite E5, Hp1'. }
    split.
    - exact C'.
    - intros t' Ht'. rewrite (U1 t' Ht'), Hq2_pc, Hpc1. destruct (N.eqb_spec t' t); [contradiction|reflexivity].
    - exists l. rewrite U2, Hq2_pc, Hpc1, N.eqb_refl. reflexivity.
    - intros x. rewrite Hpins. lia.
    - intros Hquiet x Q Hx. pose proof Q as [Q1 [Q2 Q3]].
      assert (Hcn : cnt x names' = O).
      { destruct (Nat.eq_dec (cnt x names') 0) as [E|E]; [exact E|exfalso].
        assert (Hin : In x names') by (apply cnt_pos; lia). subst names'. destruct oe as [e|].
        - apply in_app_iff in Hin. destruct Hin as [Hin|Hin]; [|exact (Hquiet x Q Hin)]. apply dels_In in Hin.
          destruct (cur_registered p fs R Hv) as [v [Ev [Hreg _]]]. destruct Hin as [Hin _]. unfold names_of in Hin. rewrite Ev in Hin.
          pose proof (regsum_ge x _ _ _ Ev) as Hge. unfold contrib in Hge. rewrite Hreg in Hge. apply cnt_pos in Hin. lia.
        - destruct (cur_registered p fs R Hv) as [v [Ev [Hreg _]]]. unfold names_of in Hin. rewrite Ev in Hin.
          pose proof (regsum_ge x _ _ _ Ev) as Hge. unfold contrib in Hge. rewrite Hreg in Hge. apply cnt_pos in Hin. lia. }
      assert (Hz2 : regsum x (p_vers q2) = O) by (rewrite Hregs; lia).
      assert (Hnl : ~ In x l) by (intros Hin; specialize (U3 x Hin); lia).
      split; [|now rewrite E6]. split; [|split].
      + pose proof (U6 x). lia.
      + pose proof (c_bal _ _ _ C' x) as B'. rewrite U5 in B'. cbn [q2 p_refs set_refs set_vers] in B'.
        rewrite rc_get_incs, E3, Hcn, Hpins in B'. pose proof (c_bal _ _ _ C x) as B. pose proof (U6 x). lia.
      + now rewrite Hpins.
    - apply U7. cbn [q2 p_vers set_refs set_vers]. intros E. apply (f_equal (@length _)) in E. rewrite app_length in E. cbn in E. lia.
    - intros y Hy. rewrite E7 in Hy. rewrite E6. destruct (E8 y Hy) as [K|[K _]]; [now apply Hadds|].
      apply G. unfold fs. rewrite (live_is_ms s p Hh). exact K.
  Qed.
End WorkStep3.

(* ---------------------------------------------------------------- assembling a step of a working thread *)
Lemma stepout_rinv Q p fs t rest p' fs' :
  StepOut Q p fs t rest p' fs' -> RInv p fs -> main_pc p = [] -> t <> T_MAIN ->
  (t = T_FLUSH -> flush_ok p' fs') ->
  (t <> T_FLUSH -> Q /\ worker_ok rest) -> RInv p' fs'.
Proof.
  intros [C Ho [l Hs] Hp Hq Hv Hg] R Hm Ht Hf Hw.
  apply RInv_join.
  - exact C.
  - apply main_ok_idle; [|exact Hv]. unfold main_pc. rewrite Ho by congruence. exact Hm.
  - destruct (N.eq_dec t T_FLUSH) as [E|E]; [now apply Hf|]. destruct (Hw E) as [HQ _].
    apply (flush_ok_other p fs); [exact (r_flush _ _ R)|apply Ho; congruence| |exact (Hq HQ)].
    intros x Hx. specialize (Hp x). lia.
  - intros t' H1 H2. destruct (N.eq_dec t' t) as [->|Hne].
    + rewrite Hs. apply worker_ok_push. exact (proj2 (Hw H2)).
    + rewrite (Ho t' Hne). exact (r_work _ _ R t' H1 H2).
Qed.

Lemma adel_adel {A} t (l : list (N * A)) : adel t (adel t l) = adel t l.
Proof.
  induction l as [|[k v] l IH]; [reflexivity|]. cbn [adel]. destruct (N.eqb_spec t k) as [->|Hne]; [assumption|].
  cbn [adel]. destruct (N.eqb_spec t k); [contradiction|]. now f_equal.
Qed.

Lemma pc_set_nil_twice t l p : pc_set t [] (pc_set t l p) = pc_set t [] p.
Proof.
  unfold pc_set, set_pcs. cbn [p_vers p_cur p_refs p_snaps p_ms p_next p_seq p_memseq p_lognum p_pcs p_ready].
  f_equal. destruct l as [|i l].
  - apply adel_adel.
  - unfold aset. cbn [adel]. rewrite N.eqb_refl. apply adel_adel.
Qed.

Section Abort.
  Variables (s : sys) (p : proc) (t : N) (pre : list instr).
  Let fs := s_fs s.
  Hypothesis Hmain : main_pc p = [].
  Hypothesis R : RInv p fs.
  Hypothesis G : GFs fs.

  (* a thread gives up: its remaining instructions (none of them a pin or a release) are dropped *)
  Lemma abort_step : pc_get t p = pre -> (forall x, nrel x pre = O /\ npin x pre = O) ->
    StepOut True p fs t [] (pc_set t [] p) fs.
  Proof.
    intros Epc Hpre. pose proof (RInv_core _ _ R) as C. pose proof (vers_nonempty _ _ R Hmain) as Hv.
    assert (Hr : forall x, spc (nrel x) (p_pcs (pc_set t [] p)) = spc (nrel x) (p_pcs p)).
    { intros x. pose proof (spc_set (nrel x) t [] p (nrel_nil x) (c_keys _ _ _ C)) as H. rewrite Epc, (proj1 (Hpre x)), nrel_nil in H. lia. }
    assert (Hp : forall x, spc (npin x) (p_pcs (pc_set t [] p)) = spc (npin x) (p_pcs p)).
    { intros x. pose proof (spc_set (npin x) t [] p (npin_nil x) (c_keys _ _ _ C)) as H. rewrite Epc, (proj2 (Hpre x)), npin_nil in H. lia. }
    split.
    - split.
      + exact (c_wf _ _ _ C).
      + apply pc_set_keys, (c_keys _ _ _ C).
      + exact (c_skeys _ _ _ C).
      + intros x. rewrite Hr, Hp. exact (c_bal _ _ _ C x).
      + exact (c_sst _ _ _ C).
      + exact (c_strong _ _ _ C).
      + exact (c_hvalid _ _ _ C).
      + exact (c_cur _ _ _ C).
      + exact (c_reg _ _ _ C).
      + exact (c_strs _ _ _ C).
    - intros t' Ht'. now apply pc_get_set_other.
    - exists []. apply pc_get_set_same.
    - intros x. rewrite Hp. lia.
    - intros _ x [Q1 [Q2 Q3]] Hx. split; [split; [exact Q1|split; [now rewrite Hr|now rewrite Hp]]|exact Hx].
    - exact Hv.
    - exact G.
  Qed.
End Abort.

Lemma worker_head_instr i rest : worker_ok (i :: rest) -> worker_instr i.
Proof. intros [H _]. now inversion H. Qed.

Lemma rel_or_rename_tail i rest : Forall rel_or_rename (i :: rest) -> Forall rel_or_rename rest.
Proof. intros H. now inversion H. Qed.

Lemma rel_or_rename_push l rest : Forall rel_or_rename rest -> Forall rel_or_rename (map IRelease l ++ rest).
Proof. intros H. apply Forall_app. split; [|exact H]. induction l; constructor; [exact I|assumption]. Qed.

Theorem step_work s p t i rest s' op' :
  Hd (s_fs s) p -> main_pc p = [] -> t <> T_MAIN -> RInv p (s_fs s) -> GFs (s_fs s) ->
  pc_get t p = i :: rest -> exec t i s (pc_set t rest p) = (s', op') ->
  GFs (s_fs s') /\ forall p', op' = Some p' -> RInv p' (s_fs s').
Proof.
  intros Hh Hm Ht R G Epc Ex. set (p1 := pc_set t rest p) in *.
  assert (Fin : forall Q p' fs', StepOut Q p (s_fs s) t rest p' fs' ->
            (t = T_FLUSH -> flush_ok p' fs') -> (t <> T_FLUSH -> Q /\ worker_ok rest) ->
            GFs fs' /\ RInv p' fs').
  { intros Q p' fs' SO Hf Hw. split; [exact (so_g _ _ _ _ _ _ _ SO)|]. exact (stepout_rinv Q p (s_fs s) t rest p' fs' SO R Hm Ht Hf Hw). }
  destruct (N.eq_dec t T_FLUSH) as [->|Hnf].
  - (* the memtable thread *)
    destruct (r_flush _ _ R) as [[x [L [r [n [E Hz]]]]]|[[x [L [r [n [E [Hx Hq]]]]]]|Hall]].
    + (* about to link the new sst *)
      rewrite E in Epc. injection Epc as <- <-. cbn [exec] in Ex. destruct (mem x (f_sst (s_fs s))) eqn:Emem.
      * injection Ex as <- <-. subst p1. rewrite pc_set_nil_twice.
        assert (SO := abort_step s p T_FLUSH _ Hm R G E
                        (fun y => conj (eq_refl : nrel y [ILinkExcl x; ICommit (Some (mkEdit [] [x] L)) r; IRenameLog n] = O) eq_refl)).
        split; [exact G|]. intros p' [= <-].
        apply (stepout_rinv True p (s_fs s) T_FLUSH [] _ _ SO R Hm Ht).
        -- intros _. apply flush_ok_idle. apply pc_get_set_same.
        -- congruence.
      * injection Ex as <- <-.
        assert (SO : StepOut True p (s_fs s) T_FLUSH [ICommit (Some (mkEdit [] [x] L)) r; IRenameLog n] p1
                       (set_sst (s_fs s) (f_sst (s_fs s) ++ [x]) (f_trash (s_fs s)))).
        { apply (pop_step s p T_FLUSH _ Hm R G (ILinkExcl x)); [exact E|intros y; split; reflexivity|reflexivity|].
          intros y Hy. cbn [f_sst set_sst]. apply in_or_app. now left. }
        destruct (Fin _ _ _ SO) as [K1 K2].
        -- intros _. right. left. exists x, L, r, n. split; [|split].
           ++ subst p1. apply pc_get_set_same.
           ++ cbn [f_sst set_sst]. apply in_or_app. right. now left.
           ++ (* nobody counts, pins or is about to release x *)
              assert (Hrc : rc_get x (p_refs p) = O).
              { destruct (rc_get x (p_refs p)) eqn:Erc; [reflexivity|exfalso].
                apply mem_false in Emem. apply Emem. apply (r_sst _ _ R). lia. }
              pose proof (rc_ge_regsum p _ x R) as Hge. pose proof (r_bal _ _ R x) as B.
              destruct (pop_facts p T_FLUSH _ _ (r_keys _ _ R) E) as [_ [_ [Hr1 Hp1]]].
              specialize (Hr1 x). specialize (Hp1 x). cbn [is_rel is_pin] in Hr1, Hp1.
              split; [change (p_vers p1) with (p_vers p); lia|split; subst p1; lia].
        -- congruence.
        -- split; [exact K1|]. intros p' [= <-]. exact K2.
    + (* the critical section *)
      rewrite E in Epc. injection Epc as <- <-. cbn [exec] in Ex.
      destruct (store_apply s p1 (mkEdit [] [x] L) r) as [s1 q0] eqn:Es.
      injection Ex as <- <-.
      pose proof (commit_step s p T_FLUSH _ Hh Hm R G (Some (mkEdit [] [x] L)) r s1 q0 E Es) as SO. cbn zeta in SO.
      assert (Hadds : forall y, In y (e_add (mkEdit [] [x] L)) -> In y (f_sst (s_fs s))) by (intros y [<-|[]]; exact Hx).
      specialize (SO Hadds).
      destruct (Fin _ _ _ SO) as [K1 K2].
      * intros _. destruct (so_self _ _ _ _ _ _ _ SO) as [l Hl]. right. right. unfold flush_ok. rewrite Hl.
        apply rel_or_rename_push. repeat constructor.
      * congruence.
      * split; [exact K1|]. intros p' [= <-]. exact K2.
    + (* releasing the previous version, then renaming the log *)
      rewrite Epc in Hall. pose proof (rel_or_rename_tail _ _ Hall) as Htl.
      assert (Hi : rel_or_rename i) by now inversion Hall.
      destruct i as [x|x|oe roll|x|h|h|n| | |x|x roll| | |x|rec tm]; cbn in Hi; try contradiction; cbn [exec] in Ex.
      * (* IRelease *)
        pose proof (release_step s p T_FLUSH _ Hh Hm R G x Epc) as SO. fold p1 in SO.
        destruct (rc_dec x (p_refs p1)) as [r0 last] eqn:Ed. cbn [fst snd] in SO. injection Ex as <- <-.
        assert (Efs : (if last then to_trash x (s_fs s) else s_fs s) = s_fs (mkSys (if last then to_trash x (s_fs s) else s_fs s) (s_p s) (s_v s) (s_hist s) (s_frags s))) by reflexivity.
        destruct (Fin _ _ _ SO) as [K1 K2].
        -- intros _. destruct (so_self _ _ _ _ _ _ _ SO) as [l Hl]. right. right. unfold flush_ok. rewrite Hl.
           now apply rel_or_rename_push.
        -- congruence.
        -- split; [exact K1|]. intros p' [= <-]. exact K2.
      * (* IRenameLog *)
        destruct (log_find n (f_logs (s_fs s))) as [lg|]; injection Ex as <- <-.
        -- assert (SO : StepOut True p (s_fs s) T_FLUSH rest p1
                           (set_logs (s_fs s) (log_remove n (f_logs (s_fs s))) (log_insert lg (log_remove n (f_tlogs (s_fs s)))))).
           { apply (pop_step s p T_FLUSH _ Hm R G (IRenameLog n)); [exact Epc|intros y; split; reflexivity|reflexivity|auto]. }
           destruct (Fin _ _ _ SO) as [K1 K2].
           ++ intros _. right. right. unfold flush_ok. subst p1. rewrite pc_get_set_same. exact Htl.
           ++ congruence.
           ++ split; [exact K1|]. intros p' [= <-]. exact K2.
        -- assert (SO : StepOut True p (s_fs s) T_FLUSH rest p1 (s_fs s)).
           { apply (pop_step s p T_FLUSH _ Hm R G (IRenameLog n)); [exact Epc|intros y; split; reflexivity|reflexivity|auto]. }
           destruct (Fin _ _ _ SO) as [K1 K2].
           ++ intros _. right. right. unfold flush_ok. subst p1. rewrite pc_get_set_same. exact Htl.
           ++ congruence.
           ++ split; [exact K1|]. intros p' [= <-]. exact K2.
  - (* a compaction thread or a reader releasing its snapshot *)
    pose proof (r_work _ _ R t Ht Hnf) as W. rewrite Epc in W. pose proof (worker_ok_tail _ _ W) as Wt.
    pose proof (worker_head_instr _ _ W) as Hi.
    destruct i as [x|x|oe roll|x|h|h|n| | |x|x roll| | |x|rec tm]; cbn in Hi; try contradiction; cbn [exec] in Ex.
    + (* IPinLink *)
      injection Ex as <- <-. pose proof (pin_step s p t _ Hm R G x Epc) as SO.
      destruct (Fin _ _ _ SO) as [K1 K2]; [contradiction|intros _; split; [exact I|exact Wt]|].
      split; [exact K1|]. intros p' [= <-]. exact K2.
    + (* ICommit *)
      destruct (match oe with Some e => store_apply s p1 e roll | None => (s, p1) end) as [s1 q0] eqn:Es.
      assert (Ex' : (s1, Some (unref_drop t (p_cur p1)
                 (set_refs (set_vers q0 (p_vers q0 ++ [mkV (match oe with
                                                            | Some e => dels (e_rm e) (names_of p1 (p_cur p1)) ++ e_add e
                                                            | None => names_of p1 (p_cur p1) end) 1 true]) (length (p_vers q0)))
                           (rc_incs (match oe with
                                     | Some e => dels (e_rm e) (names_of p1 (p_cur p1)) ++ e_add e
                                     | None => names_of p1 (p_cur p1) end)
                                    (p_refs (set_vers q0 (p_vers q0 ++ [mkV (match oe with
                                                            | Some e => dels (e_rm e) (names_of p1 (p_cur p1)) ++ e_add e
                                                            | None => names_of p1 (p_cur p1) end) 1 true]) (length (p_vers q0)))))))) = (s', op')).
      { rewrite <- Ex. destruct oe; reflexivity. }
      injection Ex' as <- <-.
      pose proof (commit_step s p t _ Hh Hm R G oe roll s1 q0 Epc Es) as SO. cbn zeta in SO.
      assert (Hco : forall x, In x (match oe with Some e => e_add e | None => [] end) -> (1 <= nrel x rest)%nat /\ npin x rest = O).
      { intros x Hx. destruct oe as [e|]; [|destruct Hx]. destruct (proj2 (proj2 W) [] e roll rest eq_refl) as [C1 C2]. split; [now apply C1|apply C2]. }
      assert (Hadds : forall y, In y (match oe with Some e => e_add e | None => [] end) -> In y (f_sst (s_fs s))).
      { intros y Hy. destruct (Hco y Hy) as [C1 C2]. apply (r_sst _ _ R). pose proof (r_bal _ _ R y) as B.
        assert (H : (spc (npin y) (p_pcs p) + 1 <= spc (nrel y) (p_pcs p))%nat).
        { apply (spc_diff _ _ t 1 p (npin_nil y) (nrel_nil y) (r_keys _ _ R) (entries_balanced p _ y R)).
          rewrite Epc, npin_cons, nrel_cons. cbn [is_pin is_rel]. lia. }
        lia. }
      specialize (SO Hadds).
      destruct (Fin _ _ _ SO) as [K1 K2]; [contradiction| |].
      * intros _. split; [|exact Wt]. intros x [Q1 [Q2 Q3]] Hx. destruct (Hco x Hx) as [C1 _].
        pose proof (spc_ge (nrel x) t p) as H. rewrite Epc, nrel_cons in H. cbn [is_rel] in H. cbn in H. lia.
      * split; [exact K1|]. intros p' [= <-]. exact K2.
    + (* IRelease *)
      pose proof (release_step s p t _ Hh Hm R G x Epc) as SO. fold p1 in SO.
      destruct (rc_dec x (p_refs p1)) as [r0 last] eqn:Ed. cbn [fst snd] in SO. injection Ex as <- <-.
      destruct (Fin _ _ _ SO) as [K1 K2]; [contradiction|intros _; split; [exact I|exact Wt]|].
      split; [exact K1|]. intros p' [= <-]. exact K2.
    + (* ITake *)
      change (p_snaps p1) with (p_snaps p) in Ex. destruct (aget h (p_snaps p)) as [v|] eqn:Eh; injection Ex as <- <-.
      * assert (SO : StepOut True p (s_fs s) t rest p1 (s_fs s)).
        { apply (pop_step s p t _ Hm R G (ITake h)); [exact Epc|intros y; split; reflexivity|reflexivity|auto]. }
        destruct (Fin _ _ _ SO) as [K1 K2]; [contradiction|intros _; split; [exact I|exact Wt]|].
        split; [exact K1|]. intros p' [= <-]. exact K2.
      * pose proof (take_step s p t _ Hm R G h Epc Eh) as SO.
        destruct (Fin _ _ _ SO) as [K1 K2]; [contradiction|intros _; split; [exact I|exact Wt]|].
        split; [exact K1|]. intros p' [= <-]. exact K2.
    + (* IDropSnap *)
      change (p_snaps p1) with (p_snaps p) in Ex. destruct (aget h (p_snaps p)) as [v|] eqn:Eh; injection Ex as <- <-.
      * pose proof (drop_step s p t _ Hm R G h v Epc Eh) as SO.
        destruct (Fin _ _ _ SO) as [K1 K2]; [contradiction|intros _; split; [exact I|exact Wt]|].
        split; [exact K1|]. intros p' [= <-]. exact K2.
      * assert (SO : StepOut True p (s_fs s) t rest p1 (s_fs s)).
        { apply (pop_step s p t _ Hm R G (IDropSnap h)); [exact Epc|intros y; split; reflexivity|reflexivity|auto]. }
        destruct (Fin _ _ _ SO) as [K1 K2]; [contradiction|intros _; split; [exact I|exact Wt]|].
        split; [exact K1|]. intros p' [= <-]. exact K2.
Qed.

(* ---------------------------------------------------------------- frames *)
Lemma RInv_fs p fs fs' : f_sst fs' = f_sst fs -> RInv p fs -> RInv p fs'.
Proof.
  intros E [H1 H2 H3 H4 H5 H6 H7 H8 H9 H10 [M1 M2 M3 M4 M5 M6] H12 H13].
  split; auto.
  - intros x Hx. rewrite E. auto.
  - split; auto. intros a x r b Es. rewrite E. eauto.
  - destruct H12 as [K|[[x [L [r [n [K1 [K2 K3]]]]]]|K]]; [left; exact K| |right; right; exact K].
    right. left. exists x, L, r, n. rewrite E. auto.
Qed.

Lemma RInv_kvs p fs a b c d : RInv p fs -> RInv (set_kvs p a b c d) fs.
Proof.
  intros [H1 H2 H3 H4 H5 H6 H7 H8 H9 H10 [M1 M2 M3 M4 M5 M6] H12 H13].
  split; auto. split; auto.
Qed.

Lemma GFs_fs fs fs' : f_sst fs' = f_sst fs -> md_live (f_md fs') = md_live (f_md fs) -> GFs fs -> GFs fs'.
Proof. intros E1 E2 G x Hx. unfold GFs in *. rewrite E1. rewrite E2 in Hx. auto. Qed.

(* a thread that is neither the opening one nor the memtable thread gets a program *)
Lemma RInv_spawn p fs t prog :
  RInv p fs -> main_pc p = [] -> t <> T_MAIN -> t <> T_FLUSH -> pc_get t p = [] -> worker_ok prog ->
  (forall x, npin x prog = nrel x prog) ->
  (forall x L r n rest, pc_get T_FLUSH p = rest ++ [ICommit (Some (mkEdit [] [x] L)) r; IRenameLog n] -> npin x prog = O) ->
  RInv (pc_set t prog p) fs.
Proof.
  intros R Hm Ht Hf Hidle W Heq Hfl.
  pose proof (RInv_core _ _ R) as C. pose proof (vers_nonempty _ _ R Hm) as Hv.
  assert (Hr : forall x, spc (nrel x) (p_pcs (pc_set t prog p)) = (spc (nrel x) (p_pcs p) + nrel x prog)%nat).
  { intros x. pose proof (spc_set (nrel x) t prog p (nrel_nil x) (c_keys _ _ _ C)) as H. rewrite Hidle, nrel_nil in H. lia. }
  assert (Hp : forall x, spc (npin x) (p_pcs (pc_set t prog p)) = (spc (npin x) (p_pcs p) + npin x prog)%nat).
  { intros x. pose proof (spc_set (npin x) t prog p (npin_nil x) (c_keys _ _ _ C)) as H. rewrite Hidle, npin_nil in H. lia. }
  apply RInv_join.
  - split.
    + exact (c_wf _ _ _ C).
    + apply pc_set_keys, (c_keys _ _ _ C).
    + exact (c_skeys _ _ _ C).
    + intros x. rewrite Hr, Hp, Heq. pose proof (c_bal _ _ _ C x). cbn [p_refs p_vers pc_set set_pcs]. lia.
    + exact (c_sst _ _ _ C).
    + exact (c_strong _ _ _ C).
    + exact (c_hvalid _ _ _ C).
    + exact (c_cur _ _ _ C).
    + exact (c_reg _ _ _ C).
    + exact (c_strs _ _ _ C).
  - apply main_ok_idle; [|exact Hv]. unfold main_pc. rewrite pc_get_set_other by congruence. exact Hm.
  - assert (Ef : pc_get T_FLUSH (pc_set t prog p) = pc_get T_FLUSH p) by (apply pc_get_set_other; congruence).
    destruct (r_flush _ _ R) as [[x [L [r [n [E Hz]]]]]|[[x [L [r [n [E [Hx [Q1 [Q2 Q3]]]]]]]]|K]]; unfold flush_ok; rewrite Ef.
    + left. exists x, L, r, n. split; [exact E|]. rewrite Hp, Hz. apply (Hfl x L r n [ILinkExcl x]). exact E.
    + right. left. exists x, L, r, n. split; [exact E|split; [exact Hx|]].
      assert (Hz : npin x prog = O) by (apply (Hfl x L r n []); exact E).
      split; [exact Q1|split]; [rewrite Hr, <- Heq, Hz; lia|rewrite Hp, Hz; lia].
    + right. right. exact K.
  - intros t' H1 H2. destruct (N.eq_dec t' t) as [->|Hne]; [now rewrite pc_get_set_same|].
    rewrite pc_get_set_other by assumption. exact (r_work _ _ R t' H1 H2).
Qed.

(* ---------------------------------------------------------------- the program of open() *)
Definition linked (l : list instr) : Prop :=
  forall a x r b, l = a ++ IApplyIfAbsent x r :: b -> In (ILinkIfAbsent x) a.

Lemma linked_app l1 l2 : linked l1 -> linked l2 -> linked (l1 ++ l2).
Proof.
  intros H1 H2 a x r b E. apply app_eq_app in E. destruct E as [l [[E1 E2]|[E1 E2]]].
  - (* the split point lies in l1 or at its end *)
    destruct l as [|j l].
    + rewrite app_nil_r in E1. subst a. cbn [app] in E2. destruct (H2 [] x r b (eq_sym E2)).
    + cbn [app] in E2. injection E2 as <- E2. apply (H1 a x r l). exact E1.
  - subst a. apply in_or_app. right. apply (H2 l x r b). exact E2.
Qed.

Lemma linked_noapply l : (forall x r, ~ In (IApplyIfAbsent x r) l) -> linked l.
Proof. intros H a x r b E. exfalso. apply (H x r). rewrite E. apply in_or_app. right. now left. Qed.

Lemma linked_recover sums rolls lg : linked (recover_prog sums rolls lg).
Proof.
  unfold recover_prog. destruct (aget (l_num lg) sums) as [x|]; [destruct (l_maxts lg =? 0)|].
  - apply linked_noapply. intros y r [H|[]]. discriminate.
  - intros a y r b E. destruct a as [|j a]; [discriminate|]. injection E as <- E.
    destruct a as [|k a]; [injection E as <- _ _; now left|]. injection E as _ E. destruct a as [|k2 a]; [discriminate|].
    injection E as _ E. destruct a; discriminate.
  - apply linked_noapply. intros y r [H|[]]. discriminate.
Qed.

Lemma linked_flat sums rolls logs : linked (flat_map (recover_prog sums rolls) logs).
Proof.
  induction logs as [|lg logs IH]; cbn [flat_map]; [apply linked_noapply; intros x r []|].
  apply linked_app; [apply linked_recover|exact IH].
Qed.

Lemma sorted_rank2_prefix mid tailp : (forall i, In i mid -> rank i = 2%nat) -> StronglySorted rk_rel tailp ->
  (forall j, In j tailp -> (2 < rank j)%nat) -> StronglySorted rk_rel (mid ++ tailp).
Proof.
  intros Hm Hs Ht. induction mid as [|i mid IH]; [assumption|]. cbn [app]. constructor.
  - apply IH. intros j Hj. apply Hm. now right.
  - rewrite Forall_forall. intros j Hj. pose proof (Hm i (or_introl eq_refl)) as Hi. apply in_app_iff in Hj. destruct Hj as [Hj|Hj].
    + right. rewrite Hi, (Hm j (or_intror Hj)). auto.
    + left. rewrite Hi. now apply Ht.
Qed.

Lemma open_main_ok sums rolls logs rec tm fs :
  let prog := [IManiOpen; IInitEdit] ++ flat_map (recover_prog sums rolls) logs ++ [IFromManifest; IOrphans; INewLog rec tm] in
  main_ok (pc_set T_MAIN prog fresh_proc) fs.
Proof.
  cbn zeta. set (mid := flat_map (recover_prog sums rolls) logs).
  set (prog := [IManiOpen; IInitEdit] ++ mid ++ [IFromManifest; IOrphans; INewLog rec tm]).
  assert (Em : main_pc (pc_set T_MAIN prog fresh_proc) = prog) by apply pc_get_set_same.
  assert (Hmid : forall i, In i mid -> match i with ILinkIfAbsent _ | IApplyIfAbsent _ _ | IRenameLog _ => True | _ => False end).
  { intros i Hi. apply in_flat_map in Hi. destruct Hi as [l [_ Hl]]. exact (recover_prog_instrs _ _ _ _ Hl). }
  assert (Hmid2 : forall i, In i mid -> rank i = 2%nat).
  { intros i Hi. specialize (Hmid i Hi). destruct i; try contradiction; reflexivity. }
  assert (Hin : forall i, In i prog -> i = IManiOpen \/ i = IInitEdit \/ In i mid \/ i = IFromManifest \/ i = IOrphans \/ i = INewLog rec tm).
  { intros i Hi. subst prog. cbn [app] in Hi. destruct Hi as [<-|[<-|Hi]]; auto. apply in_app_iff in Hi.
    destruct Hi as [Hi|[<-|[<-|[<-|[]]]]]; auto 10. }
  split; rewrite ?Em.
  - subst prog. cbn [app].
    assert (Hs : StronglySorted rk_rel (mid ++ [IFromManifest; IOrphans; INewLog rec tm])).
    { apply sorted_rank2_prefix; [exact Hmid2| |].
      - repeat constructor; left; cbn; lia.
      - intros j [<-|[<-|[<-|[]]]]; cbn; lia. }
    assert (Hge : forall j, In j (mid ++ [IFromManifest; IOrphans; INewLog rec tm]) -> (2 <= rank j)%nat).
    { intros j Hj. apply in_app_iff in Hj. destruct Hj as [Hj|[<-|[<-|[<-|[]]]]]; [rewrite (Hmid2 j Hj)|cbn|cbn|cbn]; lia. }
    constructor; [constructor; [exact Hs|]|].
    + rewrite Forall_forall. intros j Hj. left. specialize (Hge j Hj). cbn. lia.
    + rewrite Forall_forall. intros j [<-|Hj]; left; [cbn; lia|]. specialize (Hge j Hj). cbn. lia.
  - rewrite Forall_forall. intros i Hi. destruct (Hin i Hi) as [E|[E|[H|[E|[E|E]]]]]; try (rewrite E; cbn; lia). rewrite (Hmid2 i H). lia.
  - intros a x r b E. left. revert a x r b E. change (linked prog). subst prog.
    apply linked_app; [apply linked_noapply; intros x r [H|[H|[]]]; discriminate|].
    apply linked_app; [apply linked_flat|apply linked_noapply; intros x r [H|[H|[H|[]]]]; discriminate].
  - intros x Hx. exfalso. destruct (Hin _ Hx) as [H|[H|[H|[H|[H|H]]]]]; try discriminate. exact (Hmid _ H).
  - left. split; [|split; [reflexivity|split; [reflexivity|split; [reflexivity|]]]].
    + subst prog. apply in_or_app. right. apply in_or_app. right. now left.
    + intros x Hx. destruct (Hin _ Hx) as [H|[H|[H|[H|[H|H]]]]]; try discriminate. exact (Hmid _ H).
  - intros _ H. exfalso. apply H. reflexivity.
Qed.

Lemma compaction_prog_counts (hc : N) ins outs roll (hold : bool) y :
  let prog := (if hold then [ITake hc] else [])
              ++ map IPinLink outs ++ [ICommit (Some (mkEdit ins outs None)) roll]
              ++ map IRelease outs ++ (if hold then [IDropSnap hc] else []) in
  npin y prog = cnt y outs /\ nrel y prog = cnt y outs.
Proof.
  cbn zeta. rewrite !npin_app, !nrel_app, npin_pins, nrel_pins, npin_releases, nrel_releases.
  destruct hold; cbn [npin nrel filter is_pin is_rel length]; split; lia.
Qed.

(* ---------------------------------------------------------------- the theorem *)
Lemma GInv_GFs s : GInv s <-> GFs (s_fs s).
Proof. unfold GInv, GFs, live_strs. tauto. Qed.

Lemma spc_all_zero f pcs : (forall k l, In (k, l) pcs -> f l = O) -> spc f pcs = O.
Proof. apply spc_zero. Qed.

Theorem InvR_step s ev : InvM s -> InvR s -> InvR (step s ev).
Proof.
  intros [HM HP] [G HR]. apply GInv_GFs in G.
  destruct ev as [sums rolls tm|t| |x roll|j ins outs roll hold|j|r|r| | |ok| ]; cbn [step].
  - (* EOpen *)
    destruct (s_p s) as [p|] eqn:Ep; [split; [now apply GInv_GFs|now rewrite Ep]|].
    match goal with |- InvR (if ?c then _ else _) => destruct c end; [|split; [now apply GInv_GFs|now rewrite Ep]].
    split; [apply GInv_GFs; cbn [s_fs upd_p upd_fs]; apply (GFs_fs (s_fs s)); [reflexivity|reflexivity|exact G]|].
    cbn [s_p s_fs upd_p upd_fs]. intros p [= <-].
    match goal with |- RInv (pc_set _ ?pr _) ?f => set (prog := pr); set (fs' := f) end.
    apply RInv_opening; try reflexivity.
    + apply pc_set_keys. constructor.
    + intros t Ht. rewrite pc_get_set_other by assumption. reflexivity.
    + apply open_main_ok.
  - (* EStep *)
    destruct (s_p s) as [p|] eqn:Ep; [|split; [now apply GInv_GFs|now rewrite Ep]].
    destruct (pc_get t p) as [|i rest] eqn:Epc; [split; [now apply GInv_GFs|now rewrite Ep]|].
    destruct (negb (p_ready p) && negb (t =? T_MAIN)) eqn:Eg; [split; [now apply GInv_GFs|now rewrite Ep]|].
    destruct (HP p eq_refl) as [[P1 P2 P3 P4] PH]. specialize (HR p eq_refl).
    destruct (exec t i s (pc_set t rest p)) as [s1 op] eqn:Ee.
    assert (K : GFs (s_fs s1) /\ forall p', op = Some p' -> RInv p' (s_fs s1)).
    { destruct (N.eq_dec t T_MAIN) as [->|Ht].
      - assert (Hnr : p_ready p = false).
        { destruct (p_ready p) eqn:Er; [|reflexivity]. unfold main_pc in P3. rewrite (P3 eq_refl) in Epc. discriminate. }
        apply (step_main s p i rest s1 op HM); auto.
        intros Hne. apply PH. unfold main_pc. rewrite Epc. intros [H|H]; [congruence|]. apply P1. unfold main_pc. now rewrite Epc.
      - assert (Hr : p_ready p = true).
        { destruct (p_ready p); [reflexivity|]. cbn in Eg. destruct (N.eqb_spec t T_MAIN); [contradiction|discriminate]. }
        apply (step_work s p t i rest s1 op); auto.
        apply PH. unfold main_pc in *. rewrite (P3 Hr). intros []. }
    destruct K as [K1 K2]. split; [apply GInv_GFs; exact K1|]. cbn [s_p s_fs upd_p]. intros p' Hp'. now apply K2.
  - (* EWrite *)
    destruct (s_p s) as [p|] eqn:Ep; [|split; [now apply GInv_GFs|now rewrite Ep]].
    destruct (p_ready p) eqn:Er; [|split; [now apply GInv_GFs|now rewrite Ep]].
    split; [apply GInv_GFs; apply (GFs_fs (s_fs s)); [reflexivity|reflexivity|exact G]|].
    cbn [s_p s_fs upd_p upd_fs]. intros p' [= <-]. apply RInv_kvs. apply (RInv_fs p (s_fs s)); [reflexivity|]. now apply HR.
  - (* EFlush *)
    destruct (s_p s) as [p|] eqn:Ep; [|split; [now apply GInv_GFs|now rewrite Ep]].
    match goal with |- InvR (if ?c then _ else _) => destruct c eqn:Ec end; [|split; [now apply GInv_GFs|now rewrite Ep]].
    apply andb_prop in Ec. destruct Ec as [Ec Epins]. apply andb_prop in Ec. destruct Ec as [Er Ebusy].
    split; [apply GInv_GFs; apply (GFs_fs (s_fs s)); [reflexivity|reflexivity|exact G]|].
    cbn [s_p s_fs upd_p upd_fs]. intros p' [= <-].
    destruct (HP p eq_refl) as [[P1 P2 P3 P4] PH]. specialize (HR p eq_refl).
    assert (Hm : main_pc p = []) by (apply P3; exact Er).
    assert (Hidle : pc_get T_FLUSH p = []).
    { unfold busy in Ebusy. destruct (pc_get T_FLUSH p); [reflexivity|discriminate]. }
    apply (RInv_fs _ (s_fs s)); [reflexivity|].
    set (q := set_kvs p (p_seq p + 1) (p_seq p) (p_seq p) true).
    assert (Rq : RInv q (s_fs s)) by now apply RInv_kvs.
    set (prog := [ILinkExcl x; ICommit (Some (mkEdit [] [x] (Some (p_memseq p)))) roll; IRenameLog (p_lognum p)]).
    pose proof (RInv_core _ _ Rq) as C. pose proof (vers_nonempty _ _ HR Hm) as Hv.
    assert (Hr' : forall y, spc (nrel y) (p_pcs (pc_set T_FLUSH prog q)) = spc (nrel y) (p_pcs q)).
    { intros y. pose proof (spc_set (nrel y) T_FLUSH prog q (nrel_nil y) (c_keys _ _ _ C)) as H.
      change (pc_get T_FLUSH q) with (pc_get T_FLUSH p) in H. rewrite Hidle in H. unfold prog in *.
      rewrite !nrel_cons, !nrel_nil in H. cbn [is_rel] in H. lia. }
    assert (Hp' : forall y, spc (npin y) (p_pcs (pc_set T_FLUSH prog q)) = spc (npin y) (p_pcs q)).
    { intros y. pose proof (spc_set (npin y) T_FLUSH prog q (npin_nil y) (c_keys _ _ _ C)) as H.
      change (pc_get T_FLUSH q) with (pc_get T_FLUSH p) in H. rewrite Hidle in H. unfold prog in *.
      rewrite !npin_cons, !npin_nil in H. cbn [is_pin] in H. lia. }
    apply RInv_join.
    + split.
      * exact (c_wf _ _ _ C).
      * apply pc_set_keys, (c_keys _ _ _ C).
      * exact (c_skeys _ _ _ C).
      * intros y. rewrite Hr', Hp'. exact (c_bal _ _ _ C y).
      * exact (c_sst _ _ _ C).
      * exact (c_strong _ _ _ C).
      * exact (c_hvalid _ _ _ C).
      * exact (c_cur _ _ _ C).
      * exact (c_reg _ _ _ C).
      * exact (c_strs _ _ _ C).
    + apply main_ok_idle; [|exact Hv]. unfold main_pc. rewrite pc_get_set_other by discriminate. exact Hm.
    + left. exists x, (Some (p_memseq p)), roll, (p_lognum p). split; [apply pc_get_set_same|].
      rewrite Hp'. apply spc_zero. intros k l Hin. rewrite forallb_forall in Epins. specialize (Epins (k, l) Hin). cbn [snd] in Epins.
      apply negb_true_iff in Epins. unfold npin.
      assert (Hnone : forall i, In i l -> is_pin x i = false).
      { intros i Hi. destruct (is_pin x i) eqn:E; [|reflexivity]. exfalso.
        assert (Hex : existsb (fun i => match i with IPinLink y => x =? y | _ => false end) l = true).
        { apply existsb_exists. exists i. split; [exact Hi|]. destruct i; try discriminate. exact E. }
        congruence. }
      clear -Hnone. induction l as [|i l IH]; [reflexivity|]. cbn [filter]. rewrite (Hnone i (or_introl eq_refl)).
      apply IH. intros j Hj. apply Hnone. now right.
    + intros t H1 H2. rewrite pc_get_set_other by assumption. exact (r_work _ _ Rq t H1 H2).
  - (* ECompact *)
    destruct (s_p s) as [p|] eqn:Ep; [|split; [now apply GInv_GFs|now rewrite Ep]].
    match goal with |- InvR (if ?c then _ else _) => destruct c eqn:Ec end; [|split; [now apply GInv_GFs|now rewrite Ep]].
    apply andb_prop in Ec. destruct Ec as [Ec Efl]. apply andb_prop in Ec. destruct Ec as [Er Ebusy].
    split; [now apply GInv_GFs|]. cbn [s_p s_fs upd_p]. intros p' [= <-].
    destruct (HP p eq_refl) as [[P1 P2 P3 P4] PH]. specialize (HR p eq_refl).
    assert (Hidle : pc_get (T_COMPACT j) p = []).
    { unfold busy in Ebusy. destruct (pc_get (T_COMPACT j) p); [reflexivity|discriminate]. }
    apply RInv_spawn; auto; try apply T_COMPACT_not_main; try apply T_COMPACT_not_flush.
    + apply worker_ok_compaction.
    + intros y. destruct (compaction_prog_counts (H_COMPACT j) ins outs roll hold y) as [K1 K2]. cbn zeta in K1, K2.
      etransitivity; [exact K1|symmetry; exact K2].
    + intros y L r n pre Efp. apply negb_true_iff in Efl.
      assert (Hno : ~ In y outs).
      { intros Hin. assert (Hex : existsb (fun i => match i with ICommit (Some e) _ => existsb (fun z => mem z outs) (e_add e) | _ => false end) (pc_get T_FLUSH p) = true).
        { apply existsb_exists. exists (ICommit (Some (mkEdit [] [y] L)) r). split.
          - rewrite Efp. apply in_or_app. right. now left.
          - cbn [e_add existsb]. apply mem_In in Hin. now rewrite Hin. }
        congruence. }
      assert (Hc : cnt y outs = O) by (destruct (cnt y outs) eqn:E; [reflexivity|exfalso; apply Hno, cnt_pos; lia]).
      destruct (compaction_prog_counts (H_COMPACT j) ins outs roll hold y) as [K1 _]. cbn zeta in K1. etransitivity; [exact K1|exact Hc].
  - (* EMove *)
    destruct (s_p s) as [p|] eqn:Ep; [|split; [now apply GInv_GFs|now rewrite Ep]].
    match goal with |- InvR (if ?c then _ else _) => destruct c eqn:Ec end; [|split; [now apply GInv_GFs|now rewrite Ep]].
    apply andb_prop in Ec. destruct Ec as [Er Ebusy].
    split; [now apply GInv_GFs|]. cbn [s_p s_fs upd_p]. intros p' [= <-].
    destruct (HP p eq_refl) as [[P1 P2 P3 P4] PH]. specialize (HR p eq_refl).
    assert (Hidle : pc_get (T_COMPACT j) p = []).
    { unfold busy in Ebusy. destruct (pc_get (T_COMPACT j) p); [reflexivity|discriminate]. }
    apply RInv_spawn; auto; try apply T_COMPACT_not_main; try apply T_COMPACT_not_flush.
    split; [repeat constructor|split].
    + apply balanced_no_pins. intros y. reflexivity.
    + intros a e r b E. destruct a as [|j0 a]; [discriminate|]. injection E as _ E. destruct a; discriminate.
  - (* ETake *)
    destruct (s_p s) as [p|] eqn:Ep; [|split; [now apply GInv_GFs|now rewrite Ep]].
    match goal with |- InvR (if ?c then _ else _) => destruct c eqn:Ec end; [|split; [now apply GInv_GFs|now rewrite Ep]].
    apply andb_prop in Ec. destruct Ec as [Ec _]. apply andb_prop in Ec. destruct Ec as [Er Ebusy].
    split; [now apply GInv_GFs|]. cbn [s_p s_fs upd_p]. intros p' [= <-].
    destruct (HP p eq_refl) as [[P1 P2 P3 P4] PH]. specialize (HR p eq_refl).
    assert (Hidle : pc_get (T_READER r) p = []).
    { unfold busy in Ebusy. destruct (pc_get (T_READER r) p); [reflexivity|discriminate]. }
    apply RInv_spawn; auto; try apply T_READER_not_main; try apply T_READER_not_flush.
    split; [repeat constructor|split].
    + apply balanced_no_pins. intros y. reflexivity.
    + intros a e r0 b E. destruct a as [|j a]; [discriminate|]. injection E as _ E. destruct a; discriminate.
  - (* EDrop *)
    destruct (s_p s) as [p|] eqn:Ep; [|split; [now apply GInv_GFs|now rewrite Ep]].
    match goal with |- InvR (if ?c then _ else _) => destruct c eqn:Ec end; [|split; [now apply GInv_GFs|now rewrite Ep]].
    apply andb_prop in Ec. destruct Ec as [Er Ebusy].
    split; [now apply GInv_GFs|]. cbn [s_p s_fs upd_p]. intros p' [= <-].
    destruct (HP p eq_refl) as [[P1 P2 P3 P4] PH]. specialize (HR p eq_refl).
    assert (Hidle : pc_get (T_READER r) p = []).
    { unfold busy in Ebusy. destruct (pc_get (T_READER r) p); [reflexivity|discriminate]. }
    apply RInv_spawn; auto; try apply T_READER_not_main; try apply T_READER_not_flush.
    split; [repeat constructor|split].
    + apply balanced_no_pins. intros y. reflexivity.
    + intros a e r0 b E. destruct a as [|j a]; [discriminate|]. injection E as _ E. destruct a; discriminate.
  - (* ECrash *)
    split; [now apply GInv_GFs|]. cbn [s_p upd_p]. discriminate.
  - (* EVBegin *)
    destruct (s_v s); (split; [now apply GInv_GFs|exact HR]).
  - (* EVStep *)
    destruct (s_v s) as [[pc]|] eqn:Ev; [|split; [now apply GInv_GFs|exact HR]]. cbn [vp_pc].
    destruct pc as [|i rest]; [split; [now apply GInv_GFs|exact HR]|].
    destruct (vexec i ok rest (s_fs s)) as [fs' pc'] eqn:Ex.
    destruct (vexec_inv _ _ _ _ _ _ _ HM Ex) as [_ [K2 [_ [K4 _]]]].
    split; [apply GInv_GFs; cbn [s_fs upd_v upd_fs]; apply (GFs_fs (s_fs s)); [exact K4|exact K2|exact G]|].
    cbn [s_p s_fs upd_v upd_fs]. intros p Hp. apply (RInv_fs p (s_fs s)); [exact K4|now apply HR].
  - (* EVCrash *)
    split; [now apply GInv_GFs|exact HR].
Qed.

Lemma InvR_init : InvR sys0.
Proof. split; [intros x []|discriminate]. Qed.

Theorem Inv_run evs : forall s, InvM s -> InvR s -> InvM (run s evs) /\ InvR (run s evs).
Proof.
  induction evs as [|e evs IH]; intros s HM HR; cbn [run]; [tauto|].
  apply IH; [apply InvM_step, HM|apply InvR_step; assumption].
Qed.

Theorem Inv_reach evs : InvM (run sys0 evs) /\ InvR (run sys0 evs).
Proof. apply Inv_run; [apply InvM_init|apply InvR_init]. Qed.
