(* Props_C08.v — the property theorems for C08 and nothing else.
   C08: "No needed file is ever removed; clean-up removes only unreferenced files".

   All statements quantify over EVERY event list `evs` of the model Refs/Model.v: any interleaving
   of the store's threads at the granularity of one system call (open sequence, memtable thread,
   compaction thread with its pin / link / manifest edit / install / unpin steps, readers taking
   and releasing snapshots, each release loop one rename at a time), writes, flushes and
   compactions with ANY names (so a compaction may re-create a setsum that it or an earlier edit
   removed), manifest roll-overs at any apply, the process dying between any two steps (ECrash)
   and reopening, and the verifier process stepping, dying and restarting at any point (EVBegin /
   EVStep / EVCrash), with any result of its setsum checks. *)
From Coq Require Import NArith List Bool.
From Blue Require Import Refs.Model Refs.ModelLock Refs.Spec Refs.ProofsCount Refs.ProofsTop Refs.ProofsLock Refs.IngestFault.
Import ListNotations.
Open Scope N_scope.

(* 1. The central invariant: every sst named by the committed manifest state, by the current
      version or by a version that a live snapshot holds, is in sst/ — in every reachable state,
      whatever the store's threads, the verifier, orphan clean-up and crashes did before. *)
Theorem C08_needed_not_removed : forall evs x,
  needed (run sys0 evs) x -> In x (f_sst (s_fs (run sys0 evs))).
Proof. exact needed_present. Qed.

(* 1b. The mechanism: a reference count is exactly what the registered versions and the pending
      releases / pins account for, and a counted sst is in sst/ (so release_sst renames a file
      only when no registered version and no pin is left). *)
Theorem C08_reference_counts_exact : forall evs p x, s_p (run sys0 evs) = Some p ->
  (rc_get x (p_refs p) + spc (npin x) (p_pcs p) = regsum x (p_vers p) + spc (nrel x) (p_pcs p))%nat /\
  ((1 <= rc_get x (p_refs p))%nat -> In x (f_sst (s_fs (run sys0 evs)))).
Proof. exact counted_present. Qed.

(* 1c. Logs: a log file is in the trash only if it is empty or the sst built from its contents
      was added to the manifest by a committed edit (flush: ingest before the rename; open: replay,
      link, manifest edit, then the rename) — no unreplayed write depends on a trashed log. *)
Theorem C08_trashed_logs_are_replayed : forall evs l,
  In l (f_tlogs (s_fs (run sys0 evs))) -> log_covered (run sys0 evs) l.
Proof. exact trashed_logs_covered. Qed.

(* 2. Orphan clean-up on open: whatever fragments are on disk (the verifier may have removed any
      number of the oldest), the scan never names an sst that the current manifest lists. *)
Theorem C08_orphan_cleanup_safe : forall evs x,
  In x (orphan_scan (f_md (s_fs (run sys0 evs)))) -> ~ In x (live_strs (run sys0 evs)).
Proof. exact orphans_unlisted. Qed.

(* 2b. ... and open() always finds every sst the manifest lists (LsmTree::from_manifest does not
      fail on a missing file), after any history. *)
Theorem C08_reopen_finds_every_listed_sst : forall evs p rest,
  s_p (run sys0 evs) = Some p -> pc_get T_MAIN p = IFromManifest :: rest ->
  forallb (fun x => mem x (f_sst (s_fs (run sys0 evs)))) (ms_strs (p_ms p)) = true.
Proof. exact from_manifest_finds_all. Qed.

(* 3. The verifier unlinks only trash entries that its own manifest lists, each of which the
      fragment named by 'M' (which passed verify_one in this or an earlier pass) recorded: a
      removed setsum, or the 'L' of one of its edits.  (By NAME: see the known class
      K-verifier-by-name for incarnations.) *)
Theorem C08_verifier_unlinks_only_recorded_trash : forall evs ok,
  let s := run sys0 evs in let s' := step s (EVStep ok) in
  (forall x, In x (f_trash (s_fs s)) -> ~ In x (f_trash (s_fs s')) ->
     In (TSst x) (vs_strs (f_vs (s_fs s))) /\
     exists m f, vs_m (f_vs (s_fs s)) = Some m /\ In (m, f) (s_frags s) /\ recorded_in f (TSst x)) /\
  (forall n, log_has n (f_tlogs (s_fs s)) = true -> log_has n (f_tlogs (s_fs s')) = false ->
     In (TLog n) (vs_strs (f_vs (s_fs s))) /\
     exists m f, vs_m (f_vs (s_fs s)) = Some m /\ In (m, f) (s_frags s) /\ recorded_in f (TLog n)).
Proof. exact verifier_unlinks_recorded. Qed.

(* 4. After any prefix of any number of verifier passes, interrupted or complete, run at any
      reachable state: sst/, the root's logs, the live MANIFEST, the highest fragment number and
      the store process are untouched, the manifest state is unchanged, and everything needed is
      in place.  (What open() reads besides these is read only by cleanup_orphans: theorem 2.) *)
Theorem C08_verifier_pass_preserves_contents : forall evs vevs,
  forallb verifier_event vevs = true ->
  let s := run sys0 evs in let s' := run s vevs in
  store_view s' = store_view s /\ live_strs s' = live_strs s /\
  (forall x, needed s' x -> In x (f_sst (s_fs s'))).
Proof. exact verifier_preserves. Qed.

(* 5. By incarnation (known class K-verifier-by-name).  "What the verifier is about to unlink has
      not been added again by any edit after the fragment it verified" — so the file under that
      name in trash/ is the incarnation whose removal that fragment recorded — is FALSE of the
      code: names are content-addressed and the unlink goes by name.  It holds for every history
      in which no manifest edit adds a setsum that the verifier's recorded intent names. *)
Theorem C08_verifier_unlinks_verified_incarnation_outside_known : forall evs,
  ~ known_by_name sys0 evs -> pending_not_readded (run sys0 evs).
Proof. exact pending_outside. Qed.

(* 6. release_sst at a finer grain (Refs/ModelLock.v): ReferenceCounter::dec_and's decision ("the
      count of x was 1: entry removed") and its callback (rename sst/x -> trash/x) are two steps of
      the scheduler, and any thread may run in between.  What makes theorems 1-5 apply is the lock
      on the table of counts, held across the callback: a thread whose next instruction takes that
      lock (inc_and of a compaction pinning an output, explicit_ref, another dec_and) waits.  Then
      every fine-grained run ends in a state that a run of the atomic model reaches ... *)
Theorem C08_release_callback_under_table_lock_refines_atomic_release : forall evs,
  exists evs', fst (frun true lsys0 evs) = run sys0 evs'.
Proof. exact fine_refines_atomic. Qed.

(* ... in particular nothing needed is removed, whatever runs while a thread is inside the callback *)
Theorem C08_needed_not_removed_with_release_callback : forall evs x,
  needed (fst (frun true lsys0 evs)) x -> In x (f_sst (s_fs (fst (frun true lsys0 evs)))).
Proof. exact fine_needed_present. Qed.

(* 6b. The dependence is real: with the callback run after the table lock has been given up
      (dec_and as `let last = self.dec(t); if last { f(); }`) a compaction that re-creates x pins
      and links it between a reader's last decrement of x and the reader's rename, and the
      committed manifest lists an sst that is in the trash. *)
Theorem C08_needed_not_removed_refuted_without_lock_across_callback : exists evs x,
  needed (fst (frun false lsys0 evs)) x /\ ~ In x (f_sst (s_fs (fst (frun false lsys0 evs)))).
Proof. exists ex_unlocked, 10. exact unlocked_loses_listed_sst. Qed.

(* ---- the hypotheses are satisfiable by non-trivial histories *)
Definition open_fresh : list event := EOpen [] [] 0 :: repeat (EStep T_MAIN) 6.
Definition flush_as (x : name) : list event := EWrite :: EFlush x false :: repeat (EStep T_FLUSH) 5.
(* a reader holds the version {10, 11} while a compaction replaces 10 and 11 by 12: the files
   stay in sst/ until the reader lets go, then move to the trash *)
Definition ex_held : list event :=
  open_fresh ++ flush_as 10 ++ flush_as 11 ++ [ETake 0; EStep (T_READER 0)]
  ++ ECompact 0 [10; 11] [12] false true :: repeat (EStep (T_COMPACT 0)) 8.
Example C08_example_snapshot_keeps_files :
  f_sst (s_fs (run sys0 ex_held)) = [10; 11; 12] /\ live_strs (run sys0 ex_held) = [12] /\
  f_trash (s_fs (run sys0 (ex_held ++ EDrop 0 :: repeat (EStep (T_READER 0)) 3))) = [10; 11].
Proof. vm_compute. repeat split; reflexivity. Qed.

(* the verifier removes them once the fragment that recorded the removal is no longer among the
   last two: two reopens roll the manifest over twice *)
Definition reopen : list event := ECrash :: EOpen [] [] 3 :: repeat (EStep T_MAIN) 8.
Definition ex_verified : list event :=
  ex_held ++ EDrop 0 :: repeat (EStep (T_READER 0)) 3 ++ reopen ++ reopen ++ EVBegin :: repeat (EVStep true) 12.
Example C08_example_verifier_unlinks :
  f_trash (s_fs (run sys0 ex_verified)) = [] /\ f_sst (s_fs (run sys0 ex_verified)) = [12] /\
  map fst (md_frags (f_md (s_fs (run sys0 ex_verified)))) = [2].
Proof. vm_compute. repeat split; reflexivity. Qed.

(* the verifier has decided on fragment 1 (intent: trash/10, trash/11, the two logs) and has not
   unlinked anything yet; a compaction re-creates 10 *)
Definition ex_pending : list event :=
  ex_held ++ EDrop 0 :: repeat (EStep (T_READER 0)) 3 ++ reopen ++ reopen ++ [EVBegin; EVStep true; EVStep true].
Definition ex_readd : list event := ex_pending ++ ECompact 0 [12] [10; 13] false false :: repeat (EStep (T_COMPACT 0)) 3.

Theorem C08_verifier_unlinks_verified_incarnation_refuted : exists evs, ~ pending_not_readded (run sys0 evs).
Proof.
  exists ex_readd. intros H. apply (H 10 1).
  - vm_compute. now left.
  - vm_compute. reflexivity.
  - vm_compute. right. right. now left.
Qed.

Example C08_example_refutation_is_in_the_class : known_by_name sys0 ex_readd.
Proof.
  assert (G : forall a b s, known_by_name (run s a) b -> known_by_name s (a ++ b)).
  { induction a as [|e a IH]; intros b s H; cbn [app run known_by_name] in *; [assumption|right; now apply IH]. }
  unfold ex_readd. apply G.
  (* the compaction's critical section is its third instruction *)
  cbn [known_by_name repeat]. right. right. right. left.
  exists (mkEdit [12] [10; 13] None), 10. split; [vm_compute; reflexivity|split; [now left|vm_compute; now left]].
Qed.

(* 9. I/O errors (not process death) on the ingest path.  Refs/IngestFault.v models LsmTree::_ingest with
      Manifest::_apply and Manifest::rollover one fallible system call at a time (`prog`), and `ingest false x roll
      fault s` is the state after an ingest of x in which call number `fault` returned an error (None: no
      error); i_sst = sst/, i_live = what a reader of mani/MANIFEST reconstructs.  For ANY sequence of ingests,
      each failing at ANY call or not at all (a poisoned manifest refusing the later ones included): every
      listed sst is in sst/, and no ingest, failed or not, removes anything from sst/. *)
Theorem C08_ingest_fault_listed_present : forall (ops : list iop) x,
  In x (i_live (fold_left istep ops i0)) -> In x (i_sst (fold_left istep ops i0)).
Proof. exact listed_present. Qed.

Theorem C08_ingest_fault_nothing_removed : forall (ops : list iop) o x,
  In x (i_sst (fold_left istep ops i0)) -> In x (i_sst (fold_left istep (ops ++ [o]) i0)).
Proof. exact nothing_removed. Qed.

(* an ingest that reports success has made its sst present and listed *)
Theorem C08_ingest_success_listed_and_present : forall x roll fault s s',
  ingest false x roll fault s = (s', true) -> In x (i_sst s') /\ In x (i_live s').
Proof. exact ingest_ok_listed. Qed.

(* "the ingest failed, so take the hard link back" is wrong: the failure of the roll-over's own hard link
   (call 6) comes after the edit is in MANIFEST; the witness state lists 7 and sst/ is empty *)
Theorem C08_ingest_cleanup_on_error_refuted :
  J i0 /\ ~ J (fst (ingest true 7 true (Some 6%nat) i0)).
Proof. exact undo_refuted. Qed.

(* an error returned by any call of the manifest part of an ingest (calls 2.. of `prog`: open / write / fdatasync /
   stat of MANIFEST and every call of the roll-over) poisons the manifest, and a poisoned manifest refuses every
   later ingest at any fault or none: what a reader of MANIFEST reconstructs never changes again in that process *)
Theorem C08_ingest_manifest_fault_poisons : forall x roll k s,
  mem x (i_sst s) = false -> i_poison s = false -> (2 <= k)%nat -> (k < length (prog x roll s))%nat ->
  i_poison (fst (ingest false x roll (Some k) s)) = true /\ snd (ingest false x roll (Some k) s) = false.
Proof. exact fault_in_manifest_poisons. Qed.

Theorem C08_ingest_poisoned_manifest_refuses : forall x roll fault s, i_poison s = true ->
  snd (ingest false x roll fault s) = false /\ i_live (fst (ingest false x roll fault s)) = i_live s /\
  i_poison (fst (ingest false x roll fault s)) = true.
Proof. exact poisoned_refuses. Qed.

Example C08_example_ingest_fault_states :
  obs 7 (ingest false 7 true (Some 6%nat) i0) = (true, true, false, [], false, true) /\
  obs 7 (ingest false 7 true (Some 3%nat) i0) = (true, false, false, [], false, true) /\
  obs 7 (ingest false 7 true None i0) = (true, true, true, [0], false, false).
Proof. vm_compute. repeat split; reflexivity. Qed.
