(* Extraction of the executable Refs model for the correspondence check.
   Directives in force: those of ExtrOcamlBasic only; N / positive / nat stay inductive. *)
From Coq Require Import NArith List.
From Blue Require Import Refs.Model Refs.ModelLock.
Require Import ExtrOcamlBasic.
Extraction Language OCaml.
Extraction "../ocaml/refs/gen_refs.ml" sys0 step run fstep live_strs pc_get orphan_scan intent tent_present v_entries
  frag_state N.of_nat N.to_nat N.add N.mul N.div_eucl.
