(* Refs/ProofsBase.v — list, association-list and reference-counter lemmas for the Refs model. *)
From Coq Require Import NArith List Bool Lia Arith.
From Blue Require Import Refs.Model.
Import ListNotations.
Open Scope N_scope.

Arguments N.eqb : simpl never.
Arguments N.ltb : simpl never.
Arguments N.leb : simpl never.

(* ---------------------------------------------------------------- mem / add / del / dels *)
Lemma mem_In x l : mem x l = true <-> In x l.
Proof.
  unfold mem. rewrite existsb_exists. split.
  - intros [y [H1 H2]]. apply N.eqb_eq in H2. now subst.
  - intros H. exists x. split; [assumption|apply N.eqb_refl].
Qed.

Lemma mem_false x l : mem x l = false <-> ~ In x l.
Proof. rewrite <- mem_In. destruct (mem x l); split; congruence. Qed.

Lemma add_In x l y : In y (add x l) <-> y = x \/ In y l.
Proof.
  unfold add. destruct (mem x l) eqn:E.
  - apply mem_In in E. split; [now right|]. intros [->|H]; assumption.
  - rewrite in_app_iff. cbn. split; [intros [H|[H|[]]]; auto|intros [H|H]; auto].
Qed.

Lemma NoDup_snoc {A} (x : A) l : NoDup l -> ~ In x l -> NoDup (l ++ [x]).
Proof.
  intros H Hx. induction l as [|y l IH]; cbn.
  - constructor; [intros []|constructor].
  - inversion H as [|? ? Hy Hl]; subst. constructor.
    + rewrite in_app_iff. cbn. intros [H1|[H1|[]]]; [contradiction|subst; apply Hx; now left].
    + apply IH; [assumption|]. intros H1. apply Hx. now right.
Qed.

Lemma add_NoDup x l : NoDup l -> NoDup (add x l).
Proof.
  intros H. unfold add. destruct (mem x l) eqn:E; [assumption|].
  apply mem_false in E. apply NoDup_snoc; assumption.
Qed.

Lemma del_In x l y : In y (del x l) <-> In y l /\ y <> x.
Proof.
  unfold del. rewrite filter_In. rewrite negb_true_iff, N.eqb_neq. intuition congruence.
Qed.

Lemma del_NoDup x l : NoDup l -> NoDup (del x l).
Proof. apply NoDup_filter. Qed.

Lemma dels_In xs l y : In y (dels xs l) <-> In y l /\ ~ In y xs.
Proof. unfold dels. rewrite filter_In, negb_true_iff, mem_false. tauto. Qed.

Lemma fold_add_In xs : forall l y, In y (fold_left (fun a x => add x a) xs l) <-> In y xs \/ In y l.
Proof.
  induction xs as [|x xs IH]; intros l y; cbn [fold_left].
  - cbn. tauto.
  - rewrite IH, add_In. cbn. intuition.
Qed.

Lemma fold_add_NoDup xs : forall l, NoDup l -> NoDup (fold_left (fun a x => add x a) xs l).
Proof. induction xs as [|x xs IH]; intros l H; cbn [fold_left]; [assumption|]. apply IH, add_NoDup, H. Qed.

Lemma fold_del_In xs : forall l y, In y (fold_left (fun a x => del x a) xs l) <-> In y l /\ ~ In y xs.
Proof.
  induction xs as [|x xs IH]; intros l y; cbn [fold_left].
  - cbn. tauto.
  - rewrite IH, del_In. cbn. intuition.
Qed.

Lemma fold_del_NoDup xs : forall l, NoDup l -> NoDup (fold_left (fun a x => del x a) xs l).
Proof. induction xs as [|x xs IH]; intros l H; cbn [fold_left]; [assumption|]. apply IH, del_NoDup, H. Qed.

(* adding the elements of a duplicate-free list to the empty list gives the list back *)
Lemma fold_add_snoc xs : forall l, NoDup (l ++ xs) -> fold_left (fun a x => add x a) xs l = l ++ xs.
Proof.
  induction xs as [|x xs IH]; intros l H; cbn [fold_left].
  - now rewrite app_nil_r.
  - assert (Hx : mem x l = false).
    { apply mem_false. intros Hin. apply NoDup_remove_2 in H. apply H. apply in_or_app. now left. }
    unfold add at 2. rewrite Hx. rewrite IH.
    + now rewrite <- app_assoc.
    + now rewrite <- app_assoc.
Qed.

Lemma fold_add_nil xs : NoDup xs -> fold_left (fun a x => add x a) xs [] = xs.
Proof. intros H. now rewrite fold_add_snoc. Qed.

(* ---------------------------------------------------------------- apply_edit *)
Lemma apply_edit_In e s y :
  In y (ms_strs (apply_edit e s)) <-> In y (e_add e) \/ (In y (ms_strs s) /\ ~ In y (e_rm e)).
Proof. unfold apply_edit. cbn [ms_strs]. now rewrite fold_add_In, fold_del_In. Qed.

Lemma apply_edit_NoDup e s : NoDup (ms_strs s) -> NoDup (ms_strs (apply_edit e s)).
Proof. intros H. unfold apply_edit. cbn [ms_strs]. now apply fold_add_NoDup, fold_del_NoDup. Qed.

Lemma frag_state_app f g :
  frag_state (f ++ g) = fold_left (fun s e => apply_edit e s) g (frag_state f).
Proof. unfold frag_state. now rewrite fold_left_app. Qed.

Lemma frag_state_snoc f e : frag_state (f ++ [e]) = apply_edit e (frag_state f).
Proof. now rewrite frag_state_app. Qed.

Lemma fold_apply_NoDup g : forall s, NoDup (ms_strs s) -> NoDup (ms_strs (fold_left (fun s e => apply_edit e s) g s)).
Proof. induction g as [|e g IH]; intros s H; cbn [fold_left]; [assumption|]. apply IH, apply_edit_NoDup, H. Qed.

Lemma frag_state_NoDup f : NoDup (ms_strs (frag_state f)).
Proof. unfold frag_state. apply fold_apply_NoDup. constructor. Qed.

(* the roll-up of a state reads back as that state *)
Lemma rollup_state s : NoDup (ms_strs s) -> frag_state [rollup s] = s.
Proof.
  intros H. unfold frag_state, rollup, apply_edit. cbn [fold_left e_rm e_add e_log ms_strs ms_log ms_empty].
  rewrite fold_add_nil by assumption. destruct s as [st [l|]]; reflexivity.
Qed.

(* ---------------------------------------------------------------- association lists *)
Lemma aget_adel_same {A} k (l : list (N * A)) : aget k (adel k l) = None.
Proof.
  induction l as [|[k' v] l IH]; [reflexivity|]. cbn [adel].
  destruct (N.eqb_spec k k'); [assumption|]. cbn [aget]. destruct (N.eqb_spec k k'); [contradiction|assumption].
Qed.

Lemma aget_adel_other {A} k k' (l : list (N * A)) : k <> k' -> aget k (adel k' l) = aget k l.
Proof.
  intros Hne. induction l as [|[k2 v] l IH]; [reflexivity|]. cbn [adel aget].
  destruct (N.eqb_spec k' k2) as [->|H2].
  - destruct (N.eqb_spec k k2); [contradiction|assumption].
  - cbn [aget]. destruct (N.eqb_spec k k2); [reflexivity|assumption].
Qed.

Lemma aget_aset_same {A} k (v : A) l : aget k (aset k v l) = Some v.
Proof. unfold aset. cbn [aget]. now rewrite N.eqb_refl. Qed.

Lemma aget_aset_other {A} k k' (v : A) l : k <> k' -> aget k (aset k' v l) = aget k l.
Proof.
  intros H. unfold aset. cbn [aget]. destruct (N.eqb_spec k k'); [contradiction|]. now apply aget_adel_other.
Qed.

Lemma aget_In {A} k (v : A) l : aget k l = Some v -> In (k, v) l.
Proof.
  induction l as [|[k' v'] l IH]; [discriminate|]. cbn [aget].
  destruct (N.eqb_spec k k') as [->|H]; [intros [= ->]; now left|intros H1; right; auto].
Qed.

Lemma adel_In {A} k (l : list (N * A)) p : In p (adel k l) <-> In p l /\ fst p <> k.
Proof.
  induction l as [|[k' v] l IH]; [cbn; tauto|]. cbn [adel].
  destruct (N.eqb_spec k k') as [->|H].
  - rewrite IH. cbn. split; [intros [H1 H2]; auto|]. intros [[<-|H1] H2]; [now cbn in H2|auto].
  - cbn [In]. rewrite IH. split.
    + intros [<-|[H1 H2]]; [split; [now left|cbn; intros E; apply H; now symmetry]|auto].
    + intros [[<-|H1] H2]; [now left|right; auto].
Qed.

(* ---------------------------------------------------------------- upd_nth *)
Lemma upd_nth_length {A} n (f : A -> A) l : length (upd_nth n f l) = length l.
Proof. revert n. induction l as [|x l IH]; intros [|n]; cbn; auto. Qed.

Lemma nth_error_upd_same {A} n (f : A -> A) l v :
  nth_error l n = Some v -> nth_error (upd_nth n f l) n = Some (f v).
Proof. revert n. induction l as [|x l IH]; intros [|n]; cbn; try discriminate; [now intros [= ->]|apply IH]. Qed.

Lemma nth_error_upd_other {A} n m (f : A -> A) l : n <> m -> nth_error (upd_nth n f l) m = nth_error l m.
Proof.
  revert n m. induction l as [|x l IH]; intros [|n] [|m] H; cbn; try reflexivity; try congruence.
  apply IH. congruence.
Qed.

Lemma nth_error_upd {A} n m (f : A -> A) l :
  nth_error (upd_nth n f l) m = if Nat.eqb n m then option_map f (nth_error l m) else nth_error l m.
Proof.
  destruct (Nat.eqb_spec n m) as [->|H].
  - destruct (nth_error l m) eqn:E; cbn.
    + now apply nth_error_upd_same.
    + apply nth_error_None. rewrite upd_nth_length. now apply nth_error_None.
  - now apply nth_error_upd_other.
Qed.

(* ---------------------------------------------------------------- the reference counter *)
Definition rc_wf (r : refs) : Prop := NoDup (map fst r) /\ Forall (fun p => (1 <= snd p)%nat) r.

Lemma rc_get_absent x r : ~ In x (map fst r) -> rc_get x r = O.
Proof.
  induction r as [|[y c] r IH]; [reflexivity|]. cbn. intros H.
  destruct (N.eqb_spec x y) as [->|Hne]; [exfalso; apply H; now left|]. apply IH. tauto.
Qed.

Lemma rc_inc_keys x r y : In y (map fst (rc_inc x r)) <-> y = x \/ In y (map fst r).
Proof.
  induction r as [|[z c] r IH]; cbn; [intuition|].
  destruct (N.eqb_spec x z) as [->|Hne]; cbn; [intuition|]. rewrite IH. intuition.
Qed.

Lemma rc_inc_wf x r : rc_wf r -> rc_wf (rc_inc x r).
Proof.
  intros [Hnd Hpos]. induction r as [|[z c] r IH]; cbn.
  - split; [constructor; [intros []|constructor]|constructor; [cbn; lia|constructor]].
  - inversion Hnd as [|? ? Hz Hnd']; subst. inversion Hpos as [|? ? Hc Hpos']; subst.
    destruct (N.eqb_spec x z) as [->|Hne]; cbn.
    + split; [constructor; assumption|constructor; [cbn in *; lia|assumption]].
    + destruct (IH Hnd' Hpos') as [I1 I2]. split.
      * constructor; [|assumption]. rewrite rc_inc_keys. intros [H|H]; cbn in H; [congruence|contradiction].
      * constructor; assumption.
Qed.

Lemma rc_get_inc x r y : rc_get y (rc_inc x r) = (rc_get y r + (if N.eqb y x then 1 else 0))%nat.
Proof.
  induction r as [|[z c] r IH]; cbn.
  - destruct (N.eqb_spec y x); reflexivity.
  - destruct (N.eqb_spec x z) as [->|Hne]; cbn.
    + destruct (N.eqb_spec y z); lia.
    + destruct (N.eqb_spec y z) as [->|Hyz].
      * destruct (N.eqb_spec z x); [congruence|lia].
      * apply IH.
Qed.

Lemma rc_dec_keys x r y : In y (map fst (fst (rc_dec x r))) -> In y (map fst r).
Proof.
  induction r as [|[z c] r IH]; cbn; [auto|].
  destruct (N.eqb_spec x z) as [->|Hne].
  - destruct (Nat.leb c 1); cbn; auto.
  - destruct (rc_dec x r) as [r' b]. cbn in *. intros [H|H]; auto.
Qed.

Lemma rc_dec_wf x r : rc_wf r -> rc_wf (fst (rc_dec x r)).
Proof.
  intros [Hnd Hpos]. induction r as [|[z c] r IH]; cbn; [split; assumption|].
  inversion Hnd as [|? ? Hz Hnd']; subst. inversion Hpos as [|? ? Hc Hpos']; subst. cbn in Hc.
  destruct (N.eqb_spec x z) as [->|Hne].
  - destruct (Nat.leb_spec c 1); cbn; [split; assumption|].
    split; [constructor; assumption|constructor; [cbn; lia|assumption]].
  - specialize (IH Hnd' Hpos'). pose proof (rc_dec_keys x r) as Hk.
    destruct (rc_dec x r) as [r' b]. cbn in *. destruct IH as [I1 I2]. split.
    + constructor; [|assumption]. intros H. apply Hz. now apply Hk.
    + constructor; assumption.
Qed.

Lemma rc_get_dec x r y : rc_wf r ->
  rc_get y (fst (rc_dec x r)) = if y =? x then pred (rc_get x r) else rc_get y r.
Proof.
  intros [Hnd Hpos]. induction r as [|[z c] r IH]; cbn.
  - destruct (y =? x); reflexivity.
  - inversion Hnd as [|? ? Hz Hnd']; subst. inversion Hpos as [|? ? Hc Hpos']; subst. cbn in Hc.
    destruct (N.eqb_spec x z) as [->|Hne].
    + destruct (Nat.leb_spec c 1); cbn.
      * destruct (N.eqb_spec y z) as [->|Hyz].
        -- rewrite rc_get_absent by assumption. lia.
        -- reflexivity.
      * destruct (N.eqb_spec y z); reflexivity.
    + specialize (IH Hnd' Hpos'). destruct (rc_dec x r) as [r' b]. cbn in *.
      destruct (N.eqb_spec y z) as [->|Hyz].
      * destruct (N.eqb_spec z x); [congruence|reflexivity].
      * apply IH.
Qed.

Lemma rc_dec_last x r : rc_wf r -> snd (rc_dec x r) = Nat.eqb (rc_get x r) 1.
Proof.
  intros [Hnd Hpos]. induction r as [|[z c] r IH]; cbn; [reflexivity|].
  inversion Hnd as [|? ? Hz Hnd']; subst. inversion Hpos as [|? ? Hc Hpos']; subst. cbn in Hc.
  destruct (N.eqb_spec x z) as [->|Hne].
  - destruct (Nat.leb_spec c 1); cbn; symmetry; [apply Nat.eqb_eq|apply Nat.eqb_neq]; lia.
  - specialize (IH Hnd' Hpos'). destruct (rc_dec x r) as [r' b]. cbn in *. assumption.
Qed.

Definition cnt (x : name) (l : list name) : nat := count_occ N.eq_dec l x.

Lemma cnt_app x l1 l2 : cnt x (l1 ++ l2) = (cnt x l1 + cnt x l2)%nat.
Proof. apply count_occ_app. Qed.

Lemma cnt_pos x l : (1 <= cnt x l)%nat <-> In x l.
Proof. unfold cnt. rewrite (count_occ_In N.eq_dec). lia. Qed.

Lemma rc_incs_wf xs : forall r, rc_wf r -> rc_wf (rc_incs xs r).
Proof. unfold rc_incs. induction xs as [|x xs IH]; intros r H; cbn [fold_left]; [assumption|]. apply IH, rc_inc_wf, H. Qed.

Lemma rc_get_incs xs : forall r y, rc_get y (rc_incs xs r) = (rc_get y r + cnt y xs)%nat.
Proof.
  unfold rc_incs. induction xs as [|x xs IH]; intros r y; cbn [fold_left].
  - cbn. lia.
  - rewrite IH, rc_get_inc. unfold cnt. cbn [count_occ].
    destruct (N.eq_dec x y) as [E|E]; destruct (N.eqb_spec y x) as [H|H]; try lia; congruence.
Qed.

Lemma rc_wf_nil : rc_wf [].
Proof. split; constructor. Qed.
