(* Refs/ProofsLock.v — the fine-grained release of ModelLock.v refines the atomic one of Model.v
   when the table lock is held across dec_and's callback, and does not when it is given up first. *)
From Coq Require Import NArith List Bool Lia.
From Blue Require Import Refs.Model Refs.ModelLock Refs.Spec Refs.ProofsBase Refs.ProofsInvM Refs.ProofsTop.
Import ListNotations.
Open Scope N_scope.

(* while a thread is inside the callback, the decision it took still stands: its next instruction
   is the release, and the entry it removed has not come back *)
Definition cb_ok (ls : lstate) : Prop :=
  match snd ls with None => True | Some (t, x) => dec_to_zero t (fst ls) = Some x end.

Lemma dec_to_zero_spec t s x : dec_to_zero t s = Some x ->
  exists p rest, s_p s = Some p /\ pc_get t p = IRelease x :: rest /\
    (negb (p_ready p) && negb (t =? T_MAIN)) = false /\ snd (rc_dec x (p_refs p)) = true.
Proof.
  unfold dec_to_zero. destruct (s_p s) as [p|]; [|discriminate].
  destruct (pc_get t p) as [|i rest] eqn:E; [discriminate|]. destruct i; try discriminate.
  destruct (negb (p_ready p) && negb (t =? T_MAIN)) eqn:G; [discriminate|].
  match goal with |- context [rc_dec ?y _] => destruct (snd (rc_dec y (p_refs p))) eqn:L; [|discriminate] end.
  intros [= <-]. exists p, rest. auto.
Qed.

Lemma dec_to_zero_intro t s p x rest : s_p s = Some p -> pc_get t p = IRelease x :: rest ->
  (negb (p_ready p) && negb (t =? T_MAIN)) = false -> snd (rc_dec x (p_refs p)) = true ->
  dec_to_zero t s = Some x.
Proof. intros E1 E2 E3 E4. unfold dec_to_zero. now rewrite E1, E2, E3, E4. Qed.

(* the callback completes exactly the atomic release *)
Lemma rename_is_release t s x : dec_to_zero t s = Some x -> rename_to_trash t x s = step s (EStep t).
Proof.
  intros H. destruct (dec_to_zero_spec _ _ _ H) as [p [rest [Ep [Epc [G L]]]]].
  unfold rename_to_trash, step. rewrite Ep, Epc, G. cbn [tl exec].
  change (p_refs (pc_set t rest p)) with (p_refs p).
  destruct (rc_dec x (p_refs p)) as [r last] eqn:E. cbn [snd fst] in *. subst last. reflexivity.
Qed.

Lemma unref_drop_refs t i p : p_refs (unref_drop t i p) = p_refs p.
Proof. unfold unref_drop. destruct (Nat.eqb (strong_of p i) 1); reflexivity. Qed.

(* an instruction that does not take the table lock leaves the table alone, and does not end the
   process *)
Lemma exec_refs t i s p1 s' op' : takes_table_lock i = false -> exec t i s p1 = (s', op') ->
  exists p', op' = Some p' /\ p_refs p' = p_refs p1.
Proof.
  destruct i as [x|x|oe roll|x|h|h|n| | |x|x roll| | |x|rec tm]; cbn [takes_table_lock exec]; try discriminate; intros _ E.
  - destruct (mem x (f_sst (s_fs s))); injection E as <- <-; eexists; split; reflexivity.
  - destruct (aget h (p_snaps p1)); injection E as <- <-; eexists; split; reflexivity.
  - destruct (aget h (p_snaps p1)); injection E as <- <-; eexists; split; try reflexivity. now rewrite unref_drop_refs.
  - destruct (log_find n (f_logs (s_fs s))); injection E as <- <-; eexists; split; reflexivity.
  - destruct (md_open (f_md (s_fs s))) as [[[d ms] next] r]. injection E as <- <-. eexists; split; reflexivity.
  - destruct (is_nil (md_live (f_md (s_fs s)))).
    + unfold store_apply in E. destruct (md_apply _ _ _ _ _) as [[[d ms] next] r]. injection E as <- <-. eexists; split; reflexivity.
    + injection E as <- <-. eexists; split; reflexivity.
  - destruct (mem x (f_sst (s_fs s))); injection E as <- <-; eexists; split; reflexivity.
  - destruct (mem x (ms_strs (p_ms p1))).
    + injection E as <- <-. eexists; split; reflexivity.
    + unfold store_apply in E. destruct (md_apply _ _ _ _ _) as [[[d ms] next] r]. injection E as <- <-. eexists; split; reflexivity.
  - injection E as <- <-. eexists; split; reflexivity.
  - destruct (mem x (f_sst (s_fs s)) && negb (mem x (f_trash (s_fs s)))); injection E as <- <-; eexists; split; reflexivity.
  - injection E as <- <-. eexists; split; reflexivity.
Qed.

(* another thread's step that does not take the table lock leaves the decision standing *)
Lemma other_step_keeps t' x s t i : dec_to_zero t' s = Some x -> t <> t' ->
  next_instr t s = Some i -> takes_table_lock i = false ->
  dec_to_zero t' (step s (EStep t)) = Some x.
Proof.
  intros H Hne Hi Hl. destruct (dec_to_zero_spec _ _ _ H) as [p [rest [Ep [Epc [G L]]]]].
  unfold next_instr in Hi. rewrite Ep in Hi. unfold step. rewrite Ep.
  destruct (pc_get t p) as [|i0 rest0] eqn:Et; [discriminate|]. cbn [hd_error] in Hi. injection Hi as ->.
  destruct (negb (p_ready p) && negb (t =? T_MAIN)) eqn:Gt; [exact H|].
  destruct (exec t i s (pc_set t rest0 p)) as [s1 op] eqn:E.
  destruct (exec_refs _ _ _ _ _ _ Hl E) as [p' [-> Er]].
  pose proof (exec_facts _ _ _ _ _ _ E) as F.
  apply (dec_to_zero_intro t' _ p' x rest).
  - reflexivity.
  - rewrite (ef_other _ _ _ _ _ _ F p' t' eq_refl (fun K => Hne (eq_sym K))). now rewrite pc_get_set_other by (intros K; apply Hne; now symmetry).
  - rewrite (ef_ready _ _ _ _ _ _ F p' eq_refl).
    assert (Hr : p_ready (pc_set t rest0 p) = p_ready p) by reflexivity.
    destruct i; rewrite ?Hr; try exact G; reflexivity.
  - rewrite Er. exact L.
Qed.

(* the calls that start a program on a thread do not touch the table, nor a busy thread *)
Lemma other_event_keeps t' x s ev : dec_to_zero t' s = Some x ->
  match ev with EStep _ | ECrash => False | _ => True end ->
  dec_to_zero t' (step s ev) = Some x.
Proof.
  intros H Hev. destruct (dec_to_zero_spec _ _ _ H) as [p [rest [Ep [Epc [G L]]]]].
  assert (Hbusy : busy t' p = true) by (unfold busy; now rewrite Epc).
  assert (Spawn : forall t prog (q : proc), p_pcs q = p_pcs p -> p_ready q = true -> p_refs q = p_refs p ->
            busy t p = false -> forall s', s_p s' = Some (pc_set t prog q) -> dec_to_zero t' s' = Some x).
  { intros t prog q Eq Rq Fq Hb s' Es'. assert (Hne : t' <> t) by (intros ->; congruence).
    apply (dec_to_zero_intro t' s' _ x rest Es').
    - rewrite pc_get_set_other by exact Hne. now rewrite (pc_get_eq t' q p Eq).
    - change (p_ready (pc_set t prog q)) with (p_ready q). now rewrite Rq.
    - change (p_refs (pc_set t prog q)) with (p_refs q). now rewrite Fq. }
  destruct ev as [names rolls mx|t| |y roll|j ins outs roll hold|j|r|r| | |ok| ]; try contradiction; unfold step.
  - (* EOpen: the process is running *) rewrite Ep. exact H.
  - (* EWrite *) rewrite Ep. destruct (p_ready p) eqn:R; [|exact H].
    eapply (dec_to_zero_intro t' _ _ x rest); [reflexivity| | |]; cbn [pc_get p_pcs p_ready p_refs set_kvs]; [exact Epc|reflexivity|exact L].
  - (* EFlush *) rewrite Ep. destruct (p_ready p) eqn:R; [|exact H]. cbn [andb].
    destruct (negb (busy T_FLUSH p)) eqn:B; [|exact H]. cbn [andb].
    match goal with |- context [if ?c then _ else _] => destruct c; [|exact H] end.
    eapply (Spawn T_FLUSH); [| | | |reflexivity]; try reflexivity. now apply negb_true_iff in B.
  - (* ECompact *) rewrite Ep. destruct (p_ready p) eqn:R; [|exact H]. cbn [andb].
    destruct (negb (busy (T_COMPACT j) p)) eqn:B; [|exact H]. cbn [andb].
    match goal with |- context [if ?c then _ else _] => destruct c; [|exact H] end.
    eapply (Spawn (T_COMPACT j)); [| | | |reflexivity]; try reflexivity; [exact R|now apply negb_true_iff in B].
  - (* EMove *) rewrite Ep. destruct (p_ready p) eqn:R; [|exact H]. cbn [andb].
    destruct (negb (busy (T_COMPACT j) p)) eqn:B; [|exact H].
    eapply (Spawn (T_COMPACT j)); [| | | |reflexivity]; try reflexivity; [exact R|now apply negb_true_iff in B].
  - (* ETake *) rewrite Ep. destruct (p_ready p) eqn:R; [|exact H]. cbn [andb].
    destruct (negb (busy (T_READER r) p)) eqn:B; [|exact H]. cbn [andb].
    match goal with |- context [if ?c then _ else _] => destruct c; [|exact H] end.
    eapply (Spawn (T_READER r)); [| | | |reflexivity]; try reflexivity; [exact R|now apply negb_true_iff in B].
  - (* EDrop *) rewrite Ep. destruct (p_ready p) eqn:R; [|exact H]. cbn [andb].
    destruct (negb (busy (T_READER r) p)) eqn:B; [|exact H].
    eapply (Spawn (T_READER r)); [| | | |reflexivity]; try reflexivity; [exact R|now apply negb_true_iff in B].
  - (* EVBegin *) destruct (s_v s); [exact H|]. apply (dec_to_zero_intro t' _ p x rest); auto.
  - (* EVStep *) destruct (s_v s) as [v|]; [|exact H]. destruct (vp_pc v) as [|i rest'].
    + apply (dec_to_zero_intro t' _ p x rest); auto.
    + destruct (vexec i ok rest' (s_fs s)) as [fs pc]. apply (dec_to_zero_intro t' _ p x rest); auto.
  - (* EVCrash *) apply (dec_to_zero_intro t' _ p x rest); auto.
Qed.

(* with the lock: every fine-grained step is a stutter or the atomic step of the same event *)
Lemma fstep_refines ls ev : cb_ok ls ->
  cb_ok (fstep true ls ev) /\
  (fst (fstep true ls ev) = fst ls \/ fst (fstep true ls ev) = step (fst ls) ev).
Proof.
  destruct ls as [s cb]. unfold cb_ok. cbn [fst snd]. intros H.
  destruct ev as [names rolls mx|t| |y roll|j ins outs roll hold|j|r|r| | |ok| ];
    try (cbn [fstep fst snd]; split; [|now right];
         destruct cb as [[t' x]|]; [apply other_event_keeps; [exact H|exact I]|exact I]).
  - (* EStep *)
    cbn [fstep]. destruct cb as [[t' x]|].
    + destruct (N.eqb_spec t t') as [->|Hne].
      * cbn [fst snd]. split; [exact I|right; now apply rename_is_release].
      * destruct (next_instr t s) as [i|] eqn:Ei; [|cbn [fst snd]; split; [exact H|now left]].
        cbn [andb]. destruct (takes_table_lock i) eqn:Hl; cbn [fst snd]; [split; [exact H|now left]|].
        split; [now apply (other_step_keeps t' x s t i)|now right].
    + destruct (dec_to_zero t s) as [x|] eqn:Ed; cbn [fst snd]; [split; [exact Ed|now left]|split; [exact I|now right]].
  - (* ECrash *) cbn [fstep fst snd]. split; [exact I|now right].
Qed.

(* ... so every fine-grained run ends in a state that an atomic run reaches *)
Lemma frun_refines evs : forall ls, cb_ok ls -> (exists evs0, fst ls = run sys0 evs0) ->
  exists evs', fst (frun true ls evs) = run sys0 evs'.
Proof.
  induction evs as [|e evs IH]; intros ls Hc [evs0 E0]; cbn [frun]; [now exists evs0|].
  destruct (fstep_refines ls e Hc) as [Hc' [Hs|Hs]]; apply IH; try exact Hc'.
  - exists evs0. now rewrite Hs.
  - exists (evs0 ++ [e]). now rewrite Hs, run_app, E0.
Qed.

Lemma fine_refines_atomic evs : exists evs', fst (frun true lsys0 evs) = run sys0 evs'.
Proof. apply frun_refines; [exact I|now exists []]. Qed.

Lemma fine_needed_present evs x :
  needed (fst (frun true lsys0 evs)) x -> In x (f_sst (s_fs (fst (frun true lsys0 evs)))).
Proof. destruct (fine_refines_atomic evs) as [evs' ->]. apply needed_present. Qed.

(* inside the callback the table has no entry for the sst being renamed, and nothing that takes
   the table lock has run since the decision *)
Lemma cb_ok_run evs : cb_ok (frun true lsys0 evs).
Proof.
  assert (G : forall ls, cb_ok ls -> cb_ok (frun true ls evs)).
  { induction evs as [|e evs IH]; intros ls Hc; cbn [frun]; [exact Hc|]. apply IH. now apply fstep_refines. }
  apply G. exact I.
Qed.

(* ---- without the lock across the callback *)
Definition open_fresh_l : list event := EOpen [] [] 0 :: repeat (EStep T_MAIN) 6.
Definition flush_as_l (x : name) : list event := EWrite :: EFlush x false :: repeat (EStep T_FLUSH) 5.
(* sst 10 is flushed; a reader takes a snapshot; a compaction rewrites 10 as 11 (10 stays in sst/
   for the reader, count 1); a second compaction thread is about to re-create 10 from 11 when the
   reader lets go: the reader's decrement finds the last reference, the compaction pins 10 and
   links it (the file is there), the reader renames sst/10 to trash/10, the compaction's edit
   lists 10 *)
Definition ex_unlocked : list event :=
  open_fresh_l ++ flush_as_l 10 ++ [ETake 0; EStep (T_READER 0)]
  ++ ECompact 0 [10] [11] false false :: repeat (EStep (T_COMPACT 0)) 4
  ++ [ECompact 1 [11] [10] false false; EDrop 0; EStep (T_READER 0);
      EStep (T_READER 0);           (* dec_to_zero 10 *)
      EStep (T_COMPACT 1);          (* inc_and(10, hard_link): AlreadyExists *)
      EStep (T_READER 0);           (* rename_to_trash 10 *)
      EStep (T_COMPACT 1)].         (* the manifest edit -11 +10 and the new version *)

Lemma unlocked_loses_listed_sst :
  let s := fst (frun false lsys0 ex_unlocked) in needed s 10 /\ ~ In 10 (f_sst (s_fs s)).
Proof.
  cbn zeta. split.
  - left. vm_compute. now left.
  - intros K. vm_compute in K. destruct K as [K|[]]. discriminate K.
Qed.

(* the same events with the lock: the pin waits, the rename comes first, the link re-creates *)
Lemma locked_same_events :
  let s := fst (frun true lsys0 (ex_unlocked ++ [EStep (T_COMPACT 1)])) in
  live_strs s = [10] /\ In 10 (f_sst (s_fs s)).
Proof. vm_compute. split; [reflexivity|tauto]. Qed.
