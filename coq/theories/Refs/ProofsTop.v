(* Refs/ProofsTop.v — the statements of Props_C08.v, derived from the invariants. *)
From Coq Require Import NArith List Bool Lia Arith Sorted.
From Blue Require Import Refs.Model Refs.Spec Refs.ProofsBase Refs.ProofsMani Refs.ProofsInvM Refs.ProofsCount
  Refs.ProofsInvR Refs.ProofsVerifier Refs.ProofsKnown Refs.ProofsLogs.
Import ListNotations.
Open Scope N_scope.

Lemma needed_present evs x : needed (run sys0 evs) x -> In x (f_sst (s_fs (run sys0 evs))).
Proof.
  destruct (Inv_reach evs) as [HM [G HR]]. intros [H|[p [i [Hp [Hh Hx]]]]]; [exact (G x H)|].
  specialize (HR p Hp). destruct Hh as [[Hv ->]|[h Hh]].
  - exact (cur_names_in_sst p _ x HR Hv Hx).
  - exact (handle_names_in_sst p _ h i x HR Hh Hx).
Qed.

Lemma counted_present evs p x : s_p (run sys0 evs) = Some p ->
  (rc_get x (p_refs p) + spc (npin x) (p_pcs p) = regsum x (p_vers p) + spc (nrel x) (p_pcs p))%nat /\
  ((1 <= rc_get x (p_refs p))%nat -> In x (f_sst (s_fs (run sys0 evs)))).
Proof.
  destruct (Inv_reach evs) as [HM [G HR]]. intros Hp. specialize (HR p Hp).
  split; [exact (r_bal _ _ HR x)|exact (r_sst _ _ HR x)].
Qed.

Lemma orphans_unlisted evs x :
  In x (orphan_scan (f_md (s_fs (run sys0 evs)))) -> ~ In x (live_strs (run sys0 evs)).
Proof.
  destruct (Inv_reach evs) as [[HM _] _]. intros H. exact (orphan_scan_safe _ (d_ok _ _ _ HM) x H).
Qed.

(* open() finds every sst the manifest lists: from_manifest does not fail on a missing file *)
Lemma from_manifest_finds_all evs p rest :
  s_p (run sys0 evs) = Some p -> pc_get T_MAIN p = IFromManifest :: rest ->
  forallb (fun x => mem x (f_sst (s_fs (run sys0 evs)))) (ms_strs (p_ms p)) = true.
Proof.
  destruct (Inv_reach evs) as [[HM HP] [G HR]]. intros Hp Epc.
  destruct (HP p Hp) as [[P1 P2 P3 P4] PH].
  assert (Hh : Hd (s_fs (run sys0 evs)) p).
  { apply PH. unfold main_pc. rewrite Epc. intros [H|H]; [discriminate|]. apply P1. unfold main_pc. now rewrite Epc. }
  apply forallb_forall. intros x Hx. apply mem_In. apply G. unfold live_strs. now rewrite <- (proj1 Hh).
Qed.

Lemma verifier_unlinks_recorded evs ok :
  let s := run sys0 evs in let s' := step s (EVStep ok) in
  (forall x, In x (f_trash (s_fs s)) -> ~ In x (f_trash (s_fs s')) ->
     In (TSst x) (vs_strs (f_vs (s_fs s))) /\
     exists m f, vs_m (f_vs (s_fs s)) = Some m /\ In (m, f) (s_frags s) /\ recorded_in f (TSst x)) /\
  (forall n, log_has n (f_tlogs (s_fs s)) = true -> log_has n (f_tlogs (s_fs s')) = false ->
     In (TLog n) (vs_strs (f_vs (s_fs s))) /\
     exists m f, vs_m (f_vs (s_fs s)) = Some m /\ In (m, f) (s_frags s) /\ recorded_in f (TLog n)).
Proof.
  cbn zeta. destruct (Inv_reach evs) as [HM _]. exact (verifier_step_unlinks _ ok HM (InvV_reach evs)).
Qed.

Lemma verifier_events_store_view vevs : forall s, InvM s -> forallb verifier_event vevs = true ->
  store_view (run s vevs) = store_view s /\ InvM (run s vevs).
Proof.
  induction vevs as [|e vevs IH]; intros s HM Hall; cbn [run]; [split; [reflexivity|assumption]|].
  cbn [forallb] in Hall. apply andb_prop in Hall. destruct Hall as [He Hall].
  destruct (IH (step s e) (InvM_step s e HM) Hall) as [K1 K2]. split; [|exact K2].
  rewrite K1. exact (verifier_event_store_view s e HM He).
Qed.

Lemma run_app a : forall s b, run s (a ++ b) = run (run s a) b.
Proof. induction a as [|e a IH]; intros s b; cbn [run app]; [reflexivity|apply IH]. Qed.

(* after any part of any number of verifier passes, complete or cut short: the store's files, its
   logs, its live manifest and its highest fragment number are what they were, every needed sst is
   in place, and the manifest state is unchanged *)
Lemma verifier_preserves evs vevs : forallb verifier_event vevs = true ->
  let s := run sys0 evs in let s' := run s vevs in
  store_view s' = store_view s /\ live_strs s' = live_strs s /\
  (forall x, needed s' x -> In x (f_sst (s_fs s'))).
Proof.
  intros Hall. cbn zeta. destruct (Inv_reach evs) as [HM _].
  destruct (verifier_events_store_view vevs _ HM Hall) as [K _]. split; [exact K|split].
  - unfold live_strs. unfold store_view in K. now injection K as _ _ -> _ _.
  - intros x Hx. rewrite <- run_app in *. now apply needed_present.
Qed.

(* outside the known class the verifier's pending unlinks name setsums that no later edit has
   added again *)
Lemma pending_outside evs : ~ known_by_name sys0 evs -> pending_not_readded (run sys0 evs).
Proof. apply pending_outside_known; [apply InvM_init|apply pending_init]. Qed.

(* a log in the trash is empty, or the sst built from it was added to the manifest by a committed edit *)
Lemma trashed_logs_covered evs l : In l (f_tlogs (s_fs (run sys0 evs))) -> log_covered (run sys0 evs) l.
Proof. exact (l_trash _ (LInv_reach evs) l). Qed.
