(* Refs/ModelLock.v — release_sst at a finer grain: ReferenceCounter::dec_and's decision and its
   callback as two scheduler steps, with the lock on the table of counts as what joins them.

   Model.v executes `IRelease x` (release_sst: references.dec_and(x, || rename(sst/x, trash/x))) as
   one step.  The code is

       let mut counts = self.counts.lock().unwrap();      // the table lock
       ... if *entry.get() <= 1 { entry.remove(); f(); true } ...   // f = the rename
                                                            // unlock when `counts` goes out of scope

   so between "the count of x dropped to zero, entry removed" (dec_to_zero) and the rename
   (rename_to_trash) other threads run; what they cannot do is take the table lock: inc_and
   (a compaction pinning and linking an output), explicit_ref inside install_version, another
   release.  This file makes that the model: a release whose decrement is the last one is two
   steps, and in between a thread whose next instruction takes the table lock waits — when
   `lock = true`.  With `lock = false` (dec_and written as `let last = self.dec(t); if last
   { f(); }`: the callback runs after the lock has been given up) nobody waits.

   Representation.  The state in the window is (s, Some (t, x)): thread t is inside the callback
   for x.  `s` still shows `IRelease x` at the head of t's program and still carries x's entry in
   p_refs; `table` below is the table of counts as memory has it (x's entry gone).  With the lock
   held nobody can look at the table inside the window, so where in the critical section the entry
   goes is not observable; without the lock the other threads' increments and the deferred
   decrement commute, and the rename is unconditional either way: it was decided at dec_to_zero. *)
From Coq Require Import NArith List Bool.
From Blue Require Import Refs.Model.
Import ListNotations.
Open Scope N_scope.

(* the instructions that take the lock on the table of counts *)
Definition takes_table_lock (i : instr) : bool :=
  match i with
  | IPinLink _          (* references.inc_and *)
  | ICommit _ _         (* explicit_ref of the new version: references.inc per sst *)
  | IRelease _          (* references.dec_and *)
  | IFromManifest       (* explicit_ref of the first version *)
      => true
  | _ => false
  end.

(* the store with, possibly, one thread inside dec_and's callback *)
Definition lstate : Type := sys * option (N * name).

(* IDecToZero: thread t's next instruction is IRelease x, it may run, and its decrement is the
   last one (Occupied with count <= 1) *)
Definition dec_to_zero (t : N) (s : sys) : option name :=
  match s_p s with
  | None => None
  | Some p =>
      match pc_get t p with
      | IRelease x :: _ =>
          if negb (p_ready p) && negb (t =? T_MAIN) then None
          else if snd (rc_dec x (p_refs p)) then Some x else None
      | _ => None
      end
  end.

(* IRenameToTrash: the callback.  The rename happens whatever the table says by now *)
Definition rename_to_trash (t : N) (x : name) (s : sys) : sys :=
  match s_p s with
  | None => s
  | Some p =>
      let p1 := pc_set t (tl (pc_get t p)) p in
      upd_p (upd_fs s (to_trash x (s_fs s))) (Some (set_refs p1 (fst (rc_dec x (p_refs p1)))))
  end.

Definition next_instr (t : N) (s : sys) : option instr :=
  match s_p s with Some p => hd_error (pc_get t p) | None => None end.

Definition fstep (lock : bool) (ls : lstate) (ev : event) : lstate :=
  let (s, cb) := ls in
  match ev with
  | EStep t =>
      match cb with
      | Some (t', x) =>
          if t =? t' then (rename_to_trash t x s, None)
          else match next_instr t s with
               | Some i => if lock && takes_table_lock i then (s, cb)      (* waits for the lock *)
                           else (step s ev, cb)
               | None => (s, cb)
               end
      | None =>
          match dec_to_zero t s with
          | Some x => (s, Some (t, x))
          | None => (step s ev, None)
          end
      end
  | ECrash => (step s ev, None)
  | _ => (step s ev, cb)
  end.

Fixpoint frun (lock : bool) (ls : lstate) (evs : list event) : lstate :=
  match evs with [] => ls | e :: r => frun lock (fstep lock ls e) r end.

Definition lsys0 : lstate := (sys0, None).

(* the table of counts as memory has it *)
Definition table (ls : lstate) : refs :=
  match s_p (fst ls), snd ls with
  | Some p, Some (_, x) => fst (rc_dec x (p_refs p))
  | Some p, None => p_refs p
  | None, _ => []
  end.
