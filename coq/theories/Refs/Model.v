(* Refs/Model.v — executable model of the life cycle of files in an lsmtk store directory:
   per-SST reference counts across live versions, rename-to-trash, orphan clean-up on open, log
   files, and the offline verifier's unlink protocol.  Definitions only (no proofs).

   Transcribed from (after the repairs a899047, 88180bd, bc4e529, 48c731b):
     lsmtk/src/reference_counter.rs   ReferenceCounter::{inc, dec, inc_and, dec_and}
     lsmtk/src/tree/mod.rs            take_snapshot, VersionRef::drop, install_version, explicit_ref,
                                      explicit_unref, release_sst, compaction_finish (pin, link, apply,
                                      install, unpin), _ingest, apply_manifest_*, from_manifest,
                                      cleanup_orphans
     lsmtk/src/kvs/mod.rs             open, recover, recover_one, _memtable_thread (rollover, ingest,
                                      rename of the log), write (sequence numbers only)
     lsmtk/src/verifier.rs            verify, process_one, possibly_complete_processing, the sst/log
                                      lists of verify_one, added_after, list_mani_fragments
     mani/src/lib.rs                  at the level of edits: apply (+ size-triggered rollover as an
                                      oracle bit), open (always rolls over an existing MANIFEST),
                                      apply_edit (removals first), to_edit (roll-up)

   Granularity.  Every instruction below contains at most one mutating system call; the store is a
   set of threads (open sequence, memtable thread, any number of compaction threads, readers
   releasing a snapshot), each with its own list of pending instructions, stepped in any order; the process
   can die between any two steps (ECrash).  The verifier is a second process with its own pending
   instructions (EVStep / EVCrash).  What is atomic in the model and why:
     * Manifest::apply (an edit is durable or absent; C13's theorems);
     * the critical section of apply_manifest_ingest/_compaction/apply_moving_compaction
       (take_snapshot, mani.apply, install_version, drop of the snapshot's Arc): it runs under the
       tree's compaction mutex, and the only steps of other threads that can interleave with it are
       readers' take/release, which commute with it (see ProofsInv.v: the invariant holds however
       they are ordered around it);
     * ReferenceCounter::inc_and / dec_and (the count and the link / rename happen under the
       counter's lock: that is the point of 88180bd);
     * the read-only decision part of process_one (verify_one, added_after, the exists() checks).
   Names.  An sst is named by its setsum; `name` is that 256-bit number (the order of two names as
   numbers is the order of their 64-digit hex strings).  A log is named by its number.
   Sizes and contents are outside this model: which name a flush / compaction / log replay
   produces and whether an apply rolls the manifest over are inputs (oracle arguments of events). *)
From Coq Require Import NArith List Bool.
Import ListNotations.
Open Scope N_scope.

Definition name := N.

(* ---------------------------------------------------------------- small list machinery *)
Definition mem (x : name) (l : list name) : bool := existsb (N.eqb x) l.
Definition add (x : name) (l : list name) : list name := if mem x l then l else l ++ [x].
Definition del (x : name) (l : list name) : list name := filter (fun y => negb (N.eqb x y)) l.
Definition dels (xs l : list name) : list name := filter (fun y => negb (mem y xs)) l.
Definition is_nil {A} (l : list A) : bool := match l with [] => true | _ => false end.

(* association lists keyed by N *)
Fixpoint aget {A} (k : N) (l : list (N * A)) : option A :=
  match l with [] => None | (k', v) :: r => if k =? k' then Some v else aget k r end.
Fixpoint adel {A} (k : N) (l : list (N * A)) : list (N * A) :=
  match l with [] => [] | (k', v) :: r => if k =? k' then adel k r else (k', v) :: adel k r end.
Definition aset {A} (k : N) (v : A) (l : list (N * A)) : list (N * A) := (k, v) :: adel k l.

Fixpoint upd_nth {A} (n : nat) (f : A -> A) (l : list A) : list A :=
  match l, n with
  | [], _ => []
  | x :: r, O => f x :: r
  | x :: r, S n' => x :: upd_nth n' f r
  end.

(* ---------------------------------------------------------------- ReferenceCounter<Setsum> *)
Definition refs := list (name * nat).     (* u64 counts; unbounded here *)
Fixpoint rc_get (x : name) (r : refs) : nat :=
  match r with [] => O | (y, c) :: r' => if x =? y then c else rc_get x r' end.
(* inc: *counts.entry(t).or_insert(0) += 1 *)
Fixpoint rc_inc (x : name) (r : refs) : refs :=
  match r with
  | [] => [(x, 1%nat)]
  | (y, c) :: r' => if x =? y then (y, S c) :: r' else (y, c) :: rc_inc x r'
  end.
(* dec / dec_and: Occupied with count <= 1: remove the entry, true; Occupied: decrement, false;
   Vacant: false *)
Fixpoint rc_dec (x : name) (r : refs) : refs * bool :=
  match r with
  | [] => ([], false)
  | (y, c) :: r' =>
      if x =? y then (if Nat.leb c 1 then (r', true) else ((y, pred c) :: r', false))
      else let (r'', b) := rc_dec x r' in ((y, c) :: r'', b)
  end.
Definition rc_incs (xs : list name) (r : refs) : refs := fold_left (fun a x => rc_inc x a) xs r.

(* ---------------------------------------------------------------- the manifest, edit by edit *)
(* An Edit of the store's manifest: removed and added setsums and the 'L' info (the number of the
   log a flush has made redundant).  The 'I' 'O' 'D' setsum infos are C04's subject. *)
Record edit := mkEdit { e_rm : list name; e_add : list name; e_log : option N }.
Record mstate := mkMs { ms_strs : list name; ms_log : option N }.
Definition ms_empty : mstate := mkMs [] None.
(* Manifest::apply_edit: removals, then additions, then info *)
Definition apply_edit (e : edit) (s : mstate) : mstate :=
  mkMs (fold_left (fun a x => add x a) (e_add e) (fold_left (fun a x => del x a) (e_rm e) (ms_strs s)))
       (match e_log e with Some n => Some n | None => ms_log s end).
(* Manifest::to_edit *)
Definition rollup (s : mstate) : edit := mkEdit [] (ms_strs s) (ms_log s).
Definition frag_state (f : list edit) : mstate := fold_left (fun s e => apply_edit e s) f ms_empty.

(* mani/: MANIFEST.<n> in ascending order of n, and MANIFEST ([] = the file does not exist) *)
Record mdir := mkMd { md_frags : list (N * list edit); md_live : list edit }.
Definition max_id (fr : list (N * list edit)) : N := fold_left (fun m p => N.max m (fst p)) fr 0.

(* result of a manifest operation: directory, in-memory state, last_rollover, and (ghost) the
   fragment that was rolled over, if any *)
Definition mres := (mdir * mstate * N * option (N * list edit))%type.

(* Manifest::rollover: hard_link MANIFEST -> MANIFEST.<next>, write the roll-up, rename *)
Definition md_rollover (d : mdir) (ms : mstate) (next : N) : mres :=
  (mkMd (md_frags d ++ [(next, md_live d)]) [rollup ms], ms, next + 1, Some (next, md_live d)).

(* Manifest::apply.  `roll` is the oracle for on_disk_bytes > ratio * in_memory_bytes *)
Definition md_apply (d : mdir) (ms : mstate) (next : N) (e : edit) (roll : bool) : mres :=
  let was_empty := is_nil (ms_strs ms) in
  let ms' := apply_edit e ms in
  let d' := mkMd (md_frags d) (md_live d ++ [e]) in
  if roll && negb was_empty then md_rollover d' ms' next else (d', ms', next, None).

(* Manifest::open: read MANIFEST, next id = 1 + largest backup id, roll over if MANIFEST exists *)
Definition md_open (d : mdir) : mres :=
  let ms := frag_state (md_live d) in
  let next := max_id (md_frags d) + 1 in
  if is_nil (md_live d) then (d, ms, next, None) else md_rollover d ms next.

(* ---------------------------------------------------------------- cleanup_orphans *)
(* for one edit after the first of its fragment: insert every removed setsum, then remove every
   added one *)
Definition scan_edit (acc : list name) (e : edit) : list name :=
  fold_left (fun a x => del x a) (e_add e) (fold_left (fun a x => add x a) (e_rm e) acc).
Definition scan_frag (acc : list name) (f : list edit) : list name := fold_left scan_edit (tl f) acc.
Definition all_frags (d : mdir) : list (list edit) := map snd (md_frags d) ++ [md_live d].
Definition orphan_scan (d : mdir) : list name := fold_left scan_frag (all_frags d) [].

(* ---------------------------------------------------------------- files *)
(* a log file: its number, the largest timestamp written to it (0 = empty), and the setsum of its
   contents once it has been sealed / read back (the name of the sst built from it) *)
Record logf := mkLog { l_num : N; l_maxts : N; l_sum : option name }.
Fixpoint log_insert (l : logf) (ls : list logf) : list logf :=
  match ls with
  | [] => [l]
  | m :: r => if l_num l <? l_num m then l :: ls
              else if l_num l =? l_num m then l :: r else m :: log_insert l r
  end.
Definition log_remove (n : N) (ls : list logf) : list logf := filter (fun m => negb (l_num m =? n)) ls.
Definition log_find (n : N) (ls : list logf) : option logf := find (fun m => l_num m =? n) ls.
Definition log_has (n : N) (ls : list logf) : bool := existsb (fun m => l_num m =? n) ls.
Definition log_upd (n : N) (f : logf -> logf) (ls : list logf) : list logf :=
  map (fun m => if l_num m =? n then f m else m) ls.

(* an entry of trash/ as the verifier names it: <setsum>.sst or log.<n> *)
Inductive tent := TSst (x : name) | TLog (n : N).
Definition tent_eqb (a b : tent) : bool :=
  match a, b with TSst x, TSst y => x =? y | TLog x, TLog y => x =? y | _, _ => false end.

(* the verifier's own manifest (verify/): the basenames it is about to unlink, and 'M' = the
   number of the last fragment processed.  ('O', the accumulated setsum, is C04's subject; the
   roll-overs of this manifest are invisible at this level.) *)
Record vstate := mkVs { vs_strs : list tent; vs_m : option N }.

Record fsys := mkFs {
  f_sst : list name;        (* sst/<x>.sst *)
  f_trash : list name;      (* trash/<x>.sst *)
  f_logs : list logf;       (* log.<n> in the root, ascending *)
  f_tlogs : list logf;      (* trash/log.<n> *)
  f_md : mdir;              (* mani/ *)
  f_vs : vstate             (* verify/ (durable state of the verifier's manifest) *)
}.

(* ---------------------------------------------------------------- the store process *)
(* an Arc<Version>: the setsums it lists, Arc::strong_count, and whether it currently contributes
   to the reference counts (explicit_ref done, explicit_unref not yet begun) *)
Record vobj := mkV { v_names : list name; v_strong : nat; v_reg : bool }.

Inductive instr :=
| ILinkExcl (x : name)            (* _ingest: target.exists() -> duplicate-sst error, else hard_link *)
| IPinLink (x : name)             (* compaction_finish: references.inc_and(x, hard_link); EEXIST is fine *)
| ICommit (e : option edit) (roll : bool)
                                  (* the critical section: mani.apply(e) unless a trivial move,
                                     new version, explicit_ref, swap, release of the old Arc *)
| IRelease (x : name)             (* release_sst: references.dec_and(x, rename sst/x -> trash/x) *)
| ITake (h : N)                   (* take_snapshot into handle h *)
| IDropSnap (h : N)               (* VersionRef::drop *)
| IRenameLog (n : N)              (* rename log.n -> trash/log.n *)
| IManiOpen                       (* Manifest::open *)
| IInitEdit                       (* the first edit of a fresh store *)
| ILinkIfAbsent (x : name)        (* recover_one: if !sst_path.exists() { hard_link } *)
| IApplyIfAbsent (x : name) (roll : bool)   (* recover_one: if !mani.strs().any(..) { apply +x } *)
| IFromManifest                   (* LsmTree::from_manifest: open every listed sst, explicit_ref *)
| IOrphans                        (* cleanup_orphans: read the fragments, decide *)
| IOrphan (x : name)              (* ... if sst/x exists and trash/x does not: rename *)
| INewLog (recovered tree_max : N).   (* the sequence numbers of open(), start_new_log *)

Definition T_MAIN : N := 0.
Definition T_FLUSH : N := 1.
(* any number of compaction threads (LsmTree::compaction_thread runs on several threads; the
   j-th has its own program) and any number of readers *)
Definition T_COMPACT (j : N) : N := 2 + 2 * j.
Definition T_READER (r : N) : N := 3 + 2 * r.
Definition H_COMPACT (j : N) : N := 2 * j.   (* handle of perform_compaction's own snapshot *)
Definition H_READER (r : N) : N := 1 + 2 * r.

Record proc := mkP {
  p_vers : list vobj;               (* every Arc<Version> created by this process *)
  p_cur : nat;                      (* index of the one in LsmTree::version *)
  p_refs : refs;
  p_snaps : list (N * nat);         (* VersionRef handles -> version index *)
  p_ms : mstate;                    (* Manifest: in-memory strs/info *)
  p_next : N;                       (* Manifest: last_rollover *)
  p_seq : N;                        (* KeyValueStoreState::seq_no *)
  p_memseq : N;                     (* mem_seq_no *)
  p_lognum : N;                     (* number of the file behind mem_log *)
  p_pcs : list (N * list instr);    (* pending instructions per thread *)
  p_ready : bool                    (* open() has returned *)
}.

(* the verifier process *)
Inductive vinstr :=
| VStartEntry (n : N)               (* process_one(MANIFEST.n): first possibly_complete_processing *)
| VUnlinkFrag (n : N)               (* if entry.exists() { remove_file(entry) } *)
| VUnlinkTrash (t : tent)           (* if full_path.exists() { remove_file(full_path) } *)
| VClear                            (* mani.apply(rm every str) *)
| VDecide (n : N).                  (* the rest of process_one up to and including the intent edit *)
Record vproc := mkVp { vp_pc : list vinstr }.

Record sys := mkSys {
  s_fs : fsys;
  s_p : option proc;                (* None: the store process is not running *)
  s_v : option vproc;
  s_hist : list edit;               (* ghost: every edit ever applied, in order (no roll-ups) *)
  s_frags : list (N * list edit)    (* ghost: every fragment ever rolled over, in order *)
}.

(* ---------------------------------------------------------------- store steps *)
Definition pc_get (t : N) (p : proc) : list instr := match aget t (p_pcs p) with Some l => l | None => [] end.
Definition set_pcs (p : proc) (pcs : list (N * list instr)) : proc :=
  mkP (p_vers p) (p_cur p) (p_refs p) (p_snaps p) (p_ms p) (p_next p) (p_seq p) (p_memseq p)
      (p_lognum p) pcs (p_ready p).
Definition pc_set (t : N) (l : list instr) (p : proc) : proc :=
  set_pcs p (match l with [] => adel t (p_pcs p) | _ => aset t l (p_pcs p) end).
Definition set_refs (p : proc) (r : refs) : proc :=
  mkP (p_vers p) (p_cur p) r (p_snaps p) (p_ms p) (p_next p) (p_seq p) (p_memseq p)
      (p_lognum p) (p_pcs p) (p_ready p).
Definition set_vers (p : proc) (vs : list vobj) (cur : nat) : proc :=
  mkP vs cur (p_refs p) (p_snaps p) (p_ms p) (p_next p) (p_seq p) (p_memseq p)
      (p_lognum p) (p_pcs p) (p_ready p).
Definition set_handles (p : proc) (sn : list (N * nat)) : proc :=
  mkP (p_vers p) (p_cur p) (p_refs p) sn (p_ms p) (p_next p) (p_seq p) (p_memseq p)
      (p_lognum p) (p_pcs p) (p_ready p).
Definition set_mani (p : proc) (ms : mstate) (next : N) : proc :=
  mkP (p_vers p) (p_cur p) (p_refs p) (p_snaps p) ms next (p_seq p) (p_memseq p)
      (p_lognum p) (p_pcs p) (p_ready p).
Definition set_kvs (p : proc) (seq memseq lognum : N) (ready : bool) : proc :=
  mkP (p_vers p) (p_cur p) (p_refs p) (p_snaps p) (p_ms p) (p_next p) seq memseq lognum
      (p_pcs p) ready.

Definition set_sst (f : fsys) (sst trash : list name) : fsys :=
  mkFs sst trash (f_logs f) (f_tlogs f) (f_md f) (f_vs f).
Definition set_logs (f : fsys) (logs tlogs : list logf) : fsys :=
  mkFs (f_sst f) (f_trash f) logs tlogs (f_md f) (f_vs f).
Definition set_md (f : fsys) (d : mdir) : fsys :=
  mkFs (f_sst f) (f_trash f) (f_logs f) (f_tlogs f) d (f_vs f).
Definition set_vs (f : fsys) (v : vstate) : fsys :=
  mkFs (f_sst f) (f_trash f) (f_logs f) (f_tlogs f) (f_md f) v.

Definition dec_strong (v : vobj) : vobj := mkV (v_names v) (pred (v_strong v)) (v_reg v).
Definition inc_strong (v : vobj) : vobj := mkV (v_names v) (S (v_strong v)) (v_reg v).
Definition retire (v : vobj) : vobj := mkV (v_names v) O false.
Definition names_of (p : proc) (i : nat) : list name :=
  match nth_error (p_vers p) i with Some v => v_names v | None => [] end.
Definition strong_of (p : proc) (i : nat) : nat :=
  match nth_error (p_vers p) i with Some v => v_strong v | None => O end.

(* the holder of one Arc of version i lets go the way VersionRef::drop does:
   explicit_unref (strong_count == 1: the releases are queued on thread t), then the Arc drops *)
Definition unref_drop (t : N) (i : nat) (p : proc) : proc :=
  if Nat.eqb (strong_of p i) 1
  then pc_set t (map IRelease (names_of p i) ++ pc_get t p) (set_vers p (upd_nth i retire (p_vers p)) (p_cur p))
  else set_vers p (upd_nth i dec_strong (p_vers p)) (p_cur p).

(* rename sst/x -> trash/x; a rename whose source does not exist fails and changes nothing *)
Definition to_trash (x : name) (f : fsys) : fsys :=
  if mem x (f_sst f) then set_sst f (del x (f_sst f)) (add x (f_trash f)) else f.

Definition rollover_ghost (g : list (N * list edit)) (r : option (N * list edit)) :=
  match r with Some fr => g ++ [fr] | None => g end.

(* mani.apply of the store's manifest, with the ghost history *)
Definition store_apply (s : sys) (p : proc) (e : edit) (roll : bool) : sys * proc :=
  let '(d, ms, next, r) := md_apply (f_md (s_fs s)) (p_ms p) (p_next p) e roll in
  (mkSys (set_md (s_fs s) d) (s_p s) (s_v s) (s_hist s ++ [e]) (rollover_ghost (s_frags s) r),
   set_mani p ms next).

Definition max_ts (ls : list logf) : N := fold_left (fun m l => N.max m (l_maxts l)) ls 0.

(* one instruction of thread t (already removed from the front of t's list).  Returns the new
   system and process; `None` for the process means that the thread's error ended open() *)
Definition exec (t : N) (i : instr) (s : sys) (p : proc) : sys * option proc :=
  let fs := s_fs s in
  let same_fs p' := (s, Some p') in
  let with_fs f p' := (mkSys f (s_p s) (s_v s) (s_hist s) (s_frags s), Some p') in
  match i with
  | ILinkExcl x =>
      if mem x (f_sst fs) then same_fs (pc_set t [] p)      (* duplicate-sst: the thread returns Err *)
      else with_fs (set_sst fs (f_sst fs ++ [x]) (f_trash fs)) p
  | IPinLink x =>
      with_fs (set_sst fs (add x (f_sst fs)) (f_trash fs)) (set_refs p (rc_inc x (p_refs p)))
  | ICommit oe roll =>
      let old := p_cur p in
      let '(s1, p1) := match oe with Some e => store_apply s p e roll | None => (s, p) end in
      let names' := match oe with
                    | Some e => dels (e_rm e) (names_of p old) ++ e_add e
                    | None => names_of p old
                    end in
      let p2 := set_vers p1 (p_vers p1 ++ [mkV names' 1 true]) (length (p_vers p1)) in
      let p3 := set_refs p2 (rc_incs names' (p_refs p2)) in
      (s1, Some (unref_drop t old p3))
  | IRelease x =>
      let (r, last) := rc_dec x (p_refs p) in
      with_fs (if last then to_trash x fs else fs) (set_refs p r)
  | ITake h =>
      (* a handle is taken once (a second take under the same name does not happen; it would be
         a no-op here) *)
      match aget h (p_snaps p) with
      | Some _ => same_fs p
      | None => same_fs (set_handles (set_vers p (upd_nth (p_cur p) inc_strong (p_vers p)) (p_cur p))
                                     ((h, p_cur p) :: p_snaps p))
      end
  | IDropSnap h =>
      match aget h (p_snaps p) with
      | None => same_fs p
      | Some v => same_fs (unref_drop t v (set_handles p (adel h (p_snaps p))))
      end
  | IRenameLog n =>
      match log_find n (f_logs fs) with
      | None => same_fs p
      | Some l => with_fs (set_logs fs (log_remove n (f_logs fs)) (log_insert l (log_remove n (f_tlogs fs)))) p
      end
  | IManiOpen =>
      let '(d, ms, next, r) := md_open (f_md fs) in
      (mkSys (set_md fs d) (s_p s) (s_v s) (s_hist s) (rollover_ghost (s_frags s) r), Some (set_mani p ms next))
  | IInitEdit =>
      (* if mani.info('I').is_none(): a manifest that has ever been written has it *)
      if is_nil (md_live (f_md fs)) then let (s1, p1) := store_apply s p (mkEdit [] [] None) false in (s1, Some p1)
      else same_fs p
  | ILinkIfAbsent x =>
      if mem x (f_sst fs) then same_fs p else with_fs (set_sst fs (f_sst fs ++ [x]) (f_trash fs)) p
  | IApplyIfAbsent x roll =>
      if mem x (ms_strs (p_ms p)) then same_fs p
      else let (s1, p1) := store_apply s p (mkEdit [] [x] None) roll in (s1, Some p1)
  | IFromManifest =>
      let names := ms_strs (p_ms p) in
      if forallb (fun x => mem x (f_sst fs)) names
      then same_fs (set_refs (set_vers p [mkV names 1 true] O) (rc_incs names []))
      else (s, None)                                       (* file_manager.open fails: open() returns Err *)
  | IOrphans =>
      same_fs (pc_set t (map IOrphan (orphan_scan (f_md fs)) ++ pc_get t p) p)
  | IOrphan x =>
      if mem x (f_sst fs) && negb (mem x (f_trash fs)) then with_fs (to_trash x fs) p else same_fs p
  | INewLog recovered tree_max =>
      let seq := N.max (recovered + 1) tree_max in
      with_fs (set_logs fs (log_insert (mkLog seq 0 None) (f_logs fs)) (f_tlogs fs))
              (set_kvs p (seq + 1) seq seq true)
  end.

(* ---------------------------------------------------------------- the verifier *)
(* decimal digits, for the order of "log.<n>" names in the verifier's BTreeSet<String> *)
Fixpoint dec_fuel (fuel : nat) (n : N) (acc : list N) : list N :=
  match fuel with
  | O => acc
  | S f => let acc' := (48 + n mod 10) :: acc in if n <? 10 then acc' else dec_fuel f (n / 10) acc'
  end.
Definition dec (n : N) : list N := dec_fuel (S (N.to_nat (N.log2 n))) n [].
Fixpoint lex_ltb (a b : list N) : bool :=
  match a, b with
  | _, [] => false
  | [], _ :: _ => true
  | x :: a', y :: b' => if x <? y then true else if y <? x then false else lex_ltb a' b'
  end.
(* order of basenames: 64 hex digits + ".sst" before "log.<n>" ('l' sorts after every hex digit);
   ssts by their hex digits = numerically; logs by their decimal digits as strings *)
Definition tent_ltb (a b : tent) : bool :=
  match a, b with
  | TSst x, TSst y => x <? y
  | TSst _, TLog _ => true
  | TLog _, TSst _ => false
  | TLog x, TLog y => lex_ltb (dec x) (dec y)
  end.
Fixpoint tent_insert (t : tent) (l : list tent) : list tent :=
  match l with
  | [] => [t]
  | u :: r => if tent_eqb t u then l else if tent_ltb t u then t :: l else u :: tent_insert t r
  end.
Definition tent_sort (l : list tent) : list tent := fold_left (fun a t => tent_insert t a) l [].

(* verify_one's ssts_to_remove: per edit (the first included) push every removed setsum, then drop
   the ones the same edit adds; logs_to_remove: the 'L' of every edit but the first *)
Definition v1_edit (acc : list name) (e : edit) : list name := dels (e_add e) (acc ++ e_rm e).
Definition v1_ssts (f : list edit) : list name := fold_left v1_edit f [].
Definition v1_logs (f : list edit) : list N :=
  flat_map (fun e => match e_log e with Some n => [n] | None => [] end) (tl f).
(* added_after: every added setsum of the fragments numbered above n and of the live manifest *)
Definition added_after (n : N) (d : mdir) : list name :=
  flat_map (fun e => e_add e)
           (flat_map snd (filter (fun p => n <? fst p) (md_frags d)) ++ md_live d).
Definition frag_find (n : N) (d : mdir) : option (list edit) := aget n (md_frags d).
Definition frag_remove (n : N) (d : mdir) : mdir := mkMd (adel n (md_frags d)) (md_live d).

Definition tent_present (f : fsys) (t : tent) : bool :=
  match t with TSst x => mem x (f_trash f) | TLog n => log_has n (f_tlogs f) end.

(* what process_one would record for fragment n *)
Definition intent (n : N) (f : list edit) (d : mdir) : list tent :=
  map TSst (dels (added_after n d) (v1_ssts f)) ++ map TLog (v1_logs f).

(* one instruction of the verifier; `ok` is the oracle for verify_one's setsum checks.
   An empty continuation after an error = the pass returned Err *)
Definition vexec (i : vinstr) (ok : bool) (rest : list vinstr) (fs : fsys) : fsys * list vinstr :=
  let v := f_vs fs in
  match i with
  | VStartEntry n =>
      match vs_m v with
      | None => (fs, VDecide n :: rest)
      | Some old =>
          if n <? old then (fs, [])                         (* "clean up saw log out of order" *)
          else (fs, (if old =? n then [VUnlinkFrag n] else []) ++ map VUnlinkTrash (vs_strs v)
                    ++ [VClear; VDecide n] ++ rest)
      end
  | VUnlinkFrag n => (set_md fs (frag_remove n (f_md fs)), rest)
  | VUnlinkTrash (TSst x) => (set_sst fs (f_sst fs) (del x (f_trash fs)), rest)
  | VUnlinkTrash (TLog n) => (set_logs fs (f_logs fs) (log_remove n (f_tlogs fs)), rest)
  | VClear => (set_vs fs (mkVs [] (vs_m v)), rest)
  | VDecide n =>
      if match vs_m v with Some old => old =? n | None => false end then (fs, rest)
      else if negb (is_nil (vs_strs v)) then (fs, [])        (* assert!(strs().count() == 0) *)
      else match frag_find n (f_md fs) with
           | None => (fs, [])
           | Some f =>
               if negb ok then (fs, [])
               else
                 let want := intent n f (f_md fs) in
                 if forallb (tent_present fs) want
                 then let strs := tent_sort want in
                      (set_vs fs (mkVs strs (Some n)),
                       [VUnlinkFrag n] ++ map VUnlinkTrash strs ++ [VClear] ++ rest)
                 else (fs, [])                               (* backoff *)
           end
  end.

(* verify(): list_mani_fragments minus MANIFEST and minus the highest numbered fragment.
   (The Rust builds [MANIFEST.a; ..; MANIFEST.z; MANIFEST] - the path of MANIFEST is pushed whether
   or not the file exists - and pops twice; md_frags holds the numbered fragments only, so one
   removelast is the same list, also when there are no numbered fragments: [MANIFEST] popped twice
   is empty, and so is removelast [].) *)
Definition v_entries (d : mdir) : list N := removelast (map fst (md_frags d)).

(* ---------------------------------------------------------------- events *)
Inductive event :=
| EOpen (sums : list (N * name)) (rolls : list (N * bool)) (tree_max : N)
                                  (* KeyValueStore::open begins; sums: what each non-empty log
                                     replays into; rolls: whether that apply rolls over;
                                     tree_max: the lower bound on the first log's number that
                                     does not come from the logs (the tree's maximum timestamp;
                                     since /repo 58d2330 also the last flushed log's number + 1) *)
| EStep (t : N)                   (* the next instruction of thread t *)
| EWrite                          (* a write batch: one sequence number, one log append *)
| EFlush (x : name) (roll : bool) (* the memtable thread rolls the memtable over and seals its log *)
| ECompact (j : N) (ins outs : list name) (roll hold : bool)
                                  (* compaction thread j selected a merging compaction / garbage
                                     collection (other compactions may be in flight: their pins,
                                     links and releases interleave; only the critical section
                                     ICommit is under the tree's compaction mutex);
                                     hold: perform_compaction's own snapshot.  (Its SplitHint holds
                                     a second Arc of the same version for a shorter time, nested
                                     inside the snapshot's life; it only raises strong_count while
                                     the snapshot raises it anyway, so it is not a separate step.) *)
| EMove (j : N)                   (* compaction thread j selected a trivial move *)
| ETake (r : N)                   (* reader r is about to take a snapshot (its thread then steps) *)
| EDrop (r : N)                   (* reader r is about to drop it *)
| ECrash                          (* the store process dies *)
| EVBegin                         (* LsmVerifier::open + verify() lists the fragments *)
| EVStep (ok : bool)              (* next system call of the pass *)
| EVCrash.                        (* the verifier dies (or returns) *)

Definition fresh_proc : proc := mkP [] O [] [] ms_empty 0 0 0 0 [] false.

Definition recover_prog (sums : list (N * name)) (rolls : list (N * bool)) (l : logf) : list instr :=
  match aget (l_num l) sums with
  | Some x => if l_maxts l =? 0 then [IRenameLog (l_num l)]   (* log_to_builder returned None: empty log *)
              else [ILinkIfAbsent x;
                    IApplyIfAbsent x (match aget (l_num l) rolls with Some b => b | None => false end);
                    IRenameLog (l_num l)]
  | None => [IRenameLog (l_num l)]
  end.

Definition upd_p (s : sys) (p : option proc) : sys := mkSys (s_fs s) p (s_v s) (s_hist s) (s_frags s).
Definition upd_fs (s : sys) (f : fsys) : sys := mkSys f (s_p s) (s_v s) (s_hist s) (s_frags s).
Definition upd_v (s : sys) (v : option vproc) : sys := mkSys (s_fs s) (s_p s) v (s_hist s) (s_frags s).

Definition busy (t : N) (p : proc) : bool := negb (is_nil (pc_get t p)).

(* a log that holds data and has a known setsum *)
Definition seal_log (n : N) (x : name) (ls : list logf) : list logf :=
  log_upd n (fun l => mkLog (l_num l) (l_maxts l) (Some x)) ls.

Definition step (s : sys) (ev : event) : sys :=
  match ev with
  | EOpen sums rolls tree_max =>
      match s_p s with
      | Some _ => s
      | None =>
          (* the oracle must name the sst of every log that holds data *)
          if forallb (fun l => (l_maxts l =? 0) || match aget (l_num l) sums with Some _ => true | None => false end)
                     (f_logs (s_fs s))
          then
            let logs := map (fun l => match aget (l_num l) sums with
                                      | Some x => if l_maxts l =? 0 then l else mkLog (l_num l) (l_maxts l) (Some x)
                                      | None => l end) (f_logs (s_fs s)) in
            let recovered := max_ts logs in
            let prog := [IManiOpen; IInitEdit] ++ flat_map (recover_prog sums rolls) logs
                        ++ [IFromManifest; IOrphans; INewLog recovered tree_max] in
            upd_p (upd_fs s (set_logs (s_fs s) logs (f_tlogs (s_fs s)))) (Some (pc_set T_MAIN prog fresh_proc))
          else s
      end
  | EStep t =>
      match s_p s with
      | None => s
      | Some p =>
          match pc_get t p with
          | [] => s
          | i :: rest =>
              (* before open() has returned only the opening thread runs *)
              if negb (p_ready p) && negb (t =? T_MAIN) then s
              else let (s1, op) := exec t i s (pc_set t rest p) in upd_p s1 op
          end
      end
  | EWrite =>
      match s_p s with
      | Some p =>
          if p_ready p then
            let seq := p_seq p + 1 in
            upd_p (upd_fs s (set_logs (s_fs s)
                               (log_upd (p_lognum p) (fun l => mkLog (l_num l) seq None) (f_logs (s_fs s)))
                               (f_tlogs (s_fs s))))
                  (Some (set_kvs p seq (p_memseq p) (p_lognum p) true))
          else s
      | None => s
      end
  | EFlush x roll =>
      match s_p s with
      | Some p =>
          (* one flush at a time; a new sst's setsum is fresh: no thread is about to write it *)
          if p_ready p && negb (busy T_FLUSH p)
             && forallb (fun e => negb (existsb (fun i => match i with IPinLink y => x =? y | _ => false end) (snd e)))
                        (p_pcs p)
          then
            let old := p_lognum p in
            let logs := log_insert (mkLog (p_seq p) 0 None) (seal_log old x (f_logs (s_fs s))) in
            let prog := [ILinkExcl x; ICommit (Some (mkEdit [] [x] (Some (p_memseq p)))) roll; IRenameLog old] in
            upd_p (upd_fs s (set_logs (s_fs s) logs (f_tlogs (s_fs s))))
                  (Some (pc_set T_FLUSH prog (set_kvs p (p_seq p + 1) (p_seq p) (p_seq p) true)))
          else s
      | None => s
      end
  | ECompact j ins outs roll hold =>
      match s_p s with
      | Some p =>
          if p_ready p && negb (busy (T_COMPACT j) p)
             && negb (existsb (fun i => match i with
                                        | ICommit (Some e) _ => existsb (fun y => mem y outs) (e_add e)
                                        | _ => false end) (pc_get T_FLUSH p))
          then
            let prog := (if hold then [ITake (H_COMPACT j)] else [])
                        ++ map IPinLink outs ++ [ICommit (Some (mkEdit ins outs None)) roll]
                        ++ map IRelease outs
                        ++ (if hold then [IDropSnap (H_COMPACT j)] else []) in
            upd_p s (Some (pc_set (T_COMPACT j) prog p))
          else s
      | None => s
      end
  | EMove j =>
      match s_p s with
      | Some p =>
          if p_ready p && negb (busy (T_COMPACT j) p) then upd_p s (Some (pc_set (T_COMPACT j) [ICommit None false] p)) else s
      | None => s
      end
  | ETake r =>
      match s_p s with
      | Some p =>
          if p_ready p && negb (busy (T_READER r) p)
             && match aget (H_READER r) (p_snaps p) with None => true | Some _ => false end
          then upd_p s (Some (pc_set (T_READER r) [ITake (H_READER r)] p)) else s
      | None => s
      end
  | EDrop r =>
      match s_p s with
      | Some p =>
          if p_ready p && negb (busy (T_READER r) p)
          then upd_p s (Some (pc_set (T_READER r) [IDropSnap (H_READER r)] p)) else s
      | None => s
      end
  | ECrash => upd_p s None
  | EVBegin =>
      match s_v s with
      | Some _ => s
      | None => upd_v s (Some (mkVp (map VStartEntry (v_entries (f_md (s_fs s))))))
      end
  | EVStep ok =>
      match s_v s with
      | None => s
      | Some v =>
          match vp_pc v with
          | [] => upd_v s None                              (* verify() returned *)
          | i :: rest => let (fs, pc) := vexec i ok rest (s_fs s) in upd_v (upd_fs s fs) (Some (mkVp pc))
          end
      end
  | EVCrash => upd_v s None
  end.

Fixpoint run (s : sys) (evs : list event) : sys :=
  match evs with [] => s | e :: r => run (step s e) r end.

Definition fs0 : fsys := mkFs [] [] [] [] (mkMd [] []) (mkVs [] None).
Definition sys0 : sys := mkSys fs0 None None [] [].

(* ---------------------------------------------------------------- observation (for the driver) *)
Definition live_strs (s : sys) : list name := ms_strs (frag_state (md_live (f_md (s_fs s)))).
