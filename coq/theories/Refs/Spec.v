(* Refs/Spec.v — the vocabulary of property C08 over the Refs model.  Definitions only. *)
From Coq Require Import NArith List Bool.
From Blue Require Import Refs.Model.
Import ListNotations.
Open Scope N_scope.

(* a version somebody can still read: the current one, or one named by a snapshot handle *)
Definition held_version (p : proc) (i : nat) : Prop :=
  (p_vers p <> [] /\ i = p_cur p) \/ exists h, aget h (p_snaps p) = Some i.

(* what must not be removed: every sst the committed manifest state lists, and every sst of a
   version that is held *)
Definition needed (s : sys) (x : name) : Prop :=
  In x (live_strs s) \/
  exists p i, s_p s = Some p /\ held_version p i /\ In x (names_of p i).

(* a log is covered once it is empty, or the sst built from its contents was added to the
   manifest by a committed edit *)
Definition ever_added (h : list edit) (x : name) : Prop := exists e, In e h /\ In x (e_add e).
Definition log_covered (s : sys) (l : logf) : Prop :=
  l_maxts l = 0 \/ exists x, l_sum l = Some x /\ ever_added (s_hist s) x.

(* what a fragment of the manifest records about a trash entry *)
Definition recorded_in (f : list edit) (t : tent) : Prop :=
  match t with
  | TSst x => exists e, In e f /\ In x (e_rm e)
  | TLog n => exists e, In e (tl f) /\ e_log e = Some n
  end.

(* what the store reads when it opens, apart from the older fragments (read only by
   cleanup_orphans) and the trash *)
Definition store_view (s : sys) :=
  (f_sst (s_fs s), f_logs (s_fs s), md_live (f_md (s_fs s)), max_id (md_frags (f_md (s_fs s))), s_p s).

Definition verifier_event (ev : event) : bool :=
  match ev with EVBegin | EVStep _ | EVCrash => true | _ => false end.

(* ---- the verifier by incarnation (known class K-verifier-by-name) *)
(* a setsum the verifier has recorded for unlinking is not added again by any edit after the
   fragment it verified: what sits in trash under that name is the incarnation whose removal the
   verified fragment recorded *)
Definition pending_not_readded (s : sys) : Prop :=
  forall x m, In (TSst x) (vs_strs (f_vs (s_fs s))) -> vs_m (f_vs (s_fs s)) = Some m ->
              ~ In x (added_after m (f_md (s_fs s))).

(* the class: a step applies a manifest edit that adds a setsum named by the verifier's recorded
   intent *)
Definition readds_pending (s : sys) (ev : event) : Prop :=
  exists e x, s_hist (step s ev) = s_hist s ++ [e] /\ In x (e_add e) /\ In (TSst x) (vs_strs (f_vs (s_fs s))).
Fixpoint known_by_name (s : sys) (evs : list event) : Prop :=
  match evs with [] => False | ev :: r => readds_pending s ev \/ known_by_name (step s ev) r end.
