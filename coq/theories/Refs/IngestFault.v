(* Refs/IngestFault.v — LsmTree::_ingest (lsmtk/src/tree/mod.rs) with Manifest::_apply and
   Manifest::rollover (mani/src/lib.rs) at the granularity of one fallible system call, with an I/O
   error returned by any one of them.  The main model (Refs/Model.v) treats Manifest::apply as atomic and
   has process death as its only fault; this file is the complement for the ingest path: what is
   in sst/, what a reader of mani/MANIFEST reconstructs, and what the process believes, after an
   ingest that failed at ANY call.

   Transcription notes (checked by the correspondence stage `ingest-fault` of checks/c08.py, which
   records the real call sequence with strace, injects EIO at every call of it in turn and compares
   the directory and the manifest with `ingest`):
   - `_ingest`: stat of the source; `target.exists()` -> duplicate-sst error before any change;
     hard_link; then apply_manifest_ingest -> Manifest::apply.  NO clean-up on error.
   - `_apply`: refuses at once when poisoned; otherwise updates the in-memory state FIRST, then
     open(append) / write / fdatasync of MANIFEST, metadata(), and possibly rollover.
   - `rollover`: last_rollover += 1 BEFORE hard_link(MANIFEST, MANIFEST.<n>); remove MANIFEST.tmp if
     it exists; open / write / fdatasync MANIFEST.tmp with the whole in-memory state; rename over
     MANIFEST.  Every error poisons the manifest.
   An injected error means the call did not happen (write: nothing written; fdatasync: the data is
   in the file all the same, which is what a reader in the same boot sees - durability under power
   loss is C02's subject, not this file's). *)
From Coq Require Import NArith List Bool Lia.
From Blue Require Import Refs.Model.
Import ListNotations.
Open Scope N_scope.

Inductive call := CStat | CLink | CMOpen | CMWrite | CMSync | CMStat
                | CRLink | CTRm | CTOpen | CTWrite | CTSync | CRename.

Record ist := mkI {
  i_sst : list name;            (* names in sst/ *)
  i_live : list name;           (* the strings a reader of mani/MANIFEST reconstructs *)
  i_backups : list N;           (* numbered fragments MANIFEST.<n> present *)
  i_next : N;                   (* Manifest::last_rollover *)
  i_tmp : option (list name);   (* MANIFEST.tmp: absent, or present holding this state *)
  i_poison : bool;              (* Manifest::poison is set *)
  i_mem : list name             (* Manifest::strs, what the process believes *)
}.

Definition is_mani_call (c : call) : bool :=
  match c with CStat | CLink => false | _ => true end.

(* what happens before the call is issued, whether or not it then fails *)
Definition before (x : name) (c : call) (s : ist) : ist :=
  match c with
  | CMOpen => mkI (i_sst s) (i_live s) (i_backups s) (i_next s) (i_tmp s) (i_poison s) (add x (i_mem s))
  | CRLink => mkI (i_sst s) (i_live s) (i_backups s) (i_next s + 1) (i_tmp s) (i_poison s) (i_mem s)
  | _ => s
  end.

(* the effect of the call when it succeeds *)
Definition after (x : name) (c : call) (s : ist) : ist :=
  match c with
  | CLink => mkI (add x (i_sst s)) (i_live s) (i_backups s) (i_next s) (i_tmp s) (i_poison s) (i_mem s)
  | CMWrite => mkI (i_sst s) (add x (i_live s)) (i_backups s) (i_next s) (i_tmp s) (i_poison s) (i_mem s)
  | CRLink => mkI (i_sst s) (i_live s) (i_backups s ++ [i_next s - 1]) (i_next s) (i_tmp s) (i_poison s) (i_mem s)
  | CTRm => mkI (i_sst s) (i_live s) (i_backups s) (i_next s) None (i_poison s) (i_mem s)
  | CTOpen => mkI (i_sst s) (i_live s) (i_backups s) (i_next s) (Some []) (i_poison s) (i_mem s)
  | CTWrite => mkI (i_sst s) (i_live s) (i_backups s) (i_next s) (Some (i_mem s)) (i_poison s) (i_mem s)
  | CRename => mkI (i_sst s) (match i_tmp s with Some t => t | None => i_live s end) (i_backups s) (i_next s) None
                   (i_poison s) (i_mem s)
  | _ => s
  end.

Definition poison (s : ist) : ist :=
  mkI (i_sst s) (i_live s) (i_backups s) (i_next s) (i_tmp s) true (i_mem s).

(* run the calls in order; `fault` = Some k: the k-th call of the list (from 0) returns an error *)
Fixpoint run_calls (x : name) (cs : list call) (fault : option nat) (s : ist) : ist * bool :=
  match cs with
  | [] => (s, true)
  | c :: cs' =>
      let s1 := before x c s in
      match fault with
      | Some O => ((if is_mani_call c then poison s1 else s1), false)
      | Some (S k) => run_calls x cs' (Some k) (after x c s1)
      | None => run_calls x cs' None (after x c s1)
      end
  end.

Definition tmp_calls (s : ist) : list call := match i_tmp s with Some _ => [CTRm] | None => [] end.

(* the calls one ingest of x issues when nothing fails; `roll` = the size test of _apply asks for a
   roll-over (an input read off the implementation: sizes are not modelled) *)
Definition prog (x : name) (roll : bool) (s : ist) : list call :=
  if mem x (i_sst s) then [CStat]
  else if i_poison s then [CStat; CLink]
  else [CStat; CLink; CMOpen; CMWrite; CMSync; CMStat]
       ++ (if roll then [CRLink] ++ tmp_calls s ++ [CTOpen; CTWrite; CTSync; CRename] else []).

Definition unlink (x : name) (s : ist) : ist :=
  mkI (del x (i_sst s)) (i_live s) (i_backups s) (i_next s) (i_tmp s) (i_poison s) (i_mem s).

(* `undo` = false is the code as it is.  `undo` = true is the tempting clean-up ("the ingest did
   not happen, take the link back") whose refutation below says why it must not be written. *)
Definition ingest (undo : bool) (x : name) (roll : bool) (fault : option nat) (s : ist) : ist * bool :=
  if mem x (i_sst s) then
    (* stat, then duplicate-sst; a fault at the stat is an error too *)
    (s, false)
  else
    let '(s', ok) := run_calls x (prog x roll s) fault s in
    let ok' := ok && negb (i_poison s) in
    let linked := match fault with Some O => false | Some (S O) => false | _ => true end in
    ((if undo && negb ok' && linked then unlink x s' else s'), ok').

(* ------------------------------------------------------------------ the invariant *)
Definition J (s : ist) : Prop :=
  incl (i_live s) (i_sst s) /\ incl (i_mem s) (i_sst s) /\
  (forall t, i_tmp s = Some t -> incl t (i_sst s)).

Lemma mem_In x l : mem x l = true <-> In x l.
Proof.
  unfold mem. rewrite existsb_exists. split.
  - intros [y [Hy He]]. apply N.eqb_eq in He. now subst.
  - intros H. exists x. split; [assumption|apply N.eqb_refl].
Qed.

Lemma In_add x y l : In y (add x l) <-> y = x \/ In y l.
Proof.
  unfold add. destruct (mem x l) eqn:E.
  - apply mem_In in E. split; [now right|intros [->|H]; assumption].
  - rewrite in_app_iff. cbn. split; [intros [H|[H|[]]]; auto|intros [H|H]; auto].
Qed.

Lemma incl_add_r x l m : incl l m -> incl l (add x m).
Proof. intros H y Hy. apply In_add. right. now apply H. Qed.

Lemma incl_add_l x l m : In x m -> incl l m -> incl (add x l) m.
Proof. intros Hx H y Hy. apply In_add in Hy. destruct Hy as [->|Hy]; [assumption|now apply H]. Qed.

(* one call, once x is linked, keeps J and removes nothing from sst/ *)
Lemma call_J x c s : J s -> In x (i_sst s) -> c <> CLink ->
  J (before x c s) /\ J (after x c (before x c s)) /\
  i_sst (before x c s) = i_sst s /\ i_sst (after x c (before x c s)) = i_sst s.
Proof.
  intros [Hl [Hm Ht]] Hx Hc.
  assert (Hs : forall u, Some (i_mem s) = Some u -> incl u (i_sst s)) by (intros u E; inversion E; subst; assumption).
  assert (Hn : forall u, @None (list name) = Some u -> incl u (i_sst s)) by (intros u E; discriminate).
  assert (He : forall u, Some (@nil name) = Some u -> incl u (i_sst s)) by (intros u E; inversion E; subst; intros y []).
  assert (Hr : incl (match i_tmp s with Some u => u | None => i_live s end) (i_sst s))
    by (destruct (i_tmp s) as [u|] eqn:E; [now apply (Ht u)|assumption]).
  destruct c; try congruence; cbn; unfold J; cbn; repeat split;
    solve [assumption | now apply incl_add_l].
Qed.

Lemma poison_J s : J s -> J (poison s).
Proof. intros H. exact H. Qed.

Lemma run_calls_J x cs : forall fault s, J s -> In x (i_sst s) -> ~ In CLink cs ->
  J (fst (run_calls x cs fault s)) /\ i_sst (fst (run_calls x cs fault s)) = i_sst s.
Proof.
  induction cs as [|c cs IH]; intros fault s HJ Hx Hn; cbn [run_calls].
  - destruct fault; cbn; auto.
  - assert (Hc : c <> CLink) by (intros ->; apply Hn; now left).
    assert (Hn' : ~ In CLink cs) by (intros H; apply Hn; now right).
    destruct (call_J x c s HJ Hx Hc) as [Hb [Ha [Eb Ea]]].
    destruct fault as [[|k]|].
    + cbn [fst]. destruct (is_mani_call c); cbn; split; try assumption.
    + destruct (IH (Some k) (after x c (before x c s)) Ha) as [H1 H2]; [rewrite Ea; assumption|assumption|].
      split; [assumption|now rewrite H2].
    + destruct (IH None (after x c (before x c s)) Ha) as [H1 H2]; [rewrite Ea; assumption|assumption|].
      split; [assumption|now rewrite H2].
Qed.

Lemma link_J x s : J s -> J (after x CLink s) /\ In x (i_sst (after x CLink s)) /\
  incl (i_sst s) (i_sst (after x CLink s)).
Proof.
  intros [Hl [Hm Ht]]. cbn. unfold J. cbn. repeat split.
  - now apply incl_add_r.
  - now apply incl_add_r.
  - intros t E. apply incl_add_r. now apply Ht.
  - apply In_add. now left.
  - intros y Hy. apply In_add. now right.
Qed.

Lemma tail_no_link (roll : bool) (s : ist) : ~ In CLink ([CMOpen; CMWrite; CMSync; CMStat]
       ++ (if roll then [CRLink] ++ tmp_calls s ++ [CTOpen; CTWrite; CTSync; CRename] else [])).
Proof.
  unfold tmp_calls. destruct roll, (i_tmp s); cbn; intuition discriminate.
Qed.

Lemma fst_ingest_false x roll fault s : mem x (i_sst s) = false ->
  fst (ingest false x roll fault s) = fst (run_calls x (prog x roll s) fault s).
Proof.
  intros E. unfold ingest. rewrite E. destruct (run_calls x (prog x roll s) fault s). reflexivity.
Qed.

(* the ingest as written (undo = false): J is kept and sst/ only grows, whatever call fails *)
Lemma ingest_J x roll fault s : J s ->
  J (fst (ingest false x roll fault s)) /\ incl (i_sst s) (i_sst (fst (ingest false x roll fault s))).
Proof.
  intros HJ. destruct (mem x (i_sst s)) eqn:Ex.
  - unfold ingest. rewrite Ex. cbn. split; [assumption|apply incl_refl].
  - rewrite (fst_ingest_false x roll fault s Ex). unfold prog. rewrite Ex.
    assert (G : forall cs, ~ In CLink cs ->
      J (fst (run_calls x (CStat :: CLink :: cs) fault s)) /\
      incl (i_sst s) (i_sst (fst (run_calls x (CStat :: CLink :: cs) fault s)))).
    { intros cs Hn. cbn [run_calls before after is_mani_call].
      destruct fault as [[|[|k]]|]; cbn [fst].
      - split; [assumption|apply incl_refl].
      - split; [assumption|apply incl_refl].
      - destruct (link_J x s HJ) as [H1 [H2 H3]].
        destruct (run_calls_J x cs (Some k) _ H1 H2 Hn) as [H4 H5]. split; [exact H4|].
        intros y Hy. change (In y (i_sst (fst (run_calls x cs (Some k) (after x CLink s))))). rewrite H5. now apply H3.
      - destruct (link_J x s HJ) as [H1 [H2 H3]].
        destruct (run_calls_J x cs None _ H1 H2 Hn) as [H4 H5]. split; [exact H4|].
        intros y Hy. change (In y (i_sst (fst (run_calls x cs None (after x CLink s))))). rewrite H5. now apply H3. }
    destruct (i_poison s).
    + exact (G [] (fun H => H)).
    + exact (G _ (tail_no_link roll s)).
Qed.

(* an ingest that returns success has made x present and listed *)
Lemma run_calls_ok x cs : forall fault s s', run_calls x cs fault s = (s', true) ->
  run_calls x cs None s = (s', true).
Proof.
  induction cs as [|c cs IH]; intros fault s s' H; cbn [run_calls] in *.
  - destruct fault; assumption.
  - destruct fault as [[|k]|]; [discriminate|now apply (IH (Some k))|assumption].
Qed.

Lemma no_add_live_keeps x c s y : In y (i_live s) -> c <> CRename -> In y (i_live (after x c (before x c s))).
Proof. intros H Hc. destruct c; cbn; try assumption; try congruence. apply In_add. now right. Qed.

Lemma ingest_ok_listed x roll fault s s' :
  ingest false x roll fault s = (s', true) -> In x (i_sst s') /\ In x (i_live s').
Proof.
  unfold ingest. destruct (mem x (i_sst s)) eqn:Ex; [discriminate|].
  unfold prog. rewrite Ex. destruct (i_poison s) eqn:Ep.
  - destruct (run_calls x [CStat; CLink] fault s) as [s1 ok]. cbn. rewrite andb_false_r. discriminate.
  - destruct (run_calls _ _ fault s) as [s1 ok] eqn:Er. cbn [andb negb]. rewrite andb_true_r.
    intros H. inversion H. subst. clear H. apply run_calls_ok in Er. revert Er.
    unfold tmp_calls. destruct roll; [destruct (i_tmp s)|]; cbn; intros Er; inversion Er; subst; clear Er; cbn;
      rewrite !In_add; auto.
Qed.

(* any number of ingests, each with any fault: every listed sst is present, nothing is removed *)
Definition iop := (name * bool * option nat)%type.
Definition istep (s : ist) (o : iop) : ist := fst (ingest false (fst (fst o)) (snd (fst o)) (snd o) s).
Definition i0 : ist := mkI [] [] [] 0 None false [].

Lemma J_i0 : J i0.
Proof. unfold J, i0. cbn. split; [intros y []|split; [intros y []|intros t H; discriminate]]. Qed.

Lemma ingests_J ops : forall s, J s ->
  J (fold_left istep ops s) /\ incl (i_sst s) (i_sst (fold_left istep ops s)).
Proof.
  induction ops as [|o ops IH]; intros s HJ; cbn [fold_left].
  - split; [assumption|apply incl_refl].
  - destruct o as [[x roll] fault]. unfold istep at 2 4. cbn [fst snd].
    destruct (ingest_J x roll fault s HJ) as [H1 H2]. destruct (IH _ H1) as [H3 H4].
    split; [assumption|]. intros y Hy. apply H4, H2, Hy.
Qed.

Lemma listed_present ops x : In x (i_live (fold_left istep ops i0)) -> In x (i_sst (fold_left istep ops i0)).
Proof. intros H. destruct (ingests_J ops i0 J_i0) as [[Hl _] _]. now apply Hl. Qed.

Lemma nothing_removed ops o x : In x (i_sst (fold_left istep ops i0)) -> In x (i_sst (fold_left istep (ops ++ [o]) i0)).
Proof.
  intros H. rewrite fold_left_app. cbn [fold_left]. destruct o as [[y roll] fault].
  destruct (ingests_J ops i0 J_i0) as [HJ _].
  destruct (ingest_J y roll fault _ HJ) as [_ H2]. now apply H2.
Qed.

(* a manifest call that failed poisons the manifest, and a poisoned manifest refuses every later ingest:
   what a reader of MANIFEST reconstructs never changes again in this process (the ingests still make
   their hard link first, which stays behind as an orphan for the next open to clean up) *)
Lemma fault_in_manifest_poisons x roll k s : mem x (i_sst s) = false -> i_poison s = false ->
  (2 <= k)%nat -> (k < length (prog x roll s))%nat ->
  i_poison (fst (ingest false x roll (Some k) s)) = true /\ snd (ingest false x roll (Some k) s) = false.
Proof.
  intros Ex Ep Hk Hl. unfold ingest. rewrite Ex. revert Hl. unfold prog. rewrite Ex, Ep.
  assert (G : forall cs n s0, (n < length cs)%nat -> (forall c, In c cs -> is_mani_call c = true) ->
              i_poison (fst (run_calls x cs (Some n) s0)) = true /\ snd (run_calls x cs (Some n) s0) = false).
  { induction cs as [|c cs IH]; intros n s0 Hn Hc; cbn [length] in Hn; [lia|].
    cbn [run_calls]. destruct n as [|n].
    - rewrite (Hc c (or_introl eq_refl)). cbn. auto.
    - apply IH; [lia|intros c' Hc'; apply Hc; now right]. }
  destruct k as [|[|k]]; try lia. intros Hl.
  assert (E : forall c1 c2 cs s0, run_calls x (c1 :: c2 :: cs) (Some (S (S k))) s0 =
            run_calls x cs (Some k) (after x c2 (before x c2 (after x c1 (before x c1 s0))))) by reflexivity.
  cbn [app] in *. rewrite E.
  match goal with |- context [run_calls x ?cs (Some k) ?s0] =>
    destruct (G cs k s0) as [G1 G2] end.
  - cbn [length] in *. lia.
  - intros c Hc. unfold tmp_calls in Hc. destruct roll, (i_tmp s); cbn in Hc;
      repeat (destruct Hc as [<-|Hc]; [reflexivity|]); destruct Hc.
  - match goal with |- context [run_calls x ?cs (Some k) ?s0] => destruct (run_calls x cs (Some k) s0) as [s1 ok] end.
    cbn in *. subst. cbn. auto.
Qed.

Lemma poisoned_refuses x roll fault s : i_poison s = true ->
  snd (ingest false x roll fault s) = false /\ i_live (fst (ingest false x roll fault s)) = i_live s /\
  i_poison (fst (ingest false x roll fault s)) = true.
Proof.
  intros Ep. unfold ingest. destruct (mem x (i_sst s)) eqn:Ex; [cbn; auto|].
  unfold prog. rewrite Ex, Ep. cbn [run_calls before after is_mani_call].
  destruct fault as [[|[|k]]|]; cbn; rewrite ?andb_false_r; auto.
Qed.

(* the clean-up variant is wrong: a failure of the roll-over's hard link comes AFTER the edit
   reached MANIFEST; taking the link back leaves a listed sst without its file *)
Definition cex_fault : option nat := Some 6%nat.    (* CRLink *)
Lemma undo_refuted : J i0 /\ ~ J (fst (ingest true 7 true cex_fault i0)).
Proof.
  split; [exact J_i0|]. intros [H _]. specialize (H 7). vm_compute in H. apply H. now left.
Qed.

Lemma undo_refuted_witness :
  ingest true 7 true cex_fault i0 = (mkI [] [7] [] 1 None true [7], false).
Proof. vm_compute. reflexivity. Qed.

(* table for the correspondence stage: the calls and, per fault position, (x in sst/, x listed,
   success, backups, tmp present) *)
Definition obs (x : name) (r : ist * bool) : bool * bool * bool * list N * bool * bool :=
  (mem x (i_sst (fst r)), mem x (i_live (fst r)), snd r, i_backups (fst r),
   match i_tmp (fst r) with Some _ => true | None => false end, i_poison (fst r)).
