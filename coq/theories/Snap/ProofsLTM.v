(* Snap/ProofsLTM.v — a MergingCursor over children whose lists may have grown by entries newer than
   t is a LATE-TOLERANT cursor over O, the sorted union of the children's entries not newer than t
   (the interface of ProofsLT).  Each child is, as it stands, an exact reference cursor over its
   current list; what the merge keeps across insertions is stated entry by entry:
     forward : an entry of O lies behind a child's position  iff  it comes before O[v]
     backward: an entry of O lies at or before a child's position  iff  it is at most O[r]. *)
From Coq Require Import NArith ZArith List Bool Lia Permutation.
From Blue Require Import Cursor.Iface Cursor.Ref Cursor.Concat Cursor.Merging Cursor.Spec Cursor.Proofs_Order Cursor.Proofs_Ref
  Cursor.Proofs_Spec Cursor.Proofs_Heap Cursor.Proofs_Merging Cursor.Proofs_Pruning Snap.ProofsLT.
Import ListNotations.
Local Open Scope Z_scope.

(* ---------------------------------------------------------------- lists without repeated (key, timestamp) *)
Lemma distinct_In l : distinct l -> forall x y, In x l -> In y l -> eeq x y -> x = y.
Proof.
  induction 1 as [|a l Hf Hd IH]; intros x y Hx Hy He; [destruct Hx|]. rewrite Forall_forall in Hf.
  destruct Hx as [->|Hx], Hy as [->|Hy]; auto.
  - exfalso. now apply (Hf y Hy).
  - exfalso. apply (Hf x Hx). unfold eeq in *. rewrite ecmp_antisym, He. reflexivity.
Qed.
Lemma distinct_app_disj l1 l2 : distinct (l1 ++ l2) -> forall x y, In x l1 -> In y l2 -> ~ eeq x y.
Proof.
  induction l1 as [|a l1 IH]; intros Hd x y Hx Hy; [destruct Hx|]. cbn [app] in Hd. inversion Hd as [|? ? Hf Hd']; subst.
  destruct Hx as [->|Hx]; [|now apply IH]. rewrite Forall_forall in Hf. apply Hf. apply in_or_app. now right.
Qed.
Lemma distinct_app_r l1 l2 : distinct (l1 ++ l2) -> distinct l2.
Proof. induction l1 as [|a l1 IH]; [auto|]. cbn [app]. intros H. inversion H; subst. auto. Qed.
Lemma distinct_perm l l' : Permutation l l' -> distinct l -> distinct l'.
Proof.
  induction 1 as [|a l l' HP IH|a b l|l1 l2 l3 H1 IH1 H2 IH2]; intros Hd; auto.
  - inversion Hd as [|? ? Hf Hd']; subst. constructor; [|auto]. eapply Permutation_Forall; eauto.
  - inversion Hd as [|? ? Hf Hd']; subst. inversion Hd' as [|? ? Hf' Hd'']; subst. inversion Hf as [|? ? Hab Hf2]; subst.
    constructor; [constructor; [|exact Hf']|constructor; [exact Hf2|exact Hd'']].
    intros He. apply Hab. unfold eeq in *. rewrite ecmp_antisym, He. reflexivity.
Qed.

Section MergeLT.
Context {S : Type} (c : cursor S) (t : N) (O : list entry).
Hypothesis HsO : sorted O.
Hypothesis HoldO : forall e, In e O -> (ets e <= t)%N.

Notation n := (len O).
Definition isold (e : entry) : bool := N.leb (ets e) t.
Notation cutO := (cut O).

(* the children's CURRENT lists: sorted, no (key, timestamp) twice overall, and the entries not
   newer than t among them are exactly O *)
Definition lstatic (ds : list slot) : Prop :=
  Forall (fun d => sorted (fst d)) ds /\ distinct (concat (map fst ds)) /\
  Permutation (filter isold (concat (map fst ds))) O.

Definition FW (v : Z) (ds : list slot) : Prop :=
  Forall (fun d : slot => forall k o, ent (fst d) k = Some o -> isold o = true -> (k < snd d <-> cutO v o = true)) ds.
Definition RV (r : Z) (ds : list slot) : Prop :=
  Forall (fun d : slot => forall k o, ent (fst d) k = Some o -> isold o = true -> (k <= snd d <-> cutO (r + 1) o = true)) ds.
Definition inrF (ds : list slot) : Prop := Forall (fun d : slot => 0 <= snd d <= len (fst d)) ds.
Definition inrR (ds : list slot) : Prop := Forall (fun d : slot => -1 <= snd d <= len (fst d) - 1) ds.

(* ---- O and the slots *)
Lemma old_in_O ds d o : lstatic ds -> In d ds -> In o (fst d) -> isold o = true -> exists j, ent O j = Some o.
Proof.
  intros [_ [_ HP]] Hd Ho Hold. apply In_ent. eapply Permutation_in; [exact HP|]. apply filter_In. split; [|exact Hold].
  apply in_concat. exists (fst d). split; [now apply in_map|exact Ho].
Qed.
Lemma O_in_slot ds j : lstatic ds -> 0 <= j < n -> exists d, In d ds /\ In (at_ O j) (fst d).
Proof.
  intros [_ [_ HP]] Hj. assert (In (at_ O j) (filter isold (concat (map fst ds)))) as H.
  { eapply Permutation_in; [symmetry; exact HP|]. eapply ent_In. apply ent_at. exact Hj. }
  apply filter_In in H. destruct H as [H _]. apply in_concat in H. destruct H as [l [Hl He]].
  apply in_map_iff in Hl. destruct Hl as [d [<- Hd]]. eauto.
Qed.
Lemma at_isold j : 0 <= j < n -> isold (at_ O j) = true.
Proof. intros Hj. unfold isold. apply N.leb_le. apply HoldO. eapply ent_In. apply ent_at. exact Hj. Qed.
Lemma slots_same_entry ds d d' x y : lstatic ds -> In d ds -> In d' ds -> In x (fst d) -> In y (fst d') -> eeq x y -> x = y.
Proof.
  intros [_ [Hd _]] H1 H2 Hx Hy. apply (distinct_In _ Hd); apply in_concat; [exists (fst d)|exists (fst d')]; split; auto; now apply in_map.
Qed.
(* an entry of the first slot is in no other slot *)
Lemma root_slot_only d0 ds x d : lstatic (d0 :: ds) -> In x (fst d0) -> In d ds -> In x (fst d) -> False.
Proof.
  intros [_ [Hd _]] Hx Hin Hx'. cbn [map concat] in Hd.
  apply (distinct_app_disj _ _ Hd x x Hx); [|unfold eeq; apply ecmp_refl].
  apply in_concat. exists (fst d). split; [now apply in_map|exact Hx'].
Qed.

Lemma cut_at v j : 0 <= v <= n -> 0 <= j < n -> (cutO v (at_ O j) = true <-> j < v).
Proof. intros Hv Hj. apply (cut_idx O HsO v j); [exact Hv|now apply ent_at]. Qed.

Lemma ele_antisym_eeq a b : ele a b -> ele b a -> eeq a b.
Proof. intros H1 H2. eorder. Qed.

Lemma kid_of kids ds d : slots_ok c kids ds -> In d ds ->
  exists j s, nth_error kids j = Some s /\ refines c s (fst d) (snd d).
Proof.
  intros Hok Hd. destruct (In_nth_error _ _ Hd) as [j Hj]. destruct (Forall2_nth_r _ _ _ _ _ Hok Hj) as [s [Hs Hr]]. eauto.
Qed.

(* ---------------------------------------------------------------- what the root shows *)
Lemma root_fwdLT s0 kids d0 ds v : slots_ok c (s0 :: kids) (d0 :: ds) -> lstatic (d0 :: ds) -> FW v (d0 :: ds) ->
  inrF (d0 :: ds) -> heap c true (s0 :: kids) -> 0 <= v <= n ->
  match c_kv c s0 with
  | Some e => isold e = true -> v < n /\ e = at_ O v
  | None => v = n
  end.
Proof.
  intros Hok Hst Hfw Hin Hheap Hv.
  assert (forall x, v < n -> x = at_ O v ->
            exists j s y, nth_error (s0 :: kids) j = Some s /\ c_kv c s = Some y /\ ele y x) as Hahead.
  { intros x Hvn ->. destruct (O_in_slot _ v Hst ltac:(lia)) as [d [Hd Hx]].
    destruct (In_ent _ _ Hx) as [k Hk]. pose proof (ent_range _ _ _ Hk) as Hkr.
    unfold FW in Hfw. rewrite Forall_forall in Hfw. pose proof (Hfw d Hd k _ Hk (at_isold v ltac:(lia))) as Hc.
    assert (~ k < snd d) as Hnb. { intros H. apply Hc in H. apply (cut_at v v Hv ltac:(lia)) in H. lia. }
    unfold inrF in Hin. rewrite Forall_forall in Hin. pose proof (Hin d Hd) as Hr.
    destruct (kid_of _ _ d Hok Hd) as [j [s [Hs Hrf]]].
    destruct (ent_some (fst d) (snd d) ltac:(lia)) as [y Hy].
    exists j, s, y. split; [exact Hs|]. split; [rewrite (refines_kv c _ _ _ Hrf); exact Hy|].
    destruct Hst as [Hso _]. rewrite Forall_forall in Hso. apply (sorted_ent_le (fst d) (Hso d Hd) (snd d) k); auto; lia. }
  inversion Hok as [|? ? ? ? H0 Hok']; subst.
  destruct (c_kv c s0) as [e|] eqn:Ekv.
  - intros Hold. rewrite (refines_kv c _ _ _ H0) in Ekv.
    unfold FW in Hfw. rewrite Forall_forall in Hfw. pose proof (Hfw d0 (or_introl eq_refl) (snd d0) e Ekv Hold) as Hc.
    assert (cutO v e = false) as Hce by (destruct (cutO v e); [destruct Hc as [_ Hc]; specialize (Hc eq_refl); lia|reflexivity]).
    destruct (old_in_O _ d0 e Hst (or_introl eq_refl) (ent_In _ _ _ Ekv) Hold) as [je Hje].
    pose proof (ent_range _ _ _ Hje) as Hjer. pose proof (ent_at_inv O je e Hje) as [Ee _].
    assert (~ je < v) as Hge. { intros H. rewrite Ee in Hce. apply (cut_at v je Hv Hjer) in H. congruence. }
    split; [lia|].
    destruct (Hahead (at_ O v) ltac:(lia) eq_refl) as [j [s [y [Hs [Hy Hle]]]]].
    pose proof (heap_min c true _ s0 j s Hheap eq_refl Hs) as Hmin. unfold is_less in Hmin.
    rewrite Hy, (refines_kv c _ _ _ H0), Ekv in Hmin. cbn in Hmin.
    assert (ele e y) by (destruct (eltb_spec y e); [discriminate|eorder]).
    assert (ele (at_ O v) e) by (rewrite Ee; apply (sorted_ent_le O HsO v je); try (apply ent_at); lia).
    destruct (O_in_slot _ v Hst ltac:(lia)) as [d [Hd Hx]].
    apply (slots_same_entry _ d0 d e (at_ O v) Hst (or_introl eq_refl) Hd (ent_In _ _ _ Ekv) Hx). apply ele_antisym_eeq; eorder.
  - destruct (Z.eq_dec v n) as [|Hne]; [assumption|exfalso].
    destruct (Hahead (at_ O v) ltac:(lia) eq_refl) as [j [s [y [Hs [Hy _]]]]].
    pose proof (heap_min c true _ s0 j s Hheap eq_refl Hs) as Hmin. unfold is_less in Hmin. rewrite Hy, Ekv in Hmin. discriminate.
Qed.

Lemma root_revLT s0 kids d0 ds r : slots_ok c (s0 :: kids) (d0 :: ds) -> lstatic (d0 :: ds) -> RV r (d0 :: ds) ->
  inrR (d0 :: ds) -> heap c false (s0 :: kids) -> -1 <= r <= n - 1 ->
  match c_kv c s0 with
  | Some e => (isold e = true -> 0 <= r /\ e = at_ O r) /\ (isold e = false -> 0 <= r -> elt (at_ O r) e)
  | None => r = -1
  end.
Proof.
  intros Hok Hst Hrv Hin Hheap Hr.
  assert (forall x, 0 <= r -> x = at_ O r ->
            exists j s y, nth_error (s0 :: kids) j = Some s /\ c_kv c s = Some y /\ ele x y) as Hbehind.
  { intros x Hr0 ->. destruct (O_in_slot _ r Hst ltac:(lia)) as [d [Hd Hx]].
    destruct (In_ent _ _ Hx) as [k Hk]. pose proof (ent_range _ _ _ Hk) as Hkr.
    unfold RV in Hrv. rewrite Forall_forall in Hrv. pose proof (Hrv d Hd k _ Hk (at_isold r ltac:(lia))) as Hc.
    assert (k <= snd d) as Hle. { apply Hc. apply (cut_at (r + 1) r ltac:(lia) ltac:(lia)). lia. }
    unfold inrR in Hin. rewrite Forall_forall in Hin. pose proof (Hin d Hd) as Hrr.
    destruct (kid_of _ _ d Hok Hd) as [j [s [Hs Hrf]]].
    destruct (ent_some (fst d) (snd d) ltac:(lia)) as [y Hy].
    exists j, s, y. split; [exact Hs|]. split; [rewrite (refines_kv c _ _ _ Hrf); exact Hy|].
    destruct Hst as [Hso _]. rewrite Forall_forall in Hso. apply (sorted_ent_le (fst d) (Hso d Hd) k (snd d)); auto; lia. }
  inversion Hok as [|? ? ? ? H0 Hok']; subst.
  destruct (c_kv c s0) as [e|] eqn:Ekv.
  - rewrite (refines_kv c _ _ _ H0) in Ekv. split.
    + intros Hold. unfold RV in Hrv. rewrite Forall_forall in Hrv. pose proof (Hrv d0 (or_introl eq_refl) (snd d0) e Ekv Hold) as Hc.
      assert (cutO (r + 1) e = true) as Hce by (apply Hc; lia).
      destruct (old_in_O _ d0 e Hst (or_introl eq_refl) (ent_In _ _ _ Ekv) Hold) as [je Hje].
      pose proof (ent_range _ _ _ Hje) as Hjer. pose proof (ent_at_inv O je e Hje) as [Ee _].
      assert (je < r + 1) as Hlt. { rewrite Ee in Hce. apply (cut_at (r + 1) je ltac:(lia) Hjer) in Hce. exact Hce. }
      split; [lia|].
      destruct (Hbehind (at_ O r) ltac:(lia) eq_refl) as [j [s [y [Hs [Hy Hle]]]]].
      pose proof (heap_min c false _ s0 j s Hheap eq_refl Hs) as Hmin. unfold is_less in Hmin.
      rewrite Hy, (refines_kv c _ _ _ H0), Ekv in Hmin. cbn in Hmin.
      assert (ele y e) by (destruct (eltb_spec e y); [discriminate|eorder]).
      assert (ele e (at_ O r)) by (rewrite Ee; apply (sorted_ent_le O HsO je r); try (apply ent_at); lia).
      destruct (O_in_slot _ r Hst ltac:(lia)) as [d [Hd Hx]].
      apply (slots_same_entry _ d0 d e (at_ O r) Hst (or_introl eq_refl) Hd (ent_In _ _ _ Ekv) Hx). apply ele_antisym_eeq; eorder.
    + intros Hlate Hr0. destruct (Hbehind (at_ O r) Hr0 eq_refl) as [j [s [y [Hs [Hy Hle]]]]].
      pose proof (heap_min c false _ s0 j s Hheap eq_refl Hs) as Hmin. unfold is_less in Hmin.
      rewrite Hy, (refines_kv c _ _ _ H0), Ekv in Hmin. cbn in Hmin.
      assert (ele y e) by (destruct (eltb_spec e y); [discriminate|eorder]).
      assert (ele (at_ O r) e) as Hae by eorder.
      destruct (ecmp (at_ O r) e) eqn:Ec; [exfalso|exact Ec|exfalso; apply Hae; exact Ec].
      (* equal (key, timestamp): then e would not be newer than t *)
      apply ecmp_eq_iff in Ec. destruct Ec as [_ Ets]. pose proof (at_isold r ltac:(lia)) as Ho. unfold isold in *. rewrite Ets in Ho. congruence.
  - destruct (Z.eq_dec r (-1)) as [|Hne]; [assumption|exfalso].
    destruct (Hbehind (at_ O r) ltac:(lia) eq_refl) as [j [s [y [Hs [Hy _]]]]].
    pose proof (heap_min c false _ s0 j s Hheap eq_refl Hs) as Hmin. unfold is_less in Hmin. rewrite Hy, Ekv in Hmin. discriminate.
Qed.

(* ---------------------------------------------------------------- the states of the merge *)
Fixpoint asum (ds : list slot) : Z := match ds with [] => 0 | d :: r => (len (fst d) - snd d) + asum r end.
Fixpoint bsum (ds : list slot) : Z := match ds with [] => 0 | d :: r => (snd d + 1) + bsum r end.
Fixpoint tsum (ds : list slot) : Z := match ds with [] => 0 | d :: r => (len (fst d) + 1) + tsum r end.

Lemma lstatic_perm ds ds' : Permutation ds ds' -> lstatic ds -> lstatic ds'.
Proof.
  intros HP [H1 [H2 H3]].
  assert (Permutation (concat (map fst ds)) (concat (map fst ds'))) as HC by (apply Permutation_concat; now apply Permutation_map).
  split; [eapply Permutation_Forall; eauto|]. split; [eapply distinct_perm; eauto|].
  etransitivity; [|exact H3]. symmetry. clear -HC. induction HC; cbn [filter]; auto.
  - destruct (isold x); [now constructor|assumption].
  - destruct (isold x), (isold y); try reflexivity; try constructor.
  - etransitivity; eauto.
Qed.
Lemma asum_perm ds ds' : Permutation ds ds' -> asum ds = asum ds'.
Proof. induction 1; cbn [asum]; lia. Qed.
Lemma bsum_perm ds ds' : Permutation ds ds' -> bsum ds = bsum ds'.
Proof. induction 1; cbn [bsum]; lia. Qed.
Lemma tsum_perm ds ds' : Permutation ds ds' -> tsum ds = tsum ds'.
Proof. induction 1; cbn [tsum]; lia. Qed.

Definition kvmatch (st : mstate S) (p : lpos) : Prop :=
  match p with
  | LAt j => 0 <= j < n /\ m_kv c st = Some (at_ O j)
  | LGap g => match m_kv c st with None => True | Some x => isold x = false end
  end.

Definition Fnorm (st : mstate S) (v a T : Z) : Prop :=
  exists ds, m_fwd st = true /\ 0 <= v <= n /\ slots_ok c (m_kids st) ds /\ lstatic ds /\ FW v ds /\ inrF ds /\
             heap c true (m_kids st) /\ asum ds = a /\ tsum ds = T.
Definition Fstart (st : mstate S) (a T : Z) : Prop :=
  exists ds, m_fwd st = true /\ slots_ok c (m_kids st) ds /\ lstatic ds /\
             match ds with [] => True | d0 :: ds' => snd d0 = -1 /\ FW 0 ds' /\ inrF ds' end /\
             heap c true (on_root (c_next c) (m_kids st)) /\ asum ds = a /\ tsum ds = T.
Definition Rnorm (st : mstate S) (r b T : Z) : Prop :=
  exists ds, m_fwd st = false /\ -1 <= r <= n - 1 /\ slots_ok c (m_kids st) ds /\ lstatic ds /\ RV r ds /\ inrR ds /\
             heap c false (m_kids st) /\ bsum ds = b /\ tsum ds = T.
Definition Rend (st : mstate S) (b T : Z) : Prop :=
  exists ds, m_fwd st = false /\ slots_ok c (m_kids st) ds /\ lstatic ds /\
             match ds with [] => True | d0 :: ds' => snd d0 = len (fst d0) /\ RV (n - 1) ds' /\ inrR ds' end /\
             heap c false (on_root (c_prev c) (m_kids st)) /\ bsum ds = b /\ tsum ds = T.

(* the merge stands at logical position p; a / b = entries still to come forward / backward;
   T bounds both, whatever the direction *)
Inductive MLT (st : mstate S) : bool -> lpos -> Z -> Z -> Z -> Prop :=
| MLF p a T : Fnorm st (nu p) a T -> kvmatch st p -> MLT st true p a (T + 1) T
| MLFs a T : Fstart st a T -> MLT st true (LGap 0) a (T + 1) T
| MLR p b T : Rnorm st (rho p) b T -> kvmatch st p -> MLT st false p (T + 1) b T
| MLRe b T : Rend st b T -> MLT st false (LGap n) (T + 1) b T.

Definition stat (st : mstate S) (T : Z) : Prop := exists ds, slots_ok c (m_kids st) ds /\ lstatic ds /\ tsum ds = T.
Lemma MLT_stat st md p a b T : MLT st md p a b T -> stat st T.
Proof. intros [p0 a0 T0 [ds H] _|a0 T0 [ds H]|p0 b0 T0 [ds H] _|b0 T0 [ds H]]; exists ds; tauto. Qed.

Lemma sums_bound ds : inrF ds -> 0 <= asum ds <= tsum ds.
Proof. induction 1 as [|d r Hd Hr IH]; cbn [asum tsum]; lia. Qed.
Lemma sums_boundR ds : inrR ds -> 0 <= bsum ds <= tsum ds.
Proof. induction 1 as [|d r Hd Hr IH]; cbn [bsum tsum]; lia. Qed.

(* ---- normal forms: given the facts about some arrangement of the children, conclude for a permutation *)
Lemma to_Fnorm kids kids' ds v : Permutation kids' kids -> slots_ok c kids ds -> lstatic ds -> FW v ds -> inrF ds ->
  heap c true kids' -> 0 <= v <= n ->
  exists p, nu p = v /\ MLT (mkM true kids') true p (asum ds) (tsum ds + 1) (tsum ds) /\ (m_kv c (mkM true kids') = None -> p = LGap n).
Proof.
  intros HP Hok Hst Hfw Hin Hheap Hv.
  destruct (Forall2_perm _ _ _ _ Hok (Permutation_sym HP)) as [ds' [HP' Hok']].
  pose proof (lstatic_perm _ _ HP' Hst) as Hst'. assert (FW v ds') as Hfw' by (eapply Permutation_Forall; eauto).
  assert (inrF ds') as Hin' by (eapply Permutation_Forall; eauto).
  rewrite (asum_perm _ _ HP'), (tsum_perm _ _ HP').
  assert (forall p, nu p = v -> Fnorm (mkM true kids') (nu p) (asum ds') (tsum ds')) as HF
    by (intros p <-; exists ds'; cbn [m_fwd m_kids]; split; [reflexivity|]; split; [exact Hv|]; split; [exact Hok'|]; split; [exact Hst'|]; split; [exact Hfw'|]; split; [exact Hin'|]; split; [exact Hheap|]; split; reflexivity).
  destruct kids' as [|s0 kids1].
  - inversion Hok'; subst. destruct Hst' as [_ [_ HPo]]. cbn in HPo. apply Permutation_nil in HPo.
    assert (v = 0) by (rewrite HPo in Hv; cbn in Hv; lia). subst v.
    exists (LGap 0). split; [reflexivity|]. split; [apply MLF; [now apply HF|cbn; exact I]|]. intros _. rewrite HPo. reflexivity.
  - destruct ds' as [|d0 ds1]; [inversion Hok'|].
    pose proof (root_fwdLT s0 kids1 d0 ds1 v Hok' Hst' Hfw' Hin' Hheap Hv) as Hroot.
    unfold m_kv. cbn [m_kids]. destruct (c_kv c s0) as [e|] eqn:Ekv.
    + destruct (isold e) eqn:Eo.
      * destruct (Hroot eq_refl) as [Hvn ->]. exists (LAt v). split; [reflexivity|]. split; [|intros; discriminate].
        apply MLF; [now apply HF|]. cbn [kvmatch m_kv m_kids]. rewrite Ekv. split; [lia|reflexivity].
      * exists (LGap v). split; [reflexivity|]. split; [|intros; discriminate].
        apply MLF; [now apply HF|]. cbn [kvmatch m_kv m_kids]. rewrite Ekv. exact Eo.
    + subst v. exists (LGap n). split; [reflexivity|]. split; [|reflexivity].
      apply MLF; [now apply HF|]. cbn [kvmatch m_kv m_kids]. rewrite Ekv. exact I.
Qed.

Lemma to_Rnorm kids kids' ds r : Permutation kids' kids -> slots_ok c kids ds -> lstatic ds -> RV r ds -> inrR ds ->
  heap c false kids' -> -1 <= r <= n - 1 ->
  exists p, rho p = r /\ MLT (mkM false kids') false p (tsum ds + 1) (bsum ds) (tsum ds) /\
            (m_kv c (mkM false kids') = None -> p = LGap 0) /\
            (forall g x, p = LGap g -> m_kv c (mkM false kids') = Some x -> 0 < g -> elt (at_ O (g - 1)) x).
Proof.
  intros HP Hok Hst Hrv Hin Hheap Hr.
  destruct (Forall2_perm _ _ _ _ Hok (Permutation_sym HP)) as [ds' [HP' Hok']].
  pose proof (lstatic_perm _ _ HP' Hst) as Hst'. assert (RV r ds') as Hrv' by (eapply Permutation_Forall; eauto).
  assert (inrR ds') as Hin' by (eapply Permutation_Forall; eauto).
  rewrite (bsum_perm _ _ HP'), (tsum_perm _ _ HP').
  assert (forall p, rho p = r -> Rnorm (mkM false kids') (rho p) (bsum ds') (tsum ds')) as HF
    by (intros p <-; exists ds'; cbn [m_fwd m_kids]; split; [reflexivity|]; split; [exact Hr|]; split; [exact Hok'|]; split; [exact Hst'|]; split; [exact Hrv'|]; split; [exact Hin'|]; split; [exact Hheap|]; split; reflexivity).
  destruct kids' as [|s0 kids1].
  - inversion Hok'; subst. destruct Hst' as [_ [_ HPo]]. cbn in HPo. apply Permutation_nil in HPo.
    assert (r = -1) by (rewrite HPo in Hr; cbn in Hr; lia). subst r.
    exists (LGap 0). split; [reflexivity|]. split; [apply MLR; [now apply HF|cbn; exact I]|]. split; [reflexivity|]. intros g x _ H. discriminate.
  - destruct ds' as [|d0 ds1]; [inversion Hok'|].
    pose proof (root_revLT s0 kids1 d0 ds1 r Hok' Hst' Hrv' Hin' Hheap Hr) as Hroot.
    unfold m_kv. cbn [m_kids]. destruct (c_kv c s0) as [e|] eqn:Ekv.
    + destruct Hroot as [Ho Hl]. destruct (isold e) eqn:Eo.
      * destruct (Ho eq_refl) as [Hr0 ->]. exists (LAt r). split; [reflexivity|]. split; [|split; [intros; discriminate|intros; discriminate]].
        apply MLR; [now apply HF|]. cbn [kvmatch m_kv m_kids]. rewrite Ekv. split; [lia|reflexivity].
      * exists (LGap (r + 1)). split; [cbn; lia|]. split; [|split; [intros; discriminate|]].
        -- apply MLR; [apply HF; cbn; lia|]. cbn [kvmatch m_kv m_kids]. rewrite Ekv. exact Eo.
        -- intros g x Eg Ex Hg. injection Eg as <-. injection Ex as <-. replace (r + 1 - 1) with r by lia. apply Hl; [reflexivity|lia].
    + subst r. exists (LGap 0). split; [reflexivity|]. split; [|split; [reflexivity|intros; discriminate]].
      apply MLR; [now apply HF|]. cbn [kvmatch m_kv m_kids]. rewrite Ekv. exact I.
Qed.

(* ---------------------------------------------------------------- the transitions *)
Lemma lstatic_map g ds : (forall d, fst (g d) = fst d) -> lstatic ds -> lstatic (map g ds).
Proof.
  intros Hg [H1 [H2 H3]]. assert (map fst (map g ds) = map fst ds) as E by (rewrite map_map; apply map_ext; exact Hg).
  split; [|rewrite E; auto]. rewrite Forall_forall in *. intros d Hd. apply in_map_iff in Hd. destruct Hd as [d' [<- Hd']]. rewrite Hg. now apply H1.
Qed.
Lemma tsum_map g ds : (forall d, fst (g d) = fst d) -> tsum (map g ds) = tsum ds.
Proof. intros Hg. induction ds as [|d r IH]; [reflexivity|]. cbn [map tsum]. now rewrite Hg, IH. Qed.
Lemma lstatic_root d0 d0' ds : fst d0' = fst d0 -> lstatic (d0 :: ds) -> lstatic (d0' :: ds).
Proof.
  intros E [H1 [H2 H3]]. unfold lstatic. cbn [map concat] in *. rewrite E. split; [|auto]. inversion H1; subst. constructor; [rewrite E|]; assumption.
Qed.
Lemma lstatic_tail d0 ds : lstatic (d0 :: ds) -> Forall (fun d => sorted (fst d)) ds.
Proof. intros [H _]. now inversion H. Qed.

Lemma cut0_false ds d o k : lstatic ds -> In d ds -> ent (fst d) k = Some o -> isold o = true -> cutO 0 o = false.
Proof.
  intros Hst Hd Hk Ho. destruct (old_in_O _ d o Hst Hd (ent_In _ _ _ Hk) Ho) as [j Hj]. pose proof (ent_range _ _ _ Hj) as Hjr.
  destruct (ent_at_inv O j o Hj) as [-> _]. destruct (cutO 0 (at_ O j)) eqn:E; [|reflexivity].
  apply (cut_at 0 j ltac:(pose proof (len_nonneg O); lia) Hjr) in E. lia.
Qed.
Lemma cutn_true o : cutO n o = true.
Proof. unfold cut. rewrite ent_none by lia. reflexivity. Qed.

(* ---- seek *)
Lemma seekLT k st T : stat st T ->
  exists p a, nu p = count (below k) O /\ MLT (m_seek c k st) true p a (T + 1) T /\ (m_kv c (m_seek c k st) = None -> p = LGap n).
Proof.
  intros [ds [Hok [Hst HT]]]. unfold m_seek.
  pose proof (slots_step_all c (OSeek k) _ _ Hok) as Hok1.
  change (map (step c (OSeek k)) (m_kids st)) with (map (c_seek c k) (m_kids st)) in Hok1.
  set (ds1 := map (step_slot (OSeek k)) ds) in *.
  assert (lstatic ds1) as Hst1 by (apply lstatic_map; [reflexivity|exact Hst]).
  assert (tsum ds1 = T) as HT1 by (unfold ds1; rewrite tsum_map by reflexivity; exact HT).
  pose proof (count_range (below k) O) as Hv.
  assert (FW (count (below k) O) ds1) as Hfw.
  { apply Forall_forall. intros d' Hd'. apply in_map_iff in Hd'. destruct Hd' as [d [<- Hd]]. cbn [step_slot fst snd step ref c_seek].
    intros k' o Hk Ho. pose proof (proj1 Hst) as Hso. rewrite Forall_forall in Hso.
    pose proof (count_prefix _ (fst d) (Hso d Hd) (below_downclosed k) k' o Hk) as H1.
    destruct (old_in_O _ d o Hst Hd (ent_In _ _ _ Hk) Ho) as [j Hj]. pose proof (ent_range _ _ _ Hj) as Hjr.
    pose proof (count_prefix _ O HsO (below_downclosed k) j o Hj) as H2.
    destruct (ent_at_inv O j o Hj) as [Eo _]. pose proof (cut_at _ j Hv Hjr) as H3. rewrite <- Eo in H3. tauto. }
  assert (inrF ds1) as Hin by (apply Forall_forall; intros d' Hd'; apply in_map_iff in Hd'; destruct Hd' as [d [<- Hd]]; cbn; apply count_range).
  destruct (to_Fnorm _ _ ds1 _ (heapify_perm' c true _) Hok1 Hst1 Hfw Hin (heapify_is_heap c true _) Hv) as [p [Hp [HM Hnone]]].
  rewrite HT1 in HM. exists p, (asum ds1). auto.
Qed.

(* ---- seek_to_first / seek_to_last *)
Lemma ref_next_m1 (l : list entry) : ref_next l (-1) = 0.
Proof. unfold ref_next. pose proof (len_nonneg l). destruct (Z.leb_spec (len l) (-1 + 1)); lia. Qed.
Lemma ref_prev_len (l : list entry) : ref_prev (len l) = len l - 1.
Proof. unfold ref_prev. pose proof (len_nonneg l). destruct (Z.ltb_spec (len l - 1) 0); lia. Qed.

Lemma firstLT st T : stat st T -> exists a, MLT (m_first c st) true (LGap 0) a (T + 1) T /\ m_kv c (m_first c st) = None.
Proof.
  intros [ds [Hok [Hst HT]]]. unfold m_first.
  set (kids1 := map (fun s => c_next c (c_first c s)) (m_kids st)).
  set (ds1 := map (step_slot ONext) (map (step_slot OFirst) ds)).
  assert (slots_ok c kids1 ds1) as Hok1.
  { unfold kids1, ds1. rewrite <- (map_map (c_first c) (c_next c)).
    apply (slots_step_all c ONext). apply (slots_step_all c OFirst). exact Hok. }
  assert (lstatic ds1) as Hst1 by (apply lstatic_map; [reflexivity|]; apply lstatic_map; [reflexivity|exact Hst]).
  assert (tsum ds1 = T) as HT1 by (unfold ds1; rewrite !tsum_map by reflexivity; exact HT).
  assert (FW 0 ds1 /\ inrF ds1) as [Hfw1 Hin1].
  { split; apply Forall_forall; intros d' Hd'; unfold ds1 in Hd'; rewrite map_map in Hd'; apply in_map_iff in Hd'; destruct Hd' as [d [<- Hd]];
      cbn [step_slot fst snd step ref c_first c_next c_last c_prev c_seek]; rewrite ref_next_m1.
    - intros k o Hk Ho. rewrite (cut0_false ds d o k Hst Hd Hk Ho). pose proof (ent_range _ _ _ Hk). split; [lia|discriminate].
    - pose proof (len_nonneg (fst d)). lia. }
  destruct (Forall2_perm _ _ _ _ Hok1 (Permutation_sym (heapify_perm' c true kids1))) as [ds2 [HP2 Hok2]].
  pose proof (lstatic_perm _ _ HP2 Hst1) as Hst2. assert (FW 0 ds2) as Hfw2 by (eapply Permutation_Forall; eauto).
  assert (inrF ds2) as Hin2 by (eapply Permutation_Forall; eauto).
  pose proof (heapify_is_heap c true kids1) as Hheap. set (kids2 := heapify (is_less c true) kids1) in *.
  rewrite (tsum_perm _ _ HP2) in HT1.
  destruct Hok2 as [|s0 d0 kids' ds' H0 Hok'].
  - exists 0. split; [|reflexivity]. apply MLFs. exists []. cbn [m_fwd m_kids on_root upd]. cbn [tsum] in HT1. rewrite <- HT1.
    split; [reflexivity|]. split; [constructor|]. split; [exact Hst2|]. split; [exact I|]. split; [exact Hheap|]. split; reflexivity.
  - inversion Hfw2 as [|? ? Hf0 Hf']; subst. inversion Hin2 as [|? ? Hi0 Hi']; subst.
    exists (asum ((fst d0, -1) :: ds')). split.
    + apply MLFs. exists ((fst d0, -1) :: ds'). cbn [m_fwd m_kids]. split; [reflexivity|]. split.
      { apply (slots_step_root c OFirst s0 kids' d0 ds'). constructor; assumption. }
      split; [eapply lstatic_root; [|exact Hst2]; reflexivity|]. split; [cbn [snd]; auto|].
      split; [|split; [reflexivity|cbn [tsum fst] in *; exact HT1]].
      unfold on_root. rewrite upd_upd. eapply heap_from_kv_ext; [|exact Hheap]. apply kv_ext_root.
      intros s r E. injection E as <- <-.
      rewrite (refines_kv c _ _ _ (refines_next c _ _ _ (refines_first c _ _ _ H0))), (refines_kv c _ _ _ H0).
      (* the root slot stands at index 0 or at its end (empty list) *)
      rewrite ref_next_m1.
      assert (In d0 ds1) as Hd0 by (eapply Permutation_in; [symmetry; exact HP2|now left]).
      unfold ds1 in Hd0. rewrite map_map in Hd0. apply in_map_iff in Hd0. destruct Hd0 as [d [E _]]. rewrite <- E.
      cbn [step_slot fst snd step ref c_first c_next c_last c_prev c_seek]. rewrite ref_next_m1. reflexivity.
    + unfold m_kv, on_root. cbn [m_kids upd].
      rewrite (refines_kv c _ _ _ (refines_first c _ _ _ H0)). apply ent_none. lia.
Qed.

Lemma lastLT st T : stat st T -> exists b, MLT (m_last c st) false (LGap n) (T + 1) b T /\ m_kv c (m_last c st) = None.
Proof.
  intros [ds [Hok [Hst HT]]]. unfold m_last.
  set (kids1 := map (fun s => c_prev c (c_last c s)) (m_kids st)).
  set (ds1 := map (step_slot OPrev) (map (step_slot OLast) ds)).
  assert (slots_ok c kids1 ds1) as Hok1.
  { unfold kids1, ds1. rewrite <- (map_map (c_last c) (c_prev c)).
    apply (slots_step_all c OPrev). apply (slots_step_all c OLast). exact Hok. }
  assert (lstatic ds1) as Hst1 by (apply lstatic_map; [reflexivity|]; apply lstatic_map; [reflexivity|exact Hst]).
  assert (tsum ds1 = T) as HT1 by (unfold ds1; rewrite !tsum_map by reflexivity; exact HT).
  assert (RV (n - 1) ds1 /\ inrR ds1) as [Hfw1 Hin1].
  { split; apply Forall_forall; intros d' Hd'; unfold ds1 in Hd'; rewrite map_map in Hd'; apply in_map_iff in Hd'; destruct Hd' as [d [<- Hd]];
      cbn [step_slot fst snd step ref c_first c_next c_last c_prev c_seek]; rewrite ref_prev_len.
    - intros k o Hk Ho. replace (n - 1 + 1) with n by lia. rewrite cutn_true. pose proof (ent_range _ _ _ Hk). split; [reflexivity|lia].
    - pose proof (len_nonneg (fst d)). lia. }
  destruct (Forall2_perm _ _ _ _ Hok1 (Permutation_sym (heapify_perm' c false kids1))) as [ds2 [HP2 Hok2]].
  pose proof (lstatic_perm _ _ HP2 Hst1) as Hst2. assert (RV (n - 1) ds2) as Hfw2 by (eapply Permutation_Forall; eauto).
  assert (inrR ds2) as Hin2 by (eapply Permutation_Forall; eauto).
  pose proof (heapify_is_heap c false kids1) as Hheap. set (kids2 := heapify (is_less c false) kids1) in *.
  rewrite (tsum_perm _ _ HP2) in HT1.
  destruct Hok2 as [|s0 d0 kids' ds' H0 Hok'].
  - exists 0. split; [|reflexivity]. apply MLRe. exists []. cbn [m_fwd m_kids on_root upd]. cbn [tsum] in HT1. rewrite <- HT1.
    split; [reflexivity|]. split; [constructor|]. split; [exact Hst2|]. split; [exact I|]. split; [exact Hheap|]. split; reflexivity.
  - inversion Hfw2 as [|? ? Hf0 Hf']; subst. inversion Hin2 as [|? ? Hi0 Hi']; subst.
    exists (bsum ((fst d0, len (fst d0)) :: ds')). split.
    + apply MLRe. exists ((fst d0, len (fst d0)) :: ds'). cbn [m_fwd m_kids]. split; [reflexivity|]. split.
      { apply (slots_step_root c OLast s0 kids' d0 ds'). constructor; assumption. }
      split; [eapply lstatic_root; [|exact Hst2]; reflexivity|]. split; [cbn [snd fst]; auto|].
      split; [|split; [reflexivity|cbn [tsum fst] in *; exact HT1]].
      unfold on_root. rewrite upd_upd. eapply heap_from_kv_ext; [|exact Hheap]. apply kv_ext_root.
      intros s r E. injection E as <- <-.
      rewrite (refines_kv c _ _ _ (refines_prev c _ _ _ (refines_last c _ _ _ H0))), (refines_kv c _ _ _ H0).
      rewrite ref_prev_len.
      assert (In d0 ds1) as Hd0 by (eapply Permutation_in; [symmetry; exact HP2|now left]).
      unfold ds1 in Hd0. rewrite map_map in Hd0. apply in_map_iff in Hd0. destruct Hd0 as [d [E _]]. rewrite <- E.
      cbn [step_slot fst snd step ref c_first c_next c_last c_prev c_seek]. rewrite ref_prev_len. reflexivity.
    + unfold m_kv, on_root. cbn [m_kids upd].
      rewrite (refines_kv c _ _ _ (refines_last c _ _ _ H0)). apply ent_none. lia.
Qed.

(* ---- how the cut moves when the root steps *)
Lemma old_idx ds d k o : lstatic ds -> In d ds -> ent (fst d) k = Some o -> isold o = true ->
  exists j, 0 <= j < n /\ o = at_ O j /\ forall v, 0 <= v <= n -> (cutO v o = true <-> j < v).
Proof.
  intros Hst Hd Hk Ho. destruct (old_in_O _ d o Hst Hd (ent_In _ _ _ Hk) Ho) as [j Hj]. pose proof (ent_range _ _ _ Hj) as Hjr.
  destruct (ent_at_inv O j o Hj) as [Eo _]. exists j. split; [exact Hjr|]. split; [exact Eo|]. intros v Hv. rewrite Eo. now apply cut_at.
Qed.
Lemma at_inj i j : 0 <= i < n -> 0 <= j < n -> at_ O i = at_ O j -> i = j.
Proof.
  intros Hi Hj E. apply (sorted_ent_inj O HsO i j (at_ O i) (at_ O j)); try (now apply ent_at). rewrite E. unfold eeq. apply ecmp_refl.
Qed.
Lemma slot_inj ds d i j x : lstatic ds -> In d ds -> ent (fst d) i = Some x -> ent (fst d) j = Some x -> i = j.
Proof.
  intros [Hso _] Hd Hi Hj. rewrite Forall_forall in Hso. apply (sorted_ent_inj _ (Hso d Hd) i j x x Hi Hj). unfold eeq. apply ecmp_refl.
Qed.

Lemma FW_advance d0 ds v e : lstatic (d0 :: ds) -> FW v (d0 :: ds) -> 0 <= v <= n -> ent (fst d0) (snd d0) = Some e ->
  (isold e = true -> v < n /\ e = at_ O v) ->
  FW (if isold e then v + 1 else v) (step_slot ONext d0 :: ds).
Proof.
  intros Hst Hfw Hv He Hroot. inversion Hfw as [|? ? Hf0 Hf']; subst. pose proof (ent_range _ _ _ He) as Her. constructor.
  - cbn [step_slot fst snd step ref c_next]. rewrite ref_next_succ by lia. intros k o Hk Ho.
    destruct (old_idx _ d0 k o Hst (or_introl eq_refl) Hk Ho) as [j [Hj [Eo Hcut]]]. pose proof (Hf0 k o Hk Ho) as H0.
    destruct (isold e) eqn:Ee.
    + destruct (Hroot eq_refl) as [Hvn Ee']. rewrite (Hcut (v + 1)) by lia. rewrite (Hcut v Hv) in H0. split; intros H.
      * destruct (Z.eq_dec k (snd d0)) as [->|Hne]; [|lia]. assert (o = e) as -> by congruence. rewrite Ee' in Eo.
        apply at_inj in Eo; lia.
      * destruct (Z.eq_dec j v) as [->|Hne]; [|lia]. rewrite <- Ee' in Eo. subst o.
        rewrite (slot_inj _ d0 k (snd d0) e Hst (or_introl eq_refl) Hk He). lia.
    + rewrite <- H0. split; intros H; [|lia]. destruct (Z.eq_dec k (snd d0)) as [->|Hne]; [|lia]. assert (o = e) as -> by congruence. congruence.
  - destruct (isold e) eqn:Ee; [|exact Hf']. destruct (Hroot eq_refl) as [Hvn Ee']. unfold FW in *. rewrite Forall_forall in *.
    intros d Hd k o Hk Ho. destruct (old_idx _ d k o Hst (or_intror Hd) Hk Ho) as [j [Hj [Eo Hcut]]]. rewrite (Hf' d Hd k o Hk Ho).
    rewrite (Hcut v Hv), (Hcut (v + 1)) by lia. split; intros H; [lia|]. destruct (Z.eq_dec j v) as [->|Hne]; [|lia]. exfalso.
    rewrite <- Ee' in Eo. subst o. apply (root_slot_only d0 ds e d Hst (ent_In _ _ _ He) Hd (ent_In _ _ _ Hk)).
Qed.

Lemma RV_retreat d0 ds r e : lstatic (d0 :: ds) -> RV r (d0 :: ds) -> -1 <= r <= n - 1 -> ent (fst d0) (snd d0) = Some e ->
  (isold e = true -> 0 <= r /\ e = at_ O r) ->
  RV (if isold e then r - 1 else r) (step_slot OPrev d0 :: ds).
Proof.
  intros Hst Hrv Hr He Hroot. inversion Hrv as [|? ? Hf0 Hf']; subst. pose proof (ent_range _ _ _ He) as Her. constructor.
  - cbn [step_slot fst snd step ref c_prev]. rewrite ref_prev_pred by lia. intros k o Hk Ho.
    destruct (old_idx _ d0 k o Hst (or_introl eq_refl) Hk Ho) as [j [Hj [Eo Hcut]]]. pose proof (Hf0 k o Hk Ho) as H0.
    destruct (isold e) eqn:Ee.
    + destruct (Hroot eq_refl) as [Hr0 Ee']. rewrite (Hcut (r - 1 + 1)) by lia. rewrite (Hcut (r + 1)) in H0 by lia. split; intros H.
      * destruct (Z.eq_dec j r) as [->|Hne]; [|lia]. exfalso. rewrite <- Ee' in Eo. subst o.
        pose proof (slot_inj _ d0 k (snd d0) e Hst (or_introl eq_refl) Hk He). lia.
      * destruct (Z.eq_dec k (snd d0)) as [->|Hne]; [|lia]. exfalso. assert (o = e) as -> by congruence. rewrite Ee' in Eo.
        apply at_inj in Eo; lia.
    + rewrite <- H0. split; intros H; [lia|]. destruct (Z.eq_dec k (snd d0)) as [->|Hne]; [|lia]. assert (o = e) as -> by congruence. congruence.
  - destruct (isold e) eqn:Ee; [|exact Hf']. destruct (Hroot eq_refl) as [Hr0 Ee']. unfold RV in *. rewrite Forall_forall in *.
    intros d Hd k o Hk Ho. destruct (old_idx _ d k o Hst (or_intror Hd) Hk Ho) as [j [Hj [Eo Hcut]]]. rewrite (Hf' d Hd k o Hk Ho).
    rewrite (Hcut (r + 1)), (Hcut (r - 1 + 1)) by lia. split; intros H; [|lia]. destruct (Z.eq_dec j r) as [->|Hne]; [|lia]. exfalso.
    rewrite <- Ee' in Eo. subst o. apply (root_slot_only d0 ds e d Hst (ent_In _ _ _ He) Hd (ent_In _ _ _ Hk)).
Qed.

(* ---- next *)
Lemma nxt_of_nu p p' : nu p' = nu_next p -> nxt p p'.
Proof. destruct p as [j|g], p' as [j'|g']; cbn; intros <-; auto. Qed.
Lemma prv_of_rho p p' : rho p' = nu p - 1 -> prv p p'.
Proof. destruct p as [j|g], p' as [j'|g']; cbn; intros H; [right|left|right|left]; f_equal; lia. Qed.

Lemma root_none_all fwd kids s0 : heap c fwd kids -> nth_error kids 0 = Some s0 -> c_kv c s0 = None ->
  Forall (fun s => c_kv c s = None) kids.
Proof.
  intros Hh H0 Hn. apply Forall_forall. intros s Hs. destruct (In_nth_error _ _ Hs) as [i Hi].
  pose proof (heap_min c fwd kids s0 i s Hh H0 Hi) as Hm. unfold is_less in Hm. rewrite Hn in Hm.
  destruct (c_kv c s); [discriminate|reflexivity].
Qed.
Lemma all_none_root fwd kids : Forall (fun s => c_kv c s = None) kids -> m_kv c (mkM fwd kids) = None.
Proof. intros H. unfold m_kv. cbn [m_kids]. destruct kids as [|s r]; [reflexivity|]. now inversion H. Qed.

Lemma MLT_bounds st md p a b T : MLT st md p a b T -> 0 <= a <= T + 1 /\ 0 <= b <= T + 1 /\ 0 <= T.
Proof.
  intros [p0 a0 T0 [ds [_ [_ [_ [_ [_ [Hin [_ [<- <-]]]]]]]]] _|a0 T0 [ds [_ [_ [_ [Hr [_ [<- <-]]]]]]]|
          p0 b0 T0 [ds [_ [_ [_ [_ [_ [Hin [_ [<- <-]]]]]]]]] _|b0 T0 [ds [_ [_ [_ [Hr [_ [<- <-]]]]]]]].
  - pose proof (sums_bound _ Hin). lia.
  - destruct ds as [|d0 ds']; cbn [asum tsum]; [lia|]. destruct Hr as [E [_ Hin]]. pose proof (sums_bound _ Hin). pose proof (len_nonneg (fst d0)). lia.
  - pose proof (sums_boundR _ Hin). lia.
  - destruct ds as [|d0 ds']; cbn [bsum tsum]; [lia|]. destruct Hr as [E [_ Hin]]. pose proof (sums_boundR _ Hin). pose proof (len_nonneg (fst d0)). lia.
Qed.

Lemma nextLT st md p a b T : MLT st md p a b T ->
  exists p' a', MLT (m_next c st) true p' a' (T + 1) T /\ nxt p p' /\
    (m_kv c (m_next c st) = None -> p' = LGap n) /\ (m_kv c (m_next c st) = None \/ a' < a).
Proof.
  intros HM.
  destruct HM as [p a T [ds [Hf [Hv [Hok [Hst [Hfw [Hin [Hheap [Ha HT]]]]]]]]] Hkv|a T [ds [Hf [Hok [Hst [Hroot [Hheap [Ha HT]]]]]]]|
                  p b T [ds [Hf [Hr [Hok [Hst [Hrv [Hin [Hheap [Hb HT]]]]]]]]] Hkv|b T [ds [Hf [Hok [Hst [Hroot [Hheap [Hb HT]]]]]]]];
    unfold m_next; rewrite Hf; cbn [negb].
  - (* forward: the root steps, percolate *)
    assert (heap c true (percolate_down (is_less c true) (length (on_root (c_next c) (m_kids st))) (on_root (c_next c) (m_kids st)) 0)) as Hheap'
      by (apply percolate_root_heap; now apply heap_upd_root).
    pose proof (percolate_perm' c true (length (on_root (c_next c) (m_kids st))) (on_root (c_next c) (m_kids st)) 0) as HP.
    set (kids2 := percolate_down (is_less c true) (length (on_root (c_next c) (m_kids st))) (on_root (c_next c) (m_kids st)) 0) in *.
    destruct (m_kids st) as [|s0 kids'] eqn:Ek.
    + inversion Hok; subst ds. cbn [on_root upd] in *.
      destruct (to_Fnorm _ _ [] (nu p) HP (Forall2_nil _) Hst Hfw Hin Hheap' Hv) as [p' [Hp [HM Hn]]].
      cbn [tsum asum] in *. subst T. exists p', 0. split; [exact HM|]. split.
      { apply nxt_of_nu. destruct p as [j|g]; [|cbn; exact Hp]. exfalso. destruct Hkv as [_ Hkv]. unfold m_kv in Hkv. rewrite Ek in Hkv. discriminate. }
      split; [exact Hn|]. left. apply (all_none_root true). eapply Permutation_Forall; [symmetry; exact HP|constructor].
    + inversion Hok as [|? d0 ? ds' H0 Hok']; subst ds. unfold on_root in *.
      pose proof (root_fwdLT s0 kids' d0 ds' (nu p) Hok Hst Hfw Hin Hheap Hv) as Hroot.
      pose proof (slots_step_root c ONext s0 kids' d0 ds' Hok) as Hok1.
      assert (lstatic (step_slot ONext d0 :: ds')) as Hst1 by (eapply lstatic_root; [|exact Hst]; reflexivity).
      pose proof (Forall_inv Hin) as Hi0. pose proof (Forall_inv_tail Hin) as Hi'. cbv beta in Hi0.
      rewrite (refines_kv c _ _ _ H0) in Hroot. cbn [ref c_kv] in Hroot.
      assert (m_kv c st = ent (fst d0) (snd d0)) as Ekv by (unfold m_kv; rewrite Ek; exact (refines_kv c _ _ _ H0)).
      destruct (ent (fst d0) (snd d0)) as [e|] eqn:Ee.
      * pose proof (ent_range _ _ _ Ee) as Her.
        pose proof (FW_advance d0 ds' (nu p) e Hst Hfw Hv Ee Hroot) as Hfw1.
        assert (inrF (step_slot ONext d0 :: ds')) as Hin1.
        { constructor; [|exact Hi']. cbn [step_slot fst snd step ref c_next]. rewrite ref_next_succ by lia. lia. }
        assert (0 <= (if isold e then nu p + 1 else nu p) <= n) as Hv'.
        { destruct (isold e) eqn:Eo; [|exact Hv]. destruct (Hroot eq_refl). lia. }
        destruct (to_Fnorm _ _ _ _ HP Hok1 Hst1 Hfw1 Hin1 Hheap' Hv') as [p' [Hp [HM Hn]]].
        assert (tsum (step_slot ONext d0 :: ds') = T) as HT1 by (rewrite <- HT; reflexivity).
        assert (asum (step_slot ONext d0 :: ds') = a - 1) as Ha1.
        { rewrite <- Ha. cbn [asum step_slot fst snd step ref c_next]. rewrite ref_next_succ by lia. lia. }
        rewrite HT1, Ha1 in HM. exists p', (a - 1). split; [exact HM|]. split; [|split; [exact Hn|right; lia]].
        apply nxt_of_nu. rewrite Hp. destruct p as [j|g]; cbn [kvmatch nu nu_next] in *.
        -- destruct Hkv as [Hj Hkv]. rewrite Ekv in Hkv. injection Hkv as ->. now rewrite at_isold.
        -- rewrite Ekv in Hkv. now rewrite Hkv.
      * (* the root is exhausted: so is every child *)
        assert (snd d0 = len (fst d0)) as Es by (apply ent_none_inv in Ee; lia).
        assert (step_slot ONext d0 = d0) as Es1.
        { destruct d0 as [l0 i0]. cbn [fst snd] in *. subst i0. unfold step_slot. cbn [fst snd step ref c_next]. f_equal.
          unfold ref_next. destruct (Z.leb_spec (len l0) (len l0 + 1)); lia. }
        rewrite Es1 in *.
        destruct (to_Fnorm _ _ _ _ HP Hok1 Hst Hfw Hin Hheap' Hv) as [p' [Hp [HM Hn]]].
        exists p', a. split; [rewrite <- HT, <- Ha; exact HM|]. split; [|split; [exact Hn|left]].
        -- apply nxt_of_nu. rewrite Hp. destruct p as [j|g]; [|reflexivity]. exfalso. destruct Hkv as [_ Hkv]. rewrite Ekv in Hkv. discriminate.
        -- apply (all_none_root true). eapply Permutation_Forall; [symmetry; exact HP|].
           assert (c_kv c s0 = None) as Hs0 by (rewrite (refines_kv c _ _ _ H0); exact Ee).
           pose proof (root_none_all true _ s0 Hheap eq_refl Hs0) as Hall. cbn [upd]. constructor; [|exact (Forall_inv_tail Hall)].
           inversion Hok1 as [|? ? ? ? H0' _]. rewrite (refines_kv c _ _ _ H0'). exact Ee.
  - (* forward, just after seek_to_first: the root moves onto its first entry *)
    assert (heap c true (percolate_down (is_less c true) (length (on_root (c_next c) (m_kids st))) (on_root (c_next c) (m_kids st)) 0)) as Hheap'
      by (apply percolate_root_heap; eapply heap_from_weaken; [|exact Hheap]; lia).
    pose proof (percolate_perm' c true (length (on_root (c_next c) (m_kids st))) (on_root (c_next c) (m_kids st)) 0) as HP.
    set (kids2 := percolate_down (is_less c true) (length (on_root (c_next c) (m_kids st))) (on_root (c_next c) (m_kids st)) 0) in *.
    assert (0 <= 0 <= n) as Hv by (pose proof (len_nonneg O); lia).
    destruct Hok as [|s0 d0 kids' ds' H0 Hok'].
    + cbn [on_root upd] in *.
      destruct (to_Fnorm _ _ [] 0 HP (Forall2_nil _) Hst ltac:(constructor) ltac:(constructor) Hheap' Hv) as [p' [Hp [HM Hn]]].
      cbn [tsum asum] in *. subst T. exists p', 0. split; [exact HM|]. split; [apply nxt_of_nu; exact Hp|]. split; [exact Hn|].
      left. apply (all_none_root true). eapply Permutation_Forall; [symmetry; exact HP|constructor].
    + destruct Hroot as [Hp0 [Hfw' Hin']]. unfold on_root in *.
      pose proof (slots_step_root c ONext s0 kids' d0 ds' ltac:(constructor; assumption)) as Hok1.
      assert (lstatic (step_slot ONext d0 :: ds')) as Hst1 by (eapply lstatic_root; [|exact Hst]; reflexivity).
      assert (FW 0 (step_slot ONext d0 :: ds')) as Hfw1.
      { constructor; [|exact Hfw']. cbn [step_slot fst snd step ref c_next]. rewrite Hp0, ref_next_m1. intros k o Hk Ho.
        rewrite (cut0_false _ d0 o k Hst (or_introl eq_refl) Hk Ho). pose proof (ent_range _ _ _ Hk). split; [lia|discriminate]. }
      assert (inrF (step_slot ONext d0 :: ds')) as Hin1.
      { constructor; [|exact Hin']. cbn [step_slot fst snd step ref c_next]. rewrite Hp0, ref_next_m1. pose proof (len_nonneg (fst d0)). lia. }
      destruct (to_Fnorm _ _ _ _ HP Hok1 Hst1 Hfw1 Hin1 Hheap' Hv) as [p' [Hp [HM Hn]]].
      assert (tsum (step_slot ONext d0 :: ds') = T) as HT1 by (rewrite <- HT; reflexivity).
      assert (asum (step_slot ONext d0 :: ds') = a - 1) as Ha1.
      { rewrite <- Ha. cbn [asum step_slot fst snd step ref c_next]. rewrite Hp0, ref_next_m1. lia. }
      rewrite HT1, Ha1 in HM. exists p', (a - 1). split; [exact HM|]. split; [apply nxt_of_nu; exact Hp|]. split; [exact Hn|right; lia].
  - (* backward: every child steps forward, heapify *)
    set (ds1 := map (step_slot ONext) ds).
    pose proof (slots_step_all c ONext _ _ Hok) as Hok1. change (map (step c ONext) (m_kids st)) with (map (c_next c) (m_kids st)) in Hok1.
    assert (lstatic ds1) as Hst1 by (apply lstatic_map; [reflexivity|exact Hst]).
    assert (tsum ds1 = T) as HT1 by (unfold ds1; rewrite tsum_map by reflexivity; exact HT).
    assert (FW (rho p + 1) ds1 /\ inrF ds1) as [Hfw1 Hin1].
    { unfold RV, inrR in *. rewrite Forall_forall in *.
      split; apply Forall_forall; intros d' Hd'; apply in_map_iff in Hd'; destruct Hd' as [d [<- Hd]];
        cbn [step_slot fst snd step ref c_next]; pose proof (Hin d Hd); rewrite ref_next_succ by lia.
      - intros k o Hk Ho. rewrite <- (Hrv d Hd k o Hk Ho). lia.
      - lia. }
    destruct (to_Fnorm _ _ _ _ (heapify_perm' c true _) Hok1 Hst1 Hfw1 Hin1 (heapify_is_heap c true _) ltac:(lia)) as [p' [Hp [HM Hn]]].
    fold ds1 in HM. rewrite HT1 in HM. exists p', (asum ds1). split; [exact HM|]. split; [|split; [exact Hn|right]].
    + apply nxt_of_nu. rewrite Hp. destruct p; cbn; lia.
    + pose proof (sums_bound _ Hin1). lia.
  - (* backward, just after seek_to_last *)
    set (ds1 := map (step_slot ONext) ds).
    pose proof (slots_step_all c ONext _ _ Hok) as Hok1. change (map (step c ONext) (m_kids st)) with (map (c_next c) (m_kids st)) in Hok1.
    assert (lstatic ds1) as Hst1 by (apply lstatic_map; [reflexivity|exact Hst]).
    assert (tsum ds1 = T) as HT1 by (unfold ds1; rewrite tsum_map by reflexivity; exact HT).
    assert (FW n ds1 /\ inrF ds1) as [Hfw1 Hin1].
    { destruct ds as [|d0 ds']; [split; constructor|]. destruct Hroot as [Hp0 [Hrv' Hin']]. unfold ds1. cbn [map]. split; constructor.
      - cbn [step_slot fst snd step ref c_next]. intros k o Hk Ho. rewrite cutn_true. pose proof (ent_range _ _ _ Hk).
        rewrite Hp0. unfold ref_next. destruct (Z.leb_spec (len (fst d0)) (len (fst d0) + 1)); [|lia]. split; [reflexivity|lia].
      - unfold RV, inrR in *. rewrite Forall_forall in *. intros d' Hd'; apply in_map_iff in Hd'; destruct Hd' as [d [<- Hd]];
        cbn [step_slot fst snd step ref c_next]; pose proof (Hin' d Hd); rewrite ref_next_succ by lia.
        intros k o Hk Ho. rewrite cutn_true. pose proof (Hrv' d Hd k o Hk Ho) as H1. replace (n - 1 + 1) with n in H1 by lia. rewrite cutn_true in H1.
        split; [reflexivity|]. intros _. destruct H1 as [_ H1]. specialize (H1 eq_refl). lia.
      - cbn [step_slot fst snd step ref c_next]. rewrite Hp0. unfold ref_next. pose proof (len_nonneg (fst d0)). destruct (Z.leb_spec (len (fst d0)) (len (fst d0) + 1)); lia.
      - unfold inrR in *. rewrite Forall_forall in *. intros d' Hd'; apply in_map_iff in Hd'; destruct Hd' as [d [<- Hd]];
        cbn [step_slot fst snd step ref c_next]; pose proof (Hin' d Hd); rewrite ref_next_succ by lia. lia. }
    destruct (to_Fnorm _ _ _ _ (heapify_perm' c true _) Hok1 Hst1 Hfw1 Hin1 (heapify_is_heap c true _) ltac:(pose proof (len_nonneg O); lia)) as [p' [Hp [HM Hn]]].
    fold ds1 in HM. rewrite HT1 in HM. exists p', (asum ds1). split; [exact HM|]. split; [|split; [exact Hn|right]].
    + apply nxt_of_nu. exact Hp.
    + pose proof (sums_bound _ Hin1). lia.
Qed.

(* ---- prev *)
Lemma ref_prev_m1 : ref_prev (-1) = -1.
Proof. reflexivity. Qed.

Lemma prevLT st md p a b T : MLT st md p a b T ->
  exists p' b', MLT (m_prev c st) false p' (T + 1) b' T /\ prv p p' /\
    (m_kv c (m_prev c st) = None -> p' = LGap 0) /\
    (forall g x, p' = LGap g -> m_kv c (m_prev c st) = Some x -> 0 < g -> elt (at_ O (g - 1)) x) /\
    (m_kv c (m_prev c st) = None \/ b' < b) /\
    (md = false -> forall x y, m_kv c st = Some x -> m_kv c (m_prev c st) = Some y -> elt y x).
Proof.
  intros HM.
  destruct HM as [p a T [ds [Hf [Hv [Hok [Hst [Hfw [Hin [Hheap [Ha HT]]]]]]]]] Hkv|a T [ds [Hf [Hok [Hst [Hroot [Hheap [Ha HT]]]]]]]|
                  p b T [ds [Hf [Hr [Hok [Hst [Hrv [Hin [Hheap [Hb HT]]]]]]]]] Hkv|b T [ds [Hf [Hok [Hst [Hroot [Hheap [Hb HT]]]]]]]];
    unfold m_prev; rewrite Hf.
  - (* forward: every child steps back, heapify backwards *)
    set (ds1 := map (step_slot OPrev) ds).
    pose proof (slots_step_all c OPrev _ _ Hok) as Hok1. change (map (step c OPrev) (m_kids st)) with (map (c_prev c) (m_kids st)) in Hok1.
    assert (lstatic ds1) as Hst1 by (apply lstatic_map; [reflexivity|exact Hst]).
    assert (tsum ds1 = T) as HT1 by (unfold ds1; rewrite tsum_map by reflexivity; exact HT).
    assert (RV (nu p - 1) ds1 /\ inrR ds1) as [Hrv1 Hin1].
    { unfold FW, inrF in *. rewrite Forall_forall in *.
      split; apply Forall_forall; intros d' Hd'; apply in_map_iff in Hd'; destruct Hd' as [d [<- Hd]];
        cbn [step_slot fst snd step ref c_prev]; pose proof (Hin d Hd); rewrite ref_prev_pred by lia.
      - intros k o Hk Ho. replace (nu p - 1 + 1) with (nu p) by lia. rewrite <- (Hfw d Hd k o Hk Ho). lia.
      - lia. }
    destruct (to_Rnorm _ _ _ _ (heapify_perm' c false _) Hok1 Hst1 Hrv1 Hin1 (heapify_is_heap c false _) ltac:(lia)) as [p' [Hp [HM [Hn Hg]]]].
    fold ds1 in HM. rewrite HT1 in HM. exists p', (bsum ds1). split; [exact HM|]. split; [now apply prv_of_rho|]. split; [exact Hn|]. split; [exact Hg|].
    split; [right; pose proof (sums_boundR _ Hin1); lia|discriminate].
  - (* forward, just after seek_to_first *)
    set (ds1 := map (step_slot OPrev) ds).
    pose proof (slots_step_all c OPrev _ _ Hok) as Hok1. change (map (step c OPrev) (m_kids st)) with (map (c_prev c) (m_kids st)) in Hok1.
    assert (lstatic ds1) as Hst1 by (apply lstatic_map; [reflexivity|exact Hst]).
    assert (tsum ds1 = T) as HT1 by (unfold ds1; rewrite tsum_map by reflexivity; exact HT).
    assert (RV (-1) ds1 /\ inrR ds1) as [Hrv1 Hin1].
    { destruct ds as [|d0 ds']; [split; constructor|]. destruct Hroot as [Hp0 [Hfw' Hin']]. unfold ds1. cbn [map]. split; constructor.
      - cbn [step_slot fst snd step ref c_prev]. intros k o Hk Ho. rewrite Hp0, ref_prev_m1. change (-1 + 1) with 0.
        rewrite (cut0_false _ d0 o k Hst (or_introl eq_refl) Hk Ho). pose proof (ent_range _ _ _ Hk). split; [lia|discriminate].
      - unfold FW, inrF in *. rewrite Forall_forall in *. intros d' Hd'; apply in_map_iff in Hd'; destruct Hd' as [d [<- Hd]];
        cbn [step_slot fst snd step ref c_prev]; pose proof (Hin' d Hd); rewrite ref_prev_pred by lia.
        intros k o Hk Ho. change (-1 + 1) with 0. rewrite <- (Hfw' d Hd k o Hk Ho). lia.
      - cbn [step_slot fst snd step ref c_prev]. rewrite Hp0, ref_prev_m1. pose proof (len_nonneg (fst d0)). lia.
      - unfold inrF in *. rewrite Forall_forall in *. intros d' Hd'; apply in_map_iff in Hd'; destruct Hd' as [d [<- Hd]];
        cbn [step_slot fst snd step ref c_prev]; pose proof (Hin' d Hd); rewrite ref_prev_pred by lia. lia. }
    destruct (to_Rnorm _ _ _ _ (heapify_perm' c false _) Hok1 Hst1 Hrv1 Hin1 (heapify_is_heap c false _) ltac:(pose proof (len_nonneg O); lia)) as [p' [Hp [HM [Hn Hg]]]].
    fold ds1 in HM. rewrite HT1 in HM. exists p', (bsum ds1). split; [exact HM|]. split; [apply prv_of_rho; exact Hp|]. split; [exact Hn|]. split; [exact Hg|].
    split; [right; pose proof (sums_boundR _ Hin1); lia|discriminate].
  - (* backward: the root steps back, percolate *)
    assert (heap c false (percolate_down (is_less c false) (length (on_root (c_prev c) (m_kids st))) (on_root (c_prev c) (m_kids st)) 0)) as Hheap'
      by (apply percolate_root_heap; now apply heap_upd_root).
    pose proof (percolate_perm' c false (length (on_root (c_prev c) (m_kids st))) (on_root (c_prev c) (m_kids st)) 0) as HP.
    set (kids2 := percolate_down (is_less c false) (length (on_root (c_prev c) (m_kids st))) (on_root (c_prev c) (m_kids st)) 0) in *.
    destruct (m_kids st) as [|s0 kids'] eqn:Ek.
    + inversion Hok; subst ds. cbn [on_root upd] in *.
      destruct (to_Rnorm _ _ [] (rho p) HP (Forall2_nil _) Hst Hrv Hin Hheap' Hr) as [p' [Hp [HM [Hn Hg]]]].
      cbn [tsum bsum] in *. subst T. exists p', 0. split; [exact HM|]. split.
      { apply prv_of_rho. destruct p as [j|g]; [|cbn in *; lia]. exfalso. destruct Hkv as [_ Hkv]. unfold m_kv in Hkv. rewrite Ek in Hkv. discriminate. }
      split; [exact Hn|]. split; [exact Hg|]. split.
      * left. apply (all_none_root false). eapply Permutation_Forall; [symmetry; exact HP|constructor].
      * intros _ x' y Hx. unfold m_kv in Hx. rewrite Ek in Hx. discriminate.
    + inversion Hok as [|? d0 ? ds' H0 Hok']; subst ds. unfold on_root in *.
      pose proof (root_revLT s0 kids' d0 ds' (rho p) Hok Hst Hrv Hin Hheap Hr) as Hroot.
      pose proof (slots_step_root c OPrev s0 kids' d0 ds' Hok) as Hok1.
      assert (lstatic (step_slot OPrev d0 :: ds')) as Hst1 by (eapply lstatic_root; [|exact Hst]; reflexivity).
      pose proof (Forall_inv Hin) as Hi0. pose proof (Forall_inv_tail Hin) as Hi'. cbv beta in Hi0.
      rewrite (refines_kv c _ _ _ H0) in Hroot. cbn [ref c_kv] in Hroot.
      assert (m_kv c st = ent (fst d0) (snd d0)) as Ekv by (unfold m_kv; rewrite Ek; exact (refines_kv c _ _ _ H0)).
      destruct (ent (fst d0) (snd d0)) as [e|] eqn:Ee.
      * pose proof (ent_range _ _ _ Ee) as Her. destruct Hroot as [Hroot Hlate].
        pose proof (RV_retreat d0 ds' (rho p) e Hst Hrv Hr Ee Hroot) as Hrv1.
        assert (inrR (step_slot OPrev d0 :: ds')) as Hin1.
        { constructor; [|exact Hi']. cbn [step_slot fst snd step ref c_prev]. rewrite ref_prev_pred by lia. lia. }
        assert (-1 <= (if isold e then rho p - 1 else rho p) <= n - 1) as Hr'.
        { destruct (isold e) eqn:Eo; [|exact Hr]. destruct (Hroot eq_refl). lia. }
        destruct (to_Rnorm _ _ _ _ HP Hok1 Hst1 Hrv1 Hin1 Hheap' Hr') as [p' [Hp [HM [Hn Hg]]]].
        assert (tsum (step_slot OPrev d0 :: ds') = T) as HT1 by (rewrite <- HT; reflexivity).
        assert (bsum (step_slot OPrev d0 :: ds') = b - 1) as Hb1.
        { rewrite <- Hb. cbn [bsum step_slot fst snd step ref c_prev]. rewrite ref_prev_pred by lia. lia. }
        rewrite HT1, Hb1 in HM. exists p', (b - 1). split; [exact HM|]. split; [|split; [exact Hn|split; [exact Hg|split; [right; lia|]]]].
        -- apply prv_of_rho. rewrite Hp. destruct p as [j|g]; cbn [kvmatch nu rho] in *.
           ++ destruct Hkv as [Hj Hkv]. rewrite Ekv in Hkv. injection Hkv as ->. rewrite at_isold by lia. reflexivity.
           ++ rewrite Ekv in Hkv. now rewrite Hkv.
        -- (* going on backwards, the entries strictly decrease *)
           intros _ x' y Hx Hy. rewrite Hx in Ekv. injection Ekv as ->.
           unfold m_kv in Hy. cbn [m_kids] in Hy. destruct kids2 as [|s2 r2] eqn:E2; [discriminate|].
           assert (In s2 (upd (s0 :: kids') 0 (c_prev c))) as Hs2 by (eapply Permutation_in; [exact HP|now left]).
           cbn [upd] in Hs2. destruct Hs2 as [<-|Hs2].
           ++ inversion Hok1 as [|? ? ? ? H0' _]. rewrite (refines_kv c _ _ _ H0') in Hy. cbn [step_slot fst snd step ref c_prev c_kv] in Hy.
              rewrite ref_prev_pred in Hy by lia. pose proof (proj1 Hst) as Hso. apply Forall_inv in Hso.
              apply (sorted_ent_lt _ Hso (snd d0 - 1) (snd d0) y e ltac:(lia) Hy Ee).
           ++ destruct (In_nth_error _ _ Hs2) as [i Hi]. destruct (Forall2_nth _ _ _ _ _ Hok' Hi) as [d [Hdi Hrf]].
              pose proof (nth_error_In _ _ Hdi) as Hd.
              pose proof (heap_min c false (s0 :: kids') s0 (Datatypes.S i) s2 Hheap eq_refl Hi) as Hm. unfold is_less in Hm.
              rewrite Hy, (refines_kv c _ _ _ H0) in Hm. cbn [ref c_kv] in Hm. rewrite Ee in Hm. cbn in Hm.
              rewrite (refines_kv c _ _ _ Hrf) in Hy. cbn [ref c_kv] in Hy.
              destruct (eltb_spec e y) as [|Hge]; [discriminate|].
              destruct (ecmp y e) eqn:Ec; [exfalso|exact Ec|exfalso; apply Hge; unfold elt; rewrite ecmp_antisym, Ec; reflexivity].
              assert (y = e) as -> by (apply (slots_same_entry _ d d0 y e Hst (or_intror Hd) (or_introl eq_refl) (ent_In _ _ _ Hy) (ent_In _ _ _ Ee)); exact Ec).
              apply (root_slot_only d0 ds' e d Hst (ent_In _ _ _ Ee) Hd (ent_In _ _ _ Hy)).
      * assert (snd d0 = -1) as Es by (apply ent_none_inv in Ee; lia).
        assert (step_slot OPrev d0 = d0) as Es1.
        { destruct d0 as [l0 i0]. cbn [fst snd] in *. subst i0. reflexivity. }
        rewrite Es1 in *.
        destruct (to_Rnorm _ _ _ _ HP Hok1 Hst Hrv Hin Hheap' Hr) as [p' [Hp [HM [Hn Hg]]]].
        exists p', b. split; [rewrite <- HT, <- Hb; exact HM|]. split; [|split; [exact Hn|split; [exact Hg|split; [left|]]]].
        -- apply prv_of_rho. rewrite Hp. destruct p as [j|g]; [|cbn; lia]. exfalso. destruct Hkv as [_ Hkv]. rewrite Ekv in Hkv. discriminate.
        -- apply (all_none_root false). eapply Permutation_Forall; [symmetry; exact HP|].
           assert (c_kv c s0 = None) as Hs0 by (rewrite (refines_kv c _ _ _ H0); exact Ee).
           pose proof (root_none_all false _ s0 Hheap eq_refl Hs0) as Hall. cbn [upd]. constructor; [|exact (Forall_inv_tail Hall)].
           inversion Hok1 as [|? ? ? ? H0' _]. rewrite (refines_kv c _ _ _ H0'). exact Ee.
        -- intros _ x' y Hx. rewrite Hx in Ekv. discriminate.
  - (* backward, just after seek_to_last: the root moves onto its last entry *)
    assert (heap c false (percolate_down (is_less c false) (length (on_root (c_prev c) (m_kids st))) (on_root (c_prev c) (m_kids st)) 0)) as Hheap'
      by (apply percolate_root_heap; eapply heap_from_weaken; [|exact Hheap]; lia).
    pose proof (percolate_perm' c false (length (on_root (c_prev c) (m_kids st))) (on_root (c_prev c) (m_kids st)) 0) as HP.
    set (kids2 := percolate_down (is_less c false) (length (on_root (c_prev c) (m_kids st))) (on_root (c_prev c) (m_kids st)) 0) in *.
    assert (-1 <= n - 1 <= n - 1) as Hr by (pose proof (len_nonneg O); lia).
    destruct (m_kids st) as [|s0 kids'] eqn:Ek.
    + inversion Hok; subst ds. cbn [on_root upd] in *.
      destruct (to_Rnorm _ _ [] (n - 1) HP (Forall2_nil _) Hst ltac:(constructor) ltac:(constructor) Hheap' Hr) as [p' [Hp [HM [Hn Hg]]]].
      cbn [tsum bsum] in *. subst T. exists p', 0. split; [exact HM|]. split; [apply prv_of_rho; exact Hp|]. split; [exact Hn|]. split; [exact Hg|]. split.
      * left. apply (all_none_root false). eapply Permutation_Forall; [symmetry; exact HP|constructor].
      * intros _ x' y Hx. unfold m_kv in Hx. rewrite Ek in Hx. discriminate.
    + inversion Hok as [|? d0 ? ds' H0 Hok']; subst ds. destruct Hroot as [Hp0 [Hrv' Hin']]. unfold on_root in *.
      pose proof (slots_step_root c OPrev s0 kids' d0 ds' Hok) as Hok1.
      assert (lstatic (step_slot OPrev d0 :: ds')) as Hst1 by (eapply lstatic_root; [|exact Hst]; reflexivity).
      assert (RV (n - 1) (step_slot OPrev d0 :: ds')) as Hrv1.
      { constructor; [|exact Hrv']. cbn [step_slot fst snd step ref c_prev]. rewrite Hp0, ref_prev_len. intros k o Hk Ho.
        replace (n - 1 + 1) with n by lia. rewrite cutn_true. pose proof (ent_range _ _ _ Hk). split; [reflexivity|lia]. }
      assert (inrR (step_slot OPrev d0 :: ds')) as Hin1.
      { constructor; [|exact Hin']. cbn [step_slot fst snd step ref c_prev]. rewrite Hp0, ref_prev_len. pose proof (len_nonneg (fst d0)). lia. }
      destruct (to_Rnorm _ _ _ _ HP Hok1 Hst1 Hrv1 Hin1 Hheap' Hr) as [p' [Hp [HM [Hn Hg]]]].
      assert (tsum (step_slot OPrev d0 :: ds') = T) as HT1 by (rewrite <- HT; reflexivity).
      assert (bsum (step_slot OPrev d0 :: ds') = b - 1) as Hb1.
      { rewrite <- Hb. cbn [bsum step_slot fst snd step ref c_prev]. rewrite Hp0, ref_prev_len. lia. }
      rewrite HT1, Hb1 in HM. exists p', (b - 1). split; [exact HM|]. split; [apply prv_of_rho; exact Hp|]. split; [exact Hn|]. split; [exact Hg|].
      split; [right; lia|]. intros _ x' y Hx. unfold m_kv in Hx. rewrite Ek in Hx. rewrite (refines_kv c _ _ _ H0) in Hx. cbn [ref c_kv] in Hx.
      rewrite Hp0, ent_none in Hx by lia. discriminate.
Qed.
End MergeLT.
