(* Snap/ProofsSpec.v — the composed specification of the nesting that range_scan builds
   (Model.scan_list: bounds and file selection pushed below the merge) IS the contents-based one
   (bounds_spec lo hi (prune_spec t (every entry of the memtables and of the version, sorted))):
   "exactly the contents the store had when the scan was opened". *)
From Coq Require Import NArith ZArith List Bool Lia Permutation.
From Blue Require Import Cursor.Iface Cursor.Ref Cursor.Bounds Cursor.Spec Cursor.Proofs_Order Cursor.Proofs_Ref Cursor.Proofs_Spec
  Snap.Model Snap.ProofsScan.
Import ListNotations.

(* two strictly sorted lists with the same elements are the same list *)
Lemma sorted_ext l1 : forall l2, sorted l1 -> sorted l2 -> (forall e, In e l1 <-> In e l2) -> l1 = l2.
Proof.
  induction l1 as [|a1 r1 IH]; intros l2 H1 H2 Hm.
  - destruct l2 as [|a2 r2]; [reflexivity|]. exfalso. apply (Hm a2). now left.
  - destruct l2 as [|a2 r2]; [exfalso; apply (Hm a1); now left|].
    apply sorted_inv in H1. destruct H1 as [Hs1 Hf1]. apply sorted_inv in H2. destruct H2 as [Hs2 Hf2].
    rewrite Forall_forall in Hf1, Hf2.
    assert (a1 = a2) as ->.
    { destruct (proj1 (Hm a1) (or_introl eq_refl)) as [E|Hin]; [now symmetry|].
      destruct (proj2 (Hm a2) (or_introl eq_refl)) as [E|Hin']; [exact E|].
      exfalso. pose proof (Hf2 a1 Hin). pose proof (Hf1 a2 Hin'). eorder. }
    f_equal. apply IH; [exact Hs1|exact Hs2|]. intros e. split; intros He.
    + destruct (proj1 (Hm e) (or_intror He)) as [E|Hin]; [|exact Hin]. subst e. exfalso. pose proof (Hf1 a2 He). eorder.
    + destruct (proj2 (Hm e) (or_intror He)) as [E|Hin]; [|exact Hin]. subst e. exfalso. pose proof (Hf2 a2 He). eorder.
Qed.

(* the first and last entries of a sorted list carry its smallest and largest keys *)
Lemma sorted_first_key d l e : sorted l -> In e l -> kle (ek (hd d l)) (ek e).
Proof.
  intros Hs Hin. destruct l as [|a r]; [destruct Hin|]. cbn [hd]. destruct Hin as [->|Hin]; [korder|].
  apply sorted_inv in Hs. destruct Hs as [_ Hf]. rewrite Forall_forall in Hf. apply elt_kle. now apply Hf.
Qed.
Lemma sorted_last_key d l e : sorted l -> In e l -> kle (ek e) (ek (last l d)).
Proof.
  revert e. induction l as [|a r IH]; [intros e _ []|]. intros e Hs Hin. apply sorted_inv in Hs. destruct Hs as [Hs Hf].
  destruct r as [|b r'].
  - destruct Hin as [->|[]]. cbn. korder.
  - change (last (a :: b :: r') d) with (last (b :: r') d). destruct Hin as [->|Hin]; [|now apply IH].
    rewrite Forall_forall in Hf. assert (kle (ek e) (ek b)) by (apply elt_kle; apply Hf; now left).
    assert (kle (ek b) (ek (last (b :: r') d))) by (apply IH; [exact Hs|now left]). korder.
Qed.

Lemma in_bounds_key lo hi e e' : ek e' = ek e -> in_bounds lo hi e' = in_bounds lo hi e.
Proof. intros E. unfold in_bounds, in_lo, in_hi. now rewrite E. Qed.

(* a file holding an entry inside the bounds is selected by Version::range_scan *)
Lemma overlaps_of_member lo hi f e : sorted (f_ents f) -> In e (f_ents f) -> in_bounds lo hi e = true -> overlaps lo hi f = true.
Proof.
  intros Hs Hin Hb. unfold in_bounds in Hb. apply andb_prop in Hb. destruct Hb as [Hlo Hhi].
  pose proof (sorted_first_key dflt_entry _ e Hs Hin) as Hf. pose proof (sorted_last_key dflt_entry _ e Hs Hin) as Hl.
  unfold overlaps, f_first, f_last. apply andb_true_intro. split.
  - unfold lo_le. unfold in_lo in Hlo. destruct lo as [|x|x]; [reflexivity| |].
    + destruct (kltb_spec (ek e) x); [discriminate|]. destruct (kleb_spec x (ek (last (f_ents f) dflt_entry))); [reflexivity|]. exfalso. korder.
    + destruct (kleb_spec (ek e) x); [discriminate|]. destruct (kltb_spec x (ek (last (f_ents f) dflt_entry))); [reflexivity|]. exfalso. korder.
  - unfold le_hi. unfold in_hi in Hhi. destruct hi as [|y|y]; [reflexivity| |].
    + destruct (kleb_spec (ek e) y); [|discriminate]. destruct (kleb_spec (ek (hd dflt_entry (f_ents f))) y); [reflexivity|]. exfalso. korder.
    + destruct (kltb_spec (ek e) y); [|discriminate]. destruct (kltb_spec (ek (hd dflt_entry (f_ents f))) y); [reflexivity|]. exfalso. korder.
Qed.

Lemma in_merge ls e : In e (merge_spec ls) <-> In e (concat ls).
Proof. split; apply Permutation_in; [apply Permutation_sym|]; apply merge_spec_perm. Qed.

Lemma in_ver_parts lo hi v e : In e (concat (ver_parts lo hi v)) ->
  exists f, In f (concat v) /\ In e (f_ents f).
Proof.
  unfold ver_parts. intros H. apply in_concat in H. destruct H as [l [Hl He]]. apply in_app_or in Hl. destruct Hl as [Hl|Hl].
  - apply in_map_iff in Hl. destruct Hl as [f [<- Hf]]. exists f. split; [|exact He].
    destruct v as [|l0 r]; [destruct Hf|]. cbn [hd] in Hf. cbn [concat]. apply in_or_app. now left.
  - apply in_flat_map in Hl. destruct Hl as [lv [Hlv Hl]]. unfold level_part in Hl.
    destruct (filter (overlaps lo hi) lv) as [|f0 fs] eqn:E; [destruct Hl|]. destruct Hl as [<-|[]].
    apply in_concat in He. destruct He as [le [Hle He]]. apply in_map_iff in Hle. destruct Hle as [f [<- Hf]].
    exists f. split; [|exact He]. assert (In f lv) as Hfl by (rewrite <- E in Hf; apply filter_In in Hf; tauto).
    destruct v as [|l0 r]; [destruct Hlv|]. cbn [tl] in Hlv. cbn [concat]. apply in_or_app. right. apply in_concat. eauto.
Qed.

Lemma ver_parts_in lo hi v f e : In f (concat v) -> sorted (f_ents f) -> In e (f_ents f) -> in_bounds lo hi e = true ->
  In e (concat (ver_parts lo hi v)).
Proof.
  intros Hf Hs He Hb. unfold ver_parts. destruct v as [|l0 r]; [destruct Hf|]. cbn [concat hd tl] in *. rewrite concat_app. apply in_or_app.
  apply in_app_or in Hf. destruct Hf as [Hf|Hf].
  - left. apply in_concat. exists (f_ents f). split; [now apply in_map|exact He].
  - right. apply in_concat in Hf. destruct Hf as [lv [Hlv Hf]]. apply in_concat.
    assert (In f (filter (overlaps lo hi) lv)) as Hsel by (apply filter_In; split; [exact Hf|eapply overlaps_of_member; eauto]).
    exists (concat (map f_ents (filter (overlaps lo hi) lv))). split.
    + apply in_flat_map. exists lv. split; [exact Hlv|]. unfold level_part.
      destruct (filter (overlaps lo hi) lv) as [|f0 fs]; [destruct Hsel|]. now left.
    + apply in_concat. exists (f_ents f). split; [now apply in_map|exact He].
Qed.

Theorem scan_list_is_contents lo hi t ls v :
  scan_wf lo hi ls v -> distinct (all_entries ls v) ->
  scan_list lo hi t ls v = bounds_spec lo hi (prune_spec t (fold_right insert_sorted [] (all_entries ls v))).
Proof.
  intros [Hls [Hfiles [_ [Hdv Hdt]]]] Hda.
  set (A := merge_spec (top_parts lo hi ls v)).
  set (B := fold_right insert_sorted [] (all_entries ls v)).
  assert (sorted A) as HsA by (apply merge_spec_sorted; exact Hdt).
  assert (sorted B) as HsB.
  { pose proof (merge_spec_sorted [all_entries ls v]) as H. unfold merge_spec in H. cbn [concat] in H. rewrite app_nil_r in H. now apply H. }
  assert (forall e, In e B <-> In e (all_entries ls v)) as HB.
  { intros e. pose proof (in_merge [all_entries ls v] e) as H. unfold merge_spec in H. cbn [concat] in H. rewrite app_nil_r in H. exact H. }
  assert (forall e, In e A -> In e B) as Hi.
  { intros e He. apply HB. unfold A in He. apply in_merge in He. unfold top_parts in He. rewrite concat_app in He. apply in_app_or in He.
    unfold all_entries. apply in_or_app. destruct He as [He|He].
    - left. apply in_concat in He. destruct He as [l [Hl He]]. apply in_map_iff in Hl. destruct Hl as [l0 [<- Hl0]].
      unfold bounds_spec in He. apply filter_In in He. apply in_concat. exists l0. tauto.
    - right. cbn [concat] in He. rewrite app_nil_r in He. unfold ver_list in He. apply in_merge in He.
      destruct (in_ver_parts lo hi v e He) as [f [Hf Hef]]. apply in_concat. exists (f_ents f). split; [now apply in_map|exact Hef]. }
  assert (forall e, In e B -> in_bounds lo hi e = true -> In e A) as Hii.
  { intros e He Hb. apply HB in He. unfold A. apply in_merge. unfold top_parts. rewrite concat_app. apply in_or_app.
    unfold all_entries in He. apply in_app_or in He. destruct He as [He|He].
    - left. apply in_concat in He. destruct He as [l [Hl He]]. apply in_concat. exists (bounds_spec lo hi l). split; [now apply in_map|].
      unfold bounds_spec. apply filter_In. auto.
    - right. cbn [concat]. rewrite app_nil_r. unfold ver_list. apply in_merge.
      apply in_concat in He. destruct He as [le [Hle He]]. apply in_map_iff in Hle. destruct Hle as [f [<- Hf]].
      rewrite Forall_forall in Hfiles. eapply ver_parts_in; eauto. }
  unfold scan_list. fold A.
  apply sorted_ext.
  - apply sorted_filter. apply sorted_filter. exact HsA.
  - apply sorted_filter. apply sorted_filter. exact HsB.
  - intros e. unfold bounds_spec, prune_spec. rewrite !filter_In, !visible_spec. split.
    + intros [[He [Hle [Hv Hall]]] Hb]. split; [|exact Hb]. split; [now apply Hi|]. split; [exact Hle|]. split; [exact Hv|].
      intros e' He' Hk Hle'. apply Hall; auto. apply Hii; [exact He'|]. now rewrite (in_bounds_key lo hi e e' Hk).
    + intros [[He [Hle [Hv Hall]]] Hb]. split; [|exact Hb]. split; [now apply Hii|]. split; [exact Hle|]. split; [exact Hv|].
      intros e' He' Hk Hle'. apply Hall; auto.
Qed.

(* in the machine's terms *)
Lemma open_list_is_scan_spec s lo hi :
  scan_wf lo hi (map (look_of s) (open_mems s)) (cur_levels s) ->
  distinct (all_entries (map (look_of s) (open_mems s)) (cur_levels s)) ->
  open_list s lo hi = scan_spec s lo hi.
Proof.
  intros Hwf Hd. unfold open_list, scan_spec, contents. rewrite (scan_list_is_contents _ _ _ _ _ Hwf Hd). reflexivity.
Qed.
