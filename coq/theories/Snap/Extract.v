(* Extraction of the executable Snap model for the correspondence check of C07.
   Directives in force: those of ExtrOcamlBasic only; N, Z, positive, nat stay inductive. *)
From Coq Require Import NArith ZArith List.
From Blue Require Import Cursor.Iface Cursor.Ref Cursor.Bounds Cursor.Spec Snap.Model.
Require Import ExtrOcamlBasic.
Extraction Language OCaml.
Extraction "../ocaml/snap/gen_snap.ml" mstep minit scan_spec contents look_of find_mt open_list open_wfb open_tsb acc_ev.
