(* Snap/ProofsLTS.v — the whole scan cursor while the memtables under it grow by entries newer than
   its snapshot: Bounds(Prune_t(Merge[memtable cursors.., version cursor])) keeps behaving as the
   reference cursor over  bounds_spec lo hi (prune_spec t O),  O = the entries not newer than t that
   the children hold (which insertions do not change).
   The children are late-tolerant (ProofsLTB for a memtable cursor, ProofsLTP.ExactK for the
   version cursor, whose files never change); their merge is late-tolerant (ProofsLTK); the
   PruningCursor over a late-tolerant cursor is EXACT (ProofsLT); the BoundsCursor on top is over an
   exact cursor (Cursor.Proofs_Bounds).  Two kinds of moves keep the invariant TopI: a call of the
   cursor (top_step) and an insertion into the lists shown to the wrapper leaves (top_refresh). *)
From Coq Require Import NArith ZArith List Bool Lia Permutation.
From Blue Require Import Cursor.Iface Cursor.Ref Cursor.Lazy Cursor.Bounds Cursor.Pruning Cursor.Concat Cursor.Merging
  Cursor.Spec Cursor.Proofs_Order Cursor.Proofs_Ref Cursor.Proofs_Lazy Cursor.Proofs_Bounds Cursor.Proofs_Concat Cursor.Proofs_Pruning Cursor.Proofs_Merging Cursor.Proofs_Spec
  Snap.Model Snap.ProofsPres Snap.ProofsLeaf Snap.ProofsScan Snap.ProofsGrow Snap.ProofsSpec Snap.ProofsStable
  Snap.ProofsLT Snap.ProofsLTP Snap.ProofsLTK Snap.ProofsLTB.
Import ListNotations.
Local Open Scope Z_scope.

(* ---------------------------------------------------------------- which children a merge has: kept by every call *)
Section Ids.
Context {S I : Type} (c : cursor S) (id : S -> I).
Hypothesis Hid : forall o s, id (step c o s) = id s.

Lemma map_id_map (f : S -> S) kids : (forall s, id (f s) = id s) -> map id (map f kids) = map id kids.
Proof. intros H. rewrite map_map. apply map_ext. exact H. Qed.
Lemma map_id_upd kids i (f : S -> S) : (forall s, id (f s) = id s) -> map id (upd kids i f) = map id kids.
Proof.
  intros H. revert i. induction kids as [|a r IH]; intros i; [reflexivity|]. destruct i as [|i]; cbn [upd map]; [now rewrite H|now rewrite IH].
Qed.
Definition qmi (ids : list I) (st : mstate S) : Prop := Permutation (map id (m_kids st)) ids.

Lemma pres_merging_ids ids : closed (merging c) (qmi ids).
Proof.
  intros o st H. unfold qmi in *.
  assert (forall fwd kids, Permutation (map id (heapify (is_less c fwd) kids)) (map id kids)) as Hh
    by (intros; apply Permutation_map; apply heapify_perm').
  assert (forall fwd k kids j, Permutation (map id (percolate_down (is_less c fwd) k kids j)) (map id kids)) as Hp
    by (intros; apply Permutation_map; apply percolate_perm').
  destruct o; cbn [step merging c_first c_last c_seek c_prev c_next].
  - unfold m_first. cbn [m_kids]. unfold on_root. rewrite map_id_upd by (intros; apply (Hid OFirst)). rewrite Hh.
    rewrite map_id_map; [exact H|]. intros s. exact (eq_trans (Hid ONext (c_first c s)) (Hid OFirst s)).
  - unfold m_last. cbn [m_kids]. unfold on_root. rewrite map_id_upd by (intros; apply (Hid OLast)). rewrite Hh.
    rewrite map_id_map; [exact H|]. intros s. exact (eq_trans (Hid OPrev (c_last c s)) (Hid OLast s)).
  - unfold m_seek. cbn [m_kids]. rewrite Hh. rewrite map_id_map; [exact H|]. intros s. apply (Hid (OSeek k)).
  - unfold m_prev. destruct (m_fwd st); cbn [m_kids].
    + rewrite Hh. rewrite map_id_map; [exact H|]. intros s. apply (Hid OPrev).
    + rewrite Hp. unfold on_root. rewrite map_id_upd by (intros; apply (Hid OPrev)). exact H.
  - unfold m_next. destruct (negb (m_fwd st)); cbn [m_kids].
    + rewrite Hh. rewrite map_id_map; [exact H|]. intros s. apply (Hid ONext).
    + rewrite Hp. unfold on_root. rewrite map_id_upd by (intros; apply (Hid ONext)). exact H.
Qed.
End Ids.

(* ---------------------------------------------------------------- the version cursor (its files never change) *)
Lemma version_scan_refines fuel lo hi ls v : scan_wf lo hi ls v ->
  refines (xcur fuel 2) (version_scan fuel lo hi v) (ver_list lo hi v) (-1).
Proof.
  intros [_ [Hfiles [Hlevels [Hdv _]]]].
  assert (sorted (ver_list lo hi v)) as Hvs by (apply merge_spec_sorted; exact Hdv).
  unfold version_scan, ver_list.
  change (xcur fuel 2) with (xcur1 fuel (xcur fuel 1)). apply wrap_XM.
  apply (merging_refines (xcur fuel 1) (merge_spec (ver_parts lo hi v)) (ver_parts lo hi v)); [exact Hvs|apply merge_spec_perm| |].
  * unfold ver_parts. apply Forall_app. split.
    -- apply Forall_forall. intros li Hli. apply in_map_iff in Hli. destruct Hli as [f [<- Hf]].
       rewrite Forall_forall in Hfiles. apply Hfiles. destruct v as [|l0 r]; [destruct Hf|]. cbn [hd] in Hf. cbn [concat]. apply in_or_app. now left.
    -- apply Forall_forall. intros li Hli. apply in_flat_map in Hli. destruct Hli as [lv [Hlv Hli]].
       unfold level_part in Hli. destruct (filter (overlaps lo hi) lv) as [|f fs] eqn:E; [destruct Hli|]. destruct Hli as [<-|[]].
       rewrite Forall_forall in Hlevels. specialize (Hlevels lv Hlv). rewrite E in Hlevels. exact Hlevels.
  * unfold ver_parts. apply Forall2_app.
    -- assert (forall f, In f (hd [] v) -> sorted (f_ents f)) as Hl0.
       { intros f Hf. rewrite Forall_forall in Hfiles. apply Hfiles. destruct v as [|l0 r]; [destruct Hf|]. cbn [hd] in Hf. cbn [concat]. apply in_or_app. now left. }
       clear -Hl0. induction (hd [] v) as [|f r IH]; cbn [map]; constructor; [|apply IH; intros x Hx; apply Hl0; now right].
       exists (-1). unfold lazy_leaf. change (xcur fuel 1) with (xcur1 fuel (xcur fuel 0)). apply wrap_XL. apply lazy_leaf_refines. apply Hl0. now left.
    -- assert (forall lv, In lv (tl v) -> sorted (concat (map f_ents (filter (overlaps lo hi) lv))) /\ forall f, In f lv -> sorted (f_ents f)) as Hlv.
       { intros lv Hin. split; [rewrite Forall_forall in Hlevels; now apply Hlevels|]. intros f Hf. rewrite Forall_forall in Hfiles. apply Hfiles.
         destruct v as [|l0 r]; [destruct Hin|]. cbn [tl] in Hin. cbn [concat]. apply in_or_app. right. apply in_concat. eauto. }
       clear -Hlv. induction (tl v) as [|lv r IH]; cbn [flat_map]; [constructor|].
       apply Forall2_app; [|apply IH; intros x Hx; apply Hlv; now right].
       destruct (Hlv lv (or_introl eq_refl)) as [Hsl Hsf]. unfold level_part.
       destruct (filter (overlaps lo hi) lv) as [|f fs] eqn:E; [constructor|]. constructor; [|constructor].
       exists (-1). change (xcur fuel 1) with (xcur1 fuel (xcur fuel 0)). apply wrap_XC.
       apply (concat_refines (xcur fuel 0) (map f_ents (f :: fs))); [exact Hsl|discriminate|].
       assert (forall g, In g (f :: fs) -> sorted (f_ents g)) as Hg.
       { intros g Hg. apply Hsf. assert (In g (filter (overlaps lo hi) lv)) as H by (rewrite E; exact Hg). apply filter_In in H. tauto. }
       clear -Hg. induction (f :: fs) as [|g r IH]; cbn [map]; constructor; [|apply IH; intros x Hx; apply Hg; now right].
       exists (-1). unfold lazy_leaf. cbn [xcur]. apply wrap_XL. apply lazy_leaf_refines. apply Hg. now left.
Qed.

Lemma version_scan_noG fuel lo hi v look : xtabs look (version_scan fuel lo hi v).
Proof.
  assert (forall d, closed (xcur fuel d) (xtabs look)) as Hcl by (intros d; apply xtabs_closed).
  unfold version_scan. apply xtabs_XM. apply (pres_m_new (xcur fuel 1) (xtabs look) (Hcl 1%nat)).
  assert (forall fs, Forall (xtabs look) (map lazy_leaf fs)) as Hleaf
    by (intros fs; apply Forall_forall; intros k Hk; apply in_map_iff in Hk; destruct Hk as [f [<- _]]; exact I).
  apply Forall_app. split; [apply Hleaf|].
  apply Forall_forall. intros k Hk. apply in_flat_map in Hk. destruct Hk as [level [_ Hk]].
  destruct (filter (overlaps lo hi) level) as [|f0 fs]; [destruct Hk|]. destruct Hk as [<-|[]].
  apply xtabs_XC. apply (pres_k_new (xcur fuel 0) (xtabs look) (Hcl 0%nat)). apply Hleaf.
Qed.

Section ScanLT.
Variables (fuel : nat) (lo hi : bound) (t : N).
Variable V : list entry.                 (* what the version cursor iterates: never changes *)
Hypothesis HsV : sorted V.

Notation c1 := (xcur fuel 1).
Notation c2 := (xcur fuel 2).
Notation c3 := (xcur fuel 3).
Notation c4 := (xcur fuel 4).
Notation c5 := (xcur fuel 5).
Notation Hst1 := (xcur_leaf_step fuel 1).
Notation Hkv1 := (xcur_leaf_kv fuel 1).
Notation Hfl1 := (xcur_leaf_fail fuel 1).

(* a state without wrapper leaves: refreshing it changes nothing *)
Definition noG (u : xst) : Prop := forall look, xtabs look u.
Lemma noG_closed d : closed (xcur fuel d) noG.
Proof. intros o u H look. apply xtabs_closed. apply H. Qed.
Lemma noG_refresh look u : noG u -> xrefresh look u = u.
Proof. intros H. apply xtabs_refresh. apply H. Qed.

(* the list under a child of the top merge *)
Definition Uof (s : xst) : list entry :=
  match s with XB _ _ (mkB (XG _ g) _ _) => g_tab g | _ => V end.

Definition KX (Ok Uk : list entry) (s : xst) (md : bool) (p : lpos) (a b : Z) : Prop :=
  (exists m st, s = XB lo hi st /\ Ok = filter (Wb lo hi t) Uk /\ MK fuel m lo hi t Uk st p a b) \/
  (Uk = V /\ Ok = filter (oldb t) V /\ noG s /\ XK c2 t V s p a b).

Lemma c2_XB o st : step c2 o (XB lo hi st) = XB lo hi (step (bounds c1 fuel lo hi) o st).
Proof. destruct o; reflexivity. Qed.
Lemma c2_kv_XB st : c_kv c2 (XB lo hi st) = b_kv c1 st.
Proof. reflexivity. Qed.

Lemma kx_at Ok Uk s md j a b : KX Ok Uk s md (LAt j) a b -> 0 <= j < len Ok /\ c_kv c2 s = Some (at_ Ok j).
Proof.
  intros [[m [st [-> [-> HM]]]]|[-> [-> [_ HX]]]].
  - rewrite c2_kv_XB. eapply MKg_at; [exact Hkv1|exact HM].
  - eapply xk_at; eauto.
Qed.
Lemma kx_gap Ok Uk s md g a b : KX Ok Uk s md (LGap g) a b -> 0 <= g <= len Ok /\
  match c_kv c2 s with
  | None => True
  | Some x => (t < ets x)%N /\ (md = true -> g < len Ok -> elt x (at_ Ok g)) /\ (md = false -> 0 < g -> elt (at_ Ok (g - 1)) x)
  end.
Proof.
  intros [[m [st [-> [-> HM]]]]|[-> [-> [_ HX]]]].
  - rewrite c2_kv_XB. pose proof (MKg_gap fuel c1 Hkv1 _ _ _ _ _ _ _ _ _ HM) as [H1 H2]. split; [exact H1|].
    destruct (b_kv c1 st); [|exact I]. destruct H2 as [A [B C]]. split; [exact A|]. split; auto.
  - pose proof (xk_gap c2 t V HsV _ _ _ _ HX) as [H1 H2]. split; [exact H1|].
    destruct (c_kv c2 s); [|exact I]. destruct H2 as [A [B C]]. split; [exact A|]. split; auto.
Qed.
Lemma kx_in Ok Uk s md p a b x : KX Ok Uk s md p a b -> c_kv c2 s = Some x -> In x Uk.
Proof.
  intros [[m [st [-> [-> HM]]]]|[-> [-> [_ HX]]]] Hx.
  - rewrite c2_kv_XB in Hx. eapply MKg_in; [exact Hkv1|exact HM|exact Hx].
  - eapply xk_in; eauto.
Qed.
Lemma kx_meas Ok Uk s md p a b : KX Ok Uk s md p a b -> 0 <= a <= len Uk + 2 /\ 0 <= b <= len Uk + 2.
Proof.
  intros [[m [st [-> [-> HM]]]]|[-> [-> [_ HX]]]].
  - eapply MKg_meas; eauto.
  - eapply xk_meas; eauto.
Qed.

Lemma kx_next Ok Uk s md p a b : KX Ok Uk s md p a b -> exists p' a' b',
  KX Ok Uk (c_next c2 s) true p' a' b' /\ nxt p p' /\ (c_kv c2 (c_next c2 s) = None -> p' = LGap (len Ok)) /\
  ((c_kv c2 s = None /\ c_kv c2 (c_next c2 s) = None) \/ a' < a).
Proof.
  intros [[m [st [-> [-> HM]]]]|[-> [-> [HG HX]]]].
  - destruct (MKg_next fuel c1 Hst1 Hkv1 Hfl1 _ _ _ _ _ _ _ _ _ HM) as [p' [a' [b' [HM' [H1 [H2 H3]]]]]].
    change (c_next c2 (XB lo hi st)) with (step c2 ONext (XB lo hi st)). rewrite c2_XB, !c2_kv_XB.
    exists p', a', b'. split; [left; eauto|auto].
  - destruct (xk_next c2 t V _ _ _ _ HX) as [p' [a' [b' [HX' H]]]]. exists p', a', b'. split; [|exact H].
    right. split; [reflexivity|]. split; [reflexivity|]. split; [exact (noG_closed 2 ONext s HG)|exact HX'].
Qed.
Lemma kx_prev Ok Uk s md p a b : KX Ok Uk s md p a b -> exists p' a' b',
  KX Ok Uk (c_prev c2 s) false p' a' b' /\ prv p p' /\ (c_kv c2 (c_prev c2 s) = None -> p' = LGap 0) /\
  ((c_kv c2 s = None /\ c_kv c2 (c_prev c2 s) = None) \/ b' < b) /\
  (md = false -> forall x y, c_kv c2 s = Some x -> c_kv c2 (c_prev c2 s) = Some y -> elt y x).
Proof.
  intros [[m [st [-> [-> HM]]]]|[-> [-> [HG HX]]]].
  - destruct (MKg_prev fuel c1 Hst1 Hkv1 Hfl1 _ _ _ _ _ _ _ _ _ HM) as [p' [a' [b' [HM' [H1 [H2 [H3 H4]]]]]]].
    change (c_prev c2 (XB lo hi st)) with (step c2 OPrev (XB lo hi st)). rewrite c2_XB, !c2_kv_XB.
    exists p', a', b'. split; [left; eauto|]. split; [exact H1|]. split; [exact H2|]. split; [exact H3|]. intros _. exact H4.
  - destruct (xk_prev c2 t V HsV _ _ _ _ HX) as [p' [a' [b' [HX' [H1 [H2 [H3 H4]]]]]]]. exists p', a', b'. split.
    + right. split; [reflexivity|]. split; [reflexivity|]. split; [exact (noG_closed 2 OPrev s HG)|exact HX'].
    + split; [exact H1|]. split; [exact H2|]. split; [exact H3|]. intros _. exact H4.
Qed.
Lemma kx_seek Ok Uk s md p a b k : KX Ok Uk s md p a b -> exists p' a' b',
  KX Ok Uk (c_seek c2 k s) true p' a' b' /\ nu p' = count (below k) Ok /\ (c_kv c2 (c_seek c2 k s) = None -> p' = LGap (len Ok)).
Proof.
  intros [[m [st [-> [-> HM]]]]|[-> [-> [HG HX]]]].
  - destruct (MKg_seek fuel c1 Hst1 Hkv1 Hfl1 _ _ _ _ _ _ _ _ _ k HM) as [p' [a' [b' [HM' [H1 H2]]]]].
    change (c_seek c2 k (XB lo hi st)) with (step c2 (OSeek k) (XB lo hi st)). rewrite c2_XB, !c2_kv_XB.
    exists p', a', b'. split; [left; eauto|auto].
  - destruct (xk_seek c2 t V HsV _ _ _ _ k HX) as [p' [a' [b' [HX' H]]]]. exists p', a', b'. split; [|exact H].
    right. split; [reflexivity|]. split; [reflexivity|]. split; [exact (noG_closed 2 (OSeek k) s HG)|exact HX'].
Qed.
Lemma kx_first Ok Uk s md p a b : KX Ok Uk s md p a b -> exists a' b',
  KX Ok Uk (c_first c2 s) true (LGap 0) a' b' /\ c_kv c2 (c_first c2 s) = None.
Proof.
  intros [[m [st [-> [-> HM]]]]|[-> [-> [HG HX]]]].
  - destruct (MKg_first fuel c1 Hst1 Hkv1 Hfl1 _ _ _ _ _ _ _ _ _ HM) as [a' [b' [HM' H1]]].
    change (c_first c2 (XB lo hi st)) with (step c2 OFirst (XB lo hi st)). rewrite c2_XB, !c2_kv_XB.
    exists a', b'. split; [left; eauto|auto].
  - destruct (xk_first c2 t V _ _ _ _ HX) as [a' [b' [HX' H]]]. exists a', b'. split; [|exact H].
    right. split; [reflexivity|]. split; [reflexivity|]. split; [exact (noG_closed 2 OFirst s HG)|exact HX'].
Qed.
Lemma kx_last Ok Uk s md p a b : KX Ok Uk s md p a b -> exists a' b',
  KX Ok Uk (c_last c2 s) false (LGap (len Ok)) a' b' /\ c_kv c2 (c_last c2 s) = None.
Proof.
  intros [[m [st [-> [-> HM]]]]|[-> [-> [HG HX]]]].
  - destruct (MKg_last fuel c1 Hst1 Hkv1 Hfl1 _ _ _ _ _ _ _ _ _ HM) as [a' [b' [HM' H1]]].
    change (c_last c2 (XB lo hi st)) with (step c2 OLast (XB lo hi st)). rewrite c2_XB, !c2_kv_XB.
    exists a', b'. split; [left; eauto|auto].
  - destruct (xk_last c2 t V _ _ _ _ HX) as [a' [b' [HX' H]]]. exists a', b'. split; [|exact H].
    right. split; [reflexivity|]. split; [reflexivity|]. split; [exact (noG_closed 2 OLast s HG)|exact HX'].
Qed.

Lemma noG_Uof s : noG s -> Uof s = V.
Proof.
  intros H. destruct s as [m g|f mk s|s|s|lo0 hi0 [cur pos fl]|t0 s]; try reflexivity. destruct cur as [m g| | | | |]; try reflexivity.
  exfalso. specialize (H (fun _ => dflt_entry :: g_tab g)). cbn [xtabs] in H.
  assert (length (g_tab g) = length (dflt_entry :: g_tab g)) as E by (now rewrite <- H). cbn in E. lia.
Qed.
Lemma kx_U Ok Uk s md p a b : KX Ok Uk s md p a b -> Uk = Uof s.
Proof.
  intros [[m [st [-> [-> HM]]]]|[-> [-> [HG HX]]]].
  - destruct HM as [_ [_ [_ [gp [Hc _]]]]]. destruct st as [cur pos fl]. cbn [b_cur] in Hc. subst cur. reflexivity.
  - symmetry. now apply noG_Uof.
Qed.

(* ---------------------------------------------------------------- the merge and the PruningCursor *)
Variable O : list entry.                 (* the entries not newer than t under the children *)
Hypothesis HsO : sorted O.
Hypothesis HoldO : forall e, In e O -> (ets e <= t)%N.
Variable T0 : Z.                         (* a bound on the sizes of the lists, over the life of the cursor *)

Notation n := (len O).
Notation PS := (prune_spec t O).
Definition LT2 : mstate xst -> bool -> lpos -> Prop := LTm c2 t O KX T0.
Definition pack := merge_lt_pack c2 t O HsO HoldO KX kx_at kx_gap kx_in kx_meas kx_next kx_prev kx_seek kx_first kx_last Uof kx_U T0.

Definition LT3 (u : xst) (md : bool) (p : lpos) : Prop := exists s, u = XM s /\ LT2 s md p.
Definition ahead3 (u : xst) : nat := match u with XM s => ahead_m c2 T0 s | _ => 0%nat end.
Definition behind3 (u : xst) : nat := match u with XM s => behind_m c2 T0 s | _ => 0%nat end.

Lemma c3_XM o s : step c3 o (XM s) = XM (step (merging c2) o s).
Proof. destruct o; reflexivity. Qed.
Lemma c3_kv_XM s : c_kv c3 (XM s) = m_kv c2 s.
Proof. reflexivity. Qed.

Theorem prune3_sim : Z.of_nat fuel > (2 * n + 2) * (Z.of_nat (Bnd_m T0) + 2) ->
  sim (pruning c3 fuel t) PS (PR c3 t O LT3).
Proof.
  intros Hfuel. destruct pack as [P1 [P2 [P3 [P4 [P5 [P6 [P7 [P8 [P9 _]]]]]]]]].
  apply (pruningLT_sim c3 fuel t O HsO HoldO LT3 ahead3 behind3 (Bnd_m T0)); [| | | | | | | | |exact Hfuel].
  - intros u md j [s [-> H]]. rewrite c3_kv_XM. exact (P1 s md j H).
  - intros u md g [s [-> H]]. rewrite c3_kv_XM. exact (P2 s md g H).
  - intros u md p [s [-> H]]. destruct (P3 s md p H) as [p' [H1 H2]]. exists p'. split; [exists (m_next c2 s); split; [reflexivity|exact H1]|exact H2].
  - intros u md p [s [-> H]]. destruct (P4 s md p H) as [p' [H1 H2]]. exists p'. split; [exists (m_prev c2 s); split; [reflexivity|exact H1]|exact H2].
  - intros u md p k [s [-> H]]. destruct (P5 s md p k H) as [p' [H1 H2]]. exists p'. split; [exists (m_seek c2 k s); split; [reflexivity|exact H1]|exact H2].
  - intros u md p [s [-> H]]. destruct (P6 s md p H) as [H1 H2]. split; [exists (m_first c2 s); split; [reflexivity|exact H1]|exact H2].
  - intros u md p [s [-> H]]. destruct (P7 s md p H) as [H1 H2]. split; [exists (m_last c2 s); split; [reflexivity|exact H1]|exact H2].
  - intros u md p [s [-> H]]. exact (P8 s md p H).
  - intros u md p [s [-> H]]. exact (P9 s md p H).
Qed.

(* ---------------------------------------------------------------- the PruningCursor as a node of the tree; the top *)
Hypothesis Hfuel1 : Z.of_nat fuel > (2 * n + 2) * (Z.of_nat (Bnd_m T0) + 2).
Hypothesis Hfuel2 : Z.of_nat fuel >= len PS + 2.
Notation BS := (bounds_spec lo hi PS).

Definition R4 (u : xst) (P : Z) : Prop := exists pst, u = XP t pst /\ PR c3 t O LT3 pst P.

Lemma R4_sim : sim c4 PS R4.
Proof.
  pose proof (prune3_sim Hfuel1) as Hsim. constructor.
  - intros u P [pst [-> H]]. exact (sim_range _ _ _ Hsim pst P H).
  - intros u P [pst [-> H]]. exact (sim_kv _ _ _ Hsim pst P H).
  - intros u P [pst [-> H]]. exact (sim_fail _ _ _ Hsim pst P H).
  - intros o u P [pst [-> H]]. exists (step (pruning c3 fuel t) o pst). split; [destruct o; reflexivity|]. exact (sim_step _ _ _ Hsim o pst P H).
Qed.

Lemma sorted_PS : sorted PS.
Proof. apply sorted_filter. exact HsO. Qed.

Definition TopI (x : xst) (P : Z) : Prop :=
  exists bst, x = XB lo hi bst /\ bounds_R c4 lo hi PS bst P /\ exists P2, R4 (b_cur bst) P2.

Lemma top_obs x P : TopI x P -> observe c5 x = observe (ref BS) P.
Proof.
  intros [bst [-> [HR _]]]. pose proof (bounds_sim c4 fuel lo hi PS sorted_PS Hfuel2) as Hsim.
  unfold observe. change (c_kv c5 (XB lo hi bst)) with (c_kv (bounds c4 fuel lo hi) bst). change (c_fail c5 (XB lo hi bst)) with (c_fail (bounds c4 fuel lo hi) bst).
  rewrite (sim_kv _ _ _ Hsim bst P HR), (sim_fail _ _ _ Hsim bst P HR). reflexivity.
Qed.

Lemma top_step o x P : TopI x P -> TopI (step c5 o x) (step (ref BS) o P).
Proof.
  intros [bst [-> [HR HQ]]]. pose proof (bounds_sim c4 fuel lo hi PS sorted_PS Hfuel2) as Hsim.
  exists (step (bounds c4 fuel lo hi) o bst). split; [destruct o; reflexivity|]. split; [exact (sim_step _ _ _ Hsim o bst P HR)|].
  assert (closed c4 (fun u => exists P2, R4 u P2)) as Hcl by (intros o' u [P2 H]; eexists; exact (sim_step _ _ _ R4_sim o' u P2 H)).
  exact (pres_bounds c4 _ Hcl fuel lo hi o bst HQ).
Qed.

(* ---- insertions *)
Lemma run_ref_nil prog : forall i j, -1 <= i <= 0 -> -1 <= j <= 0 -> run (ref []) prog i = run (ref []) prog j.
Proof.
  induction prog as [|o prog IH]; intros i j Hi Hj; cbn [run]; unfold observe; cbn [ref c_kv c_fail]; rewrite !ent_nil; [reflexivity|].
  f_equal. apply IH; [pose proof (ref_step_range [] o i)|pose proof (ref_step_range [] o j)]; rewrite len_nil in *; auto.
Qed.
Lemma refines_nil_any {S} (c : cursor S) s i j : refines c s [] i -> -1 <= j <= 0 -> refines c s [] j.
Proof.
  intros [Hr H] Hj. rewrite len_nil in Hr. split; [rewrite len_nil; exact Hj|]. intros prog. rewrite H. now apply run_ref_nil.
Qed.

Definition top_kids (x : xst) : list xst :=
  match x with XB _ _ (mkB (XP _ (mkP (XM s) _ _)) _ _) => m_kids s | _ => [] end.

Lemma top_refresh look x P : TopI x P ->
  (forall k, In k (top_kids x) -> keeps c2 KX (xrefresh look) k) ->
  distinct (concat (map Uof (map (xrefresh look) (top_kids x)))) ->
  usum Uof (map (xrefresh look) (top_kids x)) <= T0 ->
  TopI (xrefresh look x) P /\ top_kids (xrefresh look x) = map (xrefresh look) (top_kids x).
Proof.
  intros [bst [-> [HR [P2 [pst [Ec HP]]]]]] Hkeep Hd HT. destruct bst as [cur pos fl]. cbn [b_cur] in Ec. subst cur.
  destruct pst as [u sk f]. pose proof HP as [Hf [md [p [[s [Eu HL]] Hcases]]]]. cbn [p_cur p_fail p_skip] in *. subst u f. destruct s as [fw kids].
  cbn [top_kids m_kids] in *. cbn [xrefresh]. split; [|reflexivity].
  destruct pack as [_ [_ [_ [_ [_ [_ [_ [_ [_ [P10 _]]]]]]]]]].
  destruct (P10 (xrefresh look) (mkM fw kids) md p HL Hkeep Hd HT) as [HL' Ekv]. cbn [m_fwd m_kids] in HL', Ekv.
  set (u' := XM (mkM fw (map (xrefresh look) kids))).
  assert (PR c3 t O LT3 (mkP u' sk None) P2) as HP'.
  { split; [reflexivity|]. exists md, p. cbn [p_cur p_skip]. split; [exists (mkM fw (map (xrefresh look) kids)); split; [reflexivity|exact HL']|].
    unfold u'. rewrite c3_kv_XM, Ekv. rewrite c3_kv_XM in Hcases. exact Hcases. }
  assert (R4 (XP t (mkP u' sk None)) P2) as HR4 by (eexists; split; [reflexivity|exact HP']).
  exists (mkB (XP t (mkP u' sk None)) pos fl). split; [reflexivity|]. split; [|exists P2; exact HR4].
  destruct HR as [Hfl [q [Hq Hpos]]]. cbn [b_fail b_cur b_pos] in *. split; [exact Hfl|]. exists q. split; [|exact Hpos].
  pose proof (sim_refines c4 PS R4 R4_sim _ _ HR4) as Hnew.
  assert (refines c4 (XP t (mkP (XM (mkM fw kids)) sk None)) PS P2) as Hold
    by (apply (sim_refines c4 PS R4 R4_sim); eexists; split; [reflexivity|exact HP]).
  destruct (refines_unique c4 _ PS _ _ sorted_PS Hq Hold) as [->|E]; [exact Hnew|].
  rewrite E in *. apply (refines_nil_any c4 _ P2 q Hnew). pose proof (refines_range c4 _ _ _ Hq) as Hr. rewrite len_nil in Hr. exact Hr.
Qed.

(* ---------------------------------------------------------------- the children of the top merge, by memtable *)
Definition kid_id (k : xst) : option N := match k with XB _ _ (mkB (XG m _) _ _) => Some m | _ => None end.
Lemma kid_id_XB lo0 hi0 bst : kid_id (XB lo0 hi0 bst) = match b_cur bst with XG m _ => Some m | _ => None end.
Proof. destruct bst. reflexivity. Qed.

Lemma kid_id_step o k : kid_id (step c2 o k) = kid_id k.
Proof.
  destruct k as [m g|f mk s|s|s|lo0 hi0 bst|t0 s]; try (destruct o; reflexivity).
  assert (step c2 o (XB lo0 hi0 bst) = XB lo0 hi0 (step (bounds c1 fuel lo0 hi0) o bst)) as -> by (destruct o; reflexivity).
  rewrite !kid_id_XB. destruct (b_cur bst) as [m g| | | | |] eqn:Ec.
  - assert (closed c1 (fun u => exists g', u = XG m g')) as Hcl by (intros o' u [g' ->]; rewrite Hst1; eauto).
    destruct (pres_bounds c1 _ Hcl fuel lo0 hi0 o bst) as [g' ->]; [unfold qb; rewrite Ec; eauto|reflexivity].
  - assert (closed c1 (fun u => exists f mk s, u = XL f mk s)) as Hcl by (intros o' u [f' [mk' [s' ->]]]; destruct o'; cbn; eauto).
    destruct (pres_bounds c1 _ Hcl fuel lo0 hi0 o bst) as [f' [mk' [s' ->]]]; [unfold qb; rewrite Ec; eauto|reflexivity].
  - assert (closed c1 (fun u => exists s, u = XM s)) as Hcl by (intros o' u [s' ->]; destruct o'; cbn; eauto).
    destruct (pres_bounds c1 _ Hcl fuel lo0 hi0 o bst) as [s' ->]; [unfold qb; rewrite Ec; eauto|reflexivity].
  - assert (closed c1 (fun u => exists s, u = XC s)) as Hcl by (intros o' u [s' ->]; destruct o'; cbn; eauto).
    destruct (pres_bounds c1 _ Hcl fuel lo0 hi0 o bst) as [s' ->]; [unfold qb; rewrite Ec; eauto|reflexivity].
  - assert (closed c1 (fun u => exists l1 h1 s, u = XB l1 h1 s)) as Hcl by (intros o' u [l1 [h1 [s' ->]]]; destruct o'; cbn; eauto).
    destruct (pres_bounds c1 _ Hcl fuel lo0 hi0 o bst) as [l1 [h1 [s' ->]]]; [unfold qb; rewrite Ec; eauto|reflexivity].
  - assert (closed c1 (fun u => exists t1 s, u = XP t1 s)) as Hcl by (intros o' u [t1 [s' ->]]; destruct o'; cbn; eauto).
    destruct (pres_bounds c1 _ Hcl fuel lo0 hi0 o bst) as [t1 [s' ->]]; [unfold qb; rewrite Ec; eauto|reflexivity].
Qed.

Definition ids3 (ids : list (option N)) (u : xst) : Prop := exists s, u = XM s /\ qmi kid_id ids s.
Definition ids4 (ids : list (option N)) (u : xst) : Prop := exists t0 pst, u = XP t0 pst /\ ids3 ids (p_cur pst).
Definition ids5 (ids : list (option N)) (u : xst) : Prop := exists l0 h0 bst, u = XB l0 h0 bst /\ ids4 ids (b_cur bst).

Lemma ids3_closed ids : closed c3 (ids3 ids).
Proof.
  intros o u [s [-> H]]. exists (step (merging c2) o s). split; [destruct o; reflexivity|]. exact (pres_merging_ids c2 kid_id kid_id_step ids o s H).
Qed.
Lemma ids4_closed ids : closed c4 (ids4 ids).
Proof.
  intros o u [t0 [pst [-> H]]]. exists t0, (step (pruning c3 fuel t0) o pst). split; [destruct o; reflexivity|].
  exact (pres_pruning c3 (ids3 ids) (ids3_closed ids) fuel t0 o pst H).
Qed.
Lemma ids5_closed ids : closed c5 (ids5 ids).
Proof.
  intros o u [l0 [h0 [bst [-> H]]]]. exists l0, h0, (step (bounds c4 fuel l0 h0) o bst). split; [destruct o; reflexivity|].
  exact (pres_bounds c4 (ids4 ids) (ids4_closed ids) fuel l0 h0 o bst H).
Qed.
Lemma ids5_kids ids x : ids5 ids x -> Permutation (map kid_id (top_kids x)) ids.
Proof.
  intros [l0 [h0 [[cur pos fl] [-> [t0 [[u sk f] [Ec [s [Eu H]]]]]]]]]. cbn [b_cur p_cur] in *. subst cur u. exact H.
Qed.
Lemma ids5_refresh look ids x : ids5 ids x -> ids5 ids (xrefresh look x).
Proof.
  intros [l0 [h0 [[cur pos fl] [-> [t0 [[u sk f] [Ec [[fw kids] [Eu H]]]]]]]]]. cbn [b_cur p_cur] in *. subst cur u.
  cbn [xrefresh]. do 3 eexists. split; [reflexivity|]. cbn [b_cur]. do 2 eexists. split; [reflexivity|]. cbn [p_cur]. eexists. split; [reflexivity|].
  unfold qmi in *. cbn [m_kids] in *. rewrite map_map. erewrite map_ext; [exact H|].
  intros k. destruct k as [m g|f0 mk s|[fw0 ks]|[ks ps fl0]|lo0 hi0 [cur0 pos0 fl0]|t1 [cur0 sk0 fl0]]; try reflexivity.
  cbn [xrefresh]. destruct cur0 as [m g|f0 mk s|[fw0 ks]|[ks ps fl1]|lo1 hi1 [cur1 pos1 fl1]|t1 [cur1 sk1 fl1]]; reflexivity.
Qed.

(* ---- a child keeps its logical position when its list grows *)
Lemma keeps_kid look k : (exists d md0, Kd KX md0 k d) ->
  (forall m tab gp pos fl, k = XB lo hi (mkB (XG m (mkG tab gp)) pos fl) -> grows t tab (look m) /\ Z.of_nat fuel >= len (look m) + 2) ->
  keeps c2 KX (xrefresh look) k.
Proof.
  intros [d0 [md1 HK0]] Hgrow.
  destruct HK0 as [[m [st [Ek [EO HM]]]]|[EU [EO [HG HX]]]].
  - (* a memtable cursor *)
    pose proof HM as [_ [_ [_ [gp [Hc _]]]]]. destruct st as [cur pos fl]. cbn [b_cur] in Hc. subst cur k.
    destruct (Hgrow m (kU d0) gp pos fl eq_refl) as [Hg Hfu].
    assert (xrefresh look (XB lo hi (mkB (XG m (mkG (kU d0) gp)) pos fl)) = XB lo hi (regrow (look m) (mkB (XG m (mkG (kU d0) gp)) pos fl))) as Er by reflexivity.
    unfold keeps. rewrite Er. split.
    + rewrite !c2_kv_XB. destruct (MK_grow fuel c1 Hkv1 _ _ _ _ _ _ _ _ _ _ HM Hg Hfu) as [_ [Hkv _]]. exact Hkv.
    + intros d md0 [[m' [st' [Ek' [EO' HM']]]]|[EU' [_ [HG' _]]]].
      * injection Ek' as <-. pose proof HM' as [_ [_ [_ [gp' [Hc' _]]]]]. cbn [b_cur] in Hc'. injection Hc' as <- EU' <-.
        assert (grows t (kU d) (look m)) as Hg' by (rewrite <- EU'; exact Hg).
        destruct (MK_grow fuel c1 Hkv1 _ _ _ _ _ _ _ _ _ _ HM' Hg' Hfu) as [EF [_ [a' [b' HM'']]]].
        exists (mkKD (kO d) (look m) (kp d) a' b'). unfold Kd. cbn [kO kU kp ka kb]. split; [|split; [reflexivity|split; [reflexivity|]]].
        -- left. exists m, (regrow (look m) (mkB (XG m (mkG (kU d0) gp)) pos fl)). split; [reflexivity|]. split; [rewrite EO', EF; reflexivity|exact HM''].
        -- rewrite EO', <- EF. intros x Hx. apply filter_In in Hx. tauto.
      * exfalso. pose proof (noG_Uof _ HG') as E. specialize (HG' (fun _ => dflt_entry :: kU d0)). cbn [xtabs g_tab] in HG'.
        assert (length (kU d0) = length (dflt_entry :: kU d0)) as El by (now rewrite <- HG'). cbn in El. lia.
  - (* the version cursor *)
    unfold keeps. rewrite (noG_refresh look k HG). split; [reflexivity|]. intros d md0 HK. exists d. split; [exact HK|]. split; [reflexivity|]. split; [reflexivity|].
    destruct HK as [[m [st [Ek [_ HM']]]]|[EU' [EO' _]]].
    + exfalso. pose proof HM' as [_ [_ [_ [gp [Hc _]]]]]. destruct st as [cur pos fl]. cbn [b_cur] in Hc. subst cur k.
      specialize (HG (fun _ => dflt_entry :: kU d)). cbn [xtabs g_tab] in HG.
      assert (length (kU d) = length (dflt_entry :: kU d)) as El by (now rewrite <- HG). cbn in El. lia.
    + rewrite EO', EU'. intros x Hx. apply filter_In in Hx. tauto.
Qed.

Lemma top_kids_K x P : TopI x P -> forall k, In k (top_kids x) -> exists d md0, Kd KX md0 k d.
Proof.
  intros [[cur pos fl] [-> [_ [P2 [[u sk f] [Ec [_ [md [p [[s [Eu HL]] _]]]]]]]]]]. cbn [b_cur p_cur] in *. subst cur u.
  destruct pack as [_ [_ [_ [_ [_ [_ [_ [_ [_ [_ [_ P12]]]]]]]]]]]. cbn [top_kids]. exact (P12 s md p HL).
Qed.

Lemma top_refresh2 look x P : TopI x P ->
  (forall k, In k (top_kids x) -> forall m tab gp pos fl, k = XB lo hi (mkB (XG m (mkG tab gp)) pos fl) ->
     grows t tab (look m) /\ Z.of_nat fuel >= len (look m) + 2) ->
  distinct (concat (map Uof (map (xrefresh look) (top_kids x)))) ->
  usum Uof (map (xrefresh look) (top_kids x)) <= T0 ->
  TopI (xrefresh look x) P /\ top_kids (xrefresh look x) = map (xrefresh look) (top_kids x).
Proof.
  intros HT Hg Hd Hu. apply top_refresh; auto. intros k Hk. apply keeps_kid; [exact (top_kids_K x P HT k Hk)|exact (Hg k Hk)].
Qed.

(* ---------------------------------------------------------------- the cursor as range_scan returns it *)
Fixpoint msum (mems : list (N * list entry)) : Z := match mems with [] => 0 | ml :: r => (len (snd ml) + 2) + msum r end.

Lemma mem_leaf_K ml : sorted (snd ml) -> Z.of_nat fuel >= len (snd ml) + 2 ->
  kid_id (mem_leaf fuel lo hi ml) = Some (fst ml) /\
  exists a b, Kd KX true (mem_leaf fuel lo hi ml) (mkKD (filter (Wb lo hi t) (snd ml)) (snd ml) (LGap 0) a b).
Proof.
  intros Hs Hfu. destruct ml as [m l]. cbn [fst snd] in *. unfold mem_leaf. cbn [fst snd].
  change (c_first c2 (XB lo hi (b_new c1 lo hi (XG m (g_new l))))) with (step c2 OFirst (XB lo hi (b_new c1 lo hi (XG m (g_new l))))). split.
  - rewrite kid_id_step, kid_id_XB.
    assert (closed c1 (fun u => exists g', u = XG m g')) as Hcl by (intros o' u [g' ->]; rewrite Hst1; eauto).
    destruct (pres_b_new c1 _ Hcl lo hi (XG m (g_new l))) as [g' E]; [eauto|]. unfold qb in E. now rewrite E.
  - rewrite c2_XB. destruct (MKg_start fuel c1 Hst1 Hkv1 Hfl1 m lo hi t l Hs Hfu) as [a0 [b0 [HM0 _]]].
    destruct (MKg_first fuel c1 Hst1 Hkv1 Hfl1 _ _ _ _ _ _ _ _ _ HM0) as [a [b [HM _]]]. exists a, b. left. exists m, (step (bounds c1 fuel lo hi) OFirst (b_new c1 lo hi (XG m (g_new l)))).
    cbn [kO kU kp ka kb]. auto.
Qed.

Lemma mem_leaf_ids mems : Forall (fun ml => sorted (snd ml) /\ Z.of_nat fuel >= len (snd ml) + 2) mems ->
  map kid_id (map (mem_leaf fuel lo hi) mems) = map (fun ml => Some (fst ml)) mems.
Proof.
  induction 1 as [|ml r [Hs Hfu] _ IH]; [reflexivity|]. cbn [map]. rewrite IH. f_equal. exact (proj1 (mem_leaf_K ml Hs Hfu)).
Qed.
Lemma mem_leaf_descs mems : Forall (fun ml => sorted (snd ml) /\ Z.of_nat fuel >= len (snd ml) + 2) mems ->
  exists mds, Forall2 (fun s d => exists md, Kd KX md s d) (map (mem_leaf fuel lo hi) mems) mds /\
    map kO mds = map (fun ml => filter (Wb lo hi t) (snd ml)) mems /\ map kU mds = map snd mems /\ tsum mds = msum mems.
Proof.
  induction 1 as [|ml r [Hs Hfu] _ [mds [H1 [H2 [H3 H4]]]]]; [exists []; repeat split; constructor|].
  destruct (mem_leaf_K ml Hs Hfu) as [_ [a [b HK]]].
  exists (mkKD (filter (Wb lo hi t) (snd ml)) (snd ml) (LGap 0) a b :: mds). cbn [map tsum msum kO kU]. split; [constructor; [exists true; exact HK|exact H1]|].
  rewrite H2, H3, H4. auto.
Qed.

Lemma top_new mems v : V = ver_list lo hi v -> refines c2 (version_scan fuel lo hi v) V (-1) ->
  Forall (fun ml => sorted (snd ml) /\ Z.of_nat fuel >= len (snd ml) + 2) mems ->
  distinct (concat (map snd mems ++ [V])) ->
  Permutation (concat (map (fun ml => filter (Wb lo hi t) (snd ml)) mems ++ [filter (oldb t) V])) O ->
  msum mems + (len V + 2) <= T0 ->
  TopI (scan_new fuel lo hi t mems v) (-1) /\ ids5 (map (fun ml => Some (fst ml)) mems ++ [None]) (scan_new fuel lo hi t mems v).
Proof.
  intros EV Hver Hmems Hdist Hperm HT.
  set (kids := map (mem_leaf fuel lo hi) mems ++ [version_scan fuel lo hi v]).
  set (vd := mkKD (filter (oldb t) V) V (LGap 0) (len V + 2) 1).
  assert (Kd KX true (version_scan fuel lo hi v) vd) as Hvk.
  { right. cbn [vd kO kU kp ka kb]. split; [reflexivity|]. split; [reflexivity|]. split; [intros look; apply version_scan_noG|now apply xk_start]. }
  (* the descriptors of the children *)
  destruct (mem_leaf_descs mems Hmems) as [mds [Hmk [EO [EU ET]]]].
  set (ds := mds ++ [vd]).
  assert (Forall2 (fun s d => exists md, Kd KX md s d) kids ds) as Hany by (apply Forall2_app; [exact Hmk|constructor; [exists true; exact Hvk|constructor]]).
  assert (kstatic O ds) as Hst.
  { unfold kstatic, ds. rewrite !map_app, EO, EU. cbn [map vd kO kU]. split; [|split; [exact Hperm|exact Hdist]].
    apply Forall_app. split.
    - apply Forall_forall. intros d Hd. destruct (In_nth_error _ _ Hd) as [i Hi]. destruct (Forall2_nth_r _ _ _ _ _ Hmk Hi) as [s [_ [md HK]]].
      destruct HK as [[m [st [_ [E HM]]]]|[E0 [E _]]]; rewrite E; try rewrite E0; (split; [apply sorted_filter|intros x Hx; apply filter_In in Hx; tauto]).
      + destruct HM as [H _]. exact H.
      + exact HsV.
    - constructor; [|constructor]. cbn [vd kO kU]. split; [apply sorted_filter; exact HsV|intros x Hx; apply filter_In in Hx; tauto]. }
  assert (tsum ds <= T0) as HTs.
  { unfold ds. assert (forall l1 l2, tsum (l1 ++ l2) = tsum l1 + tsum l2) as Happ by (induction l1; intros; cbn [app tsum]; [reflexivity|rewrite IHl1; lia]).
    rewrite Happ, ET. cbn [tsum vd kU]. lia. }
  destruct pack as [_ [_ [_ [_ [_ [P6 [_ [_ [_ [_ [P11 _]]]]]]]]]]].
  destruct (P11 kids ds Hany Hst HTs) as [HL0 _]. destruct (P6 _ _ _ HL0) as [HL1 Hkv1'].
  unfold scan_new. fold kids.
  set (pst := p_new c3 (XM (m_new c2 kids))).
  assert (PR c3 t O LT3 pst (-1)) as HP.
  { unfold pst, p_new. split; [reflexivity|]. exists true, (LGap 0). cbn [p_cur p_skip].
    change (c_first c3 (XM (m_new c2 kids))) with (XM (m_first c2 (m_new c2 kids))).
    split; [exists (m_first c2 (m_new c2 kids)); split; [reflexivity|exact HL1]|]. left. rewrite c3_kv_XM. auto. }
  assert (R4 (XP t pst) (-1)) as HR4 by (eexists; split; [reflexivity|exact HP]).
  split.
  - exists (b_new c4 lo hi (XP t pst)). split; [reflexivity|]. split.
    + apply (bounds_new_R c4 fuel lo hi PS (XP t pst) (-1)). exact (sim_refines c4 PS R4 R4_sim _ _ HR4).
    + assert (closed c4 (fun u => exists P2, R4 u P2)) as Hcl by (intros o' u [P2 H]; eexists; exact (sim_step _ _ _ R4_sim o' u P2 H)).
      apply (pres_b_new c4 _ Hcl lo hi). eauto.
  - assert (map kid_id kids = map (fun ml => Some (fst ml)) mems ++ [None]) as Eids.
    { unfold kids. rewrite map_app. cbn [map]. f_equal. now apply mem_leaf_ids. }
    exists lo, hi, (b_new c4 lo hi (XP t pst)). split; [reflexivity|]. apply (pres_b_new c4 _ (ids4_closed _) lo hi).
    exists t, pst. split; [reflexivity|]. unfold pst, p_new. cbn [p_cur]. apply (ids3_closed _ OFirst).
    exists (m_new c2 kids). split; [reflexivity|]. unfold m_new. apply (pres_merging_ids c2 kid_id kid_id_step _ OFirst (mkM true kids)).
    unfold qmi. cbn [m_kids]. rewrite Eids. reflexivity.
Qed.
End ScanLT.
