(* Snap/ProofsWF.v — the hypotheses of the stability theorems about the store at scan-open
   (Model.open_wfb, Model.open_tsb) are INVARIANTS of the machine along accepted histories
   (Model.acc_run: write batches that do not name a key twice; a flush once the writers into the
   immutable memtable have published; installs of well-formed versions that hold nothing the
   current one does not hold), so that the stability theorem holds at every state such a history
   reaches, with no hypothesis evaluated on that state. *)
From Coq Require Import NArith ZArith List Bool Arith Lia Permutation.
From Blue Require Import Cursor.Iface Cursor.Ref Cursor.Bounds Cursor.Spec Cursor.Proofs_Order Cursor.Proofs_Ref Cursor.Proofs_Spec
  Cursor.Proofs_Merging
  Snap.Model Snap.ProofsPres Snap.ProofsSafe Snap.ProofsLeaf Snap.ProofsScan Snap.ProofsGrow Snap.ProofsSpec Snap.ProofsStable
  Snap.ProofsLTK Snap.ProofsLTG0 Snap.ProofsLTG.
Import ListNotations.
Local Open Scope N_scope.

(* ---------------------------------------------------------------- lists *)
Lemma sorted_app_intro l1 l2 : sorted l1 -> sorted l2 -> (forall x y, In x l1 -> In y l2 -> elt x y) -> sorted (l1 ++ l2).
Proof.
  induction 1 as [|a l Hs IH Hf]; intros H2 Hx; [exact H2|]. cbn [app]. constructor.
  - apply IH; [exact H2|]. intros x y Hx' Hy. apply Hx; [now right|exact Hy].
  - apply Forall_app. split; [exact Hf|]. apply Forall_forall. intros y Hy. apply Hx; [now left|exact Hy].
Qed.
Lemma sorted_app_cross l1 l2 : sorted (l1 ++ l2) -> forall x y, In x l1 -> In y l2 -> elt x y.
Proof.
  induction l1 as [|a l1 IH]; intros Hs x y Hx Hy; [destruct Hx|]. cbn [app] in Hs. apply sorted_inv in Hs. destruct Hs as [Hs Hf].
  destruct Hx as [->|Hx]; [|now apply IH]. rewrite Forall_forall in Hf. apply Hf. apply in_or_app. now right.
Qed.

(* a sub-concatenation of a list of lists that is sorted end to end is sorted; of one without
   repeated (key, timestamp) has none *)
Lemma sorted_concat_filter {A} (g : A -> list entry) (p : A -> bool) l :
  sorted (concat (map g l)) -> sorted (concat (map g (filter p l))).
Proof.
  induction l as [|a r IH]; [auto|]. cbn [map concat filter]. intros Hs. destruct (sorted_app _ _ Hs) as [H1 H2].
  destruct (p a); [|now apply IH]. cbn [map concat]. apply sorted_app_intro; [exact H1|now apply IH|].
  intros x y Hx Hy. apply (sorted_app_cross _ _ Hs x y Hx). apply in_concat in Hy. destruct Hy as [l0 [Hl0 Hy]].
  apply in_map_iff in Hl0. destruct Hl0 as [b [<- Hb]]. apply filter_In in Hb. apply in_concat. exists (g b). split; [apply in_map; tauto|exact Hy].
Qed.
Lemma distinct_concat_filter {A} (g : A -> list entry) (p : A -> bool) l :
  distinct (concat (map g l)) -> distinct (concat (map g (filter p l))).
Proof.
  induction l as [|a r IH]; [auto|]. cbn [map concat filter]. intros Hd. destruct (distinct_app_inv _ _ Hd) as [H1 [H2 H3]].
  destruct (p a); [|now apply IH]. cbn [map concat]. apply distinct_app_intro; [exact H1|now apply IH|].
  intros x y Hx Hy. apply (H3 x y Hx). apply in_concat in Hy. destruct Hy as [l0 [Hl0 Hy]].
  apply in_map_iff in Hl0. destruct Hl0 as [b [<- Hb]]. apply filter_In in Hb. apply in_concat. exists (g b). split; [apply in_map; tauto|exact Hy].
Qed.
Lemma distinct_filter f l : distinct l -> distinct (filter f l).
Proof.
  induction 1 as [|a l Hf Hd IH]; cbn [filter]; [constructor|]. destruct (f a); [|exact IH]. constructor; [|exact IH].
  rewrite Forall_forall in *. intros x Hx. apply Hf. apply filter_In in Hx. tauto.
Qed.
Lemma distinct_incl_sub l1 l2 l2' : distinct (l1 ++ l2) -> distinct l2' -> (forall y, In y l2' -> exists y', In y' l2 /\ eeq y y') ->
  distinct (l1 ++ l2').
Proof.
  intros Hd H2' Hsub. destruct (distinct_app_inv _ _ Hd) as [H1 [_ H3]]. apply distinct_app_intro; [exact H1|exact H2'|].
  intros x y Hx Hy He. destruct (Hsub y Hy) as [y' [Hy' Hq]]. apply (H3 x y' Hx Hy'). unfold eeq in *.
  apply ecmp_eq_iff in He. apply ecmp_eq_iff in Hq. apply ecmp_eq_iff. destruct He, Hq. split; congruence.
Qed.

(* ---------------------------------------------------------------- the invariant *)
Definition levels_wf (v : list (list file)) : Prop :=
  Forall (fun f => sorted (f_ents f)) (concat v) /\ Forall (fun level => sorted (concat (map f_ents level))) (tl v).

Definition SI (s : machine) : Prop :=
  let ls := map (look_of s) (open_mems s) in let v := cur_levels s in
  (ms_vis s <= ms_seq s) /\ Forall sorted ls /\ levels_wf v /\ distinct (all_entries ls v) /\
  (forall e, In e (all_entries ls v) -> ets e <= ms_seq s) /\ (forall e, In e (file_entries v) -> ets e <= ms_vis s).

Lemma levels_wfb_ok v : levels_wfb v = true -> levels_wf v /\ distinct (file_entries v).
Proof.
  unfold levels_wfb. intros H. apply andb_prop in H. destruct H as [H H3]. apply andb_prop in H. destruct H as [H1 H2].
  split; [split|now apply distinct_of_bool]; apply Forall_forall; intros x Hx; apply sorted_of_bool.
  - rewrite forallb_forall in H1. now apply H1.
  - rewrite forallb_forall in H2. now apply H2.
Qed.

(* the version's part of the scan: a sub-arrangement of its files *)
Lemma ver_parts_distinct lo hi v : distinct (file_entries v) -> distinct (concat (ver_parts lo hi v)).
Proof.
  unfold file_entries, ver_parts. destruct v as [|l0 r]; [intros _; constructor|]. cbn [hd tl concat]. rewrite map_app, !concat_app.
  intros Hd. destruct (distinct_app_inv _ _ Hd) as [H1 [H2 H3]]. apply distinct_app_intro; [exact H1| |].
  - clear -H2. induction r as [|lv r IH]; [constructor|]. cbn [concat flat_map] in *. rewrite map_app, concat_app in H2. rewrite concat_app.
    destruct (distinct_app_inv _ _ H2) as [A [B C]]. apply distinct_app_intro; [|now apply IH|].
    + unfold level_part. destruct (filter (overlaps lo hi) lv) as [|f fs] eqn:E; [constructor|]. cbn [concat]. rewrite app_nil_r, <- E.
      now apply distinct_concat_filter.
    + intros x y Hx Hy. assert (In x (concat (map f_ents lv))) as Hx'.
      { unfold level_part in Hx. destruct (filter (overlaps lo hi) lv) as [|f fs] eqn:E; [destruct Hx|]. cbn [concat] in Hx. rewrite app_nil_r, <- E in Hx.
        apply in_concat in Hx. destruct Hx as [l0 [Hl0 Hx]]. apply in_map_iff in Hl0. destruct Hl0 as [b [<- Hb]]. apply filter_In in Hb.
        apply in_concat. exists (f_ents b). split; [apply in_map; tauto|exact Hx]. }
      apply (C x y Hx'). clear -Hy. induction r as [|lv' r IH]; [destruct Hy|]. cbn [flat_map concat] in *. rewrite concat_app in Hy. rewrite map_app, concat_app.
      apply in_app_or in Hy. apply in_or_app. destruct Hy as [Hy|Hy]; [left|right; now apply IH].
      unfold level_part in Hy. destruct (filter (overlaps lo hi) lv') as [|f fs] eqn:E; [destruct Hy|]. cbn [concat] in Hy. rewrite app_nil_r, <- E in Hy.
      apply in_concat in Hy. destruct Hy as [l0 [Hl0 Hy]]. apply in_map_iff in Hl0. destruct Hl0 as [b [<- Hb]]. apply filter_In in Hb.
      apply in_concat. exists (f_ents b). split; [apply in_map; tauto|exact Hy].
  - intros x y Hx Hy. apply (H3 x y Hx). clear -Hy. induction r as [|lv' r IH]; [destruct Hy|]. cbn [flat_map concat] in *. rewrite concat_app in Hy. rewrite map_app, concat_app.
    apply in_app_or in Hy. apply in_or_app. destruct Hy as [Hy|Hy]; [left|right; now apply IH].
    unfold level_part in Hy. destruct (filter (overlaps lo hi) lv') as [|f fs] eqn:E; [destruct Hy|]. cbn [concat] in Hy. rewrite app_nil_r, <- E in Hy.
    apply in_concat in Hy. destruct Hy as [l0 [Hl0 Hy]]. apply in_map_iff in Hl0. destruct Hl0 as [b [<- Hb]]. apply filter_In in Hb.
    apply in_concat. exists (f_ents b). split; [apply in_map; tauto|exact Hy].
Qed.

Lemma SI_scan_wf s lo hi : SI s ->
  scan_wf lo hi (map (look_of s) (open_mems s)) (cur_levels s) /\ distinct (all_entries (map (look_of s) (open_mems s)) (cur_levels s)).
Proof.
  intros [_ [Hls [[Hf Hl] [Hd _]]]]. split; [|exact Hd]. set (ls := map (look_of s) (open_mems s)) in *. set (v := cur_levels s) in *.
  unfold all_entries in Hd. fold (file_entries v) in Hd. destruct (distinct_app_inv _ _ Hd) as [D1 [D2 D3]].
  pose proof (ver_parts_distinct lo hi v D2) as Dv.
  split; [exact Hls|]. split; [exact Hf|]. split; [|split; [exact Dv|]].
  - apply Forall_forall. intros lv Hlv. rewrite Forall_forall in Hl. now apply sorted_concat_filter, Hl.
  - unfold top_parts. rewrite concat_app. cbn [concat]. rewrite app_nil_r. apply distinct_app_intro.
    + clear -D1. induction ls as [|l r IH]; [constructor|]. cbn [map concat] in *. destruct (distinct_app_inv _ _ D1) as [A [B C]].
      apply distinct_app_intro; [now apply distinct_filter|now apply IH|]. intros x y Hx Hy. unfold bounds_spec in Hx. apply filter_In in Hx.
      apply (C x y (proj1 Hx)). apply in_concat in Hy. destruct Hy as [l0 [Hl0 Hy]]. apply in_map_iff in Hl0. destruct Hl0 as [b [<- Hb]].
      unfold bounds_spec in Hy. apply filter_In in Hy. apply in_concat. exists b. tauto.
    + apply sorted_distinct. apply merge_spec_sorted. exact Dv.
    + intros x y Hx Hy. apply (D3 x y).
      * apply in_concat in Hx. destruct Hx as [l0 [Hl0 Hx]]. apply in_map_iff in Hl0. destruct Hl0 as [b [<- Hb]].
        unfold bounds_spec in Hx. apply filter_In in Hx. apply in_concat. exists b. tauto.
      * unfold file_entries. eapply V_in_files; eauto.
Qed.

Lemma SI_open_tsb s : SI s -> open_tsb s = true.
Proof.
  intros [Hv [_ [_ [_ [H1 H2]]]]]. unfold open_tsb. apply andb_true_intro. split; [apply andb_true_intro; split|].
  - now apply N.leb_le.
  - apply forallb_forall. intros e He. apply N.leb_le. now apply H1.
  - apply forallb_forall. intros e He. apply N.leb_le. now apply H2.
Qed.

(* ---------------------------------------------------------------- the current version through the Arc machinery *)
Lemma unref_files_vers fs : forall s, ms_vers (unref_files fs s) = ms_vers s /\ ms_cur (unref_files fs s) = ms_cur s.
Proof.
  induction fs as [|f fs IH]; intros s; [split; reflexivity|]. rewrite unref_files_cons. unfold unref1.
  destruct (rc_dec f (ms_refs s)) as [r gone]. destruct (IH (if gone then set_disk (set_refs s r) (disk_rename f (ms_disk (set_refs s r))) else set_refs s r)) as [E1 E2].
  rewrite E1, E2. destruct gone; split; reflexivity.
Qed.
Lemma explicit_unref_vers v s : ms_vers (explicit_unref v s) = ms_vers s /\ ms_cur (explicit_unref v s) = ms_cur s.
Proof.
  unfold explicit_unref. destruct (find_ver s v) as [x|]; [|split; reflexivity]. destruct (v_arc x =? 1)%nat; [apply unref_files_vers|split; reflexivity].
Qed.
Lemma vref_drop_vers v s : ms_vers (vref_drop v s) = filter (fun x => negb (v_arc x =? 0)%nat) (map (dec_arc v) (ms_vers s)) /\
  ms_cur (vref_drop v s) = ms_cur s.
Proof.
  unfold vref_drop. rewrite arc_drop_vers. destruct (explicit_unref_vers v s) as [E1 E2]. rewrite E1. split; [reflexivity|].
  unfold arc_drop. cbn [ms_cur set_vers]. exact E2.
Qed.

Lemma find_filter_map (g : vers -> vers) (p : vers -> bool) n l x :
  (forall y, v_id (g y) = v_id y) -> NoDup (map v_id l) -> In x l -> v_id x = n -> p (g x) = true ->
  find (fun y => N.eqb (v_id y) n) (filter p (map g l)) = Some (g x).
Proof.
  intros Hg. induction l as [|a r IH]; intros Hnd Hin Hid Hp; [destruct Hin|]. cbn [map filter]. cbn [map] in Hnd. inversion Hnd as [|? ? Hn Hr]; subst.
  destruct Hin as [->|Hin].
  - rewrite Hp. cbn [find]. rewrite Hg, N.eqb_refl. reflexivity.
  - assert (v_id a <> v_id x) as Hne by (intros E; apply Hn; rewrite E; now apply in_map).
    destruct (p (g a)); [cbn [find]; rewrite Hg; destruct (N.eqb_spec (v_id a) (v_id x)); [contradiction|]|]; now apply IH.
Qed.

(* dropping a VersionRef does not change the current version's levels *)
Lemma cur_levels_vref_drop s v x : NoDup (map v_id (ms_vers s)) -> In x (ms_vers s) -> v_id x = ms_cur s ->
  (1 <= v_arc x)%nat -> (v = ms_cur s -> 2 <= v_arc x)%nat -> cur_levels (vref_drop v s) = cur_levels s.
Proof.
  intros Hnd Hin Hid H1 H2. unfold cur_levels, find_ver. destruct (vref_drop_vers v s) as [E1 E2]. rewrite E1, E2.
  rewrite (find_filter_map (dec_arc v) _ (ms_cur s) (ms_vers s) x (dec_arc_id v) Hnd Hin Hid).
  - pose proof (find_ver_nodup s (ms_cur s) x Hnd Hin Hid) as Hf. unfold find_ver in Hf. rewrite Hf. unfold dec_arc. destruct (N.eqb (v_id x) v); reflexivity.
  - unfold dec_arc. destruct (N.eqb_spec (v_id x) v) as [E|E]; cbn [v_arc].
    + assert (2 <= v_arc x)%nat by (apply H2; congruence). destruct (v_arc x - 1)%nat eqn:Ea; [lia|reflexivity].
    + destruct (v_arc x) eqn:Ea; [lia|reflexivity].
Qed.

Lemma cur_levels_install_new levels s : InvV (fun _ => 0%nat) s -> cur_levels (install_new levels s) = levels.
Proof.
  intros IV. unfold install_new. cbv zeta.
  set (s1 := set_disk s _). set (old := ms_cur s1). set (s2 := take_snapshot s1).
  (* install_version: the new version is appended and becomes the current one *)
  unfold install_version. cbv zeta. set (nv := mkV (ms_next s2) levels 1).
  set (s3 := explicit_ref (v_files nv) s2).
  set (s4 := mkMS (ms_seq s3) (ms_vis s3) (ms_mem s3) (ms_imm s3) (ms_mts s3) (ms_vers s3 ++ [nv]) (ms_next s3)
                  (ms_refs s3) (ms_disk s3) (ms_cache s3) (ms_scans s3) (ms_next s3 + 1)).
  assert (ms_vers s2 = map (inc_arc (ms_cur s)) (ms_vers s)) as Ev2 by reflexivity.
  assert (ms_vers s3 = ms_vers s2 /\ ms_next s3 = ms_next s /\ ms_cur s3 = ms_cur s) as [Ev3 [En3 Ec3]] by (repeat split).
  assert (NoDup (map v_id (ms_vers s4))) as Hnd4.
  { unfold s4. cbn [ms_vers]. rewrite Ev3, Ev2, map_app, (map_id_same (inc_arc (ms_cur s))) by apply inc_arc_id. cbn [map nv v_id].
    apply NoDup_app_snoc; [exact (b_nodup _ _ IV)|]. intros Hin. apply in_map_iff in Hin. destruct Hin as [w [Ew Hw]]. pose proof (b_fresh _ _ IV w Hw).
    change (ms_next s2) with (ms_next s) in Ew. lia. }
  assert (In nv (ms_vers s4)) as Hin4 by (unfold s4; cbn [ms_vers]; apply in_or_app; right; now left).
  assert (v_id nv = ms_cur s4) as Hid4 by reflexivity.
  assert (ms_cur s4 <> ms_cur s) as Hne.
  { destruct (b_curv _ _ IV) as [w [Hw Ew]]. pose proof (b_fresh _ _ IV w Hw). unfold s4. cbn [ms_cur]. rewrite En3. lia. }
  (* explicit_unref old; arc_drop old *)
  assert (arc_drop (ms_cur s3) (explicit_unref (ms_cur s3) s4) = vref_drop (ms_cur s3) s4) as -> by reflexivity.
  set (s5 := vref_drop (ms_cur s3) s4).
  assert (cur_levels s5 = levels) as E5.
  { unfold s5. rewrite (cur_levels_vref_drop s4 (ms_cur s3) nv Hnd4 Hin4 Hid4); [| cbn; lia | intros E; rewrite Ec3 in E; congruence].
    unfold cur_levels. rewrite (find_ver_nodup s4 (ms_cur s4) nv Hnd4 Hin4 Hid4). reflexivity. }
  (* the snapshot taken across install_version is dropped *)
  destruct (vref_drop_vers (ms_cur s3) s4) as [Ev5 Ec5]. fold s5 in Ev5, Ec5.
  assert (In nv (ms_vers s5)) as Hin5.
  { rewrite Ev5. apply filter_In. split; [|reflexivity]. apply in_map_iff. exists nv. split; [|exact Hin4].
    unfold dec_arc. destruct (N.eqb_spec (v_id nv) (ms_cur s3)) as [E|E]; [|reflexivity]. exfalso. rewrite Ec3 in E. apply Hne. rewrite <- E. reflexivity. }
  assert (NoDup (map v_id (ms_vers s5))) as Hnd5.
  { rewrite Ev5. apply NoDup_filter_map. rewrite map_id_same by apply dec_arc_id. exact Hnd4. }
  rewrite (cur_levels_vref_drop s5 old nv Hnd5 Hin5); [exact E5| | |].
  - rewrite Ec5. exact Hid4.
  - cbn. lia.
  - intros E. exfalso. apply Hne. rewrite <- Ec5, <- E. reflexivity.
Qed.

(* ---------------------------------------------------------------- events that do not change what a scan would be opened on *)
Lemma SI_view s s' : SI s -> ms_vis s' = ms_vis s -> ms_seq s' = ms_seq s -> ms_mem s' = ms_mem s -> ms_imm s' = ms_imm s ->
  cur_levels s' = cur_levels s -> (forall m, In m (open_mems s) -> look_of s' m = look_of s m) -> SI s'.
Proof.
  intros H E1 E2 E3 E4 E5 E6. unfold SI in *. cbv zeta in *.
  assert (open_mems s' = open_mems s) as Eo by (unfold open_mems; now rewrite E3, E4).
  rewrite Eo, E1, E2, E5. rewrite (map_ext_in (look_of s') (look_of s) _ E6). exact H.
Qed.

Lemma fold_upd_imm g ms : forall s, ms_imm (fold_left (fun s m => upd_mt g m s) ms s) = ms_imm s.
Proof. induction ms as [|m ms IH]; intros s; cbn [fold_left]; [reflexivity|]. now rewrite IH. Qed.
Lemma frame_imm s s' : frame s s' -> ms_imm s' = ms_imm s.
Proof. intros [_ [_ [_ [E _]]]]. exact E. Qed.

Section Quiet.
Variable c : cfg.
Hypothesis Hio : cf_iter_owns c = true.
Hypothesis Hhv : cf_holds_ver c = true.

Lemma SI_open s cid lo hi : Inv s -> SI s -> SI (fst (mstep c s (EOpen cid lo hi))).
Proof.
  intros HI HS. cbn [mstep]. destruct (find_scan s cid); [exact HS|]. unfold do_open. cbv zeta.
  set (s2 := fold_left (fun s m => upd_mt mt_add_iter m s) (open_mems s) (take_snapshot s)).
  assert (SI s2) as H2.
  { apply (SI_view s); [exact HS| | | | | |].
    - unfold s2. now rewrite fold_upd_vis.
    - unfold s2. now rewrite fold_upd_seq.
    - unfold s2. now rewrite (proj1 (proj2 (fold_upd_fields mt_add_iter (open_mems s) (take_snapshot s)))).
    - unfold s2. now rewrite fold_upd_imm.
    - transitivity (cur_levels (take_snapshot s)); [|apply cur_levels_arc_add]. apply cur_levels_vers; apply (fold_upd_fields mt_add_iter (open_mems s) (take_snapshot s)).
    - intros m _. unfold s2. rewrite look_of_fold by (intros y; reflexivity). now apply look_of_mts. }
  destruct (freed_any s2 (open_mems s)); [exact H2|].
  destruct (negb (forallb (openable s2) _)); [exact H2|]. cbn [fst]. rewrite Hhv.
  apply (SI_view s2); [exact H2| | | | | |]; destruct (cf_cache c); reflexivity.
Qed.

Lemma SI_stepev s cid o : SI s -> SI (fst (mstep c s (EStep cid o))).
Proof.
  intros HS. cbn [mstep]. destruct (find_scan s cid) as [sc|]; [|exact HS]. unfold do_step. cbv zeta.
  destruct (freed_any s (xmems (sc_x sc))); [exact HS|].
  destruct (negb (forallb (openable s) _)); [exact HS|]. cbn [fst].
  apply (SI_view s); [exact HS| | | | | |]; destruct (cf_cache c); reflexivity.
Qed.

Lemma SI_close s cid : Inv s -> SI s -> SI (fst (mstep c s (EClose cid))).
Proof.
  intros HI HS. cbn [mstep]. destruct (find_scan s cid) as [sc|] eqn:Hfs; [|exact HS]. cbn [fst]. unfold do_close. cbv zeta.
  set (s1 := set_scans s _). set (sF := fold_left (fun s m => upd_mt (mt_drop_iter c) m s) (sc_mems sc) s1).
  assert (ms_vers sF = ms_vers s /\ ms_cur sF = ms_cur s) as [Ev Ec].
  { destruct (fold_upd_fields (mt_drop_iter c) (sc_mems sc) s1) as [_ [_ [A B]]]. cbn zeta in A, B. fold sF in A, B. split; [rewrite A|rewrite B]; reflexivity. }
  assert (SI sF) as HF.
  { apply (SI_view s); [exact HS| | | | | |].
    - unfold sF. now rewrite fold_upd_vis.
    - unfold sF. now rewrite fold_upd_seq.
    - unfold sF. now rewrite (proj1 (proj2 (fold_upd_fields (mt_drop_iter c) (sc_mems sc) s1))).
    - unfold sF. now rewrite fold_upd_imm.
    - now apply cur_levels_vers.
    - intros m _. unfold sF. rewrite look_of_fold; [now apply look_of_mts|intros y; apply (drop_iter_id c)|intros y; apply (drop_iter_ents c)]. }
  destruct (sc_holds sc) eqn:Eh; [|exact HF].
  pose proof (find_scan_in s cid sc Hfs) as [Hsc _]. pose proof (i_v _ HI) as IV.
  destruct (b_curv _ _ IV) as [x [Hx Hidx]]. pose proof (b_arc _ _ IV x Hx) as Harc. rewrite Hidx, N.eqb_refl in Harc. cbn [ind] in Harc.
  destruct (vref_drop_frame (sc_ver sc) sF) as [Fr _].
  apply (SI_view sF); [exact HF|exact (frame_vis _ _ Fr)|exact (frame_seq _ _ Fr)|exact (frame_mem _ _ Fr)|exact (frame_imm _ _ Fr)| |].
  - apply (cur_levels_vref_drop sF (sc_ver sc) x); [rewrite Ev; exact (b_nodup _ _ IV)|rewrite Ev; exact Hx|rewrite Ec; exact Hidx|lia|].
    intros E. rewrite Ec in E. pose proof (ver_cnt_in s sc Hsc Eh) as H1. rewrite E in H1. lia.
  - intros m _. apply frame_look. exact Fr.
Qed.
End Quiet.

(* ---------------------------------------------------------------- events that change the store *)
Lemma in_all_entries ls v e : In e (all_entries ls v) <-> In e (concat ls) \/ In e (file_entries v).
Proof. unfold all_entries, file_entries. rewrite in_app_iff. reflexivity. Qed.

(* entries newer than everything, or at least different from everything, are inserted into one of
   the two memtables a scan would be opened on *)
Lemma SI_grow s s' m0 nw : Inv s -> SI s -> In m0 (open_mems s) ->
  ms_mem s' = ms_mem s -> ms_imm s' = ms_imm s -> cur_levels s' = cur_levels s ->
  ms_vis s <= ms_vis s' -> ms_vis s' <= ms_seq s' -> ms_seq s <= ms_seq s' ->
  look_of s' m0 = ins_all nw (look_of s m0) -> (forall m, In m (open_mems s) -> m <> m0 -> look_of s' m = look_of s m) ->
  distinct nw -> (forall x y, In x nw -> In y (all_entries (map (look_of s) (open_mems s)) (cur_levels s)) -> ~ eeq x y) ->
  (forall e, In e nw -> ets e <= ms_seq s') -> SI s'.
Proof.
  intros HI [Hv [Hls [Hwf [Hd [Hts Hfv]]]]] Hin E3 E4 E5 Hv1 Hv2 Hs1 Em0 Hsame Hdn Hcross Hnts. unfold SI. cbv zeta.
  assert (open_mems s' = open_mems s) as Eo by (unfold open_mems; now rewrite E3, E4). rewrite Eo, E5.
  set (look := look_of s) in *. set (look' := look_of s') in *. set (mids := open_mems s) in *. set (v := cur_levels s) in *.
  pose proof (open_mems_nodup s HI) as Hnd. fold mids in Hnd.
  assert (sorted (look m0)) as Hs0 by (rewrite Forall_forall in Hls; apply Hls; now apply in_map).
  assert (distinct (nw ++ look m0)) as Hdm.
  { apply distinct_app_intro; [exact Hdn|now apply sorted_distinct|]. intros x y Hx Hy. apply Hcross; [exact Hx|]. apply in_all_entries. left.
    apply in_concat. exists (look m0). split; [now apply in_map|exact Hy]. }
  assert (Permutation (concat (map look' mids)) (nw ++ concat (map look mids))) as HPc.
  { set (lk := fun m => if N.eqb m m0 then look' m0 else look m).
    assert (map look' mids = map lk mids) as Emap.
    { apply map_ext_in. intros m Hm. unfold lk. destruct (N.eqb_spec m m0) as [->|Hne]; [reflexivity|now apply Hsame]. }
    rewrite Emap. apply (concat_one_change look lk m0 nw _ Hnd Hin).
    - intros m Hne. unfold lk. destruct (N.eqb_spec m m0); [contradiction|reflexivity].
    - unfold lk. rewrite N.eqb_refl, Em0. apply ins_all_perm. }
  assert (Permutation (all_entries (map look' mids) v) (nw ++ all_entries (map look mids) v)) as HPa.
  { unfold all_entries. rewrite HPc. now rewrite app_assoc. }
  split; [exact Hv2|]. split; [|split; [exact Hwf|split; [|split]]].
  - apply Forall_forall. intros l Hl. apply in_map_iff in Hl. destruct Hl as [m [<- Hm]]. destruct (N.eq_dec m m0) as [->|Hne].
    + rewrite Em0. now apply ins_all_sorted.
    + rewrite (Hsame m Hm Hne). rewrite Forall_forall in Hls. apply Hls. now apply in_map.
  - eapply distinct_perm; [symmetry; exact HPa|]. apply distinct_app_intro; [exact Hdn|exact Hd|exact Hcross].
  - intros e He. apply (Permutation_in _ HPa) in He. apply in_app_or in He. destruct He as [He|He]; [now apply Hnts|]. specialize (Hts e He). lia.
  - intros e He. specialize (Hfv e He). lia.
Qed.

Section Changing.
Variable c : cfg.
Hypothesis Hio : cf_iter_owns c = true.
Hypothesis Hhv : cf_holds_ver c = true.

Lemma open_mems_exist s m : Inv s -> In m (open_mems s) -> exists y, In y (ms_mts s) /\ mt_id y = m.
Proof.
  intros HI Hm. unfold open_mems in Hm. destruct Hm as [<-|Hm]; [exact (a_mem _ (i_a _ HI))|].
  destruct (ms_imm s) as [im|] eqn:E; [|destruct Hm]. destruct Hm as [<-|[]]. exact (proj1 (a_imm _ (i_a _ HI) im E)).
Qed.

Lemma write_fold_vers n b : forall s,
  let s' := fold_left (fun s1 kv => upd_mt (mt_insert (mkE (fst kv) n (snd kv))) (ms_mem s1) s1) b s in
  ms_vers s' = ms_vers s /\ ms_cur s' = ms_cur s.
Proof.
  induction b as [|kv b IH]; intros s; cbn [fold_left]; cbn zeta; [auto|].
  destruct (IH (upd_mt (mt_insert (mkE (fst kv) n (snd kv))) (ms_mem s) s)) as [A B]. cbn zeta in *. auto.
Qed.
Lemma write_fields s b : ms_mem (do_write b s) = ms_mem s /\ ms_imm (do_write b s) = ms_imm s /\ cur_levels (do_write b s) = cur_levels s.
Proof.
  unfold do_write. cbv zeta. destruct (write_fold_fields (ms_seq s + 1) b s) as [_ [A B]]. destruct (write_fold_vers (ms_seq s + 1) b s) as [C D]. cbn zeta in *.
  split; [exact A|]. split; [exact B|]. apply cur_levels_vers; [exact C|exact D].
Qed.

Lemma SI_write s b : Inv s -> SI s -> keys_distinctb (map fst b) = true -> SI (do_write b s).
Proof.
  intros HI HS Hkd. pose proof HS as [Hv [_ [_ [_ [Hts _]]]]].
  assert (ms_vis (do_write b s) = ms_seq s + 1 /\ ms_seq (do_write b s) = ms_seq s + 1) as [Ev Es] by (split; reflexivity).
  destruct (write_fields s b) as [F1 [F2 F3]].
  apply (SI_grow s _ (ms_mem s) (new_ents (ms_seq s + 1) b) HI HS); try assumption.
  - now left.
  - rewrite Ev. lia.
  - rewrite Ev, Es. lia.
  - rewrite Es. lia.
  - rewrite (look_write s b _ (a_mem _ (i_a _ HI))). now rewrite N.eqb_refl.
  - intros m Hm Hne. rewrite (look_write s b m (open_mems_exist s m HI Hm)). destruct (N.eqb_spec m (ms_mem s)); [contradiction|reflexivity].
  - apply new_ents_distinct. now apply keys_distinctb_ok.
  - intros x y Hx Hy He. apply eeq_ts in He. rewrite (new_ents_ts _ _ _ Hx) in He. specialize (Hts y Hy). lia.
  - intros e He. rewrite (new_ents_ts _ _ _ He), Es. lia.
Qed.

Lemma SI_insert s m k n v : Inv s -> SI s -> insert_ok s m k n = true -> SI (upd_mt (mt_insert (mkE k n v)) m s).
Proof.
  intros HI HS Hok. pose proof HS as [Hv [_ [_ [_ [Hts Hfv]]]]].
  unfold insert_ok in Hok. apply andb_prop in Hok. destruct Hok as [Hok Hfresh]. apply andb_prop in Hok. destruct Hok as [Hok Hmt].
  apply andb_prop in Hok. destruct Hok as [Hn1 Hn2]. apply N.ltb_lt in Hn1. apply N.leb_le in Hn2.
  set (s' := upd_mt (mt_insert (mkE k n v)) m s).
  assert (forall m1, m1 <> m -> look_of s' m1 = look_of s m1) as Hother by (intros m1 Hne; apply look_of_upd; [reflexivity|now left]).
  destruct (in_dec N.eq_dec m (open_mems s)) as [Hin|Hnin].
  - apply (SI_grow s s' m [mkE k n v] HI HS Hin); try reflexivity; try (cbn; lia).
    + unfold s'. rewrite look_upd_same by reflexivity. unfold look_of. destruct (find_mt_ex s m (open_mems_exist s m HI Hin)) as [y Hy]. rewrite Hy. reflexivity.
    + intros m1 _ Hne. now apply Hother.
    + constructor; [constructor|constructor].
    + intros x y [<-|[]] Hy. apply in_all_entries in Hy. destruct Hy as [Hy|Hy].
      * apply in_concat in Hy. destruct Hy as [l [Hl Hy]]. apply in_map_iff in Hl. destruct Hl as [m1 [<- _]]. exact (fresh_in_ok s k n Hfresh m1 y v Hy).
      * intros He. apply eeq_ts in He. cbn [ets] in He. specialize (Hfv y Hy). lia.
    + intros e [<-|[]]. cbn. lia.
  - apply (SI_view s); try reflexivity; [exact HS|]. intros m1 Hm1. apply Hother. intros ->. contradiction.
Qed.

Lemma SI_assign s : SI s -> SI (set_seq s (ms_seq s + 1)).
Proof.
  intros [Hv [Hls [Hwf [Hd [Hts Hfv]]]]]. unfold SI. cbv zeta. change (open_mems (set_seq s (ms_seq s + 1))) with (open_mems s).
  change (cur_levels (set_seq s (ms_seq s + 1))) with (cur_levels s).
  rewrite (map_ext (look_of (set_seq s (ms_seq s + 1))) (look_of s)) by reflexivity. cbn [ms_vis ms_seq set_seq].
  split; [lia|]. split; [exact Hls|]. split; [exact Hwf|]. split; [exact Hd|]. split; [intros e He; specialize (Hts e He); lia|exact Hfv].
Qed.
Lemma SI_publish s n : SI s -> ms_vis s < n -> n <= ms_seq s -> SI (set_vis s n).
Proof.
  intros [Hv [Hls [Hwf [Hd [Hts Hfv]]]]] H1 H2. unfold SI. cbv zeta. change (open_mems (set_vis s n)) with (open_mems s).
  change (cur_levels (set_vis s n)) with (cur_levels s).
  rewrite (map_ext (look_of (set_vis s n)) (look_of s)) by reflexivity. cbn [ms_vis ms_seq set_vis].
  split; [lia|]. split; [exact Hls|]. split; [exact Hwf|]. split; [exact Hd|]. split; [exact Hts|intros e He; specialize (Hfv e He); lia].
Qed.

Lemma SI_rollover s : Inv s -> SI s -> ms_imm s = None -> SI (do_rollover s).
Proof.
  intros HI [Hv [Hls [Hwf [Hd [Hts Hfv]]]]] Himm.
  assert (fst (mstep c s ERollover) = do_rollover s) as Est by (cbn [mstep]; now rewrite Himm).
  assert (look_of (do_rollover s) (ms_mem s) = look_of s (ms_mem s)) as Eold.
  { rewrite <- Est. apply look_stable; [exact (a_mem _ (i_a _ HI))|intros b E; discriminate|intros m' k n v E; discriminate]. }
  assert (look_of (do_rollover s) (ms_next s) = []) as Enew.
  { unfold do_rollover. cbv zeta. unfold look_of, find_mt. cbn [ms_mts upd_mt set_mts ms_next].
    rewrite ProofsLeaf.find_app.
    destruct (find (fun x => N.eqb (mt_id x) (ms_next s)) (map (fun x => if N.eqb (mt_id x) (ms_mem s) then mt_add_store 1 x else x) (ms_mts s))) as [z|] eqn:E.
    - exfalso. apply find_some in E. destruct E as [Hz Ez]. apply N.eqb_eq in Ez. apply in_map_iff in Hz. destruct Hz as [y [Ey Hy]].
      pose proof (a_fresh _ (i_a _ HI) y Hy). assert (mt_id z = mt_id y) by (rewrite <- Ey; destruct (N.eqb (mt_id y) (ms_mem s)); reflexivity). lia.
    - cbn [find mt_id]. rewrite N.eqb_refl. reflexivity. }
  unfold SI in *. cbv zeta in *. unfold open_mems in *. rewrite Himm in *.
  assert (ms_mem (do_rollover s) = ms_next s /\ ms_imm (do_rollover s) = Some (ms_mem s) /\ cur_levels (do_rollover s) = cur_levels s /\
          ms_vis (do_rollover s) = ms_vis s /\ ms_seq (do_rollover s) = ms_seq s + 1) as [E1 [E2 [E3 [E4 E5]]]] by (repeat split).
  rewrite E1, E2, E3, E4, E5. cbn [map] in *. rewrite Enew, Eold.
  split; [lia|]. split; [constructor; [constructor|exact Hls]|]. split; [exact Hwf|]. split; [exact Hd|]. split; [|exact Hfv].
  intros e He. specialize (Hts e He). lia.
Qed.

Lemma file_entries_flush fid l v : Permutation (file_entries (match v with [] => [[mkFile fid l]] | l0 :: r => (l0 ++ [mkFile fid l]) :: r end)) (l ++ file_entries v).
Proof.
  unfold file_entries. destruct v as [|l0 r].
  - cbn. rewrite !app_nil_r. reflexivity.
  - cbn [concat]. rewrite !map_app, !concat_app. cbn [map concat f_ents]. rewrite app_nil_r.
    rewrite !app_assoc. apply Permutation_app_tail. apply Permutation_app_comm.
Qed.

Lemma SI_flushdone s fid im : Inv s -> SI s -> ms_imm s = Some im -> flush_okb s = true -> SI (do_flushdone c fid im s).
Proof.
  intros HI [Hv [Hls [[Hf Hl] [Hd [Hts Hfv]]]]] Himm Hok.
  unfold flush_okb in Hok. rewrite Himm in Hok. rewrite forallb_forall in Hok.
  assert (fst (mstep c s (EFlushDone fid)) = do_flushdone c fid im s) as Est by (cbn [mstep]; now rewrite Himm).
  destruct (a_imm _ (i_a _ HI) im Himm) as [Hexi Hne].
  assert (look_of (do_flushdone c fid im s) (ms_mem s) = look_of s (ms_mem s)) as Emem.
  { rewrite <- Est. apply look_stable; [exact (a_mem _ (i_a _ HI))|intros b E; discriminate|intros m' k n v E; discriminate]. }
  set (lv := flush_levels fid im s).
  assert (ms_mem (do_flushdone c fid im s) = ms_mem s /\ ms_imm (do_flushdone c fid im s) = None /\
          ms_vis (do_flushdone c fid im s) = ms_vis s /\ ms_seq (do_flushdone c fid im s) = ms_seq s /\ cur_levels (do_flushdone c fid im s) = lv) as [E1 [E2 [E3 [E4 E5]]]].
  { unfold do_flushdone. cbv zeta. destruct (install_new_frame lv s) as [Fr _]. fold lv.
    split; [rewrite !mem_upd_mt, mem_clear_imm; exact (frame_mem _ _ Fr)|]. split; [reflexivity|].
    split; [rewrite !vis_upd_mt, vis_clear_imm; exact (frame_vis _ _ Fr)|]. split; [rewrite !seq_upd_mt, seq_clear_imm; exact (frame_seq _ _ Fr)|].
    transitivity (cur_levels (install_new lv s)); [apply cur_levels_vers; reflexivity|]. apply cur_levels_install_new. exact (i_v _ HI). }
  unfold SI in *. cbv zeta in *. unfold open_mems in *. rewrite Himm in *. rewrite E1, E2, E3, E4, E5. cbn [map] in *. rewrite Emem.
  set (lm := look_of s (ms_mem s)) in *. set (li := look_of s im) in *. set (v := cur_levels s) in *.
  inversion Hls as [|? ? Hsm Hls']; subst. inversion Hls' as [|? ? Hsi _]; subst.
  assert (Permutation (file_entries lv) (li ++ file_entries v)) as HPf by (unfold lv, flush_levels; fold v li; apply file_entries_flush).
  assert (Permutation (all_entries [lm] lv) (all_entries [lm; li] v)) as HPa.
  { unfold all_entries. cbn [concat]. fold (file_entries lv). fold (file_entries v). rewrite !app_nil_r, HPf. now rewrite app_assoc. }
  split; [exact Hv|]. split; [constructor; [exact Hsm|constructor]|]. split; [|split; [|split]].
  - unfold lv, flush_levels. fold v li. destruct v as [|l0 r]; cbn [concat tl] in *.
    + split; [constructor; [exact Hsi|constructor]|constructor].
    + split; [|exact Hl]. cbn [concat]. rewrite <- app_assoc. cbn [app]. apply Forall_app in Hf. destruct Hf as [Hf0 Hfr]. apply Forall_app. split; [exact Hf0|]. constructor; [exact Hsi|exact Hfr].
  - eapply distinct_perm; [symmetry; exact HPa|exact Hd].
  - intros e He. apply Hts. now apply (Permutation_in _ HPa).
  - intros e He. apply (Permutation_in _ HPf) in He. apply in_app_or in He. destruct He as [He|He]; [apply N.leb_le; now apply Hok|now apply Hfv].
Qed.

Lemma has_kt_ok e l : has_kt e l = true -> exists y, In y l /\ eeq e y.
Proof.
  unfold has_kt. intros H. apply existsb_exists in H. destruct H as [y [Hy He]]. exists y. split; [exact Hy|]. unfold eeq. destruct (ecmp e y); congruence.
Qed.

Lemma SI_install s levels : Inv s -> SI s -> install_okb s levels = true -> SI (install_new levels s).
Proof.
  intros HI [Hv [Hls [Hwf [Hd [Hts Hfv]]]]] Hok. unfold install_okb in Hok. apply andb_prop in Hok. destruct Hok as [Hw Hsub].
  destruct (levels_wfb_ok levels Hw) as [Hwf' Hd']. rewrite forallb_forall in Hsub.
  destruct (install_new_frame levels s) as [Fr _].
  unfold SI in *. cbv zeta in *.
  assert (open_mems (install_new levels s) = open_mems s) as Eo by (unfold open_mems; now rewrite (frame_mem _ _ Fr), (frame_imm _ _ Fr)).
  rewrite Eo, (frame_vis _ _ Fr), (frame_seq _ _ Fr), (cur_levels_install_new levels s (i_v _ HI)).
  rewrite (map_ext (look_of (install_new levels s)) (look_of s)) by (intros m; now apply frame_look).
  set (ls := map (look_of s) (open_mems s)) in *. set (v := cur_levels s) in *.
  assert (forall y, In y (file_entries levels) -> exists y', In y' (file_entries v) /\ eeq y y') as Hsub' by (intros y Hy; apply has_kt_ok; now apply Hsub).
  split; [exact Hv|]. split; [exact Hls|]. split; [exact Hwf'|]. split; [|split].
  - unfold all_entries in *. fold (file_entries levels). fold (file_entries v) in Hd. now apply (distinct_incl_sub _ (file_entries v)).
  - intros e He. apply in_all_entries in He. destruct He as [He|He]; [apply Hts; apply in_all_entries; now left|].
    destruct (Hsub' e He) as [y' [Hy' Hq]]. rewrite (eeq_ts _ _ Hq). apply Hts. apply in_all_entries. now right.
  - intros e He. destruct (Hsub' e He) as [y' [Hy' Hq]]. rewrite (eeq_ts _ _ Hq). now apply Hfv.
Qed.

(* every accepted event *)
Lemma SI_step s e : Inv s -> SI s -> acc_ev s e = true -> SI (fst (mstep c s e)).
Proof.
  intros HI HS Ha. destruct e as [b| |fid|levels|fs|fs|c0 lo0 hi0|c0 o|c0| |m' k n v|n]; cbn [acc_ev] in Ha.
  - cbn [mstep fst]. now apply SI_write.
  - cbn [mstep]. destruct (ms_imm s) eqn:E; cbn [fst]; [exact HS|now apply SI_rollover].
  - cbn [mstep]. destruct (ms_imm s) as [im|] eqn:E; cbn [fst]; [now apply SI_flushdone|exact HS].
  - cbn [mstep fst]. now apply SI_install.
  - cbn [mstep fst]. apply (SI_view s); try reflexivity. exact HS.
  - cbn [mstep fst]. apply (SI_view s); try reflexivity. exact HS.
  - now apply SI_open.
  - now apply SI_stepev.
  - now apply SI_close.
  - cbn [mstep fst]. now apply SI_assign.
  - cbn [mstep]. destruct (insert_ok s m' k n) eqn:E; cbn [fst]; [now apply SI_insert|exact HS].
  - cbn [mstep]. destruct ((ms_vis s <? n) && (n <=? ms_seq s)) eqn:E; cbn [fst]; [|exact HS]. apply andb_prop in E. destruct E as [E1 E2].
    apply N.ltb_lt in E1. apply N.leb_le in E2. now apply SI_publish.
Qed.

Lemma SI_run : forall es s, Inv s -> SI s -> acc_run c s es = true -> SI (fst (mrun c s es)) /\ Inv (fst (mrun c s es)).
Proof.
  induction es as [|e r IH]; intros s HI HS Ha; [split; assumption|]. cbn [acc_run] in Ha. apply andb_prop in Ha. destruct Ha as [Ha1 Ha2].
  cbn [mrun]. pose proof (SI_step s e HI HS Ha1) as HS'. pose proof (proj1 (step_inv c Hio Hhv s e HI)) as HI'.
  destruct (mstep c s e) as [s' o] eqn:E. cbn [fst snd] in *. destruct o as [|ob|er]; cbn [fst].
  - destruct (mrun c s' r) as [s'' os] eqn:Er. specialize (IH s' HI' HS' Ha2). rewrite Er in IH. exact IH.
  - destruct (mrun c s' r) as [s'' os] eqn:Er. specialize (IH s' HI' HS' Ha2). rewrite Er in IH. exact IH.
  - split; assumption.
Qed.
End Changing.

Lemma SI_init seq : SI (minit seq).
Proof.
  unfold SI. cbv zeta. assert (cur_levels (minit seq) = repeat [] (N.to_nat Gen.Const_Snap.SNAP_NUM_LEVELS)) as E by reflexivity. rewrite E.
  assert (map (look_of (minit seq)) (open_mems (minit seq)) = [[]]) as -> by reflexivity.
  assert (forall n, concat (repeat (@nil file) n) = []) as Hc by (induction n; [reflexivity|exact IHn]).
  assert (all_entries [[]] (repeat [] (N.to_nat Gen.Const_Snap.SNAP_NUM_LEVELS)) = []) as Ea by (unfold all_entries; now rewrite Hc).
  assert (file_entries (repeat [] (N.to_nat Gen.Const_Snap.SNAP_NUM_LEVELS)) = []) as Ef by (unfold file_entries; now rewrite Hc).
  rewrite Ea, Ef. split; [cbn; lia|]. split; [constructor; [constructor|constructor]|]. split; [|split; [constructor|split; intros e []]].
  split; [rewrite Hc; constructor|]. apply Forall_forall. intros lv Hlv.
  assert (lv = []) as -> by (clear -Hlv; induction (N.to_nat Gen.Const_Snap.SNAP_NUM_LEVELS) as [|n IH]; [destruct Hlv|]; destruct n; cbn in *; [destruct Hlv|]; destruct Hlv as [<-|H]; [reflexivity|apply IH; exact H]).
  constructor.
Qed.

(* ---------------------------------------------------------------- the statement for every state an accepted history reaches *)
Theorem snapshot_stable_accepted c seq es1 cid lo hi es2 : cf_iter_owns c = true -> cf_holds_ver c = true ->
  acc_run c (minit seq) es1 = true ->
  let s1 := fst (mrun c (minit seq) es1) in
  find_scan s1 cid = None -> forallb (held_ok cid) es2 = true -> fuel_enoughb c s1 es2 = true ->
  Forall no_err (snd (mrun c s1 (EOpen cid lo hi :: es2))) ->
  cursor_trace cid (EOpen cid lo hi :: es2) (snd (mrun c s1 (EOpen cid lo hi :: es2))) = ref_trace (scan_spec s1 lo hi) (-1) cid es2.
Proof.
  intros Hio Hhv Hacc s1 Hfs Hok Hfb Hne.
  destruct (SI_run c Hio Hhv es1 (minit seq) (init_inv seq) (SI_init seq) Hacc) as [HS HI]. fold s1 in HS, HI.
  destruct (SI_scan_wf s1 lo hi HS) as [Hwf Hd].
  apply (snapshot_stable_P c cid lo hi s1 es2 Hio Hhv HI Hfs Hwf Hd (SI_open_tsb s1 HS) Hok Hfb Hne).
Qed.
