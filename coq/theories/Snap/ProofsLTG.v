(* Snap/ProofsLTG.v — the machine-level statement: a scan cursor held while the store moves — writes
   into the very memtables it iterates included — keeps returning the contents of scan-open time.
   Glue between the machine (Model.mstep) and the cursor-level invariant of ProofsLTS:
   a write puts entries with a fresh sequence number, newer than the cursor's snapshot, into the
   active memtable (the list `grows`); every other event leaves the cursor's lists alone
   (ProofsStable.look_stable); a call of the cursor first shows the wrappers the lists as they
   are now (top_refresh2) and then steps (top_step). *)
From Coq Require Import NArith ZArith List Bool Arith Lia Permutation.
From Blue Require Import Cursor.Iface Cursor.Ref Cursor.Lazy Cursor.Bounds Cursor.Pruning Cursor.Concat Cursor.Merging
  Cursor.Spec Cursor.Proofs_Order Cursor.Proofs_Ref Cursor.Proofs_Spec Cursor.Proofs_Merging
  Snap.Model Snap.ProofsPres Snap.ProofsSafe Snap.ProofsLeaf Snap.ProofsScan Snap.ProofsGrow Snap.ProofsSpec Snap.ProofsStable
  Snap.ProofsLT Snap.ProofsLTP Snap.ProofsLTK Snap.ProofsLTB Snap.ProofsLTS Snap.ProofsLTG0.
Import ListNotations.
Local Open Scope Z_scope.

(* ---------------------------------------------------------------- the lists under the children, by memtable *)
Lemma xtabs_of_refresh look u : xtabs look (xrefresh look u).
Proof.
  revert u. fix IH 1. intros u.
  destruct u as [m g|f mk s|[fw kids]|[kids pos fl]|lo hi [cur pos fl]|t [cur sk fl]]; cbn [xtabs xrefresh].
  - reflexivity.
  - exact I.
  - induction kids as [|k r IHr]; cbn [map]; [exact I|]. split; [apply IH|exact IHr].
  - induction kids as [|k r IHr]; cbn [map]; [exact I|]. split; [apply IH|exact IHr].
  - apply IH.
  - apply IH.
Qed.

Fixpoint lsum (ls : list (list entry)) : Z := match ls with [] => 0 | l :: r => (len l + 2) + lsum r end.
Lemma lsum_perm ls ls' : Permutation ls ls' -> lsum ls = lsum ls'.
Proof. induction 1; cbn [lsum]; lia. Qed.
Lemma lsum_app l1 l2 : lsum (l1 ++ l2) = lsum l1 + lsum l2.
Proof. induction l1 as [|a r IH]; cbn [app lsum]; [reflexivity|]. rewrite IH. lia. Qed.
Lemma usum_lsum {S} (U : S -> list entry) kids : usum U kids = lsum (map U kids).
Proof. induction kids as [|s r IH]; cbn [usum lsum map]; [reflexivity|]. now rewrite IH. Qed.

Section Tables.
Variables (fuel : nat) (lo hi : bound) (t : N) (V : list entry).
Definition tbl (look : N -> list entry) (id : option N) : list entry := match id with Some m => look m | None => V end.

Lemma noG_kid_id k : noG k -> kid_id k = None.
Proof.
  intros H. destruct k as [m g|f mk s|s|s|lo0 hi0 [cur pos fl]|t0 s]; try reflexivity. destruct cur as [m g| | | | |]; try reflexivity.
  exfalso. specialize (H (fun _ => dflt_entry :: g_tab g)). cbn [xtabs] in H.
  assert (length (g_tab g) = length (dflt_entry :: g_tab g)) as E by (now rewrite <- H). cbn in E. lia.
Qed.

Lemma Uof_refresh look k : (exists d md0, Kd (KX fuel lo hi t V) md0 k d) ->
  Uof V (xrefresh look k) = tbl look (kid_id k).
Proof.
  intros [d [md0 [[m [st [-> [_ HM]]]]|[_ [_ [HG _]]]]]].
  - destruct HM as [_ [_ [_ [gp [Hc _]]]]]. destruct st as [cur pos fl]. cbn [b_cur] in Hc. subst cur. reflexivity.
  - rewrite (noG_refresh look k HG), (noG_kid_id k HG). cbn [tbl]. now apply noG_Uof.
Qed.

Lemma tables_perm look kids mids : (forall k, In k kids -> exists d md0, Kd (KX fuel lo hi t V) md0 k d) ->
  Permutation (map kid_id kids) (map Some mids ++ [None]) ->
  Permutation (map (Uof V) (map (xrefresh look) kids)) (map look mids ++ [V]).
Proof.
  intros HK HP. rewrite map_map. rewrite (map_ext_in _ (fun k => tbl look (kid_id k))) by (intros k Hk; apply Uof_refresh; now apply HK).
  rewrite <- (map_map kid_id (tbl look)). rewrite (Permutation_map (tbl look) HP). rewrite map_app, map_map. reflexivity.
Qed.

(* a child over memtable m shows the list `look m` once the state has been refreshed with `look` *)
Lemma xtabs_top_kids look x : xtabs look x -> forall k, In k (top_kids x) -> forall m tab gp pos fl,
  k = XB lo hi (mkB (XG m (mkG tab gp)) pos fl) -> tab = look m.
Proof.
  intros H k Hk m tab gp pos fl ->.
  destruct x as [m0 g|f mk s|s|s|lo0 hi0 [cur pos0 fl0]|t0 s]; try destruct Hk. destruct cur as [| | | | |t1 [u sk f]]; try destruct Hk.
  destruct u as [| |s| | |]; try destruct Hk. cbn [top_kids] in Hk.
  apply xtabs_XB in H. cbn [b_cur] in H. apply xtabs_XP in H. cbn [p_cur] in H. apply xtabs_XM in H. rewrite Forall_forall in H.
  specialize (H _ Hk). cbn [xtabs g_tab] in H. exact H.
Qed.
End Tables.

Lemma lsum_nonneg ls : 0 <= lsum ls.
Proof. induction ls as [|l r IH]; cbn [lsum]; [lia|]. pose proof (len_nonneg l). lia. Qed.
Lemma lsum_in l ls : In l ls -> len l + 2 <= lsum ls.
Proof.
  induction ls as [|a r IH]; [intros []|]. cbn [lsum]. intros [->|H]; [pose proof (lsum_nonneg r); lia|].
  specialize (IH H). pose proof (len_nonneg a). lia.
Qed.

Lemma concat_one_change (look look' : N -> list entry) (m0 : N) (nw : list entry) mids :
  NoDup mids -> In m0 mids -> (forall m, m <> m0 -> look' m = look m) -> Permutation (look' m0) (nw ++ look m0) ->
  Permutation (concat (map look' mids)) (nw ++ concat (map look mids)).
Proof.
  intros Hnd Hin Hsame Hp. induction mids as [|m r IH]; [destruct Hin|]. inversion Hnd as [|? ? Hn Hr]; subst. cbn [map concat].
  destruct (N.eq_dec m m0) as [->|Hne].
  - rewrite Hp. rewrite (map_ext_in look' look r); [now rewrite app_assoc|]. intros x Hx. apply Hsame. intros ->. contradiction.
  - destruct Hin as [->|Hin]; [congruence|]. rewrite (Hsame m Hne), (IH Hr Hin). rewrite !app_assoc. apply Permutation_app_tail. apply Permutation_app_comm.
Qed.
Lemma lsum_one_change (look look' : N -> list entry) (m0 : N) (k : Z) mids :
  NoDup mids -> In m0 mids -> (forall m, m <> m0 -> look' m = look m) -> len (look' m0) = k + len (look m0) ->
  lsum (map look' mids) = lsum (map look mids) + k.
Proof.
  intros Hnd Hin Hsame Hl. induction mids as [|m r IH]; [destruct Hin|]. inversion Hnd as [|? ? Hn Hr]; subst. cbn [map lsum].
  destruct (N.eq_dec m m0) as [->|Hne].
  - rewrite Hl. rewrite (map_ext_in look' look r); [lia|]. intros x Hx. apply Hsame. intros ->. contradiction.
  - destruct Hin as [->|Hin]; [congruence|]. rewrite (Hsame m Hne), (IH Hr Hin). lia.
Qed.

(* ---------------------------------------------------------------- the held cursor, writes included *)
Lemma keys_distinctb_ok l : keys_distinctb l = true -> NoDup l.
Proof.
  induction l as [|k r IH]; [constructor|]. cbn [keys_distinctb]. intros H. apply andb_prop in H. destruct H as [H1 H2].
  constructor; [|now apply IH]. intros Hin. apply negb_true_iff in H1.
  assert (existsb (keqb k) r = true) as E by (apply existsb_exists; exists k; split; [exact Hin|destruct (keqb_spec k k); [reflexivity|congruence]]).
  congruence.
Qed.

Notation okev := held_ok.
Lemma wlen_nonneg e : 0 <= wlen e.
Proof. destruct e; cbn; try lia. apply len_nonneg. Qed.
Lemma pending_nonneg es : 0 <= pending es.
Proof. induction es as [|e r IH]; cbn [pending]; [lia|]. pose proof (wlen_nonneg e). lia. Qed.

Section Held2.
Variable c : cfg.
Hypothesis Hio : cf_iter_owns c = true.
Hypothesis Hhv : cf_holds_ver c = true.
Variables (cid : N) (lo hi : bound) (t : N) (V O : list entry) (T0 : Z).
Hypothesis HsV : sorted V.
Hypothesis HsO : sorted O.
Hypothesis HoldO : forall e, In e O -> (ets e <= t)%N.
Notation fuel := (cf_fuel c).
Hypothesis Hfuel1 : Z.of_nat fuel > (2 * len O + 2) * (Z.of_nat (Bnd_m T0) + 2).
Hypothesis Hfuel2 : Z.of_nat fuel >= len (prune_spec t O) + 2.

Notation TI := (TopI fuel lo hi t V O T0).
Notation L := (bounds_spec lo hi (prune_spec t O)).
Definition tabs (s : machine) (mids : list N) : list (list entry) := map (look_of s) mids ++ [V].

Definition CI2 (s : machine) (P : Z) (pend : Z) : Prop :=
  Inv s /\ ((t <= ms_vis s)%N /\ (ms_vis s <= ms_seq s)%N /\ forall e, In e V -> (ets e <= t)%N) /\
  exists sc, find_scan s cid = Some sc /\ NoDup (sc_mems sc) /\
    TI (sc_x sc) P /\ ids5 (map Some (sc_mems sc) ++ [None]) (sc_x sc) /\
    (forall k, In k (top_kids (sc_x sc)) -> forall m tab gp pos fl,
       k = XB lo hi (mkB (XG m (mkG tab gp)) pos fl) -> grows t tab (look_of s m)) /\
    (forall m, In m (sc_mems sc) -> sorted (look_of s m)) /\
    distinct (concat (tabs s (sc_mems sc))) /\
    (forall e, In e (concat (tabs s (sc_mems sc))) -> (ets e <= ms_seq s)%N) /\
    lsum (tabs s (sc_mems sc)) + pend <= T0 /\ 0 <= pend.

Lemma fuel_T0 : 0 <= T0 -> Z.of_nat fuel > T0 + 2.
Proof. intros H. pose proof (len_nonneg O). unfold Bnd_m in Hfuel1. nia. Qed.

(* a kid over memtable m: m is one of the cursor's memtables *)
Lemma kid_mid x mids k m tab gp pos fl : ids5 (map Some mids ++ [None]) x -> In k (top_kids x) ->
  k = XB lo hi (mkB (XG m (mkG tab gp)) pos fl) -> In m mids.
Proof.
  intros Hids Hk ->. pose proof (ids5_kids _ _ Hids) as HP.
  assert (In (Some m) (map kid_id (top_kids x))) as Hin by (apply in_map_iff; eexists; split; [|exact Hk]; reflexivity).
  apply (Permutation_in _ HP) in Hin. apply in_app_or in Hin. destruct Hin as [Hin|[Hin|[]]]; [|discriminate].
  apply in_map_iff in Hin. destruct Hin as [m' [E Hm]]. now injection E as ->.
Qed.

(* an event that changes none of the cursor's lists, nor its record *)
Lemma CI2_same s s' P pend : CI2 s P pend -> Inv s' -> (ms_seq s <= ms_seq s')%N ->
  ((ms_vis s <= ms_vis s')%N /\ (ms_vis s' <= ms_seq s')%N) -> find_scan s' cid = find_scan s cid ->
  (forall sc, find_scan s cid = Some sc -> forall m, In m (sc_mems sc) -> look_of s' m = look_of s m) -> CI2 s' P pend.
Proof.
  intros [HI [[Ht [Hvs HtV]] [sc [Hfs [Hnd [HT [Hids [Hg [Hso [Hd [Hts [Hsz Hp]]]]]]]]]]]] HI' Hseq [Hv1 Hv2] Efs Hlook.
  specialize (Hlook sc Hfs).
  assert (tabs s' (sc_mems sc) = tabs s (sc_mems sc)) as Et by (unfold tabs; f_equal; apply map_ext_in; exact Hlook).
  split; [exact HI'|]. split; [split; [lia|split; [exact Hv2|exact HtV]]|]. exists sc. rewrite Efs, Et. split; [exact Hfs|]. split; [exact Hnd|]. split; [exact HT|]. split; [exact Hids|].
  split; [|split; [|split; [exact Hd|split; [|auto]]]].
  - intros k Hk m tab gp pos fl Ek. rewrite (Hlook m (kid_mid _ _ _ _ _ _ _ _ Hids Hk Ek)). now apply (Hg k Hk m tab gp pos fl).
  - intros m Hm. rewrite (Hlook m Hm). now apply Hso.
  - intros e He. specialize (Hts e He). lia.
Qed.

(* entries newer than the snapshot, and different from everything the cursor holds, are inserted into
   one of its memtables *)
Lemma ins_grows l nw : sorted l -> distinct (nw ++ l) -> (forall e, In e nw -> (t < ets e)%N) ->
  grows t l (ins_all nw l) /\ (forall e, In e (ins_all nw l) <-> In e nw \/ In e l).
Proof.
  intros Hs Hd Hl.
  assert (forall e, In e (ins_all nw l) <-> In e nw \/ In e l) as Hmem.
  { intros e. split; intros H.
    - apply (Permutation_in _ (ins_all_perm _ _)) in H. now apply in_app_or in H.
    - apply (Permutation_in _ (Permutation_sym (ins_all_perm _ _))). now apply in_or_app. }
  split; [|exact Hmem]. split; [now apply ins_all_sorted|]. split.
  - intros x Hx. apply Hmem. now right.
  - intros x Hx. apply Hmem in Hx. destruct Hx as [Hx|Hx]; [right; now apply Hl|now left].
Qed.

Lemma CI2_grow s s' P pend m0 nw : CI2 s P pend -> Inv s' -> (ms_seq s <= ms_seq s')%N ->
  ((ms_vis s <= ms_vis s')%N /\ (ms_vis s' <= ms_seq s')%N) -> find_scan s' cid = find_scan s cid ->
  (forall sc, find_scan s cid = Some sc -> In m0 (sc_mems sc) /\
     (forall m, In m (sc_mems sc) -> m <> m0 -> look_of s' m = look_of s m) /\
     (forall x y, In x nw -> In y (concat (tabs s (sc_mems sc))) -> ~ eeq x y)) ->
  look_of s' m0 = ins_all nw (look_of s m0) -> distinct nw ->
  (forall e, In e nw -> (t < ets e)%N /\ (ets e <= ms_seq s')%N) -> len nw <= pend ->
  CI2 s' P (pend - len nw).
Proof.
  intros HC HI' Hseq [Hv1 Hv2] Efs Hsc Em0 Hdn Hnw Hlen.
  pose proof HC as [HI [[Ht [Hvs HtV]] [sc [Hfs [Hnd [HT [Hids [Hg [Hso [Hd [Hts [Hsz Hp]]]]]]]]]]]].
  destruct (Hsc sc Hfs) as [Hin [Hsame Hcross]]. pose proof (len_nonneg nw) as Hn0.
  set (look := look_of s) in *. set (look' := look_of s') in *.
  assert (distinct (nw ++ look m0)) as Hdm.
  { apply distinct_app_intro; [exact Hdn|apply sorted_distinct; now apply Hso|]. intros x y Hx Hy. apply Hcross; [exact Hx|].
    unfold tabs. rewrite concat_app. apply in_or_app. left. apply in_concat. exists (look m0). split; [now apply in_map|exact Hy]. }
  destruct (ins_grows (look m0) nw (Hso m0 Hin) Hdm (fun e He => proj1 (Hnw e He))) as [Hgr Hmem]. rewrite <- Em0 in Hgr, Hmem.
  assert (Permutation (concat (map look' (sc_mems sc))) (nw ++ concat (map look (sc_mems sc))) /\
          lsum (map look' (sc_mems sc)) = lsum (map look (sc_mems sc)) + len nw) as [HPc Hls].
  { set (lk := fun m => if N.eqb m m0 then look' m0 else look m).
    assert (map look' (sc_mems sc) = map lk (sc_mems sc)) as Emap.
    { apply map_ext_in. intros m Hm. unfold lk. destruct (N.eqb_spec m m0) as [->|Hne]; [reflexivity|now apply Hsame]. }
    rewrite Emap. split.
    - apply (concat_one_change look lk m0 nw _ Hnd Hin).
      + intros m Hne. unfold lk. destruct (N.eqb_spec m m0); [contradiction|reflexivity].
      + unfold lk. rewrite N.eqb_refl, Em0. apply ins_all_perm.
    - apply (lsum_one_change look lk m0 (len nw) _ Hnd Hin).
      + intros m Hne. unfold lk. destruct (N.eqb_spec m m0); [contradiction|reflexivity].
      + unfold lk. rewrite N.eqb_refl, Em0, len_ins_all. reflexivity. }
  split; [exact HI'|]. split; [split; [lia|split; [exact Hv2|exact HtV]]|]. exists sc. rewrite Efs. split; [exact Hfs|]. split; [exact Hnd|]. split; [exact HT|]. split; [exact Hids|].
  unfold tabs in *. fold look look' in Hd, Hts, Hsz, Hcross |- *.
  split; [|split; [|split; [|split; [|split]]]].
  - intros k Hk m tab gp pos fl Ek. pose proof (kid_mid _ _ _ _ _ _ _ _ Hids Hk Ek) as Hm. pose proof (Hg k Hk m tab gp pos fl Ek) as Hg0. fold look in Hg0.
    fold look'. destruct (N.eq_dec m m0) as [->|Hne]; [eapply grows_trans; eauto|rewrite (Hsame m Hm Hne); exact Hg0].
  - intros m Hm. fold look'. destruct (N.eq_dec m m0) as [->|Hne]; [exact (proj1 Hgr)|rewrite (Hsame m Hm Hne); now apply Hso].
  - rewrite concat_app. eapply distinct_perm; [symmetry; apply Permutation_app_tail; exact HPc|]. rewrite <- app_assoc, <- concat_app.
    apply distinct_app_intro; [exact Hdn|exact Hd|]. intros x y Hx Hy. now apply Hcross.
  - intros e He. rewrite concat_app in He. apply in_app_or in He. destruct He as [He|He].
    + apply (Permutation_in _ HPc) in He. apply in_app_or in He. destruct He as [He|He]; [exact (proj2 (Hnw e He))|].
      assert (ets e <= ms_seq s)%N; [|lia]. apply Hts. rewrite concat_app. apply in_or_app. now left.
    + assert (ets e <= ms_seq s)%N; [|lia]. apply Hts. rewrite concat_app. apply in_or_app. now right.
  - rewrite lsum_app in *. rewrite Hls. lia.
  - lia.
Qed.

(* a write *)
Lemma CI2_write s P pend b : CI2 s P pend -> keys_distinctb (map fst b) = true -> len b <= pend ->
  CI2 (do_write b s) P (pend - len b).
Proof.
  intros HC Hkd Hlen. pose proof HC as [HI [[Ht [Hvs HtV]] [sc [Hfs [Hnd [HT [Hids [Hg [Hso [Hd [Hts [Hsz Hp]]]]]]]]]]]].
  assert (Inv (do_write b s)) as HI' by exact (proj1 (step_inv c Hio Hhv s (EWrite b) HI)).
  assert (ms_seq (do_write b s) = (ms_seq s + 1)%N /\ ms_vis (do_write b s) = (ms_seq s + 1)%N) as [Eseq Evis] by (split; reflexivity).
  assert (find_scan (do_write b s) cid = find_scan s cid) as Efs by exact (scan_frame c s (EWrite b) cid eq_refl).
  pose proof (find_scan_in s cid sc Hfs) as [Hsc _].
  assert (forall m, In m (sc_mems sc) -> exists y, In y (ms_mts s) /\ mt_id y = m) as Hex by (intros m Hm; exact (a_sc _ (i_a _ HI) sc Hsc m Hm)).
  pose proof (len_nonneg b) as Hb0.
  destruct (in_dec N.eq_dec (ms_mem s) (sc_mems sc)) as [Hin|Hnin].
  2:{ (* the active memtable is not one of the cursor's *)
    assert (CI2 (do_write b s) P pend) as H.
    { apply (CI2_same s); auto; [lia|lia|]. intros sc' Hfs' m Hm. rewrite Hfs in Hfs'. injection Hfs' as <-.
      rewrite (look_write s b m (Hex m Hm)). destruct (N.eqb_spec m (ms_mem s)) as [->|]; [contradiction|reflexivity]. }
    destruct H as [A [B [sc' [C [D [E [F [G [H [I0 [J [K Lp]]]]]]]]]]]]. split; [exact A|]. split; [exact B|]. exists sc'. repeat (split; [assumption|]). lia. }
  set (n := (ms_seq s + 1)%N) in *.
  replace (len b) with (len (new_ents n b)) by (unfold new_ents, len; now rewrite map_length).
  apply (CI2_grow s _ P pend (ms_mem s) (new_ents n b)); auto; try lia.
  - intros sc' Hfs'. rewrite Hfs in Hfs'. injection Hfs' as <-. split; [exact Hin|]. split.
    + intros m Hm Hne. rewrite (look_write s b m (Hex m Hm)). destruct (N.eqb_spec m (ms_mem s)); [contradiction|reflexivity].
    + intros x y Hx Hy He. apply eeq_ts in He. rewrite (new_ents_ts _ _ _ Hx) in He. specialize (Hts y Hy). unfold n in He. lia.
  - rewrite (look_write s b _ (Hex _ Hin)). now rewrite N.eqb_refl.
  - apply new_ents_distinct. now apply keys_distinctb_ok.
  - intros e He. rewrite (new_ents_ts _ _ _ He), Eseq. unfold n. lia.
  - unfold new_ents, len. rewrite map_length. exact Hlen.
Qed.

(* one entry of a write in flight is inserted *)
Lemma fresh_in_ok s k n : fresh_in s k n = true -> forall m e v, In e (look_of s m) -> ~ eeq (mkE k n v) e.
Proof.
  intros Hf m e v He Hq. unfold look_of in He. destruct (find_mt s m) as [y|] eqn:E; [|destruct He].
  destruct (find_mt_in s m y E) as [Hy _]. unfold fresh_in in Hf. rewrite forallb_forall in Hf. specialize (Hf y Hy).
  rewrite forallb_forall in Hf. specialize (Hf e He). apply negb_true_iff in Hf.
  pose proof (eeq_key _ _ Hq) as Hk. pose proof (eeq_ts _ _ Hq) as Ht. cbn [ek ets] in Hk, Ht.
  rewrite <- Hk, <- Ht, N.eqb_refl in Hf. destruct (keqb_spec k k); [discriminate|congruence].
Qed.

Lemma CI2_insert s P pend m k n v : CI2 s P pend -> insert_ok s m k n = true -> 1 <= pend ->
  CI2 (upd_mt (mt_insert (mkE k n v)) m s) P (pend - 1).
Proof.
  intros HC Hok Hlen. pose proof HC as [HI [[Ht [Hvs HtV]] [sc [Hfs [Hnd [HT [Hids [Hg [Hso [Hd [Hts [Hsz Hp]]]]]]]]]]]].
  unfold insert_ok in Hok. apply andb_prop in Hok. destruct Hok as [Hok Hfresh]. apply andb_prop in Hok. destruct Hok as [Hok Hmt].
  apply andb_prop in Hok. destruct Hok as [Hn1 Hn2]. apply N.ltb_lt in Hn1. apply N.leb_le in Hn2.
  set (s' := upd_mt (mt_insert (mkE k n v)) m s).
  assert (fst (mstep c s (EInsert m k n v)) = s') as Es'.
  { cbn [mstep]. unfold insert_ok. apply N.ltb_lt in Hn1. apply N.leb_le in Hn2. now rewrite Hn1, Hn2, Hmt, Hfresh. }
  assert (Inv s') as HI' by (rewrite <- Es'; exact (proj1 (step_inv c Hio Hhv s _ HI))).
  pose proof (find_scan_in s cid sc Hfs) as [Hsc _].
  assert (forall m1, In m1 (sc_mems sc) -> exists y, In y (ms_mts s) /\ mt_id y = m1) as Hex by (intros m1 Hm; exact (a_sc _ (i_a _ HI) sc Hsc m1 Hm)).
  assert (forall m1, m1 <> m -> look_of s' m1 = look_of s m1) as Hother by (intros m1 Hne; apply look_of_upd; [reflexivity|now left]).
  destruct (in_dec N.eq_dec m (sc_mems sc)) as [Hin|Hnin].
  2:{ assert (CI2 s' P pend) as H.
      { apply (CI2_same s); auto; [unfold s'; cbn; lia|unfold s'; cbn; lia|]. intros sc' Hfs' m1 Hm. rewrite Hfs in Hfs'. injection Hfs' as <-.
        apply Hother. intros ->. contradiction. }
      destruct H as [A [B [sc' [C [D [E [F [G [H [I0 [J [K Lp]]]]]]]]]]]]. split; [exact A|]. split; [exact B|]. exists sc'. repeat (split; [assumption|]). lia. }
  change 1 with (len [mkE k n v]).
  apply (CI2_grow s s' P pend m [mkE k n v]); auto.
  - unfold s'. cbn. lia.
  - unfold s'. cbn. lia.
  - intros sc' Hfs'. rewrite Hfs in Hfs'. injection Hfs' as <-. split; [exact Hin|]. split; [intros m1 _ Hne; now apply Hother|].
    intros x y [<-|[]] Hy. unfold tabs in Hy. rewrite concat_app in Hy. apply in_app_or in Hy. destruct Hy as [Hy|Hy].
    + apply in_concat in Hy. destruct Hy as [l [Hl Hy]]. apply in_map_iff in Hl. destruct Hl as [m1 [<- _]]. exact (fresh_in_ok s k n Hfresh m1 y v Hy).
    + cbn [concat] in Hy. rewrite app_nil_r in Hy. intros He. apply eeq_ts in He. cbn [ets] in He. specialize (HtV y Hy). lia.
  - unfold s'. rewrite look_upd_same by reflexivity. unfold look_of. destruct (find_mt_ex s m (Hex m Hin)) as [y Hy]. rewrite Hy. reflexivity.
  - constructor; [constructor|constructor].
  - intros e [<-|[]]. cbn [ets]. unfold s'. cbn [ms_seq upd_mt set_mts]. lia.
Qed.

(* a call of the held cursor *)
Lemma CI2_call s P pend o : CI2 s P pend -> 0 <= T0 -> no_err (snd (mstep c s (EStep cid o))) ->
  CI2 (fst (mstep c s (EStep cid o))) (step (ref L) o P) pend /\
  snd (mstep c s (EStep cid o)) = OObs (observe (ref L) (step (ref L) o P)).
Proof.
  intros HC HT0 Hne. pose proof HC as [HI [Ht [sc [Hfs [Hnd [HT [Hids [Hg [Hso [Hd [Hts [Hsz Hp]]]]]]]]]]]].
  destruct (step_inv c Hio Hhv s (EStep cid o) HI) as [HI' _].
  cbn [mstep] in *. rewrite Hfs in *. unfold do_step in *. cbv zeta in *.
  destruct (freed_any s (xmems (sc_x sc))); [destruct Hne|].
  set (look := look_of s) in *. set (x := sc_x sc) in *.
  pose proof fuel_T0 HT0 as Hfu.
  pose proof (top_kids_K fuel lo hi t V HsV O HsO HoldO T0 x P HT) as HK.
  pose proof (ids5_kids _ _ Hids) as HPids.
  pose proof (tables_perm fuel lo hi t V look (top_kids x) (sc_mems sc) HK HPids) as HPt.
  (* the wrappers are shown the lists as they are now *)
  destruct (top_refresh2 fuel lo hi t V HsV O HsO HoldO T0 Hfuel1 Hfuel2 look x P HT) as [HT1 _].
  { intros k Hk m tab gp pos fl Ek. split; [exact (Hg k Hk m tab gp pos fl Ek)|].
    pose proof (kid_mid _ _ _ _ _ _ _ _ Hids Hk Ek) as Hm.
    assert (len (look m) + 2 <= lsum (tabs s (sc_mems sc))) by (apply lsum_in; unfold tabs; apply in_or_app; left; fold look; now apply in_map). lia. }
  { eapply distinct_perm; [symmetry; apply Permutation_concat; exact HPt|exact Hd]. }
  { rewrite usum_lsum, (lsum_perm _ _ HPt). unfold tabs in Hsz. fold look in Hsz. lia. }
  (* then the call *)
  set (x1 := xrefresh look x) in *. set (x' := scan_step fuel o x1) in *.
  pose proof (top_step fuel lo hi t V HsV O HsO HoldO T0 Hfuel1 Hfuel2 o x1 P HT1) as HT2. change (step (xcur fuel 5) o x1) with x' in HT2.
  destruct (negb (forallb (openable s) (opened_between x x'))); [destruct Hne|]. cbn [fst snd] in *.
  split.
  - set (s1 := if cf_cache c then set_cache s (opened_between x x' ++ ms_cache s) else s) in *.
    assert (forall m, look_of (put_scan cid sc x' s1) m = look m) as Hlk by (intros m; apply look_of_mts; unfold s1; destruct (cf_cache c); reflexivity).
    assert (ms_seq (put_scan cid sc x' s1) = ms_seq s) as Eseq by (unfold s1; destruct (cf_cache c); reflexivity).
    assert (ms_vis (put_scan cid sc x' s1) = ms_vis s) as Evis by (unfold s1; destruct (cf_cache c); reflexivity).
    split; [exact HI'|]. split; [rewrite Eseq, Evis; exact Ht|]. eexists. split; [apply find_put_scan; unfold s1; destruct (cf_cache c); exact Hfs|].
    cbn [sc_x sc_mems]. unfold tabs. rewrite (map_ext _ look) by exact Hlk. fold (tabs s (sc_mems sc)). rewrite Eseq.
    assert (ids5 (map Some (sc_mems sc) ++ [None]) x') as Hids' by (apply (ids5_closed fuel _ o); now apply ids5_refresh).
    split; [exact Hnd|]. split; [exact HT2|]. split; [exact Hids'|]. split; [|split; [intros m Hm; rewrite Hlk; now apply Hso|split; [exact Hd|split; [exact Hts|split; [exact Hsz|exact Hp]]]]].
    intros k Hk m tab gp pos fl Ek. rewrite Hlk.
    assert (xtabs look x') as Hxt by (apply (xtabs_closed look fuel 5 o); apply xtabs_of_refresh).
    rewrite (xtabs_top_kids lo hi look x' Hxt k Hk m tab gp pos fl Ek). apply grows_refl. apply Hso. exact (kid_mid _ _ _ _ _ _ _ _ Hids' Hk Ek).
  - f_equal. unfold scan_obs. exact (top_obs fuel lo hi t V O HsO T0 Hfuel2 x' _ HT2).
Qed.

(* any allowed event *)
Lemma held_step2 s P pend e : CI2 s P pend -> 0 <= T0 -> no_err (snd (mstep c s e)) -> okev cid e = true -> wlen e <= pend ->
  let P' := match e with EStep c0 o => if N.eqb c0 cid then step (ref L) o P else P | _ => P end in
  CI2 (fst (mstep c s e)) P' (pend - wlen e) /\
  (forall o, e = EStep cid o -> snd (mstep c s e) = OObs (observe (ref L) P')).
Proof.
  intros HC HT0 Hne Hok Hw. cbv zeta.
  destruct (about cid e) eqn:Ha.
  - destruct e as [b| |fid|levels|fs|fs|c0 lo0 hi0|c0 o|c0| |m' k n v|n]; cbn [about] in Ha; try discriminate.
    + cbn [okev] in Hok. rewrite Ha in Hok. discriminate.
    + apply N.eqb_eq in Ha. subst c0. rewrite N.eqb_refl. cbn [wlen]. rewrite Z.sub_0_r.
      destruct (CI2_call s P pend o HC HT0 Hne) as [H1 H2]. split; [exact H1|]. intros o0 E. injection E as <-. exact H2.
    + cbn [okev] in Hok. rewrite Ha in Hok. discriminate.
  - assert (match e with EStep c0 o => if N.eqb c0 cid then step (ref L) o P else P | _ => P end = P) as ->.
    { destruct e; try reflexivity. cbn [about] in Ha. now rewrite Ha. }
    split; [|intros o Eo; subst e; cbn [about] in Ha; rewrite N.eqb_refl in Ha; discriminate].
    pose proof HC as [HI [[_ [Hvs _]] [sc [Hfs _]]]].
    destruct e as [b| |fid|levels|fs|fs|c0 lo0 hi0|c0 o|c0| |m' k n v|n]; try (cbn [wlen]; rewrite Z.sub_0_r).
    1:{ cbn [mstep fst wlen okev] in *. now apply CI2_write. }
    10:{ (* one entry of a write in flight *)
      cbn [mstep wlen] in *. destruct (insert_ok s m' k n) eqn:Eok; cbn [fst snd] in *; [|destruct Hne]. now apply CI2_insert. }
    all: (apply (CI2_same s); [exact HC|exact (proj1 (step_inv c Hio Hhv s _ HI))|apply seq_mono|apply vis_mono; exact Hvs|now apply scan_frame|]);
      intros sc' Hfs' m Hm; rewrite Hfs in Hfs'; injection Hfs' as <-;
      (apply look_stable; [exact (a_sc _ (i_a _ HI) sc (proj1 (find_scan_in s cid sc Hfs)) m Hm)|intros b0 Eb; discriminate|intros m1 k1 n1 v1 Eb; discriminate]).
Qed.
End Held2.

(* ---------------------------------------------------------------- the run *)
Section Run2.
Variable c : cfg.
Hypothesis Hio : cf_iter_owns c = true.
Hypothesis Hhv : cf_holds_ver c = true.
Variables (cid : N) (lo hi : bound) (t : N) (V O : list entry) (T0 : Z).
Hypothesis HsV : sorted V.
Hypothesis HsO : sorted O.
Hypothesis HoldO : forall e, In e O -> (ets e <= t)%N.
Hypothesis Hfuel1 : Z.of_nat (cf_fuel c) > (2 * len O + 2) * (Z.of_nat (Bnd_m T0) + 2).
Hypothesis Hfuel2 : Z.of_nat (cf_fuel c) >= len (prune_spec t O) + 2.
Hypothesis HT0 : 0 <= T0.
Notation L := (bounds_spec lo hi (prune_spec t O)).
Notation CI := (CI2 c cid lo hi t V O T0).

Lemma held_run2 : forall es s P pend, CI s P pend -> forallb (okev cid) es = true -> pending es <= pend ->
  Forall no_err (snd (mrun c s es)) -> cursor_trace cid es (snd (mrun c s es)) = ref_trace L P cid es.
Proof.
  induction es as [|e r IH]; intros s P pend HC Hok Hpend Hne; [reflexivity|].
  cbn [forallb] in Hok. apply andb_prop in Hok. destruct Hok as [Hok1 Hok2]. cbn [pending] in Hpend. pose proof (pending_nonneg r) as Hr0.
  cbn [mrun] in *. destruct (mstep c s e) as [s' o] eqn:E.
  assert (no_err o) as Ho.
  { destruct o as [|ob|er]; [exact I|exact I|]. cbn [snd] in Hne. inversion Hne; subst. assumption. }
  pose proof (held_step2 c Hio Hhv cid lo hi t V O T0 HsV HsO HoldO Hfuel1 Hfuel2 s P pend e HC HT0) as Hst.
  rewrite E in Hst. cbn [fst snd] in Hst. destruct (Hst Ho Hok1 ltac:(lia)) as [HC' Hobs].
  destruct o as [|ob|er]; [| |destruct Ho].
  - destruct (mrun c s' r) as [s'' os] eqn:Er. cbn [snd] in *. inversion Hne; subst.
    specialize (IH s' _ _ HC' Hok2 ltac:(lia)). rewrite Er in IH. cbn [snd] in IH. specialize (IH H2).
    cbn [cursor_trace ref_trace]. destruct e as [b| |fid|levels|fs|fs|c0 lo0 hi0|c0 o|c0| |m' k n v|n]; cbn [app]; try exact IH.
    destruct (N.eqb c0 cid) eqn:Ec; [|exact IH]. apply N.eqb_eq in Ec. subst c0. specialize (Hobs o eq_refl). discriminate.
  - destruct (mrun c s' r) as [s'' os] eqn:Er. cbn [snd] in *. inversion Hne; subst.
    specialize (IH s' _ _ HC' Hok2 ltac:(lia)). rewrite Er in IH. cbn [snd] in IH. specialize (IH H2).
    cbn [cursor_trace ref_trace]. destruct e as [b| |fid|levels|fs|fs|c0 lo0 hi0|c0 o|c0| |m' k n v|n]; cbn [app]; try exact IH.
    destruct (N.eqb c0 cid) eqn:Ec; [|exact IH]. apply N.eqb_eq in Ec. subst c0. specialize (Hobs o eq_refl).
    cbn [app]. rewrite ?N.eqb_refl in *. rewrite Hobs. f_equal. exact IH.
Qed.
End Run2.

(* ---------------------------------------------------------------- opening *)
Lemma perm_filter {A} (f : A -> bool) l l' : Permutation l l' -> Permutation (filter f l) (filter f l').
Proof.
  induction 1 as [|x l l' HP IH|x y l|l1 l2 l3 H1 IH1 H2 IH2]; cbn [filter]; auto.
  - destruct (f x); [now constructor|assumption].
  - destruct (f x), (f y); try reflexivity; constructor.
  - etransitivity; eauto.
Qed.
Lemma filter_concat {A} (f : A -> bool) ls : filter f (concat ls) = concat (map (filter f) ls).
Proof. induction ls as [|l r IH]; [reflexivity|]. cbn [concat map]. now rewrite filter_app, IH. Qed.
Lemma filter_filter_and {A} (f g : A -> bool) l : filter f (filter g l) = filter (fun x => g x && f x) l.
Proof. induction l as [|a l IH]; [reflexivity|]. cbn [filter]. destruct (g a); cbn [filter andb]; [destruct (f a)|]; now rewrite IH. Qed.
Lemma msum_lsum (mems : list (N * list entry)) : msum mems = lsum (map snd mems).
Proof. induction mems as [|ml r IH]; cbn [msum lsum map]; [reflexivity|]. now rewrite IH. Qed.
Lemma lsum_small ls : lsum ls = len (concat ls) + 2 * len ls.
Proof. induction ls as [|l r IH]; cbn [lsum concat]; [reflexivity|]. rewrite len_app, len_cons, IH. lia. Qed.

Lemma V_in_files lo hi v e : In e (ver_list lo hi v) -> In e (concat (map f_ents (concat v))).
Proof.
  intros H. unfold ver_list in H. apply in_merge in H. destruct (in_ver_parts lo hi v e H) as [f [Hf He]].
  apply in_concat. exists (f_ents f). split; [now apply in_map|exact He].
Qed.

Lemma open_tables_distinct lo hi ls v : scan_wf lo hi ls v -> distinct (all_entries ls v) ->
  distinct (concat (ls ++ [ver_list lo hi v])).
Proof.
  intros [_ [_ [_ [Hdv _]]]] Hd. unfold all_entries in Hd. destruct (distinct_app_inv _ _ Hd) as [H1 [_ H3]].
  rewrite concat_app. cbn [concat]. rewrite app_nil_r. apply distinct_app_intro; [exact H1| |].
  - apply sorted_distinct. apply merge_spec_sorted. exact Hdv.
  - intros x y Hx Hy. apply H3; [exact Hx|]. eapply V_in_files; eauto.
Qed.

Lemma open_O_perm lo hi t ls v :
  Permutation (concat (map (fun l => filter (Wb lo hi t) l) ls ++ [filter (oldb t) (ver_list lo hi v)]))
              (old t (merge_spec (top_parts lo hi ls v))).
Proof.
  unfold old. change (fun e : entry => (ets e <=? t)%N) with (oldb t).
  etransitivity; [|apply perm_filter; apply merge_spec_perm]. rewrite filter_concat. unfold top_parts. rewrite map_app, map_map. cbn [map].
  rewrite (map_ext (fun l => filter (Wb lo hi t) l) (fun l => filter (oldb t) (bounds_spec lo hi l))); [reflexivity|].
  intros l. unfold bounds_spec. rewrite filter_filter_and. reflexivity.
Qed.

Lemma open_mems_nodup s : Inv s -> NoDup (open_mems s).
Proof.
  intros HI. unfold open_mems. destruct (ms_imm s) as [m|] eqn:E.
  - destruct (a_imm _ (i_a _ HI) m E) as [_ Hne]. constructor; [intros [H|[]]; congruence|constructor; [intros []|constructor]].
  - constructor; [intros []|constructor].
Qed.

Section Open2.
Variable c : cfg.
Hypothesis Hio : cf_iter_owns c = true.
Hypothesis Hhv : cf_holds_ver c = true.
Variables (cid : N) (lo hi : bound) (s : machine) (T0 pend : Z).
Notation fuel := (cf_fuel c).
Let ls := map (look_of s) (open_mems s).
Let v := cur_levels s.
Let t := ms_vis s.
Let V := ver_list lo hi v.
Let O := old t (merge_spec (top_parts lo hi ls v)).

Hypothesis HI : Inv s.
Hypothesis Hfs : find_scan s cid = None.
Hypothesis Hne : no_err (snd (mstep c s (EOpen cid lo hi))).
Hypothesis Hwf : scan_wf lo hi ls v.
Hypothesis Hdist : distinct (all_entries ls v).
Hypothesis Hvis : (t <= ms_seq s)%N.
Hypothesis Hts : forall e, In e (all_entries ls v) -> (ets e <= ms_seq s)%N.
Hypothesis HVt : forall e, In e (concat (map f_ents (concat v))) -> (ets e <= t)%N.
Hypothesis Hfuel1 : Z.of_nat fuel > (2 * len O + 2) * (Z.of_nat (Bnd_m T0) + 2).
Hypothesis Hfuel2 : Z.of_nat fuel >= len (prune_spec t O) + 2.
Hypothesis Hsize : lsum (ls ++ [V]) + pend <= T0.
Hypothesis Hpend : 0 <= pend.

Lemma open_HsV : sorted V.
Proof. destruct Hwf as [_ [_ [_ [Hdv _]]]]. apply merge_spec_sorted. exact Hdv. Qed.
Lemma open_HsO : sorted O.
Proof. destruct Hwf as [_ [_ [_ [_ Hdt]]]]. unfold O, old. apply sorted_filter. apply merge_spec_sorted. exact Hdt. Qed.
Lemma open_HoldO : forall e, In e O -> (ets e <= t)%N.
Proof. intros e He. unfold O, old in He. apply filter_In in He. destruct He as [_ He]. now apply N.leb_le in He. Qed.

Lemma open_CI2 : CI2 c cid lo hi t V O T0 (fst (mstep c s (EOpen cid lo hi))) (-1) pend.
Proof.
  pose proof open_HsV as HsV. pose proof open_HsO as HsO. pose proof open_HoldO as HoldO.
  destruct (step_inv c Hio Hhv s (EOpen cid lo hi) HI) as [HI' _].
  pose proof (seq_mono c s (EOpen cid lo hi)) as Hseq. pose proof (vis_mono c s (EOpen cid lo hi) Hvis) as Hvm.
  assert (0 <= T0) as HT0 by (pose proof (lsum_nonneg (ls ++ [V])); lia).
  pose proof (fuel_T0 c O T0 Hfuel1 HT0) as Hfu.
  cbn [mstep] in *. rewrite Hfs in *. unfold do_open in *. cbv zeta in *.
  set (s2 := fold_left (fun s m => upd_mt mt_add_iter m s) (open_mems s) (take_snapshot s)) in *.
  assert (forall m, look_of s2 m = look_of s m) as Hlook.
  { intros m. unfold s2. rewrite look_of_fold by (intros y; reflexivity). now apply look_of_mts. }
  assert (cur_levels s2 = cur_levels s) as Hlv.
  { transitivity (cur_levels (take_snapshot s)); [|apply cur_levels_arc_add].
    apply cur_levels_vers; apply (fold_upd_fields mt_add_iter (open_mems s) (take_snapshot s)). }
  rewrite Hlv in *.
  assert (map (fun m => (m, look_of s2 m)) (open_mems s) = map (fun m => (m, look_of s m)) (open_mems s)) as Hmap
    by (apply map_ext; intros m; now rewrite Hlook).
  rewrite Hmap in *.
  set (mems := map (fun m => (m, look_of s m)) (open_mems s)) in *.
  set (x := scan_new fuel lo hi (ms_vis s) mems (cur_levels s)) in *.
  destruct (freed_any s2 (open_mems s)); [destruct Hne|].
  destruct (negb (forallb (openable s2) (opened_between (XM (mkM true [])) x))); [destruct Hne|].
  rewrite Hhv in *. cbn [fst snd] in *.
  assert (map snd mems = ls) as Esnd by (unfold mems, ls; rewrite map_map; reflexivity).
  assert (map (fun ml : N * list entry => Some (fst ml)) mems = map Some (open_mems s)) as Eids by (unfold mems; rewrite map_map; reflexivity).
  (* the cursor-level invariant of the fresh cursor *)
  destruct (top_new fuel lo hi t V HsV O HsO HoldO T0 Hfuel1 mems v) as [HT Hids].
  { reflexivity. }
  { exact (version_scan_refines fuel lo hi ls v Hwf). }
  { apply Forall_forall. intros ml Hml. unfold mems in Hml. apply in_map_iff in Hml. destruct Hml as [m [<- Hm]]. cbn [snd].
    destruct Hwf as [Hso _]. rewrite Forall_forall in Hso. split; [apply Hso; unfold ls; now apply in_map|].
    assert (len (look_of s m) + 2 <= lsum (ls ++ [V])) by (apply lsum_in; apply in_or_app; left; unfold ls; now apply in_map). lia. }
  { rewrite Esnd. now apply open_tables_distinct. }
  { unfold mems. rewrite map_map. cbn [snd]. rewrite <- (map_map (look_of s) (fun l => filter (Wb lo hi t) l)). apply open_O_perm. }
  { rewrite msum_lsum, Esnd. rewrite lsum_app in Hsize. cbn [lsum] in Hsize. lia. }
  fold x in HT, Hids. rewrite Eids in Hids.
  set (s3 := if cf_cache c then set_cache s2 (opened_between (XM (mkM true [])) x ++ ms_cache s2) else s2) in *.
  set (s4 := set_scans s3 (ms_scans s3 ++ [mkScan cid (ms_vis s) (open_mems s) (ms_cur s) true x])) in *.
  assert (forall m, look_of s4 m = look_of s m) as Hlk4.
  { intros m. transitivity (look_of s2 m); [|apply Hlook]. apply look_of_mts. unfold s4, s3. destruct (cf_cache c); reflexivity. }
  assert (tabs V s4 (open_mems s) = ls ++ [V]) as Etabs by (unfold tabs, ls; f_equal; apply map_ext; exact Hlk4).
  split; [exact HI'|]. split; [split; [exact (proj1 Hvm)|split; [exact (proj2 Hvm)|intros e He; apply HVt; eapply V_in_files; eauto]]|].
  exists (mkScan cid (ms_vis s) (open_mems s) (ms_cur s) true x). split.
  { unfold find_scan, s4. cbn [ms_scans set_scans].
    assert (ms_scans s3 = ms_scans s) as -> by (unfold s3; destruct (cf_cache c); cbn [ms_scans set_cache]; apply (fold_upd_fields mt_add_iter (open_mems s) (take_snapshot s))).
    rewrite ProofsLeaf.find_app. unfold find_scan in Hfs. rewrite Hfs. cbn [find sc_id]. rewrite N.eqb_refl. reflexivity. }
  cbn [sc_x sc_mems]. rewrite Etabs. split; [now apply open_mems_nodup|]. split; [exact HT|]. split; [exact Hids|].
  assert (forall m, In m (open_mems s) -> sorted (look_of s m)) as Hso.
  { intros m Hm. destruct Hwf as [H _]. rewrite Forall_forall in H. apply H. unfold ls. now apply in_map. }
  split; [|split; [|split; [|split; [|split]]]].
  - intros k Hk m tab gp pos fl Ek. rewrite Hlk4.
    assert (xtabs (look_of s) x) as Hxt by (unfold x, mems; apply xtabs_scan_new).
    rewrite (xtabs_top_kids lo hi (look_of s) x Hxt k Hk m tab gp pos fl Ek). apply grows_refl. apply Hso.
    exact (kid_mid lo hi x (open_mems s) k m tab gp pos fl Hids Hk Ek).
  - intros m Hm. rewrite Hlk4. now apply Hso.
  - now apply open_tables_distinct.
  - intros e He. assert (ets e <= ms_seq s)%N; [|lia]. apply Hts. rewrite concat_app in He. cbn [concat] in He. rewrite app_nil_r in He.
    unfold all_entries. apply in_or_app. apply in_app_or in He. destruct He as [He|He]; [now left|right; eapply V_in_files; eauto].
  - exact Hsize.
  - exact Hpend.
Qed.
End Open2.

(* ---------------------------------------------------------------- the statement *)
Lemma open_mems_len s : len (map (look_of s) (open_mems s)) <= 2.
Proof. unfold open_mems. destruct (ms_imm s); cbn; lia. Qed.

Theorem snapshot_stable_P c cid lo hi s es : cf_iter_owns c = true -> cf_holds_ver c = true -> Inv s ->
  find_scan s cid = None ->
  scan_wf lo hi (map (look_of s) (open_mems s)) (cur_levels s) -> distinct (all_entries (map (look_of s) (open_mems s)) (cur_levels s)) ->
  open_tsb s = true ->
  forallb (held_ok cid) es = true -> fuel_enoughb c s es = true ->
  Forall no_err (snd (mrun c s (EOpen cid lo hi :: es))) ->
  cursor_trace cid (EOpen cid lo hi :: es) (snd (mrun c s (EOpen cid lo hi :: es))) = ref_trace (scan_spec s lo hi) (-1) cid es.
Proof.
  intros Hio Hhv HI Hfs Hwf Hd Htsb Hok Hfb Hne.
  set (ls := map (look_of s) (open_mems s)) in *. set (v := cur_levels s) in *. set (t := ms_vis s). set (V := ver_list lo hi v).
  set (O := old t (merge_spec (top_parts lo hi ls v))). set (T0 := run_bound s es).
  assert ((t <= ms_seq s)%N /\ (forall e, In e (all_entries ls v) -> (ets e <= ms_seq s)%N) /\
          (forall e, In e (concat (map f_ents (concat v))) -> (ets e <= t)%N)) as [Hvis [Hts HVt]].
  { unfold open_tsb in Htsb. apply andb_prop in Htsb. destruct Htsb as [H12 H3]. apply andb_prop in H12. destruct H12 as [H1 H2].
    split; [now apply N.leb_le in H1|]. split; intros e He; [rewrite forallb_forall in H2|rewrite forallb_forall in H3]; apply N.leb_le; auto. }
  pose proof (pending_nonneg es) as Hp0.
  assert (0 <= scan_total s) as Htot0 by (unfold scan_total; lia).
  assert (len O <= scan_total s) as HlenO.
  { unfold O, old. pose proof (len_filter_le (fun e => (ets e <=? t)%N) (merge_spec (top_parts lo hi ls v))). rewrite len_merge in H.
    pose proof (top_parts_len lo hi ls v). unfold scan_total. fold ls v. lia. }
  assert (lsum (ls ++ [V]) + pending es <= T0) as Hsize.
  { rewrite lsum_small. rewrite concat_app, len_app, len_app. cbn [concat len length]. rewrite app_nil_r. unfold V, ver_list. rewrite len_merge.
    pose proof (ver_parts_len lo hi v). pose proof (open_mems_len s). fold ls in H0. unfold T0, run_bound, scan_total, total_size. fold ls v.
    rewrite Nat2Z.inj_add. fold (len (concat ls)). fold (len (concat (map f_ents (concat v)))). rewrite len_cons, len_nil. lia. }
  assert (0 <= T0) as HT0 by (unfold T0, run_bound; lia).
  unfold fuel_enoughb in Hfb. apply Z.ltb_lt in Hfb. fold T0 in Hfb.
  assert (Z.of_nat (cf_fuel c) > (2 * len O + 2) * (Z.of_nat (Bnd_m T0) + 2)) as Hfuel1.
  { unfold Bnd_m. rewrite Nat2Z.inj_add, Z2Nat.id by lia. pose proof (len_nonneg O). nia. }
  assert (Z.of_nat (cf_fuel c) >= len (prune_spec t O) + 2) as Hfuel2.
  { unfold prune_spec. pose proof (len_filter_le (visible t O) O). pose proof (len_nonneg O). nia. }
  rewrite <- (open_list_is_scan_spec s lo hi Hwf Hd). unfold open_list, scan_list. fold ls v t.
  rewrite <- (prune_old t (merge_spec (top_parts lo hi ls v))). fold O.
  cbn [mrun] in *. destruct (mstep c s (EOpen cid lo hi)) as [s' o] eqn:E.
  assert (no_err o) as Ho.
  { destruct o as [|ob|er]; [exact I|exact I|]. cbn [snd] in Hne. inversion Hne; subst. assumption. }
  pose proof (open_CI2 c Hio Hhv cid lo hi s T0 (pending es) HI Hfs) as HC. rewrite E in HC. cbn [fst snd] in HC.
  specialize (HC Ho Hwf Hd Hvis Hts HVt Hfuel1 Hsize Hp0). fold ls v t V O in HC.
  pose proof (held_run2 c Hio Hhv cid lo hi t V O T0 (open_HsV lo hi s Hwf) (open_HsO lo hi s Hwf) (open_HoldO lo hi s) Hfuel1 Hfuel2 HT0 es s' (-1) (pending es) HC Hok ltac:(lia)) as H.
  destruct o as [|ob|er]; [| |destruct Ho].
  - destruct (mrun c s' es) as [s'' os] eqn:Er. cbn [snd cursor_trace app] in *. inversion Hne as [|? ? _ Hrest]; subst. exact (H Hrest).
  - destruct (mrun c s' es) as [s'' os] eqn:Er. cbn [snd cursor_trace app] in *. inversion Hne as [|? ? _ Hrest]; subst. exact (H Hrest).
Qed.

Theorem snapshot_stable c cid lo hi s es : cf_iter_owns c = true -> cf_holds_ver c = true -> Inv s ->
  find_scan s cid = None -> open_wfb c s lo hi = true -> open_tsb s = true ->
  forallb (held_ok cid) es = true -> fuel_enoughb c s es = true ->
  Forall no_err (snd (mrun c s (EOpen cid lo hi :: es))) ->
  cursor_trace cid (EOpen cid lo hi :: es) (snd (mrun c s (EOpen cid lo hi :: es))) = ref_trace (scan_spec s lo hi) (-1) cid es.
Proof.
  intros Hio Hhv HI Hfs Hwfb Htsb Hok Hfb Hne.
  assert (scan_wf lo hi (map (look_of s) (open_mems s)) (cur_levels s) /\ distinct (all_entries (map (look_of s) (open_mems s)) (cur_levels s))) as [Hwf Hd].
  { unfold open_wfb in Hwfb. apply andb_prop in Hwfb. destruct Hwfb as [H _]. apply andb_prop in H. destruct H as [H1 H2].
    split; [now apply scan_wfb_ok|now apply distinct_of_bool]. }
  now apply snapshot_stable_P.
Qed.
