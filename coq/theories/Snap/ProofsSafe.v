(* Snap/ProofsSafe.v — the lifetime invariant of the machine of Snap/Model.v under the repaired
   rules (a skiplist iterator shares ownership of the nodes; a scan cursor owns its VersionRef) and
   its consequence: no event ever ends in UAF or ENOENT. *)
From Coq Require Import NArith ZArith List Bool Arith Lia.
From Blue Require Import Cursor.Iface Cursor.Ref Cursor.Lazy Cursor.Bounds Cursor.Pruning Cursor.Concat
  Cursor.Merging Cursor.Spec Snap.Model Snap.ProofsPres.
Import ListNotations.
Local Open Scope nat_scope.

(* ------------------------------------------------------------------------------------------
   1. a scan state names only the memtables / files it was built over *)
Section XOk.
Variables (PM PF : N -> Prop).

Fixpoint xok (u : xst) : Prop :=
  match u with
  | XG m _ => PM m
  | XL f _ _ => PF f
  | XM (mkM _ kids) => (fix all (l : list xst) : Prop := match l with [] => True | x :: r => xok x /\ all r end) kids
  | XC (mkK kids _ _) => (fix all (l : list xst) : Prop := match l with [] => True | x :: r => xok x /\ all r end) kids
  | XB _ _ (mkB cur _ _) => xok cur
  | XP _ (mkP cur _ _) => xok cur
  end.

Lemma all_Forall (l : list xst) :
  (fix all (l : list xst) : Prop := match l with [] => True | x :: r => xok x /\ all r end) l <-> Forall xok l.
Proof.
  induction l as [|x r IH]; [split; [constructor|auto]|]. split.
  - intros [H1 H2]. constructor; [exact H1|now apply IH].
  - intros H. inversion H; subst. split; [assumption|now apply IH].
Qed.
Lemma xok_XM s : xok (XM s) <-> Forall xok (m_kids s).
Proof. destruct s as [f kids]. cbn [xok m_kids]. apply all_Forall. Qed.
Lemma xok_XC s : xok (XC s) <-> Forall xok (k_kids s).
Proof. destruct s as [kids p f]. cbn [xok k_kids]. apply all_Forall. Qed.
Lemma xok_XB lo hi s : xok (XB lo hi s) <-> xok (b_cur s).
Proof. destruct s. reflexivity. Qed.
Lemma xok_XP t s : xok (XP t s) <-> xok (p_cur s).
Proof. destruct s. reflexivity. Qed.

Variable fuel : nat.

Lemma xcur1_closed child : closed child xok -> closed (xcur1 fuel child) xok.
Proof.
  intros Hc o u H. destruct o; cbn [step xcur1 c_first c_last c_seek c_prev c_next];
  (destruct u as [m p|f mk s|s|s|lo hi s|t s]; cbn [xstep1];
   [ exact H | exact H
   | apply xok_XM; apply xok_XM in H; eapply (pres_merging child xok Hc _ s H)
   | apply xok_XC; apply xok_XC in H; eapply (pres_concat child xok Hc _ s H)
   | apply xok_XB; apply xok_XB in H; eapply (pres_bounds child xok Hc fuel lo hi _ s H)
   | apply xok_XP; apply xok_XP in H; eapply (pres_pruning child xok Hc fuel t _ s H) ]).
Qed.

Lemma xstuck_closed : closed xstuck xok.
Proof. intros o u H. destruct o; exact H. Qed.

Lemma xcur_closed d : closed (xcur fuel d) xok.
Proof. induction d as [|d IH]; cbn [xcur]; apply xcur1_closed; [apply xstuck_closed|exact IH]. Qed.

(* what the predicate gives for the objects a state names *)
Lemma xok_mems u : xok u -> forall m, In m (xmems u) -> PM m.
Proof.
  revert u. fix IH 1. intros u H m Hm. destruct u as [m0 p|f mk s|[fw kids]|[kids pos fl]|lo hi [cur pos fl]|t [cur sk fl]];
    cbn [xmems xok] in *.
  - destruct Hm as [<-|[]]. exact H.
  - destruct Hm.
  - induction kids as [|k r IHr]; [destruct Hm|]. cbn [flat_map] in Hm. destruct H as [Hk Hr].
    apply in_app_or in Hm. destruct Hm as [Hm|Hm]; [exact (IH k Hk m Hm)|exact (IHr Hr Hm)].
  - induction kids as [|k r IHr]; [destruct Hm|]. cbn [flat_map] in Hm. destruct H as [Hk Hr].
    apply in_app_or in Hm. destruct Hm as [Hm|Hm]; [exact (IH k Hk m Hm)|exact (IHr Hr Hm)].
  - exact (IH cur H m Hm).
  - exact (IH cur H m Hm).
Qed.
Lemma xok_lazies u : xok u -> forall x, In x (lazies u) -> PF (fst (fst x)).
Proof.
  revert u. fix IH 1. intros u H x Hx. destruct u as [m0 p|f mk s|[fw kids]|[kids pos fl]|lo hi [cur pos fl]|t [cur sk fl]];
    cbn [lazies xok] in *.
  - destruct Hx.
  - destruct Hx as [<-|[]]. exact H.
  - induction kids as [|k r IHr]; [destruct Hx|]. cbn [flat_map] in Hx. destruct H as [Hk Hr].
    apply in_app_or in Hx. destruct Hx as [Hx|Hx]; [exact (IH k Hk x Hx)|exact (IHr Hr Hx)].
  - induction kids as [|k r IHr]; [destruct Hx|]. cbn [flat_map] in Hx. destruct H as [Hk Hr].
    apply in_app_or in Hx. destruct Hx as [Hx|Hx]; [exact (IH k Hk x Hx)|exact (IHr Hr Hx)].
  - exact (IH cur H x Hx).
  - exact (IH cur H x Hx).
Qed.

Lemma opened_between_ok a b : xok b -> forall f, In f (opened_between a b) -> PF f.
Proof.
  intros H f Hf. unfold opened_between in Hf. apply in_map_iff in Hf. destruct Hf as [x [<- Hx]].
  apply filter_In in Hx. destruct Hx as [Hx _]. now apply (xok_lazies b H).
Qed.

(* the constructors *)
Lemma xok_scan_new lo hi t mems v :
  (forall m, In m mems -> PM (fst m)) -> (forall f, In f (concat v) -> PF (f_id f)) ->
  xok (scan_new fuel lo hi t mems v).
Proof.
  intros HM HF. unfold scan_new.
  assert (forall d, closed (xcur fuel d) xok) as Hcl by apply xcur_closed.
  apply xok_XB. apply (pres_b_new (xcur fuel 4) xok (Hcl 4) lo hi).
  apply xok_XP. apply (pres_p_new (xcur fuel 3) xok (Hcl 3)).
  apply xok_XM. apply (pres_m_new (xcur fuel 2) xok (Hcl 2)).
  apply Forall_app. split.
  - apply Forall_forall. intros k Hk. apply in_map_iff in Hk. destruct Hk as [m [<- Hm]].
    unfold mem_leaf. apply (Hcl 2 OFirst). apply xok_XB. apply (pres_b_new (xcur fuel 1) xok (Hcl 1) lo hi). cbn [xok]. now apply HM.
  - constructor; [|constructor]. unfold version_scan. apply xok_XM. apply (pres_m_new (xcur fuel 1) xok (Hcl 1)).
    assert (forall fs, (forall f, In f fs -> PF (f_id f)) -> Forall xok (map lazy_leaf fs)) as Hleaf.
    { intros fs Hfs. apply Forall_forall. intros k Hk. apply in_map_iff in Hk. destruct Hk as [f [<- Hf]].
      cbn [lazy_leaf xok]. now apply Hfs. }
    apply Forall_app. split.
    + apply Hleaf. intros f Hf. apply HF. destruct v as [|l0 r]; [destruct Hf|]. cbn [hd] in Hf. cbn [concat]. apply in_or_app. now left.
    + apply Forall_forall. intros k Hk. apply in_flat_map in Hk. destruct Hk as [level [Hl Hk]].
      destruct (filter (overlaps lo hi) level) as [|f0 fs] eqn:E; [destruct Hk|]. destruct Hk as [<-|[]].
      apply xok_XC. apply (pres_k_new (xcur fuel 0) xok (Hcl 0)). apply Hleaf. intros f Hf. apply HF.
      assert (In f level) as Hfl by (rewrite <- E in Hf; apply filter_In in Hf; tauto).
      destruct v as [|l0 r]; [destruct Hl|]. cbn [tl] in Hl. cbn [concat]. apply in_or_app. right.
      apply in_concat. exists level. split; assumption.
Qed.
End XOk.

Lemma xok_refresh (PM PF : N -> Prop) look u : xok PM PF u -> xok PM PF (xrefresh look u).
Proof.
  revert u. fix IH 1. intros u H.
  destruct u as [m0 p|f mk s|[fw kids]|[kids pos fl]|lo hi [cur pos fl]|t [cur sk fl]]; cbn [xok xrefresh] in *.
  - exact H.
  - exact H.
  - induction kids as [|k r IHr]; [exact I|]. destruct H as [Hk Hr]. cbn [map]. split; [exact (IH k Hk)|exact (IHr Hr)].
  - induction kids as [|k r IHr]; [exact I|]. destruct H as [Hk Hr]. cbn [map]. split; [exact (IH k Hk)|exact (IHr Hr)].
  - exact (IH cur H).
  - exact (IH cur H).
Qed.

Lemma xok_weaken (PM PF PM' PF' : N -> Prop) u :
  (forall m, PM m -> PM' m) -> (forall f, PF f -> PF' f) -> xok PM PF u -> xok PM' PF' u.
Proof.
  intros HM HF. revert u. fix IH 1. intros u H.
  destruct u as [m0 p|f mk s|[fw kids]|[kids pos fl]|lo hi [cur pos fl]|t [cur sk fl]]; cbn [xok] in *.
  - now apply HM.
  - now apply HF.
  - induction kids as [|k r IHr]; [exact I|]. destruct H as [Hk Hr]. split; [exact (IH k Hk)|exact (IHr Hr)].
  - induction kids as [|k r IHr]; [exact I|]. destruct H as [Hk Hr]. split; [exact (IH k Hk)|exact (IHr Hr)].
  - exact (IH cur H).
  - exact (IH cur H).
Qed.

(* ------------------------------------------------------------------------------------------
   2. the reference counter *)
Fixpoint rc_get (f : N) (l : list (N * nat)) : nat :=
  match l with
  | [] => 0
  | (g, n) :: r => if N.eqb g f then n else rc_get f r
  end.
Definition cnt (f : N) (l : list N) : nat := length (filter (N.eqb f) l).

Lemma cnt_cons f g l : cnt f (g :: l) = (if N.eqb f g then 1 else 0) + cnt f l.
Proof. unfold cnt. cbn [filter]. destruct (N.eqb f g); reflexivity. Qed.
Lemma cnt_app f l1 l2 : cnt f (l1 ++ l2) = cnt f l1 + cnt f l2.
Proof. unfold cnt. rewrite filter_app, app_length. reflexivity. Qed.
Lemma cnt_in f l : In f l -> 1 <= cnt f l.
Proof.
  induction l as [|g l IH]; [intros []|]. rewrite cnt_cons. intros [->|H]; [rewrite N.eqb_refl; lia|].
  specialize (IH H). lia.
Qed.

Lemma cnt_notin f l : ~ In f l -> cnt f l = 0.
Proof.
  induction l as [|g l IH]; [reflexivity|]. intros H. rewrite cnt_cons.
  destruct (N.eqb f g) eqn:E; [apply N.eqb_eq in E; subst; exfalso; apply H; now left|].
  rewrite IH; [reflexivity|]. intros Hr. apply H. now right.
Qed.

Lemma rc_get_inc f g l : rc_get g (rc_inc f l) = rc_get g l + (if N.eqb f g then 1 else 0).
Proof.
  induction l as [|[h n] r IH]; cbn [rc_inc rc_get].
  - destruct (N.eqb f g); lia.
  - destruct (N.eqb h f) eqn:E; cbn [rc_get].
    + apply N.eqb_eq in E. subst h. destruct (N.eqb f g); lia.
    + destruct (N.eqb h g) eqn:E2; [|exact IH].
      apply N.eqb_eq in E2. subst h. rewrite N.eqb_sym in E. rewrite E. lia.
Qed.

Definition rc_wf (l : list (N * nat)) : Prop := NoDup (map fst l).

Lemma rc_get_notin f l : ~ In f (map fst l) -> rc_get f l = 0.
Proof.
  induction l as [|[h n] r IH]; [reflexivity|]. cbn [map fst rc_get]. intros H.
  destruct (N.eqb h f) eqn:E; [apply N.eqb_eq in E; subst; exfalso; apply H; now left|].
  apply IH. intros Hin. apply H. now right.
Qed.

Lemma rc_inc_keys f l g : In g (map fst (rc_inc f l)) -> g = f \/ In g (map fst l).
Proof.
  induction l as [|[h n] r IH]; cbn [rc_inc map fst].
  - intros [<-|[]]. now left.
  - destruct (N.eqb h f) eqn:E; cbn [map fst].
    + intros [<-|H]; [right; now left|right; now right].
    + intros [<-|H]; [right; now left|]. destruct (IH H) as [->|H']; [now left|right; now right].
Qed.
Lemma rc_inc_wf f l : rc_wf l -> rc_wf (rc_inc f l).
Proof.
  unfold rc_wf. induction l as [|[h n] r IH]; cbn [rc_inc map fst]; intros H.
  - constructor; [intros []|constructor].
  - inversion H as [|? ? Hn Hr]; subst. destruct (N.eqb h f) eqn:E; cbn [map fst].
    + constructor; assumption.
    + constructor; [|now apply IH]. intros Hin. apply rc_inc_keys in Hin. destruct Hin as [->|Hin]; [|contradiction].
      rewrite N.eqb_refl in E. discriminate.
Qed.

Lemma rc_dec_keys f l g : In g (map fst (fst (rc_dec f l))) -> In g (map fst l).
Proof.
  induction l as [|[h n] r IH]; cbn [rc_dec]; [auto|].
  destruct (N.eqb h f).
  - destruct (n <=? 1); cbn [fst map]; intros H; [now right|exact H].
  - destruct (rc_dec f r) as [r' b] eqn:E. cbn [fst map]. cbn [fst] in IH. intros [<-|H]; [now left|right; auto].
Qed.

(* dec lowers the count of f by one (0 stays 0), touches nothing else, and says `gone` only when
   the count of f is now 0 *)
Lemma rc_dec_spec f l : rc_wf l ->
  rc_wf (fst (rc_dec f l)) /\
  (forall g, g <> f -> rc_get g (fst (rc_dec f l)) = rc_get g l) /\
  rc_get f (fst (rc_dec f l)) = rc_get f l - 1 /\
  (snd (rc_dec f l) = true -> rc_get f (fst (rc_dec f l)) = 0).
Proof.
  unfold rc_wf. induction l as [|[h n] r IH]; cbn [rc_dec]; intros Hwf.
  - cbn. repeat split; auto; discriminate.
  - inversion Hwf as [|? ? Hn Hr]; subst. cbn [map fst] in *. destruct (N.eqb h f) eqn:E.
    + apply N.eqb_eq in E. subst h. destruct (n <=? 1) eqn:En; cbn [fst snd rc_get]; rewrite ?N.eqb_refl.
      * apply Nat.leb_le in En. (split; [|split; [|split]]).
        -- exact Hr.
        -- intros g Hg. destruct (N.eqb f g) eqn:E2; [apply N.eqb_eq in E2; congruence|reflexivity].
        -- rewrite (rc_get_notin f r Hn). lia.
        -- intros _. apply (rc_get_notin f r Hn).
      * apply Nat.leb_gt in En. (split; [|split; [|split]]).
        -- constructor; assumption.
        -- intros g Hg. cbn [rc_get]. destruct (N.eqb f g) eqn:E2; [apply N.eqb_eq in E2; congruence|reflexivity].
        -- cbn [rc_get]. rewrite ?N.eqb_refl. reflexivity.
        -- discriminate.
    + specialize (IH Hr). destruct (rc_dec f r) as [r' b] eqn:Er. cbn [fst snd] in *.
      destruct IH as [W [G [F1 F2]]]. (split; [|split; [|split]]).
      * cbn [map fst]. constructor; [|exact W]. intros Hin.
        apply Hn. pose proof (rc_dec_keys f r h) as K. rewrite Er in K. cbn [fst] in K. now apply K.
      * intros g Hg. cbn [rc_get]. destruct (N.eqb h g); [reflexivity|now apply G].
      * cbn [rc_get]. rewrite E. exact F1.
      * cbn [rc_get]. rewrite E. exact F2.
Qed.

(* ------------------------------------------------------------------------------------------
   3. versions, references and files *)
Ltac ms := cbn [ms_seq ms_vis ms_mem ms_imm ms_mts ms_vers ms_cur ms_refs ms_disk ms_cache ms_scans ms_next
                set_mts set_vers set_refs set_disk set_cache set_scans upd_mt] in *.

Definition ver_cnt (s : machine) (v : N) : nat :=
  length (filter (fun sc => N.eqb (sc_ver sc) v && sc_holds sc) (ms_scans s)).
Fixpoint file_cnt (vs : list vers) (f : N) : nat :=
  match vs with [] => 0 | v :: r => cnt f (v_files v) + file_cnt r f end.
Definition ind (b : bool) : nat := if b then 1 else 0.

(* `extra v` = Arc<Version> clones of v held by code that is running (a VersionRef local of the
   function being executed), besides the tree's own and the scans' *)
Record InvV (extra : N -> nat) (s : machine) : Prop := {
  b_nodup : NoDup (map v_id (ms_vers s));
  b_fresh : forall v, In v (ms_vers s) -> (v_id v < ms_next s)%N;
  b_arc : forall v, In v (ms_vers s) -> ind (N.eqb (v_id v) (ms_cur s)) + ver_cnt s (v_id v) + extra (v_id v) <= v_arc v;
  b_curv : exists v, In v (ms_vers s) /\ v_id v = ms_cur s;
  b_sc : forall sc, In sc (ms_scans s) -> sc_holds sc = true /\ exists v, In v (ms_vers s) /\ v_id v = sc_ver sc /\
           xok (fun m => In m (sc_mems sc)) (fun f => In f (v_files v)) (sc_x sc)
}.
Record InvR (s : machine) : Prop := {
  b_rcwf : rc_wf (ms_refs s);
  b_rc : forall f, file_cnt (ms_vers s) f <= rc_get f (ms_refs s);
  b_disk : forall f, 1 <= rc_get f (ms_refs s) ->
             (exists d, In d (ms_disk s) /\ d_id d = f) /\ forall d, In d (ms_disk s) -> d_id d = f -> d_sst d = true
}.

Lemma file_cnt_in vs v f : In v vs -> In f (v_files v) -> 1 <= file_cnt vs f.
Proof.
  induction vs as [|w r IH]; [intros []|]. cbn [file_cnt]. intros [->|H] Hf.
  - pose proof (cnt_in f _ Hf). lia.
  - specialize (IH H Hf). lia.
Qed.

(* -- explicit_ref *)
Lemma explicit_ref_refs fs s g : rc_get g (ms_refs (explicit_ref fs s)) = rc_get g (ms_refs s) + cnt g fs.
Proof.
  unfold explicit_ref. ms. generalize (ms_refs s) as r. induction fs as [|f fs IH]; intros r; cbn [fold_left].
  - unfold cnt. cbn. lia.
  - rewrite IH, rc_get_inc, cnt_cons. rewrite (N.eqb_sym g f). lia.
Qed.
Lemma explicit_ref_wf fs s : rc_wf (ms_refs s) -> rc_wf (ms_refs (explicit_ref fs s)).
Proof.
  unfold explicit_ref. ms. generalize (ms_refs s) as r. induction fs as [|f fs IH]; intros r H; cbn [fold_left]; [exact H|].
  apply IH. now apply rc_inc_wf.
Qed.

(* -- the loop of explicit_unref *)
Lemma disk_rename_in f d x : In x (disk_rename f d) ->
  exists y, In y d /\ d_id x = d_id y /\ (d_sst x = d_sst y \/ d_id y = f).
Proof.
  unfold disk_rename. intros H. apply in_map_iff in H. destruct H as [y [<- Hy]]. exists y. split; [exact Hy|].
  destruct (N.eqb (d_id y) f && d_sst y) eqn:E; cbn [d_id d_sst]; [|auto].
  apply andb_prop in E. destruct E as [E _]. apply N.eqb_eq in E. auto.
Qed.
Lemma disk_rename_ex f d y : In y d -> exists x, In x (disk_rename f d) /\ d_id x = d_id y.
Proof.
  intros H. exists (if N.eqb (d_id y) f && d_sst y then mkD (d_id y) false true else y). split.
  - unfold disk_rename. apply in_map_iff. exists y. auto.
  - destruct (N.eqb (d_id y) f && d_sst y); reflexivity.
Qed.

Definition unref1 (f : N) (s : machine) : machine :=
  let '(r, gone) := rc_dec f (ms_refs s) in
  let s := set_refs s r in
  if gone then set_disk s (disk_rename f (ms_disk s)) else s.
Lemma unref_files_cons f fs s : unref_files (f :: fs) s = unref_files fs (unref1 f s).
Proof. reflexivity. Qed.

Lemma unref_files_spec fs : forall s, rc_wf (ms_refs s) ->
  let s' := unref_files fs s in
  rc_wf (ms_refs s') /\
  (forall g, rc_get g (ms_refs s') = rc_get g (ms_refs s) - cnt g fs) /\
  ms_vers s' = ms_vers s /\ ms_scans s' = ms_scans s /\ ms_cur s' = ms_cur s /\ ms_next s' = ms_next s /\
  ms_mts s' = ms_mts s /\ ms_mem s' = ms_mem s /\ ms_imm s' = ms_imm s /\
  (forall x, In x (ms_disk s') -> exists y, In y (ms_disk s) /\ d_id x = d_id y /\
                                     (d_sst x = d_sst y \/ rc_get (d_id y) (ms_refs s') = 0)) /\
  (forall y, In y (ms_disk s) -> exists x, In x (ms_disk s') /\ d_id x = d_id y).
Proof.
  induction fs as [|f fs IH]; intros s Hwf; cbn zeta.
  - unfold unref_files. cbn [fold_left]. repeat split; auto.
    + intros g. unfold cnt. cbn. lia.
    + intros x Hx. exists x. auto.
    + intros y Hy. exists y. auto.
  - rewrite unref_files_cons. unfold unref1.
    pose proof (rc_dec_spec f (ms_refs s) Hwf) as [W [G [F1 F2]]].
    destruct (rc_dec f (ms_refs s)) as [r gone] eqn:Er. cbn [fst snd] in *.
    set (s1 := if gone then set_disk (set_refs s r) (disk_rename f (ms_disk (set_refs s r))) else set_refs s r).
    assert (ms_refs s1 = r) as Hr1 by (unfold s1; destruct gone; reflexivity).
    assert (rc_wf (ms_refs s1)) as W1 by (rewrite Hr1; exact W).
    specialize (IH s1 W1). cbn zeta in IH.
    destruct IH as [W' [G' [E1 [E2 [E3 [E4 [E5 [E6 [E7 [D1 D2]]]]]]]]]].
    assert (forall g, rc_get g (ms_refs (unref_files fs s1)) = rc_get g (ms_refs s) - cnt g (f :: fs)) as Hcount.
    { intros g. rewrite G', Hr1, cnt_cons. destruct (N.eqb g f) eqn:E.
      - apply N.eqb_eq in E. subst g. rewrite F1. cbn [ind]. lia.
      - rewrite G by (intros ->; rewrite N.eqb_refl in E; discriminate). lia. }
    repeat split; auto.
    + rewrite E1. unfold s1. destruct gone; reflexivity.
    + rewrite E2. unfold s1. destruct gone; reflexivity.
    + rewrite E3. unfold s1. destruct gone; reflexivity.
    + rewrite E4. unfold s1. destruct gone; reflexivity.
    + rewrite E5. unfold s1. destruct gone; reflexivity.
    + rewrite E6. unfold s1. destruct gone; reflexivity.
    + rewrite E7. unfold s1. destruct gone; reflexivity.
    + intros x Hx. destruct (D1 x Hx) as [y [Hy [Hid Hs]]].
      unfold s1 in Hy. destruct gone; ms.
      * apply disk_rename_in in Hy. destruct Hy as [z [Hz [Hid2 Hs2]]]. exists z. split; [exact Hz|]. split; [congruence|].
        destruct Hs as [Hs|Hs]; [|right; rewrite <- Hid2; exact Hs].
        destruct Hs2 as [Hs2|Hs2]; [left; congruence|]. right.
        rewrite Hs2, Hcount, cnt_cons, N.eqb_refl. specialize (F2 eq_refl). lia.
      * exists y. auto.
    + intros y Hy. assert (exists z, In z (ms_disk s1) /\ d_id z = d_id y) as [z [Hz Hzid]].
      { unfold s1. destruct gone; ms; [now apply disk_rename_ex|exists y; auto]. }
      destruct (D2 z Hz) as [x [Hx Hxid]]. exists x. split; [exact Hx|congruence].
Qed.

(* -- Arc<Version> bookkeeping *)
Definition inc_arc (v : N) (w : vers) : vers := if N.eqb (v_id w) v then mkV (v_id w) (v_levels w) (Datatypes.S (v_arc w)) else w.
Definition dec_arc (v : N) (w : vers) : vers := if N.eqb (v_id w) v then mkV (v_id w) (v_levels w) (v_arc w - 1) else w.
Lemma inc_arc_id v w : v_id (inc_arc v w) = v_id w. Proof. unfold inc_arc. destruct (N.eqb (v_id w) v); reflexivity. Qed.
Lemma dec_arc_id v w : v_id (dec_arc v w) = v_id w. Proof. unfold dec_arc. destruct (N.eqb (v_id w) v); reflexivity. Qed.
Lemma inc_arc_files v w : v_files (inc_arc v w) = v_files w. Proof. unfold inc_arc. destruct (N.eqb (v_id w) v); reflexivity. Qed.
Lemma dec_arc_files v w : v_files (dec_arc v w) = v_files w. Proof. unfold dec_arc. destruct (N.eqb (v_id w) v); reflexivity. Qed.

Lemma file_cnt_map g vs f : (forall w, v_files (g w) = v_files w) -> file_cnt (map g vs) f = file_cnt vs f.
Proof. intros Hg. induction vs as [|w r IH]; [reflexivity|]. cbn [map file_cnt]. now rewrite Hg, IH. Qed.
Lemma file_cnt_filter p vs f : file_cnt (filter p vs) f <= file_cnt vs f.
Proof.
  induction vs as [|w r IH]; [cbn; lia|]. cbn [filter]. destruct (p w); cbn [file_cnt]; lia.
Qed.
Lemma file_cnt_remove p vs f w : NoDup (map v_id vs) -> In w vs -> p w = false ->
  file_cnt (filter p vs) f + cnt f (v_files w) <= file_cnt vs f.
Proof.
  induction vs as [|u r IH]; [intros _ []|]. cbn [map]. intros Hnd [->|Hin] Hp.
  - cbn [filter]. rewrite Hp. cbn [file_cnt]. pose proof (file_cnt_filter p r f). lia.
  - inversion Hnd; subst. specialize (IH H2 Hin Hp). cbn [filter]. destruct (p u); cbn [file_cnt]; lia.
Qed.

Lemma file_cnt_snoc vs v f : file_cnt (vs ++ [v]) f = file_cnt vs f + cnt f (v_files v).
Proof. induction vs as [|w r IH]; cbn [app file_cnt]; [lia|]. rewrite IH. lia. Qed.
Lemma map_id_same (g : vers -> vers) vs : (forall w, v_id (g w) = v_id w) -> map v_id (map g vs) = map v_id vs.
Proof. intros Hg. induction vs as [|w r IH]; [reflexivity|]. cbn [map]. now rewrite Hg, IH. Qed.
Lemma NoDup_filter_map {A B} (f : A -> B) p (l : list A) : NoDup (map f l) -> NoDup (map f (filter p l)).
Proof.
  induction l as [|a l IH]; [auto|]. cbn [map filter]. intros H. inversion H; subst. destruct (p a); cbn [map]; [|auto].
  constructor; [|auto]. intros Hin. apply H2. apply in_map_iff in Hin. destruct Hin as [x [Hx Hin]]. apply filter_In in Hin.
  apply in_map_iff. exists x. tauto.
Qed.

Lemma find_ver_in s v x : find_ver s v = Some x -> In x (ms_vers s) /\ v_id x = v.
Proof. unfold find_ver. intros H. apply find_some in H. destruct H as [H1 H2]. apply N.eqb_eq in H2. auto. Qed.
Lemma find_ver_nodup s v x : NoDup (map v_id (ms_vers s)) -> In x (ms_vers s) -> v_id x = v -> find_ver s v = Some x.
Proof.
  unfold find_ver. induction (ms_vers s) as [|w r IH]; [intros _ []|]. cbn [map find]. intros Hnd [->|Hin] Hid.
  - subst v. now rewrite N.eqb_refl.
  - inversion Hnd; subst. destruct (N.eqb (v_id w) (v_id x)) eqn:E.
    + exfalso. apply N.eqb_eq in E. apply H1. rewrite E. now apply in_map.
    + now apply IH.
Qed.
Lemma nodup_same_id vs (x y : vers) : NoDup (map v_id vs) -> In x vs -> In y vs -> v_id x = v_id y -> x = y.
Proof.
  induction vs as [|w r IH]; [intros _ []|]. cbn [map]. intros Hnd. inversion Hnd; subst. intros [->|Hx] [->|Hy] Hid; auto.
  - exfalso. apply H1. rewrite Hid. now apply in_map.
  - exfalso. apply H1. rewrite <- Hid. now apply in_map.
Qed.

Lemma ver_cnt_in s sc : In sc (ms_scans s) -> sc_holds sc = true -> 1 <= ver_cnt s (sc_ver sc).
Proof.
  intros Hin Hh. unfold ver_cnt. induction (ms_scans s) as [|a r IH]; [destruct Hin|]. cbn [filter].
  destruct Hin as [->|Hin].
  - rewrite N.eqb_refl, Hh. cbn. lia.
  - specialize (IH Hin). destruct (N.eqb (sc_ver a) (sc_ver sc) && sc_holds a); cbn [length]; lia.
Qed.

Lemma arc_add_V extra s v : InvV extra s -> InvV (fun w => extra w + ind (N.eqb w v)) (arc_add v s).
Proof.
  intros I. unfold arc_add.
  change (map (fun x => if N.eqb (v_id x) v then mkV (v_id x) (v_levels x) (Datatypes.S (v_arc x)) else x) (ms_vers s))
    with (map (inc_arc v) (ms_vers s)).
  constructor; ms.
  - rewrite map_id_same by apply inc_arc_id. apply (b_nodup _ _ I).
  - intros w Hw. apply in_map_iff in Hw. destruct Hw as [w0 [<- Hw]]. rewrite inc_arc_id. now apply (b_fresh _ _ I).
  - intros w Hw. apply in_map_iff in Hw. destruct Hw as [w0 [<- Hw]]. rewrite inc_arc_id.
    pose proof (b_arc _ _ I w0 Hw) as Ha. unfold ver_cnt in *. ms. unfold inc_arc.
    destruct (N.eqb (v_id w0) v); cbn [v_arc ind] in *; lia.
  - destruct (b_curv _ _ I) as [w [Hw Hid]]. exists (inc_arc v w). split; [now apply in_map|]. now rewrite inc_arc_id.
  - intros sc Hsc. destruct (b_sc _ _ I sc Hsc) as [Hh [w [Hw [Hid Hx]]]]. split; [exact Hh|].
    exists (inc_arc v w). split; [now apply in_map|]. rewrite inc_arc_id. split; [exact Hid|].
    eapply xok_weaken; [| |exact Hx]; [auto|]. intros f Hf. now rewrite inc_arc_files.
Qed.
Lemma arc_add_R s v : InvR s -> InvR (arc_add v s).
Proof.
  intros I. unfold arc_add.
  change (map (fun x => if N.eqb (v_id x) v then mkV (v_id x) (v_levels x) (Datatypes.S (v_arc x)) else x) (ms_vers s))
    with (map (inc_arc v) (ms_vers s)).
  constructor; ms; [apply (b_rcwf _ I)| |apply (b_disk _ I)].
  intros f. rewrite file_cnt_map by apply inc_arc_files. apply (b_rc _ I).
Qed.

Lemma arc_drop_vers s v : ms_vers (arc_drop v s) = filter (fun x => negb (v_arc x =? 0)) (map (dec_arc v) (ms_vers s)).
Proof. reflexivity. Qed.

Lemma arc_drop_V extra s v : InvV extra s -> 1 <= extra v -> InvV (fun w => extra w - ind (N.eqb w v)) (arc_drop v s).
Proof.
  intros I Hex.
  assert (forall w0, In w0 (ms_vers s) -> ind (N.eqb (v_id w0) (ms_cur s)) + ver_cnt s (v_id w0) + (extra (v_id w0) - ind (N.eqb (v_id w0) v)) <= v_arc (dec_arc v w0)) as Harc.
  { intros w0 Hw. pose proof (b_arc _ _ I w0 Hw) as Ha. unfold dec_arc. destruct (N.eqb (v_id w0) v) eqn:E; cbn [v_arc ind]; [|lia].
    apply N.eqb_eq in E. rewrite E in *. lia. }
  assert (forall w0, In w0 (ms_vers s) -> 1 <= ind (N.eqb (v_id w0) (ms_cur s)) + ver_cnt s (v_id w0) ->
            In (dec_arc v w0) (ms_vers (arc_drop v s))) as Hstay.
  { intros w0 Hw H1. rewrite arc_drop_vers. apply filter_In. split; [now apply in_map|].
    specialize (Harc w0 Hw). destruct (v_arc (dec_arc v w0)); [lia|reflexivity]. }
  constructor.
  - rewrite arc_drop_vers. apply NoDup_filter_map. rewrite map_id_same by apply dec_arc_id. apply (b_nodup _ _ I).
  - intros w Hw. rewrite arc_drop_vers in Hw. apply filter_In in Hw. destruct Hw as [Hw _].
    apply in_map_iff in Hw. destruct Hw as [w0 [<- Hw]]. rewrite dec_arc_id. now apply (b_fresh _ _ I).
  - intros w Hw. rewrite arc_drop_vers in Hw. apply filter_In in Hw. destruct Hw as [Hw _].
    apply in_map_iff in Hw. destruct Hw as [w0 [<- Hw]]. rewrite dec_arc_id. now apply Harc.
  - destruct (b_curv _ _ I) as [w [Hw Hid]]. exists (dec_arc v w). split; [|now rewrite dec_arc_id].
    apply Hstay; [exact Hw|]. rewrite Hid, N.eqb_refl. cbn [ind]. lia.
  - intros sc Hsc. destruct (b_sc _ _ I sc Hsc) as [Hh [w [Hw [Hid Hx]]]]. split; [exact Hh|].
    exists (dec_arc v w). split; [|rewrite dec_arc_id; split; [exact Hid|]].
    + apply Hstay; [exact Hw|]. rewrite Hid. pose proof (ver_cnt_in s sc Hsc Hh). lia.
    + eapply xok_weaken; [| |exact Hx]; [auto|]. intros f Hf. now rewrite dec_arc_files.
Qed.
Lemma arc_drop_R s v : InvR s -> InvR (arc_drop v s).
Proof.
  intros I. constructor; [apply (b_rcwf _ I)| |apply (b_disk _ I)].
  intros f. rewrite arc_drop_vers. etransitivity; [apply file_cnt_filter|].
  rewrite file_cnt_map by apply dec_arc_files. apply (b_rc _ I).
Qed.

Lemma NoDup_app_snoc {A} (l : list A) a : NoDup l -> ~ In a l -> NoDup (l ++ [a]).
Proof.
  induction l as [|b l IH]; cbn [app]; intros Hnd Hn; [constructor; [intros []|constructor]|].
  inversion Hnd; subst. constructor.
  - intros Hin. apply in_app_or in Hin. destruct Hin as [Hin|[->|[]]]; [contradiction|]. apply Hn. now left.
  - apply IH; [assumption|]. intros Hin. apply Hn. now right.
Qed.

(* InvV only looks at the versions, the scans, the current version and the id counter *)
Lemma InvV_ext extra s s' : ms_vers s' = ms_vers s -> ms_scans s' = ms_scans s -> ms_cur s' = ms_cur s ->
  ms_next s' = ms_next s -> InvV extra s -> InvV extra s'.
Proof.
  intros E1 E2 E3 E4 I. constructor; unfold ver_cnt; rewrite ?E1, ?E2, ?E3, ?E4; apply I.
Qed.

(* Drop for VersionRef, by code that holds one of the `extra` references *)
Lemma vref_drop_V extra s v : InvV extra s -> InvR s -> 1 <= extra v ->
  InvV (fun w => extra w - ind (N.eqb w v)) (vref_drop v s).
Proof.
  intros IV IR Hex. unfold vref_drop. apply arc_drop_V; [|exact Hex].
  unfold explicit_unref. destruct (find_ver s v) as [x|]; [|exact IV].
  destruct (v_arc x =? 1); [|exact IV].
  destruct (unref_files_spec (v_files x) s (b_rcwf _ IR)) as [_ [_ [E1 [E2 [E3 [E4 _]]]]]].
  eapply InvV_ext; eauto.
Qed.

Lemma vref_drop_R extra s v : InvV extra s -> InvR s -> 1 <= extra v -> InvR (vref_drop v s).
Proof.
  intros IV IR Hex. unfold vref_drop, explicit_unref.
  destruct (find_ver s v) as [x|] eqn:Ef; [|now apply arc_drop_R].
  destruct (v_arc x =? 1) eqn:Ea; [|now apply arc_drop_R].
  apply Nat.eqb_eq in Ea. apply find_ver_in in Ef. destruct Ef as [Hx Hid].
  destruct (unref_files_spec (v_files x) s (b_rcwf _ IR)) as [W [G [E1 [E2 [E3 [E4 [_ [_ [_ [D1 D2]]]]]]]]]].
  set (s1 := unref_files (v_files x) s) in *.
  constructor.
  - exact W.
  - intros f. rewrite arc_drop_vers, E1, G.
    assert ((fun y => negb (v_arc y =? 0)) (dec_arc v x) = false) as Hgone.
    { unfold dec_arc. rewrite Hid, N.eqb_refl. cbn [v_arc]. rewrite Ea. reflexivity. }
    pose proof (file_cnt_remove (fun y => negb (v_arc y =? 0)) (map (dec_arc v) (ms_vers s)) f (dec_arc v x)) as Hrm.
    rewrite map_id_same in Hrm by apply dec_arc_id.
    specialize (Hrm (b_nodup _ _ IV) (in_map _ _ _ Hx) Hgone). rewrite dec_arc_files in Hrm.
    rewrite file_cnt_map in Hrm by apply dec_arc_files. pose proof (b_rc _ IR f). lia.
  - intros f Hf. change (ms_refs (arc_drop v s1)) with (ms_refs s1) in Hf. change (ms_disk (arc_drop v s1)) with (ms_disk s1).
    assert (1 <= rc_get f (ms_refs s)) as Hf0 by (rewrite G in Hf; lia).
    destruct (b_disk _ IR f Hf0) as [[d [Hd Hdid]] Hall]. split.
    + destruct (D2 d Hd) as [x' [Hx' Hxid]]. exists x'. split; [exact Hx'|congruence].
    + intros d' Hd' Hd'id. destruct (D1 d' Hd') as [y [Hy [Hyid Hs]]].
      destruct Hs as [Hs|Hs]; [rewrite Hs; apply Hall; [exact Hy|congruence]|].
      exfalso. rewrite <- Hyid, Hd'id in Hs. lia.
Qed.

(* -- install_version, called by code that holds a snapshot of the current version *)
Lemma explicit_ref_fields fs s : ms_vers (explicit_ref fs s) = ms_vers s /\ ms_scans (explicit_ref fs s) = ms_scans s /\
  ms_cur (explicit_ref fs s) = ms_cur s /\ ms_next (explicit_ref fs s) = ms_next s /\ ms_disk (explicit_ref fs s) = ms_disk s.
Proof. repeat split. Qed.

Lemma ver_cnt_fresh extra s v : InvV extra s -> (forall w, In w (ms_vers s) -> v_id w <> v) -> ver_cnt s v = 0.
Proof.
  intros I Hfr. unfold ver_cnt. destruct (filter _ (ms_scans s)) as [|sc r] eqn:E; [reflexivity|exfalso].
  assert (In sc (filter (fun sc => N.eqb (sc_ver sc) v && sc_holds sc) (ms_scans s))) as Hin by (rewrite E; now left).
  apply filter_In in Hin. destruct Hin as [Hin Hb]. apply andb_prop in Hb. destruct Hb as [Hb _]. apply N.eqb_eq in Hb.
  destruct (b_sc _ _ I sc Hin) as [_ [w [Hw [Hid _]]]]. apply (Hfr w Hw). congruence.
Qed.

Lemma install_version_inv extra levels s :
  InvV extra s -> InvR s -> 1 <= extra (ms_cur s) -> extra (ms_next s) = 0 ->
  (forall f, In f (map f_id (concat levels)) -> exists d, In d (ms_disk s) /\ d_id d = f) ->
  (forall f, In f (map f_id (concat levels)) -> forall d, In d (ms_disk s) -> d_id d = f -> d_sst d = true) ->
  InvV extra (install_version levels s) /\ InvR (install_version levels s) /\ ms_cur (install_version levels s) = ms_next s.
Proof.
  intros IV IR Hex Hnew Hd1 Hd2.
  set (nv := mkV (ms_next s) levels 1).
  set (s1 := explicit_ref (v_files nv) s).
  set (s2 := mkMS (ms_seq s1) (ms_vis s1) (ms_mem s1) (ms_imm s1) (ms_mts s1) (ms_vers s1 ++ [nv]) (ms_next s1)
                  (ms_refs s1) (ms_disk s1) (ms_cache s1) (ms_scans s1) (ms_next s1 + 1)%N).
  set (old := ms_cur s).
  assert (forall w, In w (ms_vers s) -> v_id w <> ms_next s) as Hfresh.
  { intros w Hw. pose proof (b_fresh _ _ IV w Hw). lia. }
  (* the state after explicit_ref and the swap, with the old version still referenced by `version2` *)
  assert (InvV (fun w => extra w + ind (N.eqb w old)) s2) as IV2.
  { constructor; unfold s2, s1, explicit_ref; ms.
    - rewrite map_app. cbn [map v_id nv]. apply NoDup_app_snoc; [apply (b_nodup _ _ IV)|].
      intros Hin. apply in_map_iff in Hin. destruct Hin as [w [Hid Hw]]. now apply (Hfresh w Hw).
    - intros w Hw. apply in_app_or in Hw. destruct Hw as [Hw|[<-|[]]].
      + pose proof (b_fresh _ _ IV w Hw). lia.
      + cbn [v_id nv]. lia.
    - intros w Hw. unfold ver_cnt. ms. apply in_app_or in Hw. destruct Hw as [Hw|[<-|[]]].
      + pose proof (b_arc _ _ IV w Hw) as Ha. unfold ver_cnt in Ha.
        assert (N.eqb (v_id w) (ms_next s) = false) as E by (apply N.eqb_neq; now apply Hfresh). rewrite E. cbn [ind].
        fold old in Ha. destruct (N.eqb (v_id w) old); cbn [ind] in *; lia.
      + cbn [v_id v_arc nv]. rewrite N.eqb_refl. cbn [ind].
        pose proof (ver_cnt_fresh extra s (ms_next s) IV Hfresh) as Hz. unfold ver_cnt in Hz. rewrite Hz, Hnew.
        assert (N.eqb (ms_next s) old = false) as E.
        { apply N.eqb_neq. destruct (b_curv _ _ IV) as [w [Hw Hid]]. intros Heq. apply (Hfresh w Hw). unfold old in Heq. congruence. }
        rewrite E. cbn [ind]. lia.
    - exists nv. split; [apply in_or_app; right; now left|reflexivity].
    - intros sc Hsc. destruct (b_sc _ _ IV sc Hsc) as [Hh [w [Hw [Hid Hx]]]]. split; [exact Hh|].
      exists w. split; [apply in_or_app; now left|]. split; [exact Hid|exact Hx]. }
  assert (InvR s2) as IR2.
  { constructor; unfold s2; ms.
    - unfold s1. apply explicit_ref_wf. apply (b_rcwf _ IR).
    - intros f. unfold s1. rewrite explicit_ref_refs. unfold explicit_ref. ms.
      rewrite file_cnt_snoc.
      pose proof (b_rc _ IR f). lia.
    - intros f Hf. unfold s1 in Hf. rewrite explicit_ref_refs in Hf. unfold s1, explicit_ref. ms.
      destruct (Nat.eq_dec (rc_get f (ms_refs s)) 0) as [Hz|Hnz].
      + assert (In f (v_files nv)) as Hin.
        { destruct (in_dec N.eq_dec f (v_files nv)) as [H|H]; [exact H|exfalso].
          pose proof (cnt_notin f _ H). lia. }
        split; [now apply Hd1|now apply Hd2].
      + apply (b_disk _ IR f). lia. }
  (* explicit_unref(old) does nothing: two references exist; then `version2` drops *)
  assert (explicit_unref old s2 = s2) as Hno.
  { unfold explicit_unref. destruct (find_ver s2 old) as [x|] eqn:Ef; [|reflexivity].
    apply find_ver_in in Ef. destruct Ef as [Hx Hid].
    pose proof (b_arc _ _ IV2 x Hx) as Ha. rewrite Hid, N.eqb_refl in Ha. cbn [ind] in Ha. fold old in Hex.
    destruct (v_arc x =? 1) eqn:E; [apply Nat.eqb_eq in E; lia|reflexivity]. }
  assert (install_version levels s = arc_drop old (explicit_unref old s2)) as -> by reflexivity.
  rewrite Hno. split; [|split; [now apply arc_drop_R|reflexivity]].
  pose proof (arc_drop_V _ s2 old IV2) as H. cbn beta in H. rewrite N.eqb_refl in H. cbn [ind] in H. specialize (H ltac:(lia)).
  constructor; try apply H.
  intros w Hw. pose proof (b_arc _ _ H w Hw) as Ha. cbn beta in Ha.
  destruct (N.eqb (v_id w) old); cbn [ind] in Ha; lia.
Qed.

Lemma InvV_extra_ext extra extra' s : (forall w, extra w = extra' w) -> InvV extra s -> InvV extra' s.
Proof. intros E I. constructor; try apply I. intros v Hv. rewrite <- E. now apply (b_arc _ _ I). Qed.

(* -- hard links into sst/ *)
Lemma disk_link_fold fs : forall d, let d' := fold_left (fun d f => disk_link f d) fs d in
  (forall x', In x' d' -> (In (d_id x') fs /\ d_sst x' = true) \/
                          (~ In (d_id x') fs /\ exists x, In x d /\ d_id x = d_id x' /\ d_sst x = d_sst x')) /\
  (forall f, In f fs -> exists x', In x' d' /\ d_id x' = f) /\
  (forall x, In x d -> exists x', In x' d' /\ d_id x' = d_id x).
Proof.
  induction fs as [|f fs IH]; intros d; cbn [fold_left]; cbn zeta.
  - split; [|split].
    + intros x' Hx. right. split; [intros []|]. exists x'. auto.
    + intros f [].
    + intros x Hx. exists x. auto.
  - specialize (IH (disk_link f d)). cbn zeta in IH. destruct IH as [A [B C]].
    assert (forall y, In y (disk_link f d) -> (d_id y = f /\ d_sst y = true) \/ (In y d /\ d_id y <> f)) as Hl.
    { intros y Hy. unfold disk_link in Hy. destruct (existsb (fun x => N.eqb (d_id x) f) d) eqn:Eex.
      - apply in_map_iff in Hy. destruct Hy as [x [<- Hx]]. destruct (N.eqb (d_id x) f) eqn:E; cbn [d_id d_sst].
        + left. apply N.eqb_eq in E. auto.
        + right. apply N.eqb_neq in E. auto.
      - apply in_app_or in Hy. destruct Hy as [Hy|[<-|[]]]; [|left; auto].
        destruct (N.eq_dec (d_id y) f) as [E|E]; [|right; auto]. exfalso.
        assert (existsb (fun x => N.eqb (d_id x) f) d = true); [|congruence].
        apply existsb_exists. exists y. split; [exact Hy|now apply N.eqb_eq]. }
    assert (forall x, In x d -> exists y, In y (disk_link f d) /\ d_id y = d_id x) as Hk.
    { intros x Hx. unfold disk_link. destruct (existsb (fun x => N.eqb (d_id x) f) d).
      - exists (if N.eqb (d_id x) f then mkD (d_id x) true (d_trash x) else x). split; [apply in_map_iff; exists x; auto|].
        destruct (N.eqb (d_id x) f); reflexivity.
      - exists x. split; [apply in_or_app; now left|reflexivity]. }
    assert (exists y, In y (disk_link f d) /\ d_id y = f) as Hf.
    { unfold disk_link. destruct (existsb (fun x => N.eqb (d_id x) f) d) eqn:E.
      - apply existsb_exists in E. destruct E as [x [Hx E]]. apply N.eqb_eq in E.
        exists (mkD (d_id x) true (d_trash x)). split; [|exact E]. apply in_map_iff. exists x. split; [|exact Hx].
        rewrite E, N.eqb_refl. reflexivity.
      - exists (mkD f true false). split; [apply in_or_app; right; now left|reflexivity]. }
    split; [|split].
    + intros x' Hx'. destruct (A x' Hx') as [[H1 H2]|[Hn [y [Hy [Hid Hs]]]]]; [left; split; [now right|exact H2]|].
      destruct (Hl y Hy) as [[E1 E2]|[E1 E2]].
      * left. split; [left; congruence|congruence].
      * right. split; [intros [E|E]; [congruence|contradiction]|]. exists y. auto.
    + intros g [<-|Hg]; [|now apply B]. destruct Hf as [y [Hy Hid]]. destruct (C y Hy) as [x' [Hx' Hid']]. exists x'. split; [exact Hx'|congruence].
    + intros x Hx. destruct (Hk x Hx) as [y [Hy Hid]]. destruct (C y Hy) as [x' [Hx' Hid']]. exists x'. split; [exact Hx'|congruence].
Qed.



(* -- what the version machinery leaves alone *)
Definition frame (s s' : machine) : Prop :=
  ms_seq s' = ms_seq s /\ ms_vis s' = ms_vis s /\ ms_mem s' = ms_mem s /\ ms_imm s' = ms_imm s /\
  ms_mts s' = ms_mts s /\ ms_cache s' = ms_cache s /\ ms_scans s' = ms_scans s.
Lemma frame_refl s : frame s s. Proof. repeat split. Qed.
Lemma frame_trans a b c : frame a b -> frame b c -> frame a c.
Proof. unfold frame. intros [A1 [A2 [A3 [A4 [A5 [A6 A7]]]]]] [B1 [B2 [B3 [B4 [B5 [B6 B7]]]]]]. repeat split; congruence. Qed.

Lemma unref_files_frame fs : forall s, frame s (unref_files fs s) /\ ms_next (unref_files fs s) = ms_next s.
Proof.
  induction fs as [|f fs IH]; intros s; [split; [apply frame_refl|reflexivity]|].
  rewrite unref_files_cons. destruct (IH (unref1 f s)) as [F N1].
  assert (frame s (unref1 f s) /\ ms_next (unref1 f s) = ms_next s) as [F1 N2].
  { unfold unref1. destruct (rc_dec f (ms_refs s)) as [r g]. destruct g; split; try reflexivity; repeat split. }
  split; [eapply frame_trans; eauto|congruence].
Qed.
Lemma explicit_unref_frame v s : frame s (explicit_unref v s) /\ ms_next (explicit_unref v s) = ms_next s.
Proof.
  unfold explicit_unref. destruct (find_ver s v) as [x|]; [|split; [apply frame_refl|reflexivity]].
  destruct (v_arc x =? 1); [apply unref_files_frame|split; [apply frame_refl|reflexivity]].
Qed.
Lemma vref_drop_frame v s : frame s (vref_drop v s) /\ ms_next (vref_drop v s) = ms_next s.
Proof.
  unfold vref_drop. destruct (explicit_unref_frame v s) as [F N1]. split.
  - eapply frame_trans; [exact F|]. repeat split.
  - exact N1.
Qed.
Lemma install_new_frame levels s : frame s (install_new levels s) /\ ms_next (install_new levels s) = (ms_next s + 1)%N.
Proof.
  unfold install_new.
  set (s1 := set_disk s _). set (s2 := take_snapshot s1). set (s3 := install_version levels s2).
  destruct (vref_drop_frame (ms_cur s1) s3) as [F4 N4].
  assert (frame s2 s3 /\ ms_next s3 = (ms_next s2 + 1)%N) as [F3 N3].
  { unfold s3, install_version.
    match goal with |- frame _ (arc_drop ?o (explicit_unref ?o ?t)) /\ _ => set (tt := t) end.
    destruct (explicit_unref_frame (ms_cur s2) tt) as [F N1]. split.
    - eapply frame_trans; [|eapply frame_trans; [exact F|repeat split]]. repeat split.
    - transitivity (ms_next (explicit_unref (ms_cur s2) tt)); [reflexivity|rewrite N1; reflexivity]. }
  split.
  - eapply frame_trans; [|exact F4]. eapply frame_trans; [|exact F3]. repeat split.
  - rewrite N4, N3. reflexivity.
Qed.

Lemma install_new_inv levels s : InvV (fun _ => 0) s -> InvR s ->
  InvV (fun _ => 0) (install_new levels s) /\ InvR (install_new levels s).
Proof.
  intros IV IR. unfold install_new.
  set (fs := map f_id (concat levels)).
  set (s1 := set_disk s (fold_left (fun d f => disk_link f d) fs (ms_disk s))).
  destruct (disk_link_fold fs (ms_disk s)) as [A [B C]].
  assert (InvV (fun _ => 0) s1) as IV1 by (eapply InvV_ext; [| | | |exact IV]; reflexivity).
  assert (InvR s1) as IR1.
  { constructor; unfold s1; ms; [apply (b_rcwf _ IR)|apply (b_rc _ IR)|].
    intros f Hf. destruct (b_disk _ IR f Hf) as [[d [Hd Hid]] Hall]. split.
    - destruct (C d Hd) as [x' [Hx' Hid']]. exists x'. split; [exact Hx'|congruence].
    - intros x' Hx' Hid'. destruct (A x' Hx') as [[_ H]|[_ [x [Hx [E1 E2]]]]]; [exact H|].
      rewrite <- E2. apply Hall; [exact Hx|congruence]. }
  set (old := ms_cur s1).
  set (s2 := take_snapshot s1).
  pose proof (arc_add_V _ s1 old IV1) as IV2. pose proof (arc_add_R s1 old IR1) as IR2.
  fold (take_snapshot s1) in IV2, IR2. fold s2 in IV2, IR2. cbn beta in IV2.
  assert (ms_cur s2 = old) as Hc2 by reflexivity. assert (ms_next s2 = ms_next s) as Hn2 by reflexivity.
  assert (ms_disk s2 = ms_disk s1) as Hd2 by reflexivity.
  destruct (install_version_inv _ levels s2 IV2 IR2) as [IV3 [IR3 Hc3]].
  - rewrite Hc2, N.eqb_refl. cbn. lia.
  - rewrite Hn2. destruct (b_curv _ _ IV) as [w [Hw Hid]]. pose proof (b_fresh _ _ IV w Hw) as Hlt.
    assert (N.eqb (ms_next s) old = false) as E by (apply N.eqb_neq; unfold old, s1; ms; lia). rewrite E. reflexivity.
  - intros f Hf. rewrite Hd2. unfold s1. ms. now apply B.
  - intros f Hf d Hd Hid. rewrite Hd2 in Hd. unfold s1 in Hd. ms. destruct (A d Hd) as [[_ H]|[Hn _]]; [exact H|].
    exfalso. apply Hn. rewrite Hid. exact Hf.
  - set (s3 := install_version levels s2) in *.
    split.
    + eapply InvV_extra_ext; [|apply (vref_drop_V _ s3 old IV3 IR3)].
      * intros w. cbn beta. destruct (N.eqb w old); cbn [ind]; lia.
      * rewrite N.eqb_refl. cbn. lia.
    + apply (vref_drop_R _ s3 old IV3 IR3). rewrite N.eqb_refl. cbn. lia.
Qed.

(* ------------------------------------------------------------------------------------------
   4. memtables and their iterators *)
Fixpoint mem_cnt (scs : list scan) (m : N) : nat :=
  match scs with [] => 0 | sc :: r => cnt m (sc_mems sc) + mem_cnt r m end.

Record InvA (s : machine) : Prop := {
  a_fresh : forall y, In y (ms_mts s) -> (mt_id y < ms_next s)%N;
  a_freed : forall y, In y (ms_mts s) -> mt_freed y = true -> mt_store y = 0 /\ mt_iters y = 0;
  a_iters : forall y, In y (ms_mts s) -> mem_cnt (ms_scans s) (mt_id y) <= mt_iters y;
  a_cur : forall y, In y (ms_mts s) -> (mt_id y = ms_mem s \/ ms_imm s = Some (mt_id y)) -> 1 <= mt_store y;
  a_mem : exists y, In y (ms_mts s) /\ mt_id y = ms_mem s;
  a_imm : forall m, ms_imm s = Some m -> (exists y, In y (ms_mts s) /\ mt_id y = m) /\ m <> ms_mem s;
  a_sc : forall sc, In sc (ms_scans s) -> forall m, In m (sc_mems sc) -> exists y, In y (ms_mts s) /\ mt_id y = m
}.

Lemma InvA_ext s s' : ms_mts s' = ms_mts s -> ms_scans s' = ms_scans s -> ms_mem s' = ms_mem s -> ms_imm s' = ms_imm s ->
  (ms_next s <= ms_next s')%N -> InvA s -> InvA s'.
Proof.
  intros E1 E2 E3 E4 E5 I. constructor; rewrite ?E1, ?E2, ?E3, ?E4; try apply I.
  intros y Hy. pose proof (a_fresh _ I y Hy). lia.
Qed.

(* a change of the memtable objects that keeps ids, and for which the per-object facts still hold *)
Lemma InvA_map (g : memt -> memt) s :
  (forall y, mt_id (g y) = mt_id y) ->
  (forall y, In y (ms_mts s) -> mt_freed (g y) = true -> mt_store (g y) = 0 /\ mt_iters (g y) = 0) ->
  (forall y, In y (ms_mts s) -> mem_cnt (ms_scans s) (mt_id y) <= mt_iters (g y)) ->
  (forall y, In y (ms_mts s) -> (mt_id y = ms_mem s \/ ms_imm s = Some (mt_id y)) -> 1 <= mt_store (g y)) ->
  InvA s -> InvA (set_mts s (map g (ms_mts s))).
Proof.
  intros Hid Hf Hi Hc I. constructor; ms.
  - intros y Hy. apply in_map_iff in Hy. destruct Hy as [y0 [<- Hy]]. rewrite Hid. now apply (a_fresh _ I).
  - intros y Hy. apply in_map_iff in Hy. destruct Hy as [y0 [<- Hy]]. now apply Hf.
  - intros y Hy. apply in_map_iff in Hy. destruct Hy as [y0 [<- Hy]]. rewrite Hid. now apply Hi.
  - intros y Hy. apply in_map_iff in Hy. destruct Hy as [y0 [<- Hy]]. rewrite Hid. now apply Hc.
  - destruct (a_mem _ I) as [y [Hy Hm]]. exists (g y). split; [now apply in_map|now rewrite Hid].
  - intros m Hm. destruct (a_imm _ I m Hm) as [[y [Hy Hym]] Hne]. split; [|exact Hne].
    exists (g y). split; [now apply in_map|now rewrite Hid].
  - intros sc Hsc m Hm. destruct (a_sc _ I sc Hsc m Hm) as [y [Hy Hym]]. exists (g y). split; [now apply in_map|now rewrite Hid].
Qed.

Lemma iter_succ_r' {A} (f : A -> A) n x : Nat.iter (Datatypes.S n) f x = Nat.iter n f (f x).
Proof. induction n as [|n IH]; [reflexivity|]. change (f (Nat.iter (Datatypes.S n) f x) = f (Nat.iter n f (f x))). now rewrite IH. Qed.

Lemma fold_upd_mt (g : memt -> memt) : (forall y, mt_id (g y) = mt_id y) ->
  forall ms s, let s' := fold_left (fun s m => upd_mt g m s) ms s in
  ms_mts s' = map (fun y => Nat.iter (cnt (mt_id y) ms) g y) (ms_mts s) /\
  s' = set_mts s (ms_mts s').
Proof.
  intros Hid ms. induction ms as [|m ms IH]; intros s; cbn [fold_left]; cbn zeta.
  - split; [|destruct s; reflexivity]. unfold cnt. cbn. now rewrite map_id.
  - specialize (IH (upd_mt g m s)). cbn zeta in IH. destruct IH as [E1 E2]. split.
    + rewrite E1. ms. rewrite map_map. apply map_ext. intros y. rewrite cnt_cons.
      destruct (N.eqb (mt_id y) m) eqn:E; [rewrite Hid; cbn [plus]; now rewrite iter_succ_r'|reflexivity].
    + rewrite E2 at 1. reflexivity.
Qed.

Lemma iter_add_iter k y : let y' := Nat.iter k mt_add_iter y in
  mt_id y' = mt_id y /\ mt_store y' = mt_store y /\ mt_freed y' = mt_freed y /\ mt_iters y' = mt_iters y + k /\ mt_ents y' = mt_ents y.
Proof.
  induction k as [|k IH]; cbn zeta in *; [repeat split; auto; cbn; lia|]. destruct IH as [A [B [C [D E]]]].
  change (Nat.iter (Datatypes.S k) mt_add_iter y) with (mt_add_iter (Nat.iter k mt_add_iter y)).
  set (z := Nat.iter k mt_add_iter y) in *. unfold mt_add_iter. cbn [mt_id mt_ents mt_store mt_iters mt_freed]. repeat split; auto; lia.
Qed.

Lemma iter_drop_iter c k y : cf_iter_owns c = true -> let y' := Nat.iter k (mt_drop_iter c) y in
  mt_id y' = mt_id y /\ mt_store y' = mt_store y /\ mt_iters y' = mt_iters y - k /\ mt_ents y' = mt_ents y /\
  (mt_freed y' = true -> mt_freed y = true \/ (mt_store y = 0 /\ mt_iters y' = 0)).
Proof.
  intros Hc. induction k as [|k IH]; cbn zeta in *; [repeat split; auto; cbn; lia|].
  destruct IH as [A [B [C [D E]]]]. change (Nat.iter (Datatypes.S k) (mt_drop_iter c) y) with (mt_drop_iter c (Nat.iter k (mt_drop_iter c) y)).
  set (z := Nat.iter k (mt_drop_iter c) y) in *.
  unfold mt_drop_iter, mt_settle. cbn [mt_id mt_ents mt_store mt_iters mt_freed]. rewrite Hc. cbn [negb orb].
  destruct ((mt_store z =? 0) && (mt_iters z - 1 =? 0)) eqn:Eb; cbn [mt_id mt_ents mt_store mt_iters mt_freed].
  - apply andb_prop in Eb. destruct Eb as [E1 E2]. apply Nat.eqb_eq in E1, E2.
    split; [exact A|]. split; [exact B|]. split; [lia|]. split; [exact D|]. intros _. right. lia.
  - split; [exact A|]. split; [exact B|]. split; [lia|]. split; [exact D|].
    intros H. destruct (E H) as [H1|[H1 H2]]; [now left|right; lia].
Qed.

Lemma drop_store_spec c y : cf_iter_owns c = true -> let y' := mt_drop_store c y in
  mt_id y' = mt_id y /\ mt_store y' = mt_store y - 1 /\ mt_iters y' = mt_iters y /\
  (mt_freed y' = true -> mt_freed y = true \/ (mt_store y' = 0 /\ mt_iters y = 0)).
Proof.
  intros Hc. cbn zeta. unfold mt_drop_store, mt_settle. cbn [mt_id mt_ents mt_store mt_iters mt_freed]. rewrite Hc. cbn [negb orb].
  destruct ((mt_store y - 1 =? 0) && (mt_iters y =? 0)) eqn:Eb; cbn [mt_id mt_ents mt_store mt_iters mt_freed].
  - apply andb_prop in Eb. destruct Eb as [E1 E2]. apply Nat.eqb_eq in E1, E2.
    split; [reflexivity|]. split; [reflexivity|]. split; [reflexivity|]. intros _. right. lia.
  - split; [reflexivity|]. split; [reflexivity|]. split; [reflexivity|]. intros H. now left.
Qed.

(* ------------------------------------------------------------------------------------------
   5. the invariant and the steps *)
Lemma InvV_ext' extra s s' : ms_vers s' = ms_vers s -> ms_scans s' = ms_scans s -> ms_cur s' = ms_cur s ->
  (ms_next s <= ms_next s')%N -> InvV extra s -> InvV extra s'.
Proof.
  intros E1 E2 E3 E4 I. constructor; unfold ver_cnt; rewrite ?E1, ?E2, ?E3; try apply I.
  intros v Hv. pose proof (b_fresh _ _ I v Hv). lia.
Qed.
Lemma InvR_ext s s' : ms_vers s' = ms_vers s -> ms_refs s' = ms_refs s -> ms_disk s' = ms_disk s -> InvR s -> InvR s'.
Proof. intros E1 E2 E3 I. constructor; rewrite ?E1, ?E2, ?E3; apply I. Qed.

Record Inv (s : machine) : Prop := {
  i_a : InvA s;
  i_v : InvV (fun _ => 0) s;
  i_r : InvR s;
  i_s : NoDup (map sc_id (ms_scans s))
}.

Lemma find_mt_in s m y : find_mt s m = Some y -> In y (ms_mts s) /\ mt_id y = m.
Proof. unfold find_mt. intros H. apply find_some in H. destruct H as [H1 H2]. apply N.eqb_eq in H2. auto. Qed.
Lemma find_mt_ex s m : (exists y, In y (ms_mts s) /\ mt_id y = m) -> exists y, find_mt s m = Some y.
Proof.
  intros [y [Hy Hid]]. unfold find_mt. destruct (find (fun x => N.eqb (mt_id x) m) (ms_mts s)) as [z|] eqn:E; [eauto|].
  exfalso. pose proof (find_none _ _ E y Hy) as H. cbn beta in H. rewrite Hid, N.eqb_refl in H. discriminate.
Qed.
Lemma find_scan_in s c sc : find_scan s c = Some sc -> In sc (ms_scans s) /\ sc_id sc = c.
Proof. unfold find_scan. intros H. apply find_some in H. destruct H as [H1 H2]. apply N.eqb_eq in H2. auto. Qed.

Lemma mem_cnt_app l1 l2 m : mem_cnt (l1 ++ l2) m = mem_cnt l1 m + mem_cnt l2 m.
Proof. induction l1 as [|a r IH]; cbn [app mem_cnt]; [reflexivity|]. rewrite IH. lia. Qed.
Lemma mem_cnt_in l sc m : In sc l -> cnt m (sc_mems sc) <= mem_cnt l m.
Proof. induction l as [|a r IH]; [intros []|]. cbn [mem_cnt]. intros [->|H]; [lia|]. specialize (IH H). lia. Qed.
Lemma mem_cnt_remove p l sc m : In sc l -> p sc = false -> mem_cnt (filter p l) m + cnt m (sc_mems sc) <= mem_cnt l m.
Proof.
  induction l as [|a r IH]; [intros []|]. intros [->|H] Hp; cbn [filter].
  - rewrite Hp. cbn [mem_cnt]. assert (mem_cnt (filter p r) m <= mem_cnt r m); [|lia].
    clear. induction r as [|b r IH]; [cbn; lia|]. cbn [filter]. destruct (p b); cbn [mem_cnt]; lia.
  - specialize (IH H Hp). destruct (p a); cbn [mem_cnt]; lia.
Qed.
Lemma mem_cnt_zero l m : (forall sc, In sc l -> ~ In m (sc_mems sc)) -> mem_cnt l m = 0.
Proof.
  induction l as [|a r IH]; [reflexivity|]. intros H. cbn [mem_cnt]. rewrite IH by (intros sc Hsc; apply H; now right).
  rewrite cnt_notin by (apply H; now left). reflexivity.
Qed.

(* the object a lookup finds is alive when a scan iterates it *)
Lemma scan_mem_alive s sc m : InvA s -> In sc (ms_scans s) -> In m (sc_mems sc) ->
  exists y, find_mt s m = Some y /\ mt_freed y = false.
Proof.
  intros I Hsc Hm. destruct (find_mt_ex s m (a_sc _ I sc Hsc m Hm)) as [y Hy]. exists y. split; [exact Hy|].
  apply find_mt_in in Hy. destruct Hy as [Hy Hid]. destruct (mt_freed y) eqn:E; [exfalso|reflexivity].
  destruct (a_freed _ I y Hy E) as [_ Hz]. pose proof (a_iters _ I y Hy) as Hi. rewrite Hid in Hi.
  pose proof (mem_cnt_in _ sc m Hsc). pose proof (cnt_in m _ Hm). lia.
Qed.

(* a file of a version that exists can be opened *)
Lemma version_file_openable s v f : InvR s -> In v (ms_vers s) -> In f (v_files v) -> openable s f = true.
Proof.
  intros I Hv Hf. unfold openable. apply orb_true_iff. right.
  pose proof (file_cnt_in _ v f Hv Hf) as H1. pose proof (b_rc _ I f) as H2.
  destruct (b_disk _ I f ltac:(lia)) as [[d [Hd Hid]] Hall].
  unfold find_disk. destruct (find (fun x => N.eqb (d_id x) f) (ms_disk s)) as [z|] eqn:E.
  - apply find_some in E. destruct E as [E1 E2]. apply N.eqb_eq in E2. now apply Hall.
  - exfalso. pose proof (find_none _ _ E d Hd) as H. cbn beta in H. rewrite Hid, N.eqb_refl in H. discriminate.
Qed.

Lemma forallb_openable s v l : InvR s -> In v (ms_vers s) -> (forall f, In f l -> In f (v_files v)) -> forallb (openable s) l = true.
Proof. intros I Hv H. apply forallb_forall. intros f Hf. eapply version_file_openable; eauto. Qed.

(* openable ignores everything but the disk, the cache and the scans *)
Lemma openable_ext s s' f : ms_disk s' = ms_disk s -> ms_cache s' = ms_cache s -> ms_scans s' = ms_scans s -> openable s' f = openable s f.
Proof. intros E1 E2 E3. unfold openable, all_handles, find_disk. now rewrite E1, E2, E3. Qed.

Definition safe_out (o : outcome) : Prop := o <> OErr UAF /\ o <> OErr ENOENT.

Section Steps.
Variable c : cfg.
Hypothesis Hio : cf_iter_owns c = true.
Hypothesis Hhv : cf_holds_ver c = true.

Lemma upd_mt_keep g m s : (forall y, mt_id (g y) = mt_id y /\ mt_store (g y) = mt_store y /\ mt_iters (g y) = mt_iters y /\ mt_freed (g y) = mt_freed y) ->
  InvA s -> InvA (upd_mt g m s).
Proof.
  intros Hg I. unfold upd_mt.
  apply (InvA_map (fun x => if N.eqb (mt_id x) m then g x else x) s); [| | | |exact I].
  - intros y. destruct (N.eqb (mt_id y) m); [apply Hg|reflexivity].
  - intros y Hy. destruct (N.eqb (mt_id y) m); [destruct (Hg y) as [_ [-> [-> ->]]]|]; now apply (a_freed _ I).
  - intros y Hy. destruct (N.eqb (mt_id y) m); [destruct (Hg y) as [_ [_ [-> _]]]|]; now apply (a_iters _ I).
  - intros y Hy Hc. destruct (N.eqb (mt_id y) m); [destruct (Hg y) as [_ [-> _]]|]; now apply (a_cur _ I).
Qed.

Lemma write_fold_inv n b : forall s, InvA s ->
  let s' := fold_left (fun s kv => upd_mt (mt_insert (mkE (fst kv) n (snd kv))) (ms_mem s) s) b s in
  InvA s' /\ s' = set_mts s (ms_mts s').
Proof.
  induction b as [|kv b IH]; intros s I; cbn [fold_left]; cbn zeta.
  - split; [exact I|destruct s; reflexivity].
  - specialize (IH (upd_mt (mt_insert (mkE (fst kv) n (snd kv))) (ms_mem s) s)). cbn zeta in IH.
    destruct IH as [I' E].
    + apply upd_mt_keep; [|exact I]. intros y. repeat split.
    + split; [exact I'|]. rewrite E at 1. reflexivity.
Qed.

Lemma step_write s b : Inv s -> Inv (fst (mstep c s (EWrite b))) /\ safe_out (snd (mstep c s (EWrite b))).
Proof.
  intros [IA IV IR IS]. cbn [mstep fst snd]. split; [|split; discriminate]. unfold do_write.
  destruct (write_fold_inv (ms_seq s + 1)%N b s IA) as [IA' E]. cbn zeta in *.
  set (sF := fold_left _ b s) in *.
  assert (ms_vers sF = ms_vers s /\ ms_scans sF = ms_scans s /\ ms_cur sF = ms_cur s /\ ms_next sF = ms_next s /\
          ms_refs sF = ms_refs s /\ ms_disk sF = ms_disk s /\ ms_mem sF = ms_mem s /\ ms_imm sF = ms_imm s) as [E1 [E2 [E3 [E4 [E5 [E6 [E7 E8]]]]]]]
    by (rewrite E; repeat split).
  constructor.
  - eapply InvA_ext; [| | | | |exact IA']; try reflexivity; try (ms; lia).
  - eapply InvV_ext'; [| | | |exact IV]; ms; try assumption; try (rewrite E4; lia).
  - eapply InvR_ext; [| | |exact IR]; ms; assumption.
  - ms. rewrite E2. exact IS.
Qed.

Lemma mem_not_held_fresh s m : InvA s -> (ms_next s <= m)%N -> mem_cnt (ms_scans s) m = 0.
Proof.
  intros I Hm. apply mem_cnt_zero. intros sc Hsc Hin. destruct (a_sc _ I sc Hsc m Hin) as [y [Hy Hid]].
  pose proof (a_fresh _ I y Hy). lia.
Qed.

Lemma step_rollover s : Inv s -> Inv (fst (mstep c s ERollover)) /\ safe_out (snd (mstep c s ERollover)).
Proof.
  intros [IA IV IR IS]. cbn [mstep]. destruct (ms_imm s) as [m|] eqn:Eimm; cbn [fst snd].
  - split; [constructor; assumption|split; discriminate].
  - split; [|split; discriminate]. unfold do_rollover. cbv zeta.
    set (old := ms_mem s). set (nm := mkMT (ms_next s) [] 1 0 false).
    destruct (a_mem _ IA) as [yo [Hyo Hido]]. pose proof (a_fresh _ IA yo Hyo) as Hfo. fold old in Hido.
    constructor; ms.
    + constructor; ms.
      * intros y Hy. apply in_app_or in Hy. destruct Hy as [Hy|[<-|[]]]; [|cbn; lia].
        apply in_map_iff in Hy. destruct Hy as [y0 [<- Hy]]. pose proof (a_fresh _ IA y0 Hy).
        destruct (N.eqb (mt_id y0) old); cbn [mt_id mt_add_store]; lia.
      * intros y Hy Hf. apply in_app_or in Hy. destruct Hy as [Hy|[<-|[]]]; [|discriminate Hf].
        apply in_map_iff in Hy. destruct Hy as [y0 [<- Hy]]. destruct (N.eqb (mt_id y0) old) eqn:E.
        -- exfalso. cbn [mt_freed mt_add_store] in Hf. destruct (a_freed _ IA y0 Hy Hf) as [Hs _].
           apply N.eqb_eq in E. pose proof (a_cur _ IA y0 Hy (or_introl E)). lia.
        -- now apply (a_freed _ IA).
      * intros y Hy. apply in_app_or in Hy. destruct Hy as [Hy|[<-|[]]].
        -- apply in_map_iff in Hy. destruct Hy as [y0 [<- Hy]]. pose proof (a_iters _ IA y0 Hy).
           destruct (N.eqb (mt_id y0) old); cbn [mt_id mt_iters mt_add_store]; assumption.
        -- cbn [mt_id mt_iters nm]. rewrite (mem_not_held_fresh s (ms_next s) IA); lia.
      * intros y Hy Hc. apply in_app_or in Hy. destruct Hy as [Hy|[<-|[]]]; [|cbn; lia].
        apply in_map_iff in Hy. destruct Hy as [y0 [<- Hy]]. pose proof (a_fresh _ IA y0 Hy) as Hf0.
        destruct (N.eqb (mt_id y0) old) eqn:E; cbn [mt_id mt_store mt_add_store] in *; [lia|].
        destruct Hc as [Hc|Hc]; [lia|]. injection Hc as Hc. apply N.eqb_neq in E. congruence.
      * exists nm. split; [apply in_or_app; right; now left|reflexivity].
      * intros m Hm. injection Hm as <-. split; [|lia].
        exists (mt_add_store 1 yo). split; [|exact Hido]. apply in_or_app. left. apply in_map_iff. exists yo.
        split; [|exact Hyo]. rewrite Hido, N.eqb_refl. reflexivity.
      * intros sc Hsc m Hm. destruct (a_sc _ IA sc Hsc m Hm) as [y [Hy Hid]].
        exists (if N.eqb (mt_id y) old then mt_add_store 1 y else y). split.
        -- apply in_or_app. left. apply in_map_iff. exists y. auto.
        -- destruct (N.eqb (mt_id y) old); exact Hid.
    + eapply InvV_ext'; [| | | |exact IV]; ms; try reflexivity; try lia.
    + eapply InvR_ext; [| | |exact IR]; reflexivity.
    + exact IS.
Qed.

Lemma step_install s levels : Inv s -> Inv (fst (mstep c s (EInstall levels))) /\ safe_out (snd (mstep c s (EInstall levels))).
Proof.
  intros [IA IV IR IS]. cbn [mstep fst snd]. split; [|split; discriminate].
  destruct (install_new_inv levels s IV IR) as [IV' IR'].
  destruct (install_new_frame levels s) as [[F1 [F2 [F3 [F4 [F5 [F6 F7]]]]]] N1].
  constructor; [|exact IV'|exact IR'|now rewrite F7].
  eapply InvA_ext; [| | | | |exact IA]; try assumption. rewrite N1. lia.
Qed.

Lemma clear_imm_A s : InvA s -> InvA (clear_imm s).
Proof.
  intros I. unfold clear_imm. constructor; ms; try apply I.
  - intros y Hy [Hc|Hc]; [|discriminate]. apply (a_cur _ I y Hy). now left.
  - intros m Hm. discriminate.
Qed.

Lemma drop_store_A s m : InvA s -> m <> ms_mem s -> ms_imm s <> Some m -> InvA (upd_mt (mt_drop_store c) m s).
Proof.
  intros I Hm Hi. unfold upd_mt.
  apply (InvA_map (fun x => if N.eqb (mt_id x) m then mt_drop_store c x else x) s); [| | | |exact I].
  - intros y. destruct (N.eqb (mt_id y) m); [apply (drop_store_spec c y Hio)|reflexivity].
  - intros y Hy. destruct (N.eqb (mt_id y) m); [|now apply (a_freed _ I)].
    destruct (drop_store_spec c y Hio) as [_ [E2 [E3 E4]]]. intros Hf. rewrite E3.
    destruct (E4 Hf) as [H|[H1 H2]]; [|auto]. destruct (a_freed _ I y Hy H). split; lia.
  - intros y Hy. destruct (N.eqb (mt_id y) m); [destruct (drop_store_spec c y Hio) as [_ [_ [-> _]]]|]; now apply (a_iters _ I).
  - intros y Hy Hc. destruct (N.eqb (mt_id y) m) eqn:E; [|now apply (a_cur _ I)].
    apply N.eqb_eq in E. exfalso. destruct Hc as [Hc|Hc]; [congruence|]. apply Hi. congruence.
Qed.

Lemma flushdone_inv s fid m : Inv s -> ms_imm s = Some m -> Inv (do_flushdone c fid m s).
Proof.
  intros [IA IV IR IS] Eimm. unfold do_flushdone. cbv zeta.
  generalize (flush_levels fid m s). intros levels.
  destruct (install_new_inv levels s IV IR) as [IV' IR'].
  destruct (install_new_frame levels s) as [[F1 [F2 [F3 [F4 [F5 [F6 F7]]]]]] N1].
  revert IV' IR' F1 F2 F3 F4 F5 F6 F7 N1. generalize (install_new levels s). intros s1 IV' IR' F1 F2 F3 F4 F5 F6 F7 N1.
  assert (InvA s1) as IA1 by (eapply InvA_ext; [| | | | |exact IA]; try assumption; rewrite N1; lia).
  destruct (a_imm _ IA m Eimm) as [_ Hne].
  assert (InvA (clear_imm s1)) as IA1' by (apply clear_imm_A; exact IA1).
  assert (InvA (upd_mt (mt_drop_store c) m (upd_mt (mt_drop_store c) m (clear_imm s1)))) as IA2.
  { apply drop_store_A; [apply drop_store_A| |]; try exact IA1'; unfold clear_imm; ms; try congruence; discriminate. }
  constructor.
  - exact IA2.
  - eapply InvV_ext'; [| | | |exact IV']; try reflexivity; try (ms; lia).
  - eapply InvR_ext; [| | |exact IR']; reflexivity.
  - unfold clear_imm. ms. rewrite F7. exact IS.
Qed.

Lemma step_flushdone s fid : Inv s -> Inv (fst (mstep c s (EFlushDone fid))) /\ safe_out (snd (mstep c s (EFlushDone fid))).
Proof.
  intros HI. cbn [mstep]. destruct (ms_imm s) as [m|] eqn:Eimm; cbn [fst snd].
  2:{ split; [exact HI|split; discriminate]. }
  split; [|split; discriminate]. now apply flushdone_inv.
Qed.

Lemma step_unlink s fs : Inv s -> Inv (fst (mstep c s (EUnlinkTrash fs))) /\ safe_out (snd (mstep c s (EUnlinkTrash fs))).
Proof.
  intros [IA IV IR IS]. cbn [mstep fst snd]. split; [|split; discriminate].
  constructor; [eapply InvA_ext; [| | | | |exact IA]; try reflexivity; try (ms; lia)|eapply InvV_ext'; [| | | |exact IV]; try reflexivity; try (ms; lia)| |exact IS].
  assert (forall d0, (forall x, In x (fold_left (fun d f => disk_unlink f d) fs d0) -> exists y, In y d0 /\ d_id y = d_id x /\ d_sst y = d_sst x) /\
                     (forall y, In y d0 -> exists x, In x (fold_left (fun d f => disk_unlink f d) fs d0) /\ d_id x = d_id y)) as H.
  { induction fs as [|f fs IH]; intros d0; cbn [fold_left].
    - split; intros x Hx; exists x; auto.
    - destruct (IH (disk_unlink f d0)) as [A B]. split.
      + intros x Hx. destruct (A x Hx) as [y [Hy [E1 E2]]]. unfold disk_unlink in Hy. apply in_map_iff in Hy.
        destruct Hy as [z [<- Hz]]. exists z. split; [exact Hz|]. destruct (N.eqb (d_id z) f); cbn [d_id d_sst] in *; auto.
      + intros y Hy. destruct (B (if N.eqb (d_id y) f then mkD (d_id y) (d_sst y) false else y)) as [x [Hx E]].
        * unfold disk_unlink. apply in_map_iff. exists y. auto.
        * exists x. split; [exact Hx|]. rewrite E. destruct (N.eqb (d_id y) f); reflexivity. }
  destruct (H (ms_disk s)) as [A B].
  constructor; ms; [apply (b_rcwf _ IR)|apply (b_rc _ IR)|].
  intros f Hf. destruct (b_disk _ IR f Hf) as [[d [Hd Hid]] Hall]. split.
  - destruct (B d Hd) as [x [Hx E]]. exists x. split; [exact Hx|congruence].
  - intros x Hx Hxid. destruct (A x Hx) as [y [Hy [E1 E2]]]. rewrite <- E2. apply Hall; [exact Hy|congruence].
Qed.

Lemma step_evict s fs : Inv s -> Inv (fst (mstep c s (ECacheEvict fs))) /\ safe_out (snd (mstep c s (ECacheEvict fs))).
Proof.
  intros [IA IV IR IS]. cbn [mstep fst snd]. split; [|split; discriminate].
  constructor; [eapply InvA_ext; [| | | | |exact IA]; try reflexivity; try (ms; lia)|eapply InvV_ext'; [| | | |exact IV]; try reflexivity; try (ms; lia)|
                eapply InvR_ext; [| | |exact IR]; reflexivity|exact IS].
Qed.

(* ---- opening a scan *)
Lemma ver_cnt_app s l v : length (filter (fun sc => N.eqb (sc_ver sc) v && sc_holds sc) (ms_scans s ++ l)) =
  ver_cnt s v + length (filter (fun sc => N.eqb (sc_ver sc) v && sc_holds sc) l).
Proof. unfold ver_cnt. now rewrite filter_app, app_length. Qed.

Lemma add_scan_V s sc v : InvV (fun w => ind (N.eqb w v)) s -> sc_ver sc = v -> sc_holds sc = true ->
  (exists vo, In vo (ms_vers s) /\ v_id vo = v /\ xok (fun m => In m (sc_mems sc)) (fun f => In f (v_files vo)) (sc_x sc)) ->
  InvV (fun _ => 0) (set_scans s (ms_scans s ++ [sc])).
Proof.
  intros I Hv Hh Hx. constructor; ms; try apply I.
  - intros w Hw. pose proof (b_arc _ _ I w Hw) as Ha. cbn beta in Ha. unfold ver_cnt at 1. ms. rewrite ver_cnt_app.
    cbn [filter]. rewrite Hv, Hh, andb_true_r. rewrite (N.eqb_sym v (v_id w)). destruct (N.eqb (v_id w) v); cbn [length ind] in *; lia.
  - intros sc' Hsc. apply in_app_or in Hsc. destruct Hsc as [Hsc|[<-|[]]]; [now apply (b_sc _ _ I)|].
    split; [exact Hh|]. destruct Hx as [vo [H1 [H2 H3]]]. exists vo. rewrite Hv. auto.
Qed.

Lemma open_A s mems sc : InvA s -> (forall m, In m mems -> m = ms_mem s \/ ms_imm s = Some m) -> sc_mems sc = mems ->
  InvA (set_scans (set_mts s (map (fun y => Nat.iter (cnt (mt_id y) mems) mt_add_iter y) (ms_mts s))) (ms_scans s ++ [sc])).
Proof.
  intros I Hm Hsc.
  assert (forall y k, let y' := Nat.iter k mt_add_iter y in mt_id y' = mt_id y) as Hid by (intros y k; apply iter_add_iter).
  constructor; ms.
  - intros y Hy. apply in_map_iff in Hy. destruct Hy as [y0 [<- Hy]]. rewrite Hid. now apply (a_fresh _ I).
  - intros y Hy Hf. apply in_map_iff in Hy. destruct Hy as [y0 [<- Hy]].
    destruct (iter_add_iter (cnt (mt_id y0) mems) y0) as [_ [E2 [E3 [E4 _]]]]. cbn zeta in *. rewrite E3 in Hf. rewrite E2, E4.
    destruct (a_freed _ I y0 Hy Hf) as [H1 H2]. split; [exact H1|].
    rewrite cnt_notin; [lia|]. intros Hin. pose proof (a_cur _ I y0 Hy) as Hc.
    destruct (Hm _ Hin) as [H|H]; [specialize (Hc (or_introl H))|specialize (Hc (or_intror H))]; lia.
  - intros y Hy. apply in_map_iff in Hy. destruct Hy as [y0 [<- Hy]].
    destruct (iter_add_iter (cnt (mt_id y0) mems) y0) as [E1 [_ [_ [E4 _]]]]. cbn zeta in *. rewrite E1, E4.
    rewrite mem_cnt_app. cbn [mem_cnt]. rewrite Hsc. pose proof (a_iters _ I y0 Hy). lia.
  - intros y Hy Hc. apply in_map_iff in Hy. destruct Hy as [y0 [<- Hy]].
    destruct (iter_add_iter (cnt (mt_id y0) mems) y0) as [E1 [E2 _]]. cbn zeta in *. rewrite E1 in Hc. rewrite E2. now apply (a_cur _ I).
  - destruct (a_mem _ I) as [y [Hy Hym]]. exists (Nat.iter (cnt (mt_id y) mems) mt_add_iter y). split; [apply in_map_iff; eauto|now rewrite Hid].
  - intros m Hmi. destruct (a_imm _ I m Hmi) as [[y [Hy Hym]] Hne]. split; [|exact Hne].
    exists (Nat.iter (cnt (mt_id y) mems) mt_add_iter y). split; [apply in_map_iff; eauto|now rewrite Hid].
  - assert (forall m, (exists y, In y (ms_mts s) /\ mt_id y = m) ->
              exists y, In y (map (fun y => Nat.iter (cnt (mt_id y) mems) mt_add_iter y) (ms_mts s)) /\ mt_id y = m) as Hex.
    { intros m [y [Hy Hym]]. exists (Nat.iter (cnt (mt_id y) mems) mt_add_iter y). split; [apply in_map_iff; eauto|now rewrite Hid]. }
    intros sc' Hsc' m Hmm. apply Hex. apply in_app_or in Hsc'. destruct Hsc' as [Hsc'|[<-|[]]]; [now apply (a_sc _ I sc')|].
    rewrite Hsc in Hmm. destruct (Hm m Hmm) as [->|H]; [apply (a_mem _ I)|apply (a_imm _ I m H)].
Qed.

Lemma existsb_false {A} (p : A -> bool) l : (forall a, In a l -> p a = false) -> existsb p l = false.
Proof. induction l as [|a l IH]; [reflexivity|]. intros H. cbn [existsb]. rewrite H by (now left). apply IH. intros b Hb. apply H. now right. Qed.

Lemma find_scan_none_notin s cid : find_scan s cid = None -> ~ In cid (map sc_id (ms_scans s)).
Proof.
  unfold find_scan. intros H Hin. apply in_map_iff in Hin. destruct Hin as [sc [Hid Hsc]].
  pose proof (find_none _ _ H sc Hsc) as Hn. cbn beta in Hn. rewrite Hid, N.eqb_refl in Hn. discriminate.
Qed.

Lemma step_open s cid lo hi : Inv s -> Inv (fst (mstep c s (EOpen cid lo hi))) /\ safe_out (snd (mstep c s (EOpen cid lo hi))).
Proof.
  intros [IA IV IR IS]. cbn [mstep]. destruct (find_scan s cid) as [sc0|] eqn:Efs.
  { cbn [fst snd]. split; [constructor; assumption|split; discriminate]. }
  unfold do_open. cbv zeta.
  set (mems := open_mems s).
  assert (forall m, In m mems -> m = ms_mem s \/ ms_imm s = Some m) as Hmems.
  { intros m Hm. unfold mems, open_mems in Hm. destruct Hm as [<-|Hm]; [now left|]. destruct (ms_imm s) as [i|]; [|destruct Hm].
    destruct Hm as [<-|[]]. now right. }
  set (s1 := take_snapshot s).
  pose proof (arc_add_V _ s (ms_cur s) IV) as IV1. pose proof (arc_add_R s (ms_cur s) IR) as IR1.
  fold (take_snapshot s) in IV1, IR1. fold s1 in IV1, IR1. cbn beta in IV1.
  destruct (fold_upd_mt mt_add_iter (fun y => proj1 (iter_add_iter 1 y)) mems s1) as [Emts Es2]. cbn zeta in Emts, Es2.
  set (s2 := fold_left (fun s m => upd_mt mt_add_iter m s) mems s1) in *.
  assert (ms_mts s1 = ms_mts s) as Hm1 by reflexivity.
  assert (ms_vers s2 = ms_vers s1 /\ ms_scans s2 = ms_scans s /\ ms_cur s2 = ms_cur s /\ ms_next s2 = ms_next s /\ ms_refs s2 = ms_refs s1 /\
          ms_disk s2 = ms_disk s1 /\ ms_mem s2 = ms_mem s /\ ms_imm s2 = ms_imm s /\ ms_cache s2 = ms_cache s) as [E1 [E2 [E3 [E4 [E5 [E6 [E7 [E8 E9]]]]]]]]
    by (rewrite Es2; repeat split).
  (* no memtable it iterates is freed *)
  assert (freed_any s2 mems = false) as Hfa.
  { apply existsb_false. intros m Hm.
    assert (exists y0, In y0 (ms_mts s) /\ mt_id y0 = m) as Hex by (destruct (Hmems m Hm) as [->|H]; [apply (a_mem _ IA)|apply (a_imm _ IA m H)]).
    destruct (find_mt_ex s2 m) as [y Hy].
    { destruct Hex as [y0 [Hy0 Hid0]]. exists (Nat.iter (cnt (mt_id y0) mems) mt_add_iter y0). split.
      - rewrite Emts, Hm1. apply in_map_iff. eauto.
      - rewrite <- Hid0. apply iter_add_iter. }
    rewrite Hy. apply find_mt_in in Hy. destruct Hy as [Hy Hid]. rewrite Emts, Hm1 in Hy. apply in_map_iff in Hy.
    destruct Hy as [y0 [<- Hy0]]. destruct (iter_add_iter (cnt (mt_id y0) mems) y0) as [F1 [_ [F3 _]]]. cbn zeta in *. rewrite F3.
    rewrite F1 in Hid. destruct (mt_freed y0) eqn:Ef; [exfalso|reflexivity].
    destruct (a_freed _ IA y0 Hy0 Ef) as [Hs _]. pose proof (a_cur _ IA y0 Hy0) as Hc.
    destruct (Hmems m Hm) as [H|H]; [specialize (Hc (or_introl (eq_trans Hid H)))|rewrite <- Hid in H; specialize (Hc (or_intror H))]; lia. }
  rewrite Hfa.
  (* the version it is opened on *)
  destruct (b_curv _ _ IV1) as [vo [Hvo Hvid]]. change (ms_cur s1) with (ms_cur s) in Hvid.
  assert (cur_levels s2 = v_levels vo) as Hlv.
  { unfold cur_levels. rewrite E3. rewrite (find_ver_nodup s2 (ms_cur s) vo); [reflexivity| | |exact Hvid]; rewrite E1; [apply (b_nodup _ _ IV1)|exact Hvo]. }
  rewrite Hlv.
  set (x := scan_new (cf_fuel c) lo hi (ms_vis s) (map (fun m => (m, look_of s2 m)) mems) (v_levels vo)).
  assert (xok (fun m => In m mems) (fun f => In f (v_files vo)) x) as Hx.
  { apply xok_scan_new.
    - intros m Hm. apply in_map_iff in Hm. destruct Hm as [m0 [<- Hm0]]. exact Hm0.
    - intros f Hf. unfold v_files. now apply in_map. }
  assert (InvR s2) as IR2 by (eapply InvR_ext; [| | |exact IR1]; assumption).
  assert (forallb (openable s2) (opened_between (XM (mkM true [])) x) = true) as Hop.
  { eapply forallb_openable; [exact IR2|rewrite E1; exact Hvo|]. intros f Hf. eapply (opened_between_ok _ _ _ x Hx f Hf). }
  rewrite Hop. cbn [negb]. rewrite Hhv. cbn [fst snd]. split; [|split; discriminate].
  set (sc := mkScan cid (ms_vis s) mems (ms_cur s) true x).
  assert (forall s3, s3 = s2 \/ s3 = set_cache s2 (opened_between (XM (mkM true [])) x ++ ms_cache s2) ->
            Inv (set_scans s3 (ms_scans s3 ++ [sc]))) as Hfin.
  { intros s3 Hs3.
    assert (ms_mts s3 = ms_mts s2 /\ ms_scans s3 = ms_scans s /\ ms_mem s3 = ms_mem s /\ ms_imm s3 = ms_imm s /\ ms_next s3 = ms_next s /\
            ms_vers s3 = ms_vers s1 /\ ms_cur s3 = ms_cur s /\ ms_refs s3 = ms_refs s1 /\ ms_disk s3 = ms_disk s1)
      as [G1 [G2 [G3 [G4 [G5 [G6 [G7 [G8 G9]]]]]]]] by (destruct Hs3 as [->| ->]; ms; repeat split; assumption).
    constructor.
    - pose proof (open_A s mems sc IA Hmems eq_refl) as HA.
      eapply InvA_ext; [| | | | |exact HA]; ms; try reflexivity; try congruence; try (rewrite G5; lia);
        try (rewrite G1, Emts, Hm1; reflexivity).
    - assert (InvV (fun w => ind (N.eqb w (ms_cur s))) s3) as IV3.
      { eapply InvV_extra_ext; [|eapply InvV_ext'; [| | | |exact IV1]]; try assumption; [intros w; cbn; reflexivity|].
        change (ms_next s1) with (ms_next s). rewrite G5. lia. }
      apply (add_scan_V s3 sc (ms_cur s) IV3 eq_refl eq_refl). exists vo. rewrite G6. auto.
    - eapply InvR_ext; [| | |exact IR1]; ms; assumption.
    - ms. rewrite G2, map_app. cbn [map sc_id sc]. apply NoDup_app_snoc; [exact IS|now apply find_scan_none_notin]. }
  destruct (cf_cache c); apply Hfin; auto.
Qed.

(* ---- a call on a held cursor *)
Definition same_shape (a b : scan) : Prop :=
  sc_id a = sc_id b /\ sc_mems a = sc_mems b /\ sc_ver a = sc_ver b /\ sc_holds a = sc_holds b.

Lemma shape_mem_cnt l l' m : Forall2 same_shape l' l -> mem_cnt l' m = mem_cnt l m.
Proof. induction 1 as [|a b l' l [_ [H _]] _ IH]; [reflexivity|]. cbn [mem_cnt]. now rewrite H, IH. Qed.
Lemma shape_ver_cnt l l' v : Forall2 same_shape l' l ->
  length (filter (fun sc => N.eqb (sc_ver sc) v && sc_holds sc) l') = length (filter (fun sc => N.eqb (sc_ver sc) v && sc_holds sc) l).
Proof.
  induction 1 as [|a b l' l [_ [_ [H1 H2]]] _ IH]; [reflexivity|]. cbn [filter]. rewrite H1, H2.
  destruct (N.eqb (sc_ver b) v && sc_holds b); cbn [length]; now rewrite IH.
Qed.
Lemma shape_ids l l' : Forall2 same_shape l' l -> map sc_id l' = map sc_id l.
Proof. induction 1 as [|a b l' l [H _] _ IH]; [reflexivity|]. cbn [map]. now rewrite H, IH. Qed.

Lemma nodup_scan_unique l (a b : scan) : NoDup (map sc_id l) -> In a l -> In b l -> sc_id a = sc_id b -> a = b.
Proof.
  induction l as [|w r IH]; [intros _ []|]. cbn [map]. intros Hnd. inversion Hnd; subst. intros [->|Hx] [->|Hy] Hid; auto.
  - exfalso. apply H1. rewrite Hid. now apply in_map.
  - exfalso. apply H1. rewrite <- Hid. now apply in_map.
Qed.

Lemma put_scan_shape s cid sc x' : NoDup (map sc_id (ms_scans s)) -> In sc (ms_scans s) -> sc_id sc = cid ->
  Forall2 same_shape (ms_scans (put_scan cid sc x' s)) (ms_scans s) /\
  (forall y', In y' (ms_scans (put_scan cid sc x' s)) ->
     In y' (ms_scans s) \/ y' = mkScan cid (sc_t sc) (sc_mems sc) (sc_ver sc) (sc_holds sc) x').
Proof.
  intros Hnd Hsc Hid. unfold put_scan. ms. split.
  - assert (forall l, (forall y, In y l -> In y (ms_scans s)) ->
              Forall2 same_shape (map (fun y => if N.eqb (sc_id y) cid then mkScan cid (sc_t sc) (sc_mems sc) (sc_ver sc) (sc_holds sc) x' else y) l) l) as H.
    { induction l as [|y l IH]; intros Hl; cbn [map]; constructor; [|apply IH; intros z Hz; apply Hl; now right].
      destruct (N.eqb (sc_id y) cid) eqn:E; [|repeat split].
      apply N.eqb_eq in E. assert (y = sc) as -> by (apply (nodup_scan_unique _ _ _ Hnd); [apply Hl; now left|exact Hsc|congruence]).
      repeat split. cbn. congruence. }
    apply H. auto.
  - intros y' Hy'. apply in_map_iff in Hy'. destruct Hy' as [y [<- Hy]]. destruct (N.eqb (sc_id y) cid); auto.
Qed.

Lemma step_step s cid o : Inv s -> Inv (fst (mstep c s (EStep cid o))) /\ safe_out (snd (mstep c s (EStep cid o))).
Proof.
  intros [IA IV IR IS]. cbn [mstep]. destruct (find_scan s cid) as [sc|] eqn:Efs.
  2:{ cbn [fst snd]. split; [constructor; assumption|split; discriminate]. }
  apply find_scan_in in Efs. destruct Efs as [Hsc Hid].
  destruct (b_sc _ _ IV sc Hsc) as [Hh [vo [Hvo [Hvid Hx]]]].
  unfold do_step. cbv zeta.
  assert (freed_any s (xmems (sc_x sc)) = false) as Hfa.
  { apply existsb_false. intros m Hm. pose proof (xok_mems _ _ _ Hx m Hm) as Hin. cbn beta in Hin.
    destruct (scan_mem_alive s sc m IA Hsc Hin) as [y [-> Hf]]. exact Hf. }
  rewrite Hfa.
  set (x' := scan_step (cf_fuel c) o (xrefresh (look_of s) (sc_x sc))).
  assert (xok (fun m => In m (sc_mems sc)) (fun f => In f (v_files vo)) x') as Hx' by (apply xcur_closed; apply xok_refresh; exact Hx).
  assert (forallb (openable s) (opened_between (sc_x sc) x') = true) as Hop.
  { eapply forallb_openable; [exact IR|exact Hvo|]. intros f Hf. eapply (opened_between_ok _ _ _ x' Hx' f Hf). }
  rewrite Hop. cbn [negb fst snd]. split; [|split; discriminate].
  assert (forall s3, ms_mts s3 = ms_mts s -> ms_scans s3 = ms_scans s -> ms_mem s3 = ms_mem s -> ms_imm s3 = ms_imm s -> ms_next s3 = ms_next s ->
            ms_vers s3 = ms_vers s -> ms_cur s3 = ms_cur s -> ms_refs s3 = ms_refs s -> ms_disk s3 = ms_disk s -> Inv (put_scan cid sc x' s3)) as Hfin.
  { intros s3 G1 G2 G3 G4 G5 G6 G7 G8 G9.
    destruct (put_scan_shape s3 cid sc x') as [Hshape Hmem]; [rewrite G2; exact IS|rewrite G2; exact Hsc|exact Hid|].
    rewrite G2 in Hshape. unfold put_scan in *. ms.
    constructor.
    - constructor; ms; rewrite ?G1, ?G3, ?G4, ?G5; try apply IA.
      + intros y Hy. rewrite (shape_mem_cnt _ _ _ Hshape). now apply (a_iters _ IA).
      + intros sc' Hsc' m Hm. destruct (Hmem sc' Hsc') as [H| ->]; [rewrite G2 in H; now apply (a_sc _ IA sc')|].
        cbn [sc_mems] in Hm. now apply (a_sc _ IA sc).
    - constructor; ms; rewrite ?G5, ?G6, ?G7; try apply IV.
      + intros w Hw. unfold ver_cnt. ms. rewrite (shape_ver_cnt _ _ _ Hshape). apply (b_arc _ _ IV w Hw).
      + intros sc' Hsc'. destruct (Hmem sc' Hsc') as [H| ->]; [rewrite G2 in H; now apply (b_sc _ _ IV sc')|].
        cbn [sc_holds sc_ver sc_mems sc_x]. split; [exact Hh|]. exists vo. auto.
    - eapply InvR_ext; [| | |exact IR]; ms; assumption.
    - ms. rewrite (shape_ids _ _ Hshape). exact IS. }
  destruct (cf_cache c); apply Hfin; reflexivity.
Qed.

(* ---- dropping a cursor *)
Lemma close_A s sc cid : InvA s -> In sc (ms_scans s) -> sc_id sc = cid ->
  InvA (set_mts (set_scans s (filter (fun y => negb (N.eqb (sc_id y) cid)) (ms_scans s)))
                (map (fun y => Nat.iter (cnt (mt_id y) (sc_mems sc)) (mt_drop_iter c) y) (ms_mts s))).
Proof.
  intros I Hsc Hid.
  assert (forall y, mt_id (Nat.iter (cnt (mt_id y) (sc_mems sc)) (mt_drop_iter c) y) = mt_id y) as Hidk
    by (intros y; apply (iter_drop_iter c _ y Hio)).
  constructor; ms.
  - intros y Hy. apply in_map_iff in Hy. destruct Hy as [y0 [<- Hy]]. rewrite Hidk. now apply (a_fresh _ I).
  - intros y Hy Hf. apply in_map_iff in Hy. destruct Hy as [y0 [<- Hy]].
    destruct (iter_drop_iter c (cnt (mt_id y0) (sc_mems sc)) y0 Hio) as [_ [E2 [E3 [_ E5]]]]. cbn zeta in *.
    rewrite E2, E3. destruct (E5 Hf) as [H|[H1 H2]]; [destruct (a_freed _ I y0 Hy H); split; lia|rewrite E3 in H2; auto].
  - intros y Hy. apply in_map_iff in Hy. destruct Hy as [y0 [<- Hy]].
    destruct (iter_drop_iter c (cnt (mt_id y0) (sc_mems sc)) y0 Hio) as [E1 [_ [E3 _]]]. cbn zeta in *. rewrite E1, E3.
    assert (negb (N.eqb (sc_id sc) cid) = false) as Hp by (rewrite Hid, N.eqb_refl; reflexivity).
    pose proof (mem_cnt_remove (fun y => negb (N.eqb (sc_id y) cid)) (ms_scans s) sc (mt_id y0) Hsc Hp) as Hr.
    pose proof (a_iters _ I y0 Hy). lia.
  - intros y Hy Hc. apply in_map_iff in Hy. destruct Hy as [y0 [<- Hy]].
    destruct (iter_drop_iter c (cnt (mt_id y0) (sc_mems sc)) y0 Hio) as [E1 [E2 _]]. cbn zeta in *. rewrite E1 in Hc. rewrite E2. now apply (a_cur _ I).
  - destruct (a_mem _ I) as [y [Hy Hym]]. exists (Nat.iter (cnt (mt_id y) (sc_mems sc)) (mt_drop_iter c) y). split; [apply in_map_iff; eauto|now rewrite Hidk].
  - intros m Hmi. destruct (a_imm _ I m Hmi) as [[y [Hy Hym]] Hne]. split; [|exact Hne].
    exists (Nat.iter (cnt (mt_id y) (sc_mems sc)) (mt_drop_iter c) y). split; [apply in_map_iff; eauto|now rewrite Hidk].
  - intros sc' Hsc' m Hm. apply filter_In in Hsc'. destruct Hsc' as [Hsc' _]. destruct (a_sc _ I sc' Hsc' m Hm) as [y [Hy Hym]].
    exists (Nat.iter (cnt (mt_id y) (sc_mems sc)) (mt_drop_iter c) y). split; [apply in_map_iff; eauto|now rewrite Hidk].
Qed.

Lemma remove_scan_V s sc cid : InvV (fun _ => 0) s -> In sc (ms_scans s) -> sc_id sc = cid ->
  InvV (fun w => ind (N.eqb w (sc_ver sc))) (set_scans s (filter (fun y => negb (N.eqb (sc_id y) cid)) (ms_scans s))).
Proof.
  intros I Hsc Hid. destruct (b_sc _ _ I sc Hsc) as [Hh _]. constructor; ms; try apply I.
  - intros w Hw. pose proof (b_arc _ _ I w Hw) as Ha. unfold ver_cnt in *. ms.
    assert (length (filter (fun sc0 => N.eqb (sc_ver sc0) (v_id w) && sc_holds sc0) (filter (fun y => negb (N.eqb (sc_id y) cid)) (ms_scans s))) +
            ind (N.eqb (v_id w) (sc_ver sc)) <= length (filter (fun sc0 => N.eqb (sc_ver sc0) (v_id w) && sc_holds sc0) (ms_scans s))); [|lia].
    clear Ha. induction (ms_scans s) as [|a r IH]; [destruct Hsc|]. destruct Hsc as [->|Hin].
    + cbn [filter]. rewrite Hid, N.eqb_refl. cbn [negb]. rewrite Hh, andb_true_r, (N.eqb_sym (sc_ver sc) (v_id w)).
      assert (forall l, length (filter (fun sc0 => N.eqb (sc_ver sc0) (v_id w) && sc_holds sc0) (filter (fun y => negb (N.eqb (sc_id y) cid)) l)) <=
                        length (filter (fun sc0 => N.eqb (sc_ver sc0) (v_id w) && sc_holds sc0) l)) as Hle.
      { induction l as [|b l IHl]; [cbn; lia|]. cbn [filter]. destruct (negb (N.eqb (sc_id b) cid)); cbn [filter];
          destruct (N.eqb (sc_ver b) (v_id w) && sc_holds b); cbn [length]; lia. }
      specialize (Hle r). destruct (N.eqb (v_id w) (sc_ver sc)); cbn [length ind]; lia.
    + specialize (IH Hin). cbn [filter]. destruct (negb (N.eqb (sc_id a) cid)); cbn [filter];
        destruct (N.eqb (sc_ver a) (v_id w) && sc_holds a); cbn [length]; lia.
  - intros sc' Hsc'. apply filter_In in Hsc'. destruct Hsc' as [Hsc' _]. now apply (b_sc _ _ I).
Qed.

Lemma step_close s cid : Inv s -> Inv (fst (mstep c s (EClose cid))) /\ safe_out (snd (mstep c s (EClose cid))).
Proof.
  intros [IA IV IR IS]. cbn [mstep]. destruct (find_scan s cid) as [sc|] eqn:Efs; cbn [fst snd].
  2:{ split; [constructor; assumption|split; discriminate]. }
  split; [|split; discriminate].
  apply find_scan_in in Efs. destruct Efs as [Hsc Hid].
  destruct (b_sc _ _ IV sc Hsc) as [Hh _].
  unfold do_close. cbv zeta. rewrite Hh.
  set (s1 := set_scans s (filter (fun y => negb (N.eqb (sc_id y) cid)) (ms_scans s))).
  destruct (fold_upd_mt (mt_drop_iter c) (fun y => proj1 (iter_drop_iter c 1 y Hio)) (sc_mems sc) s1) as [Emts Es2]. cbn zeta in Emts, Es2.
  set (s2 := fold_left (fun s m => upd_mt (mt_drop_iter c) m s) (sc_mems sc) s1) in *.
  assert (ms_vers s2 = ms_vers s /\ ms_scans s2 = ms_scans s1 /\ ms_cur s2 = ms_cur s /\ ms_next s2 = ms_next s /\ ms_refs s2 = ms_refs s /\
          ms_disk s2 = ms_disk s /\ ms_mem s2 = ms_mem s /\ ms_imm s2 = ms_imm s) as [E1 [E2 [E3 [E4 [E5 [E6 [E7 E8]]]]]]]
    by (rewrite Es2; repeat split).
  assert (InvA s2) as IA2.
  { pose proof (close_A s sc cid IA Hsc Hid) as HA. eapply InvA_ext; [| | | | |exact HA]; ms; try assumption; try (rewrite E4; lia);
      try (rewrite Emts; reflexivity). }
  assert (InvV (fun w => ind (N.eqb w (sc_ver sc))) s2) as IV2.
  { pose proof (remove_scan_V s sc cid IV Hsc Hid) as HV. eapply InvV_ext'; [| | | |exact HV]; ms; try assumption; try (rewrite E4; lia). }
  assert (InvR s2) as IR2 by (eapply InvR_ext; [| | |exact IR]; assumption).
  destruct (vref_drop_frame (sc_ver sc) s2) as [[F1 [F2 [F3 [F4 [F5 [F6 F7]]]]]] N1].
  constructor.
  - eapply InvA_ext; [| | | | |exact IA2]; try assumption. rewrite N1. lia.
  - eapply InvV_extra_ext; [|apply (vref_drop_V _ s2 (sc_ver sc) IV2 IR2)].
    + intros w. cbn beta. destruct (N.eqb w (sc_ver sc)); cbn [ind]; lia.
    + rewrite N.eqb_refl. cbn. lia.
  - apply (vref_drop_R _ s2 (sc_ver sc) IV2 IR2). rewrite N.eqb_refl. cbn. lia.
  - rewrite F7, E2. unfold s1. ms. now apply NoDup_filter_map.
Qed.

(* a write in its parts: only sequence numbers, or one entry of one memtable, change *)
Lemma step_fields s s' : Inv s -> ms_mts s' = ms_mts s -> ms_scans s' = ms_scans s -> ms_mem s' = ms_mem s -> ms_imm s' = ms_imm s ->
  ms_next s' = ms_next s -> ms_vers s' = ms_vers s -> ms_cur s' = ms_cur s -> ms_refs s' = ms_refs s -> ms_disk s' = ms_disk s -> Inv s'.
Proof.
  intros [IA IV IR IS] E1 E2 E3 E4 E5 E6 E7 E8 E9. constructor.
  - eapply InvA_ext; [| | | | |exact IA]; try assumption. rewrite E5. lia.
  - eapply InvV_ext'; [| | | |exact IV]; try assumption. rewrite E5. lia.
  - eapply InvR_ext; [| | |exact IR]; assumption.
  - rewrite E2. exact IS.
Qed.
Lemma step_assign s : Inv s -> Inv (fst (mstep c s EAssign)) /\ safe_out (snd (mstep c s EAssign)).
Proof. intros I. cbn [mstep fst snd]. split; [|split; discriminate]. apply (step_fields s); auto. Qed.
Lemma step_publish s n : Inv s -> Inv (fst (mstep c s (EPublish n))) /\ safe_out (snd (mstep c s (EPublish n))).
Proof.
  intros I. cbn [mstep]. destruct ((ms_vis s <? n)%N && (n <=? ms_seq s)%N); cbn [fst snd]; (split; [|split; discriminate]); [|exact I].
  apply (step_fields s); auto.
Qed.
Lemma step_insert s m k n v : Inv s -> Inv (fst (mstep c s (EInsert m k n v))) /\ safe_out (snd (mstep c s (EInsert m k n v))).
Proof.
  intros I. cbn [mstep]. destruct (insert_ok s m k n); cbn [fst snd]; (split; [|split; discriminate]); [|exact I].
  destruct I as [IA IV IR IS]. constructor.
  - apply upd_mt_keep; [|exact IA]. intros y. repeat split.
  - eapply InvV_ext'; [| | | |exact IV]; try reflexivity; try (ms; lia).
  - eapply InvR_ext; [| | |exact IR]; reflexivity.
  - exact IS.
Qed.

Theorem step_inv s e : Inv s -> Inv (fst (mstep c s e)) /\ safe_out (snd (mstep c s e)).
Proof.
  intros I. destruct e.
  - now apply step_write.
  - now apply step_rollover.
  - now apply step_flushdone.
  - now apply step_install.
  - now apply step_unlink.
  - now apply step_evict.
  - now apply step_open.
  - now apply step_step.
  - now apply step_close.
  - now apply step_assign.
  - now apply step_insert.
  - now apply step_publish.
Qed.

Theorem run_safe : forall es s, Inv s -> Forall safe_out (snd (mrun c s es)) /\ Inv (fst (mrun c s es)).
Proof.
  induction es as [|e es IH]; intros s I; cbn [mrun]; [split; [constructor|exact I]|].
  destruct (step_inv s e I) as [I' Hs]. destruct (mstep c s e) as [s' o] eqn:E. cbn [fst snd] in *.
  destruct o as [|ob|er].
  - destruct (IH s' I') as [H1 H2]. destruct (mrun c s' es) as [s'' os]. cbn [fst snd] in *. split; [constructor; assumption|exact H2].
  - destruct (IH s' I') as [H1 H2]. destruct (mrun c s' es) as [s'' os]. cbn [fst snd] in *. split; [constructor; assumption|exact H2].
  - cbn [fst snd]. split; [constructor; [exact Hs|constructor]|exact I'].
Qed.
End Steps.

Lemma concat_repeat_nil {A} n : concat (repeat (@nil A) n) = [].
Proof. induction n as [|k IH]; [reflexivity|]. cbn [repeat concat app]. exact IH. Qed.

Lemma init_inv seq : Inv (minit seq).
Proof.
  unfold minit. constructor.
  - constructor; ms.
    + intros y [<-|[]]. cbn. lia.
    + intros y [<-|[]]. discriminate.
    + intros y [<-|[]]. cbn. lia.
    + intros y [<-|[]] _. cbn. lia.
    + eexists. split; [now left|reflexivity].
    + discriminate.
    + intros sc [].
  - constructor; ms.
    + cbn. constructor; [intros []|constructor].
    + intros v [<-|[]]. cbn. lia.
    + intros v [<-|[]]. cbn. lia.
    + eexists. split; [now left|reflexivity].
    + intros sc [].
  - constructor; ms.
    + constructor.
    + intros f. cbn [file_cnt]. unfold v_files. cbn [v_levels]. rewrite concat_repeat_nil. cbn. lia.
    + intros f Hf. cbn in Hf. lia.
  - ms. constructor.
Qed.
