(* Snap/ProofsGrow.v — the growing-list version of the pruning theorem (C11_pruning):
   a PruningCursor at timestamp t over the skiplist iterator keeps behaving as the reference
   cursor over prune_spec t l0 (l0 = the list when the cursor was created) while other threads
   insert entries between its calls, provided every inserted entry is newer than t.
   The position of the iterator is a NODE, so it survives insertions; what makes the proof go
   through is that the simulation relation of the pruning theorem can be restated without the
   list: "standing on visible entry e, with skip key = key of e, is position #(visible entries
   before e)". *)
From Coq Require Import NArith ZArith List Bool Lia.
From Blue Require Import Cursor.Iface Cursor.Ref Cursor.Pruning Cursor.Spec Cursor.Proofs_Order Cursor.Proofs_Ref
  Cursor.Proofs_Spec Cursor.Proofs_Pruning Snap.Model Snap.ProofsPres Snap.ProofsLeaf.
Import ListNotations.
Local Open Scope Z_scope.

(* the entries a reader at t may see *)
Definition old (t : N) (l : list entry) : list entry := filter (fun e => N.leb (ets e) t) l.

Lemma forallb_filter_irrelevant {A} (f p : A -> bool) l :
  (forall x, In x l -> p x = false -> f x = true) -> forallb f (filter p l) = forallb f l.
Proof.
  induction l as [|a l IH]; intros H; [reflexivity|]. cbn [filter forallb].
  destruct (p a) eqn:E; cbn [forallb]; rewrite IH by (intros x Hx; apply H; now right); [reflexivity|].
  rewrite (H a) by (auto; now left). reflexivity.
Qed.

Lemma filter_filter_sub {A} (f p : A -> bool) l : (forall x, f x = true -> p x = true) -> filter f (filter p l) = filter f l.
Proof.
  intros H. induction l as [|a l IH]; [reflexivity|]. cbn [filter]. destruct (p a) eqn:E; cbn [filter]; rewrite IH; [reflexivity|].
  destruct (f a) eqn:Ef; [rewrite (H a Ef) in E; discriminate|reflexivity].
Qed.

Lemma visible_old t l e : visible t (old t l) e = visible t l e.
Proof.
  unfold visible. f_equal. f_equal. unfold old. apply forallb_filter_irrelevant.
  intros x _ Hx. unfold shadows. rewrite Hx. rewrite andb_false_r. reflexivity.
Qed.

Lemma prune_old t l : prune_spec t (old t l) = prune_spec t l.
Proof.
  unfold prune_spec. rewrite (filter_ext (visible t (old t l)) (visible t l)) by (intros; apply visible_old).
  unfold old. apply filter_filter_sub. intros x Hx. unfold visible in Hx.
  apply andb_prop in Hx. destruct Hx as [Hx _]. apply andb_prop in Hx. tauto.
Qed.

Lemma prune_late_ext t l l' : old t l' = old t l -> prune_spec t l' = prune_spec t l.
Proof. intros H. now rewrite <- (prune_old t l'), H, prune_old. Qed.

(* ---------------------------------------------------------------- a state determines its index *)
Lemma refines_unique {S} (c : cursor S) s L p p' : sorted L -> refines c s L p -> refines c s L p' -> p = p' \/ L = [].
Proof.
  intros Hs [Hr H] [Hr' H'].
  assert (forall prog, run (ref L) prog p = run (ref L) prog p') as E by (intros prog; now rewrite <- H, <- H').
  pose proof (E []) as E0. cbn [run] in E0. unfold observe in E0. cbn [ref c_kv c_fail] in E0. injection E0 as E0.
  destruct (ent L p) as [e|] eqn:Ep.
  - left. symmetry in E0. eapply (sorted_ent_inj L Hs p p' e e Ep E0). unfold eeq. apply ecmp_refl.
  - symmetry in E0. apply ent_none_inv in Ep. apply ent_none_inv in E0.
    destruct (Z.eq_dec p p') as [|Hne]; [now left|right].
    destruct L as [|a r]; [reflexivity|exfalso]. rewrite len_cons in *. pose proof (len_nonneg r).
    assert ((p = -1 /\ p' = len r + 1) \/ (p' = -1 /\ p = len r + 1)) as [[-> ->]|[-> ->]] by lia.
    + pose proof (E [ONext]) as E1. cbn [run step] in E1. unfold observe in E1. cbn [ref c_kv c_fail c_next] in E1. injection E1 as _ E1.
      unfold ref_next in E1. rewrite len_cons in E1.
      destruct (Z.leb_spec (len r + 1) (-1 + 1)); [lia|]. destruct (Z.leb_spec (len r + 1) (len r + 1 + 1)); [|lia].
      rewrite ent_cons_0 in E1. rewrite ent_none in E1 by (rewrite len_cons; lia). discriminate.
    + pose proof (E [ONext]) as E1. cbn [run step] in E1. unfold observe in E1. cbn [ref c_kv c_fail c_next] in E1. injection E1 as _ E1.
      unfold ref_next in E1. rewrite len_cons in E1.
      destruct (Z.leb_spec (len r + 1) (-1 + 1)); [lia|]. destruct (Z.leb_spec (len r + 1) (len r + 1 + 1)); [|lia].
      rewrite ent_cons_0 in E1. rewrite ent_none in E1 by (rewrite len_cons; lia). discriminate.
Qed.

(* ---------------------------------------------------------------- the relation without the list *)
Section Grow.
Variables (fuel : nat) (t : N).

Definition PG (PS : list entry) (st : pstate gstate) (P : Z) : Prop :=
  p_fail st = None /\
  match g_pos (p_cur st) with
  | GHead => P = -1 /\ p_skip st = None
  | GEnd => P = len PS
  | GAt e => In e PS /\ P = count (fun x => eltb x e) PS /\ p_skip st = Some (ek e)
  end.

(* the iterator stands on a node of its list *)
Definition gq (l : list entry) (g : gstate) : Prop :=
  g_tab g = l /\ match g_pos g with GAt e => In e l | _ => True end.

Lemma find_In {A} (q : A -> bool) l x : find q l = Some x -> In x l.
Proof. intros H. apply find_some in H. tauto. Qed.

Lemma gq_closed l : closed gfix (gq l).
Proof.
  intros o g [Ht Hp]. destruct o; cbn [step gfix gcur c_first c_last c_seek c_prev c_next]; (split; [cbn [g_tab]; exact Ht|]); cbn [g_pos]; rewrite ?Ht.
  - exact I.
  - exact I.
  - unfold g_seekpos. destruct (find _ l) eqn:E; [now apply find_In in E|exact I].
  - destruct (g_pos g); cbn [g_prev]; [exact I| |].
    + unfold g_pred. destruct (find _ (rev l)) eqn:E; [apply find_In in E; now apply in_rev|exact I].
    + unfold g_back. destruct (rev l) eqn:E; [exact I|]. apply in_rev. rewrite E. now left.
  - destruct (g_pos g); cbn [g_next]; [| |exact I].
    + unfold g_front. destruct l; [exact I|now left].
    + unfold g_succ. destruct (find _ l) eqn:E; [now apply find_In in E|exact I].
Qed.

Lemma gq_GR l g : gq l g -> exists q, GR l g q.
Proof.
  intros [Ht Hp]. destruct (g_pos g) as [|e|] eqn:E.
  - exists (-1). split; [exact Ht|]. now rewrite E.
  - destruct (In_ent l e Hp) as [i Hi]. exists i. split; [exact Ht|]. now rewrite E.
  - exists (len l). split; [exact Ht|]. now rewrite E.
Qed.

Section OneList.
Variable l : list entry.
Hypothesis Hs : sorted l.
Notation PS := (prune_spec t l).

Lemma PG_R st P : g_tab (p_cur st) = l -> PG PS st P -> pruning_R gfix t l st P.
Proof.
  intros Ht [Hf H]. split; [exact Hf|]. destruct (g_pos (p_cur st)) as [|e|] eqn:E.
  - destruct H as [-> Hsk]. exists (-1). split; [apply (GR_refines l Hs); split; [exact Ht|now rewrite E]|]. left. auto.
  - destruct H as [Hin [-> Hsk]]. unfold prune_spec in Hin. apply filter_In in Hin. destruct Hin as [Hin Hv].
    destruct (In_ent l e Hin) as [p Hp]. pose proof (ent_at_inv l p e Hp) as [Hat Hr].
    exists p. split; [apply (GR_refines l Hs); split; [exact Ht|now rewrite E]|]. right. left.
    split; [exact Hr|]. rewrite <- Hat. split; [exact Hv|]. split; [|exact Hsk].
    unfold prune_spec. rewrite (count_filter_prefix _ _ l Hs (before_downclosed e)). now rewrite (idx_before l Hs p e Hp).
  - subst P. exists (len l). split; [apply (GR_refines l Hs); split; [exact Ht|now rewrite E]|]. right. right. auto.
Qed.

Lemma R_PG st P : l <> [] -> gq l (p_cur st) -> pruning_R gfix t l st P -> PG PS st P.
Proof.
  intros Hne Hq [Hf [p [Hr HR]]]. destruct (gq_GR l _ Hq) as [q Hgr].
  destruct (refines_unique gfix _ l p q Hs Hr (GR_refines l Hs _ _ Hgr)) as [->|E]; [|contradiction].
  split; [exact Hf|]. destruct Hgr as [_ Hpos]. pose proof (len_nonneg l) as Hl.
  destruct (g_pos (p_cur st)) as [|e|] eqn:E.
  - subst q. destruct HR as [[_ [-> Hsk]]|[[Hr' _]|[Hr' _]]]; [auto|lia|].
    exfalso. destruct l; [congruence|]. rewrite len_cons in Hr'. pose proof (len_nonneg l0). lia.
  - pose proof (ent_at_inv l q e Hpos) as [Hat Hrange].
    destruct HR as [[-> _]|[[_ [Hv [-> Hsk]]]|[-> _]]]; [lia| |lia]. rewrite <- Hat in *.
    split; [unfold prune_spec; apply filter_In; split; [eapply ent_In; eauto|exact Hv]|]. split; [|exact Hsk].
    unfold prune_spec. rewrite (count_filter_prefix _ _ l Hs (before_downclosed e)). now rewrite (idx_before l Hs q e Hpos).
  - subst q. destruct HR as [[Hq' _]|[[Hr' _]|[_ ->]]]; [|lia|reflexivity].
    exfalso. destruct l; [congruence|]. rewrite len_cons in Hq'. pose proof (len_nonneg l0). lia.
Qed.
End OneList.

(* ---- over the empty list nothing moves *)
Definition I0 (st : pstate gstate) : Prop :=
  g_tab (p_cur st) = [] /\ p_skip st = None /\ p_fail st = None /\ (g_pos (p_cur st) = GHead \/ g_pos (p_cur st) = GEnd).

Lemma I0_step o st : (1 <= fuel)%nat -> I0 st ->
  I0 (step (pruning gfix fuel t) o st) /\ observe (pruning gfix fuel t) (step (pruning gfix fuel t) o st) = (None, None).
Proof.
  intros Hfu [Ht [Hsk [Hf Hp]]]. destruct st as [[tab pos] sk fl]. cbn [p_cur p_skip p_fail g_tab g_pos] in *. subst tab sk fl.
  destruct fuel as [|f]; [lia|].
  destruct o; cbn [step pruning c_first c_last c_seek c_prev c_next p_guard p_fail].
  - cbv. repeat split; auto.
  - cbv. repeat split; auto.
  - unfold p_seek_raw. cbn [p_cur p_fail gfix gcur c_seek g_tab]. cbn [g_seekpos find]. cbn. repeat split; auto.
  - unfold p_prev_raw. destruct Hp as [-> | ->]; cbn; repeat split; auto.
  - unfold p_next_raw. destruct Hp as [-> | ->]; cbn; repeat split; auto.
Qed.

(* ---------------------------------------------------------------- the theorem *)
Inductive gev := GIns (l' : list entry) | GOp (o : op).

(* the environment swaps in a longer list under the iterator; the cursor is called *)
Fixpoint grun (st : pstate gstate) (evs : list gev) : list obs :=
  match evs with
  | [] => []
  | GIns l' :: r => grun (mkP (mkG l' (g_pos (p_cur st))) (p_skip st) (p_fail st)) r
  | GOp o :: r => let st' := step (pruning gfix fuel t) o st in observe (pruning gfix fuel t) st' :: grun st' r
  end.
Fixpoint gref (L : list entry) (P : Z) (evs : list gev) : list obs :=
  match evs with
  | [] => []
  | GIns _ :: r => gref L P r
  | GOp o :: r => let P' := step (ref L) o P in observe (ref L) P' :: gref L P' r
  end.

(* every list the iterator is shown: sorted, keeps the nodes the iterator may stand on (it only
   grows), differs from the first one only in entries newer than t, and the fuel covers it *)
Definition good_list (l0 l' : list entry) : Prop :=
  sorted l' /\ (forall e, In e l0 -> In e l') /\ old t l' = old t l0 /\ (Z.of_nat fuel >= len l' + 2).
Fixpoint good_evs (l0 lcur : list entry) (evs : list gev) : Prop :=
  match evs with
  | [] => True
  | GIns l' :: r => good_list l0 l' /\ (forall e, In e lcur -> In e l') /\ good_evs l0 l' r
  | GOp _ :: r => good_evs l0 lcur r
  end.

Definition Jinv (l0 l : list entry) (st : pstate gstate) (Pref : Z) : Prop :=
  gq l (p_cur st) /\
  ((l = [] /\ I0 st) \/ (l <> [] /\ exists P, PG (prune_spec t l0) st P /\ (prune_spec t l0 = [] \/ P = Pref))).

Lemma grun_gref l0 : forall evs l st Pref,
  good_list l0 l -> Jinv l0 l st Pref -> -1 <= Pref <= len (prune_spec t l0) -> good_evs l0 l evs ->
  grun st evs = gref (prune_spec t l0) Pref evs.
Proof.
  set (PS := prune_spec t l0).
  induction evs as [|ev evs IH]; intros l st Pref Hg HJ HP He; [reflexivity|].
  destruct ev as [l'|o]; cbn [grun gref good_evs] in *.
  - (* the list grows *)
    destruct He as [Hg' [Hsub He]]. apply (IH l' _ Pref Hg'); [|exact HP|exact He].
    destruct HJ as [[Ht Hpos] HJ]. split.
    + split; [reflexivity|]. cbn [p_cur g_pos]. destruct (g_pos (p_cur st)); auto.
    + destruct HJ as [[-> [H1 [H2 [H3 H4]]]]|[Hne [P [HPG HP']]]].
      * destruct l' as [|a r]; [left; split; [reflexivity|]; repeat split; cbn [p_cur p_skip p_fail g_tab g_pos]; auto|].
        right. split; [discriminate|].
        assert (PS = []) as HPS.
        { unfold PS. destruct Hg as [_ [_ [Ho _]]]. rewrite (prune_late_ext t [] l0 (eq_sym Ho)). reflexivity. }
        destruct H4 as [E|E].
        -- exists (-1). split; [|now left]. split; [exact H3|]. cbn [p_cur g_pos]. rewrite E. auto.
        -- exists (len PS). split; [|now left]. split; [exact H3|]. cbn [p_cur g_pos]. rewrite E. reflexivity.
      * destruct l' as [|a r].
        -- exfalso. destruct l as [|b l1]; [congruence|]. apply (Hsub b). now left.
        -- right. split; [discriminate|]. exists P. split; [|exact HP'].
           destruct HPG as [Hf H]. split; [exact Hf|]. exact H.
  - (* a call *)
    destruct Hg as [Hs [Hin [Ho Hfu]]]. destruct HJ as [Hq HJ].
    assert (gq l (p_cur (step (pruning gfix fuel t) o st))) as Hq' by (apply (pres_pruning gfix (gq l) (gq_closed l) fuel t o st Hq)).
    assert (prune_spec t l = PS) as HPSl by (apply prune_late_ext; exact Ho).
    destruct HJ as [[-> HI0]|[Hne [P [HPG HP']]]].
    + assert (1 <= fuel)%nat as Hf1 by (pose proof (len_nonneg (@nil entry)); lia).
      destruct (I0_step o st Hf1 HI0) as [HI0' Hobs]. rewrite Hobs.
      assert (PS = []) as HPS by (rewrite <- HPSl; reflexivity).
      assert (observe (ref PS) (step (ref PS) o Pref) = (None, None)) as -> by (rewrite HPS; unfold observe; cbn [ref c_kv c_fail]; now rewrite ent_nil).
      f_equal. apply (IH [] _ _ (conj Hs (conj Hin (conj Ho Hfu)))); [split; [exact Hq'|left; auto]| |exact He].
      apply ref_step_range. exact HP.
    + fold PS in HPG, HP'. rewrite <- HPSl in HPG. pose proof (PG_R l Hs st P (proj1 Hq) HPG) as HR.
      pose proof (pruning_sim gfix fuel t l Hs Hfu) as Hsim.
      pose proof (sim_step _ _ _ Hsim o st P HR) as HR'.
      pose proof (sim_kv _ _ _ Hsim _ _ HR') as Hkv. pose proof (sim_fail _ _ _ Hsim _ _ HR') as Hfl.
      pose proof (R_PG l Hs _ _ Hne Hq' HR') as HPG'. rewrite HPSl in *.
      assert (observe (pruning gfix fuel t) (step (pruning gfix fuel t) o st) = observe (ref PS) (step (ref PS) o Pref)) as Hobs.
      { unfold observe. rewrite Hkv, Hfl. cbn [ref c_fail c_kv]. destruct HP' as [E| ->]; [|reflexivity].
        rewrite E. now rewrite !ent_nil. }
      rewrite Hobs. f_equal.
      apply (IH l _ _ (conj Hs (conj Hin (conj Ho Hfu)))); [split; [exact Hq'|right; split; [exact Hne|]]| |exact He].
      * exists (step (ref PS) o P). split; [exact HPG'|]. destruct HP' as [E| ->]; [now left|now right].
      * apply ref_step_range. exact HP.
Qed.
End Grow.

(* The key lemma of C07.  A pruning cursor at t is created over the skiplist iterator of a list
   l0; between its calls the list is replaced any number of times by longer lists that differ
   from l0 only in entries NEWER than t (writes that completed after the scan was opened).  Every
   observation is the reference cursor's over prune_spec t l0, and no loop runs out of fuel. *)
Theorem pruning_screens_late_writes fuel t l0 evs :
  good_list fuel t l0 l0 -> good_evs fuel t l0 l0 evs ->
  grun fuel t (p_new gfix (g_new l0)) evs = gref (prune_spec t l0) (-1) evs.
Proof.
  intros Hg He. apply (grun_gref fuel t l0 evs l0 _ (-1) Hg); [| |exact He].
  - split; [split; [reflexivity|exact I]|]. unfold p_new, g_new. cbn [gfix c_first g_tab].
    destruct l0 as [|a r].
    + left. split; [reflexivity|]. repeat split; cbn [p_cur p_skip p_fail g_tab g_pos]; auto.
    + right. split; [discriminate|]. exists (-1). split; [|now right]. split; [reflexivity|]. cbn [p_cur g_pos]. auto.
  - pose proof (len_nonneg (prune_spec t l0)). lia.
Qed.
