(* Snap/ProofsLTP.v — logical positions over a sorted list: an index i of l seen from the sublist
   `filter W l` (the entries the snapshot keeps): it is entry j of the sublist, or it lies in the
   gap before entry g.  Arithmetic shared by the children of a late-tolerant merge (ProofsLTK). *)
From Coq Require Import NArith ZArith List Bool Lia.
From Blue Require Import Cursor.Iface Cursor.Ref Cursor.Spec Cursor.Proofs_Order Cursor.Proofs_Ref Cursor.Proofs_Pruning
  Snap.ProofsLT.
Import ListNotations.
Local Open Scope Z_scope.

Lemma nxt_of_nu p p' : nu p' = nu_next p -> nxt p p'.
Proof. destruct p as [j|g], p' as [j'|g']; cbn; intros <-; auto. Qed.
Lemma prv_of_rho p p' : rho p' = nu p - 1 -> prv p p'.
Proof. destruct p as [j|g], p' as [j'|g']; cbn; intros H; [right|left|right|left]; f_equal; lia. Qed.
Lemma nxt_nu p p' : nxt p p' -> nu p' = nu_next p.
Proof. destruct p as [j|g]; cbn; intros [-> | ->]; reflexivity. Qed.
Lemma prv_rho p p' : prv p p' -> rho p' = nu p - 1.
Proof. destruct p as [j|g]; cbn; intros [-> | ->]; cbn; lia. Qed.

Section LPos.
Variables (W : entry -> bool) (l : list entry).
Hypothesis Hs : sorted l.

Notation n := (len l).
Notation Ok := (filter W l).
Notation nk := (len (filter W l)).
Notation g := (rank W l).

Definition lpos_of (i : Z) : lpos :=
  match ent l i with
  | Some e => if W e then LAt (g i) else LGap (g i)
  | None => LGap (g i)
  end.

Lemma g_step_W i e : ent l i = Some e -> W e = true -> g (i + 1) = g i + 1.
Proof. intros He Hw. rewrite (rank_step W l i e He), Hw. reflexivity. Qed.
Lemma g_step_nW i e : ent l i = Some e -> W e = false -> g (i + 1) = g i.
Proof. intros He Hw. rewrite (rank_step W l i e He), Hw. lia. Qed.
Lemma g_neg i : i <= 0 -> g i = 0.
Proof. apply rank_neg. Qed.
Lemma g_end i : n <= i -> g i = nk.
Proof. apply rank_len. Qed.
Lemma g_range i : 0 <= g i <= nk.
Proof. apply rank_range. Qed.
Lemma g_none i : ent l i = None -> g (i + 1) = g i.
Proof.
  intros H. apply ent_none_inv in H. destruct H as [H|H]; [rewrite !g_neg by lia; reflexivity|rewrite !g_end by lia; reflexivity].
Qed.

Lemma nu_lpos i : nu (lpos_of i) = g i.
Proof. unfold lpos_of. destruct (ent l i) as [e|]; [destruct (W e)|]; reflexivity. Qed.
Lemma nu_next_lpos i : nu_next (lpos_of i) = g (i + 1).
Proof.
  unfold lpos_of. destruct (ent l i) as [e|] eqn:He.
  - destruct (W e) eqn:Hw; cbn [nu_next]; [now rewrite (g_step_W i e)|now rewrite (g_step_nW i e)].
  - cbn [nu_next]. now rewrite g_none.
Qed.
Lemma rho_lpos i : rho (lpos_of i) = g (i + 1) - 1.
Proof.
  unfold lpos_of. destruct (ent l i) as [e|] eqn:He.
  - destruct (W e) eqn:Hw; cbn [rho]; [rewrite (g_step_W i e) by assumption|rewrite (g_step_nW i e) by assumption]; lia.
  - cbn [rho]. now rewrite g_none.
Qed.

(* no entry of the sublist between two indices *)
Lemma g_skip i j : i <= j -> (forall k e, i <= k < j -> ent l k = Some e -> W e = false) -> g j = g i.
Proof.
  intros Hij Hno. replace j with (i + Z.of_nat (Z.to_nat (j - i))) by lia.
  assert (i + Z.of_nat (Z.to_nat (j - i)) <= j) as Hle by lia. revert Hle.
  induction (Z.to_nat (j - i)) as [|k IH]; intros Hle; [f_equal; lia|].
  rewrite Nat2Z.inj_succ in *. unfold Z.succ in *. replace (i + (Z.of_nat k + 1)) with (i + Z.of_nat k + 1) by lia.
  destruct (ent l (i + Z.of_nat k)) as [e|] eqn:He.
  - rewrite (g_step_nW _ e He); [apply IH; lia|]. apply (Hno (i + Z.of_nat k)); [lia|exact He].
  - rewrite g_none by exact He. apply IH. lia.
Qed.

(* the sublist's entries, by rank *)
Lemma Ok_at i e : ent l i = Some e -> W e = true -> 0 <= g i < nk /\ at_ Ok (g i) = e.
Proof.
  intros He Hw. pose proof (ent_filter_rank W l i e He Hw) as H. pose proof (ent_range _ _ _ H).
  split; [assumption|]. destruct (ent_at_inv _ _ _ H) as [E _]. now symmetry.
Qed.
Lemma Ok_inv j y : ent Ok j = Some y -> exists i, ent l i = Some y /\ W y = true /\ g i = j.
Proof.
  intros Hy. pose proof (ent_In _ _ _ Hy) as Hin. apply filter_In in Hin. destruct Hin as [Hin Hw].
  destruct (In_ent _ _ Hin) as [i Hi]. exists i. split; [exact Hi|]. split; [exact Hw|].
  pose proof (ent_filter_rank W l i y Hi Hw) as H.
  apply (sorted_ent_inj Ok (sorted_filter W l Hs) (g i) j y y H Hy). unfold eeq. apply ecmp_refl.
Qed.

(* an entry outside the sublist lies strictly between its neighbours in the sublist *)
Lemma gap_before_next i x : ent l i = Some x -> W x = false -> g i < nk -> elt x (at_ Ok (g i)).
Proof.
  intros Hx Hw Hlt. pose proof (g_range i) as Hr.
  destruct (Ok_inv (g i) (at_ Ok (g i)) (ent_at Ok (g i) ltac:(lia))) as [j [Hj [Hwj Hgj]]].
  assert (i < j) as Hij.
  { destruct (Z_lt_dec i j); [assumption|exfalso]. destruct (Z.eq_dec i j) as [->|]; [congruence|].
    pose proof (rank_mono W l (j + 1) i ltac:(lia)). rewrite (g_step_W j _ Hj Hwj) in H. lia. }
  eapply (sorted_ent_lt l Hs i j); eauto.
Qed.
Lemma gap_after_prev i x : ent l i = Some x -> W x = false -> 0 < g i -> elt (at_ Ok (g i - 1)) x.
Proof.
  intros Hx Hw Hlt. pose proof (g_range i) as Hr.
  destruct (Ok_inv (g i - 1) (at_ Ok (g i - 1)) (ent_at Ok (g i - 1) ltac:(lia))) as [j [Hj [Hwj Hgj]]].
  assert (j < i) as Hij.
  { destruct (Z_lt_dec j i); [assumption|exfalso]. pose proof (rank_mono W l i j ltac:(lia)). lia. }
  eapply (sorted_ent_lt l Hs j i); eauto.
Qed.

Lemma lpos_at i j : lpos_of i = LAt j -> exists e, ent l i = Some e /\ W e = true /\ j = g i /\ 0 <= j < nk /\ at_ Ok j = e.
Proof.
  unfold lpos_of. destruct (ent l i) as [e|] eqn:He; [|discriminate]. destruct (W e) eqn:Hw; [|discriminate].
  intros E. injection E as <-. destruct (Ok_at i e He Hw) as [H1 H2]. exists e. auto.
Qed.
Lemma lpos_gap i k : lpos_of i = LGap k -> k = g i /\ 0 <= k <= nk /\
  match ent l i with Some x => W x = false | None => True end.
Proof.
  unfold lpos_of. pose proof (g_range i). destruct (ent l i) as [e|] eqn:He.
  - destruct (W e) eqn:Hw; [discriminate|]. intros E. injection E as <-. auto.
  - intros E. injection E as <-. auto.
Qed.

(* seek *)
Lemma seek_lpos k : count (below k) Ok = g (count (below k) l).
Proof. apply (count_filter_prefix W (below k) l Hs (below_downclosed k)). Qed.
End LPos.

(* ---------------------------------------------------------------- a child that is an exact reference cursor
   over a list that never changes (the cursor over the files of the version) *)
Section ExactK.
Context {S : Type} (c : cursor S) (t : N) (l : list entry).
Hypothesis Hs : sorted l.

Definition oldb (e : entry) : bool := N.leb (ets e) t.
Notation n := (len l).
Notation Ok := (filter oldb l).

Definition XK (s : S) (p : lpos) (a b : Z) : Prop :=
  exists i, refines c s l i /\ p = lpos_of oldb l i /\ a = n - i + 1 /\ b = i + 2.

Lemma xk_at s j a b : XK s (LAt j) a b -> 0 <= j < len Ok /\ c_kv c s = Some (at_ Ok j).
Proof.
  intros [i [Hr [Hp _]]]. symmetry in Hp. destruct (lpos_at oldb l i j Hp) as [e [He [_ [_ [Hj Hat]]]]].
  split; [exact Hj|]. rewrite (refines_kv c _ _ _ Hr). cbn [ref c_kv]. now rewrite He, Hat.
Qed.
Lemma xk_gap s g a b : XK s (LGap g) a b -> 0 <= g <= len Ok /\
  match c_kv c s with
  | None => True
  | Some x => (t < ets x)%N /\ (g < len Ok -> elt x (at_ Ok g)) /\ (0 < g -> elt (at_ Ok (g - 1)) x)
  end.
Proof.
  intros [i [Hr [Hp _]]]. symmetry in Hp. destruct (lpos_gap oldb l i g Hp) as [-> [Hg Hx]]. split; [exact Hg|].
  rewrite (refines_kv c _ _ _ Hr). cbn [ref c_kv]. destruct (ent l i) as [x|] eqn:He; [|exact I].
  split; [unfold oldb in Hx; now apply N.leb_gt in Hx|]. split.
  - now apply (gap_before_next oldb l Hs i x).
  - now apply (gap_after_prev oldb l Hs i x).
Qed.
Lemma xk_in s p a b x : XK s p a b -> c_kv c s = Some x -> In x l.
Proof. intros [i [Hr _]] Hx. rewrite (refines_kv c _ _ _ Hr) in Hx. eapply ent_In; eauto. Qed.
Lemma xk_meas s p a b : XK s p a b -> 0 <= a <= n + 2 /\ 0 <= b <= n + 2.
Proof. intros [i [Hr [_ [-> ->]]]]. pose proof (refines_range c _ _ _ Hr). lia. Qed.
Lemma xk_fail s p a b : XK s p a b -> c_fail c s = None.
Proof. intros [i [Hr _]]. exact (refines_fail c _ _ _ Hr). Qed.

Lemma xk_next s p a b : XK s p a b -> exists p' a' b',
  XK (c_next c s) p' a' b' /\ nxt p p' /\ (c_kv c (c_next c s) = None -> p' = LGap (len Ok)) /\
  ((c_kv c s = None /\ c_kv c (c_next c s) = None) \/ a' < a).
Proof.
  intros [i [Hr [-> [-> ->]]]]. pose proof (refines_range c _ _ _ Hr) as Hi. pose proof (refines_next c _ _ _ Hr) as Hn.
  set (i' := ref_next l i) in *. exists (lpos_of oldb l i'), (n - i' + 1), (i' + 2).
  assert (i' = Z.min (i + 1) n) as Ei by (unfold i', ref_next; destruct (Z.leb_spec n (i + 1)); lia).
  split; [exists i'; auto|]. split; [|split].
  - apply nxt_of_nu. rewrite nu_next_lpos, nu_lpos.
    destruct (Z.leb_spec n (i + 1)); [rewrite !g_end by lia; reflexivity|f_equal; lia].
  - intros Hk. rewrite (refines_kv c _ _ _ Hn) in Hk. cbn [ref c_kv] in Hk. apply ent_none_inv in Hk.
    assert (i' = n) as -> by lia. unfold lpos_of. rewrite ent_none by lia. now rewrite g_end by lia.
  - destruct (Z.eq_dec i n) as [->|Hne]; [left|right; lia].
    rewrite (refines_kv c _ _ _ Hr), (refines_kv c _ _ _ Hn). cbn [ref c_kv]. rewrite !ent_none by lia. auto.
Qed.

Lemma xk_prev s p a b : XK s p a b -> exists p' a' b',
  XK (c_prev c s) p' a' b' /\ prv p p' /\ (c_kv c (c_prev c s) = None -> p' = LGap 0) /\
  ((c_kv c s = None /\ c_kv c (c_prev c s) = None) \/ b' < b) /\
  (forall x y, c_kv c s = Some x -> c_kv c (c_prev c s) = Some y -> elt y x).
Proof.
  intros [i [Hr [-> [-> ->]]]]. pose proof (refines_range c _ _ _ Hr) as Hi. pose proof (refines_prev c _ _ _ Hr) as Hn.
  set (i' := ref_prev i) in *. exists (lpos_of oldb l i'), (n - i' + 1), (i' + 2).
  assert (i' = Z.max (i - 1) (-1)) as Ei by (unfold i', ref_prev; destruct (Z.ltb_spec (i - 1) 0); lia).
  split; [exists i'; auto|]. split; [|split; [|split]].
  - apply prv_of_rho. rewrite rho_lpos, nu_lpos.
    destruct (Z.eq_dec i (-1)) as [->|Hne]; [rewrite !g_neg by lia; reflexivity|]. replace (i' + 1) with i by lia. reflexivity.
  - intros Hk. rewrite (refines_kv c _ _ _ Hn) in Hk. cbn [ref c_kv] in Hk. apply ent_none_inv in Hk.
    assert (i' = -1) as -> by lia. unfold lpos_of. rewrite ent_none by lia. now rewrite g_neg by lia.
  - destruct (Z.eq_dec i (-1)) as [->|Hne]; [left|right; lia].
    rewrite (refines_kv c _ _ _ Hr), (refines_kv c _ _ _ Hn). cbn [ref c_kv]. rewrite !ent_none by lia. auto.
  - intros x y Hx Hy. rewrite (refines_kv c _ _ _ Hr) in Hx. rewrite (refines_kv c _ _ _ Hn) in Hy. cbn [ref c_kv] in Hx, Hy.
    pose proof (ent_range _ _ _ Hx). pose proof (ent_range _ _ _ Hy). apply (sorted_ent_lt l Hs i' i y x); [lia|exact Hy|exact Hx].
Qed.

Lemma xk_seek s p a b k : XK s p a b -> exists p' a' b',
  XK (c_seek c k s) p' a' b' /\ nu p' = count (below k) Ok /\ (c_kv c (c_seek c k s) = None -> p' = LGap (len Ok)).
Proof.
  intros [i [Hr _]]. pose proof (refines_seek c _ _ _ k Hr) as Hn. set (i' := count (below k) l) in *.
  pose proof (count_range (below k) l) as Hi'. fold i' in Hi'.
  exists (lpos_of oldb l i'), (n - i' + 1), (i' + 2). split; [exists i'; auto|]. split.
  - rewrite nu_lpos. symmetry. apply (seek_lpos oldb l Hs k).
  - intros Hk. rewrite (refines_kv c _ _ _ Hn) in Hk. cbn [ref c_kv] in Hk. apply ent_none_inv in Hk.
    assert (i' = n) as -> by lia. unfold lpos_of. rewrite ent_none by lia. now rewrite g_end by lia.
Qed.

Lemma xk_first s p a b : XK s p a b -> exists a' b', XK (c_first c s) (LGap 0) a' b' /\ c_kv c (c_first c s) = None.
Proof.
  intros [i [Hr _]]. pose proof (refines_first c _ _ _ Hr) as Hn. exists (n - (-1) + 1), (-1 + 2). split.
  - exists (-1). split; [exact Hn|]. split; [|auto]. unfold lpos_of. rewrite ent_none by lia. now rewrite g_neg by lia.
  - rewrite (refines_kv c _ _ _ Hn). cbn [ref c_kv]. apply ent_none. lia.
Qed.
Lemma xk_last s p a b : XK s p a b -> exists a' b', XK (c_last c s) (LGap (len Ok)) a' b' /\ c_kv c (c_last c s) = None.
Proof.
  intros [i [Hr _]]. pose proof (refines_last c _ _ _ Hr) as Hn. exists (n - n + 1), (n + 2). split.
  - exists n. split; [exact Hn|]. split; [|auto]. unfold lpos_of. rewrite ent_none by lia. now rewrite g_end by lia.
  - rewrite (refines_kv c _ _ _ Hn). cbn [ref c_kv]. apply ent_none. lia.
Qed.
Lemma xk_refirst s p a b : XK s p a b ->
  c_kv c (c_next c (c_first c (c_next c (c_first c s)))) = c_kv c (c_next c (c_first c s)).
Proof.
  intros [i [Hr _]]. pose proof (refines_next c _ _ _ (refines_first c _ _ _ Hr)) as H1.
  pose proof (refines_next c _ _ _ (refines_first c _ _ _ H1)) as H2.
  now rewrite (refines_kv c _ _ _ H1), (refines_kv c _ _ _ H2).
Qed.
Lemma xk_relast s p a b : XK s p a b ->
  c_kv c (c_prev c (c_last c (c_prev c (c_last c s)))) = c_kv c (c_prev c (c_last c s)).
Proof.
  intros [i [Hr _]]. pose proof (refines_prev c _ _ _ (refines_last c _ _ _ Hr)) as H1.
  pose proof (refines_prev c _ _ _ (refines_last c _ _ _ H1)) as H2.
  now rewrite (refines_kv c _ _ _ H1), (refines_kv c _ _ _ H2).
Qed.
(* where a fresh child stands *)
Lemma xk_start s : refines c s l (-1) -> XK s (LGap 0) (n + 2) 1.
Proof. intros Hr. exists (-1). split; [exact Hr|]. split; [|lia]. unfold lpos_of. rewrite ent_none by lia. now rewrite g_neg by lia. Qed.
End ExactK.
