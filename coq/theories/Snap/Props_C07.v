(* Props_C07.v — the property theorems for C07 and nothing else.
   C07: "A scan cursor is a stable, memory-safe snapshot while the store moves under it". *)
From Coq Require Import NArith ZArith List Bool Arith.
From Blue Require Import Cursor.Iface Cursor.Ref Cursor.Bounds Cursor.Pruning Cursor.Spec Cursor.Proofs_Ref Cursor.Proofs_Spec
  Snap.Model Snap.ProofsSafe Snap.ProofsLeaf Snap.ProofsGrow Snap.ProofsScan Snap.ProofsSpec Snap.ProofsStable Snap.ProofsLTG Snap.ProofsWF.
Import ListNotations.
Local Open Scope N_scope.

(* Under the repaired lifetime rules (41f488d: a skiplist iterator shares ownership of the nodes;
   a899047: the scan cursor owns the VersionRef it was opened on), from a freshly opened store, for
   EVERY finite interleaving of completed write batches, rollovers, flush completions, installs of
   arbitrary new versions (compactions, moves, garbage collections), removals from trash/, cache
   evictions, scan openings with any bounds, cursor calls (first / last / seek / prev / next, on
   any number of cursors) and cursor drops, with or without an sst cache:
   no step ends in UAF (a cursor call on a memtable whose nodes were freed) or in ENOENT (a lazy
   cursor opening an sst that is neither in sst/, nor cached, nor held open). *)
Theorem C07_no_freed_memory_no_missing_file : forall c seq es,
  cf_iter_owns c = true -> cf_holds_ver c = true ->
  Forall (fun o => o <> OErr UAF /\ o <> OErr ENOENT) (snd (mrun c (minit seq) es)).
Proof. intros c seq es H1 H2. exact (proj1 (run_safe c H1 H2 es (minit seq) (init_inv seq))). Qed.

(* the lifetime invariant behind it holds in every reachable state: a memtable that a live scan
   iterates is not freed; every version a live scan holds exists, every file of an existing
   version is counted by the reference counter, and a counted file is in sst/ *)
Theorem C07_lifetime_invariant_reachable : forall c seq es,
  cf_iter_owns c = true -> cf_holds_ver c = true -> Inv (fst (mrun c (minit seq) es)).
Proof. intros c seq es H1 H2. exact (proj2 (run_safe c H1 H2 es (minit seq) (init_inv seq))). Qed.

(* ---- stability of what the cursor shows.
   `scan_list lo hi t ls v` (ProofsScan) is the composed specification of the nesting that
   KeyValueStore::range_scan builds: bounds_spec lo hi (prune_spec t (sorted union of the
   memtables' entries within the bounds and of the version's files)) - per key the newest version
   not newer than t unless it is a tombstone, within the bounds: the contents at scan-open time.
   `scan_wf` asks what the combinators need (sorted memtables and files, levels sorted end to end,
   no (key, timestamp) twice); the check evaluates it on every scan it opens on the real store. *)

(* a freshly built scan cursor over lists that do not change IS the reference cursor over the
   contents: every program of seek_to_first / seek_to_last / seek / prev / next, no failure, no
   loop out of fuel *)
Theorem C07_fresh_scan_is_reference_cursor : forall fuel lo hi t (mems : list (N * list entry)) v,
  scan_wf lo hi (map snd mems) v -> (total_size (map snd mems) v + 2 <= fuel)%nat ->
  refines (xcur fuel scan_depth) (scan_new fuel lo hi t mems v) (scan_list lo hi t (map snd mems) v) (-1).
Proof. exact scan_new_refines. Qed.

(* the composed specification is the contents-based one: per key the newest version not newer than
   t unless it is a tombstone, within the bounds, over EVERY entry of the memtables and the version *)
Theorem C07_scan_list_is_the_contents : forall lo hi t ls v,
  scan_wf lo hi ls v -> distinct (all_entries ls v) ->
  scan_list lo hi t ls v = bounds_spec lo hi (prune_spec t (fold_right insert_sorted [] (all_entries ls v))).
Proof. exact scan_list_is_contents. Qed.

(* the hypotheses about the store at scan-open are decidable; the check evaluates this boolean at
   every scan it opens on the real store *)
Theorem C07_open_hypotheses_checkable : forall c s lo hi, open_wfb c s lo hi = true ->
  scan_wf lo hi (map (look_of s) (open_mems s)) (cur_levels s) /\
  distinct (all_entries (map (look_of s) (open_mems s)) (cur_levels s)) /\
  (total_size (map (look_of s) (open_mems s)) (cur_levels s) + 2 <= cf_fuel c)%nat.
Proof.
  intros c s lo hi H. unfold open_wfb in H. apply andb_prop in H. destruct H as [H H3]. apply andb_prop in H. destruct H as [H1 H2].
  split; [now apply scan_wfb_ok|]. split; [now apply distinct_of_bool|now apply Nat.leb_le].
Qed.

(* In the machine: a cursor opened after ANY history es1 and then held across ANY further events
   es2 - rollovers, flush completions (dropping the memtable it iterates), installs of arbitrary
   new versions (retiring the ssts it reads), removals from trash/, cache evictions, other cursors
   opened, used and dropped, its own calls in any order and direction, and writes once a rollover
   has swapped out the memtable it was opened on - returns, call by call, exactly what the
   reference cursor over `scan_spec s1 lo hi` returns: the contents the store had when the scan was
   opened (Model.scan_spec: bounds_spec lo hi (prune_spec visible_seq_no (all entries, sorted))).
   (`quietb` excludes only writes into the memtable the cursor was opened on while it is still the
   active one; C07_cursor_snapshot_stable below has no such restriction, at the price of the
   stronger, still decidable, hypotheses `open_tsb`, `held_ok`, `fuel_enoughb`.)
   The hypotheses `no_err` exclude ill-formed schedules (BadEvent); UAF / ENOENT cannot occur by
   C07_no_freed_memory_no_missing_file; `open_wfb` is the checker of the theorem above. *)
Theorem C07_cursor_keeps_scan_open_contents : forall c seq es1 cid lo hi es2,
  cf_iter_owns c = true -> cf_holds_ver c = true ->
  let s1 := fst (mrun c (minit seq) es1) in
  find_scan s1 cid = None ->
  open_wfb c s1 lo hi = true ->
  quietb cid true es2 = true ->
  Forall no_err (snd (mrun c s1 (EOpen cid lo hi :: es2))) ->
  cursor_trace cid (EOpen cid lo hi :: es2) (snd (mrun c s1 (EOpen cid lo hi :: es2))) =
  ref_trace (scan_spec s1 lo hi) (-1) cid es2.
Proof.
  intros c seq es1 cid lo hi es2 Hio Hhv s1 Hfs Hwfb Hq Hne.
  destruct (C07_open_hypotheses_checkable c s1 lo hi Hwfb) as [Hwf [Hd Hfu]].
  rewrite <- (open_list_is_scan_spec s1 lo hi Hwf Hd). unfold open_list.
  assert (Inv s1) as HI by (exact (proj2 (run_safe c Hio Hhv es1 (minit seq) (init_inv seq)))).
  cbn [mrun] in *. destruct (mstep c s1 (EOpen cid lo hi)) as [s' o] eqn:E.
  assert (no_err o) as Ho.
  { destruct o as [|ob|er]; [exact I|exact I|]. cbn [snd] in Hne. inversion Hne; subst. assumption. }
  pose proof (open_CI c cid lo hi s1 Hio Hhv HI Hfs) as HC. rewrite E in HC. cbn [fst snd] in HC. specialize (HC Ho Hwf Hfu).
  destruct o as [|ob|er]; [| |destruct Ho].
  - destruct (mrun c s' es2) as [s'' os] eqn:Er. cbn [snd cursor_trace app] in *. inversion Hne; subst.
    pose proof (held_run c Hio Hhv cid _ es2 s' true (-1) HC Hq) as H. rewrite Er in H. cbn [snd] in H. exact (H H2).
  - destruct (mrun c s' es2) as [s'' os] eqn:Er. cbn [snd cursor_trace app] in *. inversion Hne; subst.
    pose proof (held_run c Hio Hhv cid _ es2 s' true (-1) HC Hq) as H. rewrite Er in H. cbn [snd] in H. exact (H H2).
Qed.

(* non-vacuity: a concrete history (a flushed file, a tombstone in the memtable), a cursor opened on
   it and held across a call, a rollover, the flush that drops the memtable it iterates, writes, an
   install that retires both ssts it reads, their removal from trash/, and more calls in both
   directions: the hypotheses hold and the calls return the scan-open contents *)
Definition ex_cfg : cfg := mkCfg true true false 60.
Definition ex_es1 : list event :=
  [EWrite [([97], Some [1]); ([98], Some [2])]; ERollover; EFlushDone 7; EWrite [([98], None)]; EWrite [([99], Some [3])]].
Definition ex_es2 : list event :=
  [EStep 1 ONext; ERollover; EFlushDone 8; EWrite [([97], Some [9])]; EWrite [([100], Some [4])];
   EInstall [[]; [mkFile 9 [mkE [97] 3 (Some [1]); mkE [98] 5 None; mkE [98] 3 (Some [2]); mkE [99] 6 (Some [3])]]];
   EUnlinkTrash [7; 8]; EStep 1 ONext; EStep 1 ONext; EStep 1 OPrev; EStep 1 OLast; EStep 1 OPrev].
Example ex_stable :
  let s1 := fst (mrun ex_cfg (minit 2) ex_es1) in
  find_scan s1 1 = None /\ open_wfb ex_cfg s1 Unbounded Unbounded = true /\ quietb 1 true ex_es2 = true /\
  scan_spec s1 Unbounded Unbounded = [mkE [97] 3 (Some [1]); mkE [99] 6 (Some [3])] /\
  cursor_trace 1 (EOpen 1 Unbounded Unbounded :: ex_es2) (snd (mrun ex_cfg s1 (EOpen 1 Unbounded Unbounded :: ex_es2))) =
    [OObs (Some (mkE [97] 3 (Some [1])), None); OObs (Some (mkE [99] 6 (Some [3])), None); OObs (None, None);
     OObs (Some (mkE [99] 6 (Some [3])), None); OObs (None, None); OObs (Some (mkE [99] 6 (Some [3])), None)].
Proof. vm_compute. repeat split. Qed.

(* The key lemma for writes that land in the skiplist under the cursor: a PruningCursor at t over
   the skiplist iterator of a list l0 keeps behaving as the reference cursor over prune_spec t l0
   while, between its calls, the list is replaced any number of times by longer sorted lists that
   differ from l0 only in entries NEWER than t - the writes that completed after the scan was
   opened.  (gfix = the iterator with seek_to_first positioned before the first node, which is how
   the BoundsCursor above it leaves it.)  Every observation equal, no failure, fuel never exhausted. *)
Theorem C07_pruning_screens_late_writes : forall fuel t l0 evs,
  good_list fuel t l0 l0 -> good_evs fuel t l0 l0 evs ->
  grun fuel t (p_new gfix (g_new l0)) evs = gref (prune_spec t l0) (-1) evs.
Proof. exact pruning_screens_late_writes. Qed.

(* THE FULL STATEMENT: the restriction `quietb` is gone.  A cursor opened after ANY history es1 and
   held across ANY further events es2 - now including writes into the very memtable it iterates
   while that memtable is the active one, whole (EWrite) or in their parts (EAssign / EInsert /
   EPublish: entries of writers still in flight appearing one at a time in any memtable, before and
   after the scan is opened), interleaved in any way with its own calls in any order and direction -
   returns, call by call, exactly what the reference cursor over
   `scan_spec s1 lo hi` returns: the contents the store had when the scan was opened.  It never
   shows a write that completed after it was opened, and it does not change between walks.
   Hypotheses, all decidable:
   - `open_wfb` (as above) and `open_tsb`: at scan-open the read timestamp is a sequence number
     already handed out, nothing in the store carries a later one, and the files hold nothing newer
     than the read timestamp (entries of writers in flight ARE allowed in the memtables: they are
     newer than the read timestamp; the check evaluates both booleans at every scan it opens on the
     real store; that a writer publishes only after all its entries are in, and in sequence order,
     is the visible_seq_no discipline of C06 - the model lets EPublish happen at any time, which
     only adds behaviours - validated here on the real store by the concurrent stage);
   - `held_ok`: es2 does not re-open or drop this cursor, and a write batch does not name a key twice;
   - `fuel_enoughb`: the fuel of the models' loops (the Rust loops have none) covers what the cursor
     holds at scan-open plus what is written while it is held;
   - `no_err`: the schedule is well-formed (no BadEvent); UAF / ENOENT cannot occur by the first theorem.
   How: the children of the top merge are LATE-TOLERANT cursors (ProofsLTB: a BoundsCursor over a
   skiplist iterator is NOT an exact cursor over its list once entries are inserted - an insertion
   can carry it past a new entry, and prev() does not check the end bound - but it keeps a logical
   position over the entries not newer than the snapshot); a merge of late-tolerant cursors is
   late-tolerant (ProofsLTK); the PruningCursor over a late-tolerant cursor is exact (ProofsLT);
   an insertion keeps all of it (ProofsLTS.top_refresh); the machine glue is ProofsLTG. *)
Theorem C07_cursor_snapshot_stable : forall c seq es1 cid lo hi es2,
  cf_iter_owns c = true -> cf_holds_ver c = true ->
  let s1 := fst (mrun c (minit seq) es1) in
  find_scan s1 cid = None ->
  open_wfb c s1 lo hi = true -> open_tsb s1 = true ->
  forallb (held_ok cid) es2 = true -> fuel_enoughb c s1 es2 = true ->
  Forall no_err (snd (mrun c s1 (EOpen cid lo hi :: es2))) ->
  cursor_trace cid (EOpen cid lo hi :: es2) (snd (mrun c s1 (EOpen cid lo hi :: es2))) =
  ref_trace (scan_spec s1 lo hi) (-1) cid es2.
Proof.
  intros c seq es1 cid lo hi es2 Hio Hhv s1 Hfs Hwfb Htsb Hok Hfb Hne.
  apply snapshot_stable; auto. exact (proj2 (run_safe c Hio Hhv es1 (minit seq) (init_inv seq))).
Qed.

(* non-vacuity: the cursor of ex_stable, now with writes landing in the memtable it iterates while
   it is held: a new key before its position, a newer version and a tombstone of keys it has yet to
   return, between calls in both directions; none of them shows *)
Definition ex_cfg2 : cfg := mkCfg true true false 2000.
Definition ex_es3 : list event :=
  [EStep 1 ONext; EWrite [([96], Some [7]); ([99], None)]; EStep 1 ONext; EWrite [([98], Some [8]); ([97], None)];
   EStep 1 ONext; EStep 1 OPrev; EWrite [([100], Some [5])]; EStep 1 OPrev; EStep 1 OPrev; EStep 1 (OSeek [98]); EStep 1 OLast; EStep 1 OPrev].
Example ex_stable_under_writes :
  let s1 := fst (mrun ex_cfg2 (minit 2) ex_es1) in
  find_scan s1 1 = None /\ open_wfb ex_cfg2 s1 Unbounded Unbounded = true /\ open_tsb s1 = true /\
  forallb (held_ok 1) ex_es3 = true /\ fuel_enoughb ex_cfg2 s1 ex_es3 = true /\ quietb 1 true ex_es3 = false /\
  scan_spec s1 Unbounded Unbounded = [mkE [97] 3 (Some [1]); mkE [99] 6 (Some [3])] /\
  cursor_trace 1 (EOpen 1 Unbounded Unbounded :: ex_es3) (snd (mrun ex_cfg2 s1 (EOpen 1 Unbounded Unbounded :: ex_es3))) =
    [OObs (Some (mkE [97] 3 (Some [1])), None); OObs (Some (mkE [99] 6 (Some [3])), None); OObs (None, None);
     OObs (Some (mkE [99] 6 (Some [3])), None); OObs (Some (mkE [97] 3 (Some [1])), None); OObs (None, None);
     OObs (Some (mkE [99] 6 (Some [3])), None); OObs (None, None); OObs (Some (mkE [99] 6 (Some [3])), None)].
Proof. vm_compute. repeat split. Qed.

(* The hypotheses about the store at scan-open are INVARIANTS along accepted histories, so the
   statement holds at EVERY state such a history reaches, with nothing evaluated on that state.
   `acc_run` (Model) accepts a history step by step: a write batch does not name a key twice; the
   flush completes once the writers that still insert into the immutable memtable have published;
   an install (compaction, move, GC) is of a well-formed version (files sorted, levels below L0
   sorted end to end, no (key, timestamp) twice) that holds no (key, timestamp) the current version
   does not hold - it may drop, it may not invent (`install_okb`); everything else (the parts of
   writes in any interleaving, rollovers, clean-up, evictions, any number of other cursors) is
   accepted as it is.  The invariant (ProofsWF.SI): memtables sorted, the version well-formed, no
   (key, timestamp) twice among the two memtables a scan opens on and the version, nothing newer
   than the sequence numbers handed out, nothing in the files newer than the read timestamp. *)
Theorem C07_open_hypotheses_are_invariants : forall c seq es1 lo hi,
  cf_iter_owns c = true -> cf_holds_ver c = true -> acc_run c (minit seq) es1 = true ->
  let s1 := fst (mrun c (minit seq) es1) in
  scan_wf lo hi (map (look_of s1) (open_mems s1)) (cur_levels s1) /\
  distinct (all_entries (map (look_of s1) (open_mems s1)) (cur_levels s1)) /\ open_tsb s1 = true.
Proof.
  intros c seq es1 lo hi Hio Hhv Hacc s1.
  destruct (SI_run c Hio Hhv es1 (minit seq) (init_inv seq) (SI_init seq) Hacc) as [HS _]. fold s1 in HS.
  destruct (SI_scan_wf s1 lo hi HS) as [H1 H2]. split; [exact H1|]. split; [exact H2|]. now apply SI_open_tsb.
Qed.

Theorem C07_cursor_snapshot_stable_accepted : forall c seq es1 cid lo hi es2,
  cf_iter_owns c = true -> cf_holds_ver c = true ->
  acc_run c (minit seq) es1 = true ->
  let s1 := fst (mrun c (minit seq) es1) in
  find_scan s1 cid = None -> forallb (held_ok cid) es2 = true -> fuel_enoughb c s1 es2 = true ->
  Forall no_err (snd (mrun c s1 (EOpen cid lo hi :: es2))) ->
  cursor_trace cid (EOpen cid lo hi :: es2) (snd (mrun c s1 (EOpen cid lo hi :: es2))) =
  ref_trace (scan_spec s1 lo hi) (-1) cid es2.
Proof. exact snapshot_stable_accepted. Qed.

(* non-vacuity: the histories of the examples are accepted ones (ex_es1 has a flush, ex_es2' an
   install that rearranges the files, dropping a shadowed version) *)
Definition ex_es1' : list event :=
  ex_es1 ++ [ERollover; EFlushDone 8;
             EInstall [[]; [mkFile 9 [mkE [97] 3 (Some [1]); mkE [98] 5 None; mkE [99] 6 (Some [3])]]]].
Example ex_histories_accepted :
  acc_run ex_cfg2 (minit 2) ex_es1 = true /\ acc_run ex_cfg2 (minit 2) ex_es1' = true /\
  Forall no_err (snd (mrun ex_cfg2 (minit 2) ex_es1')) /\
  acc_run ex_cfg2 (minit 2) (ex_es1 ++ [EInstall [[mkFile 9 [mkE [97] 9 (Some [1])]]]]) = false.
Proof. vm_compute. repeat split; repeat constructor. Qed.

(* non-vacuity for the case the atomic EWrite cannot reach: a write IN ITS PARTS (EAssign: the writer is
   given its sequence number; EInsert: it inserts one entry, with no lock held; EPublish: it makes
   the number the read timestamp).  The scan is opened while writer 4 has inserted one of its
   entries and not published (visible_seq_no = 3, seq_no = 4, 98@4 already in the memtable);
   while the cursor is held the writer inserts more on both sides of the cursor's position and
   publishes, and a second writer puts a tombstone on a key the cursor shows.  All hypotheses of
   C07_cursor_snapshot_stable hold, and the cursor keeps returning 97@3 and 99@3 only. *)
Definition ex_es4 : list event := [EWrite [([97], Some [1]); ([99], Some [3])]; EAssign; EInsert 0 [98] 4 (Some [2])].
Definition ex_es5 : list event :=
  [EInsert 0 [96] 4 (Some [7]); EStep 1 ONext; EInsert 0 [100] 4 (Some [5]); EPublish 4; EStep 1 ONext; EAssign; EInsert 0 [97] 5 None;
   EStep 1 ONext; EStep 1 OPrev; EPublish 5; EStep 1 OPrev; EStep 1 OPrev; EStep 1 (OSeek [98]); EStep 1 OLast; EStep 1 OPrev].
Example ex_opened_between_insert_and_publish :
  let s1 := fst (mrun ex_cfg2 (minit 2) ex_es4) in
  acc_run ex_cfg2 (minit 2) ex_es4 = true /\
  find_scan s1 1 = None /\ open_wfb ex_cfg2 s1 Unbounded Unbounded = true /\ open_tsb s1 = true /\
  forallb (held_ok 1) ex_es5 = true /\ fuel_enoughb ex_cfg2 s1 ex_es5 = true /\
  ms_vis s1 = 3 /\ ms_seq s1 = 4 /\ look_of s1 0 = [mkE [97] 3 (Some [1]); mkE [98] 4 (Some [2]); mkE [99] 3 (Some [3])] /\
  scan_spec s1 Unbounded Unbounded = [mkE [97] 3 (Some [1]); mkE [99] 3 (Some [3])] /\
  cursor_trace 1 (EOpen 1 Unbounded Unbounded :: ex_es5) (snd (mrun ex_cfg2 s1 (EOpen 1 Unbounded Unbounded :: ex_es5))) =
    [OObs (Some (mkE [97] 3 (Some [1])), None); OObs (Some (mkE [99] 3 (Some [3])), None); OObs (None, None);
     OObs (Some (mkE [99] 3 (Some [3])), None); OObs (Some (mkE [97] 3 (Some [1])), None); OObs (None, None);
     OObs (Some (mkE [99] 3 (Some [3])), None); OObs (None, None); OObs (Some (mkE [99] 3 (Some [3])), None)].
Proof. vm_compute. repeat split. Qed.

(* ---- the two repairs are necessary: each pre-repair rule is refuted by a concrete schedule *)
Definition ex_uaf : list event :=
  [EWrite [([97], Some [1])]; EOpen 1 Unbounded Unbounded; ERollover; EFlushDone 7; EStep 1 ONext].
(* F4: before 41f488d SkipList::drop freed every node whatever iterators existed: a cursor opened on a
   non-empty memtable and used after that memtable was flushed reads freed nodes *)
Theorem C07_uaf_refuted_without_iterator_ownership :
  exists es, In (OErr UAF) (snd (mrun (mkCfg false true false 50) (minit 2) es)).
Proof. exists ex_uaf. vm_compute. auto 10. Qed.

Definition ex_enoent : list event :=
  [EWrite [([97], Some [1])]; ERollover; EFlushDone 7; EOpen 1 Unbounded Unbounded;
   EInstall [[]; [mkFile 8 [mkE [97] 3 (Some [1])]]]; EStep 1 OLast].
(* F5: before a899047 range_scan dropped its VersionRef on return: a compaction that retires an sst
   of the cursor's version renames it to trash/, and the next call that re-opens it fails *)
Theorem C07_enoent_refuted_without_version_hold :
  exists es, In (OErr ENOENT) (snd (mrun (mkCfg true false false 50) (minit 2) es)).
Proof. exists ex_enoent. vm_compute. auto 10. Qed.

(* the same two schedules under the repaired rules run to the end and return the entry *)
Example ex_schedules_safe_after_repair :
  snd (mrun (mkCfg true true false 50) (minit 2) ex_uaf) =
    [ONone; OObs (None, None); ONone; ONone; OObs (Some (mkE [97] 3 (Some [1])), None)] /\
  snd (mrun (mkCfg true true false 50) (minit 2) (ex_enoent ++ [EStep 1 OPrev])) =
    [ONone; ONone; ONone; OObs (None, None); ONone; OObs (None, None); OObs (Some (mkE [97] 3 (Some [1])), None)].
Proof. vm_compute. auto. Qed.
