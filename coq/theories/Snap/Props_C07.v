(* Props_C07.v — the property theorems for C07 and nothing else.
   C07: "A scan cursor is a stable, memory-safe snapshot while the store moves under it". *)
From Coq Require Import NArith ZArith List Bool.
From Blue Require Import Cursor.Iface Cursor.Ref Cursor.Bounds Cursor.Spec Snap.Model Snap.ProofsSafe.
Import ListNotations.
Local Open Scope N_scope.

(* Under the repaired lifetime rules (41f488d: a skiplist iterator shares ownership of the nodes;
   a899047: the scan cursor owns the VersionRef it was opened on), from a freshly opened store, for
   EVERY finite interleaving of completed write batches, rollovers, flush completions, installs of
   arbitrary new versions (compactions, moves, garbage collections), removals from trash/, cache
   evictions, scan openings with any bounds, cursor calls (first / last / seek / prev / next, on
   any number of cursors) and cursor drops, with or without an sst cache:
   no step ends in UAF (a cursor call on a memtable whose nodes were freed) or in ENOENT (a lazy
   cursor opening an sst that is neither in sst/, nor cached, nor held open). *)
Theorem C07_no_freed_memory_no_missing_file : forall c seq es,
  cf_iter_owns c = true -> cf_holds_ver c = true ->
  Forall (fun o => o <> OErr UAF /\ o <> OErr ENOENT) (snd (mrun c (minit seq) es)).
Proof. intros c seq es H1 H2. exact (proj1 (run_safe c H1 H2 es (minit seq) (init_inv seq))). Qed.

(* the lifetime invariant behind it holds in every reachable state: a memtable that a live scan
   iterates is not freed; every version a live scan holds exists, every file of an existing
   version is counted by the reference counter, and a counted file is in sst/ *)
Theorem C07_lifetime_invariant_reachable : forall c seq es,
  cf_iter_owns c = true -> cf_holds_ver c = true -> Inv (fst (mrun c (minit seq) es)).
Proof. intros c seq es H1 H2. exact (proj2 (run_safe c H1 H2 es (minit seq) (init_inv seq))). Qed.

(* ---- the two repairs are necessary: each pre-repair rule is refuted by a concrete schedule *)
Definition ex_uaf : list event :=
  [EWrite [([97], Some [1])]; EOpen 1 Unbounded Unbounded; ERollover; EFlushDone 7; EStep 1 ONext].
(* F4: before 41f488d SkipList::drop freed every node whatever iterators existed: a cursor opened on a
   non-empty memtable and used after that memtable was flushed reads freed nodes *)
Theorem C07_uaf_refuted_without_iterator_ownership :
  exists es, In (OErr UAF) (snd (mrun (mkCfg false true false 50) (minit 2) es)).
Proof. exists ex_uaf. vm_compute. auto 10. Qed.

Definition ex_enoent : list event :=
  [EWrite [([97], Some [1])]; ERollover; EFlushDone 7; EOpen 1 Unbounded Unbounded;
   EInstall [[]; [mkFile 8 [mkE [97] 3 (Some [1])]]]; EStep 1 OLast].
(* F5: before a899047 range_scan dropped its VersionRef on return: a compaction that retires an sst
   of the cursor's version renames it to trash/, and the next call that re-opens it fails *)
Theorem C07_enoent_refuted_without_version_hold :
  exists es, In (OErr ENOENT) (snd (mrun (mkCfg true false false 50) (minit 2) es)).
Proof. exists ex_enoent. vm_compute. auto 10. Qed.

(* the same two schedules under the repaired rules run to the end and return the entry *)
Example ex_schedules_safe_after_repair :
  snd (mrun (mkCfg true true false 50) (minit 2) ex_uaf) =
    [ONone; OObs (None, None); ONone; ONone; OObs (Some (mkE [97] 3 (Some [1])), None)] /\
  snd (mrun (mkCfg true true false 50) (minit 2) (ex_enoent ++ [EStep 1 OPrev])) =
    [ONone; ONone; ONone; OObs (None, None); ONone; OObs (None, None); OObs (Some (mkE [97] 3 (Some [1])), None)].
Proof. vm_compute. auto. Qed.
