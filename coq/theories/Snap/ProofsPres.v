(* Snap/ProofsPres.v — frame lemmas: a property of the CHILD states that every child call
   preserves is preserved, for the children held by a combinator, by every call of the combinator
   (the combinators touch their children only through the cursor interface).  Used to show that a
   scan cursor keeps naming the same memtables and the same files whatever it is asked to do. *)
From Coq Require Import NArith ZArith List Bool Arith Lia.
From Blue Require Import Cursor.Iface Cursor.Ref Cursor.Lazy Cursor.Bounds Cursor.Pruning Cursor.Concat
  Cursor.Merging.
Import ListNotations.

Definition closed {S} (c : cursor S) (Q : S -> Prop) : Prop := forall o s, Q s -> Q (step c o s).

Section Closed.
Context {S : Type} (c : cursor S) (Q : S -> Prop).
Hypothesis HQ : closed c Q.

Lemma cl_first s : Q s -> Q (c_first c s). Proof. exact (HQ OFirst s). Qed.
Lemma cl_last s : Q s -> Q (c_last c s). Proof. exact (HQ OLast s). Qed.
Lemma cl_seek k s : Q s -> Q (c_seek c k s). Proof. exact (HQ (OSeek k) s). Qed.
Lemma cl_prev s : Q s -> Q (c_prev c s). Proof. exact (HQ OPrev s). Qed.
Lemma cl_next s : Q s -> Q (c_next c s). Proof. exact (HQ ONext s). Qed.

(* ---------------------------------------------------------------- pruning *)
Section Prune.
Variables (fuel : nat) (t : N).
Definition qp (st : pstate S) : Prop := Q (p_cur st).

Lemma pres_seek_loop n : forall st, qp st -> qp (p_seek_loop c t n st).
Proof.
  induction n as [|n IH]; intros st H; cbn [p_seek_loop];
    destruct (c_kv c (p_cur st)) as [e|]; try exact H;
    destruct (N.leb (ets e) t && is_none (ev e)); try exact H;
    try (apply IH; unfold qp; cbn [p_cur]; now apply cl_next);
    destruct (N.leb (ets e) t && skip_differs (p_skip st) (ek e)); try exact H;
    try (apply IH; unfold qp; cbn [p_cur]; now apply cl_next).
Qed.

Lemma pres_next_loop n : forall st, qp st -> qp (p_next_loop c t n st).
Proof.
  induction n as [|n IH]; intros st H; cbn [p_next_loop]; [exact H|].
  assert (Q (c_next c (p_cur st))) as Hn by (now apply cl_next).
  destruct (c_kv c (c_next c (p_cur st))) as [e|]; [|exact Hn].
  destruct (N.leb (ets e) t && is_none (ev e)); [apply IH; exact Hn|].
  destruct (N.leb (ets e) t && skip_differs (p_skip st) (ek e)); [exact Hn|apply IH; exact Hn].
Qed.

Lemma pres_prev_skip n : forall cur sk, Q cur ->
  match prev_skip_loop c n cur sk with
  | Ret (cur', _) => Q cur' | Go (cur', _) => Q cur' | Fuel => True
  end.
Proof.
  induction n as [|n IH]; intros cur sk H; cbn [prev_skip_loop];
    destruct sk as [s|]; try exact H;
    destruct (c_kv c cur) as [e|]; try exact H;
    destruct (negb (keqb s (ek e))); try exact H; try exact I.
  apply IH. now apply cl_prev.
Qed.

Lemma pres_prev_back n : forall tg cur, Q cur ->
  match prev_back_loop c t n tg cur with Some cur' => Q cur' | None => True end.
Proof.
  induction n as [|n IH]; intros tg cur H; cbn [prev_back_loop]; [exact I|].
  assert (Q (c_prev c cur)) as Hp by (now apply cl_prev).
  destruct (c_kv c (c_prev c cur)) as [e|]; [|exact Hp].
  destruct (N.ltb t (ets e) || negb (keqb (ek e) tg)); [exact Hp|now apply IH].
Qed.

Lemma pres_prev_fwd n : forall tg cur, Q cur ->
  match prev_fwd_loop c t n tg cur with Some cur' => Q cur' | None => True end.
Proof.
  induction n as [|n IH]; intros tg cur H; cbn [prev_fwd_loop];
    destruct (c_kv c cur) as [e|]; try exact H;
    destruct (N.leb (ets e) t && keqb (ek e) tg); try exact H; try exact I.
  apply IH. now apply cl_next.
Qed.

Lemma pres_prev_loop n : forall st, qp st -> qp (p_prev_loop c fuel t n st).
Proof.
  induction n as [|n IH]; intros st H; cbn [p_prev_loop]; [exact H|].
  pose proof (pres_prev_skip fuel (c_prev c (p_cur st)) (p_skip st) (cl_prev _ H)) as Hs.
  destruct (prev_skip_loop c fuel (c_prev c (p_cur st)) (p_skip st)) as [[cur sk]|[cur sk]|]; [exact Hs| |exact H].
  destruct (c_kv c cur) as [e|]; [|exact Hs].
  destruct (N.ltb t (ets e)); [apply IH; exact Hs|].
  pose proof (pres_prev_back fuel (ek e) cur Hs) as Hb.
  destruct (prev_back_loop c t fuel (ek e) cur) as [cur1|]; [|exact Hs].
  assert (Q (if has_key c cur1 then cur1 else c_next c cur1)) as H1
    by (destruct (has_key c cur1); [exact Hb|now apply cl_next]).
  pose proof (pres_prev_fwd fuel (ek e) _ H1) as Hf.
  destruct (prev_fwd_loop c t fuel (ek e) (if has_key c cur1 then cur1 else c_next c cur1)) as [cur2|]; [|exact H1].
  destruct (c_kv c cur2) as [e'|]; [|exact Hf].
  destruct (negb (N.leb (ets e') t && keqb (ek e') (ek e))); [exact Hf|].
  destruct (ev e'); [exact Hf|apply IH; exact Hf].
Qed.

Lemma pres_pruning : closed (pruning c fuel t) qp.
Proof.
  intros o st H. destruct o; cbn [step pruning c_first c_last c_seek c_prev c_next]; unfold p_guard;
    destruct (p_fail st); try exact H.
  - unfold qp, p_first_raw. cbn [p_cur]. now apply cl_first.
  - unfold qp, p_last_raw. cbn [p_cur]. now apply cl_last.
  - unfold p_seek_raw. apply pres_seek_loop. unfold qp. cbn [p_cur]. now apply cl_seek.
  - unfold p_prev_raw. apply pres_prev_loop. destruct (has_key c (p_cur st)); exact H.
  - unfold p_next_raw. now apply pres_next_loop.
Qed.

Lemma pres_p_new cur : Q cur -> qp (p_new c cur).
Proof. intros H. unfold qp, p_new. cbn [p_cur]. now apply cl_first. Qed.
End Prune.

(* ---------------------------------------------------------------- bounds *)
Section Bounds.
Variables (fuel : nat) (lo hi : bound).
Definition qb (st : bstate S) : Prop := Q (b_cur st).

Lemma pres_check_start st : qb st -> qb (check_start c lo st).
Proof.
  intros H. unfold check_start. destruct (b_kv c st); [|exact H].
  destruct lo; try exact H; match goal with |- context [if ?b then _ else _] => destruct b end; exact H.
Qed.
Lemma pres_check_end st : qb st -> qb (check_end c hi st).
Proof.
  intros H. unfold check_end. destruct (b_kv c st); [|exact H].
  destruct hi; try exact H; match goal with |- context [if ?b then _ else _] => destruct b end; exact H.
Qed.
Lemma pres_prev_if_some cur : Q cur -> Q (prev_if_some c cur).
Proof. intros H. unfold prev_if_some. destruct (has_key c cur); [now apply cl_prev|exact H]. Qed.

Lemma pres_b_first st : qb st -> qb (b_first_raw c lo hi st).
Proof.
  intros H. unfold b_first_raw. apply pres_check_end. unfold qb in *.
  destruct lo; cbn [set_cur set_pos b_cur]; apply pres_prev_if_some; [now apply cl_first|now apply cl_seek|now apply cl_seek].
Qed.

Lemma pres_skip_equal n : forall k cur, Q cur ->
  match skip_equal c n k cur with Some cur' => Q cur' | None => True end.
Proof.
  induction n as [|n IH]; intros k cur H; cbn [skip_equal];
    destruct (c_kv c cur) as [e|]; try exact H; destruct (keqb (ek e) k); try exact H; try exact I.
  apply IH. now apply cl_next.
Qed.

Lemma pres_b_last st : qb st -> qb (b_last_raw c fuel lo hi st).
Proof.
  intros H. unfold b_last_raw. apply pres_check_start. unfold qb in *.
  destruct hi; cbn [set_cur set_pos b_cur].
  - now apply cl_last.
  - pose proof (pres_skip_equal fuel k (c_seek c k (b_cur st)) (cl_seek k _ H)) as Hs.
    destruct (skip_equal c fuel k (c_seek c k (b_cur st))); cbn [set_cur set_fail set_pos b_cur]; [exact Hs|exact H].
  - now apply cl_seek.
Qed.

Lemma pres_b_next_loop n : forall st, qb st -> qb (b_next_loop c lo hi n st).
Proof.
  induction n as [|n IH]; intros st H; cbn [b_next_loop]; destruct (bpos_eqb (b_pos st) AfterEnd); try exact H.
  set (st1 := check_end c hi (check_start c lo (set_pos (set_cur st (c_next c (b_cur st))) Positioned))).
  assert (qb st1) as H1.
  { apply pres_check_end, pres_check_start. unfold qb. cbn [set_pos set_cur b_cur]. now apply cl_next. }
  destruct (negb (bpos_eqb (b_pos st1) BeforeStart)); [exact H1|now apply IH].
Qed.

Lemma pres_b_prev st : qb st -> qb (b_prev_raw c lo st).
Proof.
  intros H. unfold b_prev_raw. apply pres_check_start.
  destruct (negb (bpos_eqb (b_pos st) BeforeStart)); [|exact H].
  unfold qb. cbn [set_pos set_cur b_cur]. now apply cl_prev.
Qed.

Lemma pres_b_seek k st : qb st -> qb (b_seek_raw c fuel lo hi k st).
Proof.
  intros H. unfold b_seek_raw.
  set (st1 := check_start c lo (check_end c hi (set_cur (set_pos st Positioned) (c_seek c k (b_cur (set_pos st Positioned)))))).
  assert (qb st1) as H1.
  { apply pres_check_start, pres_check_end. unfold qb. cbn [set_pos set_cur b_cur]. now apply cl_seek. }
  destruct (bpos_eqb (b_pos st1) BeforeStart).
  - unfold b_guard. pose proof (pres_b_first st1 H1) as Hf.
    destruct (b_fail (b_first_raw c lo hi st1)); [exact Hf|]. unfold b_next_raw. now apply pres_b_next_loop.
  - destruct (bpos_eqb (b_pos st1) AfterEnd || negb (has_key c (b_cur st1))); [now apply pres_b_last|exact H1].
Qed.

Lemma pres_bounds : closed (bounds c fuel lo hi) qb.
Proof.
  intros o st H. destruct o; cbn [step bounds c_first c_last c_seek c_prev c_next]; unfold b_guard;
    destruct (b_fail st); try exact H.
  - now apply pres_b_first.
  - now apply pres_b_last.
  - now apply pres_b_seek.
  - now apply pres_b_prev.
  - unfold b_next_raw. now apply pres_b_next_loop.
Qed.

Lemma pres_b_new cur : Q cur -> qb (b_new c lo hi cur).
Proof. intros H. unfold b_new. apply pres_b_first. exact H. Qed.
End Bounds.

(* ---------------------------------------------------------------- lists of children *)
Lemma Forall_upd (l : list S) i f : Forall Q l -> (forall a, Q a -> Q (f a)) -> Forall Q (upd l i f).
Proof.
  intros H Hf. revert i. induction H as [|a l Ha Hl IH]; intros i; [destruct i; constructor|].
  destruct i; cbn [upd]; constructor; auto.
Qed.
Lemma Forall_nth (l : list S) i a : Forall Q l -> nth_error l i = Some a -> Q a.
Proof. intros H Hn. rewrite Forall_forall in H. apply H. eapply nth_error_In; eauto. Qed.

(* ---------------------------------------------------------------- merging *)
Section Merge.
Definition qm (st : mstate S) : Prop := Forall Q (m_kids st).

Lemma Forall_swap (l : list S) i j : Forall Q l -> Forall Q (swap l i j).
Proof.
  intros H. unfold swap. destruct (nth_error l i) as [a|] eqn:Ea; [|exact H].
  destruct (nth_error l j) as [b|] eqn:Eb; [|exact H].
  apply Forall_upd; [apply Forall_upd; [exact H|]|]; intros _ _; eapply Forall_nth; eauto.
Qed.
Lemma Forall_percolate less n : forall (l : list S) i, Forall Q l -> Forall Q (percolate_down less n l i).
Proof.
  induction n as [|n IH]; intros l i H; cbn [percolate_down]; [exact H|].
  destruct (length l <=? i * 2 + 1); [exact H|].
  match goal with |- context [less_at less l i ?ch] => destruct (less_at less l i ch); [exact H|] end.
  apply IH. now apply Forall_swap.
Qed.
Lemma Forall_heapify_from less i : forall (l : list S), Forall Q l -> Forall Q (heapify_from less i l).
Proof. induction i as [|i IH]; intros l H; cbn [heapify_from]; [exact H|]. apply IH. now apply Forall_percolate. Qed.
Lemma Forall_heapify less (l : list S) : Forall Q l -> Forall Q (heapify less l).
Proof. apply Forall_heapify_from. Qed.
Lemma Forall_map_cl (f : S -> S) (l : list S) : (forall a, Q a -> Q (f a)) -> Forall Q l -> Forall Q (map f l).
Proof. intros Hf H. induction H; cbn; constructor; auto. Qed.

Lemma pres_merging : closed (merging c) qm.
Proof.
  intros o st H. unfold qm in *.
  destruct o; cbn [step merging c_first c_last c_seek c_prev c_next].
  - unfold m_first. cbn [m_kids]. unfold on_root. apply Forall_upd; [|apply cl_first].
    apply Forall_heapify. apply Forall_map_cl; [|exact H]. intros a Ha. now apply cl_next, cl_first.
  - unfold m_last. cbn [m_kids]. unfold on_root. apply Forall_upd; [|apply cl_last].
    apply Forall_heapify. apply Forall_map_cl; [|exact H]. intros a Ha. now apply cl_prev, cl_last.
  - unfold m_seek. cbn [m_kids]. apply Forall_heapify. apply Forall_map_cl; [|exact H]. intros a Ha. now apply cl_seek.
  - unfold m_prev. destruct (m_fwd st); cbn [m_kids].
    + apply Forall_heapify. apply Forall_map_cl; [apply cl_prev|exact H].
    + apply Forall_percolate. unfold on_root. apply Forall_upd; [exact H|apply cl_prev].
  - unfold m_next. destruct (negb (m_fwd st)); cbn [m_kids].
    + apply Forall_heapify. apply Forall_map_cl; [apply cl_next|exact H].
    + apply Forall_percolate. unfold on_root. apply Forall_upd; [exact H|apply cl_next].
Qed.

Lemma pres_m_new kids : Forall Q kids -> qm (m_new c kids).
Proof. intros H. unfold m_new. apply (pres_merging OFirst (mkM true kids)). exact H. Qed.
End Merge.

(* ---------------------------------------------------------------- concat *)
Section Cat.
Definition qk (st : kstate S) : Prop := Forall Q (k_kids st).

Lemma pres_on_cur f st : (forall a, Q a -> Q (f a)) -> qk st -> qk (on_cur f st).
Proof.
  intros Hf H. unfold on_cur. destruct (k_pos st <? length (k_kids st)); [|exact H].
  unfold qk. cbn [k_kids]. now apply Forall_upd.
Qed.
Lemma pres_k_guard f st : (forall s, qk s -> qk (f s)) -> qk st -> qk (k_guard f st).
Proof. intros Hf H. unfold k_guard. destruct (k_fail st); [exact H|now apply Hf]. Qed.
Lemma pres_reposition idx st : qk st -> qk (reposition c idx st).
Proof.
  intros H. unfold reposition. destruct (k_kids st) eqn:E; [exact H|]. rewrite <- E.
  destruct (negb (k_pos st =? idx)); [|exact H].
  destruct (k_pos st <? length (k_kids st)); [|exact H].
  change (qk (on_cur (c_first c) st)). apply pres_on_cur; [apply cl_first|exact H].
Qed.
Lemma pres_probe mid st : qk st -> qk (probe c mid st).
Proof.
  intros H. unfold probe. apply pres_k_guard; [intros s Hs; apply pres_on_cur; [apply cl_prev|exact Hs]|].
  apply pres_k_guard; [intros s Hs; apply pres_on_cur; [apply cl_last|exact Hs]|]. now apply pres_reposition.
Qed.
Lemma pres_probe_left mid : forall lft st, qk st -> qk (snd (probe_left c mid lft st)).
Proof.
  induction mid as [|m IH]; intros lft st H; cbn [probe_left]; [exact H|].
  destruct ((lft <? Datatypes.S m) && negb (cur_has_key c st)); [|exact H]. apply IH. now apply pres_probe.
Qed.
Lemma pres_bsearch n : forall k lft rgt st, qk st -> qk (snd (bsearch c n k lft rgt st)).
Proof.
  induction n as [|n IH]; intros k lft rgt st H; cbn [bsearch]; destruct (lft <? rgt); try exact H.
  pose proof (pres_probe_left (Nat.div (lft + rgt) 2) lft (probe c (Nat.div (lft + rgt) 2) st) (pres_probe _ _ H)) as Hp.
  destruct (probe_left c (Nat.div (lft + rgt) 2) lft (probe c (Nat.div (lft + rgt) 2) st)) as [mid st1]. cbn [snd] in Hp.
  destruct (cur_kv c st1) as [e|]; [destruct (negb (kltb (ek e) k))|]; now apply IH.
Qed.

Lemma pres_k_prev_loop n : forall st, qk st -> qk (k_prev_loop c n st).
Proof.
  induction n as [|n IH]; intros st H; cbn [k_prev_loop]; [exact H|].
  assert (qk (on_cur (c_prev c) st)) as H1 by (apply pres_on_cur; [apply cl_prev|exact H]).
  destruct (k_fail (on_cur (c_prev c) st)); [exact H1|].
  destruct (negb (cur_has_key c (on_cur (c_prev c) st)) && (0 <? k_pos (on_cur (c_prev c) st))); [|exact H1].
  apply IH. apply pres_k_guard; [intros s Hs; apply pres_on_cur; [apply cl_last|exact Hs]|]. now apply pres_reposition.
Qed.
Lemma pres_k_next_loop n : forall st, qk st -> qk (k_next_loop c n st).
Proof.
  induction n as [|n IH]; intros st H; cbn [k_next_loop]; [exact H|].
  assert (qk (on_cur (c_next c) st)) as H1 by (apply pres_on_cur; [apply cl_next|exact H]).
  destruct (k_fail (on_cur (c_next c) st)); [exact H1|].
  destruct (negb (cur_has_key c (on_cur (c_next c) st)) && (k_pos (on_cur (c_next c) st) + 1 <? length (k_kids (on_cur (c_next c) st)))); [|exact H1].
  apply IH. apply pres_k_guard; [intros s Hs; apply pres_on_cur; [apply cl_first|exact Hs]|]. now apply pres_reposition.
Qed.

Lemma pres_concat : closed (concat_cursor c) qk.
Proof.
  intros o st H. destruct o; cbn [step concat_cursor c_first c_last c_seek c_prev c_next];
    unfold k_guard at 1; destruct (k_fail st); try exact H.
  - unfold k_first_raw. apply pres_k_guard; [intros s0 Hs0; apply pres_on_cur; [apply cl_first|exact Hs0]|]. now apply pres_reposition.
  - unfold k_last_raw. destruct (k_kids st) eqn:E; [exact H|]. rewrite <- E.
    apply pres_k_guard; [intros s0 Hs0; apply pres_on_cur; [apply cl_last|exact Hs0]|]. now apply pres_reposition.
  - unfold k_seek_raw. destruct (k_kids st) eqn:E; [exact H|]. rewrite <- E.
    pose proof (pres_bsearch (length (k_kids st)) k 0 (length (k_kids st) - 1) st H) as Hb.
    destruct (bsearch c (length (k_kids st)) k 0 (length (k_kids st) - 1) st) as [lft st1]. cbn [snd] in Hb.
    apply pres_k_guard; [intros s0 Hs0; apply pres_on_cur; [apply cl_seek|exact Hs0]|].
    apply pres_k_guard; [intros s0 Hs0; now apply pres_reposition|exact Hb].
  - unfold k_prev_raw. now apply pres_k_prev_loop.
  - unfold k_next_raw. now apply pres_k_next_loop.
Qed.

Lemma pres_k_new kids : Forall Q kids -> qk (k_new c kids).
Proof.
  intros H. unfold k_new. destruct kids as [|a r] eqn:E; [exact H|]. rewrite <- E in *.
  apply pres_on_cur; [apply cl_first|exact H].
Qed.
End Cat.
End Closed.
