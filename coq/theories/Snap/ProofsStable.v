(* Snap/ProofsStable.v — a held cursor keeps showing the contents of scan-open time: the machine-
   level statement for every interleaving in which no write lands in a memtable the cursor
   iterates (rollovers, flushes, installs of new versions, clean-up, cache evictions, other
   cursors' calls, and writes after the next rollover are all allowed). *)
From Coq Require Import NArith ZArith List Bool Arith Lia.
From Blue Require Import Cursor.Iface Cursor.Ref Cursor.Lazy Cursor.Bounds Cursor.Pruning Cursor.Concat Cursor.Merging
  Cursor.Spec Cursor.Proofs_Ref Snap.Model Snap.ProofsPres Snap.ProofsSafe Snap.ProofsScan.
Import ListNotations.

(* ------------------------------------------------------------------------------------------
   1. the wrapper leaves of a state show the lists of `look` *)
Section XTabs.
Variable look : N -> list entry.

Fixpoint xtabs (u : xst) : Prop :=
  match u with
  | XG m g => g_tab g = look m
  | XL _ _ _ => True
  | XM (mkM _ kids) => (fix all (l : list xst) : Prop := match l with [] => True | x :: r => xtabs x /\ all r end) kids
  | XC (mkK kids _ _) => (fix all (l : list xst) : Prop := match l with [] => True | x :: r => xtabs x /\ all r end) kids
  | XB _ _ (mkB cur _ _) => xtabs cur
  | XP _ (mkP cur _ _) => xtabs cur
  end.

Lemma tabs_Forall (l : list xst) :
  (fix all (l : list xst) : Prop := match l with [] => True | x :: r => xtabs x /\ all r end) l <-> Forall xtabs l.
Proof.
  induction l as [|x r IH]; [split; [constructor|auto]|]. split.
  - intros [H1 H2]. constructor; [exact H1|now apply IH].
  - intros H. inversion H; subst. split; [assumption|now apply IH].
Qed.
Lemma xtabs_XM s : xtabs (XM s) <-> Forall xtabs (m_kids s).
Proof. destruct s as [f kids]. cbn [xtabs m_kids]. apply tabs_Forall. Qed.
Lemma xtabs_XC s : xtabs (XC s) <-> Forall xtabs (k_kids s).
Proof. destruct s as [kids p f]. cbn [xtabs k_kids]. apply tabs_Forall. Qed.
Lemma xtabs_XB lo hi s : xtabs (XB lo hi s) <-> xtabs (b_cur s).
Proof. destruct s. reflexivity. Qed.
Lemma xtabs_XP t s : xtabs (XP t s) <-> xtabs (p_cur s).
Proof. destruct s. reflexivity. Qed.

Variable fuel : nat.
Lemma xtabs1_closed child : closed child xtabs -> closed (xcur1 fuel child) xtabs.
Proof.
  intros Hc o u H. destruct o; cbn [step xcur1 c_first c_last c_seek c_prev c_next];
  (destruct u as [m p|f mk s|s|s|lo hi s|t s]; cbn [xstep1];
   [ exact H | exact H
   | apply xtabs_XM; apply xtabs_XM in H; eapply (pres_merging child xtabs Hc _ s H)
   | apply xtabs_XC; apply xtabs_XC in H; eapply (pres_concat child xtabs Hc _ s H)
   | apply xtabs_XB; apply xtabs_XB in H; eapply (pres_bounds child xtabs Hc fuel lo hi _ s H)
   | apply xtabs_XP; apply xtabs_XP in H; eapply (pres_pruning child xtabs Hc fuel t _ s H) ]).
Qed.
Lemma xtabs_stuck : closed xstuck xtabs.
Proof. intros o u H. destruct o; exact H. Qed.
Lemma xtabs_closed d : closed (xcur fuel d) xtabs.
Proof. induction d as [|d IH]; cbn [xcur]; apply xtabs1_closed; [apply xtabs_stuck|exact IH]. Qed.

(* ... so refreshing them changes nothing *)
Lemma xtabs_refresh u : xtabs u -> xrefresh look u = u.
Proof.
  revert u. fix IH 1. intros u H.
  destruct u as [m g|f mk s|[fw kids]|[kids pos fl]|lo hi [cur pos fl]|t [cur sk fl]]; cbn [xtabs xrefresh] in *.
  - destruct g as [tab pos]. cbn [g_tab g_pos] in *. now rewrite H.
  - reflexivity.
  - f_equal. f_equal. induction kids as [|k r IHr]; [reflexivity|]. destruct H as [Hk Hr]. cbn [map]. now rewrite (IH k Hk), (IHr Hr).
  - f_equal. f_equal. induction kids as [|k r IHr]; [reflexivity|]. destruct H as [Hk Hr]. cbn [map]. now rewrite (IH k Hk), (IHr Hr).
  - now rewrite (IH cur H).
  - now rewrite (IH cur H).
Qed.

Lemma xtabs_scan_new lo hi t mems v : xtabs (scan_new fuel lo hi t (map (fun m => (m, look m)) mems) v).
Proof.
  unfold scan_new.
  assert (forall d, closed (xcur fuel d) xtabs) as Hcl by apply xtabs_closed.
  apply xtabs_XB. apply (pres_b_new (xcur fuel 4) xtabs (Hcl 4) lo hi).
  apply xtabs_XP. apply (pres_p_new (xcur fuel 3) xtabs (Hcl 3)).
  apply xtabs_XM. apply (pres_m_new (xcur fuel 2) xtabs (Hcl 2)).
  apply Forall_app. split.
  - apply Forall_forall. intros k Hk. apply in_map_iff in Hk. destruct Hk as [ml [<- Hml]].
    apply in_map_iff in Hml. destruct Hml as [m [<- Hm]].
    unfold mem_leaf. apply (Hcl 2 OFirst). apply xtabs_XB. apply (pres_b_new (xcur fuel 1) xtabs (Hcl 1) lo hi). reflexivity.
  - constructor; [|constructor]. unfold version_scan. apply xtabs_XM. apply (pres_m_new (xcur fuel 1) xtabs (Hcl 1)).
    assert (forall fs, Forall xtabs (map lazy_leaf fs)) as Hleaf
      by (intros fs; apply Forall_forall; intros k Hk; apply in_map_iff in Hk; destruct Hk as [f [<- _]]; exact I).
    apply Forall_app. split; [apply Hleaf|].
    apply Forall_forall. intros k Hk. apply in_flat_map in Hk. destruct Hk as [level [_ Hk]].
    destruct (filter (overlaps lo hi) level) as [|f0 fs]; [destruct Hk|]. destruct Hk as [<-|[]].
    apply xtabs_XC. apply (pres_k_new (xcur fuel 0) xtabs (Hcl 0)). apply Hleaf.
Qed.
End XTabs.

Lemma xtabs_ext look look' u : (forall m, In m (xmems u) -> look' m = look m) -> xtabs look u -> xtabs look' u.
Proof.
  revert u. fix IH 1. intros u He H.
  destruct u as [m g|f mk s|[fw kids]|[kids pos fl]|lo hi [cur pos fl]|t [cur sk fl]]; cbn [xtabs xmems] in *.
  - rewrite H. symmetry. apply He. now left.
  - exact I.
  - induction kids as [|k r IHr]; [exact I|]. destruct H as [Hk Hr]. cbn [flat_map] in He. split.
    + apply (IH k); [|exact Hk]. intros m Hm. apply He. apply in_or_app. now left.
    + apply IHr; [|exact Hr]. intros m Hm. apply He. apply in_or_app. now right.
  - induction kids as [|k r IHr]; [exact I|]. destruct H as [Hk Hr]. cbn [flat_map] in He. split.
    + apply (IH k); [|exact Hk]. intros m Hm. apply He. apply in_or_app. now left.
    + apply IHr; [|exact Hr]. intros m Hm. apply He. apply in_or_app. now right.
  - exact (IH cur He H).
  - exact (IH cur He H).
Qed.

(* ------------------------------------------------------------------------------------------
   2. which events leave a memtable's list alone *)
Lemma look_of_mts s s' m : ms_mts s' = ms_mts s -> look_of s' m = look_of s m.
Proof. intros E. unfold look_of, find_mt. now rewrite E. Qed.

Lemma find_map_keep (g : memt -> memt) l m : (forall y, mt_id (g y) = mt_id y) ->
  find (fun x => N.eqb (mt_id x) m) (map g l) = option_map g (find (fun x => N.eqb (mt_id x) m) l).
Proof.
  intros Hg. induction l as [|y r IH]; [reflexivity|]. cbn [map find]. rewrite Hg. destruct (N.eqb (mt_id y) m); [reflexivity|exact IH].
Qed.

Lemma look_of_upd g m0 s m : (forall y, mt_id (g y) = mt_id y) -> (m <> m0 \/ forall y, mt_ents (g y) = mt_ents y) ->
  look_of (upd_mt g m0 s) m = look_of s m.
Proof.
  intros Hid Hor. unfold look_of, find_mt, upd_mt. cbn [ms_mts set_mts].
  rewrite (find_map_keep (fun x => if N.eqb (mt_id x) m0 then g x else x)) by (intros y; destruct (N.eqb (mt_id y) m0); [apply Hid|reflexivity]).
  destruct (find (fun x => N.eqb (mt_id x) m) (ms_mts s)) as [y|] eqn:E; [|reflexivity]. cbn [option_map].
  apply find_some in E. destruct E as [_ E]. apply N.eqb_eq in E.
  destruct (N.eqb (mt_id y) m0) eqn:E0; [|reflexivity]. apply N.eqb_eq in E0.
  destruct Hor as [Hne|He]; [congruence|apply He].
Qed.

Lemma look_of_fold g ms : (forall y, mt_id (g y) = mt_id y) -> (forall y, mt_ents (g y) = mt_ents y) ->
  forall s m, look_of (fold_left (fun s m => upd_mt g m s) ms s) m = look_of s m.
Proof.
  intros Hid He. induction ms as [|m0 ms IH]; intros s m; [reflexivity|]. cbn [fold_left]. rewrite IH. apply look_of_upd; auto.
Qed.

Lemma find_app_l {A} (q : A -> bool) l1 l2 x : find q l1 = Some x -> find q (l1 ++ l2) = Some x.
Proof. intros H. rewrite ProofsLeaf.find_app, H. reflexivity. Qed.

Lemma frame_look s s' m : frame s s' -> look_of s' m = look_of s m.
Proof. intros [_ [_ [_ [_ [E _]]]]]. now apply look_of_mts. Qed.

Lemma settle_id c y : mt_id (mt_settle c y) = mt_id y /\ mt_ents (mt_settle c y) = mt_ents y.
Proof. unfold mt_settle. destruct ((mt_store y =? 0) && (negb (cf_iter_owns c) || (mt_iters y =? 0))); split; reflexivity. Qed.
Lemma drop_store_id c y : mt_id (mt_drop_store c y) = mt_id y.
Proof. unfold mt_drop_store. now rewrite (proj1 (settle_id c _)). Qed.
Lemma drop_store_ents c y : mt_ents (mt_drop_store c y) = mt_ents y.
Proof. unfold mt_drop_store. now rewrite (proj2 (settle_id c _)). Qed.
Lemma drop_iter_id c y : mt_id (mt_drop_iter c y) = mt_id y.
Proof. unfold mt_drop_iter. now rewrite (proj1 (settle_id c _)). Qed.
Lemma drop_iter_ents c y : mt_ents (mt_drop_iter c y) = mt_ents y.
Proof. unfold mt_drop_iter. now rewrite (proj2 (settle_id c _)). Qed.

(* field lemmas, so that the proofs below rewrite instead of converting through install_new *)
Lemma look_clear_imm s m : look_of (clear_imm s) m = look_of s m. Proof. reflexivity. Qed.
Lemma scans_upd_mt g m s : ms_scans (upd_mt g m s) = ms_scans s. Proof. reflexivity. Qed.
Lemma scans_clear_imm s : ms_scans (clear_imm s) = ms_scans s. Proof. reflexivity. Qed.
Lemma mem_upd_mt g m s : ms_mem (upd_mt g m s) = ms_mem s. Proof. reflexivity. Qed.
Lemma mem_clear_imm s : ms_mem (clear_imm s) = ms_mem s. Proof. reflexivity. Qed.

Section Look.
Variable c : cfg.

(* the list of memtable m after one event, when m is not the memtable the event writes into *)
Lemma look_stable s e m : (exists y, In y (ms_mts s) /\ mt_id y = m) ->
  (forall b, e = EWrite b -> m <> ms_mem s) -> (forall m' k n v, e = EInsert m' k n v -> m <> m') ->
  look_of (fst (mstep c s e)) m = look_of s m.
Proof.
  intros Hex Hw Hins. destruct e as [b| |fid|levels|fs|fs|cid lo hi|cid o|cid| |m' k n v|n]; cbn [mstep].
  - cbn [fst]. unfold do_write. cbv zeta. pose proof (Hw b eq_refl) as Hne. clear Hw Hins.
    assert (forall n s0, ms_mem s0 = ms_mem s ->
              look_of (fold_left (fun s1 kv => upd_mt (mt_insert (mkE (fst kv) n (snd kv))) (ms_mem s1) s1) b s0) m = look_of s0 m) as H.
    { intros n. induction b as [|kv b IH]; intros s0 E0; cbn [fold_left]; [reflexivity|].
      rewrite IH by exact E0. apply look_of_upd; [reflexivity|]. left. rewrite E0. exact Hne. }
    rewrite <- (H (ms_seq s + 1)%N s eq_refl). apply look_of_mts. reflexivity.
  - destruct (ms_imm s); cbn [fst]; [reflexivity|]. unfold do_rollover. cbv zeta.
    unfold look_of, find_mt. cbn [ms_mts upd_mt set_mts].
    destruct Hex as [y [Hy Hid]].
    destruct (find (fun x => N.eqb (mt_id x) m) (ms_mts s)) as [z|] eqn:E.
    + rewrite (find_app_l _ _ _ (if N.eqb (mt_id z) (ms_mem s) then mt_add_store 1 z else z)).
      * destruct (N.eqb (mt_id z) (ms_mem s)); reflexivity.
      * rewrite (find_map_keep (fun x => if N.eqb (mt_id x) (ms_mem s) then mt_add_store 1 x else x))
          by (intros w; destruct (N.eqb (mt_id w) (ms_mem s)); reflexivity). rewrite E. reflexivity.
    + exfalso. pose proof (find_none _ _ E y Hy) as Hn. cbn beta in Hn. rewrite Hid, N.eqb_refl in Hn. discriminate.
  - destruct (ms_imm s) as [im|]; cbn [fst]; [|reflexivity]. unfold do_flushdone. cbv zeta.
    rewrite !look_of_upd; try (intros y; apply (drop_store_id c)); try (right; intros y; apply (drop_store_ents c)).
    rewrite look_clear_imm.
    apply frame_look. apply install_new_frame.
  - cbn [fst]. apply frame_look. apply install_new_frame.
  - cbn [fst]. now apply look_of_mts.
  - cbn [fst]. now apply look_of_mts.
  - destruct (find_scan s cid); [reflexivity|]. unfold do_open. cbv zeta.
    set (s2 := fold_left (fun s m => upd_mt mt_add_iter m s) (open_mems s) (take_snapshot s)).
    assert (look_of s2 m = look_of s m) as E2.
    { unfold s2. rewrite look_of_fold by (intros y; reflexivity). now apply look_of_mts. }
    destruct (freed_any s2 (open_mems s)); [exact E2|].
    destruct (negb (forallb (openable s2) _)); [exact E2|]. cbn [fst].
    destruct (cf_holds_ver c).
    + rewrite <- E2. apply look_of_mts. destruct (cf_cache c); reflexivity.
    + rewrite (frame_look _ _ m (proj1 (vref_drop_frame _ _))). rewrite <- E2. apply look_of_mts. destruct (cf_cache c); reflexivity.
  - destruct (find_scan s cid) as [sc|]; [|reflexivity]. unfold do_step. cbv zeta.
    destruct (freed_any s (xmems (sc_x sc))); [reflexivity|].
    destruct (negb (forallb (openable s) _)); [reflexivity|]. cbn [fst]. apply look_of_mts. destruct (cf_cache c); reflexivity.
  - destruct (find_scan s cid) as [sc|]; [|reflexivity]. cbn [fst]. unfold do_close. cbv zeta.
    set (s1 := set_scans s _).
    assert (look_of (fold_left (fun s m => upd_mt (mt_drop_iter c) m s) (sc_mems sc) s1) m = look_of s m) as E2.
    { rewrite look_of_fold; [now apply look_of_mts|intros y; apply (drop_iter_id c)|intros y; apply (drop_iter_ents c)]. }
    destruct (sc_holds sc); [|exact E2]. rewrite (frame_look _ _ m (proj1 (vref_drop_frame _ _))). exact E2.
  - reflexivity.
  - destruct (insert_ok s m' k n); cbn [fst]; [|reflexivity]. apply look_of_upd; [reflexivity|]. left. exact (Hins m' k n v eq_refl).
  - destruct ((ms_vis s <? n)%N && (n <=? ms_seq s)%N); reflexivity.
Qed.
End Look.

(* ------------------------------------------------------------------------------------------
   3. which events leave a cursor's record, and the current memtable, alone *)
Definition about (cid : N) (e : event) : bool :=
  match e with EOpen c _ _ | EStep c _ | EClose c => N.eqb c cid | _ => false end.

Lemma find_scan_scans s s' cid : ms_scans s' = ms_scans s -> find_scan s' cid = find_scan s cid.
Proof. intros E. unfold find_scan. now rewrite E. Qed.

Lemma write_fold_fields n b : forall s,
  let s' := fold_left (fun s1 kv => upd_mt (mt_insert (mkE (fst kv) n (snd kv))) (ms_mem s1) s1) b s in
  ms_scans s' = ms_scans s /\ ms_mem s' = ms_mem s /\ ms_imm s' = ms_imm s.
Proof.
  induction b as [|kv b IH]; intros s; cbn [fold_left]; cbn zeta; [auto|].
  destruct (IH (upd_mt (mt_insert (mkE (fst kv) n (snd kv))) (ms_mem s) s)) as [A [B C]]. cbn zeta in *. auto.
Qed.
Lemma fold_upd_fields g ms : forall s,
  let s' := fold_left (fun s m => upd_mt g m s) ms s in
  ms_scans s' = ms_scans s /\ ms_mem s' = ms_mem s /\ ms_vers s' = ms_vers s /\ ms_cur s' = ms_cur s.
Proof.
  induction ms as [|m ms IH]; intros s; cbn [fold_left]; cbn zeta; [auto|].
  destruct (IH (upd_mt g m s)) as [A [B [C D]]]. cbn zeta in *. auto.
Qed.

Lemma find_scan_app l x cid : sc_id x <> cid ->
  find (fun y => N.eqb (sc_id y) cid) (l ++ [x]) = find (fun y => N.eqb (sc_id y) cid) l.
Proof.
  intros Hne. rewrite ProofsLeaf.find_app. destruct (find _ l); [reflexivity|]. cbn [find].
  destruct (N.eqb (sc_id x) cid) eqn:E; [apply N.eqb_eq in E; contradiction|reflexivity].
Qed.
Lemma find_scan_map (f : scan -> scan) l cid :
  (forall y, N.eqb (sc_id (f y)) cid = N.eqb (sc_id y) cid) -> (forall y, sc_id y = cid -> f y = y) ->
  find (fun y => N.eqb (sc_id y) cid) (map f l) = find (fun y => N.eqb (sc_id y) cid) l.
Proof.
  intros H1 H2. induction l as [|y r IH]; [reflexivity|]. cbn [map find]. rewrite H1.
  destruct (N.eqb (sc_id y) cid) eqn:E; [|exact IH]. apply N.eqb_eq in E. now rewrite (H2 y E).
Qed.
Lemma find_scan_filter l c' cid : c' <> cid ->
  find (fun y => N.eqb (sc_id y) cid) (filter (fun y => negb (N.eqb (sc_id y) c')) l) = find (fun y => N.eqb (sc_id y) cid) l.
Proof.
  intros Hne. induction l as [|y r IH]; [reflexivity|]. cbn [filter find].
  destruct (N.eqb (sc_id y) c') eqn:E; cbn [negb find].
  - apply N.eqb_eq in E. destruct (N.eqb (sc_id y) cid) eqn:E2; [apply N.eqb_eq in E2; congruence|exact IH].
  - destruct (N.eqb (sc_id y) cid); [reflexivity|exact IH].
Qed.

Lemma frame_scans s s' : frame s s' -> ms_scans s' = ms_scans s.
Proof. intros [_ [_ [_ [_ [_ [_ E]]]]]]. exact E. Qed.
Lemma frame_mem s s' : frame s s' -> ms_mem s' = ms_mem s.
Proof. intros [_ [_ [E _]]]. exact E. Qed.

Section Frames.
Variable c : cfg.

Lemma scan_frame s e cid : about cid e = false -> find_scan (fst (mstep c s e)) cid = find_scan s cid.
Proof.
  intros Ha. destruct e as [b| |fid|levels|fs|fs|c' lo hi|c' o|c'| |m' k n v|n]; cbn [mstep about] in *.
  - cbn [fst]. unfold do_write. cbv zeta. apply find_scan_scans. cbn [ms_scans]. apply write_fold_fields.
  - destruct (ms_imm s); reflexivity.
  - destruct (ms_imm s) as [im|]; [|reflexivity]. cbn [fst]. unfold do_flushdone. cbv zeta.
    apply find_scan_scans. rewrite !scans_upd_mt, scans_clear_imm. apply frame_scans. apply install_new_frame.
  - cbn [fst]. apply find_scan_scans. apply frame_scans. apply install_new_frame.
  - reflexivity.
  - reflexivity.
  - apply N.eqb_neq in Ha. destruct (find_scan s c'); [reflexivity|]. unfold do_open. cbv zeta.
    set (s2 := fold_left (fun s m => upd_mt mt_add_iter m s) (open_mems s) (take_snapshot s)).
    assert (ms_scans s2 = ms_scans s) as E2 by (unfold s2; rewrite (proj1 (fold_upd_fields mt_add_iter (open_mems s) (take_snapshot s))); reflexivity).
    destruct (freed_any s2 (open_mems s)); [now apply find_scan_scans|].
    destruct (negb (forallb (openable s2) _)); [now apply find_scan_scans|]. cbn [fst].
    assert (forall s3, ms_scans s3 = ms_scans s ->
              find_scan (set_scans s3 (ms_scans s3 ++ [mkScan c' (ms_vis s) (open_mems s) (ms_cur s) (cf_holds_ver c)
                (scan_new (cf_fuel c) lo hi (ms_vis s) (map (fun m => (m, look_of s2 m)) (open_mems s)) (cur_levels s2))])) cid = find_scan s cid) as H.
    { intros s3 E3. unfold find_scan. cbn [ms_scans set_scans]. rewrite E3. apply find_scan_app. cbn [sc_id]. exact Ha. }
    destruct (cf_holds_ver c).
    + destruct (cf_cache c); apply H; exact E2.
    + rewrite (find_scan_scans _ _ cid (frame_scans _ _ (proj1 (vref_drop_frame _ _)))).
      destruct (cf_cache c); apply H; exact E2.
  - apply N.eqb_neq in Ha. destruct (find_scan s c') as [sc|]; [|reflexivity]. unfold do_step. cbv zeta.
    destruct (freed_any s (xmems (sc_x sc))); [reflexivity|].
    destruct (negb (forallb (openable s) _)); [reflexivity|]. cbn [fst].
    unfold put_scan, find_scan. cbn [ms_scans set_scans].
    assert (ms_scans (if cf_cache c then set_cache s (opened_between (sc_x sc) (scan_step (cf_fuel c) o (xrefresh (look_of s) (sc_x sc))) ++ ms_cache s) else s) = ms_scans s) as ->
      by (destruct (cf_cache c); reflexivity).
    apply find_scan_map.
    + intros y. destruct (N.eqb (sc_id y) c') eqn:E; [|reflexivity]. cbn [sc_id]. apply N.eqb_eq in E. rewrite E. reflexivity.
    + intros y Hy. destruct (N.eqb (sc_id y) c') eqn:E; [|reflexivity]. apply N.eqb_eq in E. congruence.
  - apply N.eqb_neq in Ha. destruct (find_scan s c') as [sc|]; [|reflexivity]. cbn [fst]. unfold do_close. cbv zeta.
    set (s1 := set_scans s _).
    assert (find_scan (fold_left (fun s m => upd_mt (mt_drop_iter c) m s) (sc_mems sc) s1) cid = find_scan s cid) as E2.
    { transitivity (find_scan s1 cid); [apply find_scan_scans; apply (fold_upd_fields (mt_drop_iter c) (sc_mems sc) s1)|].
      unfold find_scan, s1. cbn [ms_scans set_scans]. now apply find_scan_filter. }
    destruct (sc_holds sc); [|exact E2].
    rewrite (find_scan_scans _ _ cid (frame_scans _ _ (proj1 (vref_drop_frame _ _)))). exact E2.
  - reflexivity.
  - destruct (insert_ok s m' k n); reflexivity.
  - destruct ((ms_vis s <? n)%N && (n <=? ms_seq s)%N); reflexivity.
Qed.

Lemma mem_frame s e : e <> ERollover -> ms_mem (fst (mstep c s e)) = ms_mem s.
Proof.
  intros Hne. destruct e as [b| |fid|levels|fs|fs|c' lo hi|c' o|c'| |m' k n v|n]; cbn [mstep]; try congruence.
  - cbn [fst]. unfold do_write. cbv zeta. cbn [ms_mem]. apply write_fold_fields.
  - destruct (ms_imm s) as [im|]; [|reflexivity]. cbn [fst]. unfold do_flushdone. cbv zeta.
    rewrite !mem_upd_mt, mem_clear_imm. apply frame_mem. apply install_new_frame.
  - cbn [fst]. apply frame_mem. apply install_new_frame.
  - reflexivity.
  - reflexivity.
  - destruct (find_scan s c'); [reflexivity|]. unfold do_open. cbv zeta.
    set (s2 := fold_left (fun s m => upd_mt mt_add_iter m s) (open_mems s) (take_snapshot s)).
    assert (ms_mem s2 = ms_mem s) as E2 by (unfold s2; rewrite (proj1 (proj2 (fold_upd_fields mt_add_iter (open_mems s) (take_snapshot s)))); reflexivity).
    destruct (freed_any s2 (open_mems s)); [exact E2|].
    destruct (negb (forallb (openable s2) _)); [exact E2|]. cbn [fst].
    destruct (cf_holds_ver c).
    + destruct (cf_cache c); exact E2.
    + rewrite (frame_mem _ _ (proj1 (vref_drop_frame _ _))). destruct (cf_cache c); exact E2.
  - destruct (find_scan s c') as [sc|]; [|reflexivity]. unfold do_step. cbv zeta.
    destruct (freed_any s (xmems (sc_x sc))); [reflexivity|].
    destruct (negb (forallb (openable s) _)); [reflexivity|]. cbn [fst]. destruct (cf_cache c); reflexivity.
  - destruct (find_scan s c') as [sc|]; [|reflexivity]. cbn [fst]. unfold do_close. cbv zeta.
    set (s1 := set_scans s _).
    assert (ms_mem (fold_left (fun s m => upd_mt (mt_drop_iter c) m s) (sc_mems sc) s1) = ms_mem s) as E2
      by (rewrite (proj1 (proj2 (fold_upd_fields (mt_drop_iter c) (sc_mems sc) s1))); reflexivity).
    destruct (sc_holds sc); [|exact E2]. rewrite (frame_mem _ _ (proj1 (vref_drop_frame _ _))). exact E2.
  - reflexivity.
  - destruct (insert_ok s m' k n); reflexivity.
  - destruct ((ms_vis s <? n)%N && (n <=? ms_seq s)%N); reflexivity.
Qed.
End Frames.

(* ------------------------------------------------------------------------------------------
   4. the held cursor *)
(* no write lands in the memtable the cursor was opened on: writes are allowed again once a
   rollover has swapped that memtable out; the cursor is neither re-opened nor dropped *)
Fixpoint quietb (cid : N) (memlive : bool) (es : list event) : bool :=
  match es with
  | [] => true
  | e :: r =>
      match e with
      | EWrite _ => negb memlive && quietb cid memlive r
      | EInsert _ _ _ _ => false        (* the parts of a write: see ProofsLTG for the statement that allows them *)
      | ERollover => quietb cid false r
      | EOpen c0 _ _ => negb (N.eqb c0 cid) && quietb cid memlive r
      | EClose c0 => negb (N.eqb c0 cid) && quietb cid memlive r
      | _ => quietb cid memlive r
      end
  end.

(* what cursor cid returned, and what the reference cursor over L returns for the same calls *)
Fixpoint cursor_trace (cid : N) (es : list event) (os : list outcome) : list outcome :=
  match es, os with
  | e :: er, o :: or =>
      (match e with EStep c0 _ => if N.eqb c0 cid then [o] else [] | _ => [] end) ++ cursor_trace cid er or
  | _, _ => []
  end.
Fixpoint ref_trace (L : list entry) (P : Z) (cid : N) (es : list event) : list outcome :=
  match es with
  | [] => []
  | EStep c0 o :: r =>
      if N.eqb c0 cid then let P' := step (ref L) o P in OObs (observe (ref L) P') :: ref_trace L P' cid r
      else ref_trace L P cid r
  | _ :: r => ref_trace L P cid r
  end.

Lemma event_eq_rollover (e : event) : e = ERollover \/ e <> ERollover.
Proof. destruct e; (left; reflexivity) || (right; discriminate). Qed.

Definition no_err (o : outcome) : Prop := match o with OErr _ => False | _ => True end.

Section Held.
Variable c : cfg.
Hypothesis Hio : cf_iter_owns c = true.
Hypothesis Hhv : cf_holds_ver c = true.
Variables (cid : N) (L : list entry).

Definition CI (s : machine) (memlive : bool) (P : Z) : Prop :=
  Inv s /\ exists sc, find_scan s cid = Some sc /\
    refines (xcur (cf_fuel c) scan_depth) (sc_x sc) L P /\ xtabs (look_of s) (sc_x sc) /\
    (memlive = false -> ~ In (ms_mem s) (sc_mems sc)).

Lemma find_put_scan s sc x' : find_scan s cid = Some sc ->
  find_scan (put_scan cid sc x' s) cid = Some (mkScan cid (sc_t sc) (sc_mems sc) (sc_ver sc) (sc_holds sc) x').
Proof.
  unfold find_scan, put_scan. cbn [ms_scans set_scans]. induction (ms_scans s) as [|y r IH]; [discriminate|].
  cbn [find map]. destruct (N.eqb (sc_id y) cid) eqn:E.
  - intros _. cbn [sc_id]. now rewrite N.eqb_refl.
  - rewrite E. exact IH.
Qed.

Lemma held_step s ml P e : CI s ml P -> no_err (snd (mstep c s e)) ->
  quietb cid ml [e] = true ->
  let ml' := match e with ERollover => false | _ => ml end in
  let P' := match e with EStep c0 o => if N.eqb c0 cid then step (ref L) o P else P | _ => P end in
  CI (fst (mstep c s e)) ml' P' /\
  (forall o, e = EStep cid o -> snd (mstep c s e) = OObs (observe (ref L) P')).
Proof.
  intros [HI [sc [Hfs [Hr [Ht Hml]]]]] Hne Hq. cbv zeta.
  destruct (step_inv c Hio Hhv s e HI) as [HI' _].
  pose proof (find_scan_in s cid sc Hfs) as [Hsc Hid].
  destruct (b_sc _ _ (i_v _ HI) sc Hsc) as [_ [vo [_ [_ Hxok]]]].
  assert (forall m, In m (xmems (sc_x sc)) -> In m (sc_mems sc)) as Hsub by (intros m Hm; exact (xok_mems _ _ _ Hxok m Hm)).
  destruct (about cid e) eqn:Ha.
  - (* an event of this cursor: by quietb it is a call *)
    destruct e as [b| |fid|levels|fs|fs|c0 lo hi|c0 o|c0| |m' k n v|n]; cbn [about] in Ha; try discriminate.
    + cbn [quietb] in Hq. rewrite Ha in Hq. discriminate.
    + apply N.eqb_eq in Ha. subst c0. rewrite N.eqb_refl. cbn [mstep] in *. rewrite Hfs in *.
      unfold do_step in *. cbv zeta in *.
      destruct (freed_any s (xmems (sc_x sc))); [destruct Hne|].
      rewrite (xtabs_refresh _ _ Ht) in *.
      set (x' := scan_step (cf_fuel c) o (sc_x sc)) in *.
      destruct (negb (forallb (openable s) (opened_between (sc_x sc) x'))); [destruct Hne|].
      cbn [fst snd] in *.
      pose proof (refines_step _ _ _ _ o Hr) as Hr'. fold (scan_step (cf_fuel c) o (sc_x sc)) in Hr'. fold x' in Hr'.
      split.
      * split; [exact HI'|]. eexists. split; [apply find_put_scan; destruct (cf_cache c); exact Hfs|].
        cbn [sc_x sc_mems]. split; [exact Hr'|]. split.
        -- apply (xtabs_ext (look_of s)); [intros m _; apply look_of_mts; destruct (cf_cache c); reflexivity|].
           apply xtabs_closed. exact Ht.
        -- intros Hf. assert (ms_mem (put_scan cid sc x' (if cf_cache c then set_cache s (opened_between (sc_x sc) x' ++ ms_cache s) else s)) = ms_mem s) as ->
             by (destruct (cf_cache c); reflexivity). now apply Hml.
      * intros o0 Eo. injection Eo as <-. f_equal. unfold scan_obs. apply (refines_obs _ _ _ _ Hr').
    + cbn [quietb] in Hq. rewrite Ha in Hq. discriminate.
  - (* somebody else's event *)
    assert (match e with EStep c0 o => if N.eqb c0 cid then step (ref L) o P else P | _ => P end = P) as ->.
    { destruct e; try reflexivity. cbn [about] in Ha. now rewrite Ha. }
    split; [|intros o Eo; subst e; cbn [about] in Ha; rewrite N.eqb_refl in Ha; discriminate].
    split; [exact HI'|]. exists sc. split; [rewrite (scan_frame c s e cid Ha); exact Hfs|]. split; [exact Hr|]. split.
    + apply (xtabs_ext (look_of s)); [|exact Ht]. intros m Hm. apply look_stable.
      * apply (a_sc _ (i_a _ HI) sc Hsc). now apply Hsub.
      * intros b Eb. subst e. cbn [quietb] in Hq. destruct ml; [discriminate|]. intros Em. apply (Hml eq_refl). rewrite <- Em. now apply Hsub.
      * intros m' k n v Ee. subst e. cbn [quietb] in Hq. discriminate.
    + destruct (event_eq_rollover e) as [Er|Er].
      * subst e. intros _. cbn [mstep] in *. destruct (ms_imm s); [destruct Hne|]. cbn [fst]. unfold do_rollover. cbv zeta. cbn [ms_mem].
        intros Hin. destruct (a_sc _ (i_a _ HI) sc Hsc _ Hin) as [y [Hy Hyid]]. pose proof (a_fresh _ (i_a _ HI) y Hy). cbn [upd_mt set_mts ms_next] in Hyid. lia.
      * rewrite (mem_frame c s e Er). destruct e; try exact Hml; congruence.
Qed.

Lemma quietb_cons ml e r : quietb cid ml (e :: r) = true ->
  quietb cid ml [e] = true /\ quietb cid (match e with ERollover => false | _ => ml end) r = true.
Proof.
  cbn [quietb]. destruct e; intros H; try (split; [reflexivity|exact H]); try discriminate.
  - apply andb_prop in H. destruct H as [H1 H2]. rewrite H1. auto.
  - apply andb_prop in H. destruct H as [H1 H2]. rewrite H1. auto.
  - apply andb_prop in H. destruct H as [H1 H2]. rewrite H1. auto.
Qed.

Lemma held_run : forall es s ml P, CI s ml P -> quietb cid ml es = true -> Forall no_err (snd (mrun c s es)) ->
  cursor_trace cid es (snd (mrun c s es)) = ref_trace L P cid es.
Proof.
  induction es as [|e r IH]; intros s ml P HC Hq Hne; [reflexivity|].
  destruct (quietb_cons ml e r Hq) as [Hq1 Hq2]. cbn [mrun] in *.
  destruct (mstep c s e) as [s' o] eqn:E.
  assert (no_err o) as Ho.
  { destruct o as [|ob|er]; [exact I|exact I|]. cbn [snd] in Hne. inversion Hne; subst. assumption. }
  pose proof (held_step s ml P e HC) as Hst. rewrite E in Hst. cbn [fst snd] in Hst. destruct (Hst Ho Hq1) as [HC' Hobs].
  destruct o as [|ob|er]; [| |destruct Ho].
  - destruct (mrun c s' r) as [s'' os] eqn:Er. cbn [snd] in *. inversion Hne; subst.
    specialize (IH s' _ _ HC' Hq2). rewrite Er in IH. cbn [snd] in IH. specialize (IH H2).
    cbn [cursor_trace ref_trace]. destruct e as [b| |fid|levels|fs|fs|c0 lo hi|c0 o|c0| |m' k n v|n]; cbn [app]; try exact IH.
    destruct (N.eqb c0 cid) eqn:Ec; [|exact IH]. apply N.eqb_eq in Ec. subst c0. specialize (Hobs o eq_refl). discriminate.
  - destruct (mrun c s' r) as [s'' os] eqn:Er. cbn [snd] in *. inversion Hne; subst.
    specialize (IH s' _ _ HC' Hq2). rewrite Er in IH. cbn [snd] in IH. specialize (IH H2).
    cbn [cursor_trace ref_trace]. destruct e as [b| |fid|levels|fs|fs|c0 lo hi|c0 o|c0| |m' k n v|n]; cbn [app]; try exact IH.
    destruct (N.eqb c0 cid) eqn:Ec; [|exact IH]. apply N.eqb_eq in Ec. subst c0. specialize (Hobs o eq_refl).
    cbn [app]. rewrite ?N.eqb_refl in *. rewrite Hobs. f_equal. exact IH.
Qed.
End Held.

(* ---- opening *)
Lemma cur_levels_arc_add s v : cur_levels (arc_add v s) = cur_levels s.
Proof.
  unfold cur_levels, find_ver, arc_add. cbn [ms_vers ms_cur set_vers].
  induction (ms_vers s) as [|w r IH]; [reflexivity|]. cbn [map find].
  destruct (N.eqb (v_id w) v) eqn:E; cbn [v_id]; destruct (N.eqb (v_id w) (ms_cur s)); try reflexivity; exact IH.
Qed.

Lemma cur_levels_vers s s' : ms_vers s' = ms_vers s -> ms_cur s' = ms_cur s -> cur_levels s' = cur_levels s.
Proof. intros E1 E2. unfold cur_levels, find_ver. now rewrite E1, E2. Qed.

Lemma open_CI c cid lo hi s : cf_iter_owns c = true -> cf_holds_ver c = true -> Inv s -> find_scan s cid = None ->
  no_err (snd (mstep c s (EOpen cid lo hi))) ->
  scan_wf lo hi (map (look_of s) (open_mems s)) (cur_levels s) ->
  (total_size (map (look_of s) (open_mems s)) (cur_levels s) + 2 <= cf_fuel c)%nat ->
  CI c cid (scan_list lo hi (ms_vis s) (map (look_of s) (open_mems s)) (cur_levels s)) (fst (mstep c s (EOpen cid lo hi))) true (-1).
Proof.
  intros Hio Hhv HI Hfs Hne Hwf Hfu.
  destruct (step_inv c Hio Hhv s (EOpen cid lo hi) HI) as [HI' _].
  split; [exact HI'|]. cbn [mstep] in *. rewrite Hfs in *. unfold do_open in *. cbv zeta in *.
  set (s2 := fold_left (fun s m => upd_mt mt_add_iter m s) (open_mems s) (take_snapshot s)) in *.
  assert (forall m, look_of s2 m = look_of s m) as Hlook.
  { intros m. unfold s2. rewrite look_of_fold by (intros y; reflexivity). now apply look_of_mts. }
  assert (cur_levels s2 = cur_levels s) as Hlv.
  { transitivity (cur_levels (take_snapshot s)); [|apply cur_levels_arc_add].
    apply cur_levels_vers; apply (fold_upd_fields mt_add_iter (open_mems s) (take_snapshot s)). }
  rewrite Hlv in *.
  assert (map (fun m => (m, look_of s2 m)) (open_mems s) = map (fun m => (m, look_of s m)) (open_mems s)) as Hmap
    by (apply map_ext; intros m; now rewrite Hlook).
  rewrite Hmap in *.
  set (x := scan_new (cf_fuel c) lo hi (ms_vis s) (map (fun m => (m, look_of s m)) (open_mems s)) (cur_levels s)) in *.
  destruct (freed_any s2 (open_mems s)); [destruct Hne|].
  destruct (negb (forallb (openable s2) (opened_between (XM (mkM true [])) x))); [destruct Hne|].
  rewrite Hhv in *. cbn [fst snd] in *.
  eexists. split.
  - unfold find_scan. cbn [ms_scans set_scans].
    assert (ms_scans (if cf_cache c then set_cache s2 (opened_between (XM (mkM true [])) x ++ ms_cache s2) else s2) = ms_scans s) as ->
      by (destruct (cf_cache c); cbn [ms_scans set_cache]; apply (fold_upd_fields mt_add_iter (open_mems s) (take_snapshot s))).
    rewrite ProofsLeaf.find_app. unfold find_scan in Hfs. rewrite Hfs. cbn [find sc_id]. rewrite N.eqb_refl. reflexivity.
  - cbn [sc_x sc_mems]. split; [|split; [|discriminate]].
    + assert (map snd (map (fun m => (m, look_of s m)) (open_mems s)) = map (look_of s) (open_mems s)) as Hsnd
        by (rewrite map_map; reflexivity).
      pose proof (scan_new_refines (cf_fuel c) lo hi (ms_vis s) (map (fun m => (m, look_of s m)) (open_mems s)) (cur_levels s)) as H.
      rewrite Hsnd in H. exact (H Hwf Hfu).
    + apply (xtabs_ext (look_of s)); [|apply xtabs_scan_new].
      intros m _. transitivity (look_of s2 m); [|apply Hlook]. apply look_of_mts. destruct (cf_cache c); reflexivity.
Qed.
