(* Snap/ProofsLTK.v — a MergingCursor over LATE-TOLERANT children is late-tolerant.

   A child over a list that grows by entries newer than t is not an exact reference cursor over
   any list (a BoundsCursor over a skiplist iterator can be carried past a late entry by an
   insertion and show it only on the way back).  What it keeps is a LOGICAL position over Ok, its
   entries not newer than t: it shows entry j of Ok, or stands in the gap before entry g showing
   nothing or some entry newer than t (one of Uk, everything it could show).  The interface of a
   child (K, below) says how the calls move that position; the theorem is that the merge of such
   children satisfies the interface of ProofsLT over O, the sorted union of the Ok. *)
From Coq Require Import NArith ZArith List Bool Lia Permutation.
From Blue Require Import Cursor.Iface Cursor.Ref Cursor.Concat Cursor.Merging Cursor.Spec Cursor.Proofs_Order Cursor.Proofs_Ref
  Cursor.Proofs_Spec Cursor.Proofs_Heap Cursor.Proofs_Concat Cursor.Proofs_Merging Cursor.Proofs_Pruning Snap.ProofsLT Snap.ProofsLTP.
Import ListNotations.
Local Open Scope Z_scope.

(* ---------------------------------------------------------------- lists without repeated (key, timestamp) *)
Lemma distinct_In l : distinct l -> forall x y, In x l -> In y l -> eeq x y -> x = y.
Proof.
  induction 1 as [|a l Hf Hd IH]; intros x y Hx Hy He; [destruct Hx|]. rewrite Forall_forall in Hf.
  destruct Hx as [->|Hx], Hy as [->|Hy]; auto.
  - exfalso. now apply (Hf y Hy).
  - exfalso. apply (Hf x Hx). unfold eeq in *. rewrite ecmp_antisym, He. reflexivity.
Qed.
Lemma distinct_app_disj l1 l2 : distinct (l1 ++ l2) -> forall x y, In x l1 -> In y l2 -> ~ eeq x y.
Proof.
  induction l1 as [|a l1 IH]; intros Hd x y Hx Hy; [destruct Hx|]. cbn [app] in Hd. inversion Hd as [|? ? Hf Hd']; subst.
  destruct Hx as [->|Hx]; [|now apply IH]. rewrite Forall_forall in Hf. apply Hf. apply in_or_app. now right.
Qed.
Lemma distinct_perm l l' : Permutation l l' -> distinct l -> distinct l'.
Proof.
  induction 1 as [|a l l' HP IH|a b l|l1 l2 l3 H1 IH1 H2 IH2]; intros Hd; auto.
  - inversion Hd as [|? ? Hf Hd']; subst. constructor; [|auto]. eapply Permutation_Forall; eauto.
  - inversion Hd as [|? ? Hf Hd']; subst. inversion Hd' as [|? ? Hf' Hd'']; subst. inversion Hf as [|? ? Hab Hf2]; subst.
    constructor; [constructor; [|exact Hf']|constructor; [exact Hf2|exact Hd'']].
    intros He. apply Hab. unfold eeq in *. rewrite ecmp_antisym, He. reflexivity.
Qed.

(* what the merge knows of a child: Ok, Uk, its logical position, how many steps it can still make *)
Record kdesc := mkKD { kO : list entry; kU : list entry; kp : lpos; ka : Z; kb : Z }.

Section MergeK.
Context {S : Type} (c : cursor S) (t : N) (O : list entry).
Hypothesis HsO : sorted O.
Hypothesis HoldO : forall e, In e O -> (ets e <= t)%N.

Notation n := (len O).
Definition isold (e : entry) : bool := N.leb (ets e) t.
Notation cutO := (cut O).
Notation cntO := (cnt O).

(* ---------------------------------------------------------------- the interface of a child *)
Variable K : list entry -> list entry -> S -> bool -> lpos -> Z -> Z -> Prop.

Hypothesis k_at : forall Ok Uk s md j a b, K Ok Uk s md (LAt j) a b -> 0 <= j < len Ok /\ c_kv c s = Some (at_ Ok j).
Hypothesis k_gap : forall Ok Uk s md g a b, K Ok Uk s md (LGap g) a b -> 0 <= g <= len Ok /\
  match c_kv c s with
  | None => True
  | Some x => (t < ets x)%N /\ (md = true -> g < len Ok -> elt x (at_ Ok g)) /\ (md = false -> 0 < g -> elt (at_ Ok (g - 1)) x)
  end.
Hypothesis k_in : forall Ok Uk s md p a b x, K Ok Uk s md p a b -> c_kv c s = Some x -> In x Uk.
Hypothesis k_meas : forall Ok Uk s md p a b, K Ok Uk s md p a b -> 0 <= a <= len Uk + 2 /\ 0 <= b <= len Uk + 2.
Hypothesis k_next : forall Ok Uk s md p a b, K Ok Uk s md p a b -> exists p' a' b',
  K Ok Uk (c_next c s) true p' a' b' /\ nxt p p' /\ (c_kv c (c_next c s) = None -> p' = LGap (len Ok)) /\
  ((c_kv c s = None /\ c_kv c (c_next c s) = None) \/ a' < a).
Hypothesis k_prev : forall Ok Uk s md p a b, K Ok Uk s md p a b -> exists p' a' b',
  K Ok Uk (c_prev c s) false p' a' b' /\ prv p p' /\ (c_kv c (c_prev c s) = None -> p' = LGap 0) /\
  ((c_kv c s = None /\ c_kv c (c_prev c s) = None) \/ b' < b) /\
  (md = false -> forall x y, c_kv c s = Some x -> c_kv c (c_prev c s) = Some y -> elt y x).
Hypothesis k_seek : forall Ok Uk s md p a b k, K Ok Uk s md p a b -> exists p' a' b',
  K Ok Uk (c_seek c k s) true p' a' b' /\ nu p' = count (below k) Ok /\ (c_kv c (c_seek c k s) = None -> p' = LGap (len Ok)).
Hypothesis k_first : forall Ok Uk s md p a b, K Ok Uk s md p a b -> exists a' b',
  K Ok Uk (c_first c s) true (LGap 0) a' b' /\ c_kv c (c_first c s) = None.
Hypothesis k_last : forall Ok Uk s md p a b, K Ok Uk s md p a b -> exists a' b',
  K Ok Uk (c_last c s) false (LGap (len Ok)) a' b' /\ c_kv c (c_last c s) = None.
(* everything a child could show is determined by its state (the list under it) *)
Variable Uof : S -> list entry.
Hypothesis k_U : forall Ok Uk s md p a b, K Ok Uk s md p a b -> Uk = Uof s.

(* ---------------------------------------------------------------- the children together *)
(* every Ok sorted, together they are O; nothing two children could show has the same (key, timestamp) *)
Definition kstatic (ds : list kdesc) : Prop :=
  Forall (fun d => sorted (kO d) /\ incl (kO d) (kU d)) ds /\ Permutation (concat (map kO ds)) O /\
  distinct (concat (map kU ds)).
Definition kslots (ds : list kdesc) : list slot := map (fun d => (kO d, 0)) ds.

Definition kid_ok (md : bool) (s : S) (d : kdesc) : Prop :=
  K (kO d) (kU d) s md (kp d) (ka d) (kb d) /\
  (c_kv c s = None -> kp d = LGap (if md then len (kO d) else 0)).
Definition kids_ok (md : bool) (kids : list S) (ds : list kdesc) : Prop := Forall2 (kid_ok md) kids ds.

Definition FW (v : Z) (ds : list kdesc) : Prop := Forall (fun d => nu (kp d) = cntO (kO d) v) ds.
Definition RV (r : Z) (ds : list kdesc) : Prop := Forall (fun d => rho (kp d) = cntO (kO d) (r + 1) - 1) ds.

Fixpoint asum (ds : list kdesc) : Z := match ds with [] => 0 | d :: r => ka d + asum r end.
Fixpoint bsum (ds : list kdesc) : Z := match ds with [] => 0 | d :: r => kb d + bsum r end.
Fixpoint tsum (ds : list kdesc) : Z := match ds with [] => 0 | d :: r => (len (kU d) + 2) + tsum r end.

Lemma kstatic_static ds : kstatic ds -> static O (kslots ds).
Proof.
  intros [H1 [H2 _]]. unfold static, kslots. rewrite map_map. cbn [fst]. split; [|exact H2].
  apply Forall_forall. intros d' Hd'. apply in_map_iff in Hd'. destruct Hd' as [d [<- Hd]]. cbn [fst].
  rewrite Forall_forall in H1. apply (H1 d Hd).
Qed.
Lemma kstatic_perm ds ds' : Permutation ds ds' -> kstatic ds -> kstatic ds'.
Proof.
  intros HP [H1 [H2 H3]]. split; [eapply Permutation_Forall; eauto|]. split.
  - etransitivity; [|exact H2]. apply Permutation_concat. apply Permutation_map. now symmetry.
  - eapply distinct_perm; [|exact H3]. apply Permutation_concat. now apply Permutation_map.
Qed.
Lemma asum_perm ds ds' : Permutation ds ds' -> asum ds = asum ds'.
Proof. induction 1; cbn [asum]; lia. Qed.
Lemma bsum_perm ds ds' : Permutation ds ds' -> bsum ds = bsum ds'.
Proof. induction 1; cbn [bsum]; lia. Qed.
Lemma tsum_perm ds ds' : Permutation ds ds' -> tsum ds = tsum ds'.
Proof. induction 1; cbn [tsum]; lia. Qed.

Lemma kO_sorted ds d : kstatic ds -> In d ds -> sorted (kO d).
Proof. intros [H _] Hd. rewrite Forall_forall in H. apply (H d Hd). Qed.
Lemma kO_in_O ds d e : kstatic ds -> In d ds -> In e (kO d) -> exists i, ent O i = Some e.
Proof.
  intros [_ [HP _]] Hd He. apply In_ent. eapply Permutation_in; [exact HP|]. apply in_concat. exists (kO d). split; [now apply in_map|exact He].
Qed.
Lemma O_in_kO ds j : kstatic ds -> 0 <= j < n -> exists d, In d ds /\ In (at_ O j) (kO d).
Proof.
  intros [_ [HP _]] Hj. assert (In (at_ O j) (concat (map kO ds))) as H.
  { eapply Permutation_in; [symmetry; exact HP|]. eapply ent_In. apply ent_at. exact Hj. }
  apply in_concat in H. destruct H as [l [Hl He]]. apply in_map_iff in Hl. destruct Hl as [d [<- Hd]]. eauto.
Qed.
Lemma at_isold j : 0 <= j < n -> isold (at_ O j) = true.
Proof. intros Hj. unfold isold. apply N.leb_le. apply HoldO. eapply ent_In. apply ent_at. exact Hj. Qed.
Lemma kO_isold ds d e : kstatic ds -> In d ds -> In e (kO d) -> isold e = true.
Proof. intros Hst Hd He. destruct (kO_in_O _ _ _ Hst Hd He) as [i Hi]. unfold isold. apply N.leb_le. apply HoldO. eapply ent_In; eauto. Qed.
(* what two different children can show differs *)
Lemma shown_differ d0 ds x d y : kstatic (d0 :: ds) -> In x (kU d0) -> In d ds -> In y (kU d) -> ~ eeq x y.
Proof.
  intros [_ [_ Hd]] Hx Hin Hy. cbn [map concat] in Hd. apply (distinct_app_disj _ _ Hd x y Hx).
  apply in_concat. exists (kU d). split; [now apply in_map|exact Hy].
Qed.
Lemma cut_at v j : 0 <= v <= n -> 0 <= j < n -> (cutO v (at_ O j) = true <-> j < v).
Proof. intros Hv Hj. apply (cut_idx O HsO v j); [exact Hv|now apply ent_at]. Qed.
Lemma late_not_old x : (t < ets x)%N -> isold x = false.
Proof. intros H. unfold isold. apply N.leb_gt. exact H. Qed.

(* the entry of Ok at index cnt Ok v is O[v], when O[v] is one of Ok *)
Lemma kO_at_cut ds d v : kstatic ds -> In d ds -> 0 <= v < n -> In (at_ O v) (kO d) ->
  ent (kO d) (cntO (kO d) v) = Some (at_ O v) /\ cntO (kO d) (v + 1) = cntO (kO d) v + 1.
Proof.
  intros Hst Hd Hv Hin. apply (slot_has O HsO (kO d) v (at_ O v)); auto.
  - eapply kO_sorted; eauto.
  - intros e He. eapply kO_in_O; eauto.
  - now apply ent_at.
Qed.
(* an entry of Ok at an index below cnt Ok v comes before O[v]; from cnt Ok v on it does not *)
Lemma kO_cut_idx ds d v j e : kstatic ds -> In d ds -> ent (kO d) j = Some e -> (j < cntO (kO d) v <-> cutO v e = true).
Proof.
  intros Hst Hd He. symmetry. apply (count_prefix _ (kO d) (kO_sorted _ _ Hst Hd) (cut_downclosed O v) j e He).
Qed.

(* ---------------------------------------------------------------- what the root shows *)
Lemma kid_of md kids ds d : kids_ok md kids ds -> In d ds -> exists j s, nth_error kids j = Some s /\ kid_ok md s d.
Proof.
  intros Hok Hd. destruct (In_nth_error _ _ Hd) as [j Hj]. destruct (Forall2_nth_r _ _ _ _ _ Hok Hj) as [s [Hs Hr]]. eauto.
Qed.

Lemma root_fwdK s0 kids d0 ds v : kids_ok true (s0 :: kids) (d0 :: ds) -> kstatic (d0 :: ds) -> FW v (d0 :: ds) ->
  heap c true (s0 :: kids) -> 0 <= v <= n ->
  match c_kv c s0 with
  | Some e => (isold e = true -> v < n /\ e = at_ O v /\ kp d0 = LAt (cntO (kO d0) v)) /\
              (isold e = false -> v < n -> elt e (at_ O v))
  | None => v = n
  end.
Proof.
  intros Hok Hst Hfw Hheap Hv.
  assert (v < n -> exists j s y, nth_error (s0 :: kids) j = Some s /\ c_kv c s = Some y /\ ele y (at_ O v)) as Hahead.
  { intros Hvn. destruct (O_in_kO _ v Hst ltac:(lia)) as [d [Hd Hx]].
    destruct (kid_of _ _ _ d Hok Hd) as [j [s [Hs [HK Hnone]]]].
    unfold FW in Hfw. rewrite Forall_forall in Hfw. pose proof (Hfw d Hd) as Hnu.
    destruct (kO_at_cut _ d v Hst Hd ltac:(lia) Hx) as [Hent _]. pose proof (ent_range _ _ _ Hent) as Hjr.
    exists j, s. destruct (kp d) as [j'|g] eqn:Ep; cbn [nu] in Hnu.
    - destruct (k_at _ _ _ _ _ _ _ HK) as [_ Hkv]. exists (at_ (kO d) j'). split; [exact Hs|]. split; [exact Hkv|].
      rewrite Hnu. destruct (ent_at_inv _ _ _ Hent) as [<- _]. unfold ele. rewrite ecmp_refl. discriminate.
    - destruct (k_gap _ _ _ _ _ _ _ HK) as [_ Hg]. destruct (c_kv c s) as [x|] eqn:Ekv.
      + exists x. split; [exact Hs|]. split; [reflexivity|]. destruct Hg as [_ [Hf _]]. specialize (Hf eq_refl ltac:(lia)).
        rewrite Hnu in Hf. destruct (ent_at_inv _ _ _ Hent) as [<- _] in Hf. eorder.
      + specialize (Hnone eq_refl). injection Hnone as Hg'. lia. }
  inversion Hok as [|? ? ? ? [HK0 Hnone0] Hok']; subst.
  destruct (c_kv c s0) as [e|] eqn:Ekv.
  - split.
    + intros Hold. destruct (kp d0) as [j0|g0] eqn:Ep.
      2:{ destruct (k_gap _ _ _ _ _ _ _ HK0) as [_ Hg]. rewrite Ekv in Hg. destruct Hg as [Hl _]. rewrite (late_not_old _ Hl) in Hold. discriminate. }
      destruct (k_at _ _ _ _ _ _ _ HK0) as [Hj0 Hkv]. rewrite Ekv in Hkv. injection Hkv as ->.
      unfold FW in Hfw. pose proof (Forall_inv Hfw) as Hnu. cbv beta in Hnu. rewrite Ep in Hnu. cbn [nu] in Hnu.
      pose proof (ent_at (kO d0) j0 Hj0) as Hent.
      destruct (kO_in_O _ d0 _ Hst (or_introl eq_refl) (ent_In _ _ _ Hent)) as [je Hje]. pose proof (ent_range _ _ _ Hje) as Hjer.
      assert (~ je < v) as Hge.
      { intros H. apply (cut_idx O HsO v je _ Hv Hje) in H. apply (kO_cut_idx _ d0 v j0 _ Hst (or_introl eq_refl) Hent) in H. lia. }
      assert (v < n) as Hvn by lia. split; [exact Hvn|].
      destruct (Hahead Hvn) as [j [s [y [Hs [Hy Hle]]]]].
      pose proof (heap_min c true _ s0 j s Hheap eq_refl Hs) as Hmin. unfold is_less in Hmin. rewrite Hy, Ekv in Hmin. cbn in Hmin.
      assert (ele (at_ (kO d0) j0) y) by (destruct (eltb_spec y (at_ (kO d0) j0)); [discriminate|eorder]).
      assert (ele (at_ O v) (at_ (kO d0) j0)) by (apply (sorted_ent_le O HsO v je); [lia|now apply ent_at|exact Hje]).
      assert (je = v) as -> by (apply (sorted_ent_inj O HsO je v _ _ Hje (ent_at O v ltac:(lia))); unfold eeq; eorder).
      destruct (ent_at_inv _ _ _ Hje) as [E _]. split; [exact E|]. now rewrite Hnu.
    + intros Hlate Hvn. destruct (Hahead Hvn) as [j [s [y [Hs [Hy Hle]]]]].
      pose proof (heap_min c true _ s0 j s Hheap eq_refl Hs) as Hmin. unfold is_less in Hmin. rewrite Hy, Ekv in Hmin. cbn in Hmin.
      assert (ele e y) by (destruct (eltb_spec y e); [discriminate|eorder]).
      assert (ele e (at_ O v)) as Hea by eorder.
      destruct (ecmp e (at_ O v)) eqn:Ec; [exfalso|exact Ec|exfalso; apply Hea; exact Ec].
      apply ecmp_eq_iff in Ec. destruct Ec as [_ Ets]. pose proof (at_isold v ltac:(lia)) as Ho. unfold isold in *. rewrite Ets in Hlate. congruence.
  - destruct (Z.eq_dec v n) as [|Hne]; [assumption|exfalso].
    destruct (Hahead ltac:(lia)) as [j [s [y [Hs [Hy _]]]]].
    pose proof (heap_min c true _ s0 j s Hheap eq_refl Hs) as Hmin. unfold is_less in Hmin. rewrite Hy, Ekv in Hmin. discriminate.
Qed.

Lemma root_revK s0 kids d0 ds r : kids_ok false (s0 :: kids) (d0 :: ds) -> kstatic (d0 :: ds) -> RV r (d0 :: ds) ->
  heap c false (s0 :: kids) -> -1 <= r <= n - 1 ->
  match c_kv c s0 with
  | Some e => (isold e = true -> 0 <= r /\ e = at_ O r /\ kp d0 = LAt (cntO (kO d0) (r + 1) - 1)) /\
              (isold e = false -> 0 <= r -> elt (at_ O r) e)
  | None => r = -1
  end.
Proof.
  intros Hok Hst Hrv Hheap Hr.
  assert (0 <= r -> exists j s y, nth_error (s0 :: kids) j = Some s /\ c_kv c s = Some y /\ ele (at_ O r) y) as Hbehind.
  { intros Hr0. destruct (O_in_kO _ r Hst ltac:(lia)) as [d [Hd Hx]].
    destruct (kid_of _ _ _ d Hok Hd) as [j [s [Hs [HK Hnone]]]].
    unfold RV in Hrv. rewrite Forall_forall in Hrv. pose proof (Hrv d Hd) as Hrho.
    destruct (kO_at_cut _ d r Hst Hd ltac:(lia) Hx) as [Hent Hc1]. pose proof (ent_range _ _ _ Hent) as Hjr.
    exists j, s. destruct (kp d) as [j'|g] eqn:Ep; cbn [rho] in Hrho.
    - destruct (k_at _ _ _ _ _ _ _ HK) as [_ Hkv]. exists (at_ (kO d) j'). split; [exact Hs|]. split; [exact Hkv|].
      replace j' with (cntO (kO d) r) by lia. destruct (ent_at_inv _ _ _ Hent) as [<- _]. unfold ele. rewrite ecmp_refl. discriminate.
    - destruct (k_gap _ _ _ _ _ _ _ HK) as [_ Hg]. destruct (c_kv c s) as [x|] eqn:Ekv.
      + exists x. split; [exact Hs|]. split; [reflexivity|]. destruct Hg as [_ [_ Hb]]. specialize (Hb eq_refl ltac:(lia)).
        replace (g - 1) with (cntO (kO d) r) in Hb by lia. destruct (ent_at_inv _ _ _ Hent) as [<- _] in Hb. eorder.
      + specialize (Hnone eq_refl). injection Hnone as Hg'. lia. }
  inversion Hok as [|? ? ? ? [HK0 Hnone0] Hok']; subst.
  destruct (c_kv c s0) as [e|] eqn:Ekv.
  - split.
    + intros Hold. destruct (kp d0) as [j0|g0] eqn:Ep.
      2:{ destruct (k_gap _ _ _ _ _ _ _ HK0) as [_ Hg]. rewrite Ekv in Hg. destruct Hg as [Hl _]. rewrite (late_not_old _ Hl) in Hold. discriminate. }
      destruct (k_at _ _ _ _ _ _ _ HK0) as [Hj0 Hkv]. rewrite Ekv in Hkv. injection Hkv as ->.
      unfold RV in Hrv. pose proof (Forall_inv Hrv) as Hrho. cbv beta in Hrho. rewrite Ep in Hrho. cbn [rho] in Hrho.
      pose proof (ent_at (kO d0) j0 Hj0) as Hent.
      destruct (kO_in_O _ d0 _ Hst (or_introl eq_refl) (ent_In _ _ _ Hent)) as [je Hje]. pose proof (ent_range _ _ _ Hje) as Hjer.
      assert (je < r + 1) as Hle.
      { apply (cut_idx O HsO (r + 1) je _ ltac:(lia) Hje). apply (kO_cut_idx _ d0 (r + 1) j0 _ Hst (or_introl eq_refl) Hent). lia. }
      assert (0 <= r) as Hr0 by lia. split; [exact Hr0|].
      destruct (Hbehind Hr0) as [j [s [y [Hs [Hy Hge]]]]].
      pose proof (heap_min c false _ s0 j s Hheap eq_refl Hs) as Hmin. unfold is_less in Hmin. rewrite Hy, Ekv in Hmin. cbn in Hmin.
      assert (ele y (at_ (kO d0) j0)) by (destruct (eltb_spec (at_ (kO d0) j0) y); [discriminate|eorder]).
      assert (ele (at_ (kO d0) j0) (at_ O r)) by (apply (sorted_ent_le O HsO je r); [lia|exact Hje|apply ent_at; lia]).
      assert (je = r) as -> by (apply (sorted_ent_inj O HsO je r _ _ Hje (ent_at O r ltac:(lia))); unfold eeq; eorder).
      destruct (ent_at_inv _ _ _ Hje) as [E _]. split; [exact E|]. f_equal. lia.
    + intros Hlate Hr0. destruct (Hbehind Hr0) as [j [s [y [Hs [Hy Hge]]]]].
      pose proof (heap_min c false _ s0 j s Hheap eq_refl Hs) as Hmin. unfold is_less in Hmin. rewrite Hy, Ekv in Hmin. cbn in Hmin.
      assert (ele y e) by (destruct (eltb_spec e y); [discriminate|eorder]).
      assert (ele (at_ O r) e) as Hae by eorder.
      destruct (ecmp (at_ O r) e) eqn:Ec; [exfalso|exact Ec|exfalso; apply Hae; exact Ec].
      apply ecmp_eq_iff in Ec. destruct Ec as [_ Ets]. pose proof (at_isold r ltac:(lia)) as Ho. unfold isold in *. rewrite Ets in Ho. congruence.
  - destruct (Z.eq_dec r (-1)) as [|Hne]; [assumption|exfalso].
    destruct (Hbehind ltac:(lia)) as [j [s [y [Hs [Hy _]]]]].
    pose proof (heap_min c false _ s0 j s Hheap eq_refl Hs) as Hmin. unfold is_less in Hmin. rewrite Hy, Ekv in Hmin. discriminate.
Qed.

(* ---------------------------------------------------------------- the states of the merge *)
Definition kvmatch (st : mstate S) (p : lpos) : Prop :=
  match p with
  | LAt j => 0 <= j < n /\ m_kv c st = Some (at_ O j)
  | LGap g => match m_kv c st with None => True | Some x => isold x = false end
  end.
Definition Kd (md : bool) (s : S) (d : kdesc) : Prop := K (kO d) (kU d) s md (kp d) (ka d) (kb d).

Definition Fnorm (st : mstate S) (v a T : Z) : Prop :=
  exists ds, m_fwd st = true /\ 0 <= v <= n /\ kids_ok true (m_kids st) ds /\ kstatic ds /\ FW v ds /\
             heap c true (m_kids st) /\ asum ds = a /\ tsum ds = T.
Definition Fstart (st : mstate S) (T : Z) : Prop :=
  exists ds, m_fwd st = true /\ kstatic ds /\ FW 0 ds /\
             match m_kids st, ds with
             | [], [] => True
             | s0 :: kids', d0 :: ds' => Kd true s0 d0 /\ kp d0 = LGap 0 /\ c_kv c s0 = None /\ kids_ok true kids' ds'
             | _, _ => False
             end /\
             heap_from (is_less c true) 1 (m_kids st) /\ tsum ds = T.
Definition Rnorm (st : mstate S) (r b T : Z) : Prop :=
  exists ds, m_fwd st = false /\ -1 <= r <= n - 1 /\ kids_ok false (m_kids st) ds /\ kstatic ds /\ RV r ds /\
             heap c false (m_kids st) /\ bsum ds = b /\ tsum ds = T.
Definition Rend (st : mstate S) (T : Z) : Prop :=
  exists ds, m_fwd st = false /\ kstatic ds /\ RV (n - 1) ds /\
             match m_kids st, ds with
             | [], [] => True
             | s0 :: kids', d0 :: ds' => Kd false s0 d0 /\ kp d0 = LGap (len (kO d0)) /\ c_kv c s0 = None /\ kids_ok false kids' ds'
             | _, _ => False
             end /\
             heap_from (is_less c false) 1 (m_kids st) /\ tsum ds = T.

Inductive MLT (st : mstate S) : bool -> lpos -> Z -> Z -> Z -> Prop :=
| MLF p a T : Fnorm st (nu p) a T -> kvmatch st p -> MLT st true p a (T + 1) T
| MLFs T : Fstart st T -> MLT st true (LGap 0) (T + 1) (T + 1) T
| MLR p b T : Rnorm st (rho p) b T -> kvmatch st p -> MLT st false p (T + 1) b T
| MLRe T : Rend st T -> MLT st false (LGap n) (T + 1) (T + 1) T.

(* every child stands somewhere: all seek_to_first / seek_to_last / seek need *)
Definition stat (st : mstate S) (T : Z) : Prop :=
  exists ds, Forall2 (fun s d => exists md, Kd md s d) (m_kids st) ds /\ kstatic ds /\ tsum ds = T.

Lemma kids_ok_any md kids ds : kids_ok md kids ds -> Forall2 (fun s d => exists md, Kd md s d) kids ds.
Proof. induction 1 as [|s d kids ds [H _] _ IH]; constructor; [exists md; exact H|exact IH]. Qed.

Lemma MLT_stat st md p a b T : MLT st md p a b T -> stat st T.
Proof.
  intros [p0 a0 T0 [ds [_ [_ [Hok [Hst [_ [_ [_ HT]]]]]]]] _|T0 [ds [_ [Hst [_ [Hr [_ HT]]]]]]|
          p0 b0 T0 [ds [_ [_ [Hok [Hst [_ [_ [_ HT]]]]]]]] _|T0 [ds [_ [Hst [_ [Hr [_ HT]]]]]]]; exists ds.
  - split; [eapply kids_ok_any; eauto|auto].
  - split; [|auto]. destruct (m_kids st) as [|s0 kids'], ds as [|d0 ds']; try contradiction; [constructor|].
    destruct Hr as [H0 [_ [_ Hok]]]. constructor; [exists true; exact H0|eapply kids_ok_any; eauto].
  - split; [eapply kids_ok_any; eauto|auto].
  - split; [|auto]. destruct (m_kids st) as [|s0 kids'], ds as [|d0 ds']; try contradiction; [constructor|].
    destruct Hr as [H0 [_ [_ Hok]]]. constructor; [exists false; exact H0|eapply kids_ok_any; eauto].
Qed.

Lemma sums_bound kids ds : Forall2 (fun s d => exists md, Kd md s d) kids ds ->
  0 <= asum ds <= tsum ds /\ 0 <= bsum ds <= tsum ds.
Proof.
  induction 1 as [|s d kids ds [md H] _ IH]; cbn [asum bsum tsum]; [lia|]. destruct (k_meas _ _ _ _ _ _ _ H). lia.
Qed.

Lemma MLT_bounds st md p a b T : MLT st md p a b T -> 0 <= a <= T + 1 /\ 0 <= b <= T + 1 /\ 0 <= T.
Proof.
  intros HM. destruct (MLT_stat _ _ _ _ _ _ HM) as [ds [Hany [_ HT]]]. destruct (sums_bound _ _ Hany) as [Ha Hb].
  destruct HM as [p0 a0 T0 [ds' H] _|T0 [ds' H]|p0 b0 T0 [ds' H] _|T0 [ds' H]]; try lia.
  - destruct H as [_ [_ [Hok [_ [_ [_ [E1 E2]]]]]]]. destruct (sums_bound _ _ (kids_ok_any _ _ _ Hok)). lia.
  - destruct H as [_ [_ [Hok [_ [_ [_ [E1 E2]]]]]]]. destruct (sums_bound _ _ (kids_ok_any _ _ _ Hok)). lia.
Qed.

Lemma heap1_upd_root fwd kids f : heap_from (is_less c fwd) 1 kids -> heap_from (is_less c fwd) 1 (upd kids 0 f).
Proof.
  intros H i ch a b Hi Hc Ha Hb. rewrite nth_error_upd in Ha, Hb.
  destruct (Nat.eqb_spec i 0); [lia|]. destruct (Nat.eqb_spec ch 0); [destruct Hc; lia|].
  apply (H i ch); auto.
Qed.

(* ---- descriptors after a call: same Ok and Uk *)
Definition same_lists (d d' : kdesc) : Prop := kO d' = kO d /\ kU d' = kU d.
Lemma same_lists_maps ds ds' : Forall2 same_lists ds ds' -> map kO ds' = map kO ds /\ map kU ds' = map kU ds.
Proof. induction 1 as [|d d' ds ds' [H1 H2] _ [IH1 IH2]]; [auto|]. cbn [map]. now rewrite H1, H2, IH1, IH2. Qed.
Lemma kstatic_same ds ds' : Forall2 same_lists ds ds' -> kstatic ds -> kstatic ds'.
Proof.
  intros HF [H1 [H2 H3]]. destruct (same_lists_maps _ _ HF) as [E1 E2]. unfold kstatic. rewrite E1, E2. split; [|auto].
  clear -HF H1. induction HF as [|d d' ds ds' [Ea Eb] _ IH]; [constructor|]. inversion H1; subst. constructor; [rewrite Ea, Eb; assumption|auto].
Qed.
Lemma tsum_same ds ds' : Forall2 same_lists ds ds' -> tsum ds' = tsum ds.
Proof. induction 1 as [|d d' ds ds' [_ E] _ IH]; [reflexivity|]. cbn [tsum]. now rewrite E, IH. Qed.

Lemma kids_map (f : S -> S) (R R' : S -> kdesc -> Prop) (X : kdesc -> kdesc -> Prop) kids ds :
  Forall2 R kids ds -> (forall s d, R s d -> exists d', R' (f s) d' /\ X d d') ->
  exists ds', Forall2 R' (map f kids) ds' /\ Forall2 X ds ds'.
Proof.
  intros HF Hstep. induction HF as [|s d kids ds H _ [ds' [I1 I2]]]; [exists []; split; constructor|].
  destruct (Hstep s d H) as [d' [H1 H2]]. exists (d' :: ds'). cbn [map]. split; constructor; assumption.
Qed.
Lemma Forall2_weaken {A B} (R R' : A -> B -> Prop) xs ys : (forall x y, R x y -> R' x y) -> Forall2 R xs ys -> Forall2 R' xs ys.
Proof. intros H. induction 1; constructor; auto. Qed.
Lemma same_lists_refl ds : Forall2 same_lists ds ds.
Proof. induction ds; constructor; [split; reflexivity|assumption]. Qed.

Lemma Forall2_Forall_r {A B} (R : A -> B -> Prop) (Q : B -> Prop) xs ys :
  Forall2 R xs ys -> (forall x y, In x xs -> R x y -> Q y) -> Forall Q ys.
Proof.
  induction 1 as [|x y xs ys H _ IH]; intros HQ; constructor.
  - apply (HQ x y); [now left|exact H].
  - apply IH. intros x' y' Hx'. apply HQ. now right.
Qed.

(* ---- normal forms: given the facts about some arrangement of the children, conclude for a permutation *)
Lemma kstatic_nil : kstatic [] -> O = [].
Proof. intros [_ [HP _]]. cbn in HP. now apply Permutation_nil in HP. Qed.

Lemma to_Fnorm kids kids' ds v : Permutation kids' kids -> kids_ok true kids ds -> kstatic ds -> FW v ds ->
  heap c true kids' -> 0 <= v <= n ->
  exists p, nu p = v /\ MLT (mkM true kids') true p (asum ds) (tsum ds + 1) (tsum ds) /\ (m_kv c (mkM true kids') = None -> p = LGap n).
Proof.
  intros HP Hok Hst Hfw Hheap Hv.
  destruct (Forall2_perm _ _ _ _ Hok (Permutation_sym HP)) as [ds' [HP' Hok']].
  pose proof (kstatic_perm _ _ HP' Hst) as Hst'. assert (FW v ds') as Hfw' by (eapply Permutation_Forall; eauto).
  rewrite (asum_perm _ _ HP'), (tsum_perm _ _ HP').
  assert (forall p, nu p = v -> Fnorm (mkM true kids') (nu p) (asum ds') (tsum ds')) as HF
    by (intros p <-; exists ds'; cbn [m_fwd m_kids]; split; [reflexivity|]; split; [exact Hv|]; split; [exact Hok'|]; split; [exact Hst'|]; split; [exact Hfw'|]; split; [exact Hheap|]; split; reflexivity).
  destruct kids' as [|s0 kids1].
  - inversion Hok'; subst. pose proof (kstatic_nil Hst') as EO.
    assert (v = 0) by (rewrite EO in Hv; cbn in Hv; lia). subst v.
    exists (LGap 0). split; [reflexivity|]. split; [apply MLF; [now apply HF|cbn; exact I]|]. intros _. rewrite EO. reflexivity.
  - destruct ds' as [|d0 ds1]; [inversion Hok'|].
    pose proof (root_fwdK s0 kids1 d0 ds1 v Hok' Hst' Hfw' Hheap Hv) as Hroot.
    unfold m_kv. cbn [m_kids]. destruct (c_kv c s0) as [e|] eqn:Ekv.
    + destruct Hroot as [Hroot _]. destruct (isold e) eqn:Eo.
      * destruct (Hroot eq_refl) as [Hvn [-> _]]. exists (LAt v). split; [reflexivity|]. split; [|intros; discriminate].
        apply MLF; [now apply HF|]. cbn [kvmatch m_kv m_kids]. rewrite Ekv. split; [lia|reflexivity].
      * exists (LGap v). split; [reflexivity|]. split; [|intros; discriminate].
        apply MLF; [now apply HF|]. cbn [kvmatch m_kv m_kids]. rewrite Ekv. exact Eo.
    + subst v. exists (LGap n). split; [reflexivity|]. split; [|reflexivity].
      apply MLF; [now apply HF|]. cbn [kvmatch m_kv m_kids]. rewrite Ekv. exact I.
Qed.

Lemma to_Rnorm kids kids' ds r : Permutation kids' kids -> kids_ok false kids ds -> kstatic ds -> RV r ds ->
  heap c false kids' -> -1 <= r <= n - 1 ->
  exists p, rho p = r /\ MLT (mkM false kids') false p (tsum ds + 1) (bsum ds) (tsum ds) /\
            (m_kv c (mkM false kids') = None -> p = LGap 0) /\
            (forall g x, p = LGap g -> m_kv c (mkM false kids') = Some x -> 0 < g -> elt (at_ O (g - 1)) x).
Proof.
  intros HP Hok Hst Hrv Hheap Hr.
  destruct (Forall2_perm _ _ _ _ Hok (Permutation_sym HP)) as [ds' [HP' Hok']].
  pose proof (kstatic_perm _ _ HP' Hst) as Hst'. assert (RV r ds') as Hrv' by (eapply Permutation_Forall; eauto).
  rewrite (bsum_perm _ _ HP'), (tsum_perm _ _ HP').
  assert (forall p, rho p = r -> Rnorm (mkM false kids') (rho p) (bsum ds') (tsum ds')) as HF
    by (intros p <-; exists ds'; cbn [m_fwd m_kids]; split; [reflexivity|]; split; [exact Hr|]; split; [exact Hok'|]; split; [exact Hst'|]; split; [exact Hrv'|]; split; [exact Hheap|]; split; reflexivity).
  destruct kids' as [|s0 kids1].
  - inversion Hok'; subst. pose proof (kstatic_nil Hst') as EO.
    assert (r = -1) by (rewrite EO in Hr; cbn in Hr; lia). subst r.
    exists (LGap 0). split; [reflexivity|]. split; [apply MLR; [now apply HF|cbn; exact I]|]. split; [reflexivity|]. intros g x _ H. discriminate.
  - destruct ds' as [|d0 ds1]; [inversion Hok'|].
    pose proof (root_revK s0 kids1 d0 ds1 r Hok' Hst' Hrv' Hheap Hr) as Hroot.
    unfold m_kv. cbn [m_kids]. destruct (c_kv c s0) as [e|] eqn:Ekv.
    + destruct Hroot as [Ho Hl]. destruct (isold e) eqn:Eo.
      * destruct (Ho eq_refl) as [Hr0 [-> _]]. exists (LAt r). split; [reflexivity|]. split; [|split; [intros; discriminate|intros; discriminate]].
        apply MLR; [now apply HF|]. cbn [kvmatch m_kv m_kids]. rewrite Ekv. split; [lia|reflexivity].
      * exists (LGap (r + 1)). split; [cbn; lia|]. split; [|split; [intros; discriminate|]].
        -- apply MLR; [apply HF; cbn; lia|]. cbn [kvmatch m_kv m_kids]. rewrite Ekv. exact Eo.
        -- intros g x Eg Ex Hg. injection Eg as <-. injection Ex as <-. replace (r + 1 - 1) with r by lia. apply Hl; [reflexivity|lia].
    + subst r. exists (LGap 0). split; [reflexivity|]. split; [|split; [reflexivity|intros; discriminate]].
      apply MLR; [now apply HF|]. cbn [kvmatch m_kv m_kids]. rewrite Ekv. exact I.
Qed.

(* ---------------------------------------------------------------- the transitions *)
Lemma below_cut k e : In e O -> below k e = cutO (count (below k) O) e.
Proof.
  intros He. destruct (In_ent _ _ He) as [j Hj]. pose proof (count_range (below k) O) as Hv.
  pose proof (count_prefix _ O HsO (below_downclosed k) j e Hj) as H1. pose proof (cut_idx O HsO _ j e Hv Hj) as H2.
  destruct (below k e), (cutO (count (below k) O) e); try reflexivity; exfalso.
  - assert (j < count (below k) O) by (apply H1; reflexivity). apply H2 in H. discriminate.
  - assert (j < count (below k) O) by (apply H2; reflexivity). apply H1 in H. discriminate.
Qed.
Lemma cnt_zero ds d : kstatic ds -> In d ds -> cntO (kO d) 0 = 0.
Proof.
  intros Hst Hd. apply count_none. intros e He. destruct (kO_in_O _ _ _ Hst Hd He) as [i Hi]. pose proof (ent_range _ _ _ Hi).
  destruct (cutO 0 e) eqn:E; [|reflexivity]. apply (cut_idx O HsO 0 i e ltac:(lia) Hi) in E. lia.
Qed.
Lemma cnt_full (l : list entry) : cntO l n = len l.
Proof. apply cnt_N. Qed.
Lemma same_in ds ds' (X : kdesc -> kdesc -> Prop) d' : Forall2 X ds ds' -> In d' ds' -> exists d, In d ds /\ X d d'.
Proof.
  induction 1 as [|d0 d0' ds ds' H _ IH]; intros Hin; [destruct Hin|]. destruct Hin as [<-|Hin]; [exists d0; split; [now left|exact H]|].
  destruct (IH Hin) as [d [H1 H2]]. exists d. split; [now right|exact H2].
Qed.

(* ---- seek *)
Lemma seekK k st T : stat st T ->
  exists p a, nu p = count (below k) O /\ MLT (m_seek c k st) true p a (T + 1) T /\ (m_kv c (m_seek c k st) = None -> p = LGap n).
Proof.
  intros [ds [Hany [Hst HT]]]. unfold m_seek.
  destruct (kids_map (c_seek c k) _ (kid_ok true) (fun d d' => same_lists d d' /\ nu (kp d') = count (below k) (kO d)) _ _ Hany) as [ds1 [Hok1 HX]].
  { intros s d [md H]. destruct (k_seek _ _ _ _ _ _ _ k H) as [p' [a' [b' [H1 [H2 H3]]]]].
    exists (mkKD (kO d) (kU d) p' a' b'). split; [split; [exact H1|exact H3]|]. split; [split; reflexivity|exact H2]. }
  assert (Forall2 same_lists ds ds1) as Hsame by (eapply Forall2_weaken; [|exact HX]; intros ? ? [H _]; exact H).
  pose proof (kstatic_same _ _ Hsame Hst) as Hst1. pose proof (count_range (below k) O) as Hv.
  assert (FW (count (below k) O) ds1) as Hfw.
  { apply Forall_forall. intros d' Hd'. destruct (same_in _ _ _ d' HX Hd') as [d [Hd [[EO _] Hnu]]]. rewrite Hnu, EO.
    apply count_ext. intros e He. apply below_cut. destruct (kO_in_O _ _ _ Hst Hd He) as [i Hi]. eapply ent_In; eauto. }
  destruct (to_Fnorm _ _ ds1 _ (heapify_perm' c true _) Hok1 Hst1 Hfw (heapify_is_heap c true _) Hv) as [p [Hp [HM Hnone]]].
  rewrite (tsum_same _ _ Hsame), HT in HM. exists p, (asum ds1). auto.
Qed.

(* ---- seek_to_first / seek_to_last *)
Lemma firstK st T : stat st T -> exists a, MLT (m_first c st) true (LGap 0) a (T + 1) T /\ m_kv c (m_first c st) = None.
Proof.
  intros [ds [Hany [Hst HT]]]. unfold m_first.
  set (f := fun s => c_next c (c_first c s)). set (kids1 := map f (m_kids st)).
  destruct (kids_map f _ (kid_ok true) (fun d d' => same_lists d d' /\ nu (kp d') = 0) _ _ Hany) as [ds1 [Hok1 HX]].
  { intros s d [md H]. destruct (k_first _ _ _ _ _ _ _ H) as [a1 [b1 [H1 _]]].
    destruct (k_next _ _ _ _ _ _ _ H1) as [p' [a' [b' [H2 [H3 [H4 _]]]]]].
    exists (mkKD (kO d) (kU d) p' a' b'). split; [split; [exact H2|exact H4]|]. split; [split; reflexivity|]. apply nxt_nu in H3. exact H3. }
  fold kids1 in Hok1.
  assert (Forall2 same_lists ds ds1) as Hsame by (eapply Forall2_weaken; [|exact HX]; intros ? ? [H _]; exact H).
  pose proof (kstatic_same _ _ Hsame Hst) as Hst1.
  assert (FW 0 ds1) as Hfw1.
  { apply Forall_forall. intros d' Hd'. destruct (same_in _ _ _ d' HX Hd') as [d [Hd [_ Hnu]]]. rewrite Hnu. symmetry. eapply cnt_zero; eauto. }
  destruct (Forall2_perm _ _ _ _ Hok1 (Permutation_sym (heapify_perm' c true kids1))) as [ds2 [HP2 Hok2]].
  pose proof (kstatic_perm _ _ HP2 Hst1) as Hst2. assert (FW 0 ds2) as Hfw2 by (eapply Permutation_Forall; eauto).
  pose proof (heapify_is_heap c true kids1) as Hheap. pose proof (heapify_perm' c true kids1) as HPk.
  set (kids2 := heapify (is_less c true) kids1) in *.
  assert (tsum ds2 = T) as HT2 by (rewrite <- (tsum_perm _ _ HP2), (tsum_same _ _ Hsame); exact HT).
  destruct Hok2 as [|s0 d0 kids' ds' [H0 Hn0] Hok'].
  - exists (T + 1). split; [|reflexivity]. apply MLFs. exists []. cbn [m_fwd m_kids on_root upd].
    split; [reflexivity|]. split; [exact Hst2|]. split; [constructor|]. split; [exact I|]. split; [eapply heap_from_weaken; [|exact Hheap]; lia|exact HT2].
  - destruct (k_first _ _ _ _ _ _ _ H0) as [a1 [b1 [H1 Hkv1]]].
    set (d0' := mkKD (kO d0) (kU d0) (LGap 0) a1 b1).
    assert (Forall2 same_lists (d0 :: ds') (d0' :: ds')) as Hsame2 by (constructor; [split; reflexivity|apply same_lists_refl]).
    exists (T + 1). split.
    + apply MLFs. exists (d0' :: ds'). cbn [m_fwd m_kids on_root upd]. split; [reflexivity|].
      split; [exact (kstatic_same _ _ Hsame2 Hst2)|]. split.
      { constructor; [|exact (Forall_inv_tail Hfw2)]. cbn [d0' kp kO nu]. symmetry. apply (cnt_zero _ d0 Hst2). now left. }
      split; [split; [exact H1|split; [reflexivity|split; [exact Hkv1|exact Hok']]]|].
      split; [|rewrite (tsum_same _ _ Hsame2); exact HT2].
      exact (heap_upd_root c true (s0 :: kids') (c_first c) Hheap).
    + unfold m_kv, on_root. cbn [m_kids upd]. exact Hkv1.
Qed.

Lemma lastK st T : stat st T -> exists b, MLT (m_last c st) false (LGap n) (T + 1) b T /\ m_kv c (m_last c st) = None.
Proof.
  intros [ds [Hany [Hst HT]]]. unfold m_last.
  set (f := fun s => c_prev c (c_last c s)). set (kids1 := map f (m_kids st)).
  destruct (kids_map f _ (kid_ok false) (fun d d' => same_lists d d' /\ rho (kp d') = len (kO d) - 1) _ _ Hany) as [ds1 [Hok1 HX]].
  { intros s d [md H]. destruct (k_last _ _ _ _ _ _ _ H) as [a1 [b1 [H1 _]]].
    destruct (k_prev _ _ _ _ _ _ _ H1) as [p' [a' [b' [H2 [H3 [H4 _]]]]]].
    exists (mkKD (kO d) (kU d) p' a' b'). split; [split; [exact H2|exact H4]|]. split; [split; reflexivity|]. apply prv_rho in H3. exact H3. }
  fold kids1 in Hok1.
  assert (Forall2 same_lists ds ds1) as Hsame by (eapply Forall2_weaken; [|exact HX]; intros ? ? [H _]; exact H).
  pose proof (kstatic_same _ _ Hsame Hst) as Hst1.
  assert (RV (n - 1) ds1) as Hrv1.
  { apply Forall_forall. intros d' Hd'. destruct (same_in _ _ _ d' HX Hd') as [d [Hd [[EO _] Hrho]]]. rewrite Hrho, EO.
    replace (n - 1 + 1) with n by lia. now rewrite cnt_full. }
  destruct (Forall2_perm _ _ _ _ Hok1 (Permutation_sym (heapify_perm' c false kids1))) as [ds2 [HP2 Hok2]].
  pose proof (kstatic_perm _ _ HP2 Hst1) as Hst2. assert (RV (n - 1) ds2) as Hrv2 by (eapply Permutation_Forall; eauto).
  pose proof (heapify_is_heap c false kids1) as Hheap. pose proof (heapify_perm' c false kids1) as HPk.
  set (kids2 := heapify (is_less c false) kids1) in *.
  assert (tsum ds2 = T) as HT2 by (rewrite <- (tsum_perm _ _ HP2), (tsum_same _ _ Hsame); exact HT).
  destruct Hok2 as [|s0 d0 kids' ds' [H0 Hn0] Hok'].
  - exists (T + 1). split; [|reflexivity]. apply MLRe. exists []. cbn [m_fwd m_kids on_root upd].
    split; [reflexivity|]. split; [exact Hst2|]. split; [constructor|]. split; [exact I|]. split; [eapply heap_from_weaken; [|exact Hheap]; lia|exact HT2].
  - destruct (k_last _ _ _ _ _ _ _ H0) as [a1 [b1 [H1 Hkv1]]].
    set (d0' := mkKD (kO d0) (kU d0) (LGap (len (kO d0))) a1 b1).
    assert (Forall2 same_lists (d0 :: ds') (d0' :: ds')) as Hsame2 by (constructor; [split; reflexivity|apply same_lists_refl]).
    exists (T + 1). split.
    + apply MLRe. exists (d0' :: ds'). cbn [m_fwd m_kids on_root upd]. split; [reflexivity|].
      split; [exact (kstatic_same _ _ Hsame2 Hst2)|]. split.
      { constructor; [|exact (Forall_inv_tail Hrv2)]. cbn [d0' kp kO rho]. replace (n - 1 + 1) with n by lia. now rewrite cnt_full. }
      split; [split; [exact H1|split; [reflexivity|split; [exact Hkv1|exact Hok']]]|].
      split; [|rewrite (tsum_same _ _ Hsame2); exact HT2].
      exact (heap_upd_root c false (s0 :: kids') (c_last c) Hheap).
    + unfold m_kv, on_root. cbn [m_kids upd]. exact Hkv1.
Qed.

(* ---- changing direction: every child steps, the array is heapified the other way *)
Lemma nu_next_rho p : nu_next p = rho p + 1.
Proof. destruct p; cbn; lia. Qed.

Lemma kids_ok_Kd md kids ds : kids_ok md kids ds -> Forall2 (Kd md) kids ds.
Proof. apply Forall2_weaken. intros s d [H _]. exact H. Qed.

Lemma switch_fwd kids ds r T : Forall2 (Kd false) kids ds -> kstatic ds -> RV r ds -> -1 <= r <= n - 1 -> tsum ds = T ->
  exists p' a', nu p' = r + 1 /\ MLT (mkM true (heapify (is_less c true) (map (c_next c) kids))) true p' a' (T + 1) T /\
    (m_kv c (mkM true (heapify (is_less c true) (map (c_next c) kids))) = None -> p' = LGap n) /\ 0 <= a' <= T.
Proof.
  intros Hany Hst Hrv Hr HT.
  destruct (kids_map (c_next c) _ (kid_ok true) (fun d d' => same_lists d d' /\ nu (kp d') = nu_next (kp d)) _ _ Hany) as [ds1 [Hok1 HX]].
  { intros s d H. destruct (k_next _ _ _ _ _ _ _ H) as [p' [a' [b' [H1 [H2 [H3 _]]]]]].
    exists (mkKD (kO d) (kU d) p' a' b'). split; [split; [exact H1|exact H3]|]. split; [split; reflexivity|]. now apply nxt_nu. }
  assert (Forall2 same_lists ds ds1) as Hsame by (eapply Forall2_weaken; [|exact HX]; intros ? ? [H _]; exact H).
  pose proof (kstatic_same _ _ Hsame Hst) as Hst1.
  assert (FW (r + 1) ds1) as Hfw1.
  { apply Forall_forall. intros d' Hd'. destruct (same_in _ _ _ d' HX Hd') as [d [Hd [[EO _] Hnu]]]. rewrite Hnu, EO, nu_next_rho.
    unfold RV in Hrv. rewrite Forall_forall in Hrv. rewrite (Hrv d Hd). lia. }
  destruct (to_Fnorm _ _ ds1 _ (heapify_perm' c true _) Hok1 Hst1 Hfw1 (heapify_is_heap c true _) ltac:(lia)) as [p' [Hp [HM Hn]]].
  rewrite (tsum_same _ _ Hsame), HT in HM. exists p', (asum ds1). split; [exact Hp|]. split; [exact HM|]. split; [exact Hn|].
  destruct (sums_bound _ _ (kids_ok_any _ _ _ Hok1)) as [Ha _]. rewrite (tsum_same _ _ Hsame), HT in Ha. exact Ha.
Qed.

Lemma switch_rev kids ds v T : Forall2 (Kd true) kids ds -> kstatic ds -> FW v ds -> 0 <= v <= n -> tsum ds = T ->
  exists p' b', rho p' = v - 1 /\ MLT (mkM false (heapify (is_less c false) (map (c_prev c) kids))) false p' (T + 1) b' T /\
    (m_kv c (mkM false (heapify (is_less c false) (map (c_prev c) kids))) = None -> p' = LGap 0) /\
    (forall g x, p' = LGap g -> m_kv c (mkM false (heapify (is_less c false) (map (c_prev c) kids))) = Some x -> 0 < g -> elt (at_ O (g - 1)) x) /\
    0 <= b' <= T.
Proof.
  intros Hany Hst Hfw Hv HT.
  destruct (kids_map (c_prev c) _ (kid_ok false) (fun d d' => same_lists d d' /\ rho (kp d') = nu (kp d) - 1) _ _ Hany) as [ds1 [Hok1 HX]].
  { intros s d H. destruct (k_prev _ _ _ _ _ _ _ H) as [p' [a' [b' [H1 [H2 [H3 _]]]]]].
    exists (mkKD (kO d) (kU d) p' a' b'). split; [split; [exact H1|exact H3]|]. split; [split; reflexivity|]. now apply prv_rho. }
  assert (Forall2 same_lists ds ds1) as Hsame by (eapply Forall2_weaken; [|exact HX]; intros ? ? [H _]; exact H).
  pose proof (kstatic_same _ _ Hsame Hst) as Hst1.
  assert (RV (v - 1) ds1) as Hrv1.
  { apply Forall_forall. intros d' Hd'. destruct (same_in _ _ _ d' HX Hd') as [d [Hd [[EO _] Hrho]]]. rewrite Hrho, EO.
    unfold FW in Hfw. rewrite Forall_forall in Hfw. rewrite (Hfw d Hd). replace (v - 1 + 1) with v by lia. reflexivity. }
  destruct (to_Rnorm _ _ ds1 _ (heapify_perm' c false _) Hok1 Hst1 Hrv1 (heapify_is_heap c false _) ltac:(lia)) as [p' [Hp [HM [Hn Hg]]]].
  rewrite (tsum_same _ _ Hsame), HT in HM. exists p', (bsum ds1). split; [exact Hp|]. split; [exact HM|]. split; [exact Hn|]. split; [exact Hg|].
  destruct (sums_bound _ _ (kids_ok_any _ _ _ Hok1)) as [_ Hb]. rewrite (tsum_same _ _ Hsame), HT in Hb. exact Hb.
Qed.

(* ---- next *)
Lemma root_none_all fwd kids s0 : heap c fwd kids -> nth_error kids 0 = Some s0 -> c_kv c s0 = None ->
  Forall (fun s => c_kv c s = None) kids.
Proof.
  intros Hh H0 Hn. apply Forall_forall. intros s Hs. destruct (In_nth_error _ _ Hs) as [i Hi].
  pose proof (heap_min c fwd kids s0 i s Hh H0 Hi) as Hm. unfold is_less in Hm. rewrite Hn in Hm.
  destruct (c_kv c s); [discriminate|reflexivity].
Qed.
Lemma all_none_root fwd kids : Forall (fun s => c_kv c s = None) kids -> m_kv c (mkM fwd kids) = None.
Proof. intros H. unfold m_kv. cbn [m_kids]. destruct kids as [|s r]; [reflexivity|]. now inversion H. Qed.

Lemma advance_others d0 ds v : kstatic (d0 :: ds) -> 0 <= v < n -> In (at_ O v) (kO d0) ->
  cntO (kO d0) (v + 1) = cntO (kO d0) v + 1 /\ Forall (fun d => cntO (kO d) (v + 1) = cntO (kO d) v) ds.
Proof.
  intros Hst Hv Hin. pose proof (kstatic_static _ Hst) as Hss. cbn [kslots map] in Hss.
  destruct (advance_cut O HsO (kO d0, 0) (kslots ds) v (at_ O v) Hss Hv (ent_at O v Hv) Hin) as [H1 H2]. split; [exact H1|].
  unfold kslots in H2. rewrite Forall_map in H2. exact H2.
Qed.

Lemma nextK st md p a b T : MLT st md p a b T ->
  exists p' a', MLT (m_next c st) true p' a' (T + 1) T /\ nxt p p' /\
    (m_kv c (m_next c st) = None -> p' = LGap n) /\ (m_kv c (m_next c st) = None \/ a' < a).
Proof.
  intros HM. pose proof (MLT_bounds _ _ _ _ _ _ HM) as HB.
  destruct HM as [p a T [ds [Hf [Hv [Hok [Hst [Hfw [Hheap [Ha HT]]]]]]]] Hkv|T [ds [Hf [Hst [Hfw [Hroot [Hheap HT]]]]]]|
                  p b T [ds [Hf [Hr [Hok [Hst [Hrv [Hheap [Hb HT]]]]]]]] Hkv|T [ds [Hf [Hst [Hrv [Hroot [Hheap HT]]]]]]];
    unfold m_next; rewrite Hf; cbn [negb].
  - (* forward: the root steps, percolate *)
    assert (heap c true (percolate_down (is_less c true) (length (on_root (c_next c) (m_kids st))) (on_root (c_next c) (m_kids st)) 0)) as Hheap'
      by (apply percolate_root_heap; now apply heap_upd_root).
    pose proof (percolate_perm' c true (length (on_root (c_next c) (m_kids st))) (on_root (c_next c) (m_kids st)) 0) as HP.
    set (kids2 := percolate_down (is_less c true) (length (on_root (c_next c) (m_kids st))) (on_root (c_next c) (m_kids st)) 0) in *.
    destruct (m_kids st) as [|s0 kids'] eqn:Ek.
    + inversion Hok; subst ds. cbn [on_root upd] in *.
      destruct (to_Fnorm _ _ [] (nu p) HP (Forall2_nil _) Hst Hfw Hheap' Hv) as [p' [Hp [HM Hn]]].
      cbn [tsum asum] in *. subst T. exists p', 0. split; [exact HM|]. split.
      { apply nxt_of_nu. destruct p as [j|g]; [|cbn; exact Hp]. exfalso. destruct Hkv as [_ Hkv]. unfold m_kv in Hkv. rewrite Ek in Hkv. discriminate. }
      split; [exact Hn|]. left. apply (all_none_root true). eapply Permutation_Forall; [symmetry; exact HP|constructor].
    + inversion Hok as [|? d0 ? ds' [H0 Hn0] Hok']; subst ds. unfold on_root in *. cbn [upd] in *.
      pose proof (root_fwdK s0 kids' d0 ds' (nu p) Hok Hst Hfw Hheap Hv) as Hroot.
      assert (m_kv c st = c_kv c s0) as Ekv by (unfold m_kv; now rewrite Ek).
      destruct (k_next _ _ _ _ _ _ _ H0) as [p0' [a0' [b0' [HK1 [Hnx [Hn1 Hms]]]]]]. apply nxt_nu in Hnx.
      set (d0' := mkKD (kO d0) (kU d0) p0' a0' b0').
      assert (Forall2 same_lists (d0 :: ds') (d0' :: ds')) as Hsame by (constructor; [split; reflexivity|apply same_lists_refl]).
      pose proof (kstatic_same _ _ Hsame Hst) as Hst1.
      assert (kids_ok true (c_next c s0 :: kids') (d0' :: ds')) as Hok1 by (constructor; [split; [exact HK1|exact Hn1]|exact Hok']).
      pose proof (Forall_inv Hfw) as Hf0. cbv beta in Hf0. pose proof (Forall_inv_tail Hfw) as Hf'.
      set (v' := match c_kv c s0 with Some e => if isold e then nu p + 1 else nu p | None => nu p end).
      assert (0 <= v' <= n /\ FW v' (d0' :: ds')) as [Hv' Hfw1].
      { unfold v'. destruct (c_kv c s0) as [e|] eqn:Es0.
        - destruct Hroot as [Hro _]. destruct (isold e) eqn:Eo.
          + destruct (Hro eq_refl) as [Hvn [Ee Ep]]. split; [lia|].
            assert (In (at_ O (nu p)) (kO d0)) as Hin.
            { rewrite Ep in H0. destruct (k_at _ _ _ _ _ _ _ H0) as [Hj Hk]. rewrite Es0 in Hk. injection Hk as Hk. rewrite <- Ee, Hk.
              eapply ent_In. apply ent_at. exact Hj. }
            destruct (advance_others d0 ds' (nu p) Hst ltac:(lia) Hin) as [A1 A2]. constructor.
            * cbn [d0' kp kO]. rewrite Hnx, Ep. cbn [nu_next]. lia.
            * unfold FW in Hf'. rewrite Forall_forall in *. intros d Hd. rewrite (Hf' d Hd). symmetry. now apply A2.
          + split; [exact Hv|]. constructor; [|exact Hf']. cbn [d0' kp kO]. rewrite Hnx, <- Hf0.
            destruct (kp d0) as [j0|g0] eqn:Ep; [|reflexivity]. exfalso.
            destruct (k_at _ _ _ _ _ _ _ H0) as [Hj Hk]. rewrite Es0 in Hk. injection Hk as Hk.
            rewrite (kO_isold _ d0 e Hst (or_introl eq_refl)) in Eo; [discriminate|]. rewrite Hk. eapply ent_In. apply ent_at. exact Hj.
        - split; [exact Hv|]. constructor; [|exact Hf']. cbn [d0' kp kO]. rewrite Hnx, <- Hf0. rewrite (Hn0 eq_refl). reflexivity. }
      destruct (to_Fnorm _ _ _ _ HP Hok1 Hst1 Hfw1 Hheap' Hv') as [p' [Hp [HM Hn]]].
      rewrite (tsum_same _ _ Hsame), HT in HM. exists p', (asum (d0' :: ds')). split; [exact HM|]. split; [|split; [exact Hn|]].
      * apply nxt_of_nu. rewrite Hp. unfold v'. destruct p as [j|g]; cbn [kvmatch nu nu_next] in *.
        -- destruct Hkv as [Hj Hkv]. rewrite Ekv in Hkv. rewrite Hkv. now rewrite at_isold.
        -- rewrite Ekv in Hkv. destruct (c_kv c s0); [now rewrite Hkv|reflexivity].
      * destruct Hms as [[Hs0 Hs1]|Hlt]; [left|right; rewrite <- Ha; cbn [asum d0' ka]; lia].
        apply (all_none_root true). eapply Permutation_Forall; [symmetry; exact HP|].
        pose proof (root_none_all true _ s0 Hheap eq_refl Hs0) as Hall. constructor; [exact Hs1|exact (Forall_inv_tail Hall)].
  - (* forward, just after seek_to_first: the root moves onto its first entry *)
    assert (heap c true (percolate_down (is_less c true) (length (on_root (c_next c) (m_kids st))) (on_root (c_next c) (m_kids st)) 0)) as Hheap'
      by (apply percolate_root_heap; now apply heap1_upd_root).
    pose proof (percolate_perm' c true (length (on_root (c_next c) (m_kids st))) (on_root (c_next c) (m_kids st)) 0) as HP.
    set (kids2 := percolate_down (is_less c true) (length (on_root (c_next c) (m_kids st))) (on_root (c_next c) (m_kids st)) 0) in *.
    assert (0 <= 0 <= n) as Hv by (pose proof (len_nonneg O); lia).
    destruct (m_kids st) as [|s0 kids'] eqn:Ek; destruct ds as [|d0 ds']; try contradiction.
    + cbn [on_root upd] in *.
      destruct (to_Fnorm _ _ [] 0 HP (Forall2_nil _) Hst ltac:(constructor) Hheap' Hv) as [p' [Hp [HM Hn]]].
      cbn [tsum asum] in *. subst T. exists p', 0. split; [exact HM|]. split; [apply nxt_of_nu; exact Hp|]. split; [exact Hn|].
      left. apply (all_none_root true). eapply Permutation_Forall; [symmetry; exact HP|constructor].
    + destruct Hroot as [H0 [Ep0 [Hs0 Hok']]]. unfold on_root in *. cbn [upd] in *. unfold Kd in H0.
      destruct (k_next _ _ _ _ _ _ _ H0) as [p0' [a0' [b0' [HK1 [Hnx [Hn1 Hms]]]]]]. apply nxt_nu in Hnx. rewrite Ep0 in Hnx. cbn [nu_next] in Hnx.
      set (d0' := mkKD (kO d0) (kU d0) p0' a0' b0').
      assert (Forall2 same_lists (d0 :: ds') (d0' :: ds')) as Hsame by (constructor; [split; reflexivity|apply same_lists_refl]).
      pose proof (kstatic_same _ _ Hsame Hst) as Hst1.
      assert (kids_ok true (c_next c s0 :: kids') (d0' :: ds')) as Hok1 by (constructor; [split; [exact HK1|exact Hn1]|exact Hok']).
      assert (FW 0 (d0' :: ds')) as Hfw1.
      { constructor; [|exact (Forall_inv_tail Hfw)]. cbn [d0' kp kO]. rewrite Hnx. symmetry. apply (cnt_zero _ d0 Hst). now left. }
      destruct (to_Fnorm _ _ _ _ HP Hok1 Hst1 Hfw1 Hheap' Hv) as [p' [Hp [HM Hn]]].
      rewrite (tsum_same _ _ Hsame), HT in HM. exists p', (asum (d0' :: ds')). split; [exact HM|]. split; [apply nxt_of_nu; exact Hp|]. split; [exact Hn|].
      right. destruct (sums_bound _ _ (kids_ok_any _ _ _ Hok1)) as [Hsb _]. rewrite (tsum_same _ _ Hsame), HT in Hsb. lia.
  - (* backward: every child steps forward, heapify *)
    destruct (switch_fwd _ _ _ _ (kids_ok_Kd _ _ _ Hok) Hst Hrv Hr HT) as [p' [a' [Hp [HM [Hn Ha']]]]].
    exists p', a'. split; [exact HM|]. split; [|split; [exact Hn|right; lia]].
    apply nxt_of_nu. rewrite Hp, nu_next_rho. reflexivity.
  - (* backward, just after seek_to_last *)
    assert (Forall2 (Kd false) (m_kids st) ds) as Hany.
    { destruct (m_kids st) as [|s0 kids'], ds as [|d0 ds']; try contradiction; [constructor|].
      destruct Hroot as [H0 [_ [_ Hok']]]. constructor; [exact H0|now apply kids_ok_Kd]. }
    destruct (switch_fwd _ _ _ _ Hany Hst Hrv ltac:(pose proof (len_nonneg O); lia) HT) as [p' [a' [Hp [HM [Hn Ha']]]]].
    exists p', a'. split; [exact HM|]. split; [|split; [exact Hn|right; lia]].
    apply nxt_of_nu. rewrite Hp. cbn. lia.
Qed.

(* ---- prev *)
Lemma prevK st md p a b T : MLT st md p a b T ->
  exists p' b', MLT (m_prev c st) false p' (T + 1) b' T /\ prv p p' /\
    (m_kv c (m_prev c st) = None -> p' = LGap 0) /\
    (forall g x, p' = LGap g -> m_kv c (m_prev c st) = Some x -> 0 < g -> elt (at_ O (g - 1)) x) /\
    (m_kv c (m_prev c st) = None \/ b' < b) /\
    (md = false -> forall x y, m_kv c st = Some x -> m_kv c (m_prev c st) = Some y -> elt y x).
Proof.
  intros HM. pose proof (MLT_bounds _ _ _ _ _ _ HM) as HB.
  destruct HM as [p a T [ds [Hf [Hv [Hok [Hst [Hfw [Hheap [Ha HT]]]]]]]] Hkv|T [ds [Hf [Hst [Hfw [Hroot [Hheap HT]]]]]]|
                  p b T [ds [Hf [Hr [Hok [Hst [Hrv [Hheap [Hb HT]]]]]]]] Hkv|T [ds [Hf [Hst [Hrv [Hroot [Hheap HT]]]]]]];
    unfold m_prev; rewrite Hf.
  - (* forward: every child steps back, heapify backwards *)
    destruct (switch_rev _ _ _ _ (kids_ok_Kd _ _ _ Hok) Hst Hfw Hv HT) as [p' [b' [Hp [HM [Hn [Hg Hb']]]]]].
    exists p', b'. split; [exact HM|]. split; [now apply prv_of_rho|]. split; [exact Hn|]. split; [exact Hg|]. split; [right; lia|discriminate].
  - (* forward, just after seek_to_first *)
    assert (Forall2 (Kd true) (m_kids st) ds) as Hany.
    { destruct (m_kids st) as [|s0 kids'], ds as [|d0 ds']; try contradiction; [constructor|].
      destruct Hroot as [H0 [_ [_ Hok']]]. constructor; [exact H0|now apply kids_ok_Kd]. }
    destruct (switch_rev _ _ _ _ Hany Hst Hfw ltac:(pose proof (len_nonneg O); lia) HT) as [p' [b' [Hp [HM [Hn [Hg Hb']]]]]].
    exists p', b'. split; [exact HM|]. split; [apply prv_of_rho; exact Hp|]. split; [exact Hn|]. split; [exact Hg|]. split; [right; lia|discriminate].
  - (* backward: the root steps back, percolate *)
    assert (heap c false (percolate_down (is_less c false) (length (on_root (c_prev c) (m_kids st))) (on_root (c_prev c) (m_kids st)) 0)) as Hheap'
      by (apply percolate_root_heap; now apply heap_upd_root).
    pose proof (percolate_perm' c false (length (on_root (c_prev c) (m_kids st))) (on_root (c_prev c) (m_kids st)) 0) as HP.
    set (kids2 := percolate_down (is_less c false) (length (on_root (c_prev c) (m_kids st))) (on_root (c_prev c) (m_kids st)) 0) in *.
    destruct (m_kids st) as [|s0 kids'] eqn:Ek.
    + inversion Hok; subst ds. cbn [on_root upd] in *.
      destruct (to_Rnorm _ _ [] (rho p) HP (Forall2_nil _) Hst Hrv Hheap' Hr) as [p' [Hp [HM [Hn Hg]]]].
      cbn [tsum bsum] in *. subst T. exists p', 0. split; [exact HM|]. split.
      { apply prv_of_rho. destruct p as [j|g]; [|cbn in *; lia]. exfalso. destruct Hkv as [_ Hkv]. unfold m_kv in Hkv. rewrite Ek in Hkv. discriminate. }
      split; [exact Hn|]. split; [exact Hg|]. split.
      * left. apply (all_none_root false). eapply Permutation_Forall; [symmetry; exact HP|constructor].
      * intros _ x' y Hx. unfold m_kv in Hx. rewrite Ek in Hx. discriminate.
    + inversion Hok as [|? d0 ? ds' [H0 Hn0] Hok']; subst ds. unfold on_root in *. cbn [upd] in *.
      pose proof (root_revK s0 kids' d0 ds' (rho p) Hok Hst Hrv Hheap Hr) as Hroot.
      assert (m_kv c st = c_kv c s0) as Ekv by (unfold m_kv; now rewrite Ek).
      destruct (k_prev _ _ _ _ _ _ _ H0) as [p0' [a0' [b0' [HK1 [Hpx [Hn1 [Hms Hmono]]]]]]]. apply prv_rho in Hpx.
      set (d0' := mkKD (kO d0) (kU d0) p0' a0' b0').
      assert (Forall2 same_lists (d0 :: ds') (d0' :: ds')) as Hsame by (constructor; [split; reflexivity|apply same_lists_refl]).
      pose proof (kstatic_same _ _ Hsame Hst) as Hst1.
      assert (kids_ok false (c_prev c s0 :: kids') (d0' :: ds')) as Hok1 by (constructor; [split; [exact HK1|exact Hn1]|exact Hok']).
      pose proof (Forall_inv Hrv) as Hf0. cbv beta in Hf0. pose proof (Forall_inv_tail Hrv) as Hf'.
      set (r' := match c_kv c s0 with Some e => if isold e then rho p - 1 else rho p | None => rho p end).
      assert (-1 <= r' <= n - 1 /\ RV r' (d0' :: ds')) as [Hr' Hrv1].
      { unfold r'. destruct (c_kv c s0) as [e|] eqn:Es0.
        - destruct Hroot as [Hro _]. destruct (isold e) eqn:Eo.
          + destruct (Hro eq_refl) as [Hr0 [Ee Ep]]. split; [lia|].
            assert (In (at_ O (rho p)) (kO d0)) as Hin.
            { rewrite Ep in H0. destruct (k_at _ _ _ _ _ _ _ H0) as [Hj Hk]. rewrite Es0 in Hk. injection Hk as Hk. rewrite <- Ee, Hk.
              eapply ent_In. apply ent_at. exact Hj. }
            destruct (advance_others d0 ds' (rho p) Hst ltac:(lia) Hin) as [A1 A2]. constructor.
            * cbn [d0' kp kO]. rewrite Hpx, Ep. cbn [nu]. replace (rho p - 1 + 1) with (rho p) by lia. lia.
            * unfold RV in Hf'. rewrite Forall_forall in *. intros d Hd. rewrite (Hf' d Hd). replace (rho p - 1 + 1) with (rho p) by lia. rewrite (A2 d Hd). reflexivity.
          + split; [exact Hr|]. constructor; [|exact Hf']. cbn [d0' kp kO]. rewrite Hpx, <- Hf0.
            destruct (kp d0) as [j0|g0] eqn:Ep; [|reflexivity]. exfalso.
            destruct (k_at _ _ _ _ _ _ _ H0) as [Hj Hk]. rewrite Es0 in Hk. injection Hk as Hk.
            rewrite (kO_isold _ d0 e Hst (or_introl eq_refl)) in Eo; [discriminate|]. rewrite Hk. eapply ent_In. apply ent_at. exact Hj.
        - split; [exact Hr|]. constructor; [|exact Hf']. cbn [d0' kp kO]. rewrite Hpx, <- Hf0. rewrite (Hn0 eq_refl). reflexivity. }
      destruct (to_Rnorm _ _ _ _ HP Hok1 Hst1 Hrv1 Hheap' Hr') as [p' [Hp [HM [Hn Hg]]]].
      rewrite (tsum_same _ _ Hsame), HT in HM. exists p', (bsum (d0' :: ds')). split; [exact HM|]. split; [|split; [exact Hn|split; [exact Hg|split]]].
      * apply prv_of_rho. rewrite Hp. unfold r'. destruct p as [j|g]; cbn [kvmatch nu rho] in *.
        -- destruct Hkv as [Hj Hkv]. rewrite Ekv in Hkv. rewrite Hkv. rewrite at_isold by lia. reflexivity.
        -- rewrite Ekv in Hkv. destruct (c_kv c s0); [now rewrite Hkv|reflexivity].
      * destruct Hms as [[Hs0 Hs1]|Hlt]; [left|right; rewrite <- Hb; cbn [bsum d0' kb]; lia].
        apply (all_none_root false). eapply Permutation_Forall; [symmetry; exact HP|].
        pose proof (root_none_all false _ s0 Hheap eq_refl Hs0) as Hall. constructor; [exact Hs1|exact (Forall_inv_tail Hall)].
      * (* going on backwards, the entries strictly decrease *)
        intros _ x' y Hx Hy. rewrite Ekv in Hx.
        unfold m_kv in Hy. cbn [m_kids] in Hy. destruct kids2 as [|s2 r2] eqn:E2; [discriminate|].
        assert (In s2 (c_prev c s0 :: kids')) as Hs2 by (eapply Permutation_in; [exact HP|now left]).
        destruct Hs2 as [<-|Hs2]; [exact (Hmono eq_refl x' y Hx Hy)|].
        destruct (In_nth_error _ _ Hs2) as [i Hi]. destruct (Forall2_nth _ _ _ _ _ Hok' Hi) as [d [Hdi [HKd _]]].
        pose proof (nth_error_In _ _ Hdi) as Hd.
        pose proof (heap_min c false (s0 :: kids') s0 (Datatypes.S i) s2 Hheap eq_refl Hi) as Hm. unfold is_less in Hm.
        rewrite Hy, Hx in Hm. cbn in Hm. destruct (eltb_spec x' y) as [|Hge]; [discriminate|].
        destruct (ecmp y x') eqn:Ec; [exfalso|exact Ec|exfalso; apply Hge; unfold elt; rewrite ecmp_antisym, Ec; reflexivity].
        apply (shown_differ d0 ds' x' d y Hst (k_in _ _ _ _ _ _ _ _ H0 Hx) Hd (k_in _ _ _ _ _ _ _ _ HKd Hy)).
        unfold eeq. rewrite ecmp_antisym, Ec. reflexivity.
  - (* backward, just after seek_to_last: the root moves onto its last entry *)
    assert (heap c false (percolate_down (is_less c false) (length (on_root (c_prev c) (m_kids st))) (on_root (c_prev c) (m_kids st)) 0)) as Hheap'
      by (apply percolate_root_heap; now apply heap1_upd_root).
    pose proof (percolate_perm' c false (length (on_root (c_prev c) (m_kids st))) (on_root (c_prev c) (m_kids st)) 0) as HP.
    set (kids2 := percolate_down (is_less c false) (length (on_root (c_prev c) (m_kids st))) (on_root (c_prev c) (m_kids st)) 0) in *.
    assert (-1 <= n - 1 <= n - 1) as Hr by (pose proof (len_nonneg O); lia).
    destruct (m_kids st) as [|s0 kids'] eqn:Ek; destruct ds as [|d0 ds']; try contradiction.
    + cbn [on_root upd] in *.
      destruct (to_Rnorm _ _ [] (n - 1) HP (Forall2_nil _) Hst ltac:(constructor) Hheap' Hr) as [p' [Hp [HM [Hn Hg]]]].
      cbn [tsum bsum] in *. subst T. exists p', 0. split; [exact HM|]. split; [apply prv_of_rho; exact Hp|]. split; [exact Hn|]. split; [exact Hg|]. split.
      * left. apply (all_none_root false). eapply Permutation_Forall; [symmetry; exact HP|constructor].
      * intros _ x' y Hx. unfold m_kv in Hx. rewrite Ek in Hx. discriminate.
    + destruct Hroot as [H0 [Ep0 [Hs0 Hok']]]. unfold on_root in *. cbn [upd] in *. unfold Kd in H0.
      destruct (k_prev _ _ _ _ _ _ _ H0) as [p0' [a0' [b0' [HK1 [Hpx [Hn1 [Hms _]]]]]]]. apply prv_rho in Hpx. rewrite Ep0 in Hpx. cbn [nu] in Hpx.
      set (d0' := mkKD (kO d0) (kU d0) p0' a0' b0').
      assert (Forall2 same_lists (d0 :: ds') (d0' :: ds')) as Hsame by (constructor; [split; reflexivity|apply same_lists_refl]).
      pose proof (kstatic_same _ _ Hsame Hst) as Hst1.
      assert (kids_ok false (c_prev c s0 :: kids') (d0' :: ds')) as Hok1 by (constructor; [split; [exact HK1|exact Hn1]|exact Hok']).
      assert (RV (n - 1) (d0' :: ds')) as Hrv1.
      { constructor; [|exact (Forall_inv_tail Hrv)]. cbn [d0' kp kO]. rewrite Hpx. replace (n - 1 + 1) with n by lia. now rewrite cnt_full. }
      destruct (to_Rnorm _ _ _ _ HP Hok1 Hst1 Hrv1 Hheap' Hr) as [p' [Hp [HM [Hn Hg]]]].
      rewrite (tsum_same _ _ Hsame), HT in HM. exists p', (bsum (d0' :: ds')). split; [exact HM|]. split; [apply prv_of_rho; exact Hp|]. split; [exact Hn|]. split; [exact Hg|].
      split.
      * right. destruct (sums_bound _ _ (kids_ok_any _ _ _ Hok1)) as [_ Hsb]. rewrite (tsum_same _ _ Hsame), HT in Hsb. lia.
      * intros _ x' y Hx. unfold m_kv in Hx. rewrite Ek in Hx. congruence.
Qed.

(* ---------------------------------------------------------------- the lists under the children grow *)
(* rf: what an insertion into the lists does to a child's state.  A child keeps its logical
   position and what it shows; then so does the merge. *)
Fixpoint usum (kids : list S) : Z := match kids with [] => 0 | s :: r => (len (Uof s) + 2) + usum r end.

Lemma kU_map kids ds : Forall2 (fun s d => exists md, Kd md s d) kids ds -> map kU ds = map Uof kids.
Proof. induction 1 as [|s d kids ds [md H] _ IH]; [reflexivity|]. cbn [map]. rewrite IH. f_equal. exact (k_U _ _ _ _ _ _ _ H). Qed.
Lemma tsum_usum kids ds : Forall2 (fun s d => exists md, Kd md s d) kids ds -> tsum ds = usum kids.
Proof. induction 1 as [|s d kids ds [md H] _ IH]; [reflexivity|]. cbn [tsum usum]. rewrite IH, (k_U _ _ _ _ _ _ _ H). reflexivity. Qed.

Definition keeps (rf : S -> S) (s : S) : Prop :=
  c_kv c (rf s) = c_kv c s /\
  forall d md0, Kd md0 s d -> exists d', Kd md0 (rf s) d' /\ kO d' = kO d /\ kp d' = kp d /\ incl (kO d') (kU d').
Definition kept (d d' : kdesc) : Prop := kO d' = kO d /\ kp d' = kp d /\ incl (kO d') (kU d').

Lemma kids_map_in (f : S -> S) (R R' : S -> kdesc -> Prop) (X : kdesc -> kdesc -> Prop) kids ds :
  Forall2 R kids ds -> (forall s d, In s kids -> R s d -> exists d', R' (f s) d' /\ X d d') ->
  exists ds', Forall2 R' (map f kids) ds' /\ Forall2 X ds ds'.
Proof.
  intros HF. induction HF as [|s d kids ds H _ IH]; intros Hstep; [exists []; split; constructor|].
  destruct (Hstep s d (or_introl eq_refl) H) as [d' [H1 H2]].
  destruct IH as [ds' [I1 I2]]; [intros s1 d1 Hin; apply Hstep; now right|].
  exists (d' :: ds'). cbn [map]. split; constructor; assumption.
Qed.

Lemma kept_ok (rf : S -> S) md s d : keeps rf s -> kid_ok md s d -> exists d', kid_ok md (rf s) d' /\ kept d d'.
Proof.
  intros [Hkv Hk] [HK Hn]. destruct (Hk d md HK) as [d' [HK' [E1 [E2 E3]]]]. exists d'. split; [|split; auto].
  split; [exact HK'|]. rewrite Hkv, E2, E1. exact Hn.
Qed.
Lemma kept_maps ds ds' : Forall2 kept ds ds' -> map kO ds' = map kO ds /\ map kp ds' = map kp ds.
Proof. induction 1 as [|d d' ds ds' [H1 [H2 _]] _ [IH1 IH2]]; [auto|]. cbn [map]. now rewrite H1, H2, IH1, IH2. Qed.

Lemma kept_static (rf : S -> S) kids ds ds' : Forall2 (fun s d => exists md, Kd md s d) (map rf kids) ds' -> Forall2 kept ds ds' -> kstatic ds ->
  distinct (concat (map Uof (map rf kids))) -> kstatic ds'.
Proof.
  intros Hany HX [H1 [H2 _]] Hd. destruct (kept_maps _ _ HX) as [EO _]. unfold kstatic. rewrite EO, (kU_map _ _ Hany). split; [|auto].
  clear -HX H1. induction HX as [|d d' ds ds' [Ea [_ Ec]] _ IH]; [constructor|]. inversion H1 as [|? ? [Hs _] H1']; subst.
  constructor; [split; [rewrite Ea; exact Hs|exact Ec]|apply IH; exact H1'].
Qed.
Lemma kept_FW v ds ds' : Forall2 kept ds ds' -> FW v ds -> FW v ds'.
Proof. induction 1 as [|d d' ds ds' [Ea [Eb _]] _ IH]; intros H; [constructor|]. inversion H; subst. constructor; [rewrite Ea, Eb; assumption|apply IH; assumption]. Qed.
Lemma kept_RV r ds ds' : Forall2 kept ds ds' -> RV r ds -> RV r ds'.
Proof. induction 1 as [|d d' ds ds' [Ea [Eb _]] _ IH]; intros H; [constructor|]. inversion H; subst. constructor; [rewrite Ea, Eb; assumption|apply IH; assumption]. Qed.
Lemma kv_ext_map (rf : S -> S) kids : (forall s, In s kids -> c_kv c (rf s) = c_kv c s) -> Forall2 (fun a b => c_kv c a = c_kv c b) kids (map rf kids).
Proof. induction kids as [|s r IH]; intros H; [constructor|]. cbn [map]. constructor; [symmetry; apply H; now left|apply IH; intros s1 H1; apply H; now right]. Qed.

Lemma MLT_transfer (rf : S -> S) st md p a b T : MLT st md p a b T -> (forall s, In s (m_kids st) -> keeps rf s) ->
  distinct (concat (map Uof (map rf (m_kids st)))) ->
  exists a' b', MLT (mkM (m_fwd st) (map rf (m_kids st))) md p a' b' (usum (map rf (m_kids st))) /\
                m_kv c (mkM (m_fwd st) (map rf (m_kids st))) = m_kv c st.
Proof.
  intros HM Hkeep Hd.
  assert (forall s, In s (m_kids st) -> c_kv c (rf s) = c_kv c s) as Hkvs by (intros s Hs; exact (proj1 (Hkeep s Hs))).
  pose proof (kv_ext_map rf _ Hkvs) as Hext.
  assert (m_kv c (mkM (m_fwd st) (map rf (m_kids st))) = m_kv c st) as Ekv.
  { unfold m_kv. cbn [m_kids]. destruct (m_kids st) as [|s0 r]; [reflexivity|]. cbn [map]. apply Hkvs. now left. }
  assert (forall q, kvmatch st q -> kvmatch (mkM (m_fwd st) (map rf (m_kids st))) q) as Hkm
    by (intros q; unfold kvmatch; rewrite Ekv; auto).
  destruct HM as [p a T [ds [Hf [Hv [Hok [Hst [Hfw [Hheap [Ha HT]]]]]]]] Hkv|T [ds [Hf [Hst [Hfw [Hroot [Hheap HT]]]]]]|
                  p b T [ds [Hf [Hr [Hok [Hst [Hrv [Hheap [Hb HT]]]]]]]] Hkv|T [ds [Hf [Hst [Hrv [Hroot [Hheap HT]]]]]]]; rewrite Hf.
  - destruct (kids_map_in rf _ (kid_ok true) kept _ _ Hok) as [ds' [Hok' HX]]; [intros s d Hs H; apply kept_ok; [now apply Hkeep|exact H]|].
    pose proof (kept_static rf _ _ _ (kids_ok_any _ _ _ Hok') HX Hst Hd) as Hst'.
    exists (asum ds'), (usum (map rf (m_kids st)) + 1). split; [|exact Ekv]. rewrite <- (tsum_usum _ _ (kids_ok_any _ _ _ Hok')).
    apply MLF; [|now apply Hkm]. exists ds'. cbn [m_fwd m_kids]. split; [reflexivity|]. split; [exact Hv|]. split; [exact Hok'|]. split; [exact Hst'|].
    split; [eapply kept_FW; eauto|]. split; [eapply heap_from_kv_ext; eauto|]. split; reflexivity.
  - exists (usum (map rf (m_kids st)) + 1), (usum (map rf (m_kids st)) + 1). split; [|exact Ekv].
    destruct (m_kids st) as [|s0 kids'] eqn:Ek; destruct ds as [|d0 ds']; try contradiction.
    + cbn [map usum]. apply (MLFs _ 0). exists []. cbn [m_fwd m_kids]. split; [reflexivity|]. split; [exact Hst|]. split; [constructor|]. split; [exact I|]. split; [exact Hheap|reflexivity].
    + destruct Hroot as [H0 [Ep0 [Hs0 Hok]]].
      destruct (Hkeep s0 (or_introl eq_refl)) as [Hkv0 Hk0]. destruct (Hk0 d0 true H0) as [d0' [H0' [E1 [E2 E3]]]].
      destruct (kids_map_in rf _ (kid_ok true) kept _ _ Hok) as [ds'' [Hok' HX]]; [intros s d Hs H; apply kept_ok; [apply Hkeep; now right|exact H]|].
      assert (Forall2 kept (d0 :: ds') (d0' :: ds'')) as HX2 by (constructor; [split; auto|exact HX]).
      assert (Forall2 (fun s d => exists md, Kd md s d) (map rf (s0 :: kids')) (d0' :: ds'')) as Hany'
        by (cbn [map]; constructor; [exists true; exact H0'|eapply kids_ok_any; eauto]).
      pose proof (kept_static rf _ _ _ Hany' HX2 Hst Hd) as Hst'.
      rewrite <- (tsum_usum _ _ Hany'). apply MLFs. exists (d0' :: ds''). cbn [m_fwd m_kids map]. split; [reflexivity|]. split; [exact Hst'|].
      split; [eapply kept_FW; eauto|]. split; [split; [exact H0'|split; [now rewrite E2|split; [now rewrite Hkv0|exact Hok']]]|].
      split; [|reflexivity]. eapply heap_from_kv_ext; [exact Hext|exact Hheap].
  - destruct (kids_map_in rf _ (kid_ok false) kept _ _ Hok) as [ds' [Hok' HX]]; [intros s d Hs H; apply kept_ok; [now apply Hkeep|exact H]|].
    pose proof (kept_static rf _ _ _ (kids_ok_any _ _ _ Hok') HX Hst Hd) as Hst'.
    exists (usum (map rf (m_kids st)) + 1), (bsum ds'). split; [|exact Ekv]. rewrite <- (tsum_usum _ _ (kids_ok_any _ _ _ Hok')).
    apply MLR; [|now apply Hkm]. exists ds'. cbn [m_fwd m_kids]. split; [reflexivity|]. split; [exact Hr|]. split; [exact Hok'|]. split; [exact Hst'|].
    split; [eapply kept_RV; eauto|]. split; [eapply heap_from_kv_ext; eauto|]. split; reflexivity.
  - exists (usum (map rf (m_kids st)) + 1), (usum (map rf (m_kids st)) + 1). split; [|exact Ekv].
    destruct (m_kids st) as [|s0 kids'] eqn:Ek; destruct ds as [|d0 ds']; try contradiction.
    + cbn [map usum]. apply (MLRe _ 0). exists []. cbn [m_fwd m_kids]. split; [reflexivity|]. split; [exact Hst|]. split; [constructor|]. split; [exact I|]. split; [exact Hheap|reflexivity].
    + destruct Hroot as [H0 [Ep0 [Hs0 Hok]]].
      destruct (Hkeep s0 (or_introl eq_refl)) as [Hkv0 Hk0]. destruct (Hk0 d0 false H0) as [d0' [H0' [E1 [E2 E3]]]].
      destruct (kids_map_in rf _ (kid_ok false) kept _ _ Hok) as [ds'' [Hok' HX]]; [intros s d Hs H; apply kept_ok; [apply Hkeep; now right|exact H]|].
      assert (Forall2 kept (d0 :: ds') (d0' :: ds'')) as HX2 by (constructor; [split; auto|exact HX]).
      assert (Forall2 (fun s d => exists md, Kd md s d) (map rf (s0 :: kids')) (d0' :: ds'')) as Hany'
        by (cbn [map]; constructor; [exists false; exact H0'|eapply kids_ok_any; eauto]).
      pose proof (kept_static rf _ _ _ Hany' HX2 Hst Hd) as Hst'.
      rewrite <- (tsum_usum _ _ Hany'). apply MLRe. exists (d0' :: ds''). cbn [m_fwd m_kids map]. split; [reflexivity|]. split; [exact Hst'|].
      split; [eapply kept_RV; eauto|]. split; [split; [exact H0'|split; [now rewrite E2, E1|split; [now rewrite Hkv0|exact Hok']]]|].
      split; [|reflexivity]. eapply heap_from_kv_ext; [exact Hext|exact Hheap].
Qed.

(* ---------------------------------------------------------------- the interface of ProofsLT *)
(* T0: a bound on the sizes of everything the children could show, over the life of the cursor *)
Variable T0 : Z.

Definition LTm (s : mstate S) (md : bool) (p : lpos) : Prop :=
  exists a b T, MLT s md p a b T /\ T <= T0 /\
    (md = false -> forall g x, p = LGap g -> m_kv c s = Some x -> 0 < g -> elt (at_ O (g - 1)) x).

Lemma LTm_transfer (rf : S -> S) s md p : LTm s md p -> (forall k, In k (m_kids s) -> keeps rf k) ->
  distinct (concat (map Uof (map rf (m_kids s)))) -> usum (map rf (m_kids s)) <= T0 ->
  LTm (mkM (m_fwd s) (map rf (m_kids s))) md p /\ m_kv c (mkM (m_fwd s) (map rf (m_kids s))) = m_kv c s.
Proof.
  intros [a [b [T [HM [_ Hbd]]]]] Hk Hd HT. destruct (MLT_transfer rf _ _ _ _ _ _ HM Hk Hd) as [a' [b' [HM' Ekv]]].
  split; [|exact Ekv]. exists a', b', (usum (map rf (m_kids s))). split; [exact HM'|]. split; [exact HT|]. rewrite Ekv. exact Hbd.
Qed.
Lemma LTm_usum s md p : LTm s md p -> usum (m_kids s) <= T0.
Proof.
  intros [a [b [T [HM [HT _]]]]]. destruct (MLT_stat _ _ _ _ _ _ HM) as [ds [Hany [_ E]]]. rewrite <- (tsum_usum _ _ Hany), E. exact HT.
Qed.

(* how many calls of next (prev) until nothing is shown, searched up to k calls *)
Fixpoint cnt_next (k : nat) (s : mstate S) : nat :=
  match k with
  | Datatypes.O => 0%nat
  | Datatypes.S k' => match m_kv c (m_next c s) with None => 0%nat | Some _ => Datatypes.S (cnt_next k' (m_next c s)) end
  end.
Fixpoint cnt_prev (k : nat) (s : mstate S) : nat :=
  match k with
  | Datatypes.O => 0%nat
  | Datatypes.S k' => match m_kv c (m_prev c s) with None => 0%nat | Some _ => Datatypes.S (cnt_prev k' (m_prev c s)) end
  end.
Definition Bnd_m : nat := (Z.to_nat T0 + 2)%nat.
Definition ahead_m (s : mstate S) : nat := cnt_next (Z.to_nat T0 + 3) s.
Definition behind_m (s : mstate S) : nat := cnt_prev (Z.to_nat T0 + 3) s.

Lemma cnt_next_S k s : cnt_next (Datatypes.S k) s =
  match m_kv c (m_next c s) with None => 0%nat | Some _ => Datatypes.S (cnt_next k (m_next c s)) end.
Proof. reflexivity. Qed.
Lemma cnt_prev_S k s : cnt_prev (Datatypes.S k) s =
  match m_kv c (m_prev c s) with None => 0%nat | Some _ => Datatypes.S (cnt_prev k (m_prev c s)) end.
Proof. reflexivity. Qed.
Lemma cnt_next_bound k : forall s, (cnt_next k s <= k)%nat.
Proof. induction k as [|k IH]; intros s; [cbn; lia|]. rewrite cnt_next_S. destruct (m_kv c (m_next c s)); [specialize (IH (m_next c s))|]; lia. Qed.
Lemma cnt_prev_bound k : forall s, (cnt_prev k s <= k)%nat.
Proof. induction k as [|k IH]; intros s; [cbn; lia|]. rewrite cnt_prev_S. destruct (m_kv c (m_prev c s)); [specialize (IH (m_prev c s))|]; lia. Qed.
Lemma cnt_next_stable k : forall s, (cnt_next k s < k)%nat -> cnt_next (Datatypes.S k) s = cnt_next k s.
Proof.
  induction k as [|k IH]; intros s H; [lia|]. rewrite (cnt_next_S (Datatypes.S k) s), (cnt_next_S k s). rewrite (cnt_next_S k s) in H.
  destruct (m_kv c (m_next c s)); [|reflexivity]. f_equal. apply IH. lia.
Qed.
Lemma cnt_prev_stable k : forall s, (cnt_prev k s < k)%nat -> cnt_prev (Datatypes.S k) s = cnt_prev k s.
Proof.
  induction k as [|k IH]; intros s H; [lia|]. rewrite (cnt_prev_S (Datatypes.S k) s), (cnt_prev_S k s). rewrite (cnt_prev_S k s) in H.
  destruct (m_kv c (m_prev c s)); [|reflexivity]. f_equal. apply IH. lia.
Qed.
Lemma cnt_next_le k : forall s md p a b T, MLT s md p a b T -> Z.of_nat (cnt_next k s) <= a.
Proof.
  induction k as [|k IH]; intros s md p a b T HM; pose proof (MLT_bounds _ _ _ _ _ _ HM) as HB; [cbn; lia|].
  rewrite cnt_next_S. destruct (nextK _ _ _ _ _ _ HM) as [p' [a' [HM' [_ [_ Hd]]]]].
  destruct (m_kv c (m_next c s)); [|lia]. destruct Hd as [Hd|Hd]; [discriminate|]. specialize (IH _ _ _ _ _ _ HM'). lia.
Qed.
Lemma cnt_prev_le k : forall s md p a b T, MLT s md p a b T -> Z.of_nat (cnt_prev k s) <= b.
Proof.
  induction k as [|k IH]; intros s md p a b T HM; pose proof (MLT_bounds _ _ _ _ _ _ HM) as HB; [cbn; lia|].
  rewrite cnt_prev_S. destruct (prevK _ _ _ _ _ _ HM) as [p' [b' [HM' [_ [_ [_ [Hd _]]]]]]].
  destruct (m_kv c (m_prev c s)); [|lia]. destruct Hd as [Hd|Hd]; [discriminate|]. specialize (IH _ _ _ _ _ _ HM'). lia.
Qed.

Lemma ltm_at s md j : LTm s md (LAt j) -> 0 <= j < n /\ m_kv c s = Some (at_ O j).
Proof.
  intros [a [b [T [HM _]]]]. inversion HM as [p0 a0 T1 _ Hkv|?|p0 b0 T1 _ Hkv|?]; subst; exact Hkv.
Qed.
Lemma ltm_gap s md g : LTm s md (LGap g) -> 0 <= g <= n /\
  match m_kv c s with
  | None => True
  | Some x => (t < ets x)%N /\ (md = false -> 0 < g -> elt (at_ O (g - 1)) x)
  end.
Proof.
  intros [a [b [T [HM [_ Hbd]]]]]. pose proof (len_nonneg O) as Hn0.
  assert (match m_kv c s with None => True | Some x => isold x = false end -> match m_kv c s with
          | None => True | Some x => (t < ets x)%N /\ (md = false -> 0 < g -> elt (at_ O (g - 1)) x) end) as Hfin.
  { destruct (m_kv c s) as [x|] eqn:E; [|auto]. intros Ho. split; [unfold isold in Ho; now apply N.leb_gt in Ho|].
    intros Hmd Hg. exact (Hbd Hmd g x eq_refl eq_refl Hg). }
  inversion HM as [p0 a0 T1 [ds [_ [Hv _]]] Hkv|T1 [ds [_ [_ [_ [Hr _]]]]]|p0 b0 T1 [ds [_ [Hr _]]] Hkv|T1 [ds [_ [_ [_ [Hr _]]]]]]; subst.
  - cbn [nu] in Hv. split; [exact Hv|]. apply Hfin. exact Hkv.
  - split; [lia|]. apply Hfin. unfold m_kv. destruct (m_kids s) as [|s0 kids'], ds as [|d0 ds']; try contradiction; [exact I|].
    destruct Hr as [_ [_ [-> _]]]. exact I.
  - cbn [rho] in Hr. split; [lia|]. apply Hfin. exact Hkv.
  - split; [lia|]. apply Hfin. unfold m_kv. destruct (m_kids s) as [|s0 kids'], ds as [|d0 ds']; try contradiction; [exact I|].
    destruct Hr as [_ [_ [-> _]]]. exact I.
Qed.

Lemma ltm_next s md p : LTm s md p -> exists p', LTm (m_next c s) true p' /\ nxt p p' /\ (m_kv c (m_next c s) = None -> p' = LGap n).
Proof.
  intros [a [b [T [HM [HT _]]]]]. destruct (nextK _ _ _ _ _ _ HM) as [p' [a' [HM' [Hn [Hnone _]]]]].
  exists p'. split; [|auto]. exists a', (T + 1), T. split; [exact HM'|]. split; [exact HT|discriminate].
Qed.
Lemma ltm_prev s md p : LTm s md p -> exists p', LTm (m_prev c s) false p' /\ prv p p' /\
  (m_kv c (m_prev c s) = None -> p' = LGap 0) /\
  (md = false -> forall x y, m_kv c s = Some x -> m_kv c (m_prev c s) = Some y -> elt y x).
Proof.
  intros [a [b [T [HM [HT _]]]]]. destruct (prevK _ _ _ _ _ _ HM) as [p' [b' [HM' [Hp [Hnone [Hg [_ Hmono]]]]]]].
  exists p'. split; [|auto]. exists (T + 1), b', T. split; [exact HM'|]. split; [exact HT|]. intros _ g x -> Hx Hg0. exact (Hg g x eq_refl Hx Hg0).
Qed.
Lemma ltm_seek s md p k : LTm s md p -> exists p', LTm (m_seek c k s) true p' /\
  nu p' = count (below k) O /\ (m_kv c (m_seek c k s) = None -> p' = LGap n).
Proof.
  intros [a [b [T [HM [HT _]]]]]. destruct (seekK k _ _ (MLT_stat _ _ _ _ _ _ HM)) as [p' [a' [Hnu [HM' Hnone]]]].
  exists p'. split; [|auto]. exists a', (T + 1), T. split; [exact HM'|]. split; [exact HT|discriminate].
Qed.
Lemma ltm_first s md p : LTm s md p -> LTm (m_first c s) true (LGap 0) /\ m_kv c (m_first c s) = None.
Proof.
  intros [a [b [T [HM [HT _]]]]]. destruct (firstK _ _ (MLT_stat _ _ _ _ _ _ HM)) as [a' [HM' Hkv]].
  split; [|exact Hkv]. exists a', (T + 1), T. split; [exact HM'|]. split; [exact HT|discriminate].
Qed.
Lemma ltm_last s md p : LTm s md p -> LTm (m_last c s) false (LGap n) /\ m_kv c (m_last c s) = None.
Proof.
  intros [a [b [T [HM [HT _]]]]]. destruct (lastK _ _ (MLT_stat _ _ _ _ _ _ HM)) as [b' [HM' Hkv]].
  split; [|exact Hkv]. exists (T + 1), b', T. split; [exact HM'|]. split; [exact HT|]. intros _ g x _ Hx. rewrite Hkv in Hx. discriminate.
Qed.
Lemma ltm_ahead s md p : LTm s md p -> (ahead_m s <= Bnd_m + 1)%nat /\
  (m_kv c (m_next c s) = None \/ (ahead_m (m_next c s) < ahead_m s)%nat).
Proof.
  intros [a [b [T [HM [HT _]]]]]. unfold ahead_m, Bnd_m. split; [pose proof (cnt_next_bound (Z.to_nat T0 + 3) s); lia|].
  destruct (m_kv c (m_next c s)) eqn:E; [right|now left].
  replace (Z.to_nat T0 + 3)%nat with (Datatypes.S (Z.to_nat T0 + 2)) by lia. rewrite (cnt_next_S _ s), E.
  destruct (nextK _ _ _ _ _ _ HM) as [p' [a' [HM' _]]]. pose proof (MLT_bounds _ _ _ _ _ _ HM') as HB.
  pose proof (cnt_next_le (Z.to_nat T0 + 2) _ _ _ _ _ _ HM') as Hle.
  rewrite cnt_next_stable by lia. lia.
Qed.
Lemma ltm_behind s md p : LTm s md p -> (behind_m s <= Bnd_m + 1)%nat /\
  (m_kv c (m_prev c s) = None \/ (behind_m (m_prev c s) < behind_m s)%nat).
Proof.
  intros [a [b [T [HM [HT _]]]]]. unfold behind_m, Bnd_m. split; [pose proof (cnt_prev_bound (Z.to_nat T0 + 3) s); lia|].
  destruct (m_kv c (m_prev c s)) eqn:E; [right|now left].
  replace (Z.to_nat T0 + 3)%nat with (Datatypes.S (Z.to_nat T0 + 2)) by lia. rewrite (cnt_prev_S _ s), E.
  destruct (prevK _ _ _ _ _ _ HM) as [p' [b' [HM' _]]]. pose proof (MLT_bounds _ _ _ _ _ _ HM') as HB.
  pose proof (cnt_prev_le (Z.to_nat T0 + 2) _ _ _ _ _ _ HM') as Hle.
  rewrite cnt_prev_stable by lia. lia.
Qed.

Lemma LTm_new kids ds : Forall2 (fun s d => exists md, Kd md s d) kids ds -> kstatic ds -> tsum ds <= T0 ->
  LTm (m_new c kids) true (LGap 0) /\ m_kv c (m_new c kids) = None.
Proof.
  intros Hany Hst HT. unfold m_new. destruct (firstK (mkM true kids) (tsum ds)) as [a [HM Hkv]]; [exists ds; auto|].
  split; [|exact Hkv]. exists a, (tsum ds + 1), (tsum ds). split; [exact HM|]. split; [exact HT|discriminate].
Qed.

Lemma LTm_kids s md p : LTm s md p -> forall k, In k (m_kids s) -> exists d md0, Kd md0 k d.
Proof.
  intros [a [b [T [HM _]]]] k Hk. destruct (MLT_stat _ _ _ _ _ _ HM) as [ds [Hany _]]. destruct (In_nth_error _ _ Hk) as [i Hi].
  destruct (Forall2_nth _ _ _ _ _ Hany Hi) as [d [_ [md0 H]]]. eauto.
Qed.

(* everything the layers above need, in one statement (so that it is instantiated once) *)
Theorem merge_lt_pack :
  (forall s md j, LTm s md (LAt j) -> 0 <= j < n /\ m_kv c s = Some (at_ O j)) /\
  (forall s md g, LTm s md (LGap g) -> 0 <= g <= n /\
     match m_kv c s with None => True | Some x => (t < ets x)%N /\ (md = false -> 0 < g -> elt (at_ O (g - 1)) x) end) /\
  (forall s md p, LTm s md p -> exists p', LTm (m_next c s) true p' /\ nxt p p' /\ (m_kv c (m_next c s) = None -> p' = LGap n)) /\
  (forall s md p, LTm s md p -> exists p', LTm (m_prev c s) false p' /\ prv p p' /\ (m_kv c (m_prev c s) = None -> p' = LGap 0) /\
     (md = false -> forall x y, m_kv c s = Some x -> m_kv c (m_prev c s) = Some y -> elt y x)) /\
  (forall s md p k, LTm s md p -> exists p', LTm (m_seek c k s) true p' /\ nu p' = count (below k) O /\ (m_kv c (m_seek c k s) = None -> p' = LGap n)) /\
  (forall s md p, LTm s md p -> LTm (m_first c s) true (LGap 0) /\ m_kv c (m_first c s) = None) /\
  (forall s md p, LTm s md p -> LTm (m_last c s) false (LGap n) /\ m_kv c (m_last c s) = None) /\
  (forall s md p, LTm s md p -> (ahead_m s <= Bnd_m + 1)%nat /\ (m_kv c (m_next c s) = None \/ (ahead_m (m_next c s) < ahead_m s)%nat)) /\
  (forall s md p, LTm s md p -> (behind_m s <= Bnd_m + 1)%nat /\ (m_kv c (m_prev c s) = None \/ (behind_m (m_prev c s) < behind_m s)%nat)) /\
  (forall (rf : S -> S) s md p, LTm s md p -> (forall k, In k (m_kids s) -> keeps rf k) ->
     distinct (concat (map Uof (map rf (m_kids s)))) -> usum (map rf (m_kids s)) <= T0 ->
     LTm (mkM (m_fwd s) (map rf (m_kids s))) md p /\ m_kv c (mkM (m_fwd s) (map rf (m_kids s))) = m_kv c s) /\
  (forall kids ds, Forall2 (fun s d => exists md, Kd md s d) kids ds -> kstatic ds -> tsum ds <= T0 ->
     LTm (m_new c kids) true (LGap 0) /\ m_kv c (m_new c kids) = None) /\
  (forall s md p, LTm s md p -> forall k, In k (m_kids s) -> exists d md0, Kd md0 k d).
Proof.
  split; [exact ltm_at|]. split; [exact ltm_gap|]. split; [exact ltm_next|]. split; [exact ltm_prev|]. split; [exact ltm_seek|].
  split; [exact ltm_first|]. split; [exact ltm_last|]. split; [exact ltm_ahead|]. split; [exact ltm_behind|]. split; [exact LTm_transfer|]. split; [exact LTm_new|exact LTm_kids].
Qed.

(* the PruningCursor over the merge of late-tolerant children is the reference cursor over the
   entries of O visible at t *)
Theorem merge_prune_sim fuel : Z.of_nat fuel > (2 * n + 2) * (Z.of_nat Bnd_m + 2) ->
  sim (Pruning.pruning (merging c) fuel t) (prune_spec t O) (PR (merging c) t O LTm).
Proof.
  intros Hfuel.
  exact (pruningLT_sim (merging c) fuel t O HsO HoldO LTm ahead_m behind_m Bnd_m
           ltm_at ltm_gap ltm_next ltm_prev ltm_seek ltm_first ltm_last ltm_ahead ltm_behind Hfuel).
Qed.
End MergeK.
