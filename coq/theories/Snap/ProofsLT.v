(* Snap/ProofsLT.v — the pruning theorem over a LATE-TOLERANT child.
   The child cursor (in the store: the MergingCursor over a memtable that grows) is not an exact
   refinement of any list once entries newer than the read timestamp t are inserted under it;
   what it keeps is: it shows every entry of O (the entries not newer than t, fixed) in order and
   in both directions, possibly with entries NEWER than t in between ("late" entries).  This file
   states that interface (`LT`: a logical position in O, at an entry or in a gap) and proves that a
   PruningCursor at t over such a child is an exact refinement of prune_spec t O. *)
From Coq Require Import NArith ZArith List Bool Lia.
From Blue Require Import Cursor.Iface Cursor.Ref Cursor.Pruning Cursor.Spec Cursor.Proofs_Order Cursor.Proofs_Ref
  Cursor.Proofs_Spec Cursor.Proofs_Pruning.
Import ListNotations.
Local Open Scope Z_scope.

Inductive lpos := LAt (j : Z) | LGap (g : Z).
(* index of the first entry of O at or after the position / strictly after it *)
Definition nu (p : lpos) : Z := match p with LAt j => j | LGap g => g end.
Definition nu_next (p : lpos) : Z := match p with LAt j => j + 1 | LGap g => g end.
(* index of the last entry of O at or before the position *)
Definition rho (p : lpos) : Z := match p with LAt j => j | LGap g => g - 1 end.
Definition nxt (p p' : lpos) : Prop :=
  match p with LAt j => p' = LGap (j + 1) \/ p' = LAt (j + 1) | LGap g => p' = LGap g \/ p' = LAt g end.
Definition prv (p p' : lpos) : Prop :=
  match p with LAt j => p' = LGap j \/ p' = LAt (j - 1) | LGap g => p' = LGap g \/ p' = LAt (g - 1) end.
(* positions in order: gap g, entry g, gap g+1, .. *)
Definition qz (p : lpos) : Z := match p with LAt j => 2 * j + 1 | LGap g => 2 * g end.
Lemma nu_rho p : rho p <= nu p <= rho p + 1.
Proof. destruct p; cbn; lia. Qed.
Lemma prv_qz p p' : prv p p' -> qz p' <= qz p /\ rho p' = nu p - 1 /\ (forall j, p = LAt j -> qz p' < qz p).
Proof.
  destruct p as [j|g]; cbn [prv]; intros [-> | ->]; cbn [qz rho nu]; (split; [lia|split; [lia|]]); intros j0 E; try discriminate; injection E as <-; lia.
Qed.

Section LT.
Context {S : Type} (c : cursor S) (fuel : nat) (t : N) (O : list entry).
Hypothesis HsO : sorted O.
Hypothesis HoldO : forall e, In e O -> (ets e <= t)%N.

Notation n := (len O).
Notation K i := (ek (at_ O i)).
Notation T i := (ets (at_ O i)).
Notation V := (visible t O).
Notation PS := (prune_spec t O).
Notation M := (len (prune_spec t O)).

(* the interface.  `LT s fwd p`: state s of the child stands at logical position p; fwd tells in
   which direction it was last moved (the merge's comparator). *)
Variable LT : S -> bool -> lpos -> Prop.
Variables ahead behind : S -> nat.
Variable Bnd : nat.

Hypothesis lt_at : forall s md j, LT s md (LAt j) -> 0 <= j < n /\ c_kv c s = Some (at_ O j).
Hypothesis lt_gap : forall s md g, LT s md (LGap g) -> 0 <= g <= n /\
  match c_kv c s with
  | None => True
  | Some x => (t < ets x)%N /\ (md = false -> 0 < g -> elt (at_ O (g - 1)) x)
  end.
Hypothesis lt_next : forall s md p, LT s md p -> exists p', LT (c_next c s) true p' /\ nxt p p' /\
  (c_kv c (c_next c s) = None -> p' = LGap n).
Hypothesis lt_prev : forall s md p, LT s md p -> exists p', LT (c_prev c s) false p' /\ prv p p' /\
  (c_kv c (c_prev c s) = None -> p' = LGap 0) /\
  (md = false -> forall x y, c_kv c s = Some x -> c_kv c (c_prev c s) = Some y -> elt y x).
Hypothesis lt_seek : forall s md p k, LT s md p -> exists p', LT (c_seek c k s) true p' /\
  nu p' = count (below k) O /\ (c_kv c (c_seek c k s) = None -> p' = LGap n).
Hypothesis lt_first : forall s md p, LT s md p -> LT (c_first c s) true (LGap 0) /\ c_kv c (c_first c s) = None.
Hypothesis lt_last : forall s md p, LT s md p -> LT (c_last c s) false (LGap n) /\ c_kv c (c_last c s) = None.
Hypothesis lt_ahead : forall s md p, LT s md p -> (ahead s <= Bnd + 1)%nat /\
  (c_kv c (c_next c s) = None \/ (ahead (c_next c s) < ahead s)%nat).
Hypothesis lt_behind : forall s md p, LT s md p -> (behind s <= Bnd + 1)%nat /\
  (c_kv c (c_prev c s) = None \/ (behind (c_prev c s) < behind s)%nat).

Lemma at_old i : 0 <= i < n -> (T i <= t)%N.
Proof. intros Hi. apply HoldO. eapply ent_In. apply ent_at. exact Hi. Qed.

Lemma lt_range s md p : LT s md p -> 0 <= nu p <= n.
Proof. destruct p as [j|g]; intros H; cbn [nu]; [destruct (lt_at _ _ _ H); lia|destruct (lt_gap _ _ _ H); lia]. Qed.

Lemma lt_rho_lo s md p : LT s md p -> -1 <= rho p.
Proof. destruct p as [j|g]; intros H; cbn [rho]; [destruct (lt_at _ _ _ H)|destruct (lt_gap _ _ _ H)]; lia. Qed.

(* ---------------------------------------------------------------- the forward scans *)
(* stops on the first visible entry of O at or after index j, or at the end *)
Definition scan_postLT (j : Z) (st : pstate S) : Prop :=
  p_fail st = None /\ exists md p, LT (p_cur st) md p /\
    ((exists j', p = LAt j' /\ j <= j' /\ rank V O j' = rank V O j /\ V (at_ O j') = true /\ p_skip st = Some (K j')) \/
     (p = LGap n /\ c_kv c (p_cur st) = None /\ rank V O n = rank V O j)).

Lemma rank_skip j : 0 <= j < n -> V (at_ O j) = false -> rank V O (j + 1) = rank V O j.
Proof. intros Hj Hv. rewrite (rank_step V O j (at_ O j)) by (now apply ent_at). rewrite Hv. lia. Qed.

(* one examination of the current entry, as both forward loops make it *)
Lemma seek_loopLT : forall m cur md p sk, LT cur md p -> skip_inv t O (nu p) sk ->
  ((m > ahead cur)%nat \/ c_kv c cur = None) -> (c_kv c cur = None -> p = LGap n) ->
  scan_postLT (nu p) (p_seek_loop c t m (mkP cur sk None)).
Proof.
  induction m as [|m IH]; intros cur md p sk HL Hinv Hm Hnone.
  - cbn [p_seek_loop p_cur]. destruct (c_kv c cur) as [e|] eqn:Ekv.
    + exfalso. destruct Hm as [Hm|Hm]; [lia|discriminate].
    + split; [reflexivity|]. exists md, p. split; [exact HL|]. right. rewrite (Hnone eq_refl). cbn [nu p_cur]. auto.
  - cbn [p_seek_loop p_cur p_skip p_fail]. destruct (c_kv c cur) as [e|] eqn:Ekv.
    2:{ split; [reflexivity|]. exists md, p. split; [exact HL|]. right. rewrite (Hnone eq_refl). cbn [nu p_cur]. auto. }
    destruct (lt_next _ _ _ HL) as [p' [HL' [Hn Hnn]]].
    assert ((m > ahead (c_next c cur))%nat \/ c_kv c (c_next c cur) = None) as Hm'.
    { destruct (lt_ahead _ _ _ HL) as [_ [H|H]]; [now right|left]. destruct Hm as [Hm|Hm]; [lia|congruence]. }
    destruct p as [j|g].
    + (* an entry of O *)
      destruct (lt_at _ _ _ HL) as [Hj Hk]. rewrite Hk in Ekv. injection Ekv as <-. cbn [nu] in *.
      pose proof (examine_spec 0%nat t O HsO j sk Hj Hinv) as Hex. cbv zeta in Hex.
      assert (nu p' = j + 1) as Hnu by (destruct Hn as [-> | ->]; reflexivity).
      destruct (N.leb (T j) t && is_none (ev (at_ O j))).
      * destruct Hex as [Hv Hinv']. unfold set_skip_key. cbn [p_cur]. rewrite Hk.
        rewrite <- Hnu in Hinv'. destruct (IH _ _ _ _ HL' Hinv' Hm' Hnn) as [Hf [md2 [p2 [HL2 Hend]]]].
        split; [exact Hf|]. exists md2, p2. split; [exact HL2|]. rewrite Hnu in Hend.
        destruct Hend as [[j' [-> [Hjj [Hrk Hrest]]]]|[-> [Hkv Hrk]]].
        -- left. exists j'. split; [reflexivity|]. split; [lia|]. split; [rewrite Hrk; now apply rank_skip|exact Hrest].
        -- right. split; [reflexivity|]. split; [exact Hkv|]. rewrite Hrk. now apply rank_skip.
      * destruct (N.leb (T j) t && skip_differs sk (K j)).
        -- split; [reflexivity|]. exists md, (LAt j). cbn [p_cur p_skip]. split; [exact HL|]. left. exists j.
           unfold set_skip_key. rewrite Hk. repeat split; auto; lia.
        -- destruct Hex as [Hv Hinv']. rewrite <- Hnu in Hinv'.
           destruct (IH _ _ _ _ HL' Hinv' Hm' Hnn) as [Hf [md2 [p2 [HL2 Hend]]]].
           split; [exact Hf|]. exists md2, p2. split; [exact HL2|]. rewrite Hnu in Hend.
           destruct Hend as [[j' [-> [Hjj [Hrk Hrest]]]]|[-> [Hkv Hrk]]].
           ++ left. exists j'. split; [reflexivity|]. split; [lia|]. split; [rewrite Hrk; now apply rank_skip|exact Hrest].
           ++ right. split; [reflexivity|]. split; [exact Hkv|]. rewrite Hrk. now apply rank_skip.
    + (* a late entry: neither test looks at it *)
      destruct (lt_gap _ _ _ HL) as [Hg Hx]. rewrite Ekv in Hx. destruct Hx as [Hlate _]. cbn [nu] in *.
      assert (N.leb (ets e) t = false) as -> by (apply N.leb_gt; exact Hlate). cbn [andb].
      assert (nu p' = g) as Hnu by (destruct Hn as [-> | ->]; reflexivity).
      rewrite <- Hnu in Hinv. pose proof (IH _ _ _ _ HL' Hinv Hm' Hnn) as H. now rewrite Hnu in H.
Qed.

Lemma next_loopLT : forall m cur md p sk, LT cur md p -> skip_inv t O (nu_next p) sk -> (m > ahead cur)%nat ->
  scan_postLT (nu_next p) (p_next_loop c t m (mkP cur sk None)).
Proof.
  induction m as [|m IH]; intros cur md p sk HL Hinv Hm; [lia|].
  cbn [p_next_loop p_cur p_skip p_fail].
  destruct (lt_next _ _ _ HL) as [p' [HL' [Hn Hnn]]].
  assert (nu p' = nu_next p) as Hnu by (destruct p; destruct Hn as [-> | ->]; reflexivity).
  destruct (c_kv c (c_next c cur)) as [e|] eqn:Ekv.
  2:{ split; [reflexivity|]. exists true, p'. cbn [p_cur]. split; [exact HL'|]. right. rewrite (Hnn eq_refl) in *. cbn [nu] in Hnu. rewrite <- Hnu. auto. }
  assert ((m > ahead (c_next c cur))%nat) as Hm'.
  { destruct (lt_ahead _ _ _ HL) as [_ [H|H]]; [congruence|lia]. }
  destruct p' as [j|g].
  - destruct (lt_at _ _ _ HL') as [Hj Hk]. rewrite Hk in Ekv. injection Ekv as <-. cbn [nu] in Hnu. rewrite <- Hnu in *.
    pose proof (examine_spec 0%nat t O HsO j sk Hj Hinv) as Hex. cbv zeta in Hex.
    destruct (N.leb (T j) t && is_none (ev (at_ O j))).
    + destruct Hex as [Hv Hinv']. unfold set_skip_key. rewrite Hk.
      destruct (IH _ _ (LAt j) _ HL' Hinv' Hm') as [Hf [md2 [p2 [HL2 Hend]]]]. cbn [nu_next] in Hend.
      split; [exact Hf|]. exists md2, p2. split; [exact HL2|].
      destruct Hend as [[j' [-> [Hjj [Hrk Hrest]]]]|[-> [Hkv Hrk]]].
      * left. exists j'. split; [reflexivity|]. split; [lia|]. split; [rewrite Hrk; now apply rank_skip|exact Hrest].
      * right. split; [reflexivity|]. split; [exact Hkv|]. rewrite Hrk. now apply rank_skip.
    + destruct (N.leb (T j) t && skip_differs sk (K j)).
      * split; [reflexivity|]. exists true, (LAt j). cbn [p_cur p_skip]. split; [exact HL'|]. left. exists j.
        unfold set_skip_key. rewrite Hk. repeat split; auto; lia.
      * destruct Hex as [Hv Hinv'].
        destruct (IH _ _ (LAt j) _ HL' Hinv' Hm') as [Hf [md2 [p2 [HL2 Hend]]]]. cbn [nu_next] in Hend.
        split; [exact Hf|]. exists md2, p2. split; [exact HL2|].
        destruct Hend as [[j' [-> [Hjj [Hrk Hrest]]]]|[-> [Hkv Hrk]]].
        -- left. exists j'. split; [reflexivity|]. split; [lia|]. split; [rewrite Hrk; now apply rank_skip|exact Hrest].
        -- right. split; [reflexivity|]. split; [exact Hkv|]. rewrite Hrk. now apply rank_skip.
  - destruct (lt_gap _ _ _ HL') as [Hg Hx]. rewrite Ekv in Hx. destruct Hx as [Hlate _]. cbn [nu] in Hnu.
    assert (N.leb (ets e) t = false) as -> by (apply N.leb_gt; exact Hlate). cbn [andb].
    rewrite <- Hnu in *. exact (IH _ _ (LGap g) _ HL' Hinv Hm').
Qed.

(* ---------------------------------------------------------------- prev: the three inner loops *)
(* while skip_key is set: step back over the entries carrying that key *)
Lemma prev_skipLT : forall m cur p s, LT cur false p -> (c_kv c cur = None -> p = LGap 0) ->
  ((m > behind cur)%nat \/ c_kv c cur = None) ->
  exists cur' p', LT cur' false p' /\ rho p' <= rho p /\ qz p' <= qz p /\ (forall i, rho p' < i <= rho p -> K i = s) /\
    ((c_kv c cur' = None /\ p' = LGap 0 /\ prev_skip_loop c m cur (Some s) = Ret (cur', None)) \/
     (exists e, c_kv c cur' = Some e /\ ek e <> s /\ (behind cur' <= behind cur)%nat /\ prev_skip_loop c m cur (Some s) = Go (cur', None))).
Proof.
  induction m as [|m IH]; intros cur p s HL Hnone Hm.
  - cbn [prev_skip_loop]. destruct (c_kv c cur) as [e|] eqn:Ekv.
    + destruct Hm as [Hm|Hm]; [lia|discriminate].
    + exists cur, p. split; [exact HL|]. split; [lia|]. split; [lia|]. split; [intros; lia|]. left. rewrite (Hnone eq_refl) in *. auto.
  - cbn [prev_skip_loop]. destruct (c_kv c cur) as [e|] eqn:Ekv.
    2:{ exists cur, p. split; [exact HL|]. split; [lia|]. split; [lia|]. split; [intros; lia|]. left. rewrite (Hnone eq_refl) in *. auto. }
    destruct (keqb_spec s (ek e)) as [Heq|Hneq]; cbn [negb].
    2:{ exists cur, p. split; [exact HL|]. split; [lia|]. split; [lia|]. split; [intros; lia|]. right. exists e. rewrite Ekv. repeat split; try congruence; lia. }
    destruct (lt_prev _ _ _ HL) as [p1 [HL1 [Hp [Hn1 _]]]].
    assert ((m > behind (c_prev c cur))%nat \/ c_kv c (c_prev c cur) = None) as Hm1.
    { destruct (lt_behind _ _ _ HL) as [_ [H|H]]; [now right|left]. destruct Hm as [Hm|Hm]; [lia|congruence]. }
    destruct (IH _ _ s HL1 Hn1 Hm1) as [cur' [p' [HL' [Hr [Hq [Hall Hres]]]]]].
    exists cur', p'. split; [exact HL'|].
    destruct (prv_qz _ _ Hp) as [Hq1 _].
    assert (rho p1 <= rho p /\ forall i, rho p1 < i <= rho p -> K i = s) as [Hr1 Hk1].
    { destruct p as [j|g].
      - destruct (lt_at _ _ _ HL) as [Hj Hk]. rewrite Hk in Ekv. injection Ekv as <-.
        destruct Hp as [-> | ->]; cbn [rho]; (split; [lia|]); intros i Hi; replace i with j by lia; congruence.
      - destruct Hp as [-> | ->]; cbn [rho]; (split; [lia|]); intros i Hi; lia. }
    split; [lia|]. split; [lia|]. split.
    + intros i Hi. destruct (Z_le_gt_dec i (rho p1)) as [Hle|Hgt]; [apply Hall; lia|apply Hk1; lia].
    + destruct Hres as [Hres|[e' [He' [Hne' [Hb Hres]]]]]; [left; exact Hres|right]. exists e'. repeat split; auto.
      destruct (lt_behind _ _ _ HL) as [_ [H|H]]; [|lia].
      (* the step back showed nothing: then the loop has returned at once, with no entry *)
      exfalso. destruct m; cbn [prev_skip_loop] in Hres; rewrite H in Hres; discriminate.
Qed.

(* step back over the versions of the target key that are not newer than t *)
Lemma prev_backLT : forall m cur j, LT cur false (LAt j) -> (m > behind cur)%nat ->
  exists cur' p', prev_back_loop c t m (K j) cur = Some cur' /\ LT cur' false p' /\ -1 <= rho p' < j /\
    (forall i, rho p' < i <= j -> K i = K j) /\ (rho p' = -1 \/ K (rho p') <> K j) /\
    (c_kv c cur' = None -> p' = LGap 0).
Proof.
  induction m as [|m IH]; intros cur j HL Hm; [lia|].
  cbn [prev_back_loop]. destruct (lt_at _ _ _ HL) as [Hj Hk].
  destruct (lt_prev _ _ _ HL) as [p1 [HL1 [Hp [Hn1 Hmono]]]]. cbn [prv] in Hp.
  destruct (c_kv c (c_prev c cur)) as [e|] eqn:Ekv.
  2:{ exists (c_prev c cur), p1. split; [reflexivity|]. split; [exact HL1|]. rewrite (Hn1 eq_refl) in *.
      destruct Hp as [Hp|Hp]; [injection Hp as Hp|discriminate]. cbn [rho]. split; [lia|]. split; [intros i Hi; replace i with j by lia; reflexivity|].
      split; [left; lia|auto]. }
  destruct Hp as [-> | ->].
  - (* a late entry just before O[j]: the loop stops here, and O[j] is the newest version <= t *)
    destruct (lt_gap _ _ _ HL1) as [Hg Hx]. rewrite Ekv in Hx. destruct Hx as [Hlate Hbound].
    assert (N.ltb t (ets e) = true) as -> by (apply N.ltb_lt; exact Hlate). cbn [orb].
    exists (c_prev c cur), (LGap j). split; [reflexivity|]. split; [exact HL1|]. cbn [rho]. split; [lia|].
    split; [intros i Hi; replace i with j by lia; reflexivity|]. split; [|intros H; rewrite Ekv in H; discriminate].
    destruct (Z.eq_dec j 0) as [->|Hne]; [left; lia|right].
    intros Heq. specialize (Hbound eq_refl ltac:(lia)). specialize (Hmono eq_refl _ e Hk eq_refl).
    assert (ek e = K j).
    { apply elt_kle in Hbound. apply elt_kle in Hmono. rewrite Heq in Hbound. korder. }
    assert (ets e < T (j - 1))%N by (apply (elt_same_key (at_ O (j - 1)) e); [congruence|exact Hbound]).
    pose proof (at_old (j - 1) ltac:(lia)). lia.
  - destruct (lt_at _ _ _ HL1) as [Hj1 Hk1]. rewrite Hk1 in Ekv. injection Ekv as <-.
    assert (N.ltb t (T (j - 1)) = false) as -> by (apply N.ltb_ge; apply at_old; lia). cbn [orb].
    destruct (keqb_spec (K (j - 1)) (K j)) as [Heq|Hneq]; cbn [negb].
    + assert ((m > behind (c_prev c cur))%nat) as Hm1.
      { destruct (lt_behind _ _ _ HL) as [_ [H|H]]; [congruence|lia]. }
      destruct (IH _ _ HL1 Hm1) as [cur' [p' [E [HL' [Hr [Hall [Hend Hnn]]]]]]]. rewrite Heq in E.
      exists cur', p'. split; [exact E|]. split; [exact HL'|]. split; [lia|]. split; [|split; [rewrite <- Heq; exact Hend|exact Hnn]].
      intros i Hi. destruct (Z.eq_dec i j) as [->|]; [reflexivity|]. rewrite <- Heq. apply Hall. lia.
    + exists (c_prev c cur), (LAt (j - 1)). split; [reflexivity|]. split; [exact HL1|]. cbn [rho]. split; [lia|].
      split; [intros i Hi; replace i with j by lia; reflexivity|]. split; [right; exact Hneq|]. intros H. rewrite Hk1 in H. discriminate.
Qed.

(* walk forward to the entry of O at index mm, over late entries and entries of other keys *)
Lemma prev_fwdLT : forall m cur md p mm tg, LT cur md p -> nu p <= mm < n -> K mm = tg ->
  (forall i, nu p <= i < mm -> K i <> tg) -> ((m > ahead cur)%nat \/ p = LAt mm) -> (c_kv c cur = None -> p = LGap n) ->
  exists cur' md', prev_fwd_loop c t m tg cur = Some cur' /\ LT cur' md' (LAt mm).
Proof.
  induction m as [|m IH]; intros cur md p mm tg HL Hmm Hk Hother Hm Hnone.
  - destruct Hm as [Hm|Hm]; [lia|]. subst p. cbn [prev_fwd_loop]. destruct (lt_at _ _ _ HL) as [Hj Hkv]. rewrite Hkv.
    replace (N.leb (T mm) t) with true by (symmetry; apply N.leb_le; now apply at_old).
    destruct (keqb_spec (K mm) tg); [|congruence]. cbn [andb]. eauto.
  - cbn [prev_fwd_loop]. destruct p as [j|g].
    + destruct (lt_at _ _ _ HL) as [Hj Hkv]. rewrite Hkv. cbn [nu] in *.
      replace (N.leb (T j) t) with true by (symmetry; apply N.leb_le; now apply at_old). cbn [andb].
      destruct (Z.eq_dec j mm) as [->|Hne].
      * destruct (keqb_spec (K mm) tg); [|congruence]. eauto.
      * destruct (keqb_spec (K j) tg) as [E|_]; [exfalso; apply (Hother j); [lia|exact E]|].
        destruct (lt_next _ _ _ HL) as [p' [HL' [Hn Hend0]]]. cbn [nxt] in Hn.
        assert (nu p' = j + 1) as Hnu by (destruct Hn as [-> | ->]; reflexivity).
        apply (IH _ _ p' mm tg HL'); [lia|exact Hk|intros i Hi; apply Hother; lia| |exact Hend0].
        destruct (lt_ahead _ _ _ HL) as [_ [H|H]].
        -- (* the stream cannot end before O[mm] *)
           exfalso. destruct Hn as [-> | ->].
           ++ destruct (lt_next _ _ _ HL) as [p2 [HL2 [Hn2 Hend]]]. specialize (Hend H). subst p2. cbn [nxt] in Hn2.
              destruct Hn2 as [E|E]; [injection E as E; lia|discriminate].
           ++ destruct (lt_at _ _ _ HL') as [_ Hkv']. congruence.
        -- left. destruct Hm as [Hm|Hm]; [lia|]. injection Hm as Hm. lia.
    + destruct (lt_gap _ _ _ HL) as [Hg Hx]. cbn [nu] in *. destruct (c_kv c cur) as [e|] eqn:Ekv.
      * destruct Hx as [Hlate _]. assert (N.leb (ets e) t = false) as -> by (apply N.leb_gt; exact Hlate). cbn [andb].
        destruct (lt_next _ _ _ HL) as [p' [HL' [Hn Hend]]]. cbn [nxt] in Hn.
        assert (nu p' = g) as Hnu by (destruct Hn as [-> | ->]; reflexivity).
        apply (IH _ _ p' mm tg HL'); [lia|exact Hk|intros i Hi; apply Hother; lia| |exact Hend].
        destruct (lt_ahead _ _ _ HL) as [_ [H|H]].
        -- exfalso. specialize (Hend H). subst p'. cbn [nu] in Hnu. lia.
        -- left. destruct Hm as [Hm|Hm]; [lia|discriminate].
      * (* showing nothing while entries of O lie ahead: excluded *)
        exfalso. specialize (Hnone eq_refl). injection Hnone as Hg'. lia.
Qed.

(* ---------------------------------------------------------------- prev: the outer loop *)
Hypothesis Hfuel : (Z.of_nat fuel > (2 * n + 2) * (Z.of_nat Bnd + 2)).

Definition prev_invLT (cur : S) (md : bool) (p : lpos) (sk : option key) : Prop :=
  (c_kv c cur = None /\ sk = None) \/
  (exists j, p = LAt j /\ sk = Some (K j) /\ forall i, 0 <= i < j -> K i = K j -> V (at_ O i) = false) \/
  (exists g x, p = LGap g /\ md = false /\ c_kv c cur = Some x /\ sk = Some (ek x)).

(* stops on the last visible entry of O before index j, or at the head *)
Definition prev_postLT (j : Z) (st : pstate S) : Prop :=
  p_fail st = None /\ exists md p, LT (p_cur st) md p /\
   ((p = LGap 0 /\ c_kv c (p_cur st) = None /\ p_skip st = None /\ rank V O 0 = rank V O j) \/
    (exists p', p = LAt p' /\ V (at_ O p') = true /\ p_skip st = Some (K p') /\ rank V O (p' + 1) = rank V O j)).

Definition Wz (cur : S) (md : bool) (p : lpos) : Z :=
  qz p * (Z.of_nat Bnd + 2) + (if md then Z.of_nat Bnd + 1 else Z.of_nat (behind cur)).

Lemma rank_invis a b : 0 <= a -> a <= b -> b <= n -> (forall i, a <= i < b -> V (at_ O i) = false) -> rank V O a = rank V O b.
Proof. intros. symmetry. now apply (rank_invisible 0%nat t O). Qed.

Lemma fuel_inner : (fuel > Bnd + 1)%nat.
Proof. pose proof (len_nonneg O). nia. Qed.

Lemma prev_loopLT : forall m cur md p sk, LT cur md p -> prev_invLT cur md p sk -> Z.of_nat m > Wz cur md p ->
  prev_postLT (nu p) (p_prev_loop c fuel t m (mkP cur sk None)).
Proof.
  pose proof fuel_inner as Hfi.
  induction m as [|m IH]; intros cur md p sk HL Hinv Hm.
  { exfalso. unfold Wz in Hm. pose proof (lt_range _ _ _ HL). assert (0 <= qz p) by (destruct p; cbn [qz nu] in *; lia).
    destruct md; nia. }
  cbn [p_prev_loop p_cur p_skip p_fail].
  destruct (lt_prev _ _ _ HL) as [p1 [HL1 [Hp [Hn1 _]]]].
  destruct (prv_qz _ _ Hp) as [Hq1 [Hrho1 Hq1s]].
  pose proof (lt_range _ _ _ HL) as Hnup.
  destruct (lt_behind _ _ _ HL) as [Hb0 Hb1].
  (* after the skip loop: at p2, everything of O strictly between is invisible *)
  assert (exists cur2 p2, LT cur2 false p2 /\ qz p2 <= qz p1 /\ rho p2 <= rho p1 /\
            (forall i, rho p2 < i < nu p -> V (at_ O i) = false) /\
            ((c_kv c cur2 = None /\ p2 = LGap 0 /\
              (prev_skip_loop c fuel (c_prev c cur) sk = Ret (cur2, None) \/ prev_skip_loop c fuel (c_prev c cur) sk = Go (cur2, None))) \/
             (exists e, c_kv c cur2 = Some e /\ (behind cur2 <= behind (c_prev c cur))%nat /\
                        prev_skip_loop c fuel (c_prev c cur) sk = Go (cur2, None)))) as Hskip.
  { destruct sk as [s|].
    - assert ((fuel > behind (c_prev c cur))%nat \/ c_kv c (c_prev c cur) = None) as Hf1.
      { destruct (lt_behind _ _ _ HL1) as [Hb _]. left. lia. }
      destruct (prev_skipLT fuel _ _ s HL1 Hn1 Hf1) as [cur2 [p2 [HL2 [Hr [Hq [Hall Hres]]]]]].
      exists cur2, p2. split; [exact HL2|]. split; [exact Hq|]. split; [exact Hr|]. split.
      + intros i Hi. assert (K i = s) as Hki by (apply Hall; lia).
        destruct Hinv as [[_ E]|[[j [-> [E Hearlier]]]|[g [x [-> [Emd [Ekx E]]]]]]]; [discriminate| |].
        * injection E as ->. cbn [nu] in *. apply Hearlier; [pose proof (lt_rho_lo _ _ _ HL2); lia|exact Hki].
        * injection E as ->. exfalso. cbn [nu] in *. destruct (lt_gap _ _ _ HL) as [Hg Hx]. rewrite Ekx in Hx. destruct Hx as [Hlate Hbound].
          assert (0 <= i < g) by (pose proof (lt_rho_lo _ _ _ HL2); lia).
          specialize (Hbound Emd ltac:(lia)).
          assert (ele (at_ O i) (at_ O (g - 1))) as Hle by (apply (sorted_ent_le O HsO i (g - 1)); try (apply ent_at); lia).
          assert (elt (at_ O i) x) as Hlt by eorder.
          assert (ets x < T i)%N by (apply (elt_same_key (at_ O i) x); [exact Hki|exact Hlt]).
          pose proof (at_old i ltac:(lia)). lia.
      + destruct Hres as [[A [B C]]|[e [A [_ [B C]]]]]; [left; auto|right; exists e; auto].
    - exists (c_prev c cur), p1. split; [exact HL1|]. split; [lia|]. split; [lia|]. split; [intros i Hi; lia|].
      rewrite prev_skip_none. destruct (c_kv c (c_prev c cur)) as [e|] eqn:Ekv; [right; exists e; auto|left; auto]. }
  destruct Hskip as [cur2 [p2 [HL2 [Hq2 [Hr2 [Hinvis Hres]]]]]].
  pose proof (lt_rho_lo _ _ _ HL2) as Hrho2lo.
  destruct Hres as [[Hkv2 [-> Hres]]|[e [Hkv2 [Hb2 Hres]]]].
  - (* ran off the beginning *)
    assert (prev_postLT (nu p) (mkP cur2 None None)) as Hdone.
    { split; [reflexivity|]. exists false, (LGap 0). cbn [p_cur p_skip]. split; [exact HL2|]. left. repeat split; auto.
      apply rank_invis; try lia. intros i Hi. apply Hinvis. cbn [rho]. lia. }
    destruct Hres as [ -> | -> ]; [exact Hdone|]. rewrite Hkv2. exact Hdone.
  - rewrite Hres, Hkv2. destruct p2 as [j2|g2].
    + (* an entry of O: find the newest version of its key that is not newer than t *)
      destruct (lt_at _ _ _ HL2) as [Hj2 Hk2]. rewrite Hk2 in Hkv2. injection Hkv2 as <-. cbn [rho qz] in *.
      assert (N.ltb t (T j2) = false) as -> by (apply N.ltb_ge; now apply at_old).
      assert ((fuel > behind cur2)%nat) as Hfb by (destruct (lt_behind _ _ _ HL2); lia).
      destruct (prev_backLT fuel cur2 j2 HL2 Hfb) as [cur3 [p3 [E3 [HL3 [Hr3 [Hall3 [Hend3 Hn3]]]]]]]. rewrite E3.
      set (mm := rho p3 + 1). assert (0 <= mm <= j2) as Hmm by (unfold mm; lia).
      assert (K mm = K j2) as Hkmm by (apply Hall3; unfold mm; lia).
      assert (exists cur5 md5, prev_fwd_loop c t fuel (K j2) (if has_key c cur3 then cur3 else c_next c cur3) = Some cur5 /\ LT cur5 md5 (LAt mm)) as [cur5 [md5 [E5 HL5]]].
      { unfold has_key. destruct (c_kv c cur3) as [e3|] eqn:Ekv3.
        - apply (prev_fwdLT fuel cur3 false p3 mm (K j2) HL3); [destruct (nu_rho p3); unfold mm; lia|exact Hkmm| | |intros H; rewrite Ekv3 in H; discriminate].
          + intros i Hi. destruct (nu_rho p3). assert (i = rho p3) as -> by (unfold mm in Hi; lia).
            pose proof (lt_range _ _ _ HL3). destruct Hend3 as [E|E]; [lia|exact E].
          + left. destruct (lt_ahead _ _ _ HL3). lia.
        - specialize (Hn3 eq_refl). subst p3. cbn [rho] in *.
          destruct (lt_next _ _ _ HL3) as [p4 [HL4 [Hn4 Hend4]]]. cbn [nxt] in Hn4.
          assert (nu p4 = 0) as Hnu4 by (destruct Hn4 as [-> | ->]; reflexivity).
          apply (prev_fwdLT fuel _ true p4 mm (K j2) HL4); [unfold mm; lia|exact Hkmm|intros i Hi; unfold mm in Hi; lia| |exact Hend4].
          left. destruct (lt_ahead _ _ _ HL4). lia. }
      rewrite E5. destruct (lt_at _ _ _ HL5) as [_ Hk5]. rewrite Hk5.
      replace (N.leb (T mm) t) with true by (symmetry; apply N.leb_le; apply at_old; lia).
      destruct (keqb_spec (K mm) (K j2)) as [_|]; [|congruence]. cbn [andb negb].
      assert (head t O mm) as Hhead.
      { split; [apply at_old; lia|]. destruct (Z.eq_dec mm 0) as [|Hne0]; [now left|right]. left.
        replace (mm - 1) with (rho p3) by (unfold mm; lia). destruct Hend3 as [E|E]; [unfold mm in Hne0; lia|congruence]. }
      assert (forall i, mm < i <= j2 -> V (at_ O i) = false) as Hmid.
      { intros i Hi. destruct (V (at_ O i)) eqn:Hv; [exfalso|reflexivity].
        apply (visible_head 0%nat t O HsO i ltac:(lia)) in Hv. destruct Hv as [_ [->|[Hne|Hnew]]]; [lia| |].
        - apply Hne. rewrite (Hall3 (i - 1)) by (unfold mm in *; lia). rewrite (Hall3 i) by (unfold mm in *; lia). reflexivity.
        - pose proof (at_old (i - 1) ltac:(lia)). lia. }
      assert (forall i, mm < i < nu p -> V (at_ O i) = false) as Hbetween.
      { intros i Hi. destruct (Z_le_gt_dec i j2); [apply Hmid; lia|apply Hinvis; lia]. }
      unfold set_skip_key. rewrite Hk5.
      destruct (ev (at_ O mm)) as [v|] eqn:Hev.
      * (* a value: the answer *)
        split; [reflexivity|]. exists md5, (LAt mm). cbn [p_cur p_skip]. split; [exact HL5|]. right. exists mm.
        split; [reflexivity|]. split; [apply (visible_iff 0%nat t O HsO mm ltac:(lia)); split; [exact Hhead|congruence]|].
        split; [reflexivity|]. apply rank_invis; try lia. intros i Hi. apply Hbetween. lia.
      * (* a tombstone: skip the key, continue *)
        assert (prev_postLT (nu (LAt mm)) (p_prev_loop c fuel t m (mkP cur5 (Some (K mm)) None))) as Hrec.
        { apply (IH cur5 md5 (LAt mm)); [exact HL5| |].
          - right. left. exists mm. split; [reflexivity|]. split; [reflexivity|].
            intros i Hi Hk. apply (head_earlier_invisible 0%nat t O HsO mm i); auto; lia.
          - unfold Wz in *. cbn [qz].
            assert (2 * mm + 1 <= qz p - 1).
            { destruct p as [j|g]; cbn [qz] in *; [specialize (Hq1s j eq_refl); lia|lia]. }
            assert (0 <= Z.of_nat (behind cur5) <= Z.of_nat Bnd + 1) by (destruct (lt_behind _ _ _ HL5); lia).
            destruct md; destruct md5; nia. }
        cbn [nu] in Hrec. destruct Hrec as [Hf [md6 [p6 [HL6 Hend6]]]]. split; [exact Hf|]. exists md6, p6. split; [exact HL6|].
        assert (rank V O mm = rank V O (nu p)) as Hrk.
        { apply rank_invis; try lia. intros i Hi. destruct (Z.eq_dec i mm) as [->|]; [|apply Hbetween; lia].
          destruct (V (at_ O mm)) eqn:Hv; [exfalso|reflexivity]. apply (visible_iff 0%nat t O HsO mm ltac:(lia)) in Hv. tauto. }
        destruct Hend6 as [[A [B [C D]]]|[p' [A [B [C D]]]]]; [left; repeat split; auto; congruence|right; exists p'; repeat split; auto; congruence].
    + (* a late entry: skip its key, continue *)
      destruct (lt_gap _ _ _ HL2) as [Hg2 Hx]. rewrite Hkv2 in Hx. destruct Hx as [Hlate _]. cbn [rho qz] in *.
      assert (N.ltb t (ets e) = true) as -> by (apply N.ltb_lt; exact Hlate).
      unfold set_skip_key. rewrite Hkv2.
      assert (prev_postLT (nu (LGap g2)) (p_prev_loop c fuel t m (mkP cur2 (Some (ek e)) None))) as Hrec.
      { apply (IH cur2 false (LGap g2)); [exact HL2| |].
        - right. right. exists g2, e. auto.
        - unfold Wz in *. cbn [qz].
          assert (Z.of_nat (behind cur2) <= Z.of_nat (behind (c_prev c cur))) by lia.
          assert (Z.of_nat (behind (c_prev c cur)) < Z.of_nat (behind cur)).
          { destruct Hb1 as [Hbn|Hbn]; [|lia]. exfalso. specialize (Hn1 Hbn). subst p1.
            (* nothing was shown after the first step back: the skip loop stops there with no entry *)
            destruct sk as [s|]; [|rewrite prev_skip_none in Hres; injection Hres as <-; congruence].
            destruct fuel as [|f]; [lia|]. cbn [prev_skip_loop] in Hres. rewrite Hbn in Hres. discriminate. }
          destruct (Z.eq_dec (2 * g2) (qz p)) as [E|E].
          + destruct md; [|nia]. assert (Z.of_nat (behind cur) <= Z.of_nat Bnd + 1) by lia. nia.
          + assert (2 * g2 <= qz p - 1) by lia. assert (0 <= Z.of_nat (behind cur2) <= Z.of_nat Bnd + 1) by (destruct (lt_behind _ _ _ HL2); lia).
            destruct md; nia. }
      cbn [nu] in Hrec. destruct Hrec as [Hf [md6 [p6 [HL6 Hend6]]]]. split; [exact Hf|]. exists md6, p6. split; [exact HL6|].
      assert (rank V O g2 = rank V O (nu p)) as Hrk.
      { apply rank_invis; [lia|lia|lia|]. intros i Hi. apply Hinvis. lia. }
      destruct Hend6 as [[A [B [C D]]]|[p' [A [B [C D]]]]]; [left; repeat split; auto; congruence|right; exists p'; repeat split; auto; congruence].
Qed.

(* ---------------------------------------------------------------- the simulation *)
Definition PR (st : pstate S) (P : Z) : Prop :=
  p_fail st = None /\ exists md p, LT (p_cur st) md p /\
   ((p = LGap 0 /\ c_kv c (p_cur st) = None /\ P = -1 /\ p_skip st = None) \/
    (exists j, p = LAt j /\ V (at_ O j) = true /\ P = rank V O j /\ p_skip st = Some (K j)) \/
    (p = LGap n /\ c_kv c (p_cur st) = None /\ P = M)).

Lemma rank_nM : rank V O n = M.
Proof. apply rank_len. lia. Qed.
Lemma rank_vis_lt j : 0 <= j < n -> V (at_ O j) = true -> rank V O j + 1 <= M.
Proof.
  intros Hj Hv. rewrite <- rank_nM. pose proof (rank_mono V O (j + 1) n ltac:(lia)) as Hm.
  rewrite (rank_step V O j (at_ O j)) in Hm by (now apply ent_at). rewrite Hv in Hm. lia.
Qed.

(* at the end only late entries can still come *)
Lemma next_endLT : forall m cur md sk, LT cur md (LGap n) -> (m > ahead cur)%nat ->
  let st := p_next_loop c t m (mkP cur sk None) in
  p_fail st = None /\ exists md', LT (p_cur st) md' (LGap n) /\ c_kv c (p_cur st) = None.
Proof.
  induction m as [|m IH]; intros cur md sk HL Hm; [lia|]. cbn zeta. cbn [p_next_loop p_cur p_skip p_fail].
  destruct (lt_next _ _ _ HL) as [p' [HL' [Hn Hnn]]]. cbn [nxt] in Hn.
  assert (p' = LGap n) as -> by (destruct Hn as [-> | ->]; [reflexivity|]; destruct (lt_at _ _ _ HL'); lia).
  destruct (c_kv c (c_next c cur)) as [e|] eqn:Ekv.
  - destruct (lt_gap _ _ _ HL') as [_ Hx]. rewrite Ekv in Hx. destruct Hx as [Hlate _].
    assert (N.leb (ets e) t = false) as -> by (apply N.leb_gt; exact Hlate). cbn [andb].
    apply (IH _ true sk HL'). destruct (lt_ahead _ _ _ HL) as [_ [H|H]]; [congruence|lia].
  - cbn [p_cur p_fail]. split; [reflexivity|]. exists true. auto.
Qed.

Lemma scan_post_PR j st : 0 <= j <= n -> scan_postLT j st -> PR st (rank V O j).
Proof.
  intros Hj [Hf [md [p [HL Hend]]]]. split; [exact Hf|]. exists md, p. split; [exact HL|].
  destruct Hend as [[j' [-> [Hjj [Hrk [Hv Hsk]]]]]|[-> [Hkv Hrk]]].
  - right. left. exists j'. rewrite <- Hrk. auto.
  - right. right. rewrite <- Hrk, rank_nM. auto.
Qed.

Theorem pruningLT_sim : sim (pruning c fuel t) PS PR.
Proof.
  pose proof (len_nonneg O) as Hn0. pose proof (len_nonneg PS) as HM0. pose proof fuel_inner as Hfi.
  constructor.
  - intros st P [_ [md [p [HL HR]]]]. destruct HR as [[_ [_ [-> _]]]|[[j [-> [Hv [-> _]]]]|[_ [_ ->]]]]; try lia.
    destruct (lt_at _ _ _ HL) as [Hj _]. pose proof (rank_vis_lt j Hj Hv). pose proof (rank_range V O j). lia.
  - intros st P [_ [md [p [HL HR]]]]. cbn [pruning c_kv].
    destruct HR as [[_ [Hkv [-> _]]]|[[j [-> [Hv [-> _]]]]|[_ [Hkv ->]]]].
    + rewrite Hkv. symmetry. apply ent_none. lia.
    + destruct (lt_at _ _ _ HL) as [Hj Hkv]. rewrite Hkv. symmetry. unfold prune_spec. apply ent_filter_rank; [now apply ent_at|exact Hv].
    + rewrite Hkv. symmetry. apply ent_none. lia.
  - intros st P [H _]. exact H.
  - intros o st P HR. pose proof HR as [Hf [md [p [HL HRc]]]]. destruct st as [cur sk f]. cbn [p_fail p_cur p_skip] in *. subst f.
    destruct o; cbn [step pruning c_first c_last c_seek c_prev c_next ref]; rewrite pguard_ok by reflexivity.
    + (* seek_to_first *)
      unfold p_first_raw. cbn [p_cur p_fail]. destruct (lt_first _ _ _ HL) as [HL' Hkv]. split; [reflexivity|].
      exists true, (LGap 0). cbn [p_cur p_skip]. split; [exact HL'|]. left. auto.
    + (* seek_to_last *)
      unfold p_last_raw. cbn [p_cur p_fail]. destruct (lt_last _ _ _ HL) as [HL' Hkv]. split; [reflexivity|].
      exists false, (LGap n). cbn [p_cur p_skip]. split; [exact HL'|]. right. right. auto.
    + (* seek *)
      unfold p_seek_raw. cbn [p_cur p_fail]. destruct (lt_seek _ _ _ k HL) as [p' [HL' [Hnu Hnn]]].
      pose proof (count_range (below k) O) as Hq. set (q := count (below k) O) in *.
      assert (skip_inv t O q None) as Hinv.
      { split; [discriminate|]. intros i Hi Hqn Hk _. exfalso.
        pose proof (count_prefix _ O HsO (below_downclosed k) i _ (ent_at O i ltac:(lia))) as B1.
        pose proof (count_prefix _ O HsO (below_downclosed k) q _ (ent_at O q ltac:(lia))) as B2.
        fold q in B1, B2. unfold below in B1, B2. rewrite Hk in B1.
        destruct (kltb (K q) k); [destruct B2 as [B2 _]; specialize (B2 eq_refl); lia|destruct B1 as [_ B1]; specialize (B1 ltac:(lia)); discriminate]. }
      rewrite <- Hnu in Hinv.
      assert ((fuel > ahead (c_seek c k cur))%nat \/ c_kv c (c_seek c k cur) = None) as Hm by (left; destruct (lt_ahead _ _ _ HL'); lia).
      pose proof (seek_loopLT fuel _ _ _ None HL' Hinv Hm Hnn) as Hpost. rewrite Hnu in Hpost.
      unfold prune_spec. rewrite (count_filter_prefix _ _ _ HsO (below_downclosed k)). fold q.
      apply scan_post_PR; [lia|exact Hpost].
    + (* prev *)
      unfold p_prev_raw. cbn [p_cur p_skip p_fail].
      assert (Z.of_nat fuel > Wz cur md p) as HW.
      { unfold Wz. pose proof (lt_range _ _ _ HL). assert (0 <= qz p <= 2 * n + 1) by (destruct p; cbn [qz nu] in *; [destruct (lt_at _ _ _ HL)|]; lia).
        assert (0 <= Z.of_nat (behind cur) <= Z.of_nat Bnd + 1) by (destruct (lt_behind _ _ _ HL); lia). destruct md; nia. }
      destruct HRc as [[-> [Hkv [-> ->]]]|[[j [-> [Hv [-> ->]]]]|[-> [Hkv ->]]]].
      * unfold has_key. rewrite Hkv.
        pose proof (prev_loopLT fuel cur md (LGap 0) None HL ltac:(left; auto) HW) as [Hf' [md' [p' [HL' Hend]]]]. cbn [nu] in Hend.
        split; [exact Hf'|]. exists md', p'. split; [exact HL'|].
        destruct Hend as [[-> [A [B _]]]|[p2 [-> [Hv2 [_ Hrk]]]]]; [left; auto|exfalso].
        destruct (lt_at _ _ _ HL') as [Hp2 _]. rewrite (rank_step V O p2 (at_ O p2)) in Hrk by (now apply ent_at). rewrite Hv2, rank_0 in Hrk.
        pose proof (rank_range V O p2). lia.
      * destruct (lt_at _ _ _ HL) as [Hj Hkv]. unfold has_key. rewrite Hkv.
        assert (prev_invLT cur md (LAt j) (Some (K j))) as Hinv.
        { right. left. exists j. split; [reflexivity|]. split; [reflexivity|]. intros i Hi Hk.
          apply (head_earlier_invisible 0%nat t O HsO j i); auto; try lia. now apply (visible_head 0%nat t O HsO). }
        pose proof (prev_loopLT fuel cur md (LAt j) _ HL Hinv HW) as [Hf' [md' [p' [HL' Hend]]]]. cbn [nu] in Hend.
        split; [exact Hf'|]. exists md', p'. split; [exact HL'|]. pose proof (rank_range V O j). unfold ref_prev.
        destruct Hend as [[-> [A [B Hrk]]]|[p2 [-> [Hv2 [Hsk Hrk]]]]].
        -- left. rewrite rank_0 in Hrk. rewrite <- Hrk. cbn. auto.
        -- right. left. exists p2. destruct (lt_at _ _ _ HL') as [Hp2 _].
           rewrite (rank_step V O p2 (at_ O p2)) in Hrk by (now apply ent_at). rewrite Hv2 in Hrk. pose proof (rank_range V O p2).
           destruct (Z.ltb_spec (rank V O j - 1) 0); [lia|]. repeat split; auto. lia.
      * unfold has_key. rewrite Hkv.
        pose proof (prev_loopLT fuel cur md (LGap n) None HL ltac:(left; auto) HW) as [Hf' [md' [p' [HL' Hend]]]]. cbn [nu] in Hend.
        split; [exact Hf'|]. exists md', p'. split; [exact HL'|]. rewrite rank_nM in Hend. unfold ref_prev.
        destruct Hend as [[-> [A [B Hrk]]]|[p2 [-> [Hv2 [Hsk Hrk]]]]].
        -- left. rewrite rank_0 in Hrk. rewrite <- Hrk. cbn. auto.
        -- right. left. exists p2. destruct (lt_at _ _ _ HL') as [Hp2 _].
           rewrite (rank_step V O p2 (at_ O p2)) in Hrk by (now apply ent_at). rewrite Hv2 in Hrk. pose proof (rank_range V O p2).
           destruct (Z.ltb_spec (M - 1) 0); [lia|]. repeat split; auto. lia.
    + (* next *)
      unfold p_next_raw. cbn [p_cur p_skip p_fail]. unfold ref_next.
      assert ((fuel > ahead cur)%nat) as Hm by (destruct (lt_ahead _ _ _ HL); lia).
      destruct HRc as [[-> [Hkv [-> ->]]]|[[j [-> [Hv [-> ->]]]]|[-> [Hkv ->]]]].
      * pose proof (next_loopLT fuel cur md (LGap 0) None HL (skip_inv_none 0%nat t O 0 ltac:(lia)) Hm) as Hpost. cbn [nu_next] in Hpost.
        apply (scan_post_PR 0 _ ltac:(lia)) in Hpost. rewrite rank_0 in Hpost.
        destruct (Z.leb_spec M (-1 + 1)); [|exact Hpost]. replace M with 0 by lia. exact Hpost.
      * destruct (lt_at _ _ _ HL) as [Hj Hkv].
        assert (skip_inv t O (j + 1) (Some (K j))) as Hinv.
        { split.
          - intros k Hk. injection Hk as <-. exists j. split; [lia|]. split; [reflexivity|]. now apply at_old.
          - intros i Hi Hpn Hk _. f_equal. rewrite <- Hk. apply (sandwich 0%nat O HsO i j (j + 1)); try lia. exact Hk. }
        pose proof (next_loopLT fuel cur md (LAt j) _ HL Hinv Hm) as Hpost. cbn [nu_next] in Hpost.
        apply (scan_post_PR (j + 1) _ ltac:(lia)) in Hpost.
        rewrite (rank_step V O j (at_ O j)) in Hpost by (now apply ent_at). rewrite Hv in Hpost.
        pose proof (rank_vis_lt j Hj Hv).
        destruct (Z.leb_spec M (rank V O j + 1)); [|exact Hpost].
        replace M with (rank V O j + 1) by lia. exact Hpost.
      * destruct (next_endLT fuel cur md sk HL Hm) as [Hf' [md' [HL' Hkv']]]. split; [exact Hf'|].
        exists md', (LGap n). split; [exact HL'|]. right. right. split; [reflexivity|]. split; [exact Hkv'|].
        destruct (Z.leb_spec M (M + 1)); lia.
Qed.
End LT.
