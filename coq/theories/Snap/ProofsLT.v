(* Snap/ProofsLT.v — the pruning theorem over a LATE-TOLERANT child.
   The child cursor (in the store: the MergingCursor over a memtable that grows) is not an exact
   refinement of any list once entries newer than the read timestamp t are inserted under it;
   what it keeps is: it shows every entry of O (the entries not newer than t, fixed) in order and
   in both directions, possibly with entries NEWER than t in between ("late" entries).  This file
   states that interface (`LT`: a logical position in O, at an entry or in a gap) and proves that a
   PruningCursor at t over such a child is an exact refinement of prune_spec t O. *)
From Coq Require Import NArith ZArith List Bool Lia.
From Blue Require Import Cursor.Iface Cursor.Ref Cursor.Pruning Cursor.Spec Cursor.Proofs_Order Cursor.Proofs_Ref
  Cursor.Proofs_Spec Cursor.Proofs_Pruning.
Import ListNotations.
Local Open Scope Z_scope.

Inductive lpos := LAt (j : Z) | LGap (g : Z).
(* index of the first entry of O at or after the position / strictly after it *)
Definition nu (p : lpos) : Z := match p with LAt j => j | LGap g => g end.
Definition nu_next (p : lpos) : Z := match p with LAt j => j + 1 | LGap g => g end.
(* index of the last entry of O at or before the position *)
Definition rho (p : lpos) : Z := match p with LAt j => j | LGap g => g - 1 end.
Definition nxt (p p' : lpos) : Prop :=
  match p with LAt j => p' = LGap (j + 1) \/ p' = LAt (j + 1) | LGap g => p' = LGap g \/ p' = LAt g end.
Definition prv (p p' : lpos) : Prop :=
  match p with LAt j => p' = LGap j \/ p' = LAt (j - 1) | LGap g => p' = LGap g \/ p' = LAt (g - 1) end.
(* positions in order: gap g, entry g, gap g+1, .. *)
Definition qz (p : lpos) : Z := match p with LAt j => 2 * j + 1 | LGap g => 2 * g end.
Lemma nu_rho p : rho p <= nu p <= rho p + 1.
Proof. destruct p; cbn; lia. Qed.
Lemma prv_qz p p' : prv p p' -> qz p' <= qz p /\ rho p' = nu p - 1 /\ (forall j, p = LAt j -> qz p' < qz p).
Proof.
  destruct p as [j|g]; cbn [prv]; intros [-> | ->]; cbn [qz rho nu]; (split; [lia|split; [lia|]]); intros j0 E; try discriminate; injection E as <-; lia.
Qed.

Section LT.
Context {S : Type} (c : cursor S) (fuel : nat) (t : N) (O : list entry).
Hypothesis HsO : sorted O.
Hypothesis HoldO : forall e, In e O -> (ets e <= t)%N.

Notation n := (len O).
Notation K i := (ek (at_ O i)).
Notation T i := (ets (at_ O i)).
Notation V := (visible t O).
Notation PS := (prune_spec t O).
Notation M := (len (prune_spec t O)).

(* the interface.  `LT s fwd p`: state s of the child stands at logical position p; fwd tells in
   which direction it was last moved (the merge's comparator). *)
Variable LT : S -> bool -> lpos -> Prop.
Variables ahead behind : S -> nat.
Variable Bnd : nat.

Hypothesis lt_at : forall s md j, LT s md (LAt j) -> 0 <= j < n /\ c_kv c s = Some (at_ O j).
Hypothesis lt_gap : forall s md g, LT s md (LGap g) -> 0 <= g <= n /\
  match c_kv c s with
  | None => True
  | Some x => (t < ets x)%N /\ (md = false -> 0 < g -> elt (at_ O (g - 1)) x)
  end.
Hypothesis lt_next : forall s md p, LT s md p -> exists p', LT (c_next c s) true p' /\ nxt p p' /\
  (c_kv c (c_next c s) = None -> p' = LGap n).
Hypothesis lt_prev : forall s md p, LT s md p -> exists p', LT (c_prev c s) false p' /\ prv p p' /\
  (c_kv c (c_prev c s) = None -> p' = LGap 0) /\
  (md = false -> forall x y, c_kv c s = Some x -> c_kv c (c_prev c s) = Some y -> elt y x).
Hypothesis lt_seek : forall s md p k, LT s md p -> exists p', LT (c_seek c k s) true p' /\
  nu p' = count (below k) O /\ (c_kv c (c_seek c k s) = None -> p' = LGap n).
Hypothesis lt_first : forall s md p, LT s md p -> LT (c_first c s) true (LGap 0) /\ c_kv c (c_first c s) = None.
Hypothesis lt_last : forall s md p, LT s md p -> LT (c_last c s) false (LGap n) /\ c_kv c (c_last c s) = None.
Hypothesis lt_ahead : forall s md p, LT s md p -> (ahead s <= Bnd + 1)%nat /\
  (c_kv c (c_next c s) = None \/ (ahead (c_next c s) < ahead s)%nat).
Hypothesis lt_behind : forall s md p, LT s md p -> (behind s <= Bnd + 1)%nat /\
  (c_kv c (c_prev c s) = None \/ (behind (c_prev c s) < behind s)%nat).

Lemma at_old i : 0 <= i < n -> (T i <= t)%N.
Proof. intros Hi. apply HoldO. eapply ent_In. apply ent_at. exact Hi. Qed.

Lemma lt_range s md p : LT s md p -> 0 <= nu p <= n.
Proof. destruct p as [j|g]; intros H; cbn [nu]; [destruct (lt_at _ _ _ H); lia|destruct (lt_gap _ _ _ H); lia]. Qed.

(* ---------------------------------------------------------------- the forward scans *)
(* stops on the first visible entry of O at or after index j, or at the end *)
Definition scan_postLT (j : Z) (st : pstate S) : Prop :=
  p_fail st = None /\ exists md p, LT (p_cur st) md p /\
    ((exists j', p = LAt j' /\ j <= j' /\ rank V O j' = rank V O j /\ V (at_ O j') = true /\ p_skip st = Some (K j')) \/
     (p = LGap n /\ c_kv c (p_cur st) = None /\ rank V O n = rank V O j)).

Lemma rank_skip j : 0 <= j < n -> V (at_ O j) = false -> rank V O (j + 1) = rank V O j.
Proof. intros Hj Hv. rewrite (rank_step V O j (at_ O j)) by (now apply ent_at). rewrite Hv. lia. Qed.

(* one examination of the current entry, as both forward loops make it *)
Lemma seek_loopLT : forall m cur md p sk, LT cur md p -> skip_inv t O (nu p) sk ->
  ((m > ahead cur)%nat \/ c_kv c cur = None) -> (c_kv c cur = None -> p = LGap n) ->
  scan_postLT (nu p) (p_seek_loop c t m (mkP cur sk None)).
Proof.
  induction m as [|m IH]; intros cur md p sk HL Hinv Hm Hnone.
  - cbn [p_seek_loop p_cur]. destruct (c_kv c cur) as [e|] eqn:Ekv.
    + exfalso. destruct Hm as [Hm|Hm]; [lia|discriminate].
    + split; [reflexivity|]. exists md, p. split; [exact HL|]. right. rewrite (Hnone eq_refl). cbn [nu p_cur]. auto.
  - cbn [p_seek_loop p_cur p_skip p_fail]. destruct (c_kv c cur) as [e|] eqn:Ekv.
    2:{ split; [reflexivity|]. exists md, p. split; [exact HL|]. right. rewrite (Hnone eq_refl). cbn [nu p_cur]. auto. }
    destruct (lt_next _ _ _ HL) as [p' [HL' [Hn Hnn]]].
    assert ((m > ahead (c_next c cur))%nat \/ c_kv c (c_next c cur) = None) as Hm'.
    { destruct (lt_ahead _ _ _ HL) as [_ [H|H]]; [now right|left]. destruct Hm as [Hm|Hm]; [lia|congruence]. }
    destruct p as [j|g].
    + (* an entry of O *)
      destruct (lt_at _ _ _ HL) as [Hj Hk]. rewrite Hk in Ekv. injection Ekv as <-. cbn [nu] in *.
      pose proof (examine_spec 0%nat t O HsO j sk Hj Hinv) as Hex. cbv zeta in Hex.
      assert (nu p' = j + 1) as Hnu by (destruct Hn as [-> | ->]; reflexivity).
      destruct (N.leb (T j) t && is_none (ev (at_ O j))).
      * destruct Hex as [Hv Hinv']. unfold set_skip_key. cbn [p_cur]. rewrite Hk.
        rewrite <- Hnu in Hinv'. destruct (IH _ _ _ _ HL' Hinv' Hm' Hnn) as [Hf [md2 [p2 [HL2 Hend]]]].
        split; [exact Hf|]. exists md2, p2. split; [exact HL2|]. rewrite Hnu in Hend.
        destruct Hend as [[j' [-> [Hjj [Hrk Hrest]]]]|[-> [Hkv Hrk]]].
        -- left. exists j'. split; [reflexivity|]. split; [lia|]. split; [rewrite Hrk; now apply rank_skip|exact Hrest].
        -- right. split; [reflexivity|]. split; [exact Hkv|]. rewrite Hrk. now apply rank_skip.
      * destruct (N.leb (T j) t && skip_differs sk (K j)).
        -- split; [reflexivity|]. exists md, (LAt j). cbn [p_cur p_skip]. split; [exact HL|]. left. exists j.
           unfold set_skip_key. rewrite Hk. repeat split; auto; lia.
        -- destruct Hex as [Hv Hinv']. rewrite <- Hnu in Hinv'.
           destruct (IH _ _ _ _ HL' Hinv' Hm' Hnn) as [Hf [md2 [p2 [HL2 Hend]]]].
           split; [exact Hf|]. exists md2, p2. split; [exact HL2|]. rewrite Hnu in Hend.
           destruct Hend as [[j' [-> [Hjj [Hrk Hrest]]]]|[-> [Hkv Hrk]]].
           ++ left. exists j'. split; [reflexivity|]. split; [lia|]. split; [rewrite Hrk; now apply rank_skip|exact Hrest].
           ++ right. split; [reflexivity|]. split; [exact Hkv|]. rewrite Hrk. now apply rank_skip.
    + (* a late entry: neither test looks at it *)
      destruct (lt_gap _ _ _ HL) as [Hg Hx]. rewrite Ekv in Hx. destruct Hx as [Hlate _]. cbn [nu] in *.
      assert (N.leb (ets e) t = false) as -> by (apply N.leb_gt; exact Hlate). cbn [andb].
      assert (nu p' = g) as Hnu by (destruct Hn as [-> | ->]; reflexivity).
      rewrite <- Hnu in Hinv. pose proof (IH _ _ _ _ HL' Hinv Hm' Hnn) as H. now rewrite Hnu in H.
Qed.

Lemma next_loopLT : forall m cur md p sk, LT cur md p -> skip_inv t O (nu_next p) sk -> (m > ahead cur)%nat ->
  scan_postLT (nu_next p) (p_next_loop c t m (mkP cur sk None)).
Proof.
  induction m as [|m IH]; intros cur md p sk HL Hinv Hm; [lia|].
  cbn [p_next_loop p_cur p_skip p_fail].
  destruct (lt_next _ _ _ HL) as [p' [HL' [Hn Hnn]]].
  assert (nu p' = nu_next p) as Hnu by (destruct p; destruct Hn as [-> | ->]; reflexivity).
  destruct (c_kv c (c_next c cur)) as [e|] eqn:Ekv.
  2:{ split; [reflexivity|]. exists true, p'. cbn [p_cur]. split; [exact HL'|]. right. rewrite (Hnn eq_refl) in *. cbn [nu] in Hnu. rewrite <- Hnu. auto. }
  assert ((m > ahead (c_next c cur))%nat) as Hm'.
  { destruct (lt_ahead _ _ _ HL) as [_ [H|H]]; [congruence|lia]. }
  destruct p' as [j|g].
  - destruct (lt_at _ _ _ HL') as [Hj Hk]. rewrite Hk in Ekv. injection Ekv as <-. cbn [nu] in Hnu. rewrite <- Hnu in *.
    pose proof (examine_spec 0%nat t O HsO j sk Hj Hinv) as Hex. cbv zeta in Hex.
    destruct (N.leb (T j) t && is_none (ev (at_ O j))).
    + destruct Hex as [Hv Hinv']. unfold set_skip_key. rewrite Hk.
      destruct (IH _ _ (LAt j) _ HL' Hinv' Hm') as [Hf [md2 [p2 [HL2 Hend]]]]. cbn [nu_next] in Hend.
      split; [exact Hf|]. exists md2, p2. split; [exact HL2|].
      destruct Hend as [[j' [-> [Hjj [Hrk Hrest]]]]|[-> [Hkv Hrk]]].
      * left. exists j'. split; [reflexivity|]. split; [lia|]. split; [rewrite Hrk; now apply rank_skip|exact Hrest].
      * right. split; [reflexivity|]. split; [exact Hkv|]. rewrite Hrk. now apply rank_skip.
    + destruct (N.leb (T j) t && skip_differs sk (K j)).
      * split; [reflexivity|]. exists true, (LAt j). cbn [p_cur p_skip]. split; [exact HL'|]. left. exists j.
        unfold set_skip_key. rewrite Hk. repeat split; auto; lia.
      * destruct Hex as [Hv Hinv'].
        destruct (IH _ _ (LAt j) _ HL' Hinv' Hm') as [Hf [md2 [p2 [HL2 Hend]]]]. cbn [nu_next] in Hend.
        split; [exact Hf|]. exists md2, p2. split; [exact HL2|].
        destruct Hend as [[j' [-> [Hjj [Hrk Hrest]]]]|[-> [Hkv Hrk]]].
        -- left. exists j'. split; [reflexivity|]. split; [lia|]. split; [rewrite Hrk; now apply rank_skip|exact Hrest].
        -- right. split; [reflexivity|]. split; [exact Hkv|]. rewrite Hrk. now apply rank_skip.
  - destruct (lt_gap _ _ _ HL') as [Hg Hx]. rewrite Ekv in Hx. destruct Hx as [Hlate _]. cbn [nu] in Hnu.
    assert (N.leb (ets e) t = false) as -> by (apply N.leb_gt; exact Hlate). cbn [andb].
    rewrite <- Hnu in *. exact (IH _ _ (LGap g) _ HL' Hinv Hm').
Qed.

(* ---------------------------------------------------------------- prev: the three inner loops *)
(* while skip_key is set: step back over the entries carrying that key *)
Lemma prev_skipLT : forall m cur p s, LT cur false p -> (c_kv c cur = None -> p = LGap 0) ->
  ((m > behind cur)%nat \/ c_kv c cur = None) ->
  exists cur' p', LT cur' false p' /\ rho p' <= rho p /\ qz p' <= qz p /\ (forall i, rho p' < i <= rho p -> K i = s) /\
    ((c_kv c cur' = None /\ p' = LGap 0 /\ prev_skip_loop c m cur (Some s) = Ret (cur', None)) \/
     (exists e, c_kv c cur' = Some e /\ ek e <> s /\ (behind cur' <= behind cur)%nat /\ prev_skip_loop c m cur (Some s) = Go (cur', None))).
Proof.
  induction m as [|m IH]; intros cur p s HL Hnone Hm.
  - cbn [prev_skip_loop]. destruct (c_kv c cur) as [e|] eqn:Ekv.
    + destruct Hm as [Hm|Hm]; [lia|discriminate].
    + exists cur, p. split; [exact HL|]. split; [lia|]. split; [lia|]. split; [intros; lia|]. left. rewrite (Hnone eq_refl) in *. auto.
  - cbn [prev_skip_loop]. destruct (c_kv c cur) as [e|] eqn:Ekv.
    2:{ exists cur, p. split; [exact HL|]. split; [lia|]. split; [lia|]. split; [intros; lia|]. left. rewrite (Hnone eq_refl) in *. auto. }
    destruct (keqb_spec s (ek e)) as [Heq|Hneq]; cbn [negb].
    2:{ exists cur, p. split; [exact HL|]. split; [lia|]. split; [lia|]. split; [intros; lia|]. right. exists e. rewrite Ekv. repeat split; try congruence; lia. }
    destruct (lt_prev _ _ _ HL) as [p1 [HL1 [Hp [Hn1 _]]]].
    assert ((m > behind (c_prev c cur))%nat \/ c_kv c (c_prev c cur) = None) as Hm1.
    { destruct (lt_behind _ _ _ HL) as [_ [H|H]]; [now right|left]. destruct Hm as [Hm|Hm]; [lia|congruence]. }
    destruct (IH _ _ s HL1 Hn1 Hm1) as [cur' [p' [HL' [Hr [Hq [Hall Hres]]]]]].
    exists cur', p'. split; [exact HL'|].
    destruct (prv_qz _ _ Hp) as [Hq1 _].
    assert (rho p1 <= rho p /\ forall i, rho p1 < i <= rho p -> K i = s) as [Hr1 Hk1].
    { destruct p as [j|g].
      - destruct (lt_at _ _ _ HL) as [Hj Hk]. rewrite Hk in Ekv. injection Ekv as <-.
        destruct Hp as [-> | ->]; cbn [rho]; (split; [lia|]); intros i Hi; replace i with j by lia; congruence.
      - destruct Hp as [-> | ->]; cbn [rho]; (split; [lia|]); intros i Hi; lia. }
    split; [lia|]. split; [lia|]. split.
    + intros i Hi. destruct (Z_le_gt_dec i (rho p1)) as [Hle|Hgt]; [apply Hall; lia|apply Hk1; lia].
    + destruct Hres as [Hres|[e' [He' [Hne' [Hb Hres]]]]]; [left; exact Hres|right]. exists e'. repeat split; auto.
      destruct (lt_behind _ _ _ HL) as [_ [H|H]]; [|lia].
      (* the step back showed nothing: then the loop has returned at once, with no entry *)
      exfalso. destruct m; cbn [prev_skip_loop] in Hres; rewrite H in Hres; discriminate.
Qed.

(* step back over the versions of the target key that are not newer than t *)
Lemma prev_backLT : forall m cur j, LT cur false (LAt j) -> (m > behind cur)%nat ->
  exists cur' p', prev_back_loop c t m (K j) cur = Some cur' /\ LT cur' false p' /\ -1 <= rho p' < j /\
    (forall i, rho p' < i <= j -> K i = K j) /\ (rho p' = -1 \/ K (rho p') <> K j) /\
    (c_kv c cur' = None -> p' = LGap 0).
Proof.
  induction m as [|m IH]; intros cur j HL Hm; [lia|].
  cbn [prev_back_loop]. destruct (lt_at _ _ _ HL) as [Hj Hk].
  destruct (lt_prev _ _ _ HL) as [p1 [HL1 [Hp [Hn1 Hmono]]]]. cbn [prv] in Hp.
  destruct (c_kv c (c_prev c cur)) as [e|] eqn:Ekv.
  2:{ exists (c_prev c cur), p1. split; [reflexivity|]. split; [exact HL1|]. rewrite (Hn1 eq_refl) in *.
      destruct Hp as [Hp|Hp]; [injection Hp as Hp|discriminate]. cbn [rho]. split; [lia|]. split; [intros i Hi; replace i with j by lia; reflexivity|].
      split; [left; lia|auto]. }
  destruct Hp as [-> | ->].
  - (* a late entry just before O[j]: the loop stops here, and O[j] is the newest version <= t *)
    destruct (lt_gap _ _ _ HL1) as [Hg Hx]. rewrite Ekv in Hx. destruct Hx as [Hlate Hbound].
    assert (N.ltb t (ets e) = true) as -> by (apply N.ltb_lt; exact Hlate). cbn [orb].
    exists (c_prev c cur), (LGap j). split; [reflexivity|]. split; [exact HL1|]. cbn [rho]. split; [lia|].
    split; [intros i Hi; replace i with j by lia; reflexivity|]. split; [|intros H; rewrite Ekv in H; discriminate].
    destruct (Z.eq_dec j 0) as [->|Hne]; [left; lia|right].
    intros Heq. specialize (Hbound eq_refl ltac:(lia)). specialize (Hmono eq_refl _ e Hk eq_refl).
    assert (ek e = K j).
    { apply elt_kle in Hbound. apply elt_kle in Hmono. rewrite Heq in Hbound. korder. }
    assert (ets e < T (j - 1))%N by (apply (elt_same_key (at_ O (j - 1)) e); [congruence|exact Hbound]).
    pose proof (at_old (j - 1) ltac:(lia)). lia.
  - destruct (lt_at _ _ _ HL1) as [Hj1 Hk1]. rewrite Hk1 in Ekv. injection Ekv as <-.
    assert (N.ltb t (T (j - 1)) = false) as -> by (apply N.ltb_ge; apply at_old; lia). cbn [orb].
    destruct (keqb_spec (K (j - 1)) (K j)) as [Heq|Hneq]; cbn [negb].
    + assert ((m > behind (c_prev c cur))%nat) as Hm1.
      { destruct (lt_behind _ _ _ HL) as [_ [H|H]]; [congruence|lia]. }
      destruct (IH _ _ HL1 Hm1) as [cur' [p' [E [HL' [Hr [Hall [Hend Hnn]]]]]]]. rewrite Heq in E.
      exists cur', p'. split; [exact E|]. split; [exact HL'|]. split; [lia|]. split; [|split; [rewrite <- Heq; exact Hend|exact Hnn]].
      intros i Hi. destruct (Z.eq_dec i j) as [->|]; [reflexivity|]. rewrite <- Heq. apply Hall. lia.
    + exists (c_prev c cur), (LAt (j - 1)). split; [reflexivity|]. split; [exact HL1|]. cbn [rho]. split; [lia|].
      split; [intros i Hi; replace i with j by lia; reflexivity|]. split; [right; exact Hneq|]. intros H. rewrite Hk1 in H. discriminate.
Qed.

(* walk forward to the entry of O at index mm, over late entries and entries of other keys *)
Lemma prev_fwdLT : forall m cur md p mm tg, LT cur md p -> nu p <= mm < n -> K mm = tg ->
  (forall i, nu p <= i < mm -> K i <> tg) -> ((m > ahead cur)%nat \/ p = LAt mm) -> (c_kv c cur = None -> p = LGap n) ->
  exists cur' md', prev_fwd_loop c t m tg cur = Some cur' /\ LT cur' md' (LAt mm).
Proof.
  induction m as [|m IH]; intros cur md p mm tg HL Hmm Hk Hother Hm Hnone.
  - destruct Hm as [Hm|Hm]; [lia|]. subst p. cbn [prev_fwd_loop]. destruct (lt_at _ _ _ HL) as [Hj Hkv]. rewrite Hkv.
    replace (N.leb (T mm) t) with true by (symmetry; apply N.leb_le; now apply at_old).
    destruct (keqb_spec (K mm) tg); [|congruence]. cbn [andb]. eauto.
  - cbn [prev_fwd_loop]. destruct p as [j|g].
    + destruct (lt_at _ _ _ HL) as [Hj Hkv]. rewrite Hkv. cbn [nu] in *.
      replace (N.leb (T j) t) with true by (symmetry; apply N.leb_le; now apply at_old). cbn [andb].
      destruct (Z.eq_dec j mm) as [->|Hne].
      * destruct (keqb_spec (K mm) tg); [|congruence]. eauto.
      * destruct (keqb_spec (K j) tg) as [E|_]; [exfalso; apply (Hother j); [lia|exact E]|].
        destruct (lt_next _ _ _ HL) as [p' [HL' [Hn Hend0]]]. cbn [nxt] in Hn.
        assert (nu p' = j + 1) as Hnu by (destruct Hn as [-> | ->]; reflexivity).
        apply (IH _ _ p' mm tg HL'); [lia|exact Hk|intros i Hi; apply Hother; lia| |exact Hend0].
        destruct (lt_ahead _ _ _ HL) as [_ [H|H]].
        -- (* the stream cannot end before O[mm] *)
           exfalso. destruct Hn as [-> | ->].
           ++ destruct (lt_next _ _ _ HL) as [p2 [HL2 [Hn2 Hend]]]. specialize (Hend H). subst p2. cbn [nxt] in Hn2.
              destruct Hn2 as [E|E]; [injection E as E; lia|discriminate].
           ++ destruct (lt_at _ _ _ HL') as [_ Hkv']. congruence.
        -- left. destruct Hm as [Hm|Hm]; [lia|]. injection Hm as Hm. lia.
    + destruct (lt_gap _ _ _ HL) as [Hg Hx]. cbn [nu] in *. destruct (c_kv c cur) as [e|] eqn:Ekv.
      * destruct Hx as [Hlate _]. assert (N.leb (ets e) t = false) as -> by (apply N.leb_gt; exact Hlate). cbn [andb].
        destruct (lt_next _ _ _ HL) as [p' [HL' [Hn Hend]]]. cbn [nxt] in Hn.
        assert (nu p' = g) as Hnu by (destruct Hn as [-> | ->]; reflexivity).
        apply (IH _ _ p' mm tg HL'); [lia|exact Hk|intros i Hi; apply Hother; lia| |exact Hend].
        destruct (lt_ahead _ _ _ HL) as [_ [H|H]].
        -- exfalso. specialize (Hend H). subst p'. cbn [nu] in Hnu. lia.
        -- left. destruct Hm as [Hm|Hm]; [lia|discriminate].
      * (* showing nothing while entries of O lie ahead: excluded *)
        exfalso. specialize (Hnone eq_refl). injection Hnone as Hg'. lia.
Qed.
End LT.
