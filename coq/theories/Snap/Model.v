(* Snap/Model.v — executable model of a scan cursor of the lsmtk store and of the objects it
   reads while the store moves under it (property C07).  Definitions only.

   Transcribed from the Rust (the repaired code: F1 db4381b, F4 41f488d, F5 the SnapshotCursor;
   the two lifetime repairs are SWITCHES of the model, `cf_iter_owns` and `cf_holds_ver`, so that
   the pre-repair behaviour is a model too and its failure is a theorem):

   * skipfree/src/lib.rs SkipListIterator (next / prev / seek / seek_to_first / seek_to_last /
     is_valid) and lsmtk/src/kvs/memtable.rs SkipListIteratorWrapper: `gcur`.  The position is a
     NODE (identified by its entry), not an index: the list grows under the iterator (`xrefresh`
     shows every wrapper the list as it is now, before each call of the cursor).
     NB seek_to_first() positions AT the first node (get_next(head, 0)), not before it, and a new
     iterator is at the END (node = null).
   * sst/src/lazy_cursor.rs LazyCursor (Cursor.Lazy) with a counter of establish_cursor() calls,
     so that a step "names" the files it opens: `lazyx`.
   * lsmtk/src/kvs/mod.rs KeyValueStore::range_scan, kvs/memtable.rs MemTable::range_scan,
     tree/mod.rs Version::range_scan: the nesting
        Bounds(Prune_t(Merge[ Bounds(wrapper mem), Bounds(wrapper imm)?,
                              Merge( Lazy f | f in L0  ++  Concat[Lazy f | f in level, overlapping] ) ]))
     built from the combinator models of area Cursor: `scan_new`.
   * the lifetime machinery: Arc<MemTable> / Arc<Body> (the skiplist nodes), Arc<Version>,
     LsmTree::take_snapshot / install_version / explicit_ref / explicit_unref,
     reference_counter.rs inc / dec, rename sst/ -> trash/, the verifier's unlink, the file
     manager's open-by-name table and the sst cache: `mstep`.

   Granularity: every event is atomic (a write completes, a rollover happens, a flush finishes, a
   new version is installed, the verifier unlinks, a cursor call runs).  Which version a compaction
   installs is an INPUT (any list of levels): the cursor never reads the current version, only its
   own.  Storage errors other than "file not there" are not modelled. *)
From Coq Require Import NArith ZArith List Bool Arith.
From Blue Require Import Gen.Const_Snap.
From Blue Require Import Cursor.Iface Cursor.Ref Cursor.Lazy Cursor.Bounds Cursor.Pruning Cursor.Concat
  Cursor.Merging Cursor.Spec.
Import ListNotations.
Local Open Scope nat_scope.

(* ------------------------------------------------------------------------------------------
   1. the skiplist iterator under the memtable cursor *)

Inductive gpos := GHead | GAt (e : entry) | GEnd.   (* node == head sentinel | a node | null *)
(* the nodes of the list as the iterator finds them at its next call, in list order, and the
   node it stands on *)
Record gstate := mkG { g_tab : list entry; g_pos : gpos }.

Section G.
Variable tab : list entry.

(* node_ptr::get_next(node, 0) *)
Definition g_succ (e : entry) : gpos :=
  match find (fun x => eltb e x) tab with Some x => GAt x | None => GEnd end.
(* SkipList::find_less_than(head, key(node)) *)
Definition g_pred (e : entry) : gpos :=
  match find (fun x => eltb x e) (rev tab) with Some x => GAt x | None => GHead end.
(* get_next(head, 0) *)
Definition g_front : gpos := match tab with [] => GEnd | x :: _ => GAt x end.
(* SkipList::find_last(head) *)
Definition g_back : gpos := match rev tab with [] => GHead | x :: _ => GAt x end.
(* find_greater_or_equal(head, Key { key, timestamp: u64::MAX }) *)
Definition g_seekpos (k : key) : gpos :=
  match find (fun x => negb (kltb (ek x) k)) tab with Some x => GAt x | None => GEnd end.

Definition g_prev (p : gpos) : gpos :=
  match p with GEnd => g_back | GHead => GHead | GAt e => g_pred e end.
Definition g_next (p : gpos) : gpos :=
  match p with GEnd => GEnd | GHead => g_front | GAt e => g_succ e end.
End G.
Definition g_kv (p : gpos) : option entry := match p with GAt e => Some e | _ => None end.

Definition gcur : cursor gstate := {|
  c_first := fun s => mkG (g_tab s) (g_front (g_tab s));
  c_last := fun s => mkG (g_tab s) GEnd;
  c_seek := fun k s => mkG (g_tab s) (g_seekpos (g_tab s) k);
  c_prev := fun s => mkG (g_tab s) (g_prev (g_tab s) (g_pos s));
  c_next := fun s => mkG (g_tab s) (g_next (g_tab s) (g_pos s));
  c_kv := fun s => g_kv (g_pos s);
  c_fail := fun _ => None |}.
(* SkipList::iter(): node = null *)
Definition g_new (l : list entry) : gstate := mkG l GEnd.

(* ------------------------------------------------------------------------------------------
   2. LazyCursor with a count of establish_cursor() calls *)

Record lzstate := mkLz { lz_pos : lpos tstate; lz_opens : nat }.
Definition is_inst {S} (p : lpos S) : bool := match p with LInst _ => true | _ => false end.

Definition lazyx (mk : tstate) : cursor lzstate := {|
  c_first := fun s => mkLz (l_first (lz_pos s)) (lz_opens s);
  c_last := fun s => mkLz (l_last (lz_pos s)) (lz_opens s);
  c_seek := fun k s => mkLz (l_seek tcur mk k (lz_pos s))
                            (lz_opens s + if is_inst (lz_pos s) then 0 else 1);
  c_prev := fun s => mkLz (l_prev tcur mk (lz_pos s))
                          (lz_opens s + match lz_pos s with LLast => 1 | _ => 0 end);
  c_next := fun s => mkLz (l_next tcur mk (lz_pos s))
                          (lz_opens s + match lz_pos s with LFirst => 1 | _ => 0 end);
  c_kv := fun s => l_kv tcur (lz_pos s);
  c_fail := fun _ => None |}.
Definition lz_new : lzstate := mkLz l_new 0.

(* ------------------------------------------------------------------------------------------
   3. the state of a scan cursor: a tree mirroring the nesting of `Box<dyn Cursor>` *)

Inductive xst :=
| XG (mid : N) (g : gstate)                       (* wrapper over the skiplist of memtable mid *)
| XL (fid : N) (mk : tstate) (s : lzstate)        (* lazy cursor over sst fid *)
| XM (s : mstate xst)
| XC (s : kstate xst)
| XB (lo hi : bound) (s : bstate xst)
| XP (t : N) (s : pstate xst).

Section X.
Variable fuel : nat.               (* bound of the models' loops *)

Definition xstep1 (child : cursor xst) (o : op) (u : xst) : xst :=
  match u with
  | XG m g => XG m (step gcur o g)
  | XL f mk s => XL f mk (step (lazyx mk) o s)
  | XM s => XM (step (merging child) o s)
  | XC s => XC (step (concat_cursor child) o s)
  | XB lo hi s => XB lo hi (step (bounds child fuel lo hi) o s)
  | XP t s => XP t (step (pruning child fuel t) o s)
  end.
Definition xkv1 (child : cursor xst) (u : xst) : option entry :=
  match u with
  | XG m g => g_kv (g_pos g)
  | XL f mk s => c_kv (lazyx mk) s
  | XM s => c_kv (merging child) s
  | XC s => c_kv (concat_cursor child) s
  | XB lo hi s => c_kv (bounds child fuel lo hi) s
  | XP t s => c_kv (pruning child fuel t) s
  end.
Definition xfail1 (child : cursor xst) (u : xst) : option failure :=
  match u with
  | XG _ _ => None
  | XL _ _ _ => None
  | XM s => c_fail (merging child) s
  | XC s => c_fail (concat_cursor child) s
  | XB lo hi s => c_fail (bounds child fuel lo hi) s
  | XP t s => c_fail (pruning child fuel t) s
  end.
Definition xcur1 (child : cursor xst) : cursor xst := {|
  c_first := xstep1 child OFirst; c_last := xstep1 child OLast;
  c_seek := fun k => xstep1 child (OSeek k);
  c_prev := xstep1 child OPrev; c_next := xstep1 child ONext;
  c_kv := xkv1 child; c_fail := xfail1 child |}.

Definition xstuck : cursor xst := {|
  c_first := fun u => u; c_last := fun u => u; c_seek := fun _ u => u;
  c_prev := fun u => u; c_next := fun u => u; c_kv := fun _ => None; c_fail := fun _ => None |}.

Fixpoint xcur (d : nat) : cursor xst :=
  match d with
  | O => xcur1 xstuck
  | Datatypes.S d' => xcur1 (xcur d')
  end.

(* ---- the constructors, as the Rust calls them *)
Record file := mkFile { f_id : N; f_ents : list entry }.
Definition dflt_entry : entry := mkE [] 0%N None.
Definition f_first (f : file) : key := ek (hd dflt_entry (f_ents f)).      (* SstMetadata.first_key *)
Definition f_last (f : file) : key := ek (last (f_ents f) dflt_entry).      (* SstMetadata.last_key *)

(* compare_bounds_le(start_bound, Included(last_key)) && compare_bounds_le(Included(first_key), end_bound) *)
Definition lo_le (lo : bound) (lastk : key) : bool :=
  match lo with Unbounded => true | Included x => kleb x lastk | Excluded x => kltb x lastk end.
Definition le_hi (firstk : key) (hi : bound) : bool :=
  match hi with Unbounded => true | Included y => kleb firstk y | Excluded y => kltb firstk y end.
Definition overlaps (lo hi : bound) (f : file) : bool := lo_le lo (f_last f) && le_hi (f_first f) hi.

Definition lazy_leaf (f : file) : xst := XL (f_id f) (t_new (f_ents f)) lz_new.

(* MemTable::range_scan: BoundsCursor::new(SkipListIteratorWrapper{ skiplist.iter() }, lo, hi);
   then range_scan calls mem_scan.seek_to_first() once more *)
(* (it is a child of the depth-3 merge below, so its own child cursor is the depth-1 record) *)
Definition mem_leaf (lo hi : bound) (ml : N * list entry) : xst :=
  c_first (xcur 2) (XB lo hi (b_new (xcur 1) lo hi (XG (fst ml) (g_new (snd ml))))).

(* Version::range_scan *)
Definition version_scan (lo hi : bound) (v : list (list file)) : xst :=
  let l0 := map lazy_leaf (hd [] v) in
  let deeper :=
    flat_map (fun level =>
                match filter (overlaps lo hi) level with
                | [] => []
                | fs => [XC (k_new (xcur 0) (map lazy_leaf fs))]
                end) (tl v) in
  XM (m_new (xcur 1) (l0 ++ deeper)).

(* KeyValueStore::range_scan *)
Definition scan_new (lo hi : bound) (t : N) (mems : list (N * list entry)) (v : list (list file)) : xst :=
  let kids := map (mem_leaf lo hi) mems ++ [version_scan lo hi v] in
  XB lo hi (b_new (xcur 4) lo hi (XP t (p_new (xcur 3) (XM (m_new (xcur 2) kids))))).

Definition scan_depth : nat := 5.
Definition scan_step (o : op) (x : xst) : xst := step (xcur scan_depth) o x.
Definition scan_obs (x : xst) : obs := observe (xcur scan_depth) x.
End X.

(* the skiplist grows under its iterators: before every call the wrappers see the list as it is now *)
Fixpoint xrefresh (look : N -> list entry) (u : xst) : xst :=
  match u with
  | XG m g => XG m (mkG (look m) (g_pos g))
  | XL f mk s => XL f mk s
  | XM (mkM fwd kids) => XM (mkM fwd (map (xrefresh look) kids))
  | XC (mkK kids pos fl) => XC (mkK (map (xrefresh look) kids) pos fl)
  | XB lo hi (mkB cur pos fl) => XB lo hi (mkB (xrefresh look cur) pos fl)
  | XP t (mkP cur sk fl) => XP t (mkP (xrefresh look cur) sk fl)
  end.

(* ---- what a state holds and has done: (file id, establish count, handle held now) per lazy
        leaf; the memtables it iterates *)
Fixpoint lazies (u : xst) : list (N * nat * bool) :=
  match u with
  | XG _ _ => []
  | XL f _ s => [(f, lz_opens s, is_inst (lz_pos s))]
  | XM (mkM _ kids) => flat_map lazies kids
  | XC (mkK kids _ _) => flat_map lazies kids
  | XB _ _ (mkB cur _ _) => lazies cur
  | XP _ (mkP cur _ _) => lazies cur
  end.
Fixpoint xmems (u : xst) : list N :=
  match u with
  | XG m _ => [m]
  | XL _ _ _ => []
  | XM (mkM _ kids) => flat_map xmems kids
  | XC (mkK kids _ _) => flat_map xmems kids
  | XB _ _ (mkB cur _ _) => xmems cur
  | XP _ (mkP cur _ _) => xmems cur
  end.
Definition opens_of (f : N) (l : list (N * nat * bool)) : nat :=
  fold_right (fun x a => if N.eqb (fst (fst x)) f then snd (fst x) + a else a) 0 l.
(* the files on which establish_cursor() ran between two states of one cursor *)
Definition opened_between (before after : xst) : list N :=
  let lb := lazies before in
  let la := lazies after in
  map (fun x => fst (fst x)) (filter (fun x => opens_of (fst (fst x)) lb <? opens_of (fst (fst x)) la) la).
Definition handles (u : xst) : list N :=
  map (fun x => fst (fst x)) (filter (fun x => snd x) (lazies u)).

(* ------------------------------------------------------------------------------------------
   4. the store's objects and their lifetimes *)

Record cfg := mkCfg {
  cf_iter_owns : bool;   (* 41f488d: a SkipListIterator shares ownership of the nodes *)
  cf_holds_ver : bool;   (* F5 repair: the scan cursor owns its VersionRef *)
  cf_cache : bool;       (* the sst cache keeps what was opened (false: --sst-cache-bytes 0) *)
  cf_fuel : nat          (* bound of the models' loops; the theorems ask for enough of it and show
                            that no loop ever runs out *)
}.

Record memt := mkMT {
  mt_id : N;
  mt_ents : list entry;   (* the skiplist nodes, sorted by KeyRef *)
  mt_store : nat;         (* Arc<MemTable> held by the store: state.mem, state.imm, the flush thread *)
  mt_iters : nat;         (* SkipListIterators alive on it *)
  mt_freed : bool         (* the nodes have been freed *)
}.
Record dfile := mkD { d_id : N; d_sst : bool; d_trash : bool }.    (* sst/<id>.sst, trash/<id>.sst exist *)
Record vers := mkV { v_id : N; v_levels : list (list file); v_arc : nat }.   (* Arc<Version> *)
Record scan := mkScan {
  sc_id : N; sc_t : N;
  sc_mems : list N;      (* the memtables it holds a SkipListIterator on *)
  sc_ver : N;            (* the version it was opened on *)
  sc_holds : bool;       (* ... and whether it owns a VersionRef to it *)
  sc_x : xst }.

Record machine := mkMS {
  ms_seq : N;               (* state.seq_no *)
  ms_vis : N;               (* state.visible_seq_no: what a reader takes as its timestamp *)
  ms_mem : N;               (* state.mem *)
  ms_imm : option N;        (* state.imm *)
  ms_mts : list memt;
  ms_vers : list vers;
  ms_cur : N;               (* tree.version *)
  ms_refs : list (N * nat); (* tree.references: ReferenceCounter<Setsum> *)
  ms_disk : list dfile;
  ms_cache : list N;        (* tree.sst_cache *)
  ms_scans : list scan;
  ms_next : N               (* next object id for memtables and versions *)
}.

Inductive merr := UAF | ENOENT | BadEvent.

Definition set_mts (s : machine) (x : list memt) : machine :=
  mkMS (ms_seq s) (ms_vis s) (ms_mem s) (ms_imm s) x (ms_vers s) (ms_cur s) (ms_refs s) (ms_disk s) (ms_cache s) (ms_scans s) (ms_next s).
Definition set_vers (s : machine) (x : list vers) : machine :=
  mkMS (ms_seq s) (ms_vis s) (ms_mem s) (ms_imm s) (ms_mts s) x (ms_cur s) (ms_refs s) (ms_disk s) (ms_cache s) (ms_scans s) (ms_next s).
Definition set_refs (s : machine) (x : list (N * nat)) : machine :=
  mkMS (ms_seq s) (ms_vis s) (ms_mem s) (ms_imm s) (ms_mts s) (ms_vers s) (ms_cur s) x (ms_disk s) (ms_cache s) (ms_scans s) (ms_next s).
Definition set_disk (s : machine) (x : list dfile) : machine :=
  mkMS (ms_seq s) (ms_vis s) (ms_mem s) (ms_imm s) (ms_mts s) (ms_vers s) (ms_cur s) (ms_refs s) x (ms_cache s) (ms_scans s) (ms_next s).
Definition set_cache (s : machine) (x : list N) : machine :=
  mkMS (ms_seq s) (ms_vis s) (ms_mem s) (ms_imm s) (ms_mts s) (ms_vers s) (ms_cur s) (ms_refs s) (ms_disk s) x (ms_scans s) (ms_next s).
Definition set_scans (s : machine) (x : list scan) : machine :=
  mkMS (ms_seq s) (ms_vis s) (ms_mem s) (ms_imm s) (ms_mts s) (ms_vers s) (ms_cur s) (ms_refs s) (ms_disk s) (ms_cache s) x (ms_next s).

Definition find_mt (s : machine) (m : N) : option memt := find (fun x => N.eqb (mt_id x) m) (ms_mts s).
Definition find_ver (s : machine) (v : N) : option vers := find (fun x => N.eqb (v_id x) v) (ms_vers s).
Definition find_scan (s : machine) (c : N) : option scan := find (fun x => N.eqb (sc_id x) c) (ms_scans s).
Definition find_disk (s : machine) (f : N) : option dfile := find (fun x => N.eqb (d_id x) f) (ms_disk s).

Definition look_of (s : machine) (m : N) : list entry :=
  match find_mt s m with Some x => mt_ents x | None => [] end.

Definition upd_mt (f : memt -> memt) (m : N) (s : machine) : machine :=
  set_mts s (map (fun x => if N.eqb (mt_id x) m then f x else x) (ms_mts s)).

(* ---- skiplist nodes: who keeps them.  With 41f488d the Body (all nodes) is shared by the list
        and its iterators; before, SkipList::drop freed every node regardless of iterators. *)
Definition mt_settle (c : cfg) (x : memt) : memt :=
  if (mt_store x =? 0) && (negb (cf_iter_owns c) || (mt_iters x =? 0))
  then mkMT (mt_id x) (mt_ents x) (mt_store x) (mt_iters x) true
  else x.
Definition mt_add_store (n : nat) (x : memt) := mkMT (mt_id x) (mt_ents x) (mt_store x + n) (mt_iters x) (mt_freed x).
Definition mt_drop_store (c : cfg) (x : memt) := mt_settle c (mkMT (mt_id x) (mt_ents x) (mt_store x - 1) (mt_iters x) (mt_freed x)).
Definition mt_add_iter (x : memt) := mkMT (mt_id x) (mt_ents x) (mt_store x) (mt_iters x + 1) (mt_freed x).
Definition mt_drop_iter (c : cfg) (x : memt) := mt_settle c (mkMT (mt_id x) (mt_ents x) (mt_store x) (mt_iters x - 1) (mt_freed x)).
Definition mt_insert (e : entry) (x : memt) := mkMT (mt_id x) (insert_sorted e (mt_ents x)) (mt_store x) (mt_iters x) (mt_freed x).

(* ---- reference_counter.rs *)
Fixpoint rc_inc (f : N) (l : list (N * nat)) : list (N * nat) :=
  match l with
  | [] => [(f, 1)]
  | (g, n) :: r => if N.eqb g f then (g, Datatypes.S n) :: r else (g, n) :: rc_inc f r
  end.
(* dec: true iff the count was <= 1 (the entry is removed); a vacant entry gives false *)
Fixpoint rc_dec (f : N) (l : list (N * nat)) : list (N * nat) * bool :=
  match l with
  | [] => ([], false)
  | (g, n) :: r =>
      if N.eqb g f then (if n <=? 1 then (r, true) else ((g, n - 1) :: r, false))
      else let '(r', b) := rc_dec f r in ((g, n) :: r', b)
  end.

(* Version::setsums(): every file of every level, in order *)
Definition v_files (v : vers) : list N := map f_id (concat (v_levels v)).

(* rename(sst/f, trash/f); errors ignored *)
Definition disk_rename (f : N) (d : list dfile) : list dfile :=
  map (fun x => if N.eqb (d_id x) f && d_sst x then mkD (d_id x) false true else x) d.
(* hard_link(.., sst/f); AlreadyExists is tolerated *)
Definition disk_link (f : N) (d : list dfile) : list dfile :=
  if existsb (fun x => N.eqb (d_id x) f) d
  then map (fun x => if N.eqb (d_id x) f then mkD (d_id x) true (d_trash x) else x) d
  else d ++ [mkD f true false].
(* remove_file(trash/f) *)
Definition disk_unlink (f : N) (d : list dfile) : list dfile :=
  map (fun x => if N.eqb (d_id x) f then mkD (d_id x) (d_sst x) false else x) d.

(* LsmTree::explicit_ref *)
Definition explicit_ref (fs : list N) (s : machine) : machine :=
  set_refs s (fold_left (fun r f => rc_inc f r) fs (ms_refs s)).
(* the loop of LsmTree::explicit_unref, after the strong_count test *)
Definition unref_files (fs : list N) (s : machine) : machine :=
  fold_left (fun s f => let '(r, gone) := rc_dec f (ms_refs s) in
                        let s := set_refs s r in
                        if gone then set_disk s (disk_rename f (ms_disk s)) else s) fs s.
(* LsmTree::explicit_unref(&Arc<Version>): nothing unless this is the last reference *)
Definition explicit_unref (v : N) (s : machine) : machine :=
  match find_ver s v with
  | Some x => if v_arc x =? 1 then unref_files (v_files x) s else s
  | None => s
  end.
Definition arc_add (v : N) (s : machine) : machine :=
  set_vers s (map (fun x => if N.eqb (v_id x) v then mkV (v_id x) (v_levels x) (Datatypes.S (v_arc x)) else x) (ms_vers s)).
(* dropping one Arc<Version>; the object goes away with the last one *)
Definition arc_drop (v : N) (s : machine) : machine :=
  set_vers s (filter (fun x => negb (v_arc x =? 0))
                (map (fun x => if N.eqb (v_id x) v then mkV (v_id x) (v_levels x) (v_arc x - 1) else x) (ms_vers s))).
(* take_snapshot(): Arc::clone of the current version *)
Definition take_snapshot (s : machine) : machine := arc_add (ms_cur s) s.
(* Drop for VersionRef: explicit_unref, then the Arc field drops *)
Definition vref_drop (v : N) (s : machine) : machine := arc_drop v (explicit_unref v s).
(* install_version(version2): explicit_ref(new); swap; explicit_unref(old); old Arc drops *)
Definition install_version (levels : list (list file)) (s : machine) : machine :=
  let nv := mkV (ms_next s) levels 1 in
  let s := explicit_ref (v_files nv) s in
  let old := ms_cur s in
  let s := mkMS (ms_seq s) (ms_vis s) (ms_mem s) (ms_imm s) (ms_mts s) (ms_vers s ++ [nv]) (ms_next s)
                (ms_refs s) (ms_disk s) (ms_cache s) (ms_scans s) (ms_next s + 1)%N in
  arc_drop old (explicit_unref old s).
(* apply_manifest_ingest / apply_manifest_compaction / apply_moving_compaction: a snapshot is held
   across install_version and dropped at the end of the function; the outputs were hard-linked
   into sst/ before (compaction_finish, _ingest) *)
Definition install_new (levels : list (list file)) (s : machine) : machine :=
  let s := set_disk s (fold_left (fun d f => disk_link f d) (map f_id (concat levels)) (ms_disk s)) in
  let old := ms_cur s in
  let s := take_snapshot s in
  let s := install_version levels s in
  vref_drop old s.

(* ---- opening a file: FileManager::open finds it by name among the open handles, else opens the
        path; the sst cache is consulted before *)
Definition all_handles (s : machine) : list N := flat_map (fun c => handles (sc_x c)) (ms_scans s).
Definition openable (s : machine) (f : N) : bool :=
  existsb (N.eqb f) (ms_cache s) || existsb (N.eqb f) (all_handles s) ||
  match find_disk s f with Some d => d_sst d | None => false end.

Inductive event :=
| EWrite (b : list (key * option value))   (* a write batch completes (keys distinct) *)
| ERollover                                (* the memtable thread swaps in a new memtable *)
| EFlushDone (fid : N)                     (* ... has written imm as sst fid, ingested it, dropped imm *)
| EInstall (levels : list (list file))     (* a compaction / move / GC installs a new version *)
| EUnlinkTrash (fs : list N)               (* the verifier removes files from trash/ *)
| ECacheEvict (fs : list N)
| EOpen (cid : N) (lo hi : bound)
| EStep (cid : N) (o : op)
| EClose (cid : N)
(* a write in its parts (KeyValueStore::write): the writer is given the next sequence number under
   the store mutex; it inserts its entries, one at a time, into the memtable it captured, with no
   lock held; when it is the head of the wait list it publishes its sequence number to readers.
   Between EAssign and EPublish the entries sit in the memtable with a timestamp NEWER than the read
   timestamp a scan takes.  (Which memtable and which keys is left open: any live memtable, any
   entry not there yet.  EWrite above is the same thing done at once, by a lone writer.) *)
| EAssign
| EInsert (m : N) (k : key) (n : N) (v : option value)
| EPublish (n : N).

Inductive outcome := ONone | OObs (o : obs) | OErr (e : merr).

Definition cur_levels (s : machine) : list (list file) :=
  match find_ver s (ms_cur s) with Some v => v_levels v | None => [] end.

Definition freed_any (s : machine) (ms : list N) : bool :=
  existsb (fun m => match find_mt s m with Some y => mt_freed y | None => true end) ms.

(* KeyValueStore::write, completed *)
Definition do_write (b : list (key * option value)) (s : machine) : machine :=
  let n := (ms_seq s + 1)%N in
  let s := fold_left (fun s kv => upd_mt (mt_insert (mkE (fst kv) n (snd kv))) (ms_mem s) s) b s in
  mkMS n n (ms_mem s) (ms_imm s) (ms_mts s) (ms_vers s) (ms_cur s) (ms_refs s) (ms_disk s) (ms_cache s) (ms_scans s) (ms_next s).

(* _memtable_thread, first half: imm = clone(mem) (thread), state.imm = Some(clone(mem)), state.mem = new *)
Definition do_rollover (s : machine) : machine :=
  let old := ms_mem s in
  let s := upd_mt (mt_add_store 1) old s in
  let nm := mkMT (ms_next s) [] 1 0 false in
  mkMS (ms_seq s + 1)%N (ms_vis s) (ms_next s) (Some old) (ms_mts s ++ [nm]) (ms_vers s) (ms_cur s)
       (ms_refs s) (ms_disk s) (ms_cache s) (ms_scans s) (ms_next s + 1)%N.

(* _memtable_thread, second half: the sst is ingested; state.imm = None; the thread's own Arc goes
   at the end of the iteration *)
Definition flush_levels (fid m : N) (s : machine) : list (list file) :=
  let f := mkFile fid (look_of s m) in
  match cur_levels s with [] => [[f]] | l0 :: r => (l0 ++ [f]) :: r end.
Definition clear_imm (s : machine) : machine :=
  mkMS (ms_seq s) (ms_vis s) (ms_mem s) None (ms_mts s) (ms_vers s) (ms_cur s) (ms_refs s) (ms_disk s)
       (ms_cache s) (ms_scans s) (ms_next s).
Definition do_flushdone (c : cfg) (fid m : N) (s : machine) : machine :=
  let s := install_new (flush_levels fid m s) s in
  upd_mt (mt_drop_store c) m (upd_mt (mt_drop_store c) m (clear_imm s)).

(* KeyValueStore::range_scan *)
Definition open_mems (s : machine) : list N := ms_mem s :: match ms_imm s with Some m => [m] | None => [] end.
Definition do_open (c : cfg) (cid : N) (lo hi : bound) (s : machine) : machine * outcome :=
  let t := ms_vis s in
  let mems := open_mems s in
  let v := ms_cur s in
  let s := take_snapshot s in
  let s := fold_left (fun s m => upd_mt mt_add_iter m s) mems s in
  let fuel := cf_fuel c in
  let x := scan_new fuel lo hi t (map (fun m => (m, look_of s m)) mems) (cur_levels s) in
  let opened := opened_between (XM (mkM true [])) x in
  if freed_any s mems then (s, OErr UAF)
  else if negb (forallb (openable s) opened) then (s, OErr ENOENT)
  else
    let s := if cf_cache c then set_cache s (opened ++ ms_cache s) else s in
    let s := set_scans s (ms_scans s ++ [mkScan cid t mems v (cf_holds_ver c) x]) in
    (* pre-repair: the VersionRef is a local of range_scan and drops when it returns *)
    let s := if cf_holds_ver c then s else vref_drop v s in
    (s, OObs (scan_obs fuel x)).

(* one call on a held cursor *)
Definition put_scan (cid : N) (sc : scan) (x' : xst) (s : machine) : machine :=
  set_scans s (map (fun y => if N.eqb (sc_id y) cid
                             then mkScan cid (sc_t sc) (sc_mems sc) (sc_ver sc) (sc_holds sc) x' else y) (ms_scans s)).
Definition do_step (c : cfg) (cid : N) (sc : scan) (o : op) (s : machine) : machine * outcome :=
  let x := sc_x sc in
  let fuel := cf_fuel c in
  if freed_any s (xmems x) then (s, OErr UAF)
  else
    let x' := scan_step fuel o (xrefresh (look_of s) x) in
    let opened := opened_between x x' in
    if negb (forallb (openable s) opened) then (s, OErr ENOENT)
    else
      let s := if cf_cache c then set_cache s (opened ++ ms_cache s) else s in
      let s := put_scan cid sc x' s in
      (s, OObs (scan_obs fuel x')).

(* dropping a cursor: fields drop in order: the inner cursor (lazies: handles; wrappers:
   iterators), then the VersionRef *)
Definition do_close (c : cfg) (cid : N) (sc : scan) (s : machine) : machine :=
  let s := set_scans s (filter (fun y => negb (N.eqb (sc_id y) cid)) (ms_scans s)) in
  let s := fold_left (fun s m => upd_mt (mt_drop_iter c) m s) (sc_mems sc) s in
  if sc_holds sc then vref_drop (sc_ver sc) s else s.

(* no memtable holds an entry with this key and timestamp yet *)
Definition fresh_in (s : machine) (k : key) (n : N) : bool :=
  forallb (fun y => forallb (fun e => negb (keqb (ek e) k && N.eqb (ets e) n)) (mt_ents y)) (ms_mts s).
Definition set_seq (s : machine) (n : N) : machine :=
  mkMS n (ms_vis s) (ms_mem s) (ms_imm s) (ms_mts s) (ms_vers s) (ms_cur s) (ms_refs s) (ms_disk s) (ms_cache s) (ms_scans s) (ms_next s).
Definition set_vis (s : machine) (n : N) : machine :=
  mkMS (ms_seq s) n (ms_mem s) (ms_imm s) (ms_mts s) (ms_vers s) (ms_cur s) (ms_refs s) (ms_disk s) (ms_cache s) (ms_scans s) (ms_next s).
Definition insert_ok (s : machine) (m : N) (k : key) (n : N) : bool :=
  (ms_vis s <? n)%N && (n <=? ms_seq s)%N &&
  match find_mt s m with Some y => negb (mt_freed y) | None => false end && fresh_in s k n.

Definition mstep (c : cfg) (s : machine) (e : event) : machine * outcome :=
  match e with
  | EAssign => (set_seq s (ms_seq s + 1)%N, ONone)
  | EInsert m k n v =>
      if insert_ok s m k n then (upd_mt (mt_insert (mkE k n v)) m s, ONone) else (s, OErr BadEvent)
  | EPublish n =>
      if (ms_vis s <? n)%N && (n <=? ms_seq s)%N then (set_vis s n, ONone) else (s, OErr BadEvent)
  | EWrite b => (do_write b s, ONone)
  | ERollover =>
      match ms_imm s with
      | Some _ => (s, OErr BadEvent)          (* the thread is still flushing the previous one *)
      | None => (do_rollover s, ONone)
      end
  | EFlushDone fid =>
      match ms_imm s with
      | None => (s, OErr BadEvent)
      | Some m => (do_flushdone c fid m s, ONone)
      end
  | EInstall levels => (install_new levels s, ONone)
  | EUnlinkTrash fs => (set_disk s (fold_left (fun d f => disk_unlink f d) fs (ms_disk s)), ONone)
  | ECacheEvict fs => (set_cache s (filter (fun f => negb (existsb (N.eqb f) fs)) (ms_cache s)), ONone)
  | EOpen cid lo hi =>
      match find_scan s cid with
      | Some _ => (s, OErr BadEvent)
      | None => do_open c cid lo hi s
      end
  | EStep cid o =>
      match find_scan s cid with
      | None => (s, OErr BadEvent)
      | Some sc => do_step c cid sc o s
      end
  | EClose cid =>
      match find_scan s cid with
      | None => (s, OErr BadEvent)
      | Some sc => (do_close c cid sc s, ONone)
      end
  end.

(* a run: the machine stops at the first error *)
Fixpoint mrun (c : cfg) (s : machine) (es : list event) : machine * list outcome :=
  match es with
  | [] => (s, [])
  | e :: r =>
      let '(s', o) := mstep c s e in
      match o with
      | OErr _ => (s', [o])
      | _ => let '(s'', os) := mrun c s' r in (s'', o :: os)
      end
  end.

(* KeyValueStore::open of an empty directory: one memtable, one version of NUM_LEVELS empty levels *)
Definition minit (seq : N) : machine :=
  mkMS seq seq 0%N None [mkMT 0%N [] 1 0 false]
       [mkV 1%N (repeat [] (N.to_nat SNAP_NUM_LEVELS)) 1] 1%N [] [] [] [] 2%N.

(* ------------------------------------------------------------------------------------------
   5. the specification: what the store held when the scan was opened *)

(* every version of every key, in KeyRef order *)
Definition contents (s : machine) : list entry :=
  fold_right insert_sorted []
    (concat (map (look_of s) (ms_mem s :: match ms_imm s with Some m => [m] | None => [] end)) ++
     concat (map f_ents (concat (cur_levels s)))).
(* what a scan opened now with these bounds must show, and keep showing *)
Definition scan_spec (s : machine) (lo hi : bound) : list entry :=
  bounds_spec lo hi (prune_spec (ms_vis s) (contents s)).

(* ---- the same, composed the way range_scan composes it (what the theorems show the cursor to
        be); `scan_wfb` is what the combinators need of the store, as a checker *)
Definition level_part (lo hi : bound) (level : list file) : list (list entry) :=
  match filter (overlaps lo hi) level with [] => [] | fs => [concat (map f_ents fs)] end.
Definition ver_parts (lo hi : bound) (v : list (list file)) : list (list entry) :=
  map f_ents (hd [] v) ++ flat_map (level_part lo hi) (tl v).
Definition ver_list (lo hi : bound) (v : list (list file)) : list entry := merge_spec (ver_parts lo hi v).
Definition top_parts (lo hi : bound) (ls : list (list entry)) (v : list (list file)) : list (list entry) :=
  map (bounds_spec lo hi) ls ++ [ver_list lo hi v].
Definition scan_list (lo hi : bound) (t : N) (ls : list (list entry)) (v : list (list file)) : list entry :=
  bounds_spec lo hi (prune_spec t (merge_spec (top_parts lo hi ls v))).

Definition total_size (ls : list (list entry)) (v : list (list file)) : nat :=
  length (concat ls) + length (concat (map f_ents (concat v))).


Fixpoint sortedb (l : list entry) : bool :=
  match l with [] => true | a :: r => forallb (eltb a) r && sortedb r end.
Fixpoint distinctb (l : list entry) : bool :=
  match l with
  | [] => true
  | a :: r => forallb (fun b => match ecmp a b with Eq => false | _ => true end) r && distinctb r
  end.
Definition scan_wfb (lo hi : bound) (ls : list (list entry)) (v : list (list file)) : bool :=
  forallb sortedb ls &&
  forallb (fun f => sortedb (f_ents f)) (concat v) &&
  forallb (fun level => sortedb (concat (map f_ents (filter (overlaps lo hi) level)))) (tl v) &&
  distinctb (concat (ver_parts lo hi v)) &&
  distinctb (concat (top_parts lo hi ls v)).

(* every entry of the memtables and of the version *)
Definition all_entries (ls : list (list entry)) (v : list (list file)) : list entry :=
  concat ls ++ concat (map f_ents (concat v)).

(* at the state in which a scan is about to be opened *)
Definition open_list (s : machine) (lo hi : bound) : list entry :=
  scan_list lo hi (ms_vis s) (map (look_of s) (open_mems s)) (cur_levels s).
Definition open_wfb (c : cfg) (s : machine) (lo hi : bound) : bool :=
  scan_wfb lo hi (map (look_of s) (open_mems s)) (cur_levels s) &&
  distinctb (all_entries (map (look_of s) (open_mems s)) (cur_levels s)) &&
  (total_size (map (look_of s) (open_mems s)) (cur_levels s) + 2 <=? cf_fuel c).

(* ---- what the statement "the cursor stays a snapshot, writes under it included" needs *)
(* at scan-open: the read timestamp is a sequence number already handed out, nothing in the store
   carries a later one, and nothing in the files is newer than the read timestamp (so every later
   write or insertion is newer than the snapshot and differs from everything the cursor holds) *)
Definition open_tsb (s : machine) : bool :=
  (ms_vis s <=? ms_seq s)%N &&
  forallb (fun e => (ets e <=? ms_seq s)%N) (all_entries (map (look_of s) (open_mems s)) (cur_levels s)) &&
  (* the files hold published writes only (what is still in flight is in a memtable) *)
  forallb (fun e => (ets e <=? ms_vis s)%N) (concat (map f_ents (concat (cur_levels s)))).

Fixpoint keys_distinctb (l : list key) : bool :=
  match l with [] => true | k :: r => negb (existsb (keqb k) r) && keys_distinctb r end.
(* the events allowed while cursor cid is held: everything, except opening or dropping that cursor;
   a write batch does not name a key twice (the store keeps the last one; the driver hands the model
   the batch so reduced) *)
Definition held_ok (cid : N) (e : event) : bool :=
  match e with
  | EWrite b => keys_distinctb (map fst b)
  | EOpen c0 _ _ => negb (N.eqb c0 cid)
  | EClose c0 => negb (N.eqb c0 cid)
  | _ => true
  end.
(* the loops of the cursor models are fuelled (the Rust loops are not): fuel that is enough for
   everything the cursor holds at scan-open plus everything written while it is held *)
Definition wlen (e : event) : Z := match e with EWrite b => len b | EInsert _ _ _ _ => 1%Z | _ => 0%Z end.
Fixpoint pending (es : list event) : Z := match es with [] => 0%Z | e :: r => (wlen e + pending r)%Z end.
Definition scan_total (s : machine) : Z := Z.of_nat (total_size (map (look_of s) (open_mems s)) (cur_levels s)).
Definition run_bound (s : machine) (es : list event) : Z := (scan_total s + 6 + pending es)%Z.
Definition fuel_enoughb (c : cfg) (s : machine) (es : list event) : bool :=
  ((2 * scan_total s + 2) * (run_bound s es + 4) <? Z.of_nat (cf_fuel c))%Z.

(* ---- which histories the reachability theorem covers (C07_cursor_snapshot_stable_accepted): what
        makes the hypotheses open_wfb / open_tsb INVARIANTS instead of hypotheses *)
Definition file_entries (v : list (list file)) : list entry := concat (map f_ents (concat v)).
(* files sorted, every level below L0 sorted end to end, no (key, timestamp) twice *)
Definition levels_wfb (v : list (list file)) : bool :=
  forallb (fun f => sortedb (f_ents f)) (concat v) &&
  forallb (fun level => sortedb (concat (map f_ents level))) (tl v) &&
  distinctb (file_entries v).
Definition has_kt (e : entry) (l : list entry) : bool :=
  existsb (fun x => match ecmp e x with Eq => true | _ => false end) l.
(* what a compaction / move / GC may install: a well-formed arrangement of (some of) the (key,
   timestamp)s the current version holds - it may drop, it may not invent *)
Definition install_okb (s : machine) (levels : list (list file)) : bool :=
  levels_wfb levels && forallb (fun e => has_kt e (file_entries (cur_levels s))) (file_entries levels).
(* the flush writes the immutable memtable out once the writers that still insert into it have published *)
Definition flush_okb (s : machine) : bool :=
  match ms_imm s with Some m => forallb (fun e => (ets e <=? ms_vis s)%N) (look_of s m) | None => true end.
Definition acc_ev (s : machine) (e : event) : bool :=
  match e with
  | EWrite b => keys_distinctb (map fst b)
  | EFlushDone _ => flush_okb s
  | EInstall levels => install_okb s levels
  | _ => true
  end.
Fixpoint acc_run (c : cfg) (s : machine) (es : list event) : bool :=
  match es with
  | [] => true
  | e :: r => acc_ev s e && match snd (mstep c s e) with OErr _ => true | _ => acc_run c (fst (mstep c s e)) r end
  end.
