(* Snap/ProofsScan.v — a freshly built scan cursor (Model.scan_new) over sorted memtable lists and a
   well-formed version behaves, for every program of calls, as the reference cursor over the
   composed specification of its nesting, as long as the lists under it do not change.  Built from
   the refinement theorems of area Cursor (C11) and the leaf lemmas of ProofsLeaf. *)
From Coq Require Import NArith ZArith List Bool Lia Permutation.
From Blue Require Import Cursor.Iface Cursor.Ref Cursor.Lazy Cursor.Bounds Cursor.Pruning Cursor.Concat Cursor.Merging
  Cursor.Spec Cursor.Proofs_Order Cursor.Proofs_Ref Cursor.Proofs_Lazy Cursor.Proofs_Bounds Cursor.Proofs_Concat
  Cursor.Proofs_Pruning Cursor.Proofs_Merging Cursor.Proofs_Spec
  Snap.Model Snap.ProofsPres Snap.ProofsLeaf.
Import ListNotations.
Local Open Scope Z_scope.

Section Scan.
Variable fuel : nat.

(* ---------------------------------------------------------------- wrapping into the state tree *)
Ltac wrap_tac U comb :=
  let H := fresh in intros H;
  eapply (sim_refines _ _ (fun u i => exists s, u = U s /\ refines comb s _ i));
  [constructor;
   [ intros u j [s0 [-> Hr]]; eapply refines_range; eauto
   | intros u j [s0 [-> Hr]]; exact (refines_kv comb s0 _ j Hr)
   | intros u j [s0 [-> Hr]]; exact (refines_fail comb s0 _ j Hr)
   | intros o u j [s0 [-> Hr]]; eexists; split; [destruct o; reflexivity|]; apply refines_step; exact Hr ]
  | eexists; split; [reflexivity|exact H] ].

Lemma wrap_XL child f mk s l i : refines (lazyx mk) s l i -> refines (xcur1 fuel child) (XL f mk s) l i.
Proof. wrap_tac (XL f mk) (lazyx mk). Qed.
Lemma wrap_XM child s l i : refines (merging child) s l i -> refines (xcur1 fuel child) (XM s) l i.
Proof. wrap_tac XM (merging child). Qed.
Lemma wrap_XC child s l i : refines (concat_cursor child) s l i -> refines (xcur1 fuel child) (XC s) l i.
Proof. wrap_tac XC (concat_cursor child). Qed.
Lemma wrap_XB child lo hi s l i : refines (bounds child fuel lo hi) s l i -> refines (xcur1 fuel child) (XB lo hi s) l i.
Proof. wrap_tac (XB lo hi) (bounds child fuel lo hi). Qed.
Lemma wrap_XP child t s l i : refines (pruning child fuel t) s l i -> refines (xcur1 fuel child) (XP t s) l i.
Proof. wrap_tac (XP t) (pruning child fuel t). Qed.

Lemma xcur_unfold d : exists child, xcur fuel d = xcur1 fuel child.
Proof. destruct d; cbn; eauto. Qed.

(* ---------------------------------------------------------------- the memtable cursor *)
(* any cursor record of the family acts on a wrapper leaf as the skiplist iterator does *)
Variable ch : cursor xst.
Hypothesis Hstep : forall o m g, step ch o (XG m g) = XG m (step gcur o g).
Hypothesis Hkv : forall m g, c_kv ch (XG m g) = g_kv (g_pos g).
Hypothesis Hfail : forall m g, c_fail ch (XG m g) = None.

(* the wrapper leaf with the conventional seek_to_first *)
Definition xfix0 : cursor xst := {|
  c_first := fun u => match u with XG m g => XG m (mkG (g_tab g) GHead) | _ => c_first ch u end;
  c_last := c_last ch; c_seek := c_seek ch; c_prev := c_prev ch;
  c_next := c_next ch; c_kv := c_kv ch; c_fail := c_fail ch |}.

Lemma ch_first m g : c_first ch (XG m g) = XG m (c_first gcur g). Proof. exact (Hstep OFirst m g). Qed.
Lemma ch_last m g : c_last ch (XG m g) = XG m (c_last gcur g). Proof. exact (Hstep OLast m g). Qed.
Lemma ch_seek k m g : c_seek ch k (XG m g) = XG m (c_seek gcur k g). Proof. exact (Hstep (OSeek k) m g). Qed.
Lemma ch_prev m g : c_prev ch (XG m g) = XG m (c_prev gcur g). Proof. exact (Hstep OPrev m g). Qed.
Lemma ch_next m g : c_next ch (XG m g) = XG m (c_next gcur g). Proof. exact (Hstep ONext m g). Qed.

Lemma xfix0_step o m g : step xfix0 o (XG m g) = XG m (step gfix o g).
Proof.
  destruct o; cbn [step xfix0 gfix c_first c_last c_seek c_prev c_next].
  - reflexivity.
  - apply ch_last.
  - apply ch_seek.
  - apply ch_prev.
  - apply ch_next.
Qed.

Section Mem.
Variables (m : N) (l : list entry).
Hypothesis Hs : sorted l.

Definition isG (u : xst) : Prop := exists g, u = XG m g /\ g_tab g = l.

Lemma gcur_tab o g : g_tab (step gcur o g) = g_tab g.
Proof. destruct o; reflexivity. Qed.

Lemma isG_closed0 : closed ch isG.
Proof. intros o u [g [-> Ht]]. rewrite Hstep. eexists. split; [reflexivity|]. now rewrite gcur_tab. Qed.

Lemma xfix0_sim : sim xfix0 l (fun u i => exists g, u = XG m g /\ GR l g i).
Proof.
  constructor.
  - intros u i [g [-> H]]. now apply (GR_range l g i).
  - intros u i [g [-> H]]. cbn [xfix0 c_kv]. rewrite Hkv. exact (sim_kv gfix l (GR l) (gfix_sim l Hs) g i H).
  - intros u i [g [-> H]]. cbn [xfix0 c_fail]. apply Hfail.
  - intros o u i [g [-> H]]. rewrite xfix0_step. eexists. split; [reflexivity|].
    exact (sim_step gfix l (GR l) (gfix_sim l Hs) o g i H).
Qed.
Lemma xfix0_refines g i : GR l g i -> refines xfix0 (XG m g) l i.
Proof. intros H. apply (sim_refines xfix0 l _ xfix0_sim). eauto. Qed.

Lemma pred_first a r : l = a :: r -> g_pred l a = GHead.
Proof.
  intros El. assert (ent l 0 = Some a) as He by (rewrite El; apply ent_cons_0).
  destruct (pred_GR l Hs 0 a He) as [_ H]. cbn [g_pos] in H. destruct (g_pred l a) as [|e|]; [reflexivity| |].
  - apply ent_range in H. lia.
  - pose proof (len_nonneg l). lia.
Qed.

(* on a non-empty list, or with a start bound, the BoundsCursor cannot tell the two leaves apart *)
Lemma bfirst_eq lo hi st : isG (b_cur st) -> (l <> [] \/ lo <> Unbounded) ->
  b_first_raw ch lo hi st = b_first_raw xfix0 lo hi st.
Proof.
  intros [g [Hc Ht]] Hne. unfold b_first_raw. destruct lo as [|k|k]; try reflexivity.
  destruct Hne as [Hne|Hne]; [|congruence].
  assert (prev_if_some ch (c_first ch (b_cur (set_pos st BeforeStart))) =
          prev_if_some xfix0 (c_first xfix0 (b_cur (set_pos st BeforeStart)))) as E.
  { cbn [set_pos b_cur]. rewrite Hc.
    unfold prev_if_some, has_key. cbn [xfix0 c_first c_kv c_prev]. rewrite ch_first, !Hkv. cbn [gcur c_first g_pos g_kv]. rewrite Ht.
    assert (exists a r, l = a :: r) as [a [r El]] by (clear -Hne; destruct l; [congruence|eauto]).
    assert (g_front l = GAt a) as Ef by (rewrite El; reflexivity). rewrite Ef. cbn [g_kv]. rewrite ch_prev.
    cbn [gcur c_prev g_tab g_pos g_prev]. rewrite (pred_first a r El). reflexivity. }
  rewrite E. reflexivity.
Qed.

Lemma bstep_eq lo hi o st : isG (b_cur st) -> (l <> [] \/ lo <> Unbounded) ->
  step (bounds ch fuel lo hi) o st = step (bounds xfix0 fuel lo hi) o st.
Proof.
  intros HG Hne. destruct o; cbn [step bounds c_first c_last c_seek c_prev c_next]; unfold b_guard; destruct (b_fail st); try reflexivity.
  - now apply bfirst_eq.
  - unfold b_seek_raw.
    set (st1 := check_start ch lo (check_end ch hi (set_cur (set_pos st Positioned) (c_seek ch k (b_cur (set_pos st Positioned)))))).
    change (check_start xfix0 lo (check_end xfix0 hi (set_cur (set_pos st Positioned) (c_seek xfix0 k (b_cur (set_pos st Positioned)))))) with st1.
    assert (isG (b_cur st1)) as HG1.
    { unfold st1. apply (pres_check_start ch isG lo). apply (pres_check_end ch isG hi).
      unfold qb. cbn [set_cur set_pos b_cur]. apply (isG_closed0 (OSeek k)). exact HG. }
    rewrite (bfirst_eq lo hi st1 HG1 Hne). reflexivity.
Qed.

Definition memR lo hi (st : bstate xst) (P : Z) : Prop := bounds_R xfix0 lo hi l st P /\ isG (b_cur st).

Lemma mem_sim_nonempty lo hi : (l <> [] \/ lo <> Unbounded) -> Z.of_nat fuel >= len l + 2 ->
  sim (bounds ch fuel lo hi) (bounds_spec lo hi l) (memR lo hi).
Proof.
  intros Hne Hfu. pose proof (bounds_sim xfix0 fuel lo hi l Hs Hfu) as Hsim. constructor.
  - intros st P [H _]. exact (sim_range _ _ _ Hsim st P H).
  - intros st P [H _]. exact (sim_kv _ _ _ Hsim st P H).
  - intros st P [H _]. exact (sim_fail _ _ _ Hsim st P H).
  - intros o st P [H HG]. split.
    + rewrite (bstep_eq lo hi o st HG Hne). exact (sim_step _ _ _ Hsim o st P H).
    + apply (pres_bounds ch isG isG_closed0 fuel lo hi o st HG).
Qed.

(* over the empty list nothing is ever returned *)
Definition isE (u : xst) : Prop := exists p, u = XG m (mkG [] p) /\ (p = GHead \/ p = GEnd).
Definition emptyR (st : bstate xst) (P : Z) : Prop := b_fail st = None /\ isE (b_cur st) /\ -1 <= P <= 0.

Lemma isE_closed : closed ch isE.
Proof. intros o u [p [-> Hp]]. rewrite Hstep. destruct o; destruct Hp as [-> | ->]; cbn; eexists; split; try reflexivity; auto. Qed.
Lemma isE_kv u : isE u -> c_kv ch u = None.
Proof. intros [p [-> Hp]]. rewrite Hkv. destruct Hp as [-> | ->]; reflexivity. Qed.

Lemma mem_sim_empty lo hi : (1 <= fuel)%nat -> sim (bounds ch fuel lo hi) [] emptyR.
Proof.
  intros Hfu.
  assert (forall st, isE (b_cur st) -> b_kv ch st = None) as Hbkv
    by (intros st H; unfold b_kv; destruct (b_pos st); try reflexivity; now apply isE_kv).
  assert (forall st, isE (b_cur st) -> check_start ch lo st = st) as Hcs by (intros st0 H0; unfold check_start; now rewrite (Hbkv st0 H0)).
  assert (forall st, isE (b_cur st) -> check_end ch hi st = st) as Hce by (intros st0 H0; unfold check_end; now rewrite (Hbkv st0 H0)).
  assert (forall u, isE u -> has_key ch u = false) as Hhk by (intros u Hu; unfold has_key; now rewrite (isE_kv u Hu)).
  assert (forall u, isE u -> prev_if_some ch u = u) as Hpi by (intros u Hu; unfold prev_if_some; now rewrite (Hhk u Hu)).
  assert (forall n k u, isE u -> skip_equal ch n k u = Some u) as Hse by (intros n k u Hu; destruct n; cbn [skip_equal]; now rewrite (isE_kv u Hu)).
  (* the pieces: each keeps the shape and cannot fail *)
  assert (forall cur pos0, isE cur -> b_fail (b_first_raw ch lo hi (mkB cur pos0 None)) = None /\ isE (b_cur (b_first_raw ch lo hi (mkB cur pos0 None)))) as Hfirst.
  { intros cur pos0 Hc. unfold b_first_raw.
    destruct lo as [|k|k]; cbn [set_pos set_cur b_cur];
      [pose proof (isE_closed OFirst cur Hc) as H1|pose proof (isE_closed (OSeek k) cur Hc) as H1|pose proof (isE_closed (OSeek k) cur Hc) as H1];
      cbn [step] in H1; rewrite (Hpi _ H1); rewrite Hce by (cbn [b_cur]; exact H1); cbn [b_fail b_cur]; auto. }
  assert (forall cur pos0, isE cur -> b_fail (b_last_raw ch fuel lo hi (mkB cur pos0 None)) = None /\ isE (b_cur (b_last_raw ch fuel lo hi (mkB cur pos0 None)))) as Hlast.
  { intros cur pos0 Hc. unfold b_last_raw. destruct hi as [|k|k]; cbn [set_pos set_cur b_cur].
    - pose proof (isE_closed OLast cur Hc) as H1. cbn [step] in H1. rewrite Hcs by (cbn [b_cur]; exact H1). cbn [b_fail b_cur]. auto.
    - pose proof (isE_closed (OSeek k) cur Hc) as H1. cbn [step] in H1. rewrite (Hse fuel k _ H1).
      cbn [set_cur set_pos]. rewrite Hcs by (cbn [b_cur]; exact H1). cbn [b_fail b_cur]. auto.
    - pose proof (isE_closed (OSeek k) cur Hc) as H1. cbn [step] in H1. rewrite Hcs by (cbn [b_cur]; exact H1). cbn [b_fail b_cur]. auto. }
  assert (forall cur pos0, isE cur -> b_fail (b_next_raw ch fuel lo hi (mkB cur pos0 None)) = None /\ isE (b_cur (b_next_raw ch fuel lo hi (mkB cur pos0 None)))) as Hnext.
  { intros cur pos0 Hc. unfold b_next_raw. destruct fuel as [|f]; [lia|]. cbn [b_next_loop b_pos].
    destruct (bpos_eqb pos0 AfterEnd); [cbn [b_fail b_cur]; auto|].
    pose proof (isE_closed ONext cur Hc) as H1. cbn [step] in H1. cbn [set_cur set_pos b_cur].
    rewrite Hcs by (cbn [b_cur]; exact H1). rewrite Hce by (cbn [b_cur]; exact H1). cbn [b_pos bpos_eqb negb b_fail b_cur]. auto. }
  constructor.
  - intros st P [_ [_ H]]. rewrite len_nil. lia.
  - intros st P [_ [Hc _]]. cbn [bounds c_kv]. rewrite (Hbkv st Hc). now rewrite ent_nil.
  - intros st P [H _]. exact H.
  - intros o st P [Hf [Hc HP]].
    assert (-1 <= step (ref []) o P <= 0) as HP' by (pose proof (ref_step_range [] o P); rewrite len_nil in *; auto).
    destruct st as [cur pos fl]. cbn [b_fail b_cur] in *. subst fl.
    destruct o; cbn [step bounds c_first c_last c_seek c_prev c_next b_guard b_fail].
    + destruct (Hfirst cur pos Hc) as [H1 H2]. split; auto.
    + destruct (Hlast cur pos Hc) as [H1 H2]. split; auto.
    + unfold b_seek_raw. cbn [set_pos set_cur b_cur]. pose proof (isE_closed (OSeek k) cur Hc) as H1. cbn [step] in H1.
      rewrite Hce by (cbn [b_cur]; exact H1). rewrite Hcs by (cbn [b_cur]; exact H1).
      unfold set_cur, set_pos. cbn [b_pos bpos_eqb b_cur b_fail orb].
      rewrite (Hhk _ H1). cbn [negb]. destruct (Hlast (c_seek ch k cur) Positioned H1) as [H2 H3]. split; auto.
    + unfold b_prev_raw. cbn [b_pos]. destruct (negb (bpos_eqb pos BeforeStart)); cbn [set_pos set_cur b_cur].
      * pose proof (isE_closed OPrev cur Hc) as H1. cbn [step] in H1. rewrite Hcs by (cbn [b_cur]; exact H1). cbn [b_fail b_cur]. split; auto.
      * rewrite Hcs by (cbn [b_cur]; exact Hc). cbn [b_fail b_cur]. split; auto.
    + destruct (Hnext cur pos Hc) as [H1 H2]. split; auto.
Qed.

(* MemTable::range_scan's cursor after BoundsCursor::new, over a list that does not change *)
Theorem mem_bounds_refines lo hi : Z.of_nat fuel >= len l + 2 ->
  refines (bounds ch fuel lo hi) (b_new ch lo hi (XG m (g_new l))) (bounds_spec lo hi l) (-1).
Proof.
  intros Hfu. destruct l as [|a r] eqn:El.
  - assert (bounds_spec lo hi [] = []) as -> by reflexivity.
    assert (1 <= fuel)%nat as Hf1 by (rewrite len_nil in Hfu; lia).
    apply (sim_refines _ _ _ (mem_sim_empty lo hi Hf1)). unfold b_new.
    pose proof (sim_step _ _ _ (mem_sim_empty lo hi Hf1) OFirst (mkB (XG m (g_new [])) BeforeStart None) (-1)) as Hst.
    cbn [step bounds c_first b_guard b_fail] in Hst. destruct Hst as [H1 [H2 _]]; [|split; [exact H1|split; [exact H2|lia]]].
    split; [reflexivity|]. split; [eexists; split; [reflexivity|now right]|lia].
  - rewrite <- El in *. assert (l <> [] \/ lo <> Unbounded) as Hne by (left; rewrite El; discriminate).
    apply (sim_refines _ _ _ (mem_sim_nonempty lo hi Hne Hfu)). split.
    + unfold b_new.
      assert (isG (b_cur (mkB (XG m (g_new l)) BeforeStart None))) as HG0 by (cbn [b_cur]; eexists; split; reflexivity).
      rewrite (bfirst_eq lo hi _ HG0 Hne).
      apply (bounds_new_R xfix0 fuel lo hi l (XG m (g_new l)) (len l)). apply xfix0_refines. split; [reflexivity|reflexivity].
    + apply (pres_b_new ch isG isG_closed0 lo hi). eexists. split; reflexivity.
Qed.
End Mem.
End Scan.

(* ---------------------------------------------------------------- the whole nesting *)
Lemma xcur_leaf_step fuel d o m g : step (xcur fuel d) o (XG m g) = XG m (step gcur o g).
Proof. destruct d; destruct o; reflexivity. Qed.
Lemma xcur_leaf_kv fuel d m g : c_kv (xcur fuel d) (XG m g) = g_kv (g_pos g).
Proof. destruct d; reflexivity. Qed.
Lemma xcur_leaf_fail fuel d m g : c_fail (xcur fuel d) (XG m g) = None.
Proof. destruct d; reflexivity. Qed.

(* what the combinators need: sorted lists, sorted files, levels whose selected files are sorted
   end to end, and no (key, timestamp) twice among what is merged *)
Definition scan_wf (lo hi : bound) (ls : list (list entry)) (v : list (list file)) : Prop :=
  Forall sorted ls /\
  Forall (fun f => sorted (f_ents f)) (concat v) /\
  Forall (fun level => sorted (concat (map f_ents (filter (overlaps lo hi) level)))) (tl v) /\
  distinct (concat (ver_parts lo hi v)) /\
  distinct (concat (top_parts lo hi ls v)).

Lemma scan_wfb_ok lo hi ls v : scan_wfb lo hi ls v = true -> scan_wf lo hi ls v.
Proof.
  unfold scan_wfb, scan_wf. rewrite !andb_true_iff, !forallb_forall.
  assert (forall l, sortedb l = true -> sorted l) as Hs by (intros l; apply sorted_of_bool).
  assert (forall l, distinctb l = true -> distinct l) as Hd by (intros l; apply distinct_of_bool).
  intros [[[[H1 H2] H3] H4] H5]. repeat split.
  - apply Forall_forall. intros l Hl. apply Hs. now apply H1.
  - apply Forall_forall. intros f Hf. apply Hs. now apply H2.
  - apply Forall_forall. intros lv Hlv. apply Hs. now apply H3.
  - now apply Hd.
  - now apply Hd.
Qed.

Lemma len_filter_le {A} (f : A -> bool) l : len (filter f l) <= len l.
Proof. unfold len. induction l as [|a l IH]; cbn; [lia|]. destruct (f a); cbn [length]; lia. Qed.
Lemma len_merge ls : len (merge_spec ls) = len (concat ls).
Proof. unfold len. now rewrite <- (Permutation_length (merge_spec_perm ls)). Qed.
Lemma len_concat_app {A} (l1 l2 : list (list A)) : len (concat (l1 ++ l2)) = len (concat l1) + len (concat l2).
Proof. now rewrite concat_app, len_app. Qed.

Lemma ver_parts_len lo hi v : len (concat (ver_parts lo hi v)) <= len (concat (map f_ents (concat v))).
Proof.
  unfold ver_parts. destruct v as [|l0 r]; [cbn; lia|]. cbn [hd tl concat]. rewrite map_app, !len_concat_app.
  assert (len (concat (flat_map (level_part lo hi) r)) <= len (concat (map f_ents (concat r)))); [|lia].
  induction r as [|lv r IH]; [cbn; lia|]. cbn [flat_map concat]. rewrite map_app, !len_concat_app.
  assert (len (concat (level_part lo hi lv)) <= len (concat (map f_ents lv))); [|lia].
  unfold level_part. destruct (filter (overlaps lo hi) lv) as [|f fs] eqn:E; [cbn; pose proof (len_nonneg (concat (map f_ents lv))); lia|].
  cbn [concat]. rewrite app_nil_r, <- E. clear. induction lv as [|f lv IH]; [cbn; lia|]. cbn [filter].
  destruct (overlaps lo hi f); cbn [map concat]; rewrite ?len_app; pose proof (len_nonneg (f_ents f)); lia.
Qed.
Lemma top_parts_len lo hi ls v : len (concat (top_parts lo hi ls v)) <= Z.of_nat (total_size ls v).
Proof.
  unfold top_parts, total_size. rewrite len_concat_app. cbn [concat]. rewrite app_nil_r. unfold ver_list. rewrite len_merge.
  pose proof (ver_parts_len lo hi v). rewrite Nat2Z.inj_add. fold (len (concat ls)). fold (len (concat (map f_ents (concat v)))).
  assert (len (concat (map (bounds_spec lo hi) ls)) <= len (concat ls)); [|lia].
  induction ls as [|l ls IH]; [cbn; lia|]. cbn [map concat]. rewrite !len_app. unfold bounds_spec at 1. pose proof (len_filter_le (in_bounds lo hi) l). lia.
Qed.

Lemma in_concat_len {A} (l : list A) ls : In l ls -> len l <= len (concat ls).
Proof.
  induction ls as [|a r IH]; [intros []|]. cbn [concat]. rewrite len_app. intros [->|H]; [pose proof (len_nonneg (concat r)); lia|].
  specialize (IH H). pose proof (len_nonneg a). lia.
Qed.

Theorem scan_new_refines fuel lo hi t (mems : list (N * list entry)) v :
  scan_wf lo hi (map snd mems) v -> (total_size (map snd mems) v + 2 <= fuel)%nat ->
  refines (xcur fuel scan_depth) (scan_new fuel lo hi t mems v) (scan_list lo hi t (map snd mems) v) (-1).
Proof.
  intros [Hls [Hfiles [Hlevels [Hdv Hdt]]]] Hfu. set (ls := map snd mems) in *.
  pose proof (top_parts_len lo hi ls v) as Htl.
  assert (sorted (ver_list lo hi v)) as Hvs by (apply merge_spec_sorted; exact Hdv).
  assert (sorted (merge_spec (top_parts lo hi ls v))) as Hms by (apply merge_spec_sorted; exact Hdt).
  unfold scan_new, scan_depth, scan_list. change (xcur fuel 5) with (xcur1 fuel (xcur fuel 4)).
  apply wrap_XB. apply (bounds_refines (xcur fuel 4) fuel lo hi (prune_spec t (merge_spec (top_parts lo hi ls v))) _ (-1)).
  { apply sorted_filter. exact Hms. }
  { unfold prune_spec. pose proof (len_filter_le (visible t (merge_spec (top_parts lo hi ls v))) (merge_spec (top_parts lo hi ls v))).
    rewrite len_merge in H. lia. }
  change (xcur fuel 4) with (xcur1 fuel (xcur fuel 3)). apply wrap_XP.
  apply (pruning_refines (xcur fuel 3) fuel t (merge_spec (top_parts lo hi ls v)) _ (-1)); [exact Hms|rewrite len_merge; lia|].
  change (xcur fuel 3) with (xcur1 fuel (xcur fuel 2)). apply wrap_XM.
  apply (merging_refines (xcur fuel 2) (merge_spec (top_parts lo hi ls v)) (top_parts lo hi ls v)); [exact Hms|apply merge_spec_perm| |].
  - unfold top_parts. apply Forall_app. split; [|constructor; [exact Hvs|constructor]].
    apply Forall_forall. intros li Hli. apply in_map_iff in Hli. destruct Hli as [l0 [<- Hl0]]. apply sorted_filter.
    rewrite Forall_forall in Hls. now apply Hls.
  - unfold top_parts. apply Forall2_app.
    + (* the memtable cursors *)
      unfold ls. rewrite map_map. clear Hdt Hms Htl. assert (forall ml, In ml mems -> sorted (snd ml) /\ Z.of_nat fuel >= len (snd ml) + 2) as Hml.
      { intros ml Hin. split; [rewrite Forall_forall in Hls; apply Hls; unfold ls; now apply in_map|].
        assert (len (snd ml) <= len (concat ls)) by (apply in_concat_len; unfold ls; now apply in_map).
        unfold total_size in Hfu. fold (len (concat ls)) in Hfu. unfold len in *. lia. }
      clear -Hml. induction mems as [|ml r IH]; cbn [map]; constructor; [|apply IH; intros x Hx; apply Hml; now right].
      exists (-1). destruct ml as [m l]. destruct (Hml (m, l) (or_introl eq_refl)) as [Hs Hf]. cbn [snd] in *.
      unfold mem_leaf. cbn [fst snd]. apply (refines_first (xcur fuel 2) _ _ (-1)).
      change (xcur fuel 2) with (xcur1 fuel (xcur fuel 1)). apply wrap_XB.
      apply (mem_bounds_refines fuel (xcur fuel 1) (xcur_leaf_step fuel 1) (xcur_leaf_kv fuel 1) (xcur_leaf_fail fuel 1) m l Hs lo hi Hf).
    + (* the version *)
      constructor; [|constructor]. exists (-1). unfold version_scan, ver_list.
      change (xcur fuel 2) with (xcur1 fuel (xcur fuel 1)). apply wrap_XM.
      apply (merging_refines (xcur fuel 1) (merge_spec (ver_parts lo hi v)) (ver_parts lo hi v)); [exact Hvs|apply merge_spec_perm| |].
      * unfold ver_parts. apply Forall_app. split.
        -- apply Forall_forall. intros li Hli. apply in_map_iff in Hli. destruct Hli as [f [<- Hf]].
           rewrite Forall_forall in Hfiles. apply Hfiles. destruct v as [|l0 r]; [destruct Hf|]. cbn [hd] in Hf. cbn [concat]. apply in_or_app. now left.
        -- apply Forall_forall. intros li Hli. apply in_flat_map in Hli. destruct Hli as [lv [Hlv Hli]].
           unfold level_part in Hli. destruct (filter (overlaps lo hi) lv) as [|f fs] eqn:E; [destruct Hli|]. destruct Hli as [<-|[]].
           rewrite Forall_forall in Hlevels. specialize (Hlevels lv Hlv). rewrite E in Hlevels. exact Hlevels.
      * unfold ver_parts. apply Forall2_app.
        -- assert (forall f, In f (hd [] v) -> sorted (f_ents f)) as Hl0.
           { intros f Hf. rewrite Forall_forall in Hfiles. apply Hfiles. destruct v as [|l0 r]; [destruct Hf|]. cbn [hd] in Hf. cbn [concat]. apply in_or_app. now left. }
           clear -Hl0. induction (hd [] v) as [|f r IH]; cbn [map]; constructor; [|apply IH; intros x Hx; apply Hl0; now right].
           exists (-1). unfold lazy_leaf. change (xcur fuel 1) with (xcur1 fuel (xcur fuel 0)). apply wrap_XL. apply lazy_leaf_refines. apply Hl0. now left.
        -- assert (forall lv, In lv (tl v) -> sorted (concat (map f_ents (filter (overlaps lo hi) lv))) /\ forall f, In f lv -> sorted (f_ents f)) as Hlv.
           { intros lv Hin. split; [rewrite Forall_forall in Hlevels; now apply Hlevels|]. intros f Hf. rewrite Forall_forall in Hfiles. apply Hfiles.
             destruct v as [|l0 r]; [destruct Hin|]. cbn [tl] in Hin. cbn [concat]. apply in_or_app. right. apply in_concat. eauto. }
           clear -Hlv. induction (tl v) as [|lv r IH]; cbn [flat_map]; [constructor|].
           apply Forall2_app; [|apply IH; intros x Hx; apply Hlv; now right].
           destruct (Hlv lv (or_introl eq_refl)) as [Hsl Hsf]. unfold level_part.
           destruct (filter (overlaps lo hi) lv) as [|f fs] eqn:E; [constructor|]. constructor; [|constructor].
           exists (-1). change (xcur fuel 1) with (xcur1 fuel (xcur fuel 0)). apply wrap_XC.
           apply (concat_refines (xcur fuel 0) (map f_ents (f :: fs))); [exact Hsl|discriminate|].
           assert (forall g, In g (f :: fs) -> sorted (f_ents g)) as Hg.
           { intros g Hg. apply Hsf. assert (In g (filter (overlaps lo hi) lv)) as H by (rewrite E; exact Hg). apply filter_In in H. tauto. }
           clear -Hg. induction (f :: fs) as [|g r IH]; cbn [map]; constructor; [|apply IH; intros x Hx; apply Hg; now right].
           exists (-1). unfold lazy_leaf. cbn [xcur]. apply wrap_XL. apply lazy_leaf_refines. apply Hg. now left.
Qed.
